package main

// C19: concurrent cold-start safety. Every case is a FRESH process of the race-detector build of
// harness/racecmd: 2..32 goroutines behind a barrier, each performing one library action as its
// first call. A race report, a result that differs from the sequential baseline, or duplicate RPC
// request ids is a failure; the replay is the exact command line.

import (
	"bytes"
	"context"
	"fmt"
	"os"
	"os/exec"
	"path/filepath"
	"sort"
	"strconv"
	"strings"
	"sync"
	"time"
)

var (
	raceBinOnce sync.Once
	raceBin     string
	raceBinErr  string
	raceBase    map[string]string
)

func raceBinary() (string, string) {
	raceBinOnce.Do(func() {
		self, _ := os.Executable()
		dir := filepath.Dir(self)
		raceBin = filepath.Join(dir, "racecmd"+filepath.Ext(self)+strings.TrimPrefix(filepath.Base(self), "harness"))
		src := os.Getenv("VERIF_HARNESS_SRC") // set by bin/check to its own harness directory
		if src == "" {
			src = "/verif/harness"
		}
		cmd := exec.Command("go", "build", "-race", "-o", raceBin, "./racecmd")
		cmd.Dir = src
		cmd.Env = append(os.Environ(), "CGO_ENABLED=1")
		if out, err := cmd.CombinedOutput(); err != nil {
			raceBinErr = "cannot build the race rig: " + string(out)
			return
		}
		// sequential baseline, one action per "goroutine" slot, in a fresh process
		names, err := exec.Command(raceBin, "-list").Output()
		if err != nil {
			raceBinErr = "race rig -list failed"
			return
		}
		all := strings.Split(strings.TrimSpace(string(names)), ",")
		bctx, bcancel := context.WithTimeout(context.Background(), 180*time.Second)
		defer bcancel()
		out, err := exec.CommandContext(bctx, raceBin, "-seq", "-g", strconv.Itoa(len(all)), "-ops", strings.Join(all, ",")).Output()
		if err != nil && bctx.Err() != nil {
			// not a broken check: the library blocked while its calls were made one after the other
			raceBaseHung = strings.Join(all, ",")
			raceBase = map[string]string{}
			return
		}
		if err != nil {
			raceBinErr = "race rig baseline failed: " + err.Error()
			return
		}
		raceBase = map[string]string{}
		for _, l := range strings.Split(string(out), "\n") {
			f := strings.SplitN(l, "\t", 3)
			if len(f) == 3 && f[0] != "ids" {
				raceBase[f[1]] = f[2]
			}
		}
	})
	return raceBin, raceBinErr
}

var raceBaseHung string

// race.run <g> <procs> <seed> <ops>
func raceRun(a []string) (string, []string) {
	bin, berr := raceBinary()
	if berr != "" {
		return "bad-op " + berr, nil
	}
	// a verdict that depends on the scheduler is re-run before it is reported (flake policy)
	ctx, cancel := context.WithTimeout(context.Background(), 120*time.Second)
	defer cancel()
	cmd := exec.CommandContext(ctx, bin, "-g", a[0], "-procs", a[1], "-seed", a[2], "-ops", a[3])
	cmd.Env = append(os.Environ(), "GORACE=halt_on_error=0 exitcode=0")
	var stdout, stderr bytes.Buffer
	cmd.Stdout, cmd.Stderr = &stdout, &stderr
	if err := cmd.Run(); err != nil {
		if ctx.Err() != nil {
			return "err", []string{"the concurrent run did not finish within 120 s (the same actions finish in seconds when run alone): goroutines blocked for good — " + a[3]}
		}
		return "err", []string{"race rig process failed: " + err.Error() + " " + truncate(stderr.String(), 400)}
	}
	var direct []string
	if strings.Contains(stderr.String(), "DATA RACE") {
		// first report: the two access stacks' top frames
		var frames []string
		for _, l := range strings.Split(stderr.String(), "\n") {
			l = strings.TrimSpace(l)
			if strings.Contains(l, "github.com/kklash/") && strings.HasSuffix(l, ")") && len(frames) < 6 {
				frames = append(frames, l)
			}
		}
		direct = append(direct, "data race reported by the race detector: "+strings.Join(frames, " | "))
	}
	var ids []string
	n := 0
	for _, l := range strings.Split(stdout.String(), "\n") {
		f := strings.SplitN(l, "\t", 3)
		if len(f) == 2 && f[0] == "ids" {
			ids = strings.Fields(strings.Trim(f[1], "[]"))
			continue
		}
		if len(f) == 2 && f[0] == "clash" {
			direct = append(direct, f[1])
			continue
		}
		if len(f) != 3 {
			continue
		}
		n++
		if want, ok := raceBase[f[1]]; ok && want != f[2] {
			direct = append(direct, fmt.Sprintf("action %s returned a different result than when run alone: %s vs %s", f[1], truncate(f[2], 80), truncate(want, 80)))
		}
		if strings.HasPrefix(f[2], "wrong:") {
			direct = append(direct, "action "+f[1]+": "+truncate(f[2], 160))
		}
		if strings.HasPrefix(f[2], "panic") {
			direct = append(direct, "action "+f[1]+" panicked: "+truncate(f[2], 120))
		}
	}
	// (a request that is retried may carry its own id again; what must not happen is one id for two
	// different requests: the transport reports those as clashes)
	nrpc := 0
	for i, g := 0, atoiOr(a[0], 0); i < g; i++ {
		ops := strings.Split(a[3], ",")
		switch ops[i%len(ops)] {
		case "rpc":
			nrpc += 2
		case "rpcstorm":
			nrpc += 40
		case "rpcbad":
			nrpc += 1
		case "rpcbusy":
			nrpc += 2
		}
	}
	if len(ids) != nrpc {
		direct = append(direct, fmt.Sprintf("expected %d RPC request ids, the transport saw %d", nrpc, len(ids)))
	}
	return fmt.Sprintf("ok actions=%d ids=%d", n, len(ids)), direct
}

func atoiOr(s string, d int) int {
	n, err := strconv.Atoi(s)
	if err != nil {
		return d
	}
	return n
}

func init() {
	regRunner("C19", runC19)
	reg("race.run", GoOnly, raceRun)
}

func runC19(r *Runner) string {
	bin, berr := raceBinary()
	if berr != "" {
		// the tree does not build: a broken check, not a violation
		fmt.Fprintln(os.Stderr, "harness:", berr)
		os.Exit(2)
	}
	_ = bin
	if raceBaseHung != "" {
		r.addFailure(Failure{Kind: "property", Op: "race.run", Args: []string{"1", "1", "0", raceBaseHung}, Go: "hang",
			Detail: "the actions run one after the other in ONE goroutine did not finish within 180 s: a call blocked for good (a lock that is not released on some path); the same sequence finishes in seconds on a tree where the property holds", Tag: "sequential-baseline"}, false)
		return "sequential baseline of the race rig"
	}
	namesOut, _ := exec.Command(raceBin, "-list").Output()
	all := strings.Split(strings.TrimSpace(string(namesOut)), ",")
	sort.Strings(all)
	// groups of actions that touch the same package-level state
	groups := [][]string{
		{"pubkey", "pubkeyu", "pubkeyx", "ecdsasign", "ecdsaverify", "schnorrsign", "schnorrverify", "taptweak"},
		{"bip32master", "bip32priv", "bip32pub"},
		{"fpheld"},
		{"fpheld", "bip32pub", "xkey"},
		{"base58", "wif", "addrmake", "addrdecode", "bech32", "xkey"},
		{"xkey"},
		{"rpcstorm"},
		{"rpcbad", "rpc", "rpcstorm"},
		{"rpcbusy"},
		{"rpcbusy", "rpc", "rpcstorm"},
		{"storm"},
		{"mnemonic"},
		{"txparse", "sighash"},
		{"txparsewide"},
		{"txparsewide", "txparse", "storm"},
		{"rpc"},
	}
	runs := r.N(80, 900)
	type job struct{ args []string }
	var jobs []job
	for i := 0; i < runs; i++ {
		g := 2 + r.rng.Intn(31)
		if i%3 == 0 {
			g = 2 + r.rng.Intn(4)
		}
		procs := 1 + r.rng.Intn(16)
		var ops []string
		switch i % 4 {
		case 0: // everybody performs the same action
			ops = []string{all[r.rng.Intn(len(all))]}
		case 1: // one group
			ops = groups[r.rng.Intn(len(groups))]
		case 2: // rpc mixed with a group
			ops = append([]string{"rpc"}, groups[r.rng.Intn(len(groups))]...)
		default: // anything
			k := 2 + r.rng.Intn(6)
			for j := 0; j < k; j++ {
				ops = append(ops, all[r.rng.Intn(len(all))])
			}
		}
		ops = append([]string{}, ops...)
		r.rng.Shuffle(len(ops), func(a, b int) { ops[a], ops[b] = ops[b], ops[a] })
		jobs = append(jobs, job{[]string{strconv.Itoa(g), strconv.Itoa(procs), strconv.FormatInt(r.rng.Int63n(1<<30), 10), strings.Join(ops, ",")}})
	}
	// the processes are independent: run a few at a time (each one uses up to `procs` threads)
	type res struct {
		ans    string
		direct []string
	}
	results := make([]res, len(jobs))
	sem := make(chan struct{}, 4)
	var wg sync.WaitGroup
	for i := range jobs {
		wg.Add(1)
		sem <- struct{}{}
		go func(i int) {
			defer wg.Done()
			defer func() { <-sem }()
			a, d := raceRun(jobs[i].args)
			if len(d) > 0 {
				// flake policy: a scheduler-dependent verdict must reproduce in isolation (any of three re-runs)
				rep := false
				for k := 0; k < 3 && !rep; k++ {
					_, d2 := raceRun(jobs[i].args)
					rep = len(d2) > 0
				}
				if !rep {
					d = nil
				}
			}
			results[i] = res{a, d}
		}(i)
	}
	wg.Wait()
	for i, j := range jobs {
		g, _ := strconv.Atoi(j.args[0])
		r.Add(&Case{Op: "race.run", Args: j.args, Go: results[i].ans, Mode: GoOnly, Direct: results[i].direct, NonTrivial: g >= 2, Tag: fmt.Sprintf("g=%s", bucket(g)), Desc: "fresh -race process"})
	}
	return "each case is a fresh process of the -race build of harness/racecmd: g in 2..32 goroutines behind a barrier with randomised start delays, GOMAXPROCS in 1..16, each goroutine's first action drawn from 20 library actions (same action for all / one package group / RPC mixed in / arbitrary); failure = race report, result differing from the sequential fresh-process baseline, panic, one RPC request id issued to two requests, or a missing id. Non-trivial: >= 2 goroutines; distinct = distinct command line."
}

func bucket(g int) string {
	switch {
	case g <= 4:
		return "2-4"
	case g <= 16:
		return "5-16"
	}
	return "17-32"
}
