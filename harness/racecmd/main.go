// Command racecmd is the C19 rig: built with -race, started as a FRESH process for every run so
// that each goroutine's action really is a first call into the library ("cold start").
//
//	racecmd -g 8 -procs 4 -seed 3 -ops pubkey,bip32priv,…   concurrent run behind a barrier
//	racecmd -seq -ops …                                     the same actions one after the other
//
// Output: one line per action `<index>\t<op>\t<result>`; RPC request ids on `ids\t…`.
// Race reports go to stderr (GORACE decides the exit code).
package main

import (
	"bytes"
	"crypto/sha256"
	"encoding/hex"
	"encoding/json"
	"flag"
	"fmt"
	"io"
	"math"
	"math/rand"
	"net/http"
	"os"
	"runtime"
	"sort"
	"strings"
	"sync"
	"sync/atomic"
	"time"

	"github.com/kklash/bitcoinlib/address"
	"github.com/kklash/bitcoinlib/base58"
	"github.com/kklash/bitcoinlib/base58check"
	"github.com/kklash/bitcoinlib/bech32"
	"github.com/kklash/bitcoinlib/bip32"
	"github.com/kklash/bitcoinlib/bip39"
	"github.com/kklash/bitcoinlib/constants"
	"github.com/kklash/bitcoinlib/ecc"
	"github.com/kklash/bitcoinlib/rpc"
	"github.com/kklash/bitcoinlib/taproot"
	"github.com/kklash/bitcoinlib/tx"
	"github.com/kklash/bitcoinlib/varint"
	"github.com/kklash/bitcoinlib/wif"
)

func det(label string, n int) []byte {
	var out []byte
	for i := 0; len(out) < n; i++ {
		h := sha256.Sum256([]byte(fmt.Sprintf("%s/%d", label, i)))
		out = append(out, h[:]...)
	}
	return out[:n]
}

var key = func() []byte { k := det("key", 32); k[0] &= 0x7f; return k }()
var key2 = func() []byte { k := det("key2", 32); k[0] &= 0x7f; return k }()
var digest = det("digest", 32)
var chain = det("chain", 32)

const sampleTx = "0100000000010154dcba4a0f6e3e8b1ba3c4b8f3f4d8b0e6a8b9c0d1e2f30415263748596a7b8c0000000000ffffffff0280969800000000001600145f4a1b2c3d4e5f60718293a4b5c6d7e8f9010203e0e1f505000000001976a9145f4a1b2c3d4e5f60718293a4b5c6d7e8f901020388ac0247304402201111111111111111111111111111111111111111111111111111111111111111022022222222222222222222222222222222222222222222222222222222222222220121031b84c5567b126440995d3ed5aaba0565d71e1834604819ff9c17f5e9d5dd078f00000000"

type recorder struct {
	mu      sync.Mutex
	ids     []int
	tags    map[int]int64  // request id -> tag of the logical request it was issued to
	refused map[int64]bool // logical requests already turned away once
	clashes []string
}

// every request of the rig carries a tag (its first parameter) naming the logical request: a retry sends
// the same tag again
var reqTag int64

func tag() int64 { return atomic.AddInt64(&reqTag, 1) }

func (rt *recorder) RoundTrip(req *http.Request) (*http.Response, error) {
	body, _ := io.ReadAll(req.Body)
	var m struct {
		ID     int               `json:"id"`
		Method string            `json:"method"`
		Params []json.RawMessage `json:"params"`
	}
	json.Unmarshal(body, &m)
	t := int64(-1)
	if len(m.Params) > 0 {
		json.Unmarshal(m.Params[0], &t)
	}
	rt.mu.Lock()
	rt.ids = append(rt.ids, m.ID)
	if rt.tags == nil {
		rt.tags, rt.refused = map[int]int64{}, map[int64]bool{}
	}
	if old, ok := rt.tags[m.ID]; ok && old != t {
		rt.clashes = append(rt.clashes, fmt.Sprintf("request id %d was issued to two different requests", m.ID))
	}
	rt.tags[m.ID] = t
	turnAway := strings.HasPrefix(m.Method, "busy") && !rt.refused[t]
	if turnAway {
		rt.refused[t] = true
	}
	rt.mu.Unlock()
	if turnAway { // bitcoind's overload reply: the library retries the request
		return &http.Response{StatusCode: 503, Body: io.NopCloser(strings.NewReader("Work queue depth exceeded")), Header: http.Header{}, Request: req}, nil
	}
	resp := fmt.Sprintf(`{"result":"%s","error":null,"id":%d}`, m.Method, m.ID)
	return &http.Response{StatusCode: 200, Body: io.NopCloser(bytes.NewReader([]byte(resp))), Header: http.Header{}, Request: req}, nil
}

var rec = &recorder{}
var conn *rpc.Connection

var actions = map[string]func() string{
	"pubkey":  func() string { return hex.EncodeToString(ecc.GetPublicKeyCompressed(key)) },
	"pubkeyu": func() string { return hex.EncodeToString(ecc.GetPublicKeyUncompressed(key2)) },
	"pubkeyx": func() string { return hex.EncodeToString(ecc.GetPublicKeySchnorr(key)) },
	"bip32master": func() string {
		k, c, err := bip32.GenerateMasterKey(det("seed", 32))
		return fmt.Sprintf("%x %x %v", k, c, err)
	},
	"bip32priv": func() string {
		k, c := bip32.DerivePrivateChild(key, chain, 0x80000000, 1, 2)
		return fmt.Sprintf("%x %x", k, c)
	},
	"bip32pub": func() string {
		pub := ecc.GetPublicKeyCompressed(key2)
		k, c, err := bip32.DerivePublicChild(pub, chain, 1, 2)
		return fmt.Sprintf("%x %x %v", k, c, err)
	},
	"ecdsasign": func() string {
		r, s := ecc.SignECDSA(key, digest)
		return fmt.Sprintf("%x %x", r, s)
	},
	"ecdsaverify": func() string {
		r, s := ecc.SignECDSA(key2, digest)
		return fmt.Sprint(ecc.VerifyECDSA(ecc.GetPublicKeyCompressed(key2), digest, r, s))
	},
	"schnorrsign": func() string {
		sig := ecc.SignSchnorr(key, digest, det("aux", 32))
		return fmt.Sprintf("%x", sig)
	},
	"schnorrverify": func() string {
		sig := ecc.SignSchnorr(key2, digest, det("aux", 32))
		return fmt.Sprint(ecc.VerifySchnorr(ecc.GetPublicKeySchnorr(key2), digest, sig))
	},
	"taptweak": func() string {
		out, parity, err := taproot.TweakPublicKey(ecc.GetPublicKeySchnorr(key), det("h", 32))
		return fmt.Sprintf("%x %v %v", out, parity, err)
	},
	"addrmake": func() string {
		a, err := address.Make(constants.FormatP2WPKH, ecc.GetPublicKeyCompressed(key))
		b, err2 := address.Make(constants.FormatP2PKH, ecc.GetPublicKeyCompressed(key))
		return fmt.Sprint(a, err, b, err2)
	},
	"addrdecode": func() string {
		f, s, err := address.Decode("bc1qw508d6qejxtdg4y5r3zarvary0c5xw7kv8f3t4")
		f2, s2, err2 := address.Decode("1BvBMSEYstWetqTFn5Au4m4GFg7xJaNVN2")
		return fmt.Sprintf("%v %x %v %v %x %v", f, s, err, f2, s2, err2)
	},
	"wif": func() string {
		w, err := wif.Encode(key, 128)
		k, v, c, err2 := wif.Decode(w)
		return fmt.Sprintf("%s %v %x %d %v %v", w, err, k, v, c, err2)
	},
	"bech32": func() string {
		s, err := bech32.Encode("bc", 0, det("prog", 20))
		h, v, d, err2 := bech32.Decode(s)
		return fmt.Sprintf("%s %v %s %d %x %v", s, err, h, v, d, err2)
	},
	"base58": func() string {
		s := base58.Encode(det("b58", 25))
		d, err := base58.Decode(s)
		c := base58check.Encode(det("b58c", 21))
		d2, err2 := base58check.Decode(c)
		return fmt.Sprintf("%s %x %v %s %x %v", s, d, err, c, d2, err2)
	},
	"txparse": func() string {
		raw, _ := hex.DecodeString(sampleTx)
		t, err := tx.FromBytes(raw)
		if err != nil {
			return "err " + err.Error()
		}
		id, _ := t.Id(false)
		return fmt.Sprintf("%s %x %d", id, t.Bytes(), t.VSize())
	},
	"txparsewide": func() string {
		t, err := tx.FromBytes(wideTx(3))
		if err != nil {
			return "err " + err.Error()
		}
		id, _ := t.Id(false)
		return fmt.Sprintf("%s %d %d", id, len(t.Inputs[0].Script), t.VSize())
	},
	"sighash": func() string {
		raw, _ := hex.DecodeString(sampleTx)
		t, err := tx.FromBytes(raw)
		if err != nil {
			return "err " + err.Error()
		}
		h1, e1 := t.SignatureHashForInput(0, []byte{0x76, 0xa9, 0x14, 1, 2, 3, 4, 5, 6, 7, 8, 9, 10, 11, 12, 13, 14, 15, 16, 17, 18, 19, 20, 0x88, 0xac}, 1)
		h2, e2 := t.SignatureHashForWitnessInput(0, []byte{0x51}, 1, 12345)
		return fmt.Sprintf("%x %v %x %v", h1, e1, h2, e2)
	},
	"mnemonic": func() string {
		w, err := bip39.EncodeToWords(det("entropy", 16))
		e, err2 := bip39.DecodeWords(w)
		return fmt.Sprintf("%v %v %x %v", w, err, e, err2)
	},
	"xkey": func() string {
		// 111-character strings: base58 decoding of more than 64 digits
		pub := ecc.GetPublicKeyCompressed(key)
		xp := bip32.SerializePublic(pub, chain, det("fp", 4), 3, 7, 76067358)
		k, c, f, d, i, v, err := bip32.Deserialize(xp)
		xs := bip32.SerializePrivate(key2, chain, det("fp", 4), 2, 9, 76066276)
		k2, _, _, _, _, _, err2 := bip32.Deserialize(xs)
		return fmt.Sprintf("%s %x %x %x %d %d %d %v %x %v", xp, k, c, f, d, i, v, err, k2, err2)
	},
	// a fingerprint is asked for twice and the second answer kept while 70 other keys are fingerprinted
	// (by this and by the other goroutines); what was kept must still be the key's fingerprint
	"fpheld": func() string {
		pub := ecc.GetPublicKeyCompressed(key2)
		if _, err := bip32.KeyFingerprint(pub); err != nil {
			return "err " + err.Error()
		}
		held, err := bip32.KeyFingerprint(pub)
		if err != nil {
			return "err " + err.Error()
		}
		want := fmt.Sprintf("%x", held)
		for i := 0; i < 70; i++ {
			bip32.KeyFingerprint(ecc.GetPublicKeyCompressed(stormKey(100 + i)))
		}
		if got := fmt.Sprintf("%x", held); got != want {
			return "wrong: the fingerprint a caller held changed from " + want + " to " + got
		}
		return want
	},
	"rpcstorm": func() string {
		for i := 0; i < 40; i++ {
			if _, err := conn.Request("getblockcount", tag()); err != nil {
				return "err " + err.Error()
			}
		}
		return "ok"
	},
	// a request whose parameters cannot be encoded fails; the requests of the other goroutines on the
	// shared connection must still go through (an error path that keeps the id lock would block them)
	"rpcbad": func() string {
		_, e1 := conn.Request("estimatesmartfee", math.NaN())
		_, e2 := conn.Request("x", make(chan int))
		r3, e3 := conn.Request("getblockcount", tag())
		return fmt.Sprint(e1 != nil, e2 != nil, r3, e3)
	},
	// the node turns the first attempt of this request away ("Work queue depth exceeded"); the library
	// retries it while the other goroutines' requests are in flight on the shared connection
	"rpcbusy": func() string {
		r1, e1 := conn.Request("busygetblockcount", tag())
		return fmt.Sprint(r1, e1)
	},
	"rpc": func() string {
		r1, e1 := conn.Request("getblockcount", tag())
		r2, e2 := conn.Request("getbestblockhash", tag())
		return fmt.Sprint(r1, e1, r2, e2)
	},
}

// ---- storms: many calls with DIFFERENT inputs from every goroutine, each result compared with the value
// the same call gives when run alone. A cold-start action makes one call per goroutine; a storm looks for
// state that is correctly locked but not atomic across a lookup and its use (a one-entry memo read in
// two critical sections), which only shows when goroutines work on different inputs at once.

type stormItem struct {
	name string
	f    func() string
	want string
}

var stormItems []stormItem

func stormKey(i int) []byte {
	k := det(fmt.Sprintf("storm-key-%d", i), 32)
	k[0] &= 0x7f
	return k
}

// a transaction whose input script, witness item and output script are 253 bytes or longer
func wideTx(i int) []byte {
	h := det(fmt.Sprintf("wide-prev-%d", i), 32)
	var prev [32]byte
	copy(prev[:], h)
	t := &tx.Tx{Version: 2,
		Inputs:    []*tx.Input{{PrevOut: &tx.PrevOut{Hash: prev, Index: uint32(i)}, Script: det(fmt.Sprintf("wide-script-%d", i), 253+i*67), Sequence: 0xfffffffe}},
		Outputs:   []*tx.Output{{Value: uint64(1000 + i), Script: det(fmt.Sprintf("wide-out-%d", i), 300+i*1001)}},
		Witnesses: []tx.Witness{{det(fmt.Sprintf("wide-wit-%d", i), 70000+i*13)}},
	}
	return t.Bytes()
}

func buildStorm() {
	add := func(name string, f func() string) { stormItems = append(stormItems, stormItem{name: name, f: f}) }
	for i := 0; i < 5; i++ {
		k := stormKey(i)
		pubC, pubU, pubX := ecc.GetPublicKeyCompressed(k), ecc.GetPublicKeyUncompressed(k), ecc.GetPublicKeySchnorr(k)
		add(fmt.Sprintf("DeserializePoint(c%d)", i), func() string { x, y, err := ecc.DeserializePoint(pubC); return fmt.Sprintf("%x %x %v", x, y, err) })
		add(fmt.Sprintf("DeserializePoint(u%d)", i), func() string { x, y, err := ecc.DeserializePoint(pubU); return fmt.Sprintf("%x %x %v", x, y, err) })
		add(fmt.Sprintf("DeserializePoint(x%d)", i), func() string { x, y, err := ecc.DeserializePoint(pubX); return fmt.Sprintf("%x %x %v", x, y, err) })
		add(fmt.Sprintf("UncompressPublicKey(%d)", i), func() string { u, err := ecc.UncompressPublicKey(pubC); return fmt.Sprintf("%x %v", u, err) })
		add(fmt.Sprintf("CompressPublicKey(%d)", i), func() string { c, err := ecc.CompressPublicKey(pubU); return fmt.Sprintf("%x %v", c, err) })
		msg := det(fmt.Sprintf("storm-msg-%d", i), 32)
		sig := ecc.SignSchnorr(k, msg, det("aux", 32))
		add(fmt.Sprintf("VerifySchnorr(%d)", i), func() string { return fmt.Sprint(ecc.VerifySchnorr(pubX, msg, sig)) })
		r, sv := ecc.SignECDSA(k, msg)
		add(fmt.Sprintf("VerifyECDSA(%d)", i), func() string { return fmt.Sprint(ecc.VerifyECDSA(pubC, msg, r, sv)) })
		add(fmt.Sprintf("TweakPublicKey(%d)", i), func() string {
			q, odd, err := taproot.TweakPublicKey(pubX, msg)
			return fmt.Sprintf("%x %v %v", q, odd, err)
		})
		add(fmt.Sprintf("DerivePublicChild(%d)", i), func() string {
			ck, cc, err := bip32.DerivePublicChild(pubC, chain, uint32(i), 7)
			return fmt.Sprintf("%x %x %v", ck, cc, err)
		})
		payload := det(fmt.Sprintf("storm-b58-%d", i), 20+i*13)
		b58s, b58c := base58.Encode(payload), base58check.Encode(payload)
		add(fmt.Sprintf("base58.Decode(%d)", i), func() string { d, err := base58.Decode(b58s); return fmt.Sprintf("%x %v", d, err) })
		add(fmt.Sprintf("base58check.Decode(%d)", i), func() string { d, err := base58check.Decode(b58c); return fmt.Sprintf("%x %v", d, err) })
		if bs, err := bech32.Encode("bc", 0, payload[:20]); err == nil {
			add(fmt.Sprintf("bech32.Decode(%d)", i), func() string { h, v, d, err := bech32.Decode(bs); return fmt.Sprintf("%s %d %x %v", h, v, d, err) })
			add(fmt.Sprintf("address.Decode(%d)", i), func() string { f, spk, err := address.Decode(bs); return fmt.Sprintf("%v %x %v", f, spk, err) })
		}
		w, _ := wif.Encode(k, 0x80)
		add(fmt.Sprintf("wif.Decode(%d)", i), func() string { d, v, c, err := wif.Decode(w); return fmt.Sprintf("%x %d %v %v", d, v, c, err) })
		ent := det(fmt.Sprintf("storm-ent-%d", i), 16+4*i)
		if words, err := bip39.EncodeToWords(ent); err == nil {
			add(fmt.Sprintf("bip39.DecodeWords(%d)", i), func() string { e, err := bip39.DecodeWords(words); return fmt.Sprintf("%x %v", e, err) })
		}
	}
	// parsing of data whose length prefixes are 3, 5 and 9 bytes wide, a different value in every item
	for i := 0; i < 5; i++ {
		raw := wideTx(i)
		add(fmt.Sprintf("tx.FromBytes(wide%d)", i), func() string {
			t, err := tx.FromBytes(raw)
			if err != nil {
				return "err " + err.Error()
			}
			id, _ := t.Id(false)
			return fmt.Sprintf("%s %d %d", id, len(t.Inputs[0].Script), len(t.Bytes()))
		})
		for _, v := range []uint64{0xfd + uint64(i)*911, 0x10000 + uint64(i)*70001, 0x100000000 + uint64(i)*0x0123456789} {
			enc := varint.VarInt(v).Bytes()
			add(fmt.Sprintf("varint.FromBytes(%d)", v), func() string { d, err := varint.FromBytes(enc); return fmt.Sprint(uint64(d), err) })
		}
	}
	// children of ONE parent key slice as bip32.Deserialize hands it out (it is cut from a longer payload, so
	// it has spare capacity behind it), a different index in every item
	{
		pub := ecc.GetPublicKeyCompressed(stormKey(1))
		xp := bip32.SerializePublic(pub, chain, det("fp", 4), 1, 0, 76067358)
		pk, cc, _, _, _, _, err := bip32.Deserialize(xp)
		if err == nil {
			for i := 0; i < 6; i++ {
				idx := uint32(i * 1000003)
				add(fmt.Sprintf("DerivePublicChild(shared parent, %d)", idx), func() string {
					ck, c2, err := bip32.DerivePublicChild(pk, cc, idx)
					return fmt.Sprintf("%x %x %v", ck, c2, err)
				})
			}
		}
	}
	// serializing and hashing distinct transactions, between calls on a transaction that cannot be serialized
	for i := 0; i < 5; i++ {
		raw := wideTx(i)
		t, err := tx.FromBytes(raw)
		if err != nil {
			continue
		}
		add(fmt.Sprintf("Tx.Bytes/Id(%d)", i), func() string {
			id, e1 := t.Id(true)
			h, e2 := t.Hash(false)
			return fmt.Sprintf("%x %s %v %x %v", sha256.Sum256(t.Bytes()), id, e1, h, e2)
		})
		bad := &tx.Tx{Version: int32(i)}
		add(fmt.Sprintf("Tx.Bytes(unserializable %d)", i), func() string {
			return fmt.Sprintf("%x %x %s", bad.Bytes(), bad.BytesNoWitness(), bad.Hex())
		})
	}
	// the value of every call when run alone
	for i := range stormItems {
		stormItems[i].want = stormItems[i].f()
	}
}

func storm(offset int) string {
	for j := 0; j < 250; j++ {
		it := &stormItems[(offset*7+j*3)%len(stormItems)]
		got := func() (s string) {
			defer func() {
				if e := recover(); e != nil {
					s = fmt.Sprintf("panic %v", e)
				}
			}()
			return it.f()
		}()
		if got != it.want {
			return fmt.Sprintf("%s returned %s under concurrency, %s when run alone", it.name, got, it.want)
		}
	}
	return "ok"
}

func main() {
	g := flag.Int("g", 4, "goroutines")
	procs := flag.Int("procs", 4, "GOMAXPROCS")
	seed := flag.Int64("seed", 1, "seed")
	opsFlag := flag.String("ops", "", "comma separated action names, one per goroutine (cycled)")
	seq := flag.Bool("seq", false, "run the actions sequentially")
	list := flag.Bool("list", false, "list action names")
	flag.Parse()
	if *list {
		names := make([]string, 0, len(actions))
		for k := range actions {
			names = append(names, k)
		}
		names = append(names, "storm")
		sort.Strings(names)
		fmt.Println(strings.Join(names, ","))
		return
	}
	runtime.GOMAXPROCS(*procs)
	http.DefaultClient.Transport = rec
	conn, _ = rpc.NewConnection("http://127.0.0.1:1/", "u", "p")
	names := strings.Split(*opsFlag, ",")
	for _, n := range names {
		if strings.HasPrefix(n, "storm") && stormItems == nil {
			buildStorm() // sequential: the expected values are those of calls run alone
		}
	}
	results := make([]string, *g)
	run := func(i int) {
		name := names[i%len(names)]
		if strings.HasPrefix(name, "storm") {
			results[i] = storm(i)
			return
		}
		f, ok := actions[name]
		if !ok {
			results[i] = "unknown-action"
			return
		}
		defer func() {
			if e := recover(); e != nil {
				results[i] = fmt.Sprintf("panic %v", e)
			}
		}()
		results[i] = f()
	}
	if *seq {
		for i := 0; i < *g; i++ {
			run(i)
		}
	} else {
		rng := rand.New(rand.NewSource(*seed))
		delays := make([]time.Duration, *g)
		for i := range delays {
			delays[i] = time.Duration(rng.Intn(50)) * time.Microsecond
		}
		var ready int32
		start := make(chan struct{})
		var wg sync.WaitGroup
		for i := 0; i < *g; i++ {
			wg.Add(1)
			go func(i int) {
				defer wg.Done()
				atomic.AddInt32(&ready, 1)
				<-start
				if delays[i] > 0 && i%2 == 1 {
					t0 := time.Now()
					for time.Since(t0) < delays[i] {
					}
				}
				run(i)
			}(i)
		}
		for atomic.LoadInt32(&ready) < int32(*g) {
			runtime.Gosched()
		}
		close(start)
		wg.Wait()
	}
	for i, r := range results {
		fmt.Printf("%d\t%s\t%s\n", i, names[i%len(names)], r)
	}
	ids := append([]int{}, rec.ids...)
	sort.Ints(ids)
	fmt.Printf("ids\t%v\n", ids)
	for _, c := range rec.clashes {
		fmt.Printf("clash\t%s\n", c)
	}
	os.Stdout.Sync()
}
