// Command racecmd is the C19 rig: built with -race, started as a FRESH process for every run so
// that each goroutine's action really is a first call into the library ("cold start").
//
//	racecmd -g 8 -procs 4 -seed 3 -ops pubkey,bip32priv,…   concurrent run behind a barrier
//	racecmd -seq -ops …                                     the same actions one after the other
//
// Output: one line per action `<index>\t<op>\t<result>`; RPC request ids on `ids\t…`.
// Race reports go to stderr (GORACE decides the exit code).
package main

import (
	"bytes"
	"crypto/sha256"
	"encoding/hex"
	"encoding/json"
	"flag"
	"fmt"
	"io"
	"math/rand"
	"net/http"
	"os"
	"runtime"
	"sort"
	"strings"
	"sync"
	"sync/atomic"
	"time"

	"github.com/kklash/bitcoinlib/address"
	"github.com/kklash/bitcoinlib/base58"
	"github.com/kklash/bitcoinlib/base58check"
	"github.com/kklash/bitcoinlib/bech32"
	"github.com/kklash/bitcoinlib/bip32"
	"github.com/kklash/bitcoinlib/bip39"
	"github.com/kklash/bitcoinlib/constants"
	"github.com/kklash/bitcoinlib/ecc"
	"github.com/kklash/bitcoinlib/rpc"
	"github.com/kklash/bitcoinlib/taproot"
	"github.com/kklash/bitcoinlib/tx"
	"github.com/kklash/bitcoinlib/wif"
)

func det(label string, n int) []byte {
	var out []byte
	for i := 0; len(out) < n; i++ {
		h := sha256.Sum256([]byte(fmt.Sprintf("%s/%d", label, i)))
		out = append(out, h[:]...)
	}
	return out[:n]
}

var key = func() []byte { k := det("key", 32); k[0] &= 0x7f; return k }()
var key2 = func() []byte { k := det("key2", 32); k[0] &= 0x7f; return k }()
var digest = det("digest", 32)
var chain = det("chain", 32)

const sampleTx = "0100000000010154dcba4a0f6e3e8b1ba3c4b8f3f4d8b0e6a8b9c0d1e2f30415263748596a7b8c0000000000ffffffff0280969800000000001600145f4a1b2c3d4e5f60718293a4b5c6d7e8f9010203e0e1f505000000001976a9145f4a1b2c3d4e5f60718293a4b5c6d7e8f901020388ac0247304402201111111111111111111111111111111111111111111111111111111111111111022022222222222222222222222222222222222222222222222222222222222222220121031b84c5567b126440995d3ed5aaba0565d71e1834604819ff9c17f5e9d5dd078f00000000"

type recorder struct {
	mu  sync.Mutex
	ids []int
}

func (rt *recorder) RoundTrip(req *http.Request) (*http.Response, error) {
	body, _ := io.ReadAll(req.Body)
	var m struct {
		ID     int    `json:"id"`
		Method string `json:"method"`
	}
	json.Unmarshal(body, &m)
	rt.mu.Lock()
	rt.ids = append(rt.ids, m.ID)
	rt.mu.Unlock()
	resp := fmt.Sprintf(`{"result":"%s","error":null,"id":%d}`, m.Method, m.ID)
	return &http.Response{StatusCode: 200, Body: io.NopCloser(bytes.NewReader([]byte(resp))), Header: http.Header{}, Request: req}, nil
}

var rec = &recorder{}
var conn *rpc.Connection

var actions = map[string]func() string{
	"pubkey":  func() string { return hex.EncodeToString(ecc.GetPublicKeyCompressed(key)) },
	"pubkeyu": func() string { return hex.EncodeToString(ecc.GetPublicKeyUncompressed(key2)) },
	"pubkeyx": func() string { return hex.EncodeToString(ecc.GetPublicKeySchnorr(key)) },
	"bip32master": func() string {
		k, c, err := bip32.GenerateMasterKey(det("seed", 32))
		return fmt.Sprintf("%x %x %v", k, c, err)
	},
	"bip32priv": func() string {
		k, c := bip32.DerivePrivateChild(key, chain, 0x80000000, 1, 2)
		return fmt.Sprintf("%x %x", k, c)
	},
	"bip32pub": func() string {
		pub := ecc.GetPublicKeyCompressed(key2)
		k, c, err := bip32.DerivePublicChild(pub, chain, 1, 2)
		return fmt.Sprintf("%x %x %v", k, c, err)
	},
	"ecdsasign": func() string {
		r, s := ecc.SignECDSA(key, digest)
		return fmt.Sprintf("%x %x", r, s)
	},
	"ecdsaverify": func() string {
		r, s := ecc.SignECDSA(key2, digest)
		return fmt.Sprint(ecc.VerifyECDSA(ecc.GetPublicKeyCompressed(key2), digest, r, s))
	},
	"schnorrsign": func() string {
		sig := ecc.SignSchnorr(key, digest, det("aux", 32))
		return fmt.Sprintf("%x", sig)
	},
	"schnorrverify": func() string {
		sig := ecc.SignSchnorr(key2, digest, det("aux", 32))
		return fmt.Sprint(ecc.VerifySchnorr(ecc.GetPublicKeySchnorr(key2), digest, sig))
	},
	"taptweak": func() string {
		out, parity, err := taproot.TweakPublicKey(ecc.GetPublicKeySchnorr(key), det("h", 32))
		return fmt.Sprintf("%x %v %v", out, parity, err)
	},
	"addrmake": func() string {
		a, err := address.Make(constants.FormatP2WPKH, ecc.GetPublicKeyCompressed(key))
		b, err2 := address.Make(constants.FormatP2PKH, ecc.GetPublicKeyCompressed(key))
		return fmt.Sprint(a, err, b, err2)
	},
	"addrdecode": func() string {
		f, s, err := address.Decode("bc1qw508d6qejxtdg4y5r3zarvary0c5xw7kv8f3t4")
		f2, s2, err2 := address.Decode("1BvBMSEYstWetqTFn5Au4m4GFg7xJaNVN2")
		return fmt.Sprintf("%v %x %v %v %x %v", f, s, err, f2, s2, err2)
	},
	"wif": func() string {
		w, err := wif.Encode(key, 128)
		k, v, c, err2 := wif.Decode(w)
		return fmt.Sprintf("%s %v %x %d %v %v", w, err, k, v, c, err2)
	},
	"bech32": func() string {
		s, err := bech32.Encode("bc", 0, det("prog", 20))
		h, v, d, err2 := bech32.Decode(s)
		return fmt.Sprintf("%s %v %s %d %x %v", s, err, h, v, d, err2)
	},
	"base58": func() string {
		s := base58.Encode(det("b58", 25))
		d, err := base58.Decode(s)
		c := base58check.Encode(det("b58c", 21))
		d2, err2 := base58check.Decode(c)
		return fmt.Sprintf("%s %x %v %s %x %v", s, d, err, c, d2, err2)
	},
	"txparse": func() string {
		raw, _ := hex.DecodeString(sampleTx)
		t, err := tx.FromBytes(raw)
		if err != nil {
			return "err " + err.Error()
		}
		id, _ := t.Id(false)
		return fmt.Sprintf("%s %x %d", id, t.Bytes(), t.VSize())
	},
	"sighash": func() string {
		raw, _ := hex.DecodeString(sampleTx)
		t, err := tx.FromBytes(raw)
		if err != nil {
			return "err " + err.Error()
		}
		h1, e1 := t.SignatureHashForInput(0, []byte{0x76, 0xa9, 0x14, 1, 2, 3, 4, 5, 6, 7, 8, 9, 10, 11, 12, 13, 14, 15, 16, 17, 18, 19, 20, 0x88, 0xac}, 1)
		h2, e2 := t.SignatureHashForWitnessInput(0, []byte{0x51}, 1, 12345)
		return fmt.Sprintf("%x %v %x %v", h1, e1, h2, e2)
	},
	"mnemonic": func() string {
		w, err := bip39.EncodeToWords(det("entropy", 16))
		e, err2 := bip39.DecodeWords(w)
		return fmt.Sprintf("%v %v %x %v", w, err, e, err2)
	},
	"xkey": func() string {
		// 111-character strings: base58 decoding of more than 64 digits
		pub := ecc.GetPublicKeyCompressed(key)
		xp := bip32.SerializePublic(pub, chain, det("fp", 4), 3, 7, 76067358)
		k, c, f, d, i, v, err := bip32.Deserialize(xp)
		xs := bip32.SerializePrivate(key2, chain, det("fp", 4), 2, 9, 76066276)
		k2, _, _, _, _, _, err2 := bip32.Deserialize(xs)
		return fmt.Sprintf("%s %x %x %x %d %d %d %v %x %v", xp, k, c, f, d, i, v, err, k2, err2)
	},
	"rpcstorm": func() string {
		for i := 0; i < 40; i++ {
			if _, err := conn.Request("getblockcount"); err != nil {
				return "err " + err.Error()
			}
		}
		return "ok"
	},
	"rpc": func() string {
		r1, e1 := conn.Request("getblockcount")
		r2, e2 := conn.Request("getbestblockhash")
		return fmt.Sprint(r1, e1, r2, e2)
	},
}

func main() {
	g := flag.Int("g", 4, "goroutines")
	procs := flag.Int("procs", 4, "GOMAXPROCS")
	seed := flag.Int64("seed", 1, "seed")
	opsFlag := flag.String("ops", "", "comma separated action names, one per goroutine (cycled)")
	seq := flag.Bool("seq", false, "run the actions sequentially")
	list := flag.Bool("list", false, "list action names")
	flag.Parse()
	if *list {
		names := make([]string, 0, len(actions))
		for k := range actions {
			names = append(names, k)
		}
		sort.Strings(names)
		fmt.Println(strings.Join(names, ","))
		return
	}
	runtime.GOMAXPROCS(*procs)
	http.DefaultClient.Transport = rec
	conn, _ = rpc.NewConnection("http://127.0.0.1:1/", "u", "p")
	names := strings.Split(*opsFlag, ",")
	results := make([]string, *g)
	run := func(i int) {
		name := names[i%len(names)]
		f, ok := actions[name]
		if !ok {
			results[i] = "unknown-action"
			return
		}
		defer func() {
			if e := recover(); e != nil {
				results[i] = fmt.Sprintf("panic %v", e)
			}
		}()
		results[i] = f()
	}
	if *seq {
		for i := 0; i < *g; i++ {
			run(i)
		}
	} else {
		rng := rand.New(rand.NewSource(*seed))
		delays := make([]time.Duration, *g)
		for i := range delays {
			delays[i] = time.Duration(rng.Intn(50)) * time.Microsecond
		}
		var ready int32
		start := make(chan struct{})
		var wg sync.WaitGroup
		for i := 0; i < *g; i++ {
			wg.Add(1)
			go func(i int) {
				defer wg.Done()
				atomic.AddInt32(&ready, 1)
				<-start
				if delays[i] > 0 && i%2 == 1 {
					t0 := time.Now()
					for time.Since(t0) < delays[i] {
					}
				}
				run(i)
			}(i)
		}
		for atomic.LoadInt32(&ready) < int32(*g) {
			runtime.Gosched()
		}
		close(start)
		wg.Wait()
	}
	for i, r := range results {
		fmt.Printf("%d\t%s\t%s\n", i, names[i%len(names)], r)
	}
	ids := append([]int{}, rec.ids...)
	sort.Ints(ids)
	fmt.Printf("ids\t%v\n", ids)
	os.Stdout.Sync()
}
