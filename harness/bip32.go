package main

// C07: BIP32 master keys, private/public child derivation, paths, fingerprints.

import (
	"bytes"
	"fmt"
	"math/big"
	"strconv"
	"strings"

	"github.com/kklash/bitcoinlib/bip32"
	"github.com/kklash/bitcoinlib/ecc"
	"github.com/kklash/ekliptic"
)

var secpN = ekliptic.Secp256k1_CurveOrder

var sharedKeyBuf [64]byte

const hardened = uint32(1) << 31

// guarded returns a copy of b that sits in the middle of a larger array filled with a canary
// pattern, so that an append/write through the slice is visible (the slice has spare capacity).
type guardedBuf struct {
	all []byte
	off int
	n   int
	ref []byte
}

func guarded(b []byte) *guardedBuf {
	const pad = 96
	g := &guardedBuf{all: make([]byte, pad+len(b)+pad), off: pad, n: len(b)}
	for i := range g.all {
		g.all[i] = byte(0xa5 ^ (i * 7))
	}
	copy(g.all[pad:], b)
	g.ref = append([]byte(nil), g.all...)
	return g
}

// slice with spare capacity up to the end of the backing array
func (g *guardedBuf) slice() []byte { return g.all[g.off : g.off+g.n] }

func (g *guardedBuf) check(name string, direct *[]string) {
	if !bytes.Equal(g.all, g.ref) {
		i := 0
		for g.all[i] == g.ref[i] {
			i++
		}
		where := "contents"
		if i >= g.off+g.n {
			where = "spare capacity"
		}
		*direct = append(*direct, fmt.Sprintf("callee wrote into the caller's %s buffer (%s, offset %d)", name, where, i-g.off))
	}
}

func parseIndex(s string) (uint32, bool) {
	v, err := strconv.ParseUint(s, 10, 32)
	return uint32(v), err == nil
}

func parsePathArg(s string) ([]uint32, bool) {
	if s == "-" {
		return []uint32{}, true
	}
	var out []uint32
	for _, t := range strings.Split(s, ",") {
		v, ok := parseIndex(t)
		if !ok {
			return nil, false
		}
		out = append(out, v)
	}
	return out, true
}

func pathStr(p []uint32) string {
	if len(p) == 0 {
		return "-"
	}
	parts := make([]string, len(p))
	for i, v := range p {
		parts[i] = strconv.FormatUint(uint64(v), 10)
	}
	return strings.Join(parts, ",")
}

func validScalarBytes(k []byte) bool {
	v := new(big.Int).SetBytes(k)
	return v.Sign() > 0 && v.Cmp(secpN) < 0
}

func allNormal(p []uint32) bool {
	for _, v := range p {
		if v >= hardened {
			return false
		}
	}
	return true
}

func init() {
	regRunner("C07", runC07)

	reg("bip32.master", Full, func(args []string) (string, []string) {
		if len(args) != 1 {
			return "bad-op", nil
		}
		seed := guarded(unhx(args[0]))
		k, c, err := bip32.GenerateMasterKey(seed.slice())
		var direct []string
		seed.check("seed", &direct)
		okLen := len(unhx(args[0]))%4 == 0 && len(unhx(args[0])) >= 16 && len(unhx(args[0])) <= 64
		if (err == nil) != okLen {
			direct = append(direct, fmt.Sprintf("seed of %d bytes: accepted=%v", len(unhx(args[0])), err == nil))
		}
		if err != nil {
			return "err", direct
		}
		if len(k) != 32 || len(c) != 32 {
			direct = append(direct, fmt.Sprintf("master key %d bytes, chain code %d bytes", len(k), len(c)))
		}
		return "ok " + hx(k) + " " + hx(c), direct
	})

	reg("bip32.ckdpriv", Full, func(args []string) (string, []string) {
		if len(args) != 3 {
			return "bad-op", nil
		}
		idx, ok := parseIndex(args[2])
		if !ok {
			return "bad-op", nil
		}
		key, cc := unhx(args[0]), unhx(args[1])
		gk, gc := guarded(key), guarded(cc)
		k, c := bip32.DerivePrivateChild(gk.slice(), gc.slice(), idx)
		var direct []string
		// the same call with the key in a buffer the harness REUSES for every case: a result that
		// depends on which slice (rather than which bytes) it was given shows up as a difference
		if len(key) <= len(sharedKeyBuf) {
			copy(sharedKeyBuf[:], key)
			k2, c2 := bip32.DerivePrivateChild(sharedKeyBuf[:len(key)], append([]byte{}, cc...), idx)
			if !bytes.Equal(k, k2) || !bytes.Equal(c, c2) {
				direct = append(direct, "DerivePrivateChild gives a different result when the key arrives in a reused buffer (state keyed on the caller's slice)")
			}
		}
		gk.check("parent key", &direct)
		gc.check("chain code", &direct)
		if len(k) != 32 || len(c) != 32 {
			direct = append(direct, fmt.Sprintf("child key %d bytes, chain code %d bytes", len(k), len(c)))
		}
		// commutation: N(CKDpriv(k, i)) = CKDpub(N(k), i) for both encodings of the parent
		if idx < hardened && validScalarBytes(key) && len(key) == 32 && validScalarBytes(k) {
			want := ecc.GetPublicKeyCompressed(k)
			for _, enc := range []struct {
				name string
				pub  []byte
			}{{"compressed", ecc.GetPublicKeyCompressed(key)}, {"uncompressed", ecc.GetPublicKeyUncompressed(key)}} {
				gp := guarded(enc.pub)
				pk, pc, err := bip32.DerivePublicChild(gp.slice(), cc, idx)
				gp.check(enc.name+" parent public key", &direct)
				if err != nil {
					direct = append(direct, "public derivation from the "+enc.name+" parent failed: "+err.Error())
				} else if !bytes.Equal(pk, want) || !bytes.Equal(pc, c) {
					direct = append(direct, fmt.Sprintf("public derivation from the %s parent gives %s/%s, private derivation gives %s/%s", enc.name, hx(pk), hx(pc), hx(want), hx(c)))
				}
			}
		}
		return "ok " + hx(k) + " " + hx(c), direct
	})

	reg("bip32.ckdpub", Full, func(args []string) (string, []string) {
		if len(args) != 3 {
			return "bad-op", nil
		}
		idx, ok := parseIndex(args[2])
		if !ok {
			return "bad-op", nil
		}
		pub, cc := unhx(args[0]), unhx(args[1])
		gp, gc := guarded(pub), guarded(cc)
		k, c, err := bip32.DerivePublicChild(gp.slice(), gc.slice(), idx)
		var direct []string
		gp.check("parent public key", &direct)
		gc.check("chain code", &direct)
		if idx >= hardened && err == nil {
			direct = append(direct, "public derivation through a hardened index was not refused")
		}
		if err != nil {
			return "err", direct
		}
		if len(k) != 33 || len(c) != 32 {
			direct = append(direct, fmt.Sprintf("child public key %d bytes, chain code %d bytes", len(k), len(c)))
		}
		// the other encoding of the same parent must give the same child
		if other, e := otherEncoding(pub); e == nil {
			k2, c2, err2 := bip32.DerivePublicChild(other, cc, idx)
			if err2 != nil || !bytes.Equal(k2, k) || !bytes.Equal(c2, c) {
				direct = append(direct, fmt.Sprintf("the %d-byte encoding of the same parent gives %s/%s instead of %s/%s", len(other), hx(k2), hx(c2), hx(k), hx(c)))
			}
		}
		return "ok " + hx(k) + " " + hx(c), direct
	})

	// the same Go entry points compared with the oracle's transcription of BIP32 (Spec/Bip32.lean)
	reg("bip32.ckdpriv.spec", Full, func(args []string) (string, []string) {
		a, _ := ops["bip32.ckdpriv"].fn(args)
		return a, nil
	})
	reg("bip32.ckdpub.spec", Full, func(args []string) (string, []string) {
		a, _ := ops["bip32.ckdpub"].fn(args)
		return a, nil
	})

	reg("bip32.path", Full, func(args []string) (string, []string) {
		if len(args) != 4 {
			return "bad-op", nil
		}
		path, ok := parsePathArg(args[3])
		if !ok {
			return "bad-op", nil
		}
		key, cc := unhx(args[1]), unhx(args[2])
		var direct []string
		switch args[0] {
		case "priv":
			k, c := bip32.DerivePrivateChild(key, cc, path...)
			// step by step
			sk, sc := key, cc
			for _, i := range path {
				sk, sc = bip32.DerivePrivateChild(sk, sc, i)
			}
			if !bytes.Equal(sk, k) || !bytes.Equal(sc, c) {
				direct = append(direct, "path derivation differs from step-by-step derivation")
			}
			if len(path) == 0 && (!bytes.Equal(k, key) || !bytes.Equal(c, cc)) {
				direct = append(direct, "the empty path changed the parent")
			}
			if len(path) > 0 && (len(k) != 32 || len(c) != 32) {
				direct = append(direct, fmt.Sprintf("child key %d bytes, chain code %d bytes", len(k), len(c)))
			}
			if len(path) > 0 && allNormal(path) && validScalarBytes(key) && len(key) == 32 {
				for _, pub := range [][]byte{ecc.GetPublicKeyCompressed(key), ecc.GetPublicKeyUncompressed(key)} {
					pk, pc, err := bip32.DerivePublicChild(pub, cc, path...)
					if err != nil || !bytes.Equal(pk, ecc.GetPublicKeyCompressed(k)) || !bytes.Equal(pc, c) {
						direct = append(direct, fmt.Sprintf("public path derivation from the %d-byte parent differs from the private one", len(pub)))
					}
				}
			}
			return "ok " + hx(k) + " " + hx(c), direct
		case "pub":
			k, c, err := bip32.DerivePublicChild(key, cc, path...)
			sk, sc, serr := key, cc, error(nil)
			for _, i := range path {
				sk, sc, serr = bip32.DerivePublicChild(sk, sc, i)
				if serr != nil {
					break
				}
			}
			if (serr == nil) != (err == nil) || (err == nil && (!bytes.Equal(sk, k) || !bytes.Equal(sc, c))) {
				direct = append(direct, "path derivation differs from step-by-step derivation")
			}
			if !allNormal(path) && err == nil {
				direct = append(direct, "public derivation through a hardened index was not refused")
			}
			if err != nil {
				return "err", direct
			}
			if len(path) == 0 && (!bytes.Equal(k, key) || !bytes.Equal(c, cc)) {
				direct = append(direct, "the empty path changed the parent")
			}
			if len(path) > 0 && (len(k) != 33 || len(c) != 32) {
				direct = append(direct, fmt.Sprintf("child public key %d bytes, chain code %d bytes", len(k), len(c)))
			}
			return "ok " + hx(k) + " " + hx(c), direct
		}
		return "bad-op", nil
	})

	reg("bip32.fp", Full, func(args []string) (string, []string) {
		if len(args) != 1 {
			return "bad-op", nil
		}
		pub := unhx(args[0])
		gp := guarded(pub)
		fp, err := bip32.KeyFingerprint(gp.slice())
		var direct []string
		gp.check("public key", &direct)
		if err != nil {
			return "err", direct
		}
		if len(fp) != 4 {
			direct = append(direct, fmt.Sprintf("fingerprint of %d bytes", len(fp)))
		}
		if other, e := otherEncoding(pub); e == nil {
			fp2, err2 := bip32.KeyFingerprint(other)
			if err2 != nil || !bytes.Equal(fp, fp2) {
				direct = append(direct, "the fingerprint depends on the encoding of the key")
			}
		}
		return "ok " + hx(fp), direct
	})
}

// otherEncoding: compressed <-> uncompressed form of a valid 33/65-byte key
func otherEncoding(pub []byte) ([]byte, error) {
	switch len(pub) {
	case 33:
		return ecc.UncompressPublicKey(pub)
	case 65:
		return ecc.CompressPublicKey(pub)
	}
	return nil, fmt.Errorf("no other encoding")
}

// ---------------------------------------------------------------------------------------------
// generators

// scalar in [1, n-1] with `zeros` leading zero bytes
func (r *Runner) scalar(zeros int) []byte {
	for {
		k := r.bytesN(32)
		for i := 0; i < zeros && i < 31; i++ {
			k[i] = 0
		}
		if validScalarBytes(k) {
			return k
		}
	}
}

func scalarBytes(v *big.Int) []byte { return v.FillBytes(make([]byte, 32)) }

func (r *Runner) index(class int) uint32 {
	switch class {
	case 0:
		return 0
	case 1:
		return 1
	case 2:
		return hardened - 1
	case 3:
		return hardened
	case 4:
		return 0xffffffff
	case 5:
		return r.rng.Uint32() & (hardened - 1)
	default:
		return r.rng.Uint32() | hardened
	}
}

func idxClass(i uint32) string {
	switch i {
	case 0, 1, hardened - 1, hardened, 0xffffffff:
		return "edge"
	}
	if i >= hardened {
		return "hardened"
	}
	return "normal"
}

func runC07(r *Runner) string {
	// 1. seeds of every length 0..80
	var parents [][2][]byte // key, chain code
	for l := 0; l <= 80; l++ {
		reps := 1
		if l%4 == 0 && l >= 16 && l <= 64 {
			reps = r.N(2, 12)
		}
		for j := 0; j < reps; j++ {
			seed := r.bytesN(l)
			r.Do("bip32.master", []string{hx(seed)}, "master/len", l >= 16 && l <= 64 && l%4 == 0, fmt.Sprintf("seed of %d bytes", l))
			if k, c, err := bip32.GenerateMasterKey(seed); err == nil && validScalarBytes(k) {
				parents = append(parents, [2][]byte{k, c})
			}
		}
	}
	r.Do("bip32.master", []string{"000102030405060708090a0b0c0d0e0f"}, "master/vector", false, "BIP32 test vector 1")

	// 2. parents: random, leading zero bytes, edge scalars
	var keys [][]byte
	for z := 0; z <= 3; z++ {
		for j := 0; j < r.N(3, 20); j++ {
			keys = append(keys, r.scalar(z))
		}
	}
	keys = append(keys, r.scalar(8), r.scalar(16), r.scalar(31))
	one := big.NewInt(1)
	edge := [][]byte{scalarBytes(one), scalarBytes(big.NewInt(2)), scalarBytes(new(big.Int).Sub(secpN, one)), scalarBytes(new(big.Int).Sub(secpN, big.NewInt(2)))}
	keys = append(keys, edge...)
	for _, k := range keys {
		parents = append(parents, [2][]byte{k, r.bytesN(32)})
	}
	// parents whose child has a leading zero byte (searched on the Go side), and that child as a parent
	for j := 0; j < r.N(3, 20); j++ {
		k, c := r.scalar(0), r.bytesN(32)
		for t := 0; t < 4000; t++ {
			idx := r.index(5 + t%2)
			ck, cc := bip32.DerivePrivateChild(k, c, idx)
			if ck[0] == 0 && validScalarBytes(ck) {
				r.Do("bip32.ckdpriv", []string{hx(k), hx(c), fmt.Sprint(idx)}, "ckdpriv/child-leading-zero", true, "child key with a leading zero byte")
				parents = append(parents, [2][]byte{ck, cc})
				break
			}
		}
	}

	// 3. single steps: every parent with every index class; public steps with both encodings
	nPar := len(parents)
	step := 1
	if !r.thorough && nPar > 90 {
		step = nPar / 90
	}
	for pi := 0; pi < nPar; pi += step {
		k, c := parents[pi][0], parents[pi][1]
		zeros := 0
		for zeros < 32 && k[zeros] == 0 {
			zeros++
		}
		for class := 0; class <= 6; class++ {
			idx := r.index(class)
			tag := "ckdpriv/" + idxClass(idx)
			if zeros > 0 {
				tag += "/leading-zero-parent"
			}
			r.Do("bip32.ckdpriv", []string{hx(k), hx(c), fmt.Sprint(idx)}, tag, true, fmt.Sprintf("parent with %d leading zero bytes, index %d", zeros, idx))
			if idx >= hardened || (pi/step)%4 == 0 { // hardened steps cost no curve operation
				r.Do("bip32.ckdpriv.spec", []string{hx(k), hx(c), fmt.Sprint(idx)}, "spec/ckdpriv/"+idxClass(idx), true, "against the BIP32 transcription")
			}
		}
		// public derivation: 33- and 65-byte parents (hardened indices must be refused)
		for class := 0; class <= 6; class++ {
			if class != int(pi/step)%7 && class != int(pi/step+3)%7 {
				continue // two index classes per parent keep the quick tier within its budget
			}
			idx := r.index(class)
			for _, pub := range [][]byte{ecc.GetPublicKeyCompressed(k), ecc.GetPublicKeyUncompressed(k)} {
				r.Do("bip32.ckdpub", []string{hx(pub), hx(c), fmt.Sprint(idx)}, fmt.Sprintf("ckdpub/%d-byte-parent/%s", len(pub), idxClass(idx)), true, fmt.Sprintf("%d-byte parent, index %d", len(pub), idx))
				if idx >= hardened || (pi/step)%4 == 1 {
					r.Do("bip32.ckdpub.spec", []string{hx(pub), hx(c), fmt.Sprint(idx)}, fmt.Sprintf("spec/ckdpub/%d-byte-parent", len(pub)), true, "against the BIP32 transcription")
				}
			}
		}
		if pi%(3*step) == 0 {
			r.Do("bip32.fp", []string{hx(ecc.GetPublicKeyCompressed(k))}, "fp/33", true, "fingerprint, compressed key")
			r.Do("bip32.fp", []string{hx(ecc.GetPublicKeyUncompressed(k))}, "fp/65", true, "fingerprint, uncompressed key")
		}
	}
	// x-only parents are accepted by ecc.DeserializePoint as well (32 bytes, even y)
	for j := 0; j < r.N(4, 40); j++ {
		k := r.scalar(0)
		r.Do("bip32.ckdpub", []string{hx(ecc.GetPublicKeySchnorr(k)), hx(r.bytesN(32)), fmt.Sprint(r.index(5))}, "ckdpub/32-byte-parent", true, "x-only parent")
		r.Do("bip32.fp", []string{hx(ecc.GetPublicKeySchnorr(k))}, "fp/32", true, "fingerprint, x-only key")
	}

	// 4. paths of length 0..8 mixing hardened and normal steps
	for l := 0; l <= 8; l++ {
		for j := 0; j < r.N(6, 40); j++ {
			p := parents[r.rng.Intn(len(parents))]
			path := make([]uint32, l)
			mix := j % 3 // 0: all normal, 1: mixed, 2: mostly hardened
			for i := range path {
				switch {
				case mix == 0:
					path[i] = r.index([]int{0, 1, 2, 5, 5}[r.rng.Intn(5)])
				case mix == 1:
					path[i] = r.index(r.rng.Intn(7))
				default:
					path[i] = r.index([]int{3, 4, 6, 6, 5}[r.rng.Intn(5)])
				}
			}
			r.Do("bip32.path", []string{"priv", hx(p[0]), hx(p[1]), pathStr(path)}, fmt.Sprintf("path/priv/len%d", l), true, fmt.Sprintf("private path of %d steps", l))
			if mix != 2 || l == 0 {
				enc := ecc.GetPublicKeyCompressed(p[0])
				if j%2 == 1 {
					enc = ecc.GetPublicKeyUncompressed(p[0])
				}
				r.Do("bip32.path", []string{"pub", hx(enc), hx(p[1]), pathStr(path)}, fmt.Sprintf("path/pub/len%d", l), true, fmt.Sprintf("public path of %d steps from a %d-byte parent", l, len(enc)))
			}
		}
	}

	// 5. outside the relation: malformed public keys, out-of-range private keys, odd chain codes
	for j := 0; j < r.N(40, 400); j++ {
		var pub []byte
		switch j % 6 {
		case 0: // random x, mostly off the curve
			pub = append([]byte{2 + byte(j/6%2)}, r.bytesN(32)...)
		case 1: // bad prefix
			pub = ecc.GetPublicKeyCompressed(r.scalar(0))
			pub[0] = []byte{0, 1, 4, 5, 6, 7, 0xff}[r.rng.Intn(7)]
		case 2: // wrong length
			pub = r.bytesN([]int{0, 1, 31, 34, 64, 66}[r.rng.Intn(6)])
		case 3: // uncompressed with a wrong y
			pub = ecc.GetPublicKeyUncompressed(r.scalar(0))
			pub[33+r.rng.Intn(32)] ^= 1 << uint(r.rng.Intn(8))
		case 4: // hybrid prefix
			pub = ecc.GetPublicKeyUncompressed(r.scalar(0))
			pub[0] = 6 + byte(r.rng.Intn(2))
		case 5: // x >= p
			pub = append([]byte{2}, bytes.Repeat([]byte{0xff}, 32)...)
			pub[32] = byte(r.rng.Intn(256))
		}
		r.DoMode("bip32.ckdpub", []string{hx(pub), hx(r.bytesN(32)), fmt.Sprint(r.index(r.rng.Intn(3)))}, "malformed/ckdpub", false, "", DriftFull)
		r.DoMode("bip32.fp", []string{hx(pub)}, "malformed/fp", false, "", DriftFull)
	}
	for j := 0; j < r.N(12, 100); j++ {
		var key []byte
		switch j % 4 {
		case 0:
			key = make([]byte, 32) // zero
		case 1:
			key = scalarBytes(new(big.Int).Add(secpN, big.NewInt(int64(r.rng.Intn(3))))) // n, n+1, n+2
		case 2:
			key = r.bytesN(r.rng.Intn(32)) // short keys
		case 3:
			key = append([]byte{0}, r.scalar(0)...) // 33 bytes, value in range
		}
		cc := r.bytesN([]int{32, 32, 0, 7, 64}[r.rng.Intn(5)])
		r.DoMode("bip32.ckdpriv", []string{hx(key), hx(cc), fmt.Sprint(r.index(r.rng.Intn(7)))}, "malformed/ckdpriv", false, "", DriftFull)
	}

	return "seeds of every length 0..80 (random content; valid lengths repeated); parents = master keys of the valid seeds, random scalars with 0..3, 8, 16, 31 leading zero bytes, 1, 2, n-1, n-2, and children found (Go-side search) to have a leading zero byte; every sampled parent with the indices 0, 1, 2^31-1, 2^31, 2^32-1, one random normal and one random hardened index through ckdpriv (whose direct oracle re-derives publicly from the 33- and the 65-byte parent), two index classes per parent through ckdpub with both encodings, x-only parents, fingerprints of all three encodings; paths of length 0..8 (all-normal, mixed, mostly hardened) privately and publicly with step-by-step comparison; a quarter of the normal steps and all hardened ones also against the oracle's transcription of BIP32 (ops *.spec); a malformed stream (off-curve, bad prefix, wrong length, wrong y, hybrid, x >= p; keys 0, >= n, short, 33-byte) compared as drift only. A case is non-trivial when its key material is random or an edge scalar (the published test vector is counted as trivial); distinct = distinct request line."
}
