package main

// C18 canary rig, part 2: the op `buf.call`, the memory / result oracles, the value pools and the
// generator runC18 (see buffers.go for the protocol).

import (
	"bytes"
	"crypto/sha256"
	"encoding/hex"
	"encoding/json"
	"fmt"
	"os"
	"path/filepath"
	"reflect"
	"sort"
	"strconv"
	"strings"
	"unsafe"

	"github.com/kklash/bitcoinlib/base58check"
	"github.com/kklash/bitcoinlib/bech32"
	"github.com/kklash/bitcoinlib/bip32"
	"github.com/kklash/bitcoinlib/ecc"
	"github.com/kklash/bitcoinlib/script"
	"github.com/kklash/bitcoinlib/signer"
	"github.com/kklash/bitcoinlib/taproot"
	"github.com/kklash/bitcoinlib/wif"
)

var bufByName map[string]*bufFuncEntry

func bufLookup(name string) *bufFuncEntry {
	if bufByName == nil {
		bufByName = map[string]*bufFuncEntry{}
		for i := range bufFuncs {
			bufByName[bufFuncs[i].Name] = &bufFuncs[i]
		}
	}
	return bufByName[name]
}

func bufInvoke(fn reflect.Value, in []reflect.Value) (out []reflect.Value, panicked bool, msg string) {
	defer func() {
		if e := recover(); e != nil {
			out, panicked, msg = nil, true, fmt.Sprint(e)
		}
	}()
	if fn.Type().IsVariadic() {
		out = fn.CallSlice(in)
	} else {
		out = fn.Call(in)
	}
	bufRetainResults(in, out)
	return out, false, ""
}

// bufRetainResults hands every byte slice a call returned to the retained-results check (core.go),
// unless it lies in an argument's memory (returning a sub-slice of an argument is not a defect, and
// the rig reuses its argument arrays): a result that lives in a pooled or reused buffer of the library
// is overwritten by a later call while the caller still holds it.
func bufRetainResults(in, out []reflect.Value) {
	var args [][]byte
	var collect func(v reflect.Value, into *[][]byte)
	collect = func(v reflect.Value, into *[][]byte) {
		switch v.Kind() {
		case reflect.Slice:
			if v.Type().Elem().Kind() == reflect.Uint8 {
				if v.Cap() > 0 {
					*into = append(*into, v.Bytes()[:v.Len():v.Cap()])
				}
				return
			}
			for i := 0; i < v.Len() && i < 64; i++ {
				collect(v.Index(i), into)
			}
		case reflect.Interface, reflect.Ptr:
			if !v.IsNil() {
				collect(v.Elem(), into)
			}
		}
	}
	for _, a := range in {
		collect(a, &args)
	}
	var res [][]byte
	for _, o := range out {
		collect(o, &res)
	}
	for _, b := range res {
		alias := false
		for _, a := range args {
			if bufOverlap(a[:cap(a)], b[:cap(b)]) {
				alias = true
			}
		}
		if !alias && len(b) > 0 {
			retain(b)
		}
	}
	// the arguments stay the caller's after the call, too: what they hold now (whatever a documented in-place
	// function made of them) must not change during later calls — a library that keeps an argument (a pool, a
	// cache keyed on the slice) and writes to it later writes to the caller's memory
	for _, a := range args {
		if len(a) > 0 {
			retain(a[:len(a):len(a)])
		}
	}
}

func bufOverlap(a, b []byte) bool {
	if len(a) == 0 || len(b) == 0 {
		return false
	}
	pa, pb := uintptr(unsafe.Pointer(&a[0])), uintptr(unsafe.Pointer(&b[0]))
	return pa < pb+uintptr(len(b)) && pb < pa+uintptr(len(a))
}

// one execution: private copies (arrays == nil) or the laid-out canary arrays
type bufRun struct {
	digest   string
	panicked bool
	msg      string
	alias    bool
	out      []reflect.Value
}

func bufExec(fn *bufFuncEntry, ps []*bufParam, spare int, private bool, arrays []*bufArray) (*bufRun, string) {
	in := make([]reflect.Value, len(ps))
	for i, p := range ps {
		if p.kind != bufKOther {
			in[i] = bufValueOf(p, spare, private)
			continue
		}
		v, ok := bufParseOther(p.typ, p.raw)
		if !ok {
			return nil, fmt.Sprintf("cannot build a %s from %q", p.typ, p.raw)
		}
		in[i] = v
	}
	r := &bufRun{}
	r.out, r.panicked, r.msg = bufInvoke(fn.Fn, in)
	var b strings.Builder
	if r.panicked {
		b.WriteString("panic")
	}
	seen := map[uintptr]bool{}
	for _, o := range r.out {
		bufDump(&b, o, 0, seen)
		b.WriteString(";")
		if !private && bufAliases(o, arrays, 0) {
			r.alias = true
		}
	}
	// what the call did to its other (pointer / interface) arguments is part of its result
	for i, p := range ps {
		if p.kind == bufKOther {
			switch p.typ.Kind() {
			case reflect.Ptr, reflect.Interface, reflect.Map:
				b.WriteString(" " + fn.Params[i] + "→")
				bufDump(&b, in[i], 0, seen)
			}
		}
	}
	r.digest = b.String()
	return r, ""
}

func bufWhere(a *bufArray, i int) string {
	switch {
	case i < bufPre:
		return fmt.Sprintf("the canary %d byte(s) in front of `%s`", bufPre-i, a.leaves[0].name)
	case i >= a.spareB:
		return fmt.Sprintf("the canary beyond the capacity of `%s` (offset +%d)", a.leaves[len(a.leaves)-1].name, i-a.spareB)
	case i >= a.spareA:
		var names []string
		for _, l := range a.leaves {
			names = append(names, "`"+l.name+"`")
		}
		return fmt.Sprintf("byte %d of the spare capacity behind %s", i-a.spareA, strings.Join(names, "/"))
	}
	var vis, behind []string
	for _, l := range a.leaves {
		if i >= l.start && i < l.start+len(l.val) {
			vis = append(vis, fmt.Sprintf("visible byte %d of `%s`", i-l.start, l.name))
		} else if i >= l.start+len(l.val) {
			behind = append(behind, "`"+l.name+"`")
		}
	}
	s := strings.Join(vis, " = ")
	if len(behind) > 0 {
		s += " (which lies in the spare capacity of " + strings.Join(behind, ", ") + ")"
	}
	return s
}

// bufCheckMemory compares every caller array with its snapshot.
func bufCheckMemory(fn *bufFuncEntry, ps []*bufParam, arrays []*bufArray) []string {
	allow := bufAllow[fn.Name]
	allowVisible := strings.HasPrefix(allow, "inplace")
	allowSpare := strings.HasPrefix(allow, "append")
	var out []string
	for _, a := range arrays {
		for i := range a.mem {
			if a.mem[i] == a.snap[i] {
				continue
			}
			visible := i >= bufPre && i < a.spareA
			spare := i >= a.spareA && i < a.spareB
			if (visible && allowVisible) || (spare && allowSpare) {
				continue
			}
			n := 0
			for j := i; j < len(a.mem) && a.mem[j] != a.snap[j]; j++ {
				n++
			}
			out = append(out, fmt.Sprintf("%s wrote into caller-owned memory: %s changed from %02x to %02x (%d consecutive byte(s) differ)",
				fn.Name, bufWhere(a, i), a.snap[i], a.mem[i], n))
			break
		}
	}
	for _, p := range ps {
		o := p.outer
		if o == nil {
			continue
		}
		for i := 0; i < o.whole.Len(); i++ {
			if h := bufHeaderStr(o.whole.Index(i)); h != o.snap[i] {
				where := "an element of"
				switch {
				case i < o.pre:
					where = "the canary element in front of"
				case i >= o.pre+o.n+o.sp:
					where = "the canary element beyond the capacity of"
				case i >= o.pre+o.n:
					if allowSpare {
						continue
					}
					where = fmt.Sprintf("spare slot %d behind", i-o.pre-o.n)
				default:
					if allowVisible {
						continue
					}
					where = fmt.Sprintf("element %d of", i-o.pre)
				}
				out = append(out, fmt.Sprintf("%s wrote into caller-owned memory: %s the list `%s` was replaced", fn.Name, where, o.name))
				break
			}
		}
	}
	return out
}

func bufShort(s string) string {
	h := sha256.Sum256([]byte(s))
	if len(s) > 60 {
		s = s[:60] + "…"
	}
	return strings.ReplaceAll(s, " ", "_") + "#" + hex.EncodeToString(h[:4])
}

func bufCallOp(args []string) (string, []string) {
	if len(args) < 3 {
		return "bad-op", nil
	}
	fn := bufLookup(args[0])
	if fn == nil {
		// the function no longer exists (or lost its byte-slice parameter): nothing to check
		return "ok gone", nil
	}
	layout := args[1]
	spare, err := strconv.Atoi(args[2])
	if err != nil || spare < 0 || spare > 1<<16 {
		return "bad-op", nil
	}
	ps, msg := bufParseArgs(fn, args[3:])
	if msg != "" {
		return "ok stale (" + msg + ")", nil
	}
	priv, msg := bufExec(fn, ps, spare, true, nil)
	if msg != "" {
		return "ok stale (" + msg + ")", nil
	}
	arrays, msg := bufLayout(ps, layout, spare)
	if msg != "" {
		return "bad-op", nil
	}
	run, msg := bufExec(fn, ps, spare, false, arrays)
	if msg != "" {
		return "ok stale (" + msg + ")", nil
	}
	direct := bufCheckMemory(fn, ps, arrays)
	nondet := false
	if run.digest != priv.digest {
		// is the function deterministic at all? (a second run on private copies)
		ps2, _ := bufParseArgs(fn, args[3:])
		again, _ := bufExec(fn, ps2, spare, true, nil)
		if again != nil && again.digest != priv.digest {
			nondet = true
		} else {
			direct = append(direct, fmt.Sprintf("%s: the result depends on the spare capacity / sharing of its arguments (layout %s, spare %d): with the caller's slices vs private exact-capacity copies (shown as go/model): %s",
				fn.Name, layout, spare, firstDiff(run.digest, priv.digest)))
		}
	}
	ans := fmt.Sprintf("ok %s alias=%d panic=%d", bufShort(priv.digest), bufB2i(run.alias), bufB2i(run.panicked || priv.panicked))
	if nondet {
		ans += " nondet=1"
	}
	if run.panicked {
		lastPanic = run.msg
	}
	return ans, direct
}

func bufB2i(b bool) int {
	if b {
		return 1
	}
	return 0
}

// ---------------------------------------------------------------------------------------------
// value pools

type bufPoolT struct {
	priv, priv2, pubC, pubU, xonly, hash32, hash20, chain, aux, schnorr, der, proof, deadKey []byte
	ecR, ecS                                                                                 string
	p2pkh, p2sh, p2wpkh, p2wsh, opret, p2ms, redeem                                          []byte
	rawTx                                                                                    []byte
}

var bufPoolV *bufPoolT

func bufPool() *bufPoolT {
	if bufPoolV != nil {
		return bufPoolV
	}
	h := func(s string) []byte { d := sha256.Sum256([]byte(s)); return d[:] }
	p := &bufPoolT{}
	p.priv, p.priv2 = h("verif C18 private key 1"), h("verif C18 private key 2")
	p.pubC = ecc.GetPublicKeyCompressed(p.priv)
	p.pubU = ecc.GetPublicKeyUncompressed(p.priv)
	p.xonly = ecc.GetPublicKeySchnorr(p.priv)
	p.hash32, p.hash20 = h("verif C18 message"), h("verif C18 hash160")[:20]
	p.chain, p.aux = h("verif C18 chain code"), h("verif C18 aux")
	p.schnorr = ecc.SignSchnorr(p.priv, p.hash32, p.aux)
	p.der, _ = signer.SignSigHash(p.hash32, p.priv, 1)
	r, s := ecc.SignECDSA(p.priv, p.hash32)
	p.ecR, p.ecS = r.String(), s.String()
	p.proof = h("verif C18 dead key proof")
	p.deadKey = taproot.BuildDeadKey(p.proof)
	p.p2pkh, _ = script.MakeP2PKHFromPublicKey(p.pubC)
	p.p2wpkh, _ = script.MakeP2WPKHFromPublicKey(p.pubC)
	p.redeem = script.MakeP2MS(1, p.pubC, ecc.GetPublicKeyCompressed(p.priv2))
	p.p2ms = p.redeem
	p.p2sh = script.MakeP2SHFromScript(p.redeem)
	p.p2wsh = script.MakeP2WSHFromScript(p.redeem)
	p.opret, _ = script.MakeOpReturn([]byte("verif"))
	p.rawTx, _ = hex.DecodeString(bufRawTx)
	bufPoolV = p
	return p
}

func (r *Runner) bufRandom() [][]byte {
	var out [][]byte
	for _, n := range []int{78, 100, 0, 1, 20, 32, 33, 64, 65, 300} { // two values beyond the direct-push limit first (pooled large-push paths)
		out = append(out, r.bytesN(n))
	}
	return out
}

// bufBytesFor: meaningful values for a []byte parameter, chosen by its name (most specific first).
func (r *Runner) bufBytesFor(fn, name string) [][]byte {
	p := bufPool()
	n := strings.ToLower(name)
	has := func(subs ...string) bool {
		for _, s := range subs {
			if strings.Contains(n, s) {
				return true
			}
		}
		return false
	}
	switch {
	case has("priv"):
		return [][]byte{p.priv, p.priv2}
	case has("chaincode"):
		return [][]byte{p.chain}
	case has("fingerprint"):
		return [][]byte{p.hash20[:4]}
	case has("seed"):
		return [][]byte{p.hash32, append(append([]byte{}, p.hash32...), p.chain...), p.hash32[:16]}
	case has("entropy"):
		return [][]byte{p.hash32[:16], p.hash32, p.hash32[:20]}
	case has("auxrand"):
		return [][]byte{p.aux}
	case has("proof"):
		return [][]byte{p.proof}
	case has("pub") || n == "key" || n == "serialized":
		if strings.HasPrefix(fn, "taproot.") || has("internal") {
			return [][]byte{p.xonly, p.deadKey}
		}
		return [][]byte{p.pubC, p.pubU, p.xonly}
	case has("derencoded"):
		return [][]byte{p.der, p.der[:len(p.der)-1]}
	case has("sig"):
		return [][]byte{p.der, p.schnorr}
	case has("redeem"):
		return [][]byte{p.redeem, p.p2wpkh}
	case has("script"):
		return [][]byte{p.p2pkh, p.p2sh, p.p2wpkh, p.p2wsh, p.opret, p.p2ms}
	case has("hash") || n == "h":
		return [][]byte{p.hash32, p.hash20}
	case n == "buf" && strings.HasPrefix(fn, "tx."):
		// also cut short by one byte and by a few: a parser that runs off the end of its argument reads
		// the spare capacity behind it
		return [][]byte{p.rawTx, p.rawTx[:len(p.rawTx)-1], p.rawTx[:len(p.rawTx)-5], p.rawTx[:41]}
	case n == "buf":
		return [][]byte{{0x21}, {0xfd, 0x03, 0x02}, {0xfe, 1, 2, 3, 4, 9}, {0xff, 1, 2, 3, 4, 5, 6, 7, 8},
			{0xfd, 0x03}, {0xfe, 1, 2, 3}, {0xff, 1, 2, 3, 4, 5, 6, 7}, {0xfd}, {0xfe, 1}, {0xff, 1, 2, 3}, {}}
	}
	return append([][]byte{p.hash20, p.hash32, p.pubC, p.rawTx[:78]}, r.bufRandom()...)
}

func bufJoin(items [][]byte) string {
	if len(items) == 0 {
		return "."
	}
	s := make([]string, len(items))
	for i, it := range items {
		s[i] = hx(it)
	}
	return strings.Join(s, ",")
}

// bufOtherFor: values for the non-slice parameters, by name and type.
func bufOtherFor(fn, name string, t reflect.Type) []string {
	n := strings.ToLower(name)
	if _, ok := bufMake(t, 0); ok {
		if t.Kind() == reflect.Interface && t.NumMethod() == 1 && t.Method(0).Name == "Hash" {
			return []string{"@0", "@1"}
		}
		return []string{"@0", "@1"}
	}
	switch t.Kind() {
	case reflect.Bool:
		return []string{"t", "f"}
	case reflect.String:
		switch {
		case n == "hrp":
			return []string{hx([]byte("bc")), hx([]byte("tb"))}
		case strings.Contains(n, "format"):
			return []string{hx([]byte("P2PKH")), hx([]byte("P2SH")), hx([]byte("P2WPKH")), hx([]byte("P2WSH"))}
		}
		return []string{hx([]byte("password")), "-"}
	case reflect.Int, reflect.Int8, reflect.Int16, reflect.Int32, reflect.Int64:
		return []string{"0", "1"}
	case reflect.Uint, reflect.Uint8, reflect.Uint16, reflect.Uint32, reflect.Uint64:
		switch {
		case strings.Contains(n, "sighash"):
			return []string{"1", "131", "3"}
		case n == "op":
			return []string{"172", "171"}
		case strings.Contains(n, "value"):
			return []string{"600000000"}
		case n == "version" && strings.HasPrefix(fn, "bech32."):
			return []string{"0", "1"}
		case n == "version":
			return []string{"128", "0", "5"}
		case strings.Contains(n, "required"):
			return []string{"1", "2"}
		}
		return []string{"0", "1", "7"}
	case reflect.Slice:
		if t.Elem().Kind() == reflect.Uint32 {
			return []string{"1", "1,2", "2147483649,5", "."}
		}
	}
	return nil
}

// bufSpecial: argument tuples for functions whose arguments must fit together to do real work.
func bufSpecial(fn string) [][]string {
	p := bufPool()
	switch fn {
	case "ecc.VerifySchnorr":
		return [][]string{{hx(p.xonly), hx(p.hash32), hx(p.schnorr)}, {hx(p.xonly), hx(p.hash32), hx(p.hash32) + hx(p.hash32)}}
	case "ecc.VerifyECDSA":
		return [][]string{{hx(p.pubC), hx(p.hash32), p.ecR, p.ecS}, {hx(p.pubU), hx(p.hash32), p.ecR, p.ecS}, {hx(p.pubC), hx(p.chain), p.ecR, p.ecS}}
	case "taproot.VerifyDeadKey":
		return [][]string{{hx(p.deadKey), hx(p.proof)}, {hx(p.xonly), hx(p.proof)}}
	case "taproot.TweakPublicKey":
		return [][]string{{hx(p.xonly), hx(p.hash32)}, {hx(p.xonly), "-"}, {hx(p.xonly), "nil"}, {hx(p.deadKey), hx(p.chain)}}
	case "taproot.TweakPrivateKey":
		return [][]string{{hx(p.priv), hx(p.hash32)}, {hx(p.priv2), "-"}}
	case "bip38.Encrypt":
		return [][]string{{hx(p.priv), hx([]byte("pw")), "t"}}
	case "address.MakeFromHash":
		return [][]string{{hx([]byte("P2PKH")), hx(p.hash20)}, {hx([]byte("P2SH")), hx(p.hash20)}, {hx([]byte("P2WPKH")), hx(p.hash20)}, {hx([]byte("P2WSH")), hx(p.hash32)}}
	case "address.Make":
		return [][]string{{hx([]byte("P2PKH")), hx(p.pubC)}, {hx([]byte("P2SH")), hx(p.redeem)}, {hx([]byte("P2WPKH")), hx(p.pubC)}, {hx([]byte("P2WSH")), hx(p.redeem)}, {hx([]byte("P2PKH")), hx(p.pubU)}}
	case "wif.Encode", "wif.EncodeUncompressed":
		return [][]string{{hx(p.priv), "128"}, {hx(p.priv2), "239"}, {"nil", "128"}, {hx(p.priv[:31]), "128"}}
	case "unspent.(*OutputSet).UpdateFromBlock":
		t := bufTx(0)
		return [][]string{{"@0", "@0", bufJoin([][]byte{t.Outputs[0].Script, p.p2wpkh})}, {"@0", "@0", bufJoin([][]byte{t.Outputs[1].Script})}, {"@0", "@0", "."}}
	case "blockscan.(*BlockScanner).UpdateUtxos":
		return [][]string{} // needs a live RPC endpoint: covered by the IR only
	}
	return nil
}

// bufTuples: up to `limit` argument tuples for a function.
func (r *Runner) bufTuples(fn *bufFuncEntry, limit int) ([][]string, string) {
	if sp := bufSpecial(fn.Name); sp != nil {
		if len(sp) > limit {
			sp = sp[:limit]
		}
		return sp, ""
	}
	ft := fn.Fn.Type()
	choices := make([][]string, ft.NumIn())
	for i := 0; i < ft.NumIn(); i++ {
		t := ft.In(i)
		name := fn.Params[i]
		switch bufKindOf(t) {
		case bufKBytes:
			for _, v := range r.bufBytesFor(fn.Name, name) {
				choices[i] = append(choices[i], hx(v))
			}
		case bufKArrs:
			n := t.Elem().Len()
			for _, cnt := range []int{3, 1, 2, 5, 7, 4} { // never empty: merkle recursion does not terminate on an empty list (stack overflow is fatal, C17)
				var items [][]byte
				for k := 0; k < cnt; k++ {
					items = append(items, r.bytesN(n))
				}
				choices[i] = append(choices[i], bufJoin(items))
			}
		case bufKList:
			pool := r.bufBytesFor(fn.Name, strings.TrimSuffix(name, "s"))
			if strings.Contains(strings.ToLower(name), "publickey") {
				pool = [][]byte{bufPool().pubC, ecc.GetPublicKeyCompressed(bufPool().priv2), bufPool().pubU}
			}
			for _, cnt := range []int{2, 1, 3, 0} {
				var items [][]byte
				for k := 0; k < cnt; k++ {
					items = append(items, pool[k%len(pool)])
				}
				choices[i] = append(choices[i], bufJoin(items))
			}
		default:
			choices[i] = bufOtherFor(fn.Name, name, t)
			if len(choices[i]) == 0 {
				return nil, fmt.Sprintf("%s: no values for parameter %s %s", fn.Name, name, t)
			}
		}
	}
	// tuple k takes choice (k + small parameter-dependent shift) of every parameter, so that every
	// value of every parameter is used once before the cap
	most := 0
	for _, c := range choices {
		if len(c) > most {
			most = len(c)
		}
	}
	if most > limit {
		most = limit
	}
	var out [][]string
	for k := 0; k < most; k++ {
		t := make([]string, len(choices))
		for i, c := range choices {
			t[i] = c[k%len(c)]
		}
		out = append(out, t)
	}
	// random draws: every byte-slice argument replaced by random bytes of a meaningful length (the
	// length of one of its pool values), so that e.g. fresh private keys and hashes are used
	for d := 0; d < r.N(3, 20) && len(out) > 0; d++ {
		base := out[r.rng.Intn(len(out))]
		t := append([]string(nil), base...)
		for i := 0; i < ft.NumIn(); i++ {
			if bufKindOf(ft.In(i)) != bufKBytes || t[i] == "nil" || t[i] == "-" {
				continue
			}
			if r.rng.Intn(3) == 0 {
				continue // keep a structured value next to the random ones
			}
			t[i] = hx(r.bytesN(len(t[i]) / 2))
		}
		out = append(out, t)
	}
	return out, ""
}

func bufLeafCount(fn *bufFuncEntry, tuple []string) int {
	ft := fn.Fn.Type()
	n := 0
	for i := 0; i < ft.NumIn(); i++ {
		switch bufKindOf(ft.In(i)) {
		case bufKBytes, bufKArrs:
			if tuple[i] != "nil" {
				n++
			}
		case bufKList:
			if tuple[i] != "nil" && tuple[i] != "." {
				n += len(strings.Split(tuple[i], ","))
			}
		}
	}
	return n
}

// bufAliasTuple rewrites a tuple so that the byte-slice arguments share one value (truncated to each
// argument's original length), which the `alias` layout then places in the same memory.
func bufAliasTuple(fn *bufFuncEntry, tuple []string) []string {
	ft := fn.Fn.Type()
	longest := ""
	for i := 0; i < ft.NumIn(); i++ {
		if bufKindOf(ft.In(i)) == bufKBytes && tuple[i] != "nil" && tuple[i] != "-" && len(tuple[i]) > len(longest) {
			longest = tuple[i]
		}
		if bufKindOf(ft.In(i)) == bufKList && tuple[i] != "nil" && tuple[i] != "." {
			for _, it := range strings.Split(tuple[i], ",") {
				if it != "-" && it != "nil" && len(it) > len(longest) {
					longest = it
				}
			}
		}
	}
	if longest == "" {
		return nil
	}
	out := append([]string(nil), tuple...)
	cut := func(s string) string {
		if s == "nil" || s == "-" || len(s) > len(longest) {
			return s
		}
		return longest[:len(s)]
	}
	for i := 0; i < ft.NumIn(); i++ {
		switch bufKindOf(ft.In(i)) {
		case bufKBytes:
			out[i] = cut(tuple[i])
		case bufKList:
			if tuple[i] != "nil" && tuple[i] != "." {
				items := strings.Split(tuple[i], ",")
				for j := range items {
					items[j] = cut(items[j])
				}
				out[i] = strings.Join(items, ",")
			}
		}
	}
	return out
}

func init() {
	reg("buf.call", GoOnly, bufCallOp)
	regRunner("C18", runC18)
}

func runC18(r *Runner) string {
	spares := []int{0, 1, 4, 32, 64}
	limit := r.N(10, 40)
	funcs := append([]bufFuncEntry(nil), bufFuncs...)
	sort.Slice(funcs, func(i, j int) bool { return funcs[i].Name < funcs[j].Name })
	var uncovered []string
	panics, aliases, nondet := map[string]int{}, map[string]int{}, map[string]int{}
	called := 0
	do := func(fn *bufFuncEntry, layout string, spare int, tuple []string) {
		args := append([]string{fn.Name, layout, strconv.Itoa(spare)}, tuple...)
		ans, direct := eval("buf.call", args)
		pkg := fn.Name
		if i := strings.Index(pkg, "."); i > 0 {
			pkg = pkg[:i]
		}
		r.Add(&Case{Op: "buf.call", Args: args, Go: ans, Mode: GoOnly, Direct: direct, NonTrivial: spare > 0 || layout != "sep",
			Tag: pkg + "/" + layout, Desc: fn.Name})
		if strings.Contains(ans, "panic=1") {
			if panics[fn.Name] == 0 {
				r.addFailure(Failure{Kind: "drift", Op: "buf.call", Args: args, Go: ans, Detail: "the library panicked (C17's business): " + lastPanic, Tag: "panic"}, true)
			}
			panics[fn.Name]++
		}
		if strings.Contains(ans, "alias=1") {
			aliases[fn.Name]++
		}
		if strings.Contains(ans, "nondet=1") {
			nondet[fn.Name]++
		}
	}
	for i := range funcs {
		fn := &funcs[i]
		lim := limit
		if fn.Name == "bip38.Encrypt" {
			lim = 1 // scrypt: about half a second per call
		}
		tuples, msg := r.bufTuples(fn, lim)
		if msg != "" || len(tuples) == 0 {
			if msg == "" {
				msg = fn.Name + ": not callable in the rig (needs an external service)"
			}
			uncovered = append(uncovered, msg)
			continue
		}
		called++
		for k, tuple := range tuples {
			sp := spares
			if fn.Name == "bip38.Encrypt" && !r.thorough {
				sp = []int{0, 4}
			}
			for _, s := range sp {
				do(fn, "sep", s, tuple)
			}
			if bufLeafCount(fn, tuple) >= 2 {
				for _, s := range sp {
					do(fn, "adj", s, tuple)
					do(fn, "adjrev", s, tuple)
				}
				if at := bufAliasTuple(fn, tuple); at != nil {
					do(fn, "alias", spares[(k+1)%len(spares)], at)
					do(fn, "alias", 0, at)
				}
			}
		}
	}
	note := func(what string, m map[string]int) {
		if len(m) == 0 {
			return
		}
		var ks []string
		for k := range m {
			ks = append(ks, k)
		}
		sort.Strings(ks)
		r.res.Notes = append(r.res.Notes, what+": "+strings.Join(ks, ", "))
	}
	note("results sharing memory with an argument (retAlias, allowed by the property)", aliases)
	note("panicked on some drawn arguments (recorded as drift; C17's business)", panics)
	note("not deterministic (result comparison skipped)", nondet)
	if len(uncovered) > 0 {
		r.res.Notes = append(r.res.Notes, "not called by the rig: "+strings.Join(uncovered, "; "))
	}
	if len(bufSkipped) > 0 {
		r.res.Notes = append(r.res.Notes, "not callable through reflect: "+strings.Join(bufSkipped, ", "))
	}
	r.res.Notes = append(r.res.Notes, bufIRNotes()...)
	al := make([]string, 0, len(bufAllow))
	for k, v := range bufAllow {
		al = append(al, k+" ("+v+")")
	}
	sort.Strings(al)
	r.res.Notes = append(r.res.Notes, "allow-list (documented in-place functions): "+strings.Join(al, "; "))
	return fmt.Sprintf("every exported function/method with a []byte, [][]byte or [][N]byte parameter as listed by the extractor from the current source (%d listed, %d called); "+
		"per function up to %d argument tuples drawn from name-directed pools of meaningful values (valid private/public/x-only keys, hashes, chain code, DER and Schnorr signatures, "+
		"scripts, a serialized transaction, random bytes of lengths 0,1,20,32,33,64,65,78) or hand-written fitting tuples (valid signature triples, dead-key proofs, blocks); "+
		"each tuple in layout sep x spare {0,1,4,32,64}, and for >= 2 slices adj and adjrev x the same spares plus alias (equal/prefix values sharing memory); "+
		"after each call every canary array (prefix, visible bytes, spare capacity, suffix) and every list-header array is compared with its snapshot and the result digest "+
		"(results + final state of pointer arguments) with the same call on private exact-capacity copies. Non-trivial = spare > 0 or a shared-array layout; distinct = distinct request line.",
		len(bufFuncs), called, limit)
}

// buf.master <seed>: bip32.GenerateMasterKey returns the two halves of one HMAC output; every
// encoder / deriver is then applied to the key half and the chain code half must survive.
func bufMasterOp(args []string) (string, []string) {
	if len(args) != 1 {
		return "bad-op", nil
	}
	seed := unhx(args[0])
	key, chain, err := bip32.GenerateMasterKey(seed)
	if err != nil {
		return "err", nil
	}
	keySnap, chainSnap := append([]byte(nil), key...), append([]byte(nil), chain...)
	var direct []string
	var outs []string
	step := func(name string, f func() string) {
		var res string
		func() {
			defer func() {
				if e := recover(); e != nil {
					res = "panic"
				}
			}()
			res = f()
		}()
		outs = append(outs, res)
		if !bytes.Equal(chain, chainSnap) {
			direct = append(direct, fmt.Sprintf("%s(masterKey) corrupted the chain code that shares the key's backing array (cap(masterKey)=%d): %x -> %x", name, cap(key), chainSnap[:4], chain[:4]))
			copy(chain, chainSnap)
		}
		if !bytes.Equal(key, keySnap) {
			direct = append(direct, name+"(masterKey) modified the key")
			copy(key, keySnap)
		}
	}
	step("wif.Encode", func() string { s, _ := wif.Encode(key, 0x80); return s })
	step("wif.EncodeUncompressed", func() string { s, _ := wif.EncodeUncompressed(key, 0x80); return s })
	step("base58check.Encode", func() string { return base58check.Encode(key) })
	step("base58check.EncodeVersion", func() string { return base58check.EncodeVersion(key, 0x80) })
	step("bip32.SerializePrivate", func() string { return bip32.SerializePrivate(key, chain, []byte{0, 0, 0, 0}, 0, 0, 0x0488ade4) })
	step("bip32.DerivePrivateChild", func() string { k, c := bip32.DerivePrivateChild(key, chain, 1, 0x80000002); return hx(k) + hx(c) })
	step("ecc.GetPublicKeyCompressed", func() string { return hx(ecc.GetPublicKeyCompressed(key)) })
	step("taproot.TweakPrivateKey", func() string { k, _ := taproot.TweakPrivateKey(key, chain); return hx(k) })
	step("bech32.Encode", func() string { s, _ := bech32.Encode("bc", 0, key); return s })
	step("script.PushData", func() string { return hx(script.PushData(key)) })
	h := sha256.Sum256([]byte(strings.Join(outs, ";")))
	return "ok " + hex.EncodeToString(h[:8]), direct
}

func init() { reg("buf.master", GoOnly, bufMasterOp) }

// bufIRNotes: what the extractor recorded about the regenerated IR (build/buffer_ir.json)
func bufIRNotes() []string {
	exe := os.Getenv("VERIF_HARNESS")
	if exe == "" {
		exe, _ = os.Executable()
	}
	data, err := os.ReadFile(filepath.Join(filepath.Dir(exe), "buffer_ir.json"))
	if err != nil {
		return []string{"buffer IR notes not available: " + err.Error()}
	}
	var j struct {
		Translated int                                  `json:"functions_translated"`
		Emitted    int                                  `json:"functions_emitted"`
		Api        int                                  `json:"api_functions_with_slice_parameters"`
		StmtsAll   int                                  `json:"statements_translated"`
		Stmts      int                                  `json:"statements_emitted"`
		Violations []struct{ Func, What, Where string } `json:"violations"`
		RetAlias   []struct{ Func, What, Where string } `json:"ret_alias"`
		Havoc      []struct{ Func, What, Where string } `json:"havoc_reached_by_tracked_memory"`
		Beyond     []struct{ Func, What, Where string } `json:"read_beyond_len"`
		Assumed    []struct{ Func, What, Where string } `json:"bound_assumptions"`
		Unknown    []string                             `json:"external_callees_without_table_entry"`
	}
	if json.Unmarshal(data, &j) != nil {
		return []string{"buffer IR notes unreadable"}
	}
	list := func(xs []struct{ Func, What, Where string }) string {
		seen := map[string]bool{}
		var out []string
		for _, x := range xs {
			k := x.Func + " (" + x.Where + ")"
			if !seen[k] {
				seen[k] = true
				out = append(out, k)
			}
		}
		if len(out) == 0 {
			return "none"
		}
		return strings.Join(out, ", ")
	}
	notes := []string{
		fmt.Sprintf("IR regenerated from SSA on this run: %d functions translated (%d statements), %d functions may receive caller-owned byte-slice memory and are emitted (%d statements after eliding fresh-memory-only statements); %d exported functions with byte-slice parameters",
			j.Translated, j.StmtsAll, j.Emitted, j.Stmts, j.Api),
		"IR: results that may alias an argument (retAlias, allowed): " + list(j.RetAlias),
		"IR: caller-owned memory reaching a callee without body or table entry (havoc): " + list(j.Havoc),
		"IR: slice expressions bounded by cap() on tracked memory: " + list(j.Beyond),
		"IR: slice bounds assumed <= len (pinned by bound_assumptions_pinned): " + list(j.Assumed),
		"IR: external callees without a table entry (havoc whenever they receive memory): " + strings.Join(j.Unknown, ", "),
	}
	if len(j.Violations) > 0 {
		notes = append(notes, "IR: violations found by the extractor's fixpoint: "+list(j.Violations))
	}
	return notes
}
