package main

// C08: Base58, Base58Check, Bech32. Strings travel as the hex of their bytes.

import (
	"bytes"
	"fmt"
	"strconv"
	"strings"

	"github.com/kklash/bitcoinlib/base58"
	"github.com/kklash/bitcoinlib/base58check"
	"github.com/kklash/bitcoinlib/bech32"
)

func sx(s string) string     { return hx([]byte(s)) }
func strArg(a string) string { return string(unhx(a)) }

// spareCopy returns a copy of b that has spare capacity filled with a canary, and a function
// reporting whether the callee wrote behind the slice (D15).
func spareCopy(b []byte) ([]byte, func() bool) {
	buf := make([]byte, len(b)+16)
	copy(buf, b)
	for i := len(b); i < len(buf); i++ {
		buf[i] = 0xa5
	}
	return buf[:len(b)], func() bool {
		for i := len(b); i < len(buf); i++ {
			if buf[i] != 0xa5 {
				return true
			}
		}
		return !bytes.Equal(buf[:len(b)], b)
	}
}

const bechCharset = "qpzry9x8gf2tvdw0s3jn54khce6mua7l"

// harness-side Bech32 checksum (BIP173 reference), used to build strings with a valid checksum
// over arbitrary 5-bit data (re-padding, empty data parts, …)
func hBechPolymod(values []byte) uint32 {
	gen := [5]uint32{0x3b6a57b2, 0x26508e6d, 0x1ea119fa, 0x3d4233dd, 0x2a1462b3}
	chk := uint32(1)
	for _, v := range values {
		b := chk >> 25
		chk = (chk&0x1ffffff)<<5 ^ uint32(v)
		for i := 0; i < 5; i++ {
			if (b>>uint(i))&1 == 1 {
				chk ^= gen[i]
			}
		}
	}
	return chk
}

func hBechEncodeRaw(hrp string, data5 []byte) string { return hBechEncodeRawConst(hrp, data5, 1) }

// the checksum computed against another final constant (0x2bc830a3 is the Bech32m one of BIP350: those
// strings are NOT valid Bech32, which is what this library implements)
func hBechEncodeRawConst(hrp string, data5 []byte, konst int) string {
	var vals []byte
	for i := 0; i < len(hrp); i++ {
		vals = append(vals, hrp[i]>>5)
	}
	vals = append(vals, 0)
	for i := 0; i < len(hrp); i++ {
		vals = append(vals, hrp[i]&31)
	}
	vals = append(vals, data5...)
	pm := hBechPolymod(append(append([]byte{}, vals...), 0, 0, 0, 0, 0, 0)) ^ uint32(konst)
	out := []byte(hrp + "1")
	for _, d := range data5 {
		out = append(out, bechCharset[d&31])
	}
	for i := 0; i < 6; i++ {
		out = append(out, bechCharset[(pm>>(5*(5-uint(i))))&31])
	}
	return string(out)
}

// 8 -> 5 bit regrouping with zero padding (harness side)
func hTo5(data []byte) []byte {
	var out []byte
	acc, bits := 0, 0
	for _, b := range data {
		acc = acc<<8 | int(b)
		bits += 8
		for bits >= 5 {
			bits -= 5
			out = append(out, byte(acc>>uint(bits))&31)
		}
	}
	if bits > 0 {
		out = append(out, byte(acc<<uint(5-bits))&31)
	}
	return out
}

func validHrp(h string) bool {
	if len(h) == 0 {
		return false
	}
	for i := 0; i < len(h); i++ {
		if h[i] < 33 || h[i] > 126 || (h[i] >= 'A' && h[i] <= 'Z') {
			return false
		}
	}
	return true
}

func goBechDecode(s string) (string, []string) {
	hrp, ver, data, err := bech32.Decode(s)
	if err != nil {
		return "err", nil
	}
	var direct []string
	if verr := bech32.Validate(s); verr != nil {
		direct = append(direct, "Decode accepted a string that Validate rejects")
	}
	back, eerr := bech32.Encode(hrp, ver, data)
	if eerr != nil {
		direct = append(direct, "decoded value cannot be re-encoded: "+eerr.Error())
	} else if back != strings.ToLower(s) {
		direct = append(direct, fmt.Sprintf("re-encoding the decoded value gives %q, not the (lower-cased) input", back))
	}
	return fmt.Sprintf("ok %s %d %s", sx(hrp), ver, hx(data)), direct
}

func goBechEncode(a []string) (string, []string) {
	hrp := strArg(a[0])
	v, err := strconv.Atoi(a[1])
	if err != nil || v < 0 || v > 255 {
		return "bad-op", nil
	}
	data := unhx(a[2])
	s, eerr := bech32.Encode(hrp, byte(v), data)
	if eerr != nil {
		return "err", nil
	}
	var direct []string
	if validHrp(hrp) {
		h2, v2, d2, derr := bech32.Decode(s)
		if derr != nil {
			direct = append(direct, fmt.Sprintf("Encode returned a %d-character string that Decode rejects: %v", len(s), derr))
		} else if h2 != hrp || int(v2) != v || !bytes.Equal(d2, data) {
			direct = append(direct, "Decode(Encode(x)) != x")
		}
	}
	return "ok " + sx(s), direct
}

func init() {
	regRunner("C08", runC08)
	reg("b58.enc", Full, func(a []string) (string, []string) {
		d := unhx(a[0])
		s := base58.Encode(d)
		var direct []string
		back, err := base58.Decode(s)
		if err != nil || !bytes.Equal(back, d) {
			direct = append(direct, "base58.Decode(Encode(x)) != x")
		}
		return "ok " + sx(s), direct
	})
	reg("b58.dec", Full, func(a []string) (string, []string) {
		s := strArg(a[0])
		d, err := base58.Decode(s)
		if err != nil {
			return "err", nil
		}
		var direct []string
		if back := base58.Encode(d); back != s {
			direct = append(direct, fmt.Sprintf("base58.Encode(Decode(s)) = %q != s", back))
		}
		return "ok " + hx(d), direct
	})
	reg("b58c.enc", Full, func(a []string) (string, []string) {
		d := unhx(a[0])
		in, dirty := spareCopy(d)
		s := base58check.Encode(in)
		var direct []string
		if dirty() {
			direct = append(direct, "base58check.Encode wrote into the caller's slice or its spare capacity")
		}
		back, err := base58check.Decode(s)
		if err != nil || !bytes.Equal(back, d) {
			direct = append(direct, "base58check.Decode(Encode(x)) != x")
		}
		return "ok " + sx(s), direct
	})
	reg("b58c.encv", Full, func(a []string) (string, []string) {
		d := unhx(a[0])
		v, err := strconv.Atoi(a[1])
		if err != nil || v < 0 || v > 0xffff {
			return "bad-op", nil
		}
		in, dirty := spareCopy(d)
		s := base58check.EncodeVersion(in, uint16(v))
		var direct []string
		if dirty() {
			direct = append(direct, "base58check.EncodeVersion wrote into the caller's slice")
		}
		var want []byte
		if v <= 0xff {
			want = append([]byte{byte(v)}, d...)
		} else {
			want = append([]byte{byte(v >> 8), byte(v)}, d...)
		}
		back, derr := base58check.Decode(s)
		if derr != nil || !bytes.Equal(back, want) {
			direct = append(direct, "base58check.Decode(EncodeVersion(x, v)) != version || x")
		}
		return "ok " + sx(s), direct
	})
	reg("b58c.dec", Full, func(a []string) (string, []string) {
		s := strArg(a[0])
		d, err := base58check.Decode(s)
		if err != nil {
			return "err", nil
		}
		var direct []string
		if back := base58check.Encode(d); back != s {
			direct = append(direct, fmt.Sprintf("base58check.Encode(Decode(s)) = %q != s", back))
		}
		return "ok " + hx(d), direct
	})
	reg("bech32.enc", Full, goBechEncode)
	reg("bech32.enc.spec", Full, goBechEncode)
	reg("bech32.dec", Full, func(a []string) (string, []string) { return goBechDecode(strArg(a[0])) })
	reg("bech32.dec.spec", Full, func(a []string) (string, []string) { return goBechDecode(strArg(a[0])) })
	reg("bech32.validate", Full, func(a []string) (string, []string) {
		if bech32.Validate(strArg(a[0])) != nil {
			return "err", nil
		}
		return "ok", nil
	})
}

// ---------------------------------------------------------------------------------------------
// generators

const b58Alphabet = "123456789ABCDEFGHJKLMNPQRSTUVWXYZabcdefghijkmnopqrstuvwxyz"

func (r *Runner) printable(n int) string {
	b := make([]byte, n)
	for i := range b {
		b[i] = byte(32 + r.rng.Intn(95))
	}
	return string(b)
}

func (r *Runner) fromAlphabet(alpha string, n int) string {
	b := make([]byte, n)
	for i := range b {
		b[i] = alpha[r.rng.Intn(len(alpha))]
	}
	return string(b)
}

// zeroRun returns n bytes starting with exactly z zero bytes (when z < n the next byte is non-zero)
func (r *Runner) zeroRun(n, z int) []byte {
	b := r.bytesN(n)
	for i := 0; i < z && i < n; i++ {
		b[i] = 0
	}
	if z < n && b[z] == 0 {
		b[z] = byte(1 + r.rng.Intn(255))
	}
	return b
}

// mutateStr applies one random edit: substitution, insertion, deletion, truncation, swap
func (r *Runner) mutateStr(s string, alpha string) string {
	b := []byte(s)
	pick := func() byte {
		if r.rng.Intn(4) == 0 {
			return byte(r.rng.Intn(256))
		}
		return alpha[r.rng.Intn(len(alpha))]
	}
	switch k := r.rng.Intn(6); {
	case len(b) == 0 || k == 0:
		i := r.rng.Intn(len(b) + 1)
		b = append(b[:i], append([]byte{pick()}, b[i:]...)...)
	case k == 1:
		b[r.rng.Intn(len(b))] = pick()
	case k == 2:
		i := r.rng.Intn(len(b))
		b = append(b[:i], b[i+1:]...)
	case k == 3:
		b = b[:r.rng.Intn(len(b))]
	case k == 4:
		i, j := r.rng.Intn(len(b)), r.rng.Intn(len(b))
		b[i], b[j] = b[j], b[i]
	default:
		b = append([]byte{alpha[0]}, b...)
	}
	return string(b)
}

func (r *Runner) bechMutations(s string, tagp string, exhaustive bool) {
	sep := strings.LastIndex(s, "1")
	// single substitutions of data characters by other alphabet characters
	if exhaustive {
		for i := sep + 1; i < len(s); i++ {
			for c := 0; c < 32; c++ {
				if bechCharset[c] == s[i] {
					continue
				}
				m := s[:i] + string(bechCharset[c]) + s[i+1:]
				r.Do("bech32.dec", []string{sx(m)}, tagp+"-sub1", true, "single substitution")
			}
		}
	} else {
		for k := 0; k < 12; k++ {
			i := sep + 1 + r.rng.Intn(len(s)-sep-1)
			m := s[:i] + string(bechCharset[(strings.IndexByte(bechCharset, s[i])+1+r.rng.Intn(31))%32]) + s[i+1:]
			r.Do("bech32.dec", []string{sx(m)}, tagp+"-sub1", true, "single substitution")
		}
	}
	// double substitutions (sampled)
	nd := 40
	if exhaustive {
		nd = 400
	}
	for k := 0; k < nd; k++ {
		i := sep + 1 + r.rng.Intn(len(s)-sep-1)
		j := sep + 1 + r.rng.Intn(len(s)-sep-1)
		if i == j {
			continue
		}
		b := []byte(s)
		b[i] = bechCharset[(strings.IndexByte(bechCharset, s[i])+1+r.rng.Intn(31))%32]
		b[j] = bechCharset[(strings.IndexByte(bechCharset, s[j])+1+r.rng.Intn(31))%32]
		r.Do("bech32.dec", []string{sx(string(b))}, tagp+"-sub2", true, "double substitution")
	}
	// hrp substitutions, insertions, deletions, truncations
	for k := 0; k < 10; k++ {
		r.Do("bech32.dec", []string{sx(r.mutateStr(s, bechCharset))}, tagp+"-edit", true, "")
	}
	for _, cut := range []int{1, 2, 5, 6, 7, len(s) - sep - 1, len(s) - sep, len(s) - 1} {
		if cut >= 0 && cut <= len(s) {
			r.Do("bech32.dec", []string{sx(s[:len(s)-cut])}, tagp+"-trunc", true, "")
		}
	}
	// case changes
	up := strings.ToUpper(s)
	r.Do("bech32.dec", []string{sx(up)}, tagp+"-upper", true, "all upper case")
	r.Do("bech32.validate", []string{sx(up)}, tagp+"-upper", true, "")
	for k := 0; k < 4; k++ {
		i := r.rng.Intn(len(s))
		r.Do("bech32.dec", []string{sx(s[:i] + strings.ToUpper(s[i:i+1]) + s[i+1:])}, tagp+"-mixed", true, "one character upper-cased")
		r.Do("bech32.dec", []string{sx(up[:i] + strings.ToLower(up[i:i+1]) + up[i+1:])}, tagp+"-mixed", true, "one character lower-cased")
	}
	// separator moves / extra separators
	for k := 0; k < 4; k++ {
		i := r.rng.Intn(len(s))
		r.Do("bech32.dec", []string{sx(s[:i] + "1" + s[i:])}, tagp+"-sep", true, "separator inserted")
	}
	r.Do("bech32.dec", []string{sx(strings.Replace(s, "1", "", 1))}, tagp+"-sep", true, "first separator removed")
	r.Do("bech32.dec", []string{sx(s[sep:])}, tagp+"-sep", true, "empty hrp")
	r.Do("bech32.dec.spec", []string{sx(s)}, tagp+"-spec", true, "")
}

func runC08(r *Runner) string {
	// ---- Base58 / Base58Check: every length 0..120, leading-zero runs ----
	for n := 0; n <= 120; n++ {
		runs := map[int]bool{0: true, 1: true, 2: true, n: true, n - 1: true, n / 2: true}
		if r.thorough {
			for z := 0; z <= n; z++ {
				runs[z] = true
			}
		} else {
			runs[r.rng.Intn(n+1)] = true
		}
		for z := 0; z <= n; z++ { // in increasing order: the case stream must depend on the seed only
			if !runs[z] {
				continue
			}
			for rep := 0; rep < r.N(2, 6); rep++ {
				d := r.zeroRun(n, z)
				nt := n > 0
				r.Do("b58.enc", []string{hx(d)}, "b58-enc", nt, "")
				s := base58.Encode(d)
				r.Do("b58.dec", []string{sx(s)}, "b58-dec", nt, "")
				r.Do("b58.dec", []string{sx(r.mutateStr(s, b58Alphabet))}, "b58-dec-mutated", nt, "")
				r.Do("b58c.enc", []string{hx(d)}, "b58c-enc", nt, "")
				c := base58check.Encode(d)
				r.Do("b58c.dec", []string{sx(c)}, "b58c-dec", true, "")
				r.Do("b58c.dec", []string{sx(r.mutateStr(c, b58Alphabet))}, "b58c-dec-mutated", true, "")
				// Base58 of the bare data read as Base58Check (random checksum, short inputs)
				r.Do("b58c.dec", []string{sx(s)}, "b58c-dec-nochecksum", n >= 4, "")
			}
		}
	}
	// ---- all one-byte versions, two-byte versions ----
	for v := 0; v <= 0xff; v++ {
		d := r.bytesN(20)
		r.Do("b58c.encv", []string{hx(d), strconv.Itoa(v)}, "b58c-encv-1byte", true, "")
		r.Do("b58c.dec", []string{sx(base58check.EncodeVersion(d, uint16(v)))}, "b58c-dec-version", true, "")
	}
	step := 97
	if r.thorough {
		step = 1
	}
	for v := 0x100; v <= 0xffff; v += step {
		d := r.bytesN(r.rng.Intn(40))
		r.Do("b58c.encv", []string{hx(d), strconv.Itoa(v)}, "b58c-encv-2byte", true, "")
	}
	for _, v := range []int{0x100, 0x101, 0x1cb8, 0x1cbd, 0xff00, 0xffff} {
		for _, n := range []int{0, 1, 20, 32} {
			r.Do("b58c.encv", []string{hx(r.bytesN(n)), strconv.Itoa(v)}, "b58c-encv-2byte", true, "")
		}
	}

	// ---- Base58(Check) strings not produced by the encoder ----
	for i := 0; i < r.N(1500, 60000); i++ {
		var s string
		switch i % 5 {
		case 0:
			s = r.fromAlphabet(b58Alphabet, r.rng.Intn(60))
		case 1:
			s = strings.Repeat("1", r.rng.Intn(8)) + r.fromAlphabet(b58Alphabet, r.rng.Intn(40))
		case 2:
			s = r.printable(r.rng.Intn(30))
		case 3:
			s = r.fromAlphabet(b58Alphabet+"0OIl +/", 1+r.rng.Intn(30))
		default:
			s = string(r.bytesN(r.rng.Intn(12)))
		}
		r.Do("b58.dec", []string{sx(s)}, "b58-dec-arbitrary", len(s) > 0, "")
		r.Do("b58c.dec", []string{sx(s)}, "b58c-dec-arbitrary", len(s) > 0, "")
	}
	// every single-character substitution of a few Base58Check strings (checksum must catch them)
	for k := 0; k < r.N(3, 40); k++ {
		c := base58check.EncodeVersion(r.bytesN(20), uint16(r.rng.Intn(256)))
		for i := 0; i < len(c); i++ {
			for j := 0; j < len(b58Alphabet); j++ {
				if b58Alphabet[j] != c[i] {
					r.Do("b58c.dec", []string{sx(c[:i] + string(b58Alphabet[j]) + c[i+1:])}, "b58c-dec-sub1", true, "")
				}
			}
		}
	}

	// ---- Bech32 encode: (hrp, version, payload) around the 90-character limit ----
	hrps := []string{"a", "bc", "tb", "ltc", "bcrt", "split", "?", "~~", "a1b", "11", "an83characterlonghumanreadablepartthatcontainsthenumber1andtheexcludedcharactersbio"}
	for i := 0; i < r.N(2500, 100000); i++ {
		var hrp string
		switch i % 4 {
		case 0:
			hrp = hrps[r.rng.Intn(len(hrps))]
		case 1:
			hrp = strings.ToLower(r.fromAlphabet("abcdefghijklmnopqrstuvwxyz0123456789!#$%&'()*+,-./:;<=>?@[]^_`{|}~", 1+r.rng.Intn(30)))
		default:
			hrp = r.fromAlphabet("abcdefghijklmnopqrstuvwxyz1", 1+r.rng.Intn(83))
		}
		// payload length: mostly near the limit total = len(hrp)+1+1+ceil(8n/5)+6 = 90
		maxN := (90 - len(hrp) - 8) * 5 / 8
		n := 1 + r.rng.Intn(45)
		if i%3 != 0 {
			n = maxN - 2 + r.rng.Intn(5)
		}
		if n < 0 {
			n = 0
		}
		ver := r.rng.Intn(32)
		if i%17 == 0 {
			ver = 30 + r.rng.Intn(226)
		}
		d := r.bytesN(n)
		args := []string{sx(hrp), strconv.Itoa(ver), hx(d)}
		r.Do("bech32.enc", args, "bech32-enc", n > 0, "")
		if n > 0 && ver < 32 && len(hrp)+8+(8*n+4)/5 <= 90 {
			r.Do("bech32.enc.spec", args, "bech32-enc-spec", true, "")
		}
		if s, err := bech32.Encode(hrp, byte(ver), d); err == nil {
			r.Do("bech32.dec", []string{sx(s)}, "bech32-dec-valid", true, "")
			r.Do("bech32.dec.spec", []string{sx(s)}, "bech32-dec-spec", true, "")
			r.Do("bech32.validate", []string{sx(s)}, "bech32-validate", true, "")
			if i%25 == 0 {
				r.bechMutations(s, "bech32", false)
			}
		}
	}
	// hrps the decoder cannot accept (upper case, out of range, empty, non-ASCII): encoder behaviour
	for i := 0; i < r.N(300, 5000); i++ {
		hrp := r.printable(r.rng.Intn(6))
		args := []string{sx(hrp), strconv.Itoa(r.rng.Intn(32)), hx(r.bytesN(1 + r.rng.Intn(30)))}
		r.Do("bech32.enc", args, "bech32-enc-odd-hrp", false, "")
		hb := r.bytesN(1 + r.rng.Intn(4))
		ascii := true
		for _, c := range hb {
			if c >= 0x80 {
				ascii = false
			}
		}
		args = []string{hx(hb), "0", hx(r.bytesN(20))}
		if ascii {
			r.Do("bech32.enc", args, "bech32-enc-odd-hrp", false, "")
		} else {
			// the Go code ranges over runes, the model over bytes: outside the relation
			r.DoMode("bech32.enc", args, "bech32-enc-nonascii-hrp", false, "", DriftFull)
		}
	}

	// ---- exhaustive single substitutions, sampled double substitutions on sampled strings ----
	for k := 0; k < r.N(4, 60); k++ {
		hrp := hrps[r.rng.Intn(5)]
		n := []int{20, 32, 1, 2, 40, 5}[k%6]
		s, err := bech32.Encode(hrp, byte(r.rng.Intn(17)), r.bytesN(n))
		if err == nil {
			r.bechMutations(s, "bech32-exh", true)
		}
	}

	// ---- re-padding of the 5-bit groups, shortest data parts (valid checksum, built here) ----
	for i := 0; i < r.N(1500, 50000); i++ {
		hrp := hrps[r.rng.Intn(6)]
		n := r.rng.Intn(12)
		if i%4 == 0 {
			n = r.rng.Intn(3)
		}
		d5 := make([]byte, 0, n+3)
		if i%7 != 0 || n > 0 {
			d5 = append(d5, byte(r.rng.Intn(32))) // version
		}
		body := hTo5(r.bytesN(n))
		switch i % 6 {
		case 0: // canonical
		case 1: // non-zero padding bits
			if len(body) > 0 {
				body[len(body)-1] |= byte(1 + r.rng.Intn(3))
			}
		case 2: // an extra all-zero group
			body = append(body, 0)
		case 3: // an extra arbitrary group
			body = append(body, byte(r.rng.Intn(32)))
		case 4: // arbitrary 5-bit data
			body = make([]byte, r.rng.Intn(14))
			for j := range body {
				body[j] = byte(r.rng.Intn(32))
			}
		case 5: // drop the last group
			if len(body) > 0 {
				body = body[:len(body)-1]
			}
		}
		d5 = append(d5, body...)
		s := hBechEncodeRaw(hrp, d5)
		if i%11 == 0 {
			s = strings.ToUpper(s)
		}
		r.Do("bech32.dec", []string{sx(s)}, "bech32-dec-repadded", true, "")
		r.Do("bech32.dec.spec", []string{sx(s)}, "bech32-dec-repadded-spec", true, "")
	}
	// strings whose checksum is right for another final constant (Bech32m, 0, 2, the constant with one bit flipped)
	for i := 0; i < r.N(40, 400); i++ {
		hrp := []string{"bc", "tb", "a", "bcrt", "ltc"}[i%5]
		wv := []byte{1, 0, 2, 16}[i%4]
		d5 := append([]byte{wv}, hTo5(r.bytesN([]int{32, 20, 2, 40, 0}[i%5]))...)
		k := []int{0x2bc830a3, 0x2bc830a3, 0, 2, 0x2bc830a3 ^ 1, 0x3fffffff}[i%6]
		s := hBechEncodeRawConst(hrp, d5, k)
		if i%7 == 3 {
			s = strings.ToUpper(s)
		}
		r.Do("bech32.dec", []string{sx(s)}, "bech32-dec-other-constant", true, fmt.Sprintf("checksum constant %#x", k))
		r.Do("bech32.dec.spec", []string{sx(s)}, "bech32-dec-other-constant-spec", true, "")
		r.Do("bech32.validate", []string{sx(s)}, "bech32-validate-other-constant", true, "")
	}
	// the zero digit '1' inside a string replaced by characters outside the alphabet (a decoder that maps unknown
	// characters to zero reads the same number)
	for i := 0; i < r.N(40, 400); i++ {
		d := r.bytesN(1 + r.rng.Intn(40))
		for _, enc := range []string{base58.Encode(d), base58check.Encode(d)} {
			lead := 0
			for lead < len(enc) && enc[lead] == '1' {
				lead++
			}
			for j := lead; j < len(enc); j++ {
				if enc[j] == '1' {
					c := []byte("0OIl+/ _\x00\x7f\xb1")[r.rng.Intn(11)]
					v := enc[:j] + string([]byte{c}) + enc[j+1:]
					r.Do("b58.dec", []string{sx(v)}, "b58-dec-zero-digit-replaced", true, "")
					r.Do("b58c.dec", []string{sx(v)}, "b58c-dec-zero-digit-replaced", true, "")
					break
				}
			}
		}
	}
	// Base58Check strings of 4, 5 and 6 characters without a leading '1' around the value 2^24 (three bytes or
	// four): too short to hold a checksum, or just long enough
	for i := 0; i < r.N(120, 1200); i++ {
		n := 4 + i%3
		b := []byte(r.fromAlphabet(b58Alphabet, n))
		b[0] = b58Alphabet[1+i%3] // '2', '3', '4'
		if i%2 == 0 {
			b[1] = b58Alphabet[r.rng.Intn(30)]
		}
		r.Do("b58c.dec", []string{sx(string(b))}, "b58c-dec-around-3-bytes", true, "")
		r.Do("b58.dec", []string{sx(string(b))}, "b58-dec-around-3-bytes", true, "")
	}
	// characters at and beyond the two ends of the printable range 33..126 inside the human readable part,
	// under a checksum that is right for exactly that string
	for _, ch := range []byte{0x20, 0x21, 0x7e, 0x7f, 0x1f, 0x80, 0x00, 0xff, 0x09, 0x0a, '@', '[', '\\', ']', '^', '_', '`', '{', '|', '}', '0', '9', ':', '/'} {
		for pos := 0; pos < 3; pos++ {
			base := "ab"
			hrp := base[:pos%3] + string([]byte{ch}) + base[pos%3:]
			if pos == 2 {
				hrp = base + string([]byte{ch})
			}
			d5 := append([]byte{0}, hTo5(r.bytesN(20))...)
			for _, v := range []string{hBechEncodeRaw(hrp, d5), hBechEncodeRaw(string([]byte{ch}), d5[:1+pos])} {
				r.Do("bech32.dec", []string{sx(v)}, "bech32-dec-hrp-range-edge", true, fmt.Sprintf("byte %#x in the hrp", ch))
				r.Do("bech32.dec.spec", []string{sx(v)}, "bech32-dec-hrp-range-edge-spec", true, "")
				r.Do("bech32.validate", []string{sx(v)}, "bech32-validate-hrp-range-edge", true, "")
			}
		}
	}
	// every data-part length 0..12 for a one-character hrp, all-zero and all-ones data
	for n := 0; n <= 14; n++ {
		for _, fill := range []byte{0, 31, 16, 1} {
			d5 := bytes.Repeat([]byte{fill}, n)
			s := hBechEncodeRaw("a", d5)
			r.Do("bech32.dec", []string{sx(s)}, "bech32-dec-short", true, "")
			r.Do("bech32.dec.spec", []string{sx(s)}, "bech32-dec-short-spec", true, "")
		}
	}
	// total length 88..93 with a valid checksum
	for total := 86; total <= 94; total++ {
		for _, hl := range []int{1, 2, 10, 83, 84, total - 8, total - 7} {
			nd := total - hl - 7
			if hl < 1 || nd < 0 {
				continue
			}
			hrp := r.fromAlphabet("abcdefghijklmnopqrstuvwxyz", hl)
			d5 := make([]byte, nd)
			for j := range d5 {
				d5[j] = byte(r.rng.Intn(32))
			}
			// make the padding canonical where possible
			if nd >= 1 {
				nbits := (nd - 1) * 5
				if pad := nbits % 8; pad < 5 && nd >= 2 {
					d5[nd-1] &^= byte(1<<uint(pad)) - 1
				}
			}
			s := hBechEncodeRaw(hrp, d5)
			r.Do("bech32.dec", []string{sx(s)}, "bech32-dec-length", true, fmt.Sprintf("total %d", total))
			r.Do("bech32.dec.spec", []string{sx(s)}, "bech32-dec-length-spec", true, "")
			r.Do("bech32.validate", []string{sx(s)}, "bech32-validate-length", true, "")
		}
	}

	// ---- arbitrary strings ----
	for i := 0; i < r.N(3000, 100000); i++ {
		var s string
		switch i % 6 {
		case 0:
			s = r.printable(r.rng.Intn(100))
		case 1:
			s = r.fromAlphabet("abc", 1+r.rng.Intn(4)) + "1" + r.fromAlphabet(bechCharset, r.rng.Intn(50))
		case 2:
			s = strings.ToUpper(r.fromAlphabet("abc", 1+r.rng.Intn(4)) + "1" + r.fromAlphabet(bechCharset, 6+r.rng.Intn(50)))
		case 3:
			s = r.fromAlphabet("ab1", 1+r.rng.Intn(6)) + r.fromAlphabet(bechCharset+"1bio", 6+r.rng.Intn(30))
		case 4:
			s = string(r.bytesN(8 + r.rng.Intn(30)))
		default:
			s = r.fromAlphabet("aB1"+bechCharset, 8+r.rng.Intn(85))
		}
		nt := len(s) >= 8 && len(s) <= 90
		r.Do("bech32.dec", []string{sx(s)}, "bech32-dec-arbitrary", nt, "")
		r.Do("bech32.dec.spec", []string{sx(s)}, "bech32-dec-arbitrary-spec", nt, "")
		r.Do("bech32.validate", []string{sx(s)}, "bech32-validate-arbitrary", nt, "")
	}

	return "Base58/Base58Check: byte strings of every length 0..120 with leading-zero runs 0,1,2,n/2,n-1,n (all runs in the thorough tier), all 256 one-byte versions and sampled (thorough: all) two-byte versions, encoded, decoded, mutated by one edit, read without checksum; arbitrary alphabet / printable / binary strings; every single-character substitution of sampled Base58Check strings. " +
		"Bech32: (hrp, version 0..255, payload) with payload lengths concentrated within 2 bytes of the 90-character limit and over it, hrps of 1..83 characters; decode of every encoded string through the model and through the BIP173 reference (`.spec`); exhaustive single substitutions of every data character by the 31 other alphabet characters and 400 sampled double substitutions on sampled strings; insertions, deletions, truncations at the checksum/separator boundaries, all-upper and mixed case, inserted/removed separators; strings with a valid checksum built by the harness over arbitrary 5-bit data (non-zero padding, surplus zero group, dropped group, empty data part, version only), total lengths 86..94; arbitrary printable/binary strings. " +
		"A case is non-trivial when its string passes the decoder's first structural check (non-empty / length 8..90) or its value is non-empty; cases are distinct by their request line."
}
