package main

// C09: addresses. Strings travel as the hex of their bytes; the network is named
// btc | tbtc | ltc | zec and is installed in constants.CurrentNetwork before every call
// (the harness is single-threaded).

import (
	"bytes"
	"fmt"
	"strings"

	"github.com/kklash/bitcoinlib/address"
	"github.com/kklash/bitcoinlib/base58check"
	"github.com/kklash/bitcoinlib/bech32"
	"github.com/kklash/bitcoinlib/bhash"
	"github.com/kklash/bitcoinlib/constants"
)

var netNames = []string{"btc", "tbtc", "ltc", "zec"}

func netByName(n string) (constants.Network, bool) {
	switch n {
	case "btc":
		return constants.BitcoinNetwork, true
	case "tbtc":
		return constants.BitcoinTestnet, true
	case "ltc":
		return constants.LitecoinNetwork, true
	case "zec":
		return constants.ZcashNetwork, true
	}
	return constants.Network{}, false
}

// withNet runs f with constants.CurrentNetwork set to the named network.
func withNet(name string, f func() (string, []string)) (string, []string) {
	net, ok := netByName(name)
	if !ok {
		return "bad-op", nil
	}
	saved := constants.CurrentNetwork
	constants.CurrentNetwork = net
	defer func() { constants.CurrentNetwork = saved }()
	return f()
}

func init() {
	reg("net.with", Full, func(a []string) (string, []string) {
		if len(a) < 2 {
			return "bad-op", nil
		}
		spec, ok := ops[a[1]]
		if !ok || a[1] == "net.with" {
			return "bad-op", nil
		}
		return withNet(a[0], func() (string, []string) { return spec.fn(a[2:]) })
	})
}

// the standard scriptPubKey of a format, written out by hand (harness-side reference)
func refScript(format string, h []byte) []byte {
	switch format {
	case "P2PKH":
		return append(append([]byte{0x76, 0xa9, 0x14}, h...), 0x88, 0xac)
	case "P2SH":
		return append(append([]byte{0xa9, 0x14}, h...), 0x87)
	case "P2WPKH":
		return append([]byte{0x00, 0x14}, h...)
	case "P2WSH":
		return append([]byte{0x00, 0x20}, h...)
	}
	return nil
}

// hashOfScript recovers the committed hash from a standard scriptPubKey
func hashOfScript(format string, spk []byte) []byte {
	switch format {
	case "P2PKH":
		if len(spk) == 25 {
			return spk[3:23]
		}
	case "P2SH":
		if len(spk) == 23 {
			return spk[2:22]
		}
	case "P2WPKH":
		if len(spk) == 22 {
			return spk[2:]
		}
	case "P2WSH":
		if len(spk) == 34 {
			return spk[2:]
		}
	}
	return nil
}

func isSegwitFormat(f string) bool { return f == "P2WPKH" || f == "P2WSH" }

// checkDecodesTo: the produced address must decode (on the same network) to the format and to the
// standard script of the hash.
func checkDecodesTo(addr, format string, h []byte, direct *[]string) {
	f, spk, err := address.Decode(addr)
	if err != nil {
		*direct = append(*direct, fmt.Sprintf("the produced address %q does not decode: %v", addr, err))
		return
	}
	if string(f) != format {
		*direct = append(*direct, fmt.Sprintf("the produced address decodes to format %s, not %s", f, format))
	}
	if !bytes.Equal(spk, refScript(format, h)) {
		*direct = append(*direct, "the produced address does not decode to the standard script of the hash")
	}
}

func init() {
	regRunner("C09", runC09)
	reg("addr.make", Full, func(a []string) (string, []string) {
		return withNet(a[0], func() (string, []string) {
			data := unhx(a[2])
			s, err := address.Make(constants.AddressFormat(a[1]), data)
			if err != nil {
				return "err", nil
			}
			var direct []string
			var h []byte
			switch a[1] {
			case "P2WSH":
				x := bhash.Sha256(data)
				h = x[:]
			default:
				x := bhash.Hash160(data)
				h = x[:]
			}
			checkDecodesTo(s, a[1], h, &direct)
			return "ok " + sx(s), direct
		})
	})
	mkhash := func(a []string) (string, []string) {
		return withNet(a[0], func() (string, []string) {
			h := unhx(a[2])
			s, err := address.MakeFromHash(constants.AddressFormat(a[1]), h)
			if err != nil {
				return "err", nil
			}
			var direct []string
			checkDecodesTo(s, a[1], h, &direct)
			return "ok " + sx(s), direct
		})
	}
	reg("addr.makehash", Full, mkhash)
	reg("addr.ref", Full, mkhash)
	reg("addr.dec", Full, func(a []string) (string, []string) {
		return withNet(a[0], func() (string, []string) {
			s := strArg(a[1])
			f, spk, err := address.Decode(s)
			if err != nil {
				return "err", nil
			}
			var direct []string
			h := hashOfScript(string(f), spk)
			if h == nil || !bytes.Equal(spk, refScript(string(f), h)) {
				direct = append(direct, "decoded script is not the standard script of its format")
			} else {
				back, merr := address.MakeFromHash(f, h)
				want := s
				if isSegwitFormat(string(f)) {
					want = strings.ToLower(s)
				}
				if merr != nil {
					direct = append(direct, "an accepted address cannot be re-made from its hash: "+merr.Error())
				} else if back != want {
					direct = append(direct, fmt.Sprintf("accepted address is not canonical: re-encodes to %q", back))
				}
			}
			return fmt.Sprintf("ok %s %s", f, hx(spk)), direct
		})
	})
	reg("addr.dec58", Full, func(a []string) (string, []string) {
		v, h, err := address.DecodeBase58Address(strArg(a[0]))
		if err != nil {
			return "err", nil
		}
		var direct []string
		if back := base58check.EncodeVersion(h[:], v); back != strArg(a[0]) {
			direct = append(direct, fmt.Sprintf("DecodeBase58Address accepted a string that re-encodes to %q", back))
		}
		return fmt.Sprintf("ok %d %s", v, hx(h[:])), direct
	})
	reg("addr.decbech", Full, func(a []string) (string, []string) {
		hrp, v, p, err := address.DecodeBech32Address(strArg(a[0]))
		if err != nil {
			return "err", nil
		}
		return fmt.Sprintf("ok %s %d %s", sx(hrp), v, hx(p)), nil
	})
}

var addrFormats = []string{"P2PKH", "P2SH", "P2WPKH", "P2WSH"}

// derived strings of one valid address: decode them under every network
func (r *Runner) addrDerived(hash []byte, tag string) {
	all := func(s, t, desc string) {
		for _, n := range netNames {
			r.Do("addr.dec", []string{n, sx(s)}, t, true, desc)
		}
	}
	if len(hash) == 20 {
		// re-versioning: every network's versions, neighbours, D14's zero-padded two-byte family
		versions := []int{0, 5, 111, 196, 48, 50, 7352, 7357, 1, 4, 6, 255, 256, 0x1cb7, 0x1cb9, 0xffff, r.rng.Intn(256), 256 + r.rng.Intn(65280)}
		for _, v := range versions {
			s := base58check.EncodeVersion(hash, uint16(v))
			all(s, tag+"-reversion", fmt.Sprintf("version %d", v))
			r.Do("addr.dec58", []string{sx(s)}, tag+"-dec58", true, "")
		}
		for _, v := range []byte{0, 5, 111, 196, 48, 50, byte(r.rng.Intn(256))} {
			s := base58check.Encode(append([]byte{0, v}, hash...))
			all(s, tag+"-zero-padded-version", fmt.Sprintf("payload 00 %02x || hash", v))
			r.Do("addr.dec58", []string{sx(s)}, tag+"-dec58", true, "")
			s = base58check.Encode(append([]byte{0, 0, v}, hash...))
			all(s, tag+"-zero-padded-version", "")
		}
		// a '1' (the zero digit) inside the string replaced by characters that are not Base58 digits at all
		for _, v := range []uint16{0, 5, 111, 48, 0x1cb8} {
			s := base58check.EncodeVersion(hash, v)
			lead := 0
			for lead < len(s) && s[lead] == '1' {
				lead++
			}
			done := 0
			for i := lead; i < len(s) && done < 2; i++ {
				if s[i] != '1' {
					continue
				}
				done++
				for _, c := range []byte("0OIl+/ _\x00\x7f\xb1") {
					all(s[:i]+string([]byte{c})+s[i+1:], tag+"-b58-zero-digit-replaced", fmt.Sprintf("position %d: %q for '1'", i, c))
					r.Do("addr.dec58", []string{sx(s[:i] + string([]byte{c}) + s[i+1:])}, tag+"-dec58", true, "")
				}
			}
		}
		// payload lengthening / shortening
		for _, v := range []byte{0, 5, 111, 50} {
			for _, n := range []int{0, 1, 18, 19, 21, 22, 23, 32} {
				p := r.bytesN(n)
				copy(p, hash)
				all(base58check.Encode(append([]byte{v}, p...)), tag+"-b58-length", fmt.Sprintf("%d-byte hash", n))
			}
		}
		for _, v := range [][]byte{{0x1c, 0xb8}, {0x1c, 0xbd}} {
			for _, n := range []int{18, 19, 20, 21} {
				p := r.bytesN(n)
				copy(p, hash)
				all(base58check.Encode(append(append([]byte{}, v...), p...)), tag+"-b58-length", "")
			}
		}
		// bare Base58 without a checksum, corrupted checksum
		s := base58check.EncodeVersion(hash, 0)
		all(r.mutateStr(s, b58Alphabet), tag+"-b58-edit", "")
		all("1"+s, tag+"-b58-edit", "extra leading 1")
	}
	// Bech32 forms: other hrps, witness versions, program lengths, re-padding, case
	for _, hrp := range []string{"bc", "tb", "ltc", "bcrt", "zec", "b", "BC"} {
		for _, wv := range []byte{0, 1, 16, 17, 31} {
			d5 := append([]byte{wv}, hTo5(hash)...)
			s := hBechEncodeRaw(hrp, d5)
			if hrp == "bc" || hrp == "ltc" || wv == 0 || r.rng.Intn(4) == 0 {
				all(s, tag+"-bech-hrp-version", fmt.Sprintf("hrp %s witness version %d", hrp, wv))
			}
		}
	}
	// the same programs with a Bech32m checksum (BIP350): not addresses this library knows
	for _, hrp := range []string{"bc", "tb", "ltc"} {
		for _, wv := range []byte{0, 1} {
			for _, p := range [][]byte{hash, append(append([]byte{}, hash...), hash[:12]...)} {
				all(hBechEncodeRawConst(hrp, append([]byte{wv}, hTo5(p)...), 0x2bc830a3), tag+"-bech32m", fmt.Sprintf("hrp %s witness version %d, %d-byte program", hrp, wv, len(p)))
			}
		}
	}
	for _, hrp := range []string{"bc", "tb", "ltc"} {
		for _, n := range []int{1, 2, 19, 21, 31, 33, 40, 41} {
			p := r.bytesN(n)
			copy(p, hash)
			s := hBechEncodeRaw(hrp, append([]byte{0}, hTo5(p)...))
			all(s, tag+"-bech-length", fmt.Sprintf("%d-byte program", n))
			r.Do("addr.decbech", []string{sx(s)}, tag+"-decbech", true, "")
		}
		body := hTo5(hash)
		// re-padding: non-zero padding bits, surplus zero group
		b2 := append([]byte{}, body...)
		b2[len(b2)-1] |= 1
		all(hBechEncodeRaw(hrp, append([]byte{0}, b2...)), tag+"-bech-repad", "non-zero padding")
		all(hBechEncodeRaw(hrp, append(append([]byte{0}, body...), 0)), tag+"-bech-repad", "surplus zero group")
		good := hBechEncodeRaw(hrp, append([]byte{0}, body...))
		all(strings.ToUpper(good), tag+"-bech-upper", "upper case")
		i := r.rng.Intn(len(good))
		all(good[:i]+strings.ToUpper(good[i:i+1])+good[i+1:], tag+"-bech-mixed", "")
		j := len(hrp) + 1 + r.rng.Intn(len(good)-len(hrp)-1)
		all(good[:j]+string(bechCharset[(strings.IndexByte(bechCharset, good[j])+1+r.rng.Intn(31))%32])+good[j+1:], tag+"-bech-sub", "substitution")
		r.Do("addr.decbech", []string{sx(good)}, tag+"-decbech", true, "")
	}
}

func runC09(r *Runner) string {
	// ---- network x format x data ----
	for i := 0; i < r.N(250, 20000); i++ {
		for _, n := range netNames {
			for _, f := range addrFormats {
				var data []byte
				switch i % 5 {
				case 0:
					data = r.bytesN(33)
					data[0] = 2 + byte(r.rng.Intn(2))
				case 1:
					data = r.bytesN(65)
					data[0] = 4
				case 2:
					data = r.bytesN(r.rng.Intn(601)) // scripts 0..600 bytes
				case 3:
					data = r.bytesN([]int{0, 1, 20, 32, 34, 64, 66, 75, 76, 255, 256, 520, 600}[r.rng.Intn(13)])
				default:
					data = r.bytesN(r.rng.Intn(70))
				}
				r.Do("addr.make", []string{n, f, hx(data)}, "make-"+f, true, "")
				hl := 20
				if f == "P2WSH" {
					hl = 32
				}
				h := r.bytesN(hl)
				if i%4 == 0 {
					h = r.bytesN(r.rng.Intn(41)) // wrong lengths 0..40 (and the right one now and then)
				}
				r.Do("addr.makehash", []string{n, f, hx(h)}, "makehash-"+f, len(h) == hl, "")
				if len(h) == hl {
					r.Do("addr.ref", []string{n, f, hx(h)}, "reference-"+f, true, "")
				}
				// the address of this network decoded under every network
				net, _ := netByName(n)
				saved := constants.CurrentNetwork
				constants.CurrentNetwork = net
				s, err := address.MakeFromHash(constants.AddressFormat(f), h)
				constants.CurrentNetwork = saved
				if err == nil {
					for _, m := range netNames {
						r.Do("addr.dec", []string{m, sx(s)}, "decode-cross-network", true, n+" address on "+m)
					}
				}
			}
		}
		for _, f := range []string{"NONSTANDARD", "p2sh", "p2pkh", "P2TR"} {
			r.Do("addr.make", []string{netNames[i%4], f, hx(r.bytesN(33))}, "make-unknown-format", false, "")
			r.Do("addr.makehash", []string{netNames[i%4], f, hx(r.bytesN(20))}, "makehash-unknown-format", false, "")
		}
	}
	// all hash lengths 0..40 for every format on one network with segwit and one without
	for hl := 0; hl <= 40; hl++ {
		for _, f := range addrFormats {
			for _, n := range []string{"btc", "zec"} {
				r.Do("addr.makehash", []string{n, f, hx(r.bytesN(hl))}, "makehash-length", hl == 20 || hl == 32, "")
			}
		}
	}
	// ---- strings derived from valid addresses ----
	for i := 0; i < r.N(25, 1500); i++ {
		r.addrDerived(r.bytesN(20), "derived20")
		r.addrDerived(r.bytesN(32), "derived32")
	}
	// bech32 encodings of arbitrary (hrp, version, program) through the library's own encoder
	for i := 0; i < r.N(300, 20000); i++ {
		hrp := []string{"bc", "tb", "ltc", "x"}[r.rng.Intn(4)]
		s, err := bech32.Encode(hrp, byte(r.rng.Intn(3)), r.bytesN([]int{20, 32, 20, 32, 1 + r.rng.Intn(40)}[r.rng.Intn(5)]))
		if err == nil {
			for _, n := range netNames {
				r.Do("addr.dec", []string{n, sx(s)}, "decode-bech32-any", true, "")
			}
			r.Do("addr.decbech", []string{sx(s)}, "decbech", true, "")
		}
	}
	// arbitrary strings
	for i := 0; i < r.N(500, 30000); i++ {
		var s string
		switch i % 4 {
		case 0:
			s = r.fromAlphabet(b58Alphabet, 25+r.rng.Intn(12))
		case 1:
			s = "bc1" + r.fromAlphabet(bechCharset, 39)
		case 2:
			s = r.printable(r.rng.Intn(70))
		default:
			s = string(r.bytesN(r.rng.Intn(40)))
		}
		r.Do("addr.dec", []string{netNames[i%4], sx(s)}, "decode-arbitrary", len(s) >= 8, "")
		r.Do("addr.dec58", []string{sx(s)}, "dec58-arbitrary", len(s) >= 8, "")
	}
	return "network in {Bitcoin, Bitcoin testnet, Litecoin, Zcash} x format in {P2PKH, P2SH, P2WPKH, P2WSH} x data (33-byte keys, 65-byte keys, scripts of 0..600 bytes, boundary and arbitrary lengths) through Make; hashes of the right length and of every length 0..40 through MakeFromHash, compared with the model and with an independent reference encoder (`addr.ref`); every produced address decoded under all four networks; unknown format names. " +
		"Derived strings, each decoded under all four networks: the same hash under every network's version, neighbouring versions and two-byte versions, payloads 00 v || hash and 00 00 v || hash (zero-padded versions), hashes of 0..32 bytes, edited / prefixed Base58 strings; Bech32 strings with a valid checksum built by the harness for other HRPs, witness versions 0,1,16,17,31, program lengths 1..41, non-zero and surplus padding, upper and mixed case, one substituted character; arbitrary alphabet / printable / binary strings. " +
		"Every case whose string passes the first structural check (non-empty payload / length >= 8) is non-trivial; cases are distinct by their request line."
}
