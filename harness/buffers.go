package main

// C18: the canary rig. Every exported function / method of the repository with a byte-slice
// parameter (listed by the extractor in gen_buffers.go) is called through reflect with each slice
// argument placed inside a larger canary-filled array; afterwards the prefix canary, the visible
// bytes, the spare capacity and the suffix canary are compared with a snapshot, and the results are
// compared with the same call on private exact-capacity copies.
//
// op (GoOnly: there is no model answer; the decision is the direct oracle below plus the Lean
// obligation BtcVerif.Props.C18.lib_safe):
//
//	buf.call <function> <layout> <spare> <arg> …      one <arg> per parameter (receiver first)
//
// <layout>  sep     every slice (and every element of a [][]byte) in its own canary array with
//                   <spare> bytes of spare capacity behind it
//           adj     all slices next to each other in ONE array, in parameter order, every slice's
//                   capacity running to the end of the array's spare region (so the spare capacity of
//                   an argument is the memory of the next one: master key / chain code)
//           adjrev  the same in reverse parameter order
//           alias   slices whose value is equal to (or a prefix of) an earlier argument's value
//                   share that argument's memory; the others as in sep
// <arg>     []byte: hex, `-` empty, `nil`;  [][]byte, [][N]byte: items joined by `,`, `.` empty,
//           `nil`;  integers decimal (lists joined by `,`);  bool t|f;  string: hex of its UTF-8;
//           *big.Int decimal;  any other type: `@k`, the k-th value of that type from bufMake.
// answer    ok <result digest> alias=<0|1> panic=<0|1>   (alias: a result shares memory with an
//           argument; panic: the library panicked — C17's business, recorded here as drift)

import (
	"bytes"
	"context"
	"crypto/sha256"
	"crypto/sha512"
	"encoding/hex"
	"fmt"
	"io"
	"math/big"
	"reflect"
	"sort"
	"strconv"
	"strings"
	"unsafe"

	"github.com/kklash/bitcoinlib/bhash"
	"github.com/kklash/bitcoinlib/blocks"
	"github.com/kklash/bitcoinlib/blocks/blockheader"
	"github.com/kklash/bitcoinlib/script"
	"github.com/kklash/bitcoinlib/tx"
	"github.com/kklash/bitcoinlib/unspent"
)

const (
	bufPre = 16 // canary bytes in front of the first slice of an array
	bufSuf = 16 // canary bytes behind the capacity
)

func bufCanary(i int) byte { return 0xC3 ^ byte(i*7+3) }

var bufByteType = reflect.TypeOf(byte(0))

// kinds of parameters the rig lays out itself
const (
	bufKOther = iota
	bufKBytes // []byte
	bufKArrs  // [][N]byte: a flat byte region with element size N
	bufKList  // [][]byte
)

func bufIsByteArray(t reflect.Type) bool {
	return t.Kind() == reflect.Array && t.Elem().Kind() == reflect.Uint8
}

func bufKindOf(t reflect.Type) int {
	if t.Kind() != reflect.Slice {
		return bufKOther
	}
	e := t.Elem()
	switch {
	case e.Kind() == reflect.Uint8:
		return bufKBytes
	case bufIsByteArray(e):
		return bufKArrs
	case e.Kind() == reflect.Slice && e.Elem().Kind() == reflect.Uint8:
		return bufKList
	}
	return bufKOther
}

// a leaf is one contiguous caller-owned byte region: a []byte argument, an element of a [][]byte
// argument, or the element storage of a [][N]byte argument
type bufLeaf struct {
	name   string // parameter name (with [i] for list elements)
	val    []byte
	isNil  bool
	esize  int // element size (1, or N for [][N]byte)
	arr    *bufArray
	start  int
	placed []byte // the slice handed to the library (cap = spare region end)
}

type bufArray struct {
	mem    []byte // whole array
	snap   []byte
	spareA int // start of the spare region
	spareB int // end of the spare region = capacity limit
	leaves []*bufLeaf
}

// an outer list ([][]byte): its slice headers are caller memory too
type bufOuter struct {
	name       string
	whole      reflect.Value // slice over the whole header array
	pre, n, sp int
	snap       []string
}

type bufParam struct {
	kind   int
	typ    reflect.Type
	leaves []*bufLeaf // bufKBytes / bufKArrs: one; bufKList: one per element
	isNil  bool
	outer  *bufOuter
	raw    string
}

func bufParseHexItem(s string) ([]byte, bool, bool) {
	if s == "nil" {
		return nil, true, true
	}
	if s == "-" {
		return []byte{}, false, true
	}
	b, err := hex.DecodeString(s)
	return b, false, err == nil
}

// bufParseArgs turns the textual arguments into parameter descriptions (no memory laid out yet).
func bufParseArgs(fn *bufFuncEntry, args []string) ([]*bufParam, string) {
	ft := fn.Fn.Type()
	if len(args) != ft.NumIn() {
		return nil, fmt.Sprintf("%s takes %d arguments, got %d", fn.Name, ft.NumIn(), len(args))
	}
	ps := make([]*bufParam, ft.NumIn())
	for i := range ps {
		t := ft.In(i)
		p := &bufParam{kind: bufKindOf(t), typ: t, raw: args[i]}
		name := fn.Params[i]
		switch p.kind {
		case bufKBytes:
			v, isNil, ok := bufParseHexItem(args[i])
			if !ok {
				return nil, "bad hex for " + name
			}
			p.leaves = []*bufLeaf{{name: name, val: v, isNil: isNil, esize: 1}}
		case bufKArrs:
			n := t.Elem().Len()
			var flat []byte
			switch args[i] {
			case "nil":
				p.isNil = true
			case ".":
			default:
				for _, it := range strings.Split(args[i], ",") {
					v, _, ok := bufParseHexItem(it)
					if !ok || len(v) != n {
						return nil, "bad element for " + name
					}
					flat = append(flat, v...)
				}
			}
			if flat == nil {
				flat = []byte{}
			}
			p.leaves = []*bufLeaf{{name: name, val: flat, isNil: p.isNil, esize: n}}
		case bufKList:
			switch args[i] {
			case "nil":
				p.isNil = true
			case ".":
			default:
				for j, it := range strings.Split(args[i], ",") {
					v, isNil, ok := bufParseHexItem(it)
					if !ok {
						return nil, "bad element for " + name
					}
					p.leaves = append(p.leaves, &bufLeaf{name: fmt.Sprintf("%s[%d]", name, j), val: v, isNil: isNil, esize: 1})
				}
			}
		}
		ps[i] = p
	}
	return ps, ""
}

func bufNewArray(leaves []*bufLeaf, spare int) *bufArray {
	total := bufPre
	for _, l := range leaves {
		total += len(l.val)
	}
	a := &bufArray{spareA: total, spareB: total + spare, leaves: leaves}
	total += spare + bufSuf
	a.mem = make([]byte, total)
	for i := range a.mem {
		a.mem[i] = bufCanary(i)
	}
	off := bufPre
	for _, l := range leaves {
		copy(a.mem[off:], l.val)
		l.arr, l.start = a, off
		l.placed = a.mem[off : off+len(l.val) : a.spareB]
		off += len(l.val)
	}
	return a
}

// bufLayout places every non-nil leaf into canary arrays according to the layout.
func bufLayout(ps []*bufParam, layout string, spare int) ([]*bufArray, string) {
	var leaves []*bufLeaf
	for _, p := range ps {
		for _, l := range p.leaves {
			if !l.isNil {
				leaves = append(leaves, l)
			}
		}
	}
	var arrays []*bufArray
	switch layout {
	case "sep":
		for _, l := range leaves {
			arrays = append(arrays, bufNewArray([]*bufLeaf{l}, spare*l.esize))
		}
	case "adj", "adjrev":
		ls := append([]*bufLeaf(nil), leaves...)
		if layout == "adjrev" {
			for i, j := 0, len(ls)-1; i < j; i, j = i+1, j-1 {
				ls[i], ls[j] = ls[j], ls[i]
			}
		}
		if len(ls) > 0 {
			arrays = append(arrays, bufNewArray(ls, spare))
		}
	case "alias":
		for i, l := range leaves {
			shared := false
			for _, m := range leaves[:i] {
				if m.arr != nil && m.placed != nil && len(l.val) > 0 && len(l.val) <= len(m.val) &&
					m.start >= 0 && bytes.Equal(m.val[:len(l.val)], l.val) && m.esize == l.esize {
					l.arr, l.start = m.arr, m.start
					l.placed = m.arr.mem[m.start : m.start+len(l.val) : m.arr.spareB]
					m.arr.leaves = append(m.arr.leaves, l)
					shared = true
					break
				}
			}
			if !shared {
				arrays = append(arrays, bufNewArray([]*bufLeaf{l}, spare*l.esize))
			}
		}
	default:
		return nil, "bad layout " + layout
	}
	for _, a := range arrays {
		a.snap = append([]byte(nil), a.mem...)
	}
	return arrays, ""
}

var bufSentinelArr = [8]byte{0x5e, 0x17, 0x1e, 0x11, 0x5e, 0x17, 0x1e, 0x11}

func bufHeaderStr(v reflect.Value) string {
	if v.IsNil() {
		return "nil"
	}
	return fmt.Sprintf("%x/%d/%d", v.Pointer(), v.Len(), v.Cap())
}

// bufValueOf builds the reflect argument of a laid-out parameter. private = exact-capacity copies.
func bufValueOf(p *bufParam, spare int, private bool) reflect.Value {
	leafSlice := func(l *bufLeaf) []byte {
		if l.isNil {
			return nil
		}
		if private {
			c := make([]byte, len(l.val))
			copy(c, l.val)
			return c
		}
		return l.placed
	}
	switch p.kind {
	case bufKBytes:
		return reflect.ValueOf(leafSlice(p.leaves[0])).Convert(p.typ)
	case bufKArrs:
		l := p.leaves[0]
		if l.isNil {
			return reflect.Zero(p.typ)
		}
		b := leafSlice(l)
		n := l.esize
		cnt, capElems := len(l.val)/n, cap(b)/n
		if capElems == 0 {
			return reflect.MakeSlice(p.typ, 0, 0)
		}
		b = b[:cap(b)]
		at := reflect.NewAt(reflect.ArrayOf(capElems, p.typ.Elem()), unsafe.Pointer(&b[0])).Elem()
		return at.Slice3(0, cnt, capElems).Convert(p.typ)
	case bufKList:
		if p.isNil {
			return reflect.Zero(p.typ)
		}
		n := len(p.leaves)
		if private {
			s := reflect.MakeSlice(p.typ, n, n)
			for i, l := range p.leaves {
				s.Index(i).Set(reflect.ValueOf(leafSlice(l)).Convert(p.typ.Elem()))
			}
			return s
		}
		const pre, suf = 2, 2
		total := pre + n + spare + suf
		whole := reflect.MakeSlice(p.typ, total, total)
		sent := reflect.ValueOf(bufSentinelArr[2:5:6]).Convert(p.typ.Elem())
		for i := 0; i < total; i++ {
			whole.Index(i).Set(sent)
		}
		for i, l := range p.leaves {
			whole.Index(pre + i).Set(reflect.ValueOf(leafSlice(l)).Convert(p.typ.Elem()))
		}
		o := &bufOuter{name: p.leaves0Name(), whole: whole, pre: pre, n: n, sp: spare}
		for i := 0; i < total; i++ {
			o.snap = append(o.snap, bufHeaderStr(whole.Index(i)))
		}
		p.outer = o
		return whole.Slice3(pre, pre+n, pre+n+spare)
	}
	panic("bufValueOf: not a slice parameter")
}

func (p *bufParam) leaves0Name() string {
	if len(p.leaves) == 0 {
		return "(list)"
	}
	return strings.TrimSuffix(p.leaves[0].name, "[0]")
}

// ---------------------------------------------------------------------------------------------
// values of the other parameter types

const bufRawTx = "0100000002fff7f7881a8099afa6940d42d1e7f6362bec38171ea3edf433541db4e4ad969f0000000000eeffffff" +
	"ef51e1b804cc89d182d279655c3aa89e815b1b309fe287d9b2b55d57b90ec68a0100000000ffffffff02202cb206000000001976a914" +
	"8280b37df378db99f66f85c95a783a76ac7a6d5988ac9093510d000000001976a9143bde42dbee7e4dbe6a21b2d50ce2f0167faa8159" +
	"88ac11000000"

func bufTx(k int) *tx.Tx {
	raw, _ := hex.DecodeString(bufRawTx)
	t, err := tx.FromBytes(raw)
	if err != nil {
		panic("rig: fixture transaction does not parse: " + err.Error())
	}
	if k%2 == 1 && len(t.Outputs) > 0 {
		t.Outputs = t.Outputs[:1]
	}
	return t
}

type bufLeafHasher [32]byte

func (h bufLeafHasher) Hash() [32]byte { return h }

// bufMake: the k-th value of a type the rig has no textual form for (fresh on every call).
func bufMake(t reflect.Type, k int) (reflect.Value, bool) {
	switch t {
	case reflect.TypeOf((*tx.Tx)(nil)):
		return reflect.ValueOf(bufTx(k)), true
	case reflect.TypeOf((*bhash.MultiHasher)(nil)):
		var mh *bhash.MultiHasher
		if k%2 == 0 {
			mh = bhash.NewMultiHasher(sha256.New(), sha256.New())
		} else {
			mh = bhash.NewMultiHasher(sha512.New(), sha256.New())
		}
		mh.Write([]byte("abc"))
		return reflect.ValueOf(mh), true
	case reflect.TypeOf((*unspent.OutputSet)(nil)):
		t0 := bufTx(0)
		set := unspent.NewOutputSet([]*unspent.Output{{
			Outpoint: &tx.PrevOut{Hash: t0.Inputs[0].PrevOut.Hash, Index: t0.Inputs[0].PrevOut.Index},
			TxOut:    &tx.Output{Value: 5000, Script: []byte{0x51}},
		}})
		return reflect.ValueOf(set), true
	case reflect.TypeOf((*blocks.Block)(nil)):
		return reflect.ValueOf(&blocks.Block{Header: &blockheader.BlockHeader{}, Transactions: []*tx.Tx{bufTx(0), bufTx(1)}}), true
	case reflect.TypeOf((*script.Hasher)(nil)).Elem():
		if k == 0 {
			return reflect.Zero(t), true
		}
		return reflect.ValueOf(bufLeafHasher(sha256.Sum256([]byte{byte(k)}))).Convert(t), true
	case reflect.TypeOf((*io.Writer)(nil)).Elem():
		return reflect.ValueOf(new(bytes.Buffer)).Convert(t), true
	case reflect.TypeOf((*context.Context)(nil)).Elem():
		return reflect.ValueOf(context.Background()).Convert(t), true
	}
	return reflect.Value{}, false
}

func bufParseOther(t reflect.Type, s string) (v reflect.Value, ok bool) {
	defer func() {
		if recover() != nil {
			ok = false
		}
	}()
	if strings.HasPrefix(s, "@") {
		k, err := strconv.Atoi(s[1:])
		if err != nil {
			return reflect.Value{}, false
		}
		return bufMake(t, k)
	}
	if t == reflect.TypeOf((*big.Int)(nil)) {
		n, good := new(big.Int).SetString(s, 10)
		return reflect.ValueOf(n), good
	}
	switch t.Kind() {
	case reflect.Bool:
		return reflect.ValueOf(s == "t").Convert(t), s == "t" || s == "f"
	case reflect.Int, reflect.Int8, reflect.Int16, reflect.Int32, reflect.Int64:
		n, err := strconv.ParseInt(s, 10, 64)
		return reflect.ValueOf(n).Convert(t), err == nil
	case reflect.Uint, reflect.Uint8, reflect.Uint16, reflect.Uint32, reflect.Uint64:
		n, err := strconv.ParseUint(s, 10, 64)
		return reflect.ValueOf(n).Convert(t), err == nil
	case reflect.String:
		b, _, good := bufParseHexItem(s)
		return reflect.ValueOf(string(b)).Convert(t), good
	case reflect.Slice:
		out := reflect.MakeSlice(t, 0, 0)
		if s == "." {
			return out, true
		}
		if s == "nil" {
			return reflect.Zero(t), true
		}
		for _, it := range strings.Split(s, ",") {
			e, good := bufParseOther(t.Elem(), it)
			if !good {
				return reflect.Value{}, false
			}
			out = reflect.Append(out, e)
		}
		return out, true
	}
	return reflect.Value{}, false
}

// ---------------------------------------------------------------------------------------------
// result digests

func bufDump(b *strings.Builder, v reflect.Value, depth int, seen map[uintptr]bool) {
	if !v.IsValid() {
		b.WriteString("invalid")
		return
	}
	if depth > 12 {
		b.WriteString("…")
		return
	}
	t := v.Type()
	if t.Implements(reflect.TypeOf((*error)(nil)).Elem()) && (t.Kind() == reflect.Interface || t.Kind() == reflect.Ptr) {
		if v.IsNil() {
			b.WriteString("noerr")
		} else {
			b.WriteString("err")
		}
		return
	}
	if t == reflect.TypeOf((*big.Int)(nil)) {
		if v.IsNil() {
			b.WriteString("nilbig")
		} else if v.CanInterface() {
			b.WriteString(v.Interface().(*big.Int).String())
		} else {
			b.WriteString("big")
		}
		return
	}
	switch t.Kind() {
	case reflect.Bool:
		fmt.Fprint(b, v.Bool())
	case reflect.Int, reflect.Int8, reflect.Int16, reflect.Int32, reflect.Int64:
		fmt.Fprint(b, v.Int())
	case reflect.Uint, reflect.Uint8, reflect.Uint16, reflect.Uint32, reflect.Uint64:
		fmt.Fprint(b, v.Uint())
	case reflect.Uintptr, reflect.UnsafePointer, reflect.Func, reflect.Chan:
		b.WriteString(t.Kind().String())
	case reflect.Float32, reflect.Float64:
		fmt.Fprint(b, v.Float())
	case reflect.String:
		fmt.Fprintf(b, "%q", v.String())
	case reflect.Slice:
		if v.IsNil() {
			b.WriteString("nil")
			return
		}
		if t.Elem().Kind() == reflect.Uint8 {
			b.WriteString("x" + hex.EncodeToString(v.Bytes()))
			return
		}
		fallthrough
	case reflect.Array:
		if t.Elem().Kind() == reflect.Uint8 {
			bs := make([]byte, v.Len())
			for i := range bs {
				bs[i] = byte(v.Index(i).Uint())
			}
			b.WriteString("a" + hex.EncodeToString(bs))
			return
		}
		b.WriteString("[")
		for i := 0; i < v.Len(); i++ {
			if i > 0 {
				b.WriteString(" ")
			}
			bufDump(b, v.Index(i), depth+1, seen)
		}
		b.WriteString("]")
	case reflect.Ptr:
		if v.IsNil() {
			b.WriteString("nilptr")
			return
		}
		if seen[v.Pointer()] {
			b.WriteString("cycle")
			return
		}
		seen[v.Pointer()] = true
		b.WriteString("&")
		bufDump(b, v.Elem(), depth+1, seen)
		delete(seen, v.Pointer())
	case reflect.Interface:
		if v.IsNil() {
			b.WriteString("nilif")
			return
		}
		b.WriteString(v.Elem().Type().String() + ":")
		bufDump(b, v.Elem(), depth+1, seen)
	case reflect.Struct:
		b.WriteString("{")
		for i := 0; i < v.NumField(); i++ {
			if i > 0 {
				b.WriteString(" ")
			}
			b.WriteString(t.Field(i).Name + "=")
			bufDump(b, v.Field(i), depth+1, seen)
		}
		b.WriteString("}")
	case reflect.Map:
		var items []string
		it := v.MapRange()
		for it.Next() {
			var kb, vb strings.Builder
			bufDump(&kb, it.Key(), depth+1, seen)
			bufDump(&vb, it.Value(), depth+1, seen)
			items = append(items, kb.String()+":"+vb.String())
		}
		sort.Strings(items)
		b.WriteString("map[" + strings.Join(items, " ") + "]")
	default:
		b.WriteString(t.Kind().String())
	}
}

// does a result value share memory with one of the caller's arrays?
func bufAliases(v reflect.Value, arrays []*bufArray, depth int) bool {
	if !v.IsValid() || depth > 3 {
		return false
	}
	switch v.Kind() {
	case reflect.Slice:
		if v.IsNil() || v.Cap() == 0 {
			return false
		}
		if v.Type().Elem().Kind() == reflect.Uint8 || bufIsByteArray(v.Type().Elem()) {
			p := v.Pointer()
			for _, a := range arrays {
				lo := uintptr(unsafe.Pointer(&a.mem[0]))
				if p >= lo && p < lo+uintptr(len(a.mem)) {
					return true
				}
			}
			return false
		}
		for i := 0; i < v.Len(); i++ {
			if bufAliases(v.Index(i), arrays, depth+1) {
				return true
			}
		}
	case reflect.Interface, reflect.Ptr:
		if !v.IsNil() {
			return bufAliases(v.Elem(), arrays, depth+1)
		}
	}
	return false
}
