package main

// C04, transaction-signing helpers (/repo/signer). Filled in after the ecc part.

func runC04Signer(r *Runner) {}
