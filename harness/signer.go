package main

// C04, transaction-signing helpers (/repo/signer).
//
//   sign.p2pkh|sign.p2pkhu|sign.p2wpkh|sign.nested <txhex> <idx> <priv> <ht> <value> <refsig|->
//        -> ok <signed tx hex> | err
//
// Go-only op (no model op): the property is decided on the Go side by direct oracles —
//   * frame condition: version, locktime, outputs, every prevout and sequence, every other input
//     script and every other witness are unchanged (nil and empty witness identified, as
//     serialisation does);
//   * standard form: scriptSig = push(sig) ‖ push(pub) (P2PKH), witness = [sig, pub] with an empty
//     scriptSig (P2WPKH), the same witness with scriptSig = push(00 14 hash160(pub)) (nested);
//   * the signature inside is strict DER with the hash-type byte, low-S, and verifies under the
//     key over the library's own signature hash (C03) of the PRE-state with the P2PKH script code;
//   * the signed transaction serialises and re-parses to itself;
//   * byte-for-byte equality with the transaction assembled here from <refsig>, the DER signature
//     the Lean model (RFC 6979 reference in the oracle) produces for the same digest: the generator
//     obtains it by asking the oracle `sig.encode <priv> <digest> <ht>` before it runs the case.

import (
	"bytes"
	"crypto/sha256"
	"fmt"
	"strconv"
	"strings"

	"github.com/kklash/bitcoinlib/der"
	"github.com/kklash/bitcoinlib/ecc"
	"github.com/kklash/bitcoinlib/signer"
	"github.com/kklash/bitcoinlib/tx"
	"golang.org/x/crypto/ripemd160"
)

func c04Hash160(b []byte) []byte {
	s := sha256.Sum256(b)
	h := ripemd160.New()
	h.Write(s[:])
	return h.Sum(nil)
}

// direct push of at most 75 bytes
func c04Push(b []byte) []byte { return append([]byte{byte(len(b))}, b...) }

func c04WitEq(a, b tx.Witness) bool {
	if len(a) != len(b) {
		return false
	}
	for i := range a {
		if !bytes.Equal(a[i], b[i]) {
			return false
		}
	}
	return true
}

// the P2PKH script code of a key, written out: DUP HASH160 <20> EQUALVERIFY CHECKSIG
func c04ScriptCode(pub []byte) []byte {
	out := []byte{0x76, 0xa9, 0x14}
	out = append(out, c04Hash160(pub)...)
	return append(out, 0x88, 0xac)
}

// c04SigHash computes the library's signature hash of the pre-state for the given kind.
func c04SigHash(t *tx.Tx, kind string, idx int, pub []byte, ht uint32, value uint64) ([]byte, error) {
	sc := c04ScriptCode(pub)
	if kind == "p2pkh" || kind == "p2pkhu" {
		h, err := t.SignatureHashForInput(idx, sc, ht)
		return h[:], err
	}
	h, err := t.SignatureHashForWitnessInput(idx, sc, ht, value)
	return h[:], err
}

func c04Sign(kind string, t *tx.Tx, idx int, priv []byte, ht uint32, value uint64) error {
	switch kind {
	case "p2pkh":
		return signer.SignInputP2PKH(t, idx, priv, ht)
	case "p2pkhu":
		return signer.SignInputP2PKHUncompressed(t, idx, priv, ht)
	case "p2wpkh":
		return signer.SignInputP2WPKH(t, idx, priv, ht, value)
	case "nested":
		return signer.SignInputP2SHNestedP2WPKH(t, idx, priv, ht, value)
	}
	panic("bad signer kind " + kind)
}

// c04Install puts sig/pub into a copy of the original transaction in the standard form.
func c04Install(kind string, t *tx.Tx, idx int, sig, pub []byte) {
	switch kind {
	case "p2pkh", "p2pkhu":
		t.Inputs[idx].Script = append(c04Push(sig), c04Push(pub)...)
	case "p2wpkh", "nested":
		if t.Witnesses == nil {
			t.Witnesses = make([]tx.Witness, len(t.Inputs))
		}
		for i := range t.Witnesses {
			if t.Witnesses[i] == nil {
				t.Witnesses[i] = tx.Witness{}
			}
		}
		t.Witnesses[idx] = tx.Witness{sig, pub}
		if kind == "p2wpkh" {
			t.Inputs[idx].Script = []byte{}
		} else {
			t.Inputs[idx].Script = c04Push(append([]byte{0x00, 0x14}, c04Hash160(pub)...))
		}
	}
}

func signOp(kind string) OpFunc {
	return func(a []string) (string, []string) {
		raw := unhx(a[0])
		t, err := tx.FromBytes(raw)
		orig, _ := tx.FromBytes(raw)
		if err != nil || orig == nil {
			return "bad-op", nil
		}
		idx, e1 := strconv.Atoi(a[1])
		priv := unhx(a[2])
		ht64, e2 := strconv.ParseUint(a[3], 10, 32)
		value, e3 := strconv.ParseUint(a[4], 10, 64)
		if e1 != nil || e2 != nil || e3 != nil {
			return "bad-op", nil
		}
		ht := uint32(ht64)
		priv0 := append([]byte{}, priv...)
		var direct []string
		fail := func(f string, args ...interface{}) { direct = append(direct, fmt.Sprintf(f, args...)) }

		serr := c04Sign(kind, t, idx, priv, ht, value)
		if !bytes.Equal(priv, priv0) {
			fail("the private key slice was modified")
		}
		if serr != nil {
			if idx >= 0 && idx < len(orig.Inputs) && ht <= 0xff {
				// the only legitimate refusal for an in-range input is a signature-hash error
				pub := ecc.GetPublicKey(priv, kind != "p2pkhu")
				if _, herr := c04SigHash(orig, kind, idx, pub, ht, value); herr == nil {
					fail("signing refused (%v) although the input exists and the signature hash is defined", serr)
				}
			}
			if dumpTx(t) != dumpTx(orig) {
				fail("a refused signing request changed the transaction")
			}
			return "err", direct
		}
		if idx < 0 || idx >= len(orig.Inputs) {
			fail("signing an input that does not exist succeeded")
			return "ok " + hx(t.Bytes()), direct
		}
		pub := ecc.GetPublicKey(priv, kind != "p2pkhu")

		// ---- frame condition
		if t.Version != orig.Version || t.Locktime != orig.Locktime {
			fail("version or locktime changed")
		}
		if len(t.Inputs) != len(orig.Inputs) || len(t.Outputs) != len(orig.Outputs) {
			fail("number of inputs or outputs changed")
			return "ok " + hx(t.Bytes()), direct
		}
		for i := range t.Outputs {
			if dumpOut(t.Outputs[i]) != dumpOut(orig.Outputs[i]) {
				fail("output %d changed", i)
			}
		}
		for i := range t.Inputs {
			if dumpPrevOut(t.Inputs[i].PrevOut) != dumpPrevOut(orig.Inputs[i].PrevOut) || t.Inputs[i].Sequence != orig.Inputs[i].Sequence {
				fail("prevout or sequence of input %d changed", i)
			}
			if i != idx && !bytes.Equal(t.Inputs[i].Script, orig.Inputs[i].Script) {
				fail("script of input %d (not the signed one) changed", i)
			}
		}
		segwit := kind == "p2wpkh" || kind == "nested"
		if !segwit {
			if dumpWits(t.Witnesses) != dumpWits(orig.Witnesses) {
				fail("legacy signing changed the witnesses")
			}
		} else {
			if len(t.Witnesses) != len(t.Inputs) {
				fail("witness count %d != input count %d after segwit signing", len(t.Witnesses), len(t.Inputs))
				return "ok " + hx(t.Bytes()), direct
			}
			for i := range t.Witnesses {
				if i == idx {
					continue
				}
				var ow tx.Witness
				if orig.Witnesses != nil {
					ow = orig.Witnesses[i]
				}
				if !c04WitEq(t.Witnesses[i], ow) {
					fail("witness of input %d (not the signed one) changed", i)
				}
			}
		}

		// ---- standard form, and the signature inside
		var sig, gotPub []byte
		switch kind {
		case "p2pkh", "p2pkhu":
			sc := t.Inputs[idx].Script
			if len(sc) < 2 || int(sc[0]) > 75 || len(sc) < 1+int(sc[0])+1 {
				fail("scriptSig is not push(sig) push(pub)")
			} else {
				sig = sc[1 : 1+int(sc[0])]
				rest := sc[1+int(sc[0]):]
				if int(rest[0]) != len(rest)-1 || int(rest[0]) > 75 {
					fail("scriptSig is not push(sig) push(pub)")
				} else {
					gotPub = rest[1:]
				}
			}
		default:
			w := t.Witnesses[idx]
			if len(w) != 2 {
				fail("witness of the signed input does not have two items")
			} else {
				sig, gotPub = w[0], w[1]
			}
			want := []byte{}
			if kind == "nested" {
				want = c04Push(append([]byte{0x00, 0x14}, c04Hash160(pub)...))
			}
			if !bytes.Equal(t.Inputs[idx].Script, want) {
				fail("scriptSig of the signed segwit input is %s, want %s", hx(t.Inputs[idx].Script), hx(want))
			}
		}
		if gotPub != nil && !bytes.Equal(gotPub, pub) {
			fail("the public key installed is not the key of the private key in the requested encoding")
		}
		if sig != nil {
			if !eccBip66(sig) || sig[len(sig)-1] != byte(ht) {
				fail("the signature installed is not strict DER followed by the hash type")
			} else if rr, ss, _, derr := der.DecodeSignature(append([]byte{}, sig...)); derr != nil {
				fail("the signature installed does not decode")
			} else {
				if ss.Cmp(eccHalfN) > 0 {
					fail("the signature installed is not low-S")
				}
				h, herr := c04SigHash(orig, kind, idx, pub, ht, value)
				if herr != nil {
					fail("signing succeeded although the signature hash of the pre-state is undefined")
				} else if !ecc.VerifyECDSA(pub, h, rr, ss) {
					fail("the signature installed does not verify over the signature hash of the pre-state")
				}
			}
		}

		// ---- serialises and re-parses to itself
		enc := t.Bytes()
		if enc == nil {
			fail("the signed transaction does not serialise")
		} else if back, perr := tx.FromBytes(enc); perr != nil {
			fail("the signed transaction does not re-parse: %v", perr)
		} else if !bytes.Equal(back.Bytes(), enc) || dumpTxNorm(back) != dumpTxNorm(t) {
			fail("the signed transaction re-parses to a different transaction")
		}

		// ---- byte-for-byte against the reference assembly
		if len(a) > 5 && a[5] != "-" {
			exp, _ := tx.FromBytes(raw)
			c04Install(kind, exp, idx, unhx(a[5]), pub)
			if !bytes.Equal(exp.Bytes(), enc) {
				fail("signed transaction differs from the one assembled from the reference (RFC 6979) signature: want %s", truncate(hx(exp.Bytes()), 400))
			}
		}
		// ---- the same object edited in place (a fee bump, another sequence) and signed again: the result is that of
		// signing a freshly parsed copy of the edited transaction
		if enc != nil {
			if len(t.Outputs) > 0 {
				t.Outputs[0].Value ^= 0x10
				t.Outputs[len(t.Outputs)-1].Script = append([]byte{0x51}, t.Outputs[len(t.Outputs)-1].Script...)
			}
			t.Inputs[idx].Sequence ^= 1
			t.Inputs[0].PrevOut.Index ^= 1
			if mid := t.Bytes(); mid != nil {
				if fresh, perr := tx.FromBytes(mid); perr == nil {
					e1 := c04Sign(kind, t, idx, priv, ht, value)
					e2 := c04Sign(kind, fresh, idx, priv, ht, value)
					if (e1 == nil) != (e2 == nil) || (e1 == nil && !bytes.Equal(t.Bytes(), fresh.Bytes())) {
						fail("signing again after editing the transaction in place differs from signing a freshly parsed copy of the edited transaction")
					}
				}
			}
		}
		return "ok " + hx(enc), direct
	}
}

// dumpTxNorm identifies a nil witness list with a list of empty witnesses only when the encoding does
func dumpTxNorm(t *tx.Tx) string {
	c := *t
	allEmpty := true
	for _, w := range c.Witnesses {
		if len(w) != 0 {
			allEmpty = false
		}
	}
	if allEmpty {
		c.Witnesses = nil
	}
	return dumpTx(&c)
}

func init() {
	for _, k := range []string{"p2pkh", "p2pkhu", "p2wpkh", "nested"} {
		reg("sign."+k, GoOnly, signOp(k))
	}
}

var c04HashTypes = []uint32{1, 2, 3, 0x81, 0x82, 0x83}

func runC04Signer(r *Runner) {
	kinds := []string{"p2pkh", "p2pkhu", "p2wpkh", "nested"}
	n := r.N(320, 4000)
	for i := 0; i < n; i++ {
		t, _ := r.genTx(4, 3)
		if len(t.Inputs) > 8 { // keep the boundary-count transactions rare and small enough
			if i%8 != 0 {
				t.Inputs = t.Inputs[:3]
				if t.Witnesses != nil {
					t.Witnesses = t.Witnesses[:3]
				}
			}
		}
		raw := t.Bytes()
		if raw == nil {
			continue
		}
		kind := kinds[i%4]
		idx := r.rng.Intn(len(t.Inputs))
		priv := r.eccScalar(i / 4)
		if i/4 < len(eccEdgeScalars) {
			priv = eccEdgeScalars[i/4]
		}
		ht := c04HashTypes[(i/4)%6]
		value := r.u64()
		// reference signature from the model for the library's own digest of the pre-state
		ref := "-"
		pre, _ := tx.FromBytes(raw)
		pub := ecc.GetPublicKey(priv, kind != "p2pkhu")
		if h, err := c04SigHash(pre, kind, idx, pub, ht, value); err == nil && r.oracle != nil {
			ans, aerr := r.oracle.Ask([]string{"sig.encode " + hx(priv) + " " + hx(h) + " " + strconv.Itoa(int(ht))})
			if aerr == nil && strings.HasPrefix(ans[0], "ok ") {
				ref = ans[0][3:]
			}
		}
		args := []string{hx(raw), strconv.Itoa(idx), hx(priv), strconv.Itoa(int(ht)), strconv.FormatUint(value, 10), ref}
		tag := "sign-" + kind
		if ref == "-" {
			tag += "-noref" // the pre-state has no signature hash (or no oracle): only the direct oracles apply
		}
		r.Do("sign."+kind, args, tag, true, fmt.Sprintf("%d inputs, input %d, hash type %#x", len(t.Inputs), idx, ht))
		switch i % 16 {
		case 5: // input index out of range
			bad := []int{-1, len(t.Inputs), len(t.Inputs) + 1, 1 << 30}[r.rng.Intn(4)]
			args2 := append([]string{}, args...)
			args2[1], args2[5] = strconv.Itoa(bad), "-"
			r.Do("sign."+kind, args2, "sign-badindex", false, "")
		case 9: // hash type that does not fit a byte: EncodeSignature refuses
			args2 := append([]string{}, args...)
			args2[3], args2[5] = strconv.Itoa(0x100+int(ht)), "-"
			r.Do("sign."+kind, args2, "sign-bad-hashtype", false, "")
		}
	}
}
