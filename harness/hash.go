package main

// C20: hash helpers and the chained multi-hasher.
//
// ops (answers are `ok <fields>`):
//   sha256|dsha256|rmd160|hash160 <data>      -> ok <digest>
//   tagged <tag> <chunk,chunk,…|.>            -> ok <digest>
//   mh.run <stage,stage,…|-> <op;op;…|.>      -> ok <out;out;…|.>
// <data> is hex, `-` (empty) or `rep:<hexbyte>:<count>` (count copies of one byte; used for the
// 10^6-byte strings so that they cost nothing on the line protocol).
// mh ops: `w:<data>` Write, `s` Sum(nil), `p:<data>` Sum(prefix), `r` Reset, `z` Size, `b` BlockSize;
// outputs: `w<n>` (bytes accepted), `<hex>` (the slice Sum returned), `r`, `z<n>`, `b<n>`.

import (
	"bytes"
	"crypto/sha256"
	"crypto/sha512"
	"fmt"
	"hash"
	"strconv"
	"strings"

	"github.com/kklash/bitcoinlib/bhash"
	"golang.org/x/crypto/ripemd160"
)

func parseData(s string) []byte {
	if strings.HasPrefix(s, "rep:") {
		f := strings.Split(s, ":")
		if len(f) != 3 {
			panic("bad rep arg: " + s)
		}
		b := unhx(f[1])
		n, err := strconv.Atoi(f[2])
		if err != nil || len(b) != 1 || n < 0 {
			panic("bad rep arg: " + s)
		}
		return bytes.Repeat(b, n)
	}
	return unhx(s)
}

func newStage(name string) hash.Hash {
	switch name {
	case "sha256":
		return sha256.New()
	case "sha512":
		return sha512.New()
	case "rmd160":
		return ripemd160.New()
	}
	panic("bad stage name: " + name)
}

// refChain recomputes the chained digest from the recorded stream with fresh one-shot hashers.
func refChain(stages []string, stream []byte) []byte {
	cur := stream
	for _, s := range stages {
		h := newStage(s)
		h.Write(cur)
		cur = h.Sum(nil)
	}
	return cur
}

func parseChunks(s string) [][]byte {
	if s == "." {
		return nil
	}
	var out [][]byte
	for _, c := range strings.Split(s, ",") {
		out = append(out, parseData(c))
	}
	return out
}

func init() {
	reg("sha256", Full, func(args []string) (string, []string) {
		if len(args) != 1 {
			return "bad-op", nil
		}
		d := bhash.Sha256(parseData(args[0]))
		return "ok " + hx(d[:]), nil
	})
	reg("dsha256", Full, func(args []string) (string, []string) {
		if len(args) != 1 {
			return "bad-op", nil
		}
		data := parseData(args[0])
		d := bhash.DoubleSha256(data)
		var direct []string
		first := bhash.Sha256(data)
		if second := bhash.Sha256(first[:]); second != d {
			direct = append(direct, "DoubleSha256(x) != Sha256(Sha256(x))")
		}
		return "ok " + hx(d[:]), direct
	})
	reg("rmd160", Full, func(args []string) (string, []string) {
		if len(args) != 1 {
			return "bad-op", nil
		}
		d := bhash.Ripemd160(parseData(args[0]))
		return "ok " + hx(d[:]), nil
	})
	reg("hash160", Full, func(args []string) (string, []string) {
		if len(args) != 1 {
			return "bad-op", nil
		}
		data := parseData(args[0])
		d := bhash.Hash160(data)
		var direct []string
		first := bhash.Sha256(data)
		if second := bhash.Ripemd160(first[:]); second != d {
			direct = append(direct, "Hash160(x) != Ripemd160(Sha256(x))")
		}
		return "ok " + hx(d[:]), direct
	})
	reg("tagged", Full, func(args []string) (string, []string) {
		if len(args) != 2 {
			return "bad-op", nil
		}
		tag := parseData(args[0])
		chunks := parseChunks(args[1])
		d := bhash.NewTaggedHasher(string(tag))(chunks...)
		var direct []string
		th := sha256.Sum256(tag)
		pre := append(append([]byte{}, th[:]...), th[:]...)
		for _, c := range chunks {
			pre = append(pre, c...)
		}
		if ref := sha256.Sum256(pre); !bytes.Equal(ref[:], d) {
			direct = append(direct, "tagged hash != sha256(sha256(tag)||sha256(tag)||chunks)")
		}
		return "ok " + hx(d), direct
	})
	reg("mh.run", Full, func(args []string) (string, []string) {
		if len(args) != 2 {
			return "bad-op", nil
		}
		var names []string
		if args[0] != "-" {
			names = strings.Split(args[0], ",")
		}
		hs := make([]hash.Hash, len(names))
		for i, n := range names {
			hs[i] = newStage(n)
		}
		mh := bhash.NewMultiHasher(hs...)
		var outs, direct []string
		var stream []byte // bytes written since the last Reset (the reference recomputes from it)
		if args[1] != "." {
			for i, op := range strings.Split(args[1], ";") {
				switch {
				case strings.HasPrefix(op, "w:"):
					chunk := parseData(op[2:])
					n, err := mh.Write(chunk)
					if err != nil {
						return "err", nil
					}
					if n != len(chunk) {
						direct = append(direct, fmt.Sprintf("op %d: Write accepted %d of %d bytes", i, n, len(chunk)))
					}
					stream = append(stream, chunk...)
					outs = append(outs, fmt.Sprintf("w%d", n))
				case op == "s" || strings.HasPrefix(op, "p:"):
					var prefix []byte
					if op != "s" {
						prefix = parseData(op[2:])
					}
					keep := append([]byte{}, prefix...)
					got := mh.Sum(prefix)
					want := append(append([]byte{}, keep...), refChain(names, stream)...)
					if !bytes.Equal(got, want) {
						direct = append(direct, fmt.Sprintf("op %d: Sum(%x) = %x, want prefix || chained hash of the stream since the last reset = %x", i, keep, got, want))
					}
					outs = append(outs, hx(got))
				case op == "r":
					mh.Reset()
					stream = stream[:0]
					outs = append(outs, "r")
				case op == "z":
					n := mh.Size()
					if want := newStage(names[len(names)-1]).Size(); n != want {
						direct = append(direct, fmt.Sprintf("op %d: Size() = %d, last stage has %d", i, n, want))
					}
					outs = append(outs, fmt.Sprintf("z%d", n))
				case op == "b":
					n := mh.BlockSize()
					if want := newStage(names[0]).BlockSize(); n != want {
						direct = append(direct, fmt.Sprintf("op %d: BlockSize() = %d, first stage has %d", i, n, want))
					}
					outs = append(outs, fmt.Sprintf("b%d", n))
				default:
					panic("bad mh op: " + op)
				}
			}
		}
		if len(outs) == 0 {
			return "ok .", direct
		}
		return "ok " + strings.Join(outs, ";"), direct
	})
	regRunner("C20", runC20)
}

// known BIP340/341 tags plus the ones the repository uses
var c20Tags = []string{"", "TapLeaf", "TapBranch", "TapTweak", "TapSighash", "BIP0340/challenge", "BIP0340/aux",
	"BIP0340/nonce", "KeyAgg list", "KeyAgg coefficient", "a", "tag with spaces", "ünïcödé ✓", "\x00\xff"}

var c20Edges = []int{0, 1, 55, 56, 57, 63, 64, 65, 111, 112, 113, 119, 120, 127, 128, 129, 191, 192, 255, 256}

func (r *Runner) c20Chunk() []byte {
	switch k := r.rng.Intn(10); {
	case k == 0:
		return nil
	case k < 3:
		return r.bytesN(c20Edges[r.rng.Intn(len(c20Edges))])
	case k < 5:
		return r.bytesN(r.rng.Intn(200))
	}
	return r.bytesN(r.rng.Intn(12))
}

func (r *Runner) c20History(maxOps int) (stages string, ops string, nontrivial bool) {
	names := []string{"sha256", "sha512", "rmd160"}
	k := 1 + r.rng.Intn(3)
	st := make([]string, k)
	for i := range st {
		st[i] = names[r.rng.Intn(3)]
	}
	n := r.rng.Intn(maxOps + 1)
	if n == 0 {
		return strings.Join(st, ","), ".", false
	}
	parts := make([]string, n)
	sumSeen := false
	for i := range parts {
		if sumSeen {
			nontrivial = true // a Sum followed by another operation
		}
		switch c := r.rng.Intn(20); {
		case c < 8:
			parts[i] = "w:" + hx(r.c20Chunk())
		case c < 12:
			parts[i] = "s"
			sumSeen = true
		case c < 15:
			parts[i] = "p:" + hx(r.bytesN(r.rng.Intn(40)))
			sumSeen = true
		case c < 17:
			parts[i] = "r"
		case c < 18:
			parts[i] = "z"
		default:
			parts[i] = "b"
		}
	}
	return strings.Join(st, ","), strings.Join(parts, ";"), nontrivial
}

func runC20(r *Runner) string {
	helpers := []string{"sha256", "dsha256", "rmd160", "hash160"}
	// every length 0..300 (all padding classes of 64- and 128-byte blocks), each helper
	for rep := 0; rep < r.N(3, 12); rep++ {
		for n := 0; n <= 300; n++ {
			for _, op := range helpers {
				var data []byte
				switch {
				case rep == 0 && n%3 == 0:
					data = bytes.Repeat([]byte{0x00}, n)
				case rep == 0 && n%3 == 1:
					data = bytes.Repeat([]byte{0xff}, n)
				default:
					data = r.bytesN(n)
				}
				r.Do(op, []string{hx(data)}, op+"/len0..300", true, fmt.Sprintf("%d bytes", n))
			}
		}
	}
	// runs of inputs of ONE length through ONE helper (a caller hashing key after key from one buffer: in the
	// reused-buffer re-evaluation these land in the same memory, one after the other)
	for _, op := range helpers {
		for _, n := range []int{1, 20, 32, 33, 64, 65} {
			for k := 0; k < 8; k++ {
				r.Do(op, []string{hx(r.bytesN(n))}, op+"/run of one length", true, fmt.Sprintf("%d bytes", n))
			}
		}
	}
	// long inputs: 10^6 bytes in the compact form, around 10^6, and one random 10^5-byte string per helper
	for _, op := range helpers {
		for _, spec := range []string{"rep:00:1000000", "rep:61:1000000", "rep:ff:999999", "rep:80:1000001", "rep:61:65536"} {
			r.Do(op, []string{spec}, op+"/10^6", true, spec)
		}
		for i := 0; i < r.N(1, 6); i++ {
			r.Do(op, []string{hx(r.bytesN(100000 + r.rng.Intn(3)))}, op+"/10^5 random", true, "10^5 random bytes")
		}
	}
	// tagged hashes: every known tag with 0..5 chunks, then random tags
	nTag := r.N(6000, 150000)
	for i := 0; i < nTag; i++ {
		var tag []byte
		if i < 20*len(c20Tags) || r.rng.Intn(3) == 0 {
			tag = []byte(c20Tags[i%len(c20Tags)])
		} else {
			tag = r.bytesN(r.rng.Intn(70))
		}
		k := r.rng.Intn(6)
		if i < len(c20Tags) {
			k = 0
		}
		cs := "."
		if k > 0 {
			parts := make([]string, k)
			for j := range parts {
				parts[j] = hx(r.c20Chunk())
			}
			cs = strings.Join(parts, ",")
		}
		r.Do("tagged", []string{hx(tag), cs}, fmt.Sprintf("tagged/%d chunks", k), true, fmt.Sprintf("tag %q", tag))
	}
	r.Do("tagged", []string{hx([]byte("TapLeaf")), "rep:61:1000000,rep:62:7"}, "tagged/10^6", true, "")
	// operation histories of length 0..40 over chains of 1..3 stages
	nHist := r.N(15000, 300000)
	for i := 0; i < nHist; i++ {
		st, ops, nt := r.c20History(40)
		tag := fmt.Sprintf("mh/%d stages", strings.Count(st, ",")+1)
		if nt {
			tag += "/sum then more"
		}
		r.Do("mh.run", []string{st, ops}, tag, nt, "")
	}
	// the sha256+sha256 chain agrees with DoubleSha256, sha256+rmd160 with Hash160 (Go side only)
	for i := 0; i < r.N(300, 5000); i++ {
		data := r.bytesN(r.rng.Intn(300))
		cut := 0
		if len(data) > 0 {
			cut = r.rng.Intn(len(data) + 1)
		}
		ops := "w:" + hx(data[:cut]) + ";w:" + hx(data[cut:]) + ";s"
		for _, pair := range [][2]string{{"sha256,sha256", "dsha256"}, {"sha256,rmd160", "hash160"}} {
			a, _ := eval("mh.run", []string{pair[0], ops})
			b, _ := eval(pair[1], []string{hx(data)})
			var direct []string
			if !strings.HasSuffix(a, ";"+strings.TrimPrefix(b, "ok ")) {
				direct = append(direct, "chain "+pair[0]+" over a split write differs from "+pair[1]+": "+b)
			}
			r.Add(&Case{Op: "mh.run", Args: []string{pair[0], ops}, Go: a, Mode: Full, Direct: direct, NonTrivial: true, Tag: "mh=" + pair[1]})
		}
	}
	return "Hash helpers: every length 0..300 (zero/ones/random content) for sha256, dsha256, rmd160, hash160, plus 10^6-byte " +
		"strings (compact rep form) and random 10^5-byte strings; tagged hashes over the known BIP340/341 tags and random tags " +
		"(0..69 bytes) with 0..5 chunks whose lengths include 0 and the block/padding boundaries (55..65, 111..129); " +
		"histories of 0..40 calls {Write(chunk), Sum(nil), Sum(prefix), Reset, Size, BlockSize} on chains of 1..3 stages " +
		"drawn from sha256/sha512/rmd160, the Go side also checked against a recomputation from the recorded stream. " +
		"A helper case is non-trivial always (distinct input); a history is non-trivial when a Sum is followed by another call."
}
