module verif/harness

go 1.23
