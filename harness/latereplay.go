package main

// Late replay: the first requests of a run are asked again at its end, after everything else — thousands of
// other requests — has gone through the same process. An operation of this harness is a function of its
// request line (histories are whole inside one request), so the answer must be the one given the first time.
// A bounded cache whose index goes stale once it has wrapped around, a table that fills up, a counter that
// overflows: all need SCALE before an early input is answered differently, and a run provides it.

import (
	"fmt"
	"strings"
)

type earlyCase struct {
	op   string
	args []string
	ans  string
	seq  int
}

var (
	earlyCases   []earlyCase
	earlyPerOp   = map[string]int{}
	earlySeq     int
	inLateReplay bool
)

const earlyPerOpMax = 24

var lateReplaySkip = []string{"stream.", "reorder.", "race.", "buf.", "c17.", "net.with", "priv.new", "bip39.gen", "dead.new"}

func noteEarly(op string, args []string, ans string) {
	earlySeq++
	if inLateReplay || arena.active || ans == "panic" || ans == "bad-op" || earlyPerOp[op] >= earlyPerOpMax {
		return
	}
	for _, p := range lateReplaySkip {
		if strings.HasPrefix(op, p) {
			return
		}
	}
	total := 0
	for _, a := range args {
		total += len(a)
	}
	if total > 1<<15 {
		return
	}
	earlyPerOp[op]++
	earlyCases = append(earlyCases, earlyCase{op, append([]string{}, args...), ans, earlySeq})
}

func (r *Runner) lateReplay() {
	if len(earlyCases) == 0 {
		return
	}
	inLateReplay = true
	defer func() { inLateReplay = false }()
	// A caller owns what a call returned to it: it may wipe a key after use, append to a slice it was given,
	// go on computing with an integer. Before the early requests are asked again, every result still remembered
	// by the retained-results check is overwritten in place, appended to within its capacity, or (integers) set
	// to another value; the answers must not change.
	scribbleRetained()
	// twice: the second pass meets whatever the first pass (itself a stream of distinct inputs) displaced
	for pass := 0; pass < 2; pass++ {
		for _, c := range earlyCases {
			ans, _ := eval(c.op, c.args)
			r.res.Evaluations++
			r.res.Distribution["late replay of the first requests of the run"]++
			if ans != c.ans {
				r.addFailure(Failure{Kind: "property", Op: c.op, Args: c.args, Go: ans, Model: c.ans, Tag: "late replay",
					Detail: fmt.Sprintf("the answer to the same request changed in the course of the run: request #%d of the run was answered as shown under model then, and as shown under go after %d further requests in the same process; %s",
						c.seq, earlySeq-c.seq, firstDiff(ans, c.ans))}, false)
			}
		}
	}
}

func scribbleRetained() { scribbleSince(0) }

// scribbleSince changes, as their owner may, everything remembered after mark
func scribbleSince(mark int) {
	for i := range retainRing {
		e := &retainRing[i]
		if e.b == nil || e.seq <= mark {
			continue
		}
		b := e.b
		e.b = nil // no longer compared: it is the caller (this harness) that changes it now
		for j := range b {
			b[j] = 0xEE
		}
		if extra := cap(b) - len(b); extra > 0 {
			if extra > 64 {
				extra = 64
			}
			b = b[:len(b)+extra]
			for j := len(b) - extra; j < len(b); j++ {
				b[j] = 0xEE
			}
		}
	}
	for i := range retainBigRing {
		e := &retainBigRing[i]
		if e.v == nil || e.seq <= mark {
			continue
		}
		v := e.v
		e.v = nil
		v.SetInt64(0x5EED)
	}
}

// Ask again: every eighth request is evaluated a second time right away, after everything the first evaluation
// returned has been scribbled on (a caller wipes the key it was given and decodes the same string again; it
// appends to the bytes it was given and encodes the same value again). The answer must be the same.
var askAgainCounter int

func (r *Runner) askAgain(op string, args []string, ans string, tag string, mark int) {
	if inLateReplay || inSibling || arena.active || arenaOff || ans == "panic" || ans == "bad-op" {
		return
	}
	for _, p := range lateReplaySkip {
		if strings.HasPrefix(op, p) {
			return
		}
	}
	askAgainCounter++
	if askAgainCounter%8 != 3 {
		return
	}
	total := 0
	for _, a := range args {
		total += len(a)
	}
	if total > 1<<15 {
		return
	}
	scribbleSince(mark)
	inLateReplay = true
	ans2, _ := eval(op, args)
	inLateReplay = false
	r.res.Evaluations++
	r.res.Distribution["asked again after the caller changed what it was given"]++
	if ans2 != ans {
		r.addFailure(Failure{Kind: "property", Op: op, Args: args, Go: ans2, Model: ans, Tag: tag + "/asked again",
			Detail: "the same request, repeated after the caller overwrote (and appended to, within capacity) the bytes and integers the first call returned, is answered differently (first answer under model, second under go): the library kept, or handed out, memory it goes on using; " + firstDiff(ans2, ans)}, false)
	}
}
