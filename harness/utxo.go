package main

// C15: UTXO set (unspent.OutputSet), fee accounting (feecalc), satoshi <-> BTC conversion (satutil).
//
// utxo.run <watched> <ops>
//   watched : `_` (no script) or scripts joined by `,` (each lower-case hex, `-` = empty script)
//   ops     : `_` (no operation) or operations joined by `;`, fields joined by `:`
//     a:<hash>:<idx>:<value>:<script>   AddOutput            an   AddOutput(&Output{Outpoint: nil})
//     ro:<hash>:<idx>  RemoveByOutpoint                      ron  RemoveByOutpoint(nil)
//     rh:<hash>:<idx>  RemoveByHash
//     rt:<txid>:<idx>  RemoveByTxid   (txid = hex of the UTF-8 bytes of the string, `-` = "")
//     go / gon / gh / gt  the same for GetBy*
//     sz Size   sl Slice   cl Clone (the run continues on the clone)
//     n:<hash>:<idx>:<value>:<script>:…   NewOutputSet(outputs) (the run continues on the new set)
//     ub:<blockhex>    UpdateFromBlock(block, watched)
//   answer  : ok <out>;<out>;… final=[entry,entry,…]   (entries sorted by (hash, index))
//     out = u (no result) | p (panic) | e (error) | x (block does not decode) | nil |
//           f=<entry> | s=<size> | l=[entries]
//     entry = <hash>:<idx>:<value>:<script>

import (
	"bytes"
	"crypto/sha256"
	"encoding/hex"
	"errors"
	"fmt"
	"math"
	"math/big"
	"sort"
	"strconv"
	"strings"

	"github.com/kklash/bitcoinlib/blocks"
	"github.com/kklash/bitcoinlib/feecalc"
	"github.com/kklash/bitcoinlib/satutil"
	"github.com/kklash/bitcoinlib/tx"
	"github.com/kklash/bitcoinlib/unspent"
)

type refVal struct {
	value  uint64
	script string // raw bytes
}

func entryStr(k tx.PrevOut, value uint64, script []byte) string {
	return fmt.Sprintf("%s:%d:%d:%s", hex.EncodeToString(k.Hash[:]), k.Index, value, hx(script))
}

func lessKey(a, b tx.PrevOut) bool {
	if c := bytes.Compare(a.Hash[:], b.Hash[:]); c != 0 {
		return c < 0
	}
	return a.Index < b.Index
}

func sliceStr(outs []*unspent.Output) string {
	cp := append([]*unspent.Output{}, outs...)
	sort.Slice(cp, func(i, j int) bool { return lessKey(*cp[i].Outpoint, *cp[j].Outpoint) })
	parts := make([]string, len(cp))
	for i, o := range cp {
		parts[i] = entryStr(*o.Outpoint, o.TxOut.Value, o.TxOut.Script)
	}
	return "[" + strings.Join(parts, ",") + "]"
}

func refStr(ref map[tx.PrevOut]refVal) string {
	keys := make([]tx.PrevOut, 0, len(ref))
	for k := range ref {
		keys = append(keys, k)
	}
	sort.Slice(keys, func(i, j int) bool { return lessKey(keys[i], keys[j]) })
	parts := make([]string, len(keys))
	for i, k := range keys {
		parts[i] = entryStr(k, ref[k].value, []byte(ref[k].script))
	}
	return "[" + strings.Join(parts, ",") + "]"
}

func parseKey(h, i string) (tx.PrevOut, bool) {
	var k tx.PrevOut
	b, err := hex.DecodeString(h)
	if err != nil || len(b) != 32 {
		return k, false
	}
	n, err := strconv.ParseUint(i, 10, 32)
	if err != nil {
		return k, false
	}
	copy(k.Hash[:], b)
	k.Index = uint32(n)
	return k, true
}

// the reference's reading of a txid string: 64 hex digits, byte-reversed hash; anything else names nothing
func refTxid(s string, idx uint32) (tx.PrevOut, bool) {
	var k tx.PrevOut
	if len(s) != 64 {
		return k, false
	}
	b, err := hex.DecodeString(s)
	if err != nil {
		return k, false
	}
	for i := 0; i < 32; i++ {
		k.Hash[i] = b[31-i]
	}
	k.Index = idx
	return k, true
}

func cloneRef(ref map[tx.PrevOut]refVal) map[tx.PrevOut]refVal {
	c := make(map[tx.PrevOut]refVal, len(ref))
	for k, v := range ref {
		c[k] = v
	}
	return c
}

// agree compares the real set with the reference map through every read accessor.
func agree(set *unspent.OutputSet, ref map[tx.PrevOut]refVal, probes []tx.PrevOut) string {
	if set.Size() != len(ref) {
		return fmt.Sprintf("Size()=%d, reference has %d", set.Size(), len(ref))
	}
	sl := set.Slice()
	if len(sl) != len(ref) {
		return "Slice() length differs from the reference"
	}
	if got, want := sliceStr(sl), refStr(ref); got != want {
		return "Slice() " + truncate(got, 300) + " differs from the reference " + truncate(want, 300)
	}
	for k, v := range ref {
		k := k
		o := set.GetByOutpoint(&k)
		if o == nil || *o.Outpoint != k || o.TxOut.Value != v.value || string(o.TxOut.Script) != v.script {
			return "GetByOutpoint disagrees with the reference for " + hex.EncodeToString(k.Hash[:])
		}
		if p := set.GetByHash(k.Hash, k.Index); p != o {
			return "GetByHash disagrees with GetByOutpoint"
		}
		rev := make([]byte, 32)
		for i := range rev {
			rev[i] = k.Hash[31-i]
		}
		if p := set.GetByTxid(hex.EncodeToString(rev), k.Index); p != o {
			return "GetByTxid(reversed hex) disagrees with GetByOutpoint"
		}
	}
	for _, k := range probes {
		k := k
		if _, ok := ref[k]; !ok && set.GetByOutpoint(&k) != nil {
			return "GetByOutpoint returns an output the reference does not hold"
		}
	}
	return ""
}

func dsha(b []byte) [32]byte {
	a := sha256.Sum256(b)
	return sha256.Sum256(a[:])
}

func parseWatched(s string) ([][]byte, bool) {
	if s == "_" {
		return nil, true
	}
	var out [][]byte
	for _, p := range strings.Split(s, ",") {
		if p == "-" {
			out = append(out, []byte{})
			continue
		}
		b, err := hex.DecodeString(p)
		if err != nil || len(b) == 0 {
			return nil, false
		}
		out = append(out, b)
	}
	return out, true
}

func utxoRun(a []string) (string, []string) {
	if len(a) != 2 {
		return "bad-op", nil
	}
	watched, ok := parseWatched(a[0])
	if !ok {
		return "bad-op", nil
	}
	var opsList []string
	nilOps := false
	if a[1] != "_" {
		opsList = strings.Split(a[1], ";")
		for _, o := range opsList {
			// nil arguments panic or not depending on the set's internal representation, which the model
			// follows along the clone; with them the run always continues on the clone
			if o == "an" || o == "ron" || o == "gon" {
				nilOps = true
			}
		}
	}
	set := unspent.NewOutputSet(nil)
	ref := map[tx.PrevOut]refVal{}
	var direct []string
	fail := func(i int, op, msg string) {
		if len(direct) < 3 {
			direct = append(direct, fmt.Sprintf("op %d (%s): %s", i, truncate(op, 80), msg))
		}
	}
	type retained struct {
		set  *unspent.OutputSet
		snap map[tx.PrevOut]refVal
		at   int
	}
	var kept []retained
	var probes []tx.PrevOut
	outs := make([]string, 0, len(opsList))

	for i, op := range opsList {
		f := strings.Split(op, ":")
		bad := false
		out := func() (res string) {
			defer func() {
				if e := recover(); e != nil {
					lastPanic = fmt.Sprint(e)
					res = "p"
				}
			}()
			switch f[0] {
			case "a":
				if len(f) != 5 {
					bad = true
					return ""
				}
				k, ok := parseKey(f[1], f[2])
				v, err := strconv.ParseUint(f[3], 10, 64)
				if !ok || err != nil {
					bad = true
					return ""
				}
				script := unhx(f[4])
				probes = append(probes, k)
				kk := k
				// the reference is updated first: AddOutput has no failure mode on a non-nil outpoint
				ref[k] = refVal{v, string(script)}
				set.AddOutput(&unspent.Output{Outpoint: &kk, TxOut: &tx.Output{Value: v, Script: script}})
				return "u"
			case "an":
				set.AddOutput(&unspent.Output{Outpoint: nil, TxOut: &tx.Output{}})
				return "u"
			case "ro", "rh", "go", "gh":
				if len(f) != 3 {
					bad = true
					return ""
				}
				k, ok := parseKey(f[1], f[2])
				if !ok {
					bad = true
					return ""
				}
				probes = append(probes, k)
				kk := k
				switch f[0] {
				case "ro":
					delete(ref, k)
					set.RemoveByOutpoint(&kk)
					return "u"
				case "rh":
					delete(ref, k)
					set.RemoveByHash(k.Hash, k.Index)
					return "u"
				}
				var o *unspent.Output
				if f[0] == "go" {
					o = set.GetByOutpoint(&kk)
				} else {
					o = set.GetByHash(k.Hash, k.Index)
				}
				want, have := ref[k]
				if o == nil {
					if have {
						fail(i, op, "lookup returns nil for an output the reference holds")
					}
					return "nil"
				}
				if !have || *o.Outpoint != k || o.TxOut.Value != want.value || string(o.TxOut.Script) != want.script {
					fail(i, op, "lookup result differs from the reference")
				}
				return "f=" + entryStr(*o.Outpoint, o.TxOut.Value, o.TxOut.Script)
			case "ron":
				set.RemoveByOutpoint(nil)
				return "u"
			case "gon":
				if set.GetByOutpoint(nil) != nil {
					fail(i, op, "GetByOutpoint(nil) returned an output")
				}
				return "nil"
			case "rt", "gt":
				if len(f) != 3 {
					bad = true
					return ""
				}
				txid := string(unhx(f[1]))
				n, err := strconv.ParseUint(f[2], 10, 32)
				if err != nil {
					bad = true
					return ""
				}
				k, valid := refTxid(txid, uint32(n))
				if f[0] == "rt" {
					if valid {
						delete(ref, k)
					}
					set.RemoveByTxid(txid, uint32(n))
					return "u"
				}
				o := set.GetByTxid(txid, uint32(n))
				want, have := ref[k]
				have = have && valid
				if o == nil {
					if have {
						fail(i, op, "GetByTxid returns nil for an output the reference holds")
					}
					return "nil"
				}
				if !have || *o.Outpoint != k || o.TxOut.Value != want.value || string(o.TxOut.Script) != want.script {
					fail(i, op, "GetByTxid result differs from the reference")
				}
				return "f=" + entryStr(*o.Outpoint, o.TxOut.Value, o.TxOut.Script)
			case "sz":
				return "s=" + strconv.Itoa(set.Size())
			case "sl":
				return "l=" + sliceStr(set.Slice())
			case "cl":
				// the run continues on the clone and the original is watched, or the other way round: neither
				// may follow the other's later changes
				c := set.Clone()
				if i%2 == 0 || nilOps {
					kept = append(kept, retained{set, cloneRef(ref), i})
					set = c
				} else {
					kept = append(kept, retained{c, cloneRef(ref), i})
				}
				return "u"
			case "n":
				if (len(f)-1)%4 != 0 {
					bad = true
					return ""
				}
				var list []*unspent.Output
				nref := map[tx.PrevOut]refVal{}
				for j := 1; j+3 < len(f); j += 4 {
					k, ok := parseKey(f[j], f[j+1])
					v, err := strconv.ParseUint(f[j+2], 10, 64)
					if !ok || err != nil {
						bad = true
						return ""
					}
					kk := k
					script := unhx(f[j+3])
					list = append(list, &unspent.Output{Outpoint: &kk, TxOut: &tx.Output{Value: v, Script: script}})
					nref[k] = refVal{v, string(script)}
					probes = append(probes, k)
				}
				kept = append(kept, retained{set, cloneRef(ref), i})
				set = unspent.NewOutputSet(list)
				ref = nref
				return "u"
			case "ub":
				if len(f) != 2 {
					bad = true
					return ""
				}
				blk, err := blocks.FromReader(bytes.NewReader(unhx(f[1])))
				if err != nil {
					return "x"
				}
				// reference: transactions in block order; spend first, then create
				for _, t := range blk.Transactions {
					for _, in := range t.Inputs {
						delete(ref, *in.PrevOut)
						probes = append(probes, *in.PrevOut)
					}
					id := dsha(t.BytesNoWitness())
					for j, o := range t.Outputs {
						for _, w := range watched {
							if bytes.Equal(w, o.Script) {
								ref[tx.PrevOut{Hash: id, Index: uint32(j)}] = refVal{o.Value, string(o.Script)}
							}
						}
						probes = append(probes, tx.PrevOut{Hash: id, Index: uint32(j)})
					}
				}
				if err := set.UpdateFromBlock(blk, watched); err != nil {
					return "e"
				}
				return "u"
			}
			bad = true
			return ""
		}()
		if bad {
			return "bad-op", nil
		}
		outs = append(outs, out)
		if out != "p" && out != "e" {
			if len(probes) > 400 {
				probes = probes[len(probes)-400:]
			}
			if msg := agree(set, ref, probes); msg != "" {
				fail(i, op, msg)
			}
		}
	}
	for _, r := range kept {
		if msg := agree(r.set, r.snap, nil); msg != "" {
			fail(r.at, "cl/n", "a set that Clone/NewOutputSet separated from the running one (the original left behind, or the clone put aside) changed afterwards: "+msg)
		}
	}
	return "ok " + strings.Join(outs, ";") + " final=" + sliceStr(set.Slice()), direct
}

// ---------------------------------------------------------------------------------------------
// fees

func f64bits(f float64) string { return fmt.Sprintf("%016x", math.Float64bits(f)) }

// table: `_` or hash:idx:value joined by `,`
func parseTable(s string) (map[tx.PrevOut]uint64, bool) {
	m := map[tx.PrevOut]uint64{}
	if s == "_" {
		return m, true
	}
	for _, p := range strings.Split(s, ",") {
		f := strings.Split(p, ":")
		if len(f) != 3 {
			return nil, false
		}
		k, ok := parseKey(f[0], f[1])
		v, err := strconv.ParseUint(f[2], 10, 64)
		if !ok || err != nil {
			return nil, false
		}
		if _, dup := m[k]; !dup { // first entry wins (the model's table is an association list)
			m[k] = v
		}
	}
	return m, true
}

func tableFunc(m map[tx.PrevOut]uint64) feecalc.PrevOutValueFunc {
	return func(p *tx.PrevOut) (uint64, error) {
		v, ok := m[*p]
		if !ok {
			return 0, feecalc.ErrPrevOutNotFound
		}
		return v, nil
	}
}

func numOrErr(v uint64, err error) string {
	if err != nil {
		return "err"
	}
	return strconv.FormatUint(v, 10)
}

func bitsOrErr(v float64, err error) string {
	if err != nil {
		return "err"
	}
	return f64bits(v)
}

// exact sums for the direct oracle
func exactSums(t *tx.Tx, m map[tx.PrevOut]uint64) (in, out *big.Int, found bool) {
	in, out = new(big.Int), new(big.Int)
	found = true
	for _, i := range t.Inputs {
		v, ok := m[*i.PrevOut]
		if !ok {
			found = false
			break
		}
		in.Add(in, new(big.Int).SetUint64(v))
	}
	for _, o := range t.Outputs {
		out.Add(out, new(big.Int).SetUint64(o.Value))
	}
	return
}

var two64 = new(big.Int).Lsh(big.NewInt(1), 64)

// feeTxDirect: the property's statement for one transaction; returns the fee when defined.
func feeTxDirect(t *tx.Tx, m map[tx.PrevOut]uint64, direct *[]string) {
	get := tableFunc(m)
	in, out, found := exactSums(t, m)
	fee, err := feecalc.TotalFeeValue(t, get)
	if !found {
		if !errors.Is(err, feecalc.ErrPrevOutNotFound) {
			*direct = append(*direct, "a missing previous output did not surface as ErrPrevOutNotFound")
		}
		return
	}
	if in.Cmp(two64) >= 0 || out.Cmp(two64) >= 0 {
		return // outside the monetary range: the model mirrors the wrap-around, the property says nothing
	}
	if in.Cmp(out) < 0 {
		if !errors.Is(err, feecalc.ErrInvalidFeeRate) {
			*direct = append(*direct, "outputs exceed inputs but no ErrInvalidFeeRate")
		}
		return
	}
	want := new(big.Int).Sub(in, out)
	if err != nil || new(big.Int).SetUint64(fee).Cmp(want) != 0 {
		*direct = append(*direct, fmt.Sprintf("fee %d (err=%v) is not inputs - outputs = %s", fee, err, want))
	}
	if feecalc.TotalOutputValue(t) != out.Uint64() {
		*direct = append(*direct, "TotalOutputValue is not the sum of the outputs")
	}
	if v, err := feecalc.TotalInputValue(t, get); err != nil || v != in.Uint64() {
		*direct = append(*direct, "TotalInputValue is not the sum of the previous outputs")
	}
	rate, err := feecalc.FeePerVByte(t, get)
	if err != nil || rate != float64(fee)/float64((t.WeightUnits()+3)/4) {
		*direct = append(*direct, "FeePerVByte is not fee / ceil(weight/4)")
	}
}

func feeTx(a []string) (string, []string) {
	if len(a) != 2 {
		return "bad-op", nil
	}
	m, ok := parseTable(a[1])
	if !ok {
		return "bad-op", nil
	}
	t, err := tx.FromBytes(unhx(a[0]))
	if err != nil {
		return "err", nil
	}
	get := tableFunc(m)
	var direct []string
	feeTxDirect(t, m, &direct)
	in, inErr := feecalc.TotalInputValue(t, get)
	fee, feeErr := feecalc.TotalFeeValue(t, get)
	rate, rateErr := feecalc.FeePerVByte(t, get)
	return fmt.Sprintf("ok out=%d in=%s fee=%s vsize=%d rate=%s", feecalc.TotalOutputValue(t), numOrErr(in, inErr), numOrErr(fee, feeErr), t.VSize(), bitsOrErr(rate, rateErr)), direct
}

func feeBlock(a []string) (string, []string) {
	if len(a) != 2 {
		return "bad-op", nil
	}
	m, ok := parseTable(a[1])
	if !ok {
		return "bad-op", nil
	}
	blk, err := blocks.FromReader(bytes.NewReader(unhx(a[0])))
	if err != nil {
		return "err", nil
	}
	get := tableFunc(m)
	var direct []string
	total := safely(func() string { return numOrErr(feecalc.TotalFeesForBlock(blk, get)) })
	rng := safely(func() string {
		lo, hi, err := feecalc.FeeRangeForBlock(blk, get)
		if err != nil {
			return "err"
		}
		return f64bits(lo) + "," + f64bits(hi)
	})
	avg := safely(func() string { return bitsOrErr(feecalc.AverageFeeForBlockPerVByte(blk, get)) })

	// reference computed from the per-transaction values (coinbase skipped)
	if len(blk.Transactions) >= 1 {
		sum := new(big.Int)
		lo, hi := 0.0, 0.0
		anyErr := false
		inRange := true
		for i, t := range blk.Transactions[1:] {
			feeTxDirect(t, m, &direct)
			fee, err := feecalc.TotalFeeValue(t, get)
			if err != nil {
				anyErr = true
				break
			}
			in, out, _ := exactSums(t, m)
			if in.Cmp(two64) >= 0 || out.Cmp(two64) >= 0 {
				inRange = false
			}
			sum.Add(sum, new(big.Int).SetUint64(fee))
			rate, _ := feecalc.FeePerVByte(t, get)
			if i == 0 || rate < lo {
				lo = rate
			}
			if rate > hi {
				hi = rate
			}
		}
		if anyErr {
			if total != "err" || rng != "err" || avg != "err" {
				direct = append(direct, "a transaction's fee is an error but a block statistic is not")
			}
		} else if inRange && sum.Cmp(two64) < 0 {
			if total != sum.String() {
				direct = append(direct, "TotalFeesForBlock "+total+" is not the sum of the transaction fees "+sum.String())
			}
			if rng != f64bits(lo)+","+f64bits(hi) {
				direct = append(direct, "FeeRangeForBlock is not the min/max of the per-transaction rates")
			}
			if want := float64(sum.Uint64()) / float64(blk.WeightUnits()) / 4; avg != f64bits(want) {
				direct = append(direct, "AverageFeeForBlockPerVByte is not total/weight/4")
			}
		}
	}
	return fmt.Sprintf("ok ntx=%d weight=%d total=%s range=%s avg=%s", len(blk.Transactions), blk.WeightUnits(), total, rng, avg), direct
}

// fee.naive <prevhash> <idx> <txhex string | _>
func feeNaive(a []string) (string, []string) {
	if len(a) != 3 {
		return "bad-op", nil
	}
	k, ok := parseKey(a[0], a[1])
	if !ok {
		return "bad-op", nil
	}
	s := a[2]
	if s == "_" {
		s = ""
	}
	asked := ""
	f := feecalc.NewNaivePrevOutValueFunc(func(txid string) (string, error) { asked = txid; return s, nil })
	v, err := f(&k)
	var direct []string
	rev := make([]byte, 32)
	for i := range rev {
		rev[i] = k.Hash[31-i]
	}
	if asked != hex.EncodeToString(rev) {
		direct = append(direct, "the transaction was requested under "+asked+", not the reversed hash")
	}
	if err != nil {
		return "err", direct
	}
	if t, e := tx.FromBytes(mustHex(s)); e != nil || int(k.Index) >= len(t.Outputs) || t.Outputs[k.Index].Value != v {
		direct = append(direct, "value is not that of the referenced output")
	}
	return "ok " + strconv.FormatUint(v, 10), direct
}

func mustHex(s string) []byte { b, _ := hex.DecodeString(s); return b }

// ---------------------------------------------------------------------------------------------
// satoshis

const maxSats = 2_100_000_000_000_000

func satToBtc(a []string) (string, []string) {
	s, err := strconv.ParseUint(a[0], 10, 64)
	if err != nil {
		return "bad-op", nil
	}
	b := satutil.SatsToBitcoins(s)
	var direct []string
	if s <= maxSats {
		if back := satutil.BitcoinsToSats(b); back != s {
			direct = append(direct, fmt.Sprintf("BitcoinsToSats(SatsToBitcoins(%d)) = %d", s, back))
		}
		if rb := satutil.RoundBitcoins(b); rb != b {
			direct = append(direct, "RoundBitcoins changes a value that SatsToBitcoins produced")
		}
	}
	return "ok " + f64bits(b), direct
}

func parseBits(s string) (float64, bool) {
	if len(s) != 16 {
		return 0, false
	}
	u, err := strconv.ParseUint(s, 16, 64)
	if err != nil {
		return 0, false
	}
	return math.Float64frombits(u), true
}

// the model's domain for float -> uint64: the rounded product lies in (-1, 2^64)
func inSatsDomain(b float64) bool {
	p := math.Round(b * 1e8)
	return !math.IsNaN(p) && p > -1 && p < 18446744073709551616.0
}

func satToSats(a []string) (string, []string) {
	b, ok := parseBits(a[0])
	if !ok {
		return "bad-op", nil
	}
	if !inSatsDomain(b) {
		return "undef", nil // float -> uint64 conversion outside the target range is implementation-defined in Go
	}
	return "ok " + strconv.FormatUint(satutil.BitcoinsToSats(b), 10), nil
}

func satRound(a []string) (string, []string) {
	b, ok := parseBits(a[0])
	if !ok {
		return "bad-op", nil
	}
	if !inSatsDomain(b) {
		return "undef", nil
	}
	r := satutil.RoundBitcoins(b)
	var direct []string
	if satutil.BitcoinsToSats(b) <= maxSats {
		if rr := satutil.RoundBitcoins(r); rr != r {
			direct = append(direct, "RoundBitcoins is not idempotent")
		}
		if satutil.BitcoinsToSats(r) != satutil.BitcoinsToSats(b) {
			direct = append(direct, "RoundBitcoins changes the satoshi amount")
		}
	}
	return "ok " + f64bits(r), direct
}

// sat.dec <k>: the decimal string of k satoshis with 8 decimals, parsed to the nearest double (what a
// caller writing a BTC literal holds), converted to satoshis. Go-side direct oracle: the result is k.
func satDec(a []string) (string, []string) {
	k, err := strconv.ParseUint(a[0], 10, 64)
	if err != nil {
		return "bad-op", nil
	}
	b := decimalBtc(k)
	s := satutil.BitcoinsToSats(b)
	var direct []string
	if k <= maxSats && s != k {
		direct = append(direct, fmt.Sprintf("BitcoinsToSats(%d.%08d) = %d", k/1e8, k%1e8, s))
	}
	return "ok " + f64bits(b) + " " + strconv.FormatUint(s, 10), direct
}

func decimalBtc(k uint64) float64 {
	b, _ := strconv.ParseFloat(fmt.Sprintf("%d.%08d", k/100000000, k%100000000), 64)
	return b
}

// ---------------------------------------------------------------------------------------------

func init() {
	regRunner("C15", runC15)
	reg("utxo.run", Full, utxoRun)
	reg("fee.tx", Full, feeTx)
	reg("fee.block", Full, feeBlock)
	reg("fee.naive", Full, feeNaive)
	reg("sat.tobtc", Full, satToBtc)
	reg("sat.tosats", Full, satToSats)
	reg("sat.round", Full, satRound)
	reg("sat.dec", Full, satDec)
}

// ---------------------------------------------------------------------------------------------
// generators

type utxoGen struct {
	r       *Runner
	hashes  [][32]byte // small universe of transaction hashes
	scripts [][]byte   // script pool; a prefix of it is watched
	watched [][]byte
	// flags for non-triviality
	present                       map[tx.PrevOut]bool
	reAdd, absentSpend, sameBlock bool
}

func (g *utxoGen) key() tx.PrevOut {
	return tx.PrevOut{Hash: g.hashes[g.r.rng.Intn(len(g.hashes))], Index: uint32(g.r.rng.Intn(3))}
}

func (g *utxoGen) value() uint64 {
	switch g.r.rng.Intn(5) {
	case 0:
		return 0
	case 1:
		return maxSats
	case 2:
		return uint64(g.r.rng.Intn(100000))
	}
	return uint64(g.r.rng.Int63n(maxSats + 1))
}

func (g *utxoGen) script() []byte { return g.scripts[g.r.rng.Intn(len(g.scripts))] }

func keyFields(k tx.PrevOut) string {
	return hex.EncodeToString(k.Hash[:]) + ":" + strconv.Itoa(int(k.Index))
}

func revHex(h [32]byte) string {
	rev := make([]byte, 32)
	for i := range rev {
		rev[i] = h[31-i]
	}
	return hex.EncodeToString(rev)
}

// a txid string: mostly the proper reversed hex, sometimes upper case, sometimes malformed
func (g *utxoGen) txidString(k tx.PrevOut, malformed bool) string {
	s := revHex(k.Hash)
	if !malformed {
		if g.r.rng.Intn(6) == 0 {
			s = strings.ToUpper(s)
		}
		return s
	}
	switch g.r.rng.Intn(9) {
	case 0:
		return ""
	case 1:
		return s[:g.r.rng.Intn(64)] // short (odd or even)
	case 2:
		return s + s[:2+2*g.r.rng.Intn(4)] // long
	case 3:
		return hex.EncodeToString(k.Hash[:]) // not reversed: a different outpoint
	case 4:
		b := []byte(s)
		b[g.r.rng.Intn(64)] = "gzGZ -_\x00\xff"[g.r.rng.Intn(9)]
		return string(b)
	case 5:
		return "00"
	case 6:
		return s[:62] // 31 bytes
	case 7:
		return strings.Repeat("0", 2*g.r.rng.Intn(33))
	}
	return s[2:] + "0" // 63 characters
}

// smallTx builds a transaction that spends `spend` and creates outputs with scripts from the pool.
func (g *utxoGen) smallTx(spend []tx.PrevOut, nOut int) *tx.Tx {
	r := g.r
	t := &tx.Tx{Version: int32(1 + r.rng.Intn(2)), Locktime: uint32(r.rng.Intn(3))}
	for _, p := range spend {
		p := p
		t.Inputs = append(t.Inputs, &tx.Input{PrevOut: &p, Script: r.bytesN(r.rng.Intn(4)), Sequence: r.u32()})
	}
	t.Outputs = make([]*tx.Output, nOut)
	for i := range t.Outputs {
		t.Outputs[i] = &tx.Output{Value: g.value(), Script: g.script()}
	}
	if r.rng.Intn(3) == 0 {
		t.Witnesses = make([]tx.Witness, len(t.Inputs))
		for i := range t.Witnesses {
			t.Witnesses[i] = tx.Witness{r.bytesN(r.rng.Intn(5))}
		}
	}
	return t
}

func isWatched(w [][]byte, s []byte) bool {
	for _, x := range w {
		if bytes.Equal(x, s) {
			return true
		}
	}
	return false
}

// genBlock: transactions that create, chain-spend (an earlier transaction of the same block) and
// double-reference (two transactions naming the same outpoint) outputs.
func (g *utxoGen) genBlock() *blocks.Block {
	r := g.r
	b := &blocks.Block{Header: r.genHeader()}
	n := r.rng.Intn(6)
	if r.rng.Intn(25) == 0 {
		n = 0
	}
	type created struct {
		k       tx.PrevOut
		watched bool
	}
	var made []created
	var spentInBlock []tx.PrevOut
	for j := 0; j < n; j++ {
		var spend []tx.PrevOut
		for k := 0; k <= r.rng.Intn(3); k++ {
			switch c := r.rng.Intn(10); {
			case c < 4 && len(made) > 0: // chain-spend
				m := made[r.rng.Intn(len(made))]
				spend = append(spend, m.k)
				if m.watched {
					g.sameBlock = true
				}
			case c < 6 && len(spentInBlock) > 0: // double reference
				spend = append(spend, spentInBlock[r.rng.Intn(len(spentInBlock))])
			default:
				k := g.key()
				if !g.present[k] {
					g.absentSpend = true
				}
				spend = append(spend, k)
			}
		}
		spentInBlock = append(spentInBlock, spend...)
		var t *tx.Tx
		if r.rng.Intn(8) == 0 {
			t, _ = r.genTx(3, 3) // C01's generator: arbitrary scripts, witnesses, boundary lengths
			for _, o := range t.Outputs {
				if r.rng.Intn(2) == 0 {
					o.Script = g.script()
				}
			}
		} else {
			t = g.smallTx(spend, r.rng.Intn(4))
		}
		if r.rng.Intn(12) == 0 && j > 0 { // the same transaction twice in one block
			t = b.Transactions[r.rng.Intn(j)]
		}
		b.Transactions = append(b.Transactions, t)
		id := dsha(t.BytesNoWitness())
		for i, o := range t.Outputs {
			made = append(made, created{tx.PrevOut{Hash: id, Index: uint32(i)}, isWatched(g.watched, o.Script)})
		}
		if len(g.hashes) < 12 {
			g.hashes = append(g.hashes, id)
		}
	}
	return b
}

func (r *Runner) newUtxoGen() *utxoGen {
	g := &utxoGen{r: r, present: map[tx.PrevOut]bool{}}
	for i := 0; i < 2+r.rng.Intn(4); i++ {
		var h [32]byte
		copy(h[:], r.bytesN(32))
		if i == 0 && r.rng.Intn(4) == 0 {
			h = [32]byte{} // the all-zero hash: the outpoint a zero-padded txid names
		}
		g.hashes = append(g.hashes, h)
	}
	pool := [][]byte{{0x51}, {0x76, 0xa9, 0x14}, {}, r.bytesN(22), r.bytesN(25), {0x6a}, r.bytesN(34)}
	r.rng.Shuffle(len(pool), func(i, j int) { pool[i], pool[j] = pool[j], pool[i] })
	g.scripts = pool
	nw := r.rng.Intn(6) // 0..5 watched scripts, duplicates included
	for i := 0; i < nw; i++ {
		if i > 0 && r.rng.Intn(4) == 0 {
			g.watched = append(g.watched, g.watched[r.rng.Intn(len(g.watched))])
		} else {
			g.watched = append(g.watched, pool[r.rng.Intn(4)])
		}
	}
	return g
}

func watchedArg(w [][]byte) string {
	if len(w) == 0 {
		return "_"
	}
	parts := make([]string, len(w))
	for i, s := range w {
		parts[i] = hx(s)
	}
	return strings.Join(parts, ",")
}

// genHistory returns the two arguments of utxo.run and whether the history is non-trivial.
func (r *Runner) genHistory(length int, malformedTxids, nilOps bool) ([]string, bool, string) {
	g := r.newUtxoGen()
	var opsOut []string
	add := func(k tx.PrevOut) string {
		if g.present[k] {
			g.reAdd = true
		}
		g.present[k] = true
		return fmt.Sprintf("a:%s:%d:%s", keyFields(k), g.value(), hx(g.script()))
	}
	for len(opsOut) < length {
		k := g.key()
		switch c := r.rng.Intn(100); {
		case c < 26:
			opsOut = append(opsOut, add(k))
		case c < 34:
			if !g.present[k] {
				g.absentSpend = true
			}
			delete(g.present, k)
			opsOut = append(opsOut, "ro:"+keyFields(k))
		case c < 40:
			if !g.present[k] {
				g.absentSpend = true
			}
			delete(g.present, k)
			opsOut = append(opsOut, "rh:"+keyFields(k))
		case c < 48:
			bad := malformedTxids && r.rng.Intn(2) == 0
			if !bad {
				if !g.present[k] {
					g.absentSpend = true
				}
				delete(g.present, k)
			}
			opsOut = append(opsOut, fmt.Sprintf("rt:%s:%d", hx([]byte(g.txidString(k, bad))), k.Index))
		case c < 55:
			opsOut = append(opsOut, "go:"+keyFields(k))
		case c < 61:
			opsOut = append(opsOut, "gh:"+keyFields(k))
		case c < 69:
			bad := malformedTxids && r.rng.Intn(2) == 0
			opsOut = append(opsOut, fmt.Sprintf("gt:%s:%d", hx([]byte(g.txidString(k, bad))), k.Index))
		case c < 73:
			opsOut = append(opsOut, "sz")
		case c < 77:
			opsOut = append(opsOut, "sl")
		case c < 80:
			opsOut = append(opsOut, "cl")
		case c < 82:
			parts := []string{"n"}
			g.present = map[tx.PrevOut]bool{}
			for j := 0; j < r.rng.Intn(5); j++ {
				k := g.key()
				if g.present[k] {
					g.reAdd = true
				}
				g.present[k] = true
				parts = append(parts, keyFields(k), strconv.FormatUint(g.value(), 10), hx(g.script()))
			}
			opsOut = append(opsOut, strings.Join(parts, ":"))
		case c < 96:
			b := g.genBlock()
			opsOut = append(opsOut, "ub:"+hx(b.Bytes()))
			// bookkeeping for the non-triviality flags only (the reference lives in the op)
			for _, t := range b.Transactions {
				for _, in := range t.Inputs {
					delete(g.present, *in.PrevOut)
				}
				id := dsha(t.BytesNoWitness())
				for i, o := range t.Outputs {
					if isWatched(g.watched, o.Script) {
						g.present[tx.PrevOut{Hash: id, Index: uint32(i)}] = true
					}
				}
			}
		default:
			if nilOps {
				opsOut = append(opsOut, []string{"an", "ron", "gon"}[r.rng.Intn(3)])
			} else {
				opsOut = append(opsOut, "sz")
			}
		}
	}
	arg := "_"
	if len(opsOut) > 0 {
		arg = strings.Join(opsOut, ";")
	}
	kind := ""
	if g.sameBlock {
		kind = "+create-and-spend-in-block"
	}
	return []string{watchedArg(g.watched), arg}, g.reAdd || g.absentSpend || g.sameBlock, kind
}

// fee cases -----------------------------------------------------------------------------------

func tableArg(keys []tx.PrevOut, vals []uint64) string {
	if len(keys) == 0 {
		return "_"
	}
	parts := make([]string, len(keys))
	for i, k := range keys {
		parts[i] = keyFields(k) + ":" + strconv.FormatUint(vals[i], 10)
	}
	return strings.Join(parts, ",")
}

// feeCase: a transaction with a previous-output table. mode 0: monetary range, inputs cover outputs
// mostly; 1: outputs may exceed inputs; 2: a previous output is missing; 3: values up to 2^64-1 (wrap).
func (r *Runner) feeTxCase(mode int) (*tx.Tx, []tx.PrevOut, []uint64) {
	t, _ := r.genTx(4, 4)
	if len(t.Inputs) > 8 {
		t.Inputs = t.Inputs[:8]
		if t.Witnesses != nil {
			t.Witnesses = t.Witnesses[:8]
		}
	}
	if len(t.Outputs) > 8 {
		t.Outputs = t.Outputs[:8]
	}
	money := func() uint64 {
		switch r.rng.Intn(6) {
		case 0:
			return 0
		case 1:
			return maxSats
		case 2:
			return uint64(r.rng.Intn(1000))
		case 3:
			return uint64(r.rng.Int63n(1 << 40))
		}
		return uint64(r.rng.Int63n(maxSats + 1))
	}
	var outSum uint64
	for _, o := range t.Outputs {
		if mode == 3 {
			o.Value = r.u64()
		} else {
			o.Value = money() / uint64(len(t.Outputs))
		}
		outSum += o.Value
	}
	var keys []tx.PrevOut
	var vals []uint64
	for i, in := range t.Inputs {
		if i > 0 && r.rng.Intn(6) == 0 {
			in.PrevOut = t.Inputs[r.rng.Intn(i)].PrevOut // the same outpoint referenced twice
		}
		keys = append(keys, *in.PrevOut)
		switch mode {
		case 3:
			vals = append(vals, r.u64())
		case 1:
			vals = append(vals, money()/uint64(len(t.Inputs)))
		default:
			// cover the outputs and leave a fee of every magnitude (also 0 and > 2^53)
			v := outSum/uint64(len(t.Inputs)) + 1
			switch r.rng.Intn(5) {
			case 0:
				v += uint64(r.rng.Intn(3))
			case 1:
				v += uint64(r.rng.Int63n(1 << 20))
			case 2:
				v += uint64(r.rng.Int63n(maxSats))
			case 3:
				v += 1<<53 + uint64(r.rng.Int63n(1<<12)) // fee above 2^53: float64(fee) rounds
			}
			vals = append(vals, v)
		}
	}
	if mode == 0 && r.rng.Intn(10) == 0 && len(vals) > 0 { // fee exactly zero
		var s uint64
		for i := range vals {
			vals[i] = 0
		}
		vals[0] = outSum
		_ = s
		for i := 1; i < len(keys); i++ {
			if keys[i] == keys[0] {
				vals[0] = 0 // duplicates would count twice; leave the general case
			}
		}
	}
	if mode == 2 {
		i := r.rng.Intn(len(keys))
		keys = append(keys[:i], keys[i+1:]...)
		vals = append(vals[:i], vals[i+1:]...)
	}
	return t, keys, vals
}

func satBoundaries() []uint64 {
	var vs []uint64
	p := uint64(1)
	for k := 0; k <= 15; k++ {
		vs = append(vs, p)
		p *= 10
	}
	vs = append(vs, maxSats, maxSats/2, 1<<53, 1<<52, 1<<51, 1<<50, 100000000)
	return vs
}

func runC15(r *Runner) string {
	// ---- operation histories of every length 0..200 ----
	for length := 0; length <= 200; length++ {
		for k := 0; k < r.N(2, 60); k++ {
			args, nt, kind := r.genHistory(length, false, false)
			r.Do("utxo.run", args, "history"+kind, nt, fmt.Sprintf("history of %d ops", length))
		}
	}
	for i := 0; i < r.N(150, 6000); i++ {
		args, nt, kind := r.genHistory(r.rng.Intn(201), true, false)
		r.Do("utxo.run", args, "history-malformed-txid"+kind, nt, "history with malformed txid strings")
	}
	for i := 0; i < r.N(100, 3000); i++ {
		args, nt, kind := r.genHistory(r.rng.Intn(60), r.rng.Intn(2) == 0, true)
		r.Do("utxo.run", args, "history-nil-pointers"+kind, nt, "history with nil outpoints")
	}
	// ---- fees ----
	for i := 0; i < r.N(3000, 150000); i++ {
		mode := []int{0, 0, 0, 1, 2, 3}[r.rng.Intn(6)]
		t, keys, vals := r.feeTxCase(mode)
		r.Do("fee.tx", []string{hx(t.Bytes()), tableArg(keys, vals)}, fmt.Sprintf("fee-tx-mode%d", mode), mode != 3, "")
	}
	for i := 0; i < r.N(600, 30000); i++ {
		b := &blocks.Block{Header: r.genHeader()}
		n := r.rng.Intn(7)
		var keys []tx.PrevOut
		var vals []uint64
		mode := []int{0, 0, 0, 0, 1, 2, 3}[r.rng.Intn(7)]
		for j := 0; j < n; j++ {
			m := 0
			if j > 0 && j == n-1 {
				m = mode
			}
			t, k, v := r.feeTxCase(m)
			b.Transactions = append(b.Transactions, t)
			if j > 0 || r.rng.Intn(2) == 0 { // the coinbase's inputs need not be known
				keys = append(keys, k...)
				vals = append(vals, v...)
			}
		}
		r.Do("fee.block", []string{hx(b.Bytes()), tableArg(keys, vals)}, fmt.Sprintf("fee-block-mode%d", mode), n >= 2, "")
	}
	for i := 0; i < r.N(600, 20000); i++ {
		t, _ := r.genTx(3, 4)
		var h [32]byte
		copy(h[:], r.bytesN(32))
		idx := r.rng.Intn(len(t.Outputs) + 2)
		s := hex.EncodeToString(t.Bytes())
		switch r.rng.Intn(8) {
		case 0:
			s = "_"
		case 1:
			s = strings.ToUpper(s)
		case 2:
			s = s[:r.rng.Intn(len(s))]
		case 3:
			bs := []byte(s)
			bs[r.rng.Intn(len(bs))] = "gx-~"[r.rng.Intn(4)]
			s = string(bs)
		}
		if s == "" {
			s = "_" // the empty string travels as `_`
		}
		r.Do("fee.naive", []string{hex.EncodeToString(h[:]), strconv.Itoa(idx), s}, "fee-naive", idx < len(t.Outputs), "")
	}
	// ---- satoshis: dense at both ends and around the powers of ten, the rest sampled ----
	dense := uint64(r.N(4000, 200000))
	sat := func(s uint64, tag string) {
		r.Do("sat.tobtc", []string{strconv.FormatUint(s, 10)}, tag, true, "")
	}
	for s := uint64(0); s < dense; s++ {
		sat(s, "sats-low")
		sat(maxSats-s, "sats-high")
	}
	w := uint64(r.N(300, 20000))
	for _, c := range satBoundaries() {
		for d := uint64(0); d <= w; d++ {
			if c >= d {
				sat(c-d, "sats-boundary")
			}
			sat(c+d, "sats-boundary")
		}
	}
	for i := 0; i < r.N(15000, 1000000); i++ {
		sat(uint64(r.rng.Int63n(maxSats+1)), "sats-sampled")
	}
	for i := 0; i < r.N(1000, 50000); i++ { // beyond the monetary range: model and code must still agree
		sat(r.rng.Uint64()>>uint(r.rng.Intn(12)), "sats-beyond")
	}
	// BTC values with up to 8 decimals -> satoshis, and rounding
	for i := 0; i < r.N(15000, 1000000); i++ {
		var k uint64
		switch r.rng.Intn(4) {
		case 0:
			k = uint64(r.rng.Int63n(1000000))
		case 1:
			k = maxSats - uint64(r.rng.Int63n(1000000))
		default:
			k = uint64(r.rng.Int63n(maxSats + 1))
		}
		if d := uint(r.rng.Intn(9)); r.rng.Intn(2) == 0 { // fewer than 8 decimals
			p := uint64(math.Pow10(int(d)))
			k = k / p * p
		}
		r.Do("sat.dec", []string{strconv.FormatUint(k, 10)}, "btc-decimal", true, "")
		b := decimalBtc(k)
		if i%3 == 0 {
			r.Do("sat.tosats", []string{f64bits(b)}, "btc-to-sats", true, "")
		}
		if i%3 == 1 {
			// more than 8 decimals: neighbouring doubles and half-way cases
			b2 := b + float64(r.rng.Intn(3)-1)*5e-9*float64(r.rng.Intn(2)+1)
			if r.rng.Intn(3) == 0 {
				b2 = math.Float64frombits(math.Float64bits(b) + uint64(r.rng.Intn(5)) - 2)
			}
			if inSatsDomain(b2) {
				r.Do("sat.round", []string{f64bits(b2)}, "btc-round", true, "")
				r.Do("sat.tosats", []string{f64bits(b2)}, "btc-to-sats", true, "")
			}
		}
	}
	for i := 0; i < r.N(1500, 50000); i++ { // arbitrary bit patterns inside the conversion's domain
		b := math.Float64frombits(r.rng.Uint64())
		if r.rng.Intn(2) == 0 {
			b = math.Ldexp(r.rng.Float64(), r.rng.Intn(80)-40)
		}
		if r.rng.Intn(8) == 0 {
			b = -b
		}
		if inSatsDomain(b) {
			r.Do("sat.tosats", []string{f64bits(b)}, "f64-to-sats", true, "")
			r.Do("sat.round", []string{f64bits(b)}, "f64-round", true, "")
		}
	}
	// Go-side only, in bulk (no oracle round trip): the round trip itself on wide dense ranges
	bulk := uint64(r.N(1500000, 60000000))
	bad := 0
	check := func(s uint64) {
		if s > maxSats {
			return
		}
		if back := satutil.BitcoinsToSats(satutil.SatsToBitcoins(s)); back != s {
			bad++
			if bad <= 3 {
				r.addFailure(Failure{Kind: "property", Op: "sat.tobtc", Args: []string{strconv.FormatUint(s, 10)}, Detail: fmt.Sprintf("round trip gives %d", back)}, false)
			}
		}
	}
	for s := uint64(0); s < bulk; s++ {
		check(s)
		check(maxSats - s)
	}
	bw := uint64(r.N(50000, 2000000))
	for _, c := range satBoundaries() {
		for d := uint64(0); d <= bw; d++ {
			if c >= d {
				check(c - d)
			}
			check(c + d)
		}
	}
	r.res.Evaluations += int(2*bulk + uint64(len(satBoundaries()))*2*bw)
	r.res.Notes = append(r.res.Notes, fmt.Sprintf("satoshi round trip on the Go side alone (a test, not a proof): all amounts in [0,%d) and (%d-%d, %d], and +-%d around every power of ten and 2^50..2^53", bulk, uint64(maxSats), bulk, uint64(maxSats), bw))
	return "histories: op sequences of every length 0..200 over a universe of 2..12 transaction hashes x 3 indices (so keys collide), mixing Add/RemoveBy*/GetBy*/Size/Slice/Clone/NewOutputSet/UpdateFromBlock; blocks of 0..5 transactions that spend universe outpoints, outputs of earlier transactions of the same block (chain-spend) and outpoints already named by another transaction (double reference), sometimes the same transaction twice; 0..5 watched scripts with duplicates out of a pool of 7; separate streams with malformed txid strings (empty, short, long, odd, non-hex, unreversed, upper case) and with nil pointers. Non-trivial history: contains a re-add, a spend of an absent outpoint or a create-and-spend inside one block. Fees: C01's transaction generator with monetary values (modes: covered, outputs exceed inputs, missing previous output, values up to 2^64-1), blocks of 0..6 such transactions. Satoshis: exhaustive low/high ranges and neighbourhoods of the powers of ten, uniform samples between; decimal BTC strings with 0..8 decimals, neighbouring doubles and half-way values. distinct = distinct request line."
}
