package main

// C03: legacy and BIP143 signature hashes.

import (
	"bytes"
	"fmt"
	"strconv"

	"github.com/kklash/bitcoinlib/tx"
)

func parseTxArg(h string) *tx.Tx {
	t, err := tx.FromBytes(unhx(h))
	if err != nil {
		return nil
	}
	return t
}

// snapshot of everything reachable from a transaction, for the non-mutation oracle
func snapshotTx(t *tx.Tx) string {
	s := dumpTx(t)
	// distinguish nil from empty where the dump does not
	s += fmt.Sprintf(" nilwit=%v", t.Witnesses == nil)
	for _, i := range t.Inputs {
		s += fmt.Sprintf(" %v", i.Script == nil)
	}
	return s
}

func legacyGo(a []string, direct *[]string) string {
	t := parseTxArg(a[0])
	if t == nil {
		return "bad-op"
	}
	n, _ := strconv.Atoi(a[1])
	sc := unhx(a[2])
	ht, _ := strconv.ParseUint(a[3], 10, 32)
	before := snapshotTx(t)
	scBefore := append([]byte{}, sc...)
	h, err := t.SignatureHashForInput(n, sc, uint32(ht))
	if direct != nil {
		if snapshotTx(t) != before {
			*direct = append(*direct, "SignatureHashForInput changed the transaction")
		}
		if !bytes.Equal(sc, scBefore) {
			*direct = append(*direct, "SignatureHashForInput changed the script-code argument")
		}
	}
	if err != nil {
		return "err"
	}
	return "ok " + hx(h[:])
}

func bip143Go(a []string, direct *[]string) string {
	t := parseTxArg(a[0])
	if t == nil {
		return "bad-op"
	}
	n, _ := strconv.Atoi(a[1])
	sc := unhx(a[2])
	ht, _ := strconv.ParseUint(a[3], 10, 32)
	amt, _ := strconv.ParseUint(a[4], 10, 64)
	before := snapshotTx(t)
	h, err := t.SignatureHashForWitnessInput(n, sc, uint32(ht), amt)
	if direct != nil && snapshotTx(t) != before {
		*direct = append(*direct, "SignatureHashForWitnessInput changed the transaction")
	}
	if err != nil {
		return "err"
	}
	return "ok " + hx(h[:])
}

func init() {
	regRunner("C03", runC03)
	reg("sighash.legacy", Full, func(a []string) (string, []string) {
		var d []string
		return legacyGo(a, &d), d
	})
	reg("sighash.legacy.spec", Full, func(a []string) (string, []string) { return legacyGo(a, nil), nil })
	reg("sighash.bip143", Full, func(a []string) (string, []string) {
		var d []string
		return bip143Go(a, &d), d
	})
	reg("sighash.bip143.spec", Full, func(a []string) (string, []string) { return bip143Go(a, nil), nil })
}

// genScriptCode draws a script code from the grammar of the property's quantifier. parseable
// reports whether every push is complete.
func (r *Runner) genScriptCode() (script []byte, parseable bool, interesting bool) {
	var b []byte
	n := r.rng.Intn(8)
	for i := 0; i < n; i++ {
		switch r.rng.Intn(9) {
		case 0, 1:
			b = append(b, 0xab) // OP_CODESEPARATOR
			interesting = true
		case 2:
			b = append(b, []byte{0x00, 0x51, 0x76, 0xa9, 0x87, 0x88, 0xac, 0xae, 0x4f, 0x60, 0xff, 0x6a}[r.rng.Intn(12)])
		case 3:
			b = append(b, byte(0x4f+r.rng.Intn(0xb1)))
		default:
			// a push in some encoding; payload may contain 0xab
			k := r.rng.Intn(6)
			if r.rng.Intn(6) == 0 {
				k = []int{0x4b, 0x4c, 0x4d, 0xff, 0x100}[r.rng.Intn(5)]
			}
			data := r.bytesN(k)
			for j := range data {
				if r.rng.Intn(4) == 0 {
					data[j] = 0xab
				}
			}
			enc := r.rng.Intn(4)
			switch {
			case enc == 0 && k <= 0x4b && k > 0:
				b = append(b, byte(k))
			case enc == 1 || (enc == 0 && k <= 0xff):
				if k > 0xff {
					b = append(b, 0x4d, byte(k), byte(k>>8))
				} else {
					b = append(b, 0x4c, byte(k)) // PUSHDATA1, minimal or not
				}
			case enc == 2:
				b = append(b, 0x4d, byte(k), byte(k>>8))
			default:
				b = append(b, 0x4e, byte(k), byte(k>>8), 0, 0)
			}
			b = append(b, data...)
			interesting = true
		}
	}
	parseable = true
	if r.rng.Intn(12) == 0 {
		// truncated push at the end
		b = append(b, []byte{0x05, 0x4c, 0x4d, 0x4e}[r.rng.Intn(4)])
		if r.rng.Intn(2) == 0 {
			b = append(b, 0x09, 0xab)
		}
		parseable = scriptParses(b)
	}
	return b, parseable, interesting
}

// scriptParses is the harness's own push walker (independent of the library's Decompile).
func scriptParses(s []byte) bool {
	i := 0
	for i < len(s) {
		op := s[i]
		i++
		var n int
		switch {
		case op >= 1 && op <= 0x4b:
			n = int(op)
		case op == 0x4c:
			if i+1 > len(s) {
				return false
			}
			n = int(s[i])
			i++
		case op == 0x4d:
			if i+2 > len(s) {
				return false
			}
			n = int(s[i]) | int(s[i+1])<<8
			i += 2
		case op == 0x4e:
			if i+4 > len(s) {
				return false
			}
			n = int(s[i]) | int(s[i+1])<<8 | int(s[i+2])<<16 | int(s[i+3])<<24
			i += 4
		default:
			continue
		}
		if i+n > len(s) {
			return false
		}
		i += n
	}
	return true
}

func runC03(r *Runner) string {
	baseTypes := []uint32{1, 2, 3, 0x81, 0x82, 0x83}
	for i := 0; i < r.N(450, 60000); i++ {
		t, _ := r.genTx(4, 4)
		if r.rng.Intn(3) == 0 && len(t.Outputs) > 0 {
			t.Outputs = t.Outputs[:r.rng.Intn(len(t.Outputs))] // make SINGLE-out-of-range likely
		}
		enc := hx(t.Bytes())
		sc, parseable, interesting := r.genScriptCode()
		nIn := r.rng.Intn(len(t.Inputs))
		// the six base-type x ANYONECANPAY combinations exhaustively per shape, upper bits sampled
		types := append([]uint32{}, baseTypes...)
		types = append(types, 0, 4, 0x1f, 0x80, r.rng.Uint32(), r.rng.Uint32()&0xffffff00|baseTypes[r.rng.Intn(6)], 0xffffffff)
		for _, ht := range types {
			args := []string{enc, strconv.Itoa(nIn), hx(sc), strconv.FormatUint(uint64(ht), 10)}
			nt := interesting || (ht&0x1f == 3 && nIn >= len(t.Outputs))
			tag := "legacy"
			if ht&0x1f == 3 && nIn >= len(t.Outputs) {
				tag = "legacy-single-out-of-range"
			}
			if !parseable {
				// the library may refuse, but must not return a different digest
				r.DoAllowErr("sighash.legacy.spec", args, "legacy-unparseable-script", true, "")
				r.DoMode("sighash.legacy", args, "legacy-unparseable-script(model)", false, "", DriftFull)
				continue
			}
			r.Do("sighash.legacy", args, tag, nt, "")
			r.Do("sighash.legacy.spec", args, tag+"-spec", nt, "")
			amt := r.u64()
			wargs := append(append([]string{}, args...), strconv.FormatUint(amt, 10))
			r.Do("sighash.bip143", wargs, "bip143", true, "")
			r.Do("sighash.bip143.spec", wargs, "bip143-spec", true, "")
		}
	}
	return "transactions of C01's domain (1..4 inputs, 0..4 outputs, witnesses present or not, outputs truncated to make SIGHASH_SINGLE out of range frequent) x input index x script codes from a grammar (arbitrary opcodes, pushes in every encoding minimal and non-minimal, 0..n OP_CODESEPARATORs, 0xab inside push data, truncated pushes) x the six base-type/ANYONECANPAY combinations plus zero, undefined base types, random and all-ones upper bits x amounts incl. 0, 2^63, 2^64-1; every case is evaluated by the model (mirror of the Go code) and by the independent consensus specification. Non-trivial: script code containing a push or separator, or SINGLE out of range, and every BIP143 case; distinct = distinct request line."
}
