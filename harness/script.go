package main

// C12: script pushes, numbers, decompilation and the standard templates of /repo/script.
//
// Ops (DESIGN.md appendix A) — every one is compared in full with the Lean model
// (lean/BtcVerif/Model/Script.lean); the `direct` lists are the property's Go-side oracles,
// computed with the independent reference transcriptions below (c12Ref*), never with the library:
//
//   push.data <hex>                 -> ok <script>            reference push form, minimal, reads back
//   read.data <hex>                 -> ok <data> rest=<hex>   reference reader
//   push.num <decimal int64>        -> ok <script>            CScript::push_int64, reads back
//   read.num <hex>                  -> ok <n> rest=<hex>      CScriptNum::set_vch of <= 9 bytes fitting int64
//   script.decompile <hex>          -> ok op:ac,push:aabb,…|. GetScriptOp sequence
//   script.stackify <hex>           -> ok <item>,<item>,…|.
//   script.strip <hex> <op decimal> -> ok <hex>               only stand-alone occurrences removed
//   tpl.make <kind> <hash>          -> ok <script>            kind = p2pkh|p2sh|p2wpkh|p2wsh
//   tpl.makefrom <kind> <data>      -> ok <script>            from public key (p2pkh, p2wpkh) / script (p2sh, p2wsh)
//   tpl.is <kind> <hex>             -> ok true|false
//   tpl.decode <kind> <hex>         -> ok <hash>
//   tpl.classify <hex>              -> ok P2PKH|P2SH|P2WPKH|P2WSH|NONSTANDARD
//   p2ms <m> <key,key,…|.>          -> ok <script>
//   opreturn <hex>                  -> ok <script>
//   redeem.p2pkh <sig> <pk> | redeem.p2sh <spk> <redeem> | redeem.p2ms <sig,…|.>
//   witness.p2wpkh <sig> <pk> | witness.p2wsh <spk> <redeem>

import (
	"bytes"
	"crypto/sha256"
	"fmt"
	"math"
	"math/big"
	"strconv"
	"strings"

	"github.com/kklash/bitcoinlib/constants"
	"github.com/kklash/bitcoinlib/script"
	"golang.org/x/crypto/ripemd160"
)

// ---------------------------------------------------------------------------------------------
// independent references (Bitcoin Core script.h semantics)

// c12RefPush: CScript::operator<<(vector).
func c12RefPush(d []byte) []byte {
	n := len(d)
	var h []byte
	switch {
	case n < 0x4c:
		h = []byte{byte(n)}
	case n <= 0xff:
		h = []byte{0x4c, byte(n)}
	case n <= 0xffff:
		h = []byte{0x4d, byte(n), byte(n >> 8)}
	default:
		h = []byte{0x4e, byte(n), byte(n >> 8), byte(n >> 16), byte(n >> 24)}
	}
	return append(h, d...)
}

// c12RefReadPush reads the push at the head of s (any opcode 0x00..0x4e): header length, data.
func c12RefReadPush(s []byte) (hdr int, data []byte, ok bool) {
	if len(s) == 0 || s[0] > 0x4e {
		return 0, nil, false
	}
	w := 0
	switch s[0] {
	case 0x4c:
		w = 1
	case 0x4d:
		w = 2
	case 0x4e:
		w = 4
	}
	if len(s) < 1+w {
		return 0, nil, false
	}
	n := int(s[0])
	if w > 0 {
		n = 0
		for i := w; i >= 1; i-- {
			n = n<<8 | int(s[i])
		}
	}
	if len(s)-1-w < n {
		return 0, nil, false
	}
	return 1 + w, s[1+w : 1+w+n], true
}

type c12Item struct {
	isPush bool
	op     byte
	data   []byte
	raw    []byte
}

// c12RefParse: GetScriptOp repeatedly (opcode 0x00 is an opcode, as in the library).
func c12RefParse(s []byte) ([]c12Item, bool) {
	items := []c12Item{}
	for len(s) > 0 {
		if s[0] >= 1 && s[0] <= 0x4e {
			h, d, ok := c12RefReadPush(s)
			if !ok {
				return nil, false
			}
			items = append(items, c12Item{isPush: true, op: s[0], data: d, raw: s[:h+len(d)]})
			s = s[h+len(d):]
		} else {
			items = append(items, c12Item{op: s[0], raw: s[:1]})
			s = s[1:]
		}
	}
	return items, true
}

func c12ItemsStr(items []c12Item) string {
	if len(items) == 0 {
		return "."
	}
	parts := make([]string, len(items))
	for i, it := range items {
		if it.isPush {
			parts[i] = "push:" + hx(it.data)
		} else {
			parts[i] = "op:" + hx([]byte{it.op})
		}
	}
	return strings.Join(parts, ",")
}

// c12RefScriptNumBytes: CScriptNum::serialize.
func c12RefScriptNumBytes(n int64) []byte {
	if n == 0 {
		return []byte{}
	}
	abs := new(big.Int).Abs(big.NewInt(n))
	be := abs.Bytes()
	le := make([]byte, len(be))
	for i := range be {
		le[len(be)-1-i] = be[i]
	}
	if le[len(le)-1]&0x80 != 0 {
		if n < 0 {
			le = append(le, 0x80)
		} else {
			le = append(le, 0)
		}
	} else if n < 0 {
		le[len(le)-1] |= 0x80
	}
	return le
}

// c12RefPushInt: CScript::push_int64.
func c12RefPushInt(n int64) []byte {
	if n == -1 || (n >= 1 && n <= 16) {
		return []byte{byte(n + 0x50)}
	}
	if n == 0 {
		return []byte{0}
	}
	return c12RefPush(c12RefScriptNumBytes(n))
}

// c12RefNumValue: CScriptNum::set_vch on an arbitrary-length string, as a big integer.
func c12RefNumValue(d []byte) *big.Int {
	if len(d) == 0 {
		return new(big.Int)
	}
	be := make([]byte, len(d))
	for i := range d {
		be[len(d)-1-i] = d[i]
	}
	neg := be[0]&0x80 != 0
	be[0] &= 0x7f
	v := new(big.Int).SetBytes(be)
	if neg {
		v.Neg(v)
	}
	return v
}

func c12Hash160(b []byte) []byte {
	s := sha256.Sum256(b)
	h := ripemd160.New()
	h.Write(s[:])
	return h.Sum(nil)
}

func c12RefTemplate(kind string, h []byte) []byte {
	switch kind {
	case "p2pkh":
		return append(append([]byte{0x76, 0xa9, 0x14}, h...), 0x88, 0xac)
	case "p2sh":
		return append(append([]byte{0xa9, 0x14}, h...), 0x87)
	case "p2wpkh":
		return append([]byte{0x00, 0x14}, h...)
	case "p2wsh":
		return append([]byte{0x00, 0x20}, h...)
	}
	panic("bad template kind " + kind)
}

// c12RefMatch: the template's byte pattern; returns the committed hash.
func c12RefMatch(kind string, s []byte) ([]byte, bool) {
	switch kind {
	case "p2pkh":
		if len(s) == 25 && s[0] == 0x76 && s[1] == 0xa9 && s[2] == 0x14 && s[23] == 0x88 && s[24] == 0xac {
			return s[3:23], true
		}
	case "p2sh":
		if len(s) == 23 && s[0] == 0xa9 && s[1] == 0x14 && s[22] == 0x87 {
			return s[2:22], true
		}
	case "p2wpkh":
		if len(s) == 22 && s[0] == 0 && s[1] == 0x14 {
			return s[2:], true
		}
	case "p2wsh":
		if len(s) == 34 && s[0] == 0 && s[1] == 0x20 {
			return s[2:], true
		}
	}
	return nil, false
}

var c12Kinds = []string{"p2pkh", "p2sh", "p2wpkh", "p2wsh"}
var c12FormatOf = map[string]constants.AddressFormat{
	"p2pkh": constants.FormatP2PKH, "p2sh": constants.FormatP2SH,
	"p2wpkh": constants.FormatP2WPKH, "p2wsh": constants.FormatP2WSH,
}

func c12HashLen(kind string) int {
	if kind == "p2wsh" {
		return 32
	}
	return 20
}

func c12Make(kind string, h []byte) []byte {
	switch kind {
	case "p2pkh":
		var a [20]byte
		copy(a[:], h)
		return script.MakeP2PKHFromHash(a)
	case "p2sh":
		var a [20]byte
		copy(a[:], h)
		return script.MakeP2SHFromHash(a)
	case "p2wpkh":
		var a [20]byte
		copy(a[:], h)
		return script.MakeP2WPKHFromHash(a)
	case "p2wsh":
		var a [32]byte
		copy(a[:], h)
		return script.MakeP2WSHFromHash(a)
	}
	panic("bad template kind " + kind)
}

func c12Is(kind string, s []byte) bool {
	switch kind {
	case "p2pkh":
		return script.IsP2PKH(s)
	case "p2sh":
		return script.IsP2SH(s)
	case "p2wpkh":
		return script.IsP2WPKH(s)
	case "p2wsh":
		return script.IsP2WSH(s)
	}
	panic("bad template kind " + kind)
}

func c12Decode(kind string, s []byte) ([]byte, error) {
	switch kind {
	case "p2pkh":
		h, err := script.DecodeP2PKH(s)
		return h[:], err
	case "p2sh":
		h, err := script.DecodeP2SH(s)
		return h[:], err
	case "p2wpkh":
		h, err := script.DecodeP2WPKH(s)
		return h[:], err
	case "p2wsh":
		h, err := script.DecodeP2WSH(s)
		return h[:], err
	}
	panic("bad template kind " + kind)
}

func c12List(s string) [][]byte {
	if s == "." {
		return [][]byte{}
	}
	parts := strings.Split(s, ",")
	out := make([][]byte, len(parts))
	for i, p := range parts {
		out[i] = unhx(p)
	}
	return out
}

func c12ListStr(xs [][]byte) string {
	if len(xs) == 0 {
		return "."
	}
	parts := make([]string, len(xs))
	for i, x := range xs {
		parts[i] = hx(x)
	}
	return strings.Join(parts, ",")
}

// c12RefStack: what a push-only script leaves on the stack (library convention: OP_0 -> empty,
// OP_1NEGATE -> 81, OP_n -> n).
func c12RefStack(items []c12Item) ([][]byte, bool) {
	out := [][]byte{}
	for _, it := range items {
		switch {
		case it.isPush:
			out = append(out, it.data)
		case it.op == 0:
			out = append(out, []byte{})
		case it.op == 0x4f:
			out = append(out, []byte{0x81})
		case it.op >= 0x51 && it.op <= 0x60:
			out = append(out, []byte{it.op - 0x50})
		default:
			return nil, false
		}
	}
	return out, true
}

func init() {
	regRunner("C12", runC12)

	reg("push.data", Full, func(a []string) (string, []string) {
		d := unhx(a[0])
		keep := append([]byte{}, d...)
		var direct []string
		p := script.PushData(d)
		if !bytes.Equal(d, keep) {
			direct = append(direct, "PushData modified its argument")
		}
		if !bytes.Equal(p, c12RefPush(d)) {
			direct = append(direct, "PushData differs from the reference (smallest) push form: "+truncate(hx(p), 40))
		}
		tail := []byte{0xab, 0x01}
		rd := bytes.NewReader(append(append([]byte{}, p...), tail...))
		back, err := script.ReadData(rd)
		if err != nil || !bytes.Equal(back, d) || rd.Len() != len(tail) {
			direct = append(direct, "ReadData(PushData(d) ++ tail) does not return d and leave the tail")
		}
		return "ok " + hx(p), direct
	})

	reg("read.data", Full, func(a []string) (string, []string) {
		s := unhx(a[0])
		var direct []string
		rd := bytes.NewReader(s)
		d, err := script.ReadData(rd)
		h, want, ok := c12RefReadPush(s)
		if (err == nil) != ok {
			direct = append(direct, fmt.Sprintf("ReadData accepted=%v, reference push reader=%v", err == nil, ok))
		}
		if err != nil {
			return "err", direct
		}
		rest := s[len(s)-rd.Len():]
		if ok && (!bytes.Equal(d, want) || len(rest) != len(s)-h-len(want)) {
			direct = append(direct, "ReadData returned other bytes / consumed another amount than the reference")
		}
		return "ok " + hx(d) + " rest=" + hx(rest), direct
	})

	reg("push.num", Full, func(a []string) (string, []string) {
		n, err := strconv.ParseInt(a[0], 10, 64)
		if err != nil {
			return "bad-op", nil
		}
		var direct []string
		p := script.PushNumber(n)
		if !bytes.Equal(p, c12RefPushInt(n)) {
			direct = append(direct, "PushNumber differs from CScript::push_int64: "+hx(p)+" vs "+hx(c12RefPushInt(n)))
		}
		tail := []byte{0x51, 0xab}
		rd := bytes.NewReader(append(append([]byte{}, p...), tail...))
		back, rerr := script.ReadNumber(rd)
		if rerr != nil || back != n || rd.Len() != len(tail) {
			direct = append(direct, fmt.Sprintf("ReadNumber(PushNumber(n) ++ tail) = %d, %v (rest %d bytes)", back, rerr, rd.Len()))
		}
		return "ok " + hx(p), direct
	})

	reg("read.num", Full, func(a []string) (string, []string) {
		s := unhx(a[0])
		var direct []string
		rd := bytes.NewReader(s)
		v, err := script.ReadNumber(rd)
		// reference: small-integer opcodes, otherwise a push of at most 9 bytes whose value fits int64
		var want *big.Int
		consumed := 0
		if len(s) > 0 {
			switch {
			case s[0] == 0x4f:
				want, consumed = big.NewInt(-1), 1
			case s[0] == 0:
				want, consumed = big.NewInt(0), 1
			case s[0] >= 0x51 && s[0] <= 0x60:
				want, consumed = big.NewInt(int64(s[0]-0x50)), 1
			default:
				if h, d, ok := c12RefReadPush(s); ok && len(d) <= 9 {
					if val := c12RefNumValue(d); val.IsInt64() {
						want, consumed = val, h+len(d)
					}
				}
			}
		}
		if (err == nil) != (want != nil) {
			direct = append(direct, fmt.Sprintf("ReadNumber accepted=%v, reference=%v", err == nil, want != nil))
		}
		if err != nil {
			return "err", direct
		}
		if want != nil && (want.Int64() != v || len(s)-rd.Len() != consumed) {
			direct = append(direct, fmt.Sprintf("ReadNumber = %d, reference = %s", v, want.String()))
		}
		return "ok " + strconv.FormatInt(v, 10) + " rest=" + hx(s[len(s)-rd.Len():]), direct
	})

	reg("script.decompile", Full, func(a []string) (string, []string) {
		s := unhx(a[0])
		keep := append([]byte{}, s...)
		var direct []string
		chunks, err := script.Decompile(s)
		if !bytes.Equal(s, keep) {
			direct = append(direct, "Decompile modified its argument")
		}
		items, ok := c12RefParse(s)
		if (err == nil) != ok {
			direct = append(direct, fmt.Sprintf("Decompile accepted=%v, reference parser=%v", err == nil, ok))
		}
		if err != nil {
			return "err", direct
		}
		got := make([]c12Item, len(chunks))
		for i, c := range chunks {
			switch x := c.(type) {
			case byte:
				got[i] = c12Item{op: x}
			case []byte:
				got[i] = c12Item{isPush: true, data: x}
			default:
				direct = append(direct, "chunk of unexpected type")
			}
		}
		ans := c12ItemsStr(got)
		if ok && ans != c12ItemsStr(items) {
			direct = append(direct, "Decompile differs from the reference opcode/push sequence")
		}
		return "ok " + ans, direct
	})

	reg("script.stackify", Full, func(a []string) (string, []string) {
		s := unhx(a[0])
		var direct []string
		st, err := script.Stackify(s)
		var want [][]byte
		items, ok := c12RefParse(s)
		if ok {
			want, ok = c12RefStack(items)
		}
		if (err == nil) != ok {
			direct = append(direct, fmt.Sprintf("Stackify accepted=%v, reference=%v", err == nil, ok))
		}
		if err != nil {
			return "err", direct
		}
		if ok && c12ListStr(st) != c12ListStr(want) {
			direct = append(direct, "Stackify differs from the reference stack")
		}
		return "ok " + c12ListStr(st), direct
	})

	reg("script.strip", Full, func(a []string) (string, []string) {
		s := unhx(a[0])
		opv, perr := strconv.ParseUint(a[1], 10, 8)
		if perr != nil {
			return "bad-op", nil
		}
		op := byte(opv)
		keep := append([]byte{}, s...)
		var direct []string
		out, err := script.StripOpCode(s, op)
		if !bytes.Equal(s, keep) {
			direct = append(direct, "StripOpCode modified its argument")
		}
		items, ok := c12RefParse(s)
		if (err == nil) != ok {
			direct = append(direct, fmt.Sprintf("StripOpCode accepted=%v, reference parser=%v", err == nil, ok))
		}
		if err != nil {
			return "err", direct
		}
		if out == nil {
			direct = append(direct, "StripOpCode returned a nil slice")
		}
		if ok {
			// every item except the stand-alone occurrences of op, byte for byte
			want := []byte{}
			removed := 0
			for _, it := range items {
				if !it.isPush && it.op == op {
					removed++
					continue
				}
				want = append(want, it.raw...)
			}
			if !bytes.Equal(out, want) {
				direct = append(direct, "StripOpCode changed bytes other than stand-alone occurrences of the opcode: "+truncate(hx(out), 60))
			}
			if len(out) != len(s)-removed {
				direct = append(direct, fmt.Sprintf("result length %d, expected %d - %d", len(out), len(s), removed))
			}
		}
		return "ok " + hx(out), direct
	})

	reg("tpl.make", Full, func(a []string) (string, []string) {
		kind, h := a[0], unhx(a[1])
		if len(h) != c12HashLen(kind) {
			return "bad-op", nil
		}
		var direct []string
		s := c12Make(kind, h)
		if !bytes.Equal(s, c12RefTemplate(kind, h)) {
			direct = append(direct, "builder output differs from the reference script")
		}
		for _, k := range c12Kinds {
			if c12Is(k, s) != (k == kind) {
				direct = append(direct, "recogniser "+k+" answers wrongly on a "+kind+" script")
			}
		}
		if d, err := c12Decode(kind, s); err != nil || !bytes.Equal(d, h) {
			direct = append(direct, "decoder does not return the committed hash")
		}
		if script.ClassifyOutput(s) != c12FormatOf[kind] {
			direct = append(direct, "ClassifyOutput = "+string(script.ClassifyOutput(s)))
		}
		return "ok " + hx(s), direct
	})

	reg("tpl.makefrom", Full, func(a []string) (string, []string) {
		kind, d := a[0], unhx(a[1])
		var direct []string
		var s []byte
		var err error
		var want []byte
		switch kind {
		case "p2pkh":
			s, err = script.MakeP2PKHFromPublicKey(d)
			if len(d) == 33 || len(d) == 65 {
				want = c12RefTemplate(kind, c12Hash160(d))
			}
		case "p2wpkh":
			s, err = script.MakeP2WPKHFromPublicKey(d)
			if len(d) == 33 {
				want = c12RefTemplate(kind, c12Hash160(d))
			}
		case "p2sh":
			s = script.MakeP2SHFromScript(d)
			want = c12RefTemplate(kind, c12Hash160(d))
		case "p2wsh":
			s = script.MakeP2WSHFromScript(d)
			h := sha256.Sum256(d)
			want = c12RefTemplate(kind, h[:])
		default:
			return "bad-op", nil
		}
		if (err == nil) != (want != nil) {
			direct = append(direct, "builder accepts exactly the standard public key lengths: violated")
		}
		if err != nil {
			return "err", direct
		}
		if want != nil && !bytes.Equal(s, want) {
			direct = append(direct, "builder output differs from the reference script")
		}
		return "ok " + hx(s), direct
	})

	reg("tpl.is", Full, func(a []string) (string, []string) {
		kind, s := a[0], unhx(a[1])
		var direct []string
		got := c12Is(kind, s)
		_, want := c12RefMatch(kind, s)
		if got != want {
			direct = append(direct, fmt.Sprintf("recogniser %s = %v, template pattern match = %v", kind, got, want))
		}
		n := 0
		for _, k := range c12Kinds {
			if c12Is(k, s) {
				n++
			}
		}
		if n > 1 {
			direct = append(direct, "more than one recogniser accepts the script")
		}
		return "ok " + strconv.FormatBool(got), direct
	})

	reg("tpl.decode", Full, func(a []string) (string, []string) {
		kind, s := a[0], unhx(a[1])
		keep := append([]byte{}, s...)
		var direct []string
		h, err := c12Decode(kind, s)
		if !bytes.Equal(s, keep) {
			direct = append(direct, "decoder modified its argument")
		}
		want, ok := c12RefMatch(kind, s)
		if (err == nil) != ok {
			direct = append(direct, fmt.Sprintf("decoder %s accepted=%v, template pattern match=%v", kind, err == nil, ok))
		}
		if err != nil {
			return "err", direct
		}
		if ok && !bytes.Equal(h, want) {
			direct = append(direct, "decoder returned other bytes than the committed hash")
		}
		if ok && !bytes.Equal(c12Make(kind, h), s) {
			direct = append(direct, "builder(decoder(s)) differs from s")
		}
		return "ok " + hx(h), direct
	})

	reg("tpl.classify", Full, func(a []string) (string, []string) {
		s := unhx(a[0])
		var direct []string
		got := script.ClassifyOutput(s)
		want := constants.FormatNONSTANDARD
		for _, k := range c12Kinds {
			if _, ok := c12RefMatch(k, s); ok {
				want = c12FormatOf[k]
			}
		}
		if got != want {
			direct = append(direct, "ClassifyOutput = "+string(got)+", template patterns say "+string(want))
		}
		return "ok " + string(got), direct
	})

	reg("p2ms", Full, func(a []string) (string, []string) {
		m, err := strconv.ParseUint(a[0], 10, 32)
		if err != nil {
			return "bad-op", nil
		}
		keys := c12List(a[1])
		var direct []string
		s := script.MakeP2MS(uint32(m), keys...)
		want := c12RefPushInt(int64(m))
		for _, k := range keys {
			want = append(want, c12RefPush(k)...)
		}
		want = append(want, c12RefPushInt(int64(len(keys)))...)
		want = append(want, 0xae)
		if !bytes.Equal(s, want) {
			direct = append(direct, "MakeP2MS differs from m <keys> n OP_CHECKMULTISIG")
		}
		if m == 0 || int(m) > len(keys) {
			direct = append(direct, "MakeP2MS accepted m = 0 or m > n")
		}
		return "ok " + hx(s), direct
	})

	reg("opreturn", Full, func(a []string) (string, []string) {
		d := unhx(a[0])
		var direct []string
		s, err := script.MakeOpReturn(d)
		if (err == nil) != (len(d) <= 80) {
			direct = append(direct, "MakeOpReturn accepts exactly payloads of at most 80 bytes: violated")
		}
		if err != nil {
			return "err", direct
		}
		if !bytes.Equal(s, append([]byte{0x6a}, c12RefPush(d)...)) {
			direct = append(direct, "MakeOpReturn differs from OP_RETURN <payload>")
		}
		return "ok " + hx(s), direct
	})

	reg("redeem.p2pkh", Full, func(a []string) (string, []string) {
		sig, pk := unhx(a[0]), unhx(a[1])
		sigArg := append(make([]byte, 0, len(sig)+8), sig...) // spare capacity: the result must not alias it
		var direct []string
		s := script.RedeemP2PKH(sigArg, pk)
		if !bytes.Equal(s, append(c12RefPush(sig), c12RefPush(pk)...)) {
			direct = append(direct, "RedeemP2PKH differs from <sig> <pubkey>")
		}
		return "ok " + hx(s), direct
	})

	reg("redeem.p2sh", Full, func(a []string) (string, []string) {
		spk, redeem := unhx(a[0]), unhx(a[1])
		var direct []string
		s := script.RedeemP2SH(spk, redeem)
		if !bytes.Equal(s, append(append([]byte{}, redeem...), c12RefPush(spk)...)) {
			direct = append(direct, "RedeemP2SH differs from redeem ++ push(script)")
		}
		return "ok " + hx(s), direct
	})

	reg("redeem.p2ms", Full, func(a []string) (string, []string) {
		sigs := c12List(a[0])
		var direct []string
		s := script.RedeemP2MS(sigs...)
		want := []byte{0}
		for _, g := range sigs {
			want = append(want, c12RefPush(g)...)
		}
		if !bytes.Equal(s, want) {
			direct = append(direct, "RedeemP2MS differs from OP_0 <sig>…")
		}
		if len(sigs) == 0 {
			direct = append(direct, "RedeemP2MS accepted an empty signature list")
		}
		return "ok " + hx(s), direct
	})

	reg("witness.p2wpkh", Full, func(a []string) (string, []string) {
		sig, pk := unhx(a[0]), unhx(a[1])
		var direct []string
		w := script.WitnessP2WPKH(sig, pk)
		if len(w) != 2 || !bytes.Equal(w[0], sig) || !bytes.Equal(w[1], pk) {
			direct = append(direct, "WitnessP2WPKH differs from [sig, pubkey]")
		}
		return "ok " + c12ListStr(w), direct
	})

	reg("witness.p2wsh", Full, func(a []string) (string, []string) {
		spk, redeem := unhx(a[0]), unhx(a[1])
		var direct []string
		w, err := script.WitnessP2WSH(spk, redeem)
		var want [][]byte
		items, ok := c12RefParse(redeem)
		if ok {
			want, ok = c12RefStack(items)
		}
		if (err == nil) != ok {
			direct = append(direct, fmt.Sprintf("WitnessP2WSH accepted=%v, reference=%v", err == nil, ok))
		}
		if err != nil {
			return "err", direct
		}
		if ok && c12ListStr(w) != c12ListStr(append(want, spk)) {
			direct = append(direct, "WitnessP2WSH differs from stack items ++ [script]")
		}
		return "ok " + c12ListStr(w), direct
	})
}

// ---------------------------------------------------------------------------------------------
// generator

// c12Payload: random bytes with many 0xab / push-opcode look-alikes inside.
func (r *Runner) c12Payload(n int) []byte {
	b := r.bytesN(n)
	switch r.rng.Intn(4) {
	case 0:
		for i := range b {
			if r.rng.Intn(3) == 0 {
				b[i] = 0xab
			}
		}
	case 1:
		for i := range b {
			if r.rng.Intn(4) == 0 {
				b[i] = []byte{0xab, 0x4c, 0x4d, 0x4e, 0x01, 0x00, 0x4b}[r.rng.Intn(7)]
			}
		}
	}
	return b
}

// c12Push encodes data with the given form: 0 = direct (len <= 75), 1, 2, 4 = PUSHDATAn.
func c12Push(form int, d []byte) []byte {
	n := len(d)
	switch form {
	case 0:
		return append([]byte{byte(n)}, d...)
	case 1:
		return append([]byte{0x4c, byte(n)}, d...)
	case 2:
		return append([]byte{0x4d, byte(n), byte(n >> 8)}, d...)
	}
	return append([]byte{0x4e, byte(n), byte(n >> 8), byte(n >> 16), byte(n >> 24)}, d...)
}

// c12Script: grammar-generated script: opcodes and pushes in every encoding (minimal or not).
// Returns the script and the number of elements.
func (r *Runner) c12Script(maxElems int) ([]byte, int) {
	n := r.rng.Intn(maxElems + 1)
	var s []byte
	for i := 0; i < n; i++ {
		switch r.rng.Intn(10) {
		case 0, 1:
			s = append(s, 0xab)
		case 2:
			s = append(s, []byte{0x00, 0x4f, 0x51, 0x60, 0x61, 0xac, 0xae, 0x76, 0xa9, 0x87, 0x88, 0xff, 0x50}[r.rng.Intn(13)])
		case 3:
			s = append(s, byte(0x4f+r.rng.Intn(0x100-0x4f)))
		case 4, 5:
			s = append(s, c12Push(0, r.c12Payload(1+r.rng.Intn(75)))...)
		case 6:
			s = append(s, c12Push(0, r.c12Payload(1+r.rng.Intn(4)))...)
		case 7:
			l := []int{0, 1, 2, 75, 76, 255, r.rng.Intn(256), r.rng.Intn(20)}[r.rng.Intn(8)]
			s = append(s, c12Push(1, r.c12Payload(l))...)
		case 8:
			l := []int{0, 1, 75, 76, 255, 256, r.rng.Intn(600), r.rng.Intn(20)}[r.rng.Intn(8)]
			s = append(s, c12Push(2, r.c12Payload(l))...)
		case 9:
			l := []int{0, 1, 76, 256, r.rng.Intn(300), r.rng.Intn(10)}[r.rng.Intn(6)]
			s = append(s, c12Push(4, r.c12Payload(l))...)
		}
	}
	return s, n
}

func (r *Runner) c12ScriptOps(s []byte, tag string, nt bool) {
	h := hx(s)
	r.Do("script.decompile", []string{h}, tag+"/decompile", nt, "")
	ops := []int{0xab, 0xab, 0xab, 0xac, 0x00, 0x4c, 0x01, 0x4f, r.rng.Intn(256)}
	r.Do("script.strip", []string{h, strconv.Itoa(ops[r.rng.Intn(len(ops))])}, tag+"/strip", nt, "")
	if r.rng.Intn(3) == 0 {
		r.Do("script.strip", []string{h, "171"}, tag+"/strip", nt, "")
	}
	if r.rng.Intn(4) == 0 {
		r.Do("script.stackify", []string{h}, tag+"/stackify", nt, "")
	}
}

// c12PushOnly: a push-only script (for Stackify / WitnessP2WSH).
func (r *Runner) c12PushOnly(maxElems int) []byte {
	n := r.rng.Intn(maxElems + 1)
	var s []byte
	for i := 0; i < n; i++ {
		switch r.rng.Intn(6) {
		case 0:
			s = append(s, []byte{0x00, 0x4f, 0x51, 0x52, 0x60, 0x5a}[r.rng.Intn(6)])
		case 1:
			s = append(s, c12Push(1, r.c12Payload(r.rng.Intn(90)))...)
		case 2:
			s = append(s, c12Push(2, r.c12Payload(r.rng.Intn(300)))...)
		default:
			s = append(s, c12Push(0, r.c12Payload(1+r.rng.Intn(75)))...)
		}
	}
	return s
}

func (r *Runner) c12Num(n int64, tag string) {
	nt := n < -1 || n > 16
	r.Do("push.num", []string{strconv.FormatInt(n, 10)}, tag, nt, "")
	// what the builder wrote, read back through the model too (with a tail)
	p := c12RefPushInt(n)
	r.Do("read.num", []string{hx(append(p, 0xab))}, tag+"/read", nt, "")
}

func (r *Runner) c12Key() []byte {
	if r.rng.Intn(3) == 0 {
		k := r.bytesN(65)
		k[0] = 4
		return k
	}
	k := r.bytesN(33)
	k[0] = byte(2 + r.rng.Intn(2))
	return k
}

func runC12(r *Runner) string {
	// ---- 1. pushes: every payload length 0..600, around 0xff and 0xffff, sampled up to 70000 ----
	lengths := []int{}
	for n := 0; n <= 600; n++ {
		lengths = append(lengths, n)
	}
	big := []int{0xffff - 1, 0xffff, 0xffff + 1}
	if r.thorough {
		big = []int{0xffff - 2, 0xffff - 1, 0xffff, 0xffff + 1, 0xffff + 2, 66000, 70000}
		for k := 0; k < 6; k++ {
			big = append(big, 601+r.rng.Intn(70000-601))
		}
	} else {
		big = append(big, 601+r.rng.Intn(70000-601))
	}
	for k := 0; k < r.N(6, 200); k++ {
		lengths = append(lengths, 601+r.rng.Intn(6000))
	}
	lengths = append(lengths, big...)
	for _, n := range lengths {
		reps := 1
		if n <= 300 || (n >= 250 && n <= 260) {
			reps = r.N(2, 20)
		}
		for k := 0; k < reps; k++ {
			d := r.c12Payload(n)
			nt := n > 75
			r.Do("push.data", []string{hx(d)}, "push.data", nt, fmt.Sprintf("payload of %d bytes", n))
			// the same payload in every encoding that can express it, complete and cut short
			forms := []int{}
			if n <= 75 {
				forms = append(forms, 0)
			}
			if n <= 0xff {
				forms = append(forms, 1)
			}
			if n <= 0xffff {
				forms = append(forms, 2)
			}
			if n <= 6000 || k == 0 {
				forms = append(forms, 4)
			}
			if n > 6000 {
				forms = forms[len(forms)-1:]
			}
			for _, f := range forms {
				enc := c12Push(f, d)
				r.Do("read.data", []string{hx(append(enc, r.bytesN(r.rng.Intn(3))...))}, "read.data/complete", f != 0, "")
				if n <= 700 {
					cut := r.rng.Intn(len(enc))
					r.Do("read.data", []string{hx(enc[:cut])}, "read.data/truncated", f != 0 && cut > 0, "")
					if len(enc) > 1 {
						r.Do("read.data", []string{hx(enc[:len(enc)-1])}, "read.data/truncated", f != 0, "")
					}
				}
			}
		}
	}
	// declared lengths far beyond the input, non-push first bytes, empty input
	for _, s := range [][]byte{{}, {0x4c}, {0x4d}, {0x4d, 1}, {0x4e}, {0x4e, 1, 0, 0}, {0x4e, 0xff, 0xff, 0xff, 0xff}, {0x4e, 0xff, 0xff, 0xff, 0x7f, 1, 2},
		{0x4d, 0xff, 0xff, 1}, {0x4c, 0xff, 1}, {0x4f}, {0x50}, {0x51}, {0xff}, {0x00}, {0x00, 0x01}, {0x4b}, {0x4c, 0}, {0x4d, 0, 0}, {0x4e, 0, 0, 0, 0}} {
		r.Do("read.data", []string{hx(s)}, "read.data/edge", len(s) > 1, "")
		r.Do("read.num", []string{hx(s)}, "read.num/edge", len(s) > 1, "")
	}
	for b := 0; b < 256; b++ {
		r.Do("read.data", []string{hx(append([]byte{byte(b)}, r.bytesN(r.rng.Intn(80))...))}, "read.data/firstbyte", b >= 0x4c && b <= 0x4e, "")
		r.Do("read.num", []string{hx(append([]byte{byte(b)}, r.bytesN(r.rng.Intn(12))...))}, "read.num/firstbyte", true, "")
	}

	// ---- 2. numbers ---------------------------------------------------------------------------
	if r.thorough {
		for n := int64(-(1 << 17)) - 2; n <= (1<<17)+2; n++ {
			r.c12Num(n, "num/small-exhaustive")
		}
	} else {
		for n := int64(-1100); n <= 1100; n++ {
			r.c12Num(n, "num/small-exhaustive")
		}
		for k := 0; k < 6000; k++ {
			r.c12Num(int64(r.rng.Intn(1<<18))-(1<<17), "num/small-sampled")
		}
		for _, c := range []int64{1 << 15, 1 << 16, 1 << 17, 32767, 65535, 131071} {
			for d := int64(-3); d <= 3; d++ {
				r.c12Num(c+d, "num/small-boundary")
				r.c12Num(-(c + d), "num/small-boundary")
			}
		}
	}
	for e := uint(0); e <= 63; e++ {
		for d := int64(-2); d <= 2; d++ {
			var p int64
			if e == 63 {
				p = math.MaxInt64 // 2^63 - 1; 2^63 itself is not an int64
				if d > 0 {
					continue
				}
			} else {
				p = int64(1) << e
			}
			r.c12Num(p+d, "num/pow2")
			r.c12Num(-(p + d), "num/pow2")
		}
	}
	for _, n := range []int64{math.MinInt64, math.MinInt64 + 1, math.MinInt64 + 2, math.MaxInt64, math.MaxInt64 - 1, -1, 0, 1, 16, 17, -2} {
		r.c12Num(n, "num/extreme")
	}
	for k := 0; k < r.N(6000, 100000); k++ {
		n := int64(r.rng.Uint64()) >> uint(r.rng.Intn(64))
		r.c12Num(n, "num/random")
	}
	// number strings: every length 0..11, minimal or padded, either sign bit, any push form
	for k := 0; k < r.N(10000, 200000); k++ {
		l := r.rng.Intn(12)
		d := r.bytesN(l)
		if l > 0 {
			switch r.rng.Intn(6) {
			case 0:
				d[l-1] = 0x00
			case 1:
				d[l-1] = 0x80
			case 2:
				d[l-1] &= 0x7f
			case 3:
				d[l-1] = []byte{0x01, 0x81, 0x7f, 0xff}[r.rng.Intn(4)]
			}
			if l >= 8 && r.rng.Intn(2) == 0 {
				d[7] = []byte{0x00, 0x7f, 0x80, 0xff, 0x01}[r.rng.Intn(5)]
				if r.rng.Intn(2) == 0 {
					for i := 0; i < 7; i++ {
						d[i] = []byte{0x00, 0xff}[r.rng.Intn(2)]
					}
				}
			}
		}
		form := []int{0, 0, 0, 1, 2, 4}[r.rng.Intn(6)]
		enc := c12Push(form, d)
		if r.rng.Intn(10) == 0 && len(enc) > 1 {
			enc = enc[:r.rng.Intn(len(enc))]
		} else {
			enc = append(enc, r.bytesN(r.rng.Intn(3))...)
		}
		r.Do("read.num", []string{hx(enc)}, "read.num/strings", l >= 2, "")
	}

	// ---- 3. scripts ---------------------------------------------------------------------------
	for k := 0; k < r.N(8000, 120000); k++ {
		s, n := r.c12Script(12)
		r.c12ScriptOps(s, "script/grammar", n >= 2)
		if len(s) > 0 && r.rng.Intn(3) == 0 {
			cut := r.rng.Intn(len(s))
			r.c12ScriptOps(s[:cut], "script/truncated", n >= 2 && cut > 1)
		}
		if len(s) > 0 && r.rng.Intn(4) == 0 {
			m := append([]byte{}, s...)
			m[r.rng.Intn(len(m))] = []byte{0xab, 0x4c, 0x4d, 0x4e, 0x00, 0x01, 0x4b}[r.rng.Intn(7)]
			r.c12ScriptOps(m, "script/mutated", n >= 2)
		}
	}
	for k := 0; k < r.N(5000, 60000); k++ {
		s := r.bytesN(r.rng.Intn(40))
		if r.rng.Intn(2) == 0 {
			for i := range s {
				if r.rng.Intn(3) == 0 {
					s[i] = []byte{0xab, 0x01, 0x02, 0x4c, 0x00, 0xac}[r.rng.Intn(6)]
				}
			}
		}
		r.c12ScriptOps(s, "script/random", len(s) >= 2)
	}
	// a few long scripts (many chunks / one huge push)
	for k := 0; k < r.N(4, 60); k++ {
		s, n := r.c12Script(400)
		r.c12ScriptOps(s, "script/long", n >= 2)
	}
	for k := 0; k < r.N(2000, 30000); k++ {
		s := r.c12PushOnly(8)
		r.Do("script.stackify", []string{hx(s)}, "stackify/push-only", len(s) > 2, "")
		if r.rng.Intn(3) == 0 {
			r.Do("witness.p2wsh", []string{hx(r.bytesN(r.rng.Intn(40))), hx(s)}, "witness.p2wsh", len(s) > 2, "")
		}
	}
	// D6 family: a non-minimal push followed by the separator
	for _, f := range []int{1, 2, 4} {
		for _, l := range []int{0, 1, 2, 33, 75} {
			d := r.c12Payload(l)
			s := append(append([]byte{0xab}, c12Push(f, d)...), 0xab, 0xac)
			r.c12ScriptOps(s, "script/non-minimal", true)
			r.Do("script.strip", []string{hx(s), "171"}, "script/non-minimal/strip", true, "")
		}
	}

	// ---- 4. templates -------------------------------------------------------------------------
	for _, kind := range c12Kinds {
		for k := 0; k < r.N(40, 2000); k++ {
			h := r.bytesN(c12HashLen(kind))
			if k < 4 {
				fill := []byte{0x00, 0xff, 0x14, 0x88}[k]
				for i := range h {
					h[i] = fill
				}
			}
			r.Do("tpl.make", []string{kind, hx(h)}, "tpl.make", true, "")
		}
		base := c12RefTemplate(kind, r.bytesN(c12HashLen(kind)))
		probe := func(s []byte, tag string) {
			hs := hx(s)
			for _, k2 := range c12Kinds {
				if k2 == kind || r.rng.Intn(4) == 0 {
					r.Do("tpl.is", []string{k2, hs}, tag+"/is", true, "")
					r.Do("tpl.decode", []string{k2, hs}, tag+"/decode", true, "")
				}
			}
			r.Do("tpl.classify", []string{hs}, tag+"/classify", true, "")
		}
		probe(base, "tpl/exact")
		// every position: every value (thorough) or neighbours + a few values (quick)
		for pos := 0; pos < len(base); pos++ {
			// neighbours, the sign bit, zero, a random value, and the edges of the small-integer opcodes (OP_1NEGATE,
			// OP_RESERVED, OP_1, OP_16, OP_NOP: a witness version is one of them)
			vals := []byte{base[pos] + 1, base[pos] - 1, base[pos] ^ 0x80, 0x00, byte(r.rng.Intn(256)), 0x4f, 0x50, 0x51, 0x52, 0x60, 0x61}
			if r.thorough {
				vals = vals[:0]
				for v := 0; v < 256; v++ {
					vals = append(vals, byte(v))
				}
			}
			for _, v := range vals {
				m := append([]byte{}, base...)
				m[pos] = v
				probe(m, "tpl/mutated")
			}
		}
		// lengths +-1 (and a little more) at either end
		probe(base[:len(base)-1], "tpl/length")
		probe(base[1:], "tpl/length")
		probe(append(append([]byte{}, base...), 0x00), "tpl/length")
		probe(append(append([]byte{}, base...), base[len(base)-1]), "tpl/length")
		probe(append([]byte{base[0]}, base...), "tpl/length")
		probe(base[:len(base)-2], "tpl/length")
		probe([]byte{}, "tpl/length")
		for k := 0; k < r.N(30, 1000); k++ {
			s := r.bytesN(len(base) - 1 + r.rng.Intn(3))
			copy(s, base[:r.rng.Intn(4)])
			probe(s, "tpl/random")
		}
		// the same opcodes and the same data, the data pushed in another way: OP_PUSHDATA1/2/4 instead of the direct
		// push (the template is a byte pattern, not a sequence of script elements)
		hl := c12HashLen(kind)
		for pos := 0; pos+1+hl <= len(base); pos++ {
			if int(base[pos]) != hl {
				continue
			}
			for _, pre := range [][]byte{{0x4c, byte(hl)}, {0x4d, byte(hl), 0}, {0x4e, byte(hl), 0, 0, 0}} {
				m := append(append(append([]byte{}, base[:pos]...), pre...), base[pos+1:]...)
				probe(m, "tpl/non-minimal-push")
			}
		}
		// the other kinds' scripts
		for _, k2 := range c12Kinds {
			probe(c12RefTemplate(k2, r.bytesN(c12HashLen(k2))), "tpl/cross")
		}
	}
	for k := 0; k < r.N(60, 2000); k++ {
		l := []int{0, 1, 32, 33, 34, 64, 65, 66, r.rng.Intn(100)}[r.rng.Intn(9)]
		d := r.bytesN(l)
		r.Do("tpl.makefrom", []string{c12Kinds[r.rng.Intn(4)], hx(d)}, "tpl.makefrom", true, "")
	}

	// ---- 5. multisig, OP_RETURN, unlocking data -------------------------------------------------
	for n := 1; n <= 20; n++ {
		for m := 1; m <= n; m++ {
			keys := make([][]byte, n)
			for i := range keys {
				keys[i] = r.c12Key()
			}
			r.Do("p2ms", []string{strconv.Itoa(m), c12ListStr(keys)}, "p2ms/valid", true, fmt.Sprintf("%d-of-%d", m, n))
		}
	}
	for k := 0; k < r.N(40, 1000); k++ {
		n := r.rng.Intn(24)
		keys := make([][]byte, n)
		for i := range keys {
			keys[i] = r.bytesN([]int{0, 1, 33, 65, 76, 80, 256, r.rng.Intn(300)}[r.rng.Intn(8)])
		}
		m := []uint64{0, 1, uint64(n), uint64(n) + 1, uint64(r.rng.Intn(25)), 0xffffffff, 0x80000000, 17}[r.rng.Intn(8)]
		r.Do("p2ms", []string{strconv.FormatUint(m, 10), c12ListStr(keys)}, "p2ms/any", true, "")
	}
	for n := 0; n <= 90; n++ {
		r.Do("opreturn", []string{hx(r.c12Payload(n))}, "opreturn", n > 75, "")
	}
	for k := 0; k < r.N(10, 300); k++ {
		r.Do("opreturn", []string{hx(r.bytesN(81 + r.rng.Intn(400)))}, "opreturn/too-long", true, "")
	}
	for k := 0; k < r.N(150, 5000); k++ {
		sig := r.bytesN([]int{0, 9, 70, 71, 72, 73, 75, 76, 80, r.rng.Intn(300)}[r.rng.Intn(10)])
		pk := r.c12Key()
		if r.rng.Intn(8) == 0 {
			pk = r.bytesN(r.rng.Intn(100))
		}
		r.Do("redeem.p2pkh", []string{hx(sig), hx(pk)}, "redeem.p2pkh", true, "")
		r.Do("witness.p2wpkh", []string{hx(sig), hx(pk)}, "witness.p2wpkh", true, "")
		s, _ := r.c12Script(6)
		r.Do("redeem.p2sh", []string{hx(s), hx(r.c12PushOnly(4))}, "redeem.p2sh", true, "")
		ns := r.rng.Intn(5)
		sigs := make([][]byte, ns)
		for i := range sigs {
			sigs[i] = r.bytesN([]int{0, 71, 72, 73, 76, r.rng.Intn(300)}[r.rng.Intn(6)])
		}
		r.Do("redeem.p2ms", []string{c12ListStr(sigs)}, "redeem.p2ms", ns > 0, "")
	}

	return "pushes: every payload length 0..600 (several contents each, 0xab and push-opcode look-alikes planted), " +
		"lengths around 0xff/0xffff and sampled up to 70000, each payload also read back in every push form that can express it " +
		"(direct/PUSHDATA1/2/4, complete, cut at a random point and one byte short); numbers: |n| <= 1100 exhaustively plus sampled |n| < 2^17 " +
		"(thorough: every |n| <= 2^17+2), +-2 around every power of two up to 2^63, INT64_MIN/MAX, random magnitudes of every bit length, " +
		"each pushed and read back, plus number strings of length 0..11 with either sign bit in every push form; scripts: sequences of up to 12 " +
		"(some up to 400) elements from a grammar of opcodes (0xab frequent) and pushes in minimal and non-minimal encodings, their truncations, " +
		"single-byte mutations and random strings, each decompiled and stripped of an opcode (0xab and others incl. push-range values); " +
		"templates: builder on random/constant hashes, recogniser/decoder/classifier on the exact script, every position mutated " +
		"(thorough: all 255 values), lengths +-1/+-2, other kinds' scripts; multisig for every 1 <= m <= n <= 20 and invalid m, OP_RETURN 0..90 bytes, " +
		"redeem/witness builders. Non-trivial = a push in a non-direct class, a number outside -1..16, a script with >= 2 elements, any template/multisig case; " +
		"distinct = distinct request line."
}
