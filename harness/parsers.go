package main

// C17: parsers of untrusted data never panic, hang or over-allocate.
//
// Every hostile input is evaluated by the real library inside a CHILD process (address-space limit,
// per-operation timeout, allocation measured with runtime.MemStats around the call), so that a
// fatal runtime error (stack exhaustion, out of memory) or a hang is attributed to the exact input
// instead of killing the run. The model side answers the same request; only panic / no panic is
// part of C17's relation, accept-versus-reject differences are recorded as drift.

import (
	"bufio"
	"bytes"
	"encoding/hex"
	"fmt"
	"io"
	"math/big"
	"net/http"
	"os"
	"os/exec"
	"runtime"
	"runtime/debug"
	"strconv"
	"strings"
	"syscall"
	"time"

	"github.com/kklash/bitcoinlib/address"
	"github.com/kklash/bitcoinlib/base58"
	"github.com/kklash/bitcoinlib/base58check"
	"github.com/kklash/bitcoinlib/bech32"
	"github.com/kklash/bitcoinlib/bip32"
	"github.com/kklash/bitcoinlib/bip38"
	"github.com/kklash/bitcoinlib/bip39"
	"github.com/kklash/bitcoinlib/blocks"
	"github.com/kklash/bitcoinlib/blockscan"
	"github.com/kklash/bitcoinlib/constants"
	"github.com/kklash/bitcoinlib/der"
	"github.com/kklash/bitcoinlib/ecc"
	"github.com/kklash/bitcoinlib/rpc"
	"github.com/kklash/bitcoinlib/script"
	"github.com/kklash/bitcoinlib/tx"
	"github.com/kklash/bitcoinlib/varint"
	"github.com/kklash/bitcoinlib/wif"
)

// allocation bound checked on the Go side for every call: a fixed constant plus a multiple of the
// input length. For the wire decoders these are the constants of the Lean theorems
// `cdecTx_alloc_le` / `cdecBlock_alloc_le` (Proofs/Alloc.lean); the theorem counts input-controlled
// allocations, the slack term covers the runtime's own small objects (readers, errors, big.Int).
const (
	allocConst   = 2181824 + 1<<20 // blockAllocConst + 1 MiB of runtime slack
	allocPerByte = 75 + 53         // 75 from the theorem; hex/base-conversion helpers of the text parsers
)

// BIP38 runs scrypt (N=16384, r=8: 16 MiB of working memory by definition of the format) once the
// framing is accepted; its fixed constant is therefore larger, still "a few tens of MiB"
const allocConstBip38 = 40 << 20

func allocBoundOp(op string, inputLen int) uint64 {
	k := uint64(allocConst)
	if op == "c17.bip38" {
		k = allocConstBip38
	}
	return k + uint64(allocPerByte)*uint64(inputLen)
}

type fixedTransport struct{ body []byte }

func (f fixedTransport) RoundTrip(req *http.Request) (*http.Response, error) {
	return &http.Response{StatusCode: 200, Body: io.NopCloser(bytes.NewReader(f.body)), Header: http.Header{}, Request: req}, nil
}

func init() {
	regRunner("C17", runC17)
	// two parsers without a Lean model of their own: the class is still checked on the Go side
	reg("c17.bip38", GoOnly, func(a []string) (string, []string) {
		_, _, err := bip38.Decrypt(strArg(a[0]), "pw")
		if err != nil {
			return "err", nil
		}
		return "ok", nil
	})
	reg("c17.rpcresponse", GoOnly, func(a []string) (string, []string) {
		old := http.DefaultClient.Transport
		http.DefaultClient.Transport = fixedTransport{unhx(a[0])}
		defer func() { http.DefaultClient.Transport = old }()
		conn, err := rpc.NewConnection("http://127.0.0.1:1/", "u", "p")
		if err != nil {
			return "bad-op", nil
		}
		if string(unhx(a[0])) == "Work queue depth exceeded" {
			return "err", nil // documented retry loop of the client, not a parser
		}
		if _, err := conn.Request("getblockcount"); err != nil {
			return "err", nil
		}
		return "ok", nil
	})
	reg("c17.rpcgetblock", GoOnly, func(a []string) (string, []string) {
		// the block-fetch glue on top of the RPC response (blockscan.GetBlockByHeight)
		return rpcGetBlock(unhx(a[0]))
	})
}

// ---------------------------------------------------------------------------------------------
// child side

func c17Child() {
	// 6 GiB of address space: a multi-gigabyte make() fails here instead of being satisfied lazily
	lim := syscall.Rlimit{Cur: 6 << 30, Max: 6 << 30}
	syscall.Setrlimit(syscall.RLIMIT_AS, &lim)
	debug.SetGCPercent(-1) // allocation figures without a concurrent collector; heap is small
	in := bufio.NewReaderSize(os.Stdin, 1<<20)
	out := bufio.NewWriter(os.Stdout)
	n := 0
	var m0, m1 runtime.MemStats
	for {
		line, err := in.ReadString('\n')
		line = strings.TrimRight(line, "\n")
		if line != "" {
			f := strings.Fields(line)
			runtime.ReadMemStats(&m0)
			ans, direct := eval(f[0], f[1:])
			runtime.ReadMemStats(&m1)
			fmt.Fprintf(out, "ANS %d %s", m1.TotalAlloc-m0.TotalAlloc, ans)
			for _, d := range direct {
				fmt.Fprintf(out, "\t%s", strings.ReplaceAll(d, "\t", " "))
			}
			out.WriteByte('\n')
			out.Flush()
			n++
			if n%2000 == 0 {
				debug.SetGCPercent(100)
				runtime.GC()
				debug.SetGCPercent(-1)
			}
		}
		if err != nil {
			return
		}
	}
}

// ---------------------------------------------------------------------------------------------
// parent side

type c17child struct {
	cmd *exec.Cmd
	in  io.WriteCloser
	out *bufio.Reader
}

func startC17Child() (*c17child, error) {
	self, _ := os.Executable()
	cmd := exec.Command(self)
	cmd.Env = append(os.Environ(), "VERIF_C17_CHILD=1")
	in, _ := cmd.StdinPipe()
	outp, _ := cmd.StdoutPipe()
	cmd.Stderr = io.Discard
	if err := cmd.Start(); err != nil {
		return nil, err
	}
	return &c17child{cmd, in, bufio.NewReaderSize(outp, 1<<20)}, nil
}

type c17ans struct {
	alloc  uint64
	ans    string
	direct []string
	err    string // "" | "crash" | "timeout"
}

func (c *c17child) ask(line string, timeout time.Duration) c17ans {
	if _, err := io.WriteString(c.in, line+"\n"); err != nil {
		return c17ans{err: "crash"}
	}
	ch := make(chan c17ans, 1)
	go func() {
		s, err := c.out.ReadString('\n')
		if err != nil {
			ch <- c17ans{err: "crash"}
			return
		}
		s = strings.TrimRight(s, "\n")
		parts := strings.Split(s, "\t")
		head := strings.SplitN(parts[0], " ", 3)
		if len(head) < 3 || head[0] != "ANS" {
			ch <- c17ans{err: "crash"}
			return
		}
		a, _ := strconv.ParseUint(head[1], 10, 64)
		ch <- c17ans{alloc: a, ans: head[2], direct: parts[1:]}
	}()
	select {
	case r := <-ch:
		return r
	case <-time.After(timeout):
		c.cmd.Process.Kill()
		return c17ans{err: "timeout"}
	}
}

func (c *c17child) stop() {
	c.in.Close()
	c.cmd.Process.Kill()
	c.cmd.Wait()
}

type c17runner struct {
	r        *Runner
	child    *c17child
	maxAlloc map[string]uint64
}

// do evaluates one hostile input in the child, applies the flake policy to runtime-dependent
// verdicts, and hands the case to the ordinary comparison with the model (NoPanic relation).
func (c *c17runner) do(op string, args []string, tag string, inputLen int, nontrivial bool) {
	if _, ok := ops[op]; !ok {
		c.r.res.Distribution["(op not built: "+op+")"]++
		return
	}
	line := op + " " + strings.Join(args, " ")
	ask := func() c17ans {
		if c.child == nil {
			ch, err := startC17Child()
			if err != nil {
				fmt.Fprintln(os.Stderr, "harness: cannot start the C17 child:", err)
				os.Exit(2)
			}
			c.child = ch
		}
		a := c.child.ask(line, 30*time.Second)
		if a.err != "" {
			c.child.stop()
			c.child = nil
		}
		return a
	}
	a := ask()
	var direct []string
	if a.err != "" {
		// re-run in isolation three times in fresh children before reporting (flake policy)
		rep := 0
		for k := 0; k < 3; k++ {
			if b := ask(); b.err != "" {
				rep++
			} else {
				a = b
			}
		}
		if rep == 3 {
			what := "the process died (fatal runtime error: stack exhaustion or out of memory)"
			if a.err == "timeout" {
				what = "no answer within 30 s (non-termination)"
			}
			c.r.Add(&Case{Op: op, Args: args, Go: "panic", Mode: GoOnly, Direct: []string{what}, NonTrivial: nontrivial, Tag: tag})
			return
		}
	}
	// the direct oracles carried by the reused ops belong to other properties (round trips on
	// canonical input, …) and are not part of C17's relation: only panic, crash, hang and allocation are
	if a.alloc > allocBoundOp(op, inputLen) {
		// confirm in a fresh child (a garbage collection or lazy initialisation may be charged to the first call)
		if b := ask(); b.err == "" && b.alloc > allocBoundOp(op, inputLen) {
			direct = append(direct, fmt.Sprintf("allocated %d bytes for an input of %d bytes (bound %d + %d per byte)", b.alloc, inputLen, allocConst, allocPerByte))
		}
	}
	if a.alloc > c.maxAlloc[op] {
		c.maxAlloc[op] = a.alloc
	}
	mode := NoPanic
	if ops[op].mode == GoOnly {
		mode = GoOnly
	}
	c.r.Add(&Case{Op: op, Args: args, Go: a.ans, Mode: mode, Direct: direct, NonTrivial: nontrivial, Tag: tag})
}

func strHex(s string) string { return hx([]byte(s)) }

// the boundary values of the property's quantifier, plus the library's own limits (taken from the
// exported constants, so they follow the source) and their neighbours: a length just inside a limit
// is accepted by the guard and must still not be allocated before the data arrives
var boundaryCounts = []uint64{0, 1, 0xfc, 0xfd, 0xffff, 1 << 31, 1<<32 - 1, 1 << 63, ^uint64(0),
	tx.WitnessMaximumSize, tx.WitnessMaximumSize - 1, tx.WitnessMaximumSize + 1, tx.WitnessMaximumSize / 2, tx.WitnessMaximumSize / 8,
	constants.BlockMaxSize, constants.BlockMaxSize + 1, constants.BlockMaxSize - 1,
	tx.InputsMaximumCount, tx.InputsMaximumCount + 1, tx.OutputsMaximumCount, tx.OutputsMaximumCount + 1,
	tx.WitnessChunkCountMaximum, tx.WitnessChunkCountMaximum + 1,
	constants.BlockMaxSize / tx.MinimumSizeNoWitness, constants.BlockMaxSize/tx.MinimumSizeNoWitness + 1}

func compactIn(width int, v uint64) []byte {
	switch width {
	case 1:
		return []byte{byte(v)}
	case 3:
		return []byte{0xfd, byte(v), byte(v >> 8)}
	case 5:
		return []byte{0xfe, byte(v), byte(v >> 8), byte(v >> 16), byte(v >> 24)}
	}
	b := []byte{0xff, 0, 0, 0, 0, 0, 0, 0, 0}
	for i := 0; i < 8; i++ {
		b[1+i] = byte(v >> (8 * uint(i)))
	}
	return b
}

// hostile derives structure-aware hostile inputs from a valid binary encoding.
func (c *c17runner) hostile(op string, pre []string, valid []byte, lengthOffsets []int, budget int) {
	rng := c.r.rng
	send := func(b []byte, tag string, nt bool) {
		c.do(op, append(append([]string{}, pre...), hx(b)), op+":"+tag, len(b), nt)
	}
	send(valid, "valid", true)
	if len(valid) > 8192 {
		// a large encoding (64 KiB scripts): every variant costs its full size on the line protocol
		budget = 4
		if len(lengthOffsets) > 3 {
			lengthOffsets = lengthOffsets[:3]
		}
	}
	// truncation and single-byte mutation at every offset (sampled when the encoding is long)
	step := 1
	if len(valid) > budget {
		step = len(valid)/budget + 1
	}
	for i := rng.Intn(step); i < len(valid); i += step {
		send(valid[:i], "truncated", i > 0)
		m := append([]byte{}, valid...)
		m[i] ^= byte(1 + rng.Intn(255))
		send(m, "mutated", true)
	}
	// every length / count field replaced by the boundary values, in every compact-size width
	for _, off := range lengthOffsets {
		if off >= len(valid) {
			continue
		}
		oldw := varint.VarInt(0).Size()
		switch valid[off] {
		case 0xfd:
			oldw = 3
		case 0xfe:
			oldw = 5
		case 0xff:
			oldw = 9
		}
		if off+oldw > len(valid) {
			continue
		}
		for _, v := range boundaryCounts {
			for _, w := range []int{1, 3, 5, 9} {
				if w == 1 && v > 0xfc || w == 3 && v > 0xffff || w == 5 && v > 0xffffffff {
					continue
				}
				m := append(append(append([]byte{}, valid[:off]...), compactIn(w, v)...), valid[off+oldw:]...)
				send(m, "length-field", true)
			}
		}
	}
}

// hostileText: the same for textual encodings (sent as hex of their bytes)
func (c *c17runner) hostileText(op string, pre []string, valid string, budget int) {
	rng := c.r.rng
	send := func(s string, tag string, nt bool) {
		c.do(op, append(append([]string{}, pre...), strHex(s)), op+":"+tag, len(s), nt)
	}
	send(valid, "valid", true)
	step := 1
	if len(valid) > budget {
		step = len(valid)/budget + 1
	}
	for i := rng.Intn(step); i < len(valid); i += step {
		send(valid[:i], "truncated", i > 0)
		b := []byte(valid)
		b[i] = byte(33 + rng.Intn(94))
		send(string(b), "mutated", true)
		send(valid[:i]+string(rune(33+rng.Intn(94)))+valid[i:], "inserted", true)
	}
	send(strings.ToUpper(valid), "upper", true)
	send(valid+valid, "doubled", true)
}

func runC17(r *Runner) string {
	c := &c17runner{r: r, maxAlloc: map[string]uint64{}}
	defer func() {
		if c.child != nil {
			c.child.stop()
		}
	}()
	rng := r.rng
	iters := r.N(16, 400)

	// corpus of this property is already run by main (in-process); rerun it contained as well
	for _, l := range readCorpus("/verif/corpus", "C17") {
		f := strings.Fields(l)
		c.do(f[0], f[1:], "corpus-contained", len(l)/2, true)
	}

	// ---- arbitrary byte strings 0..4096 for every binary parser, arbitrary text for every text parser
	binOps := [][]string{{"tx.dec"}, {"blk.dec"}, {"hdr.dec"}, {"in.dec"}, {"out.dec"}, {"wit.dec"}, {"varint.dec"},
		{"read.data"}, {"read.num"}, {"script.decompile"}, {"script.stackify"}, {"der.dec"}, {"point.dec"}, {"c17.rpcresponse"}, {"c17.rpcgetblock"}}
	for _, op := range binOps {
		for i := 0; i < r.N(120, 6000); i++ {
			n := rng.Intn(64)
			switch rng.Intn(6) {
			case 0:
				n = rng.Intn(4097)
			case 1:
				n = rng.Intn(300)
			}
			b := r.bytesN(n)
			if rng.Intn(3) == 0 && n > 8 {
				// bias the first bytes towards plausible headers so that parsing gets past the first field
				copy(b, []byte{1, 0, 0, 0, byte(rng.Intn(3)), byte(rng.Intn(3))})
			}
			c.do(op[0], []string{hx(b)}, op[0]+":random", n, n > 4)
		}
		c.do("script.strip", []string{hx(r.bytesN(rng.Intn(100))), "171"}, "script.strip:random", 100, true)
	}
	nets := []string{"btc", "tbtc", "ltc", "zec"}
	textOps := [][]string{{"b58.dec"}, {"b58c.dec"}, {"bech32.dec"}, {"wif.dec"}, {"xkey.deser"}, {"bip39.dec"}, {"c17.bip38"}, {"addr.dec", "NET"}}
	for _, op := range textOps {
		for i := 0; i < r.N(120, 6000); i++ {
			n := rng.Intn(120)
			if rng.Intn(8) == 0 {
				n = rng.Intn(4097)
			}
			b := make([]byte, n)
			alpha := "123456789ABCDEFGHJKLMNPQRSTUVWXYZabcdefghijkmnopqrstuvwxyz0OIl1qpzry9x8gf2tvdw0s3jn54khce6mua7l \t-"
			for j := range b {
				if rng.Intn(10) == 0 {
					b[j] = byte(rng.Intn(256))
				} else {
					b[j] = alpha[rng.Intn(len(alpha))]
				}
			}
			var pre []string
			if len(op) > 1 {
				pre = []string{nets[rng.Intn(len(nets))]}
			}
			c.do(op[0], append(pre, hx(b)), op[0]+":random", n, n > 4)
		}
	}

	// ---- very short inputs: every text decoder, every network, every length 0..6 (a few strings each), and
	// Base58Check strings with a VALID checksum over payloads of 0..6 bytes (they pass the checksum test that
	// stops random strings, and reach whatever looks at the payload next)
	for _, op := range textOps {
		for _, net := range nets {
			if len(op) == 1 && net != "btc" {
				continue
			}
			var pre []string
			if len(op) > 1 {
				pre = []string{net}
			}
			for n := 0; n <= 6; n++ {
				for k := 0; k < 3; k++ {
					var v string
					switch k {
					case 0:
						v = r.fromAlphabet("123456789ABCDEFGHJKLMNPQRSTUVWXYZabcdefghijkmnopqrstuvwxyz", n)
					case 1:
						v = r.fromAlphabet("bcltb1qpzry9x8", n)
					default:
						v = string(r.bytesN(n))
					}
					c.do(op[0], append(append([]string{}, pre...), strHex(v)), op[0]+":very-short", n, true)
				}
				payload := r.bytesN(n)
				if n > 0 && n%2 == 0 {
					payload[0] = 0
				}
				c.do(op[0], append(append([]string{}, pre...), strHex(base58check.Encode(payload))), op[0]+":short-checked-payload", n, true)
			}
		}
	}

	// ---- structure-aware hostile inputs derived from valid encodings
	for it := 0; it < iters; it++ {
		t, _ := r.genTx(3, 3)
		enc := t.Bytes()
		// offsets of the count / length fields of a transaction: found by re-walking the encoding
		c.hostile("tx.dec", nil, enc, txLengthOffsets(enc), r.N(40, 400))
		blk := &blocks.Block{Header: r.genHeader()}
		for j := 0; j <= rng.Intn(3); j++ {
			tt, _ := r.genTx(2, 2)
			blk.Transactions = append(blk.Transactions, tt)
		}
		benc := blk.Bytes()
		c.hostile("blk.dec", nil, benc, append([]int{80}, shift(txLengthOffsets(benc[81:]), 81)...), r.N(30, 300))
		c.hostile("hdr.dec", nil, blk.Header.Bytes(), nil, 20)
		c.hostile("in.dec", nil, t.Inputs[0].Bytes(), []int{36}, 20)
		if len(t.Outputs) > 0 {
			c.hostile("out.dec", nil, t.Outputs[0].Bytes(), []int{8}, 20)
		}
		w := make([][]byte, 1+rng.Intn(3))
		for j := range w {
			w[j] = r.bytesN(rng.Intn(5))
		}
		wenc := witnessBytes(w)
		c.hostile("wit.dec", nil, wenc, []int{0, 1}, 20)
		c.hostile("varint.dec", nil, varint.VarInt(rng.Uint64()>>uint(rng.Intn(64))).Bytes(), []int{0}, 9)
		for _, e := range [][]byte{{0xfd, 1}, {0xfe, 1, 2, 3}, {0xff, 1, 2, 3, 4, 5, 6, 7}, {0xfd}, {0xfe}, {0xff}, {0xfd, 1, 2}, {0xfe, 1, 2, 3, 4}} {
			c.do("varint.dec", []string{hx(e)}, "varint.dec:cut-by-one", len(e), true)
		}

		data := r.bytesN([]int{0, 1, 75, 76, 255, 256, 300}[rng.Intn(7)])
		c.hostile("read.data", nil, script.PushData(data), nil, 20)
		for _, n := range []uint32{0xffffffff, 0x80000000, 0x7fffffff, 0x10000000} {
			c.do("read.data", []string{hx([]byte{0x4e, byte(n), byte(n >> 8), byte(n >> 16), byte(n >> 24)})}, "read.data:pushdata4-length", 5, true)
			c.do("script.decompile", []string{hx([]byte{0x4e, byte(n), byte(n >> 8), byte(n >> 16), byte(n >> 24), 1, 2})}, "script.decompile:pushdata4-length", 7, true)
		}
		c.hostile("read.num", nil, script.PushNumber(int64(rng.Uint64())), nil, 10)
		sc, _, _ := r.genScriptCode()
		c.hostile("script.decompile", nil, sc, nil, 20)
		c.hostile("script.stackify", nil, sc, nil, 20)
		c.do("script.strip", []string{hx(sc), "171"}, "script.strip:grammar", len(sc), true)

		rr, ss := new(big.Int).SetBytes(r.bytesN(1+rng.Intn(32))), new(big.Int).SetBytes(r.bytesN(1+rng.Intn(32)))
		if sig, err := der.EncodeSignature(rr, ss, 1); err == nil {
			c.hostile("der.dec", nil, sig, nil, 80)
		}
		key := r.bytesN(32)
		key[0] &= 0x7f
		key[31] |= 1
		c.hostile("point.dec", nil, ecc.GetPublicKeyCompressed(key), nil, 33)
		c.hostile("point.dec", nil, ecc.GetPublicKeyUncompressed(key), nil, 33)
		c.hostile("point.dec", nil, ecc.GetPublicKeySchnorr(key), nil, 16)

		c.hostileText("b58.dec", nil, base58.Encode(r.bytesN(rng.Intn(40))), 30)
		c.hostileText("b58c.dec", nil, base58check.Encode(r.bytesN(rng.Intn(40))), 30)
		if s, err := bech32.Encode("bc", byte(rng.Intn(2)), r.bytesN(20+12*rng.Intn(2))); err == nil {
			c.hostileText("bech32.dec", nil, s, 40)
			c.hostileText("addr.dec", []string{"btc"}, s, 40)
		}
		// valid checksums over very short data parts: none, a version alone, a version and one group
		for _, hrp := range []string{"a", "bc", "tb", "ltc", "A"}[it%5 : it%5+1] {
			for n := 0; n <= 2; n++ {
				d5 := make([]byte, n)
				for i := range d5 {
					d5[i] = byte(rng.Intn(32))
				}
				s := hBechEncodeRaw(strings.ToLower(hrp), d5)
				if hrp == "A" {
					s = strings.ToUpper(s)
				}
				c.do("bech32.dec", []string{sx(s)}, "bech32.dec:short-data-part", len(s), true)
				c.do("addr.dec", []string{"btc", sx(s)}, "addr.dec:short-data-part", len(s), true)
			}
		}
		var h20 [20]byte
		copy(h20[:], r.bytesN(20))
		constants.CurrentNetwork = constants.BitcoinNetwork
		c.hostileText("addr.dec", []string{"btc"}, address.MakeP2PKHFromHash(h20), 30)
		if s, err := wif.Encode(key, 128); err == nil {
			c.hostileText("wif.dec", nil, s, 30)
		}
		xk := bip32.SerializePublic(ecc.GetPublicKeyCompressed(key), r.bytesN(32), r.bytesN(4), byte(rng.Intn(4)), rng.Uint32(), constants.BitcoinNetwork.ExtendedPublic)
		c.hostileText("xkey.deser", nil, xk, 40)
		xp := bip32.SerializePrivate(key, r.bytesN(32), r.bytesN(4), byte(rng.Intn(4)), rng.Uint32(), constants.BitcoinNetwork.ExtendedPrivate)
		c.hostileText("xkey.deser", nil, xp, 40)
		if words, err := bip39.EncodeToWords(r.bytesN(16 + 4*rng.Intn(5))); err == nil {
			c.hostileText("bip39.dec", nil, strings.Join(words, " "), 40)
		}
		// BIP38 framing: every prefix / flag byte mutation of a well-formed payload (checksummed, so that
		// the decoder reaches the framing checks); scrypt makes accepted frames expensive, keep it small
		if it < r.N(2, 12) {
			payload := append([]byte{0x01, 0x42, 0xc0}, r.bytesN(36)...)
			for _, pos := range []int{0, 1, 2} {
				for _, v := range []byte{0x00, 0x01, 0x42, 0x43, 0xc0, 0xe0, 0x04, 0x24, 0xff} {
					m := append([]byte{}, payload...)
					m[pos] = v
					c.do("c17.bip38", []string{strHex(base58check.Encode(m))}, "c17.bip38:framing", len(m), true)
				}
			}
			for _, n := range []int{0, 1, 38, 40, 43, 44, 80} {
				c.do("c17.bip38", []string{strHex(base58check.Encode(r.bytesN(n)))}, "c17.bip38:length", n, true)
			}
		}
		// a batch of well-framed EC-multiplied strings with pairwise distinct owner entropy (what a paper-wallet
		// printer's output looks like to Decrypt): each costs one scrypt; 36 of them, once per run
		if it == 0 {
			for j := 0; j < 36; j++ {
				m := append([]byte{0x01, 0x43, []byte{0x20, 0x00, 0x24, 0x04}[j%4]}, r.bytesN(36)...)
				c.do("c17.bip38", []string{strHex(base58check.Encode(m))}, "c17.bip38:batch of distinct ec-multiplied strings", len(m), true)
			}
		}
		// RPC response bodies: JSON values of every shape where a string / object is expected
		for _, body := range []string{`null`, `{}`, `[]`, `1`, `"x"`, `true`, `{"result":null,"error":null}`, `{"result":5,"error":null}`,
			`{"result":{"a":1},"error":null}`, `{"result":[1,2],"error":null}`, `{"result":"00","error":null}`, `{"result":"zz","error":null}`,
			`{"error":{"code":-1,"message":"x"}}`, `{"error":"boom"}`, `{"error":5}`, `{"result":"` + strings.Repeat("00", rng.Intn(200)) + `","error":null}`,
			`{"result":`, ``, `{"result":"` + hex.EncodeToString(benc) + `","error":null}`, `{"result":"` + hex.EncodeToString(benc[:len(benc)/2]) + `","error":null}`} {
			c.do("c17.rpcresponse", []string{strHex(body)}, "c17.rpcresponse:shapes", len(body), true)
			c.do("c17.rpcgetblock", []string{strHex(body)}, "c17.rpcgetblock:shapes", len(body), true)
		}
	}
	for op, m := range c.maxAlloc {
		r.res.Notes = append(r.res.Notes, fmt.Sprintf("largest allocation observed for %s: %d bytes", op, m))
	}
	return "for each parser (tx, block, header, input, output, witness, compact size, ReadData, ReadNumber, Decompile, Stackify, StripOpCode, DER, public keys, Base58, Base58Check, Bech32, address, WIF, extended key, mnemonic, BIP38 framing, RPC response and block-fetch glue): arbitrary strings of length 0..4096, and structure-aware hostile inputs derived from valid encodings by truncation and single-byte mutation at every (sampled) offset and substitution of every length/count field with 0, 1, 0xfc, 0xfd, 0xffff, 2^31, 2^32-1, 2^63, 2^64-1 in every compact-size width; decoded objects are passed to Size/Bytes/Hash/Id/weight inside the same call. Each input runs in a contained child process (address-space limit, 30 s timeout, TotalAlloc measured around the call and compared with the bound " + fmt.Sprint(allocConst) + " + " + fmt.Sprint(allocPerByte) + "*len). Non-trivial: inputs longer than 4 bytes / derived from a valid encoding; distinct = distinct request line."
}

func shift(xs []int, d int) []int {
	out := make([]int, len(xs))
	for i, x := range xs {
		out[i] = x + d
	}
	return out
}

func witnessBytes(w [][]byte) []byte {
	b := varint.VarInt(len(w)).Bytes()
	for _, c := range w {
		b = append(b, varint.VarInt(len(c)).Bytes()...)
		b = append(b, c...)
	}
	return b
}

// txLengthOffsets walks a valid transaction encoding and returns the offsets of its compact sizes.
func txLengthOffsets(b []byte) []int {
	var offs []int
	pos := 4
	if pos+2 <= len(b) && b[pos] == 0 && b[pos+1] == 1 {
		pos += 2
		defer func() {}()
	}
	segwit := pos == 6
	rd := func() (uint64, bool) {
		if pos >= len(b) {
			return 0, false
		}
		v, err := varint.FromReader(bytes.NewReader(b[pos:]))
		if err != nil {
			return 0, false
		}
		offs = append(offs, pos)
		pos += v.Size()
		return uint64(v), true
	}
	nIn, ok := rd()
	if !ok {
		return offs
	}
	for i := uint64(0); i < nIn; i++ {
		pos += 36
		n, ok := rd()
		if !ok {
			return offs
		}
		pos += int(n) + 4
	}
	nOut, ok := rd()
	if !ok {
		return offs
	}
	for i := uint64(0); i < nOut; i++ {
		pos += 8
		n, ok := rd()
		if !ok {
			return offs
		}
		pos += int(n)
	}
	if segwit {
		for i := uint64(0); i < nIn; i++ {
			k, ok := rd()
			if !ok {
				return offs
			}
			for j := uint64(0); j < k; j++ {
				n, ok := rd()
				if !ok {
					return offs
				}
				pos += int(n)
			}
		}
	}
	return offs
}

func rpcGetBlock(body []byte) (string, []string) {
	old := http.DefaultClient.Transport
	http.DefaultClient.Transport = fixedTransport{body}
	defer func() { http.DefaultClient.Transport = old }()
	conn, err := rpc.NewConnection("http://127.0.0.1:1/", "u", "p")
	if err != nil {
		return "bad-op", nil
	}
	if string(body) == "Work queue depth exceeded" {
		return "err", nil
	}
	if _, err := blockscan.NewBlockScanner(conn).GetBlockByHeight(1); err != nil {
		return "err", nil
	}
	return "ok", nil
}
