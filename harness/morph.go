package main

// Objects edited in place.
//
// The library's value types (tx.Tx, tx.Input, tx.Output, tx.PrevOut, blocks.Block,
// blockheader.BlockHeader, script.MastLeaf) are plain structs with exported fields, and callers
// build and edit them field by field (set a sequence number, replace a script, re-sign). Every
// method that derives something from an object (Bytes, Size, Hash, Id, WeightUnits, the signature
// hashes, TargetNBits, a leaf hash …) is specified as a function of the CURRENT field values. A
// change that memoises a derived value inside the object, or keys a package-level cache on the
// object's or a field's address, is invisible to checks that parse a fresh object for every case.
//
// obj.edit parses A, calls every derived method once (so that anything memoised is populated),
// edits the object IN PLACE through its exported fields only until it equals B — nested objects and
// byte slices are reused where they exist, so unexported fields and addresses survive — and compares
// every derived value with those of a freshly parsed B. Methods are enumerated by reflection, so a
// method added later is covered without touching this file.

import (
	"bytes"
	"fmt"
	"io"
	"math/big"
	"reflect"
	"sort"
	"strings"

	"github.com/kklash/bitcoinlib/blocks"
	"github.com/kklash/bitcoinlib/ecc"
	"github.com/kklash/bitcoinlib/script"
	"github.com/kklash/bitcoinlib/tx"
)

func morphValue(dst, src reflect.Value) {
	switch dst.Kind() {
	case reflect.Ptr:
		if dst.IsNil() || src.IsNil() || dst.Elem().Kind() != reflect.Struct {
			dst.Set(src)
			return
		}
		morphValue(dst.Elem(), src.Elem())
	case reflect.Struct:
		for i := 0; i < dst.NumField(); i++ {
			if dst.Type().Field(i).IsExported() {
				morphValue(dst.Field(i), src.Field(i))
			}
		}
	case reflect.Slice:
		if src.IsNil() {
			dst.Set(src)
			return
		}
		n := src.Len()
		if !dst.IsNil() && dst.Cap() >= n {
			dst.SetLen(n)
		} else {
			nd := reflect.MakeSlice(dst.Type(), n, n)
			reflect.Copy(nd, dst)
			dst.Set(nd)
		}
		if dst.Type().Elem().Kind() == reflect.Uint8 {
			reflect.Copy(dst, src)
			return
		}
		for i := 0; i < n; i++ {
			morphValue(dst.Index(i), src.Index(i))
		}
	default:
		dst.Set(src)
	}
}

var (
	tWriter = reflect.TypeOf((*io.Writer)(nil)).Elem()
	tError  = reflect.TypeOf((*error)(nil)).Elem()
	tBytes  = reflect.TypeOf([]byte(nil))
)

func renderValue(v reflect.Value) string {
	if v.Type().Implements(tError) {
		if v.IsNil() {
			return "nil"
		}
		return "err"
	}
	switch x := v.Interface().(type) {
	case []byte:
		return fmt.Sprintf("%x", x)
	case *big.Int:
		if x == nil {
			return "<nil>"
		}
		return x.String()
	}
	switch v.Kind() {
	case reflect.Array, reflect.Slice:
		if v.Type().Elem().Kind() == reflect.Uint8 {
			b := make([]byte, v.Len())
			for i := range b {
				b[i] = byte(v.Index(i).Uint())
			}
			return fmt.Sprintf("%x", b)
		}
	case reflect.Ptr, reflect.Map, reflect.Chan, reflect.Func, reflect.UnsafePointer:
		return "<ref>"
	}
	return fmt.Sprint(v.Interface())
}

// deriveAll calls every exported method of the object (and, recursively, of the objects it holds)
// whose arguments it knows how to supply and returns "path.Method(args)" -> rendered results.
func deriveAll(path string, v reflect.Value, out map[string]string, depth int) {
	if depth > 4 || !v.IsValid() {
		return
	}
	if v.Kind() == reflect.Ptr && !v.IsNil() && v.Elem().Kind() == reflect.Struct {
		t := v.Type()
		for i := 0; i < t.NumMethod(); i++ {
			m := t.Method(i)
			if m.Name == "Clone" || m.Name == "String" {
				continue
			}
			for _, call := range methodCalls(m, v) {
				func() {
					defer func() {
						if e := recover(); e != nil {
							out[path+"."+call.label] = "panic"
						}
					}()
					res := v.Method(i).Call(call.args)
					parts := make([]string, 0, len(res)+1)
					for _, r := range res {
						parts = append(parts, renderValue(r))
					}
					if call.buf != nil {
						parts = append(parts, fmt.Sprintf("written=%x", call.buf.Bytes()))
					}
					out[path+"."+call.label] = strings.Join(parts, ",")
				}()
			}
		}
		s := v.Elem()
		for i := 0; i < s.NumField(); i++ {
			if !s.Type().Field(i).IsExported() {
				continue
			}
			f := s.Field(i)
			name := path + "." + s.Type().Field(i).Name
			switch f.Kind() {
			case reflect.Ptr:
				deriveAll(name, f, out, depth+1)
			case reflect.Slice:
				if f.Type().Elem().Kind() == reflect.Ptr {
					for j := 0; j < f.Len() && j < 6; j++ {
						deriveAll(fmt.Sprintf("%s[%d]", name, j), f.Index(j), out, depth+1)
					}
				}
			}
		}
	}
}

type methodCall struct {
	label string
	args  []reflect.Value
	buf   *bytes.Buffer
}

func methodCalls(m reflect.Method, recv reflect.Value) []methodCall {
	mt := m.Type // includes the receiver as In(0)
	n := mt.NumIn() - 1
	switch {
	case n == 0:
		return []methodCall{{label: m.Name + "()"}}
	case n == 1 && mt.In(1).Kind() == reflect.Bool:
		return []methodCall{
			{label: m.Name + "(false)", args: []reflect.Value{reflect.ValueOf(false)}},
			{label: m.Name + "(true)", args: []reflect.Value{reflect.ValueOf(true)}},
		}
	case n == 1 && mt.In(1) == tWriter:
		b := new(bytes.Buffer)
		return []methodCall{{label: m.Name + "(w)", args: []reflect.Value{reflect.ValueOf(b).Convert(tWriter)}, buf: b}}
	case (n == 3 || n == 4) && mt.In(1).Kind() == reflect.Int && mt.In(2) == tBytes && mt.In(3).Kind() == reflect.Uint32:
		// the signature hashes: (nInput, script code, hash type[, amount])
		nIn := 1
		if t, ok := recv.Interface().(*tx.Tx); ok {
			nIn = len(t.Inputs)
		}
		var calls []methodCall
		for _, idx := range []int{0, nIn - 1} {
			for _, ht := range []uint32{1, 3, 0x82} {
				args := []reflect.Value{reflect.ValueOf(idx), reflect.ValueOf([]byte{0x76, 0xa9, 0x51}), reflect.ValueOf(ht)}
				if n == 4 {
					args = append(args, reflect.ValueOf(uint64(123456)).Convert(mt.In(4)))
				}
				calls = append(calls, methodCall{label: fmt.Sprintf("%s(%d,76a951,%#x)", m.Name, idx, ht), args: args})
			}
		}
		return calls
	}
	return nil
}

func diffDerived(got, want map[string]string) []string {
	var keys []string
	for k := range want {
		keys = append(keys, k)
	}
	sort.Strings(keys)
	var out []string
	for _, k := range keys {
		if got[k] != want[k] {
			out = append(out, fmt.Sprintf("%s = %s, a freshly built equal object gives %s", k, truncate(got[k], 100), truncate(want[k], 100)))
		}
	}
	for k := range got {
		if _, ok := want[k]; !ok {
			out = append(out, k+" exists only on the edited object")
		}
	}
	return out
}

func parseObj(kind string, raw []byte) (interface{}, bool) {
	switch kind {
	case "tx":
		t, err := tx.FromBytes(raw)
		return t, err == nil
	case "block":
		b, err := blocks.FromReader(bytes.NewReader(raw))
		return b, err == nil
	}
	return nil, false
}

func init() {
	reg("obj.edit", GoOnly, func(a []string) (string, []string) {
		if len(a) != 3 {
			return "bad-op", nil
		}
		rawA, rawB := unhx(a[1]), unhx(a[2])
		objA, ok1 := parseObj(a[0], rawA)
		objB, ok2 := parseObj(a[0], rawB)
		fresh, ok3 := parseObj(a[0], rawB)
		if !ok1 || !ok2 || !ok3 {
			return "err", nil
		}
		var direct []string
		first := map[string]string{}
		deriveAll("x", reflect.ValueOf(objA), first, 0)
		again := map[string]string{}
		deriveAll("x", reflect.ValueOf(objA), again, 0)
		for _, d := range diffDerived(again, first) {
			direct = append(direct, "calling the same methods of one object twice gives different results: "+d)
		}
		morphValue(reflect.ValueOf(objA), reflect.ValueOf(objB))
		got, want := map[string]string{}, map[string]string{}
		deriveAll("x", reflect.ValueOf(objA), got, 0)
		deriveAll("x", reflect.ValueOf(fresh), want, 0)
		ds := diffDerived(got, want)
		if len(ds) > 4 {
			ds = ds[:4]
		}
		for _, d := range ds {
			direct = append(direct, "an object edited in place through its exported fields (after its methods had been called) until it equals another one: "+d)
		}
		return fmt.Sprintf("ok %d", len(want)), direct
	})

	// script.MastLeaf: hash, edit, hash; by-value copies; the enclosing P2TR output
	reg("obj.leaf.edit", GoOnly, func(a []string) (string, []string) {
		if len(a) != 5 {
			return "bad-op", nil
		}
		v1, s1, v2, s2, pk := unhx(a[0]), unhx(a[1]), unhx(a[2]), unhx(a[3]), unhx(a[4])
		if len(v1) != 1 || len(v2) != 1 {
			return "bad-op", nil
		}
		var direct []string
		leaf := &script.MastLeaf{Version: v1[0], Script: append([]byte{}, s1...)}
		other := &script.MastLeaf{Version: 0xc0, Script: []byte{0x51}}
		chk := func(stage string, l *script.MastLeaf, v byte, s []byte) {
			h := l.Hash()
			if want := refLeafHash(v, s); !bytes.Equal(h[:], want) {
				direct = append(direct, fmt.Sprintf("leaf hash %s: %x, BIP341 tagged hash of the leaf's current version and script is %x", stage, h, want))
			}
			out, err := script.MakeP2TR(pk, script.MastBranch{l, other})
			ref, err2 := script.MakeP2TR(pk, script.MastBranch{&script.MastLeaf{Version: v, Script: append([]byte{}, s...)}, other})
			if (err == nil) != (err2 == nil) || !bytes.Equal(out, ref) {
				direct = append(direct, fmt.Sprintf("P2TR output over a tree containing the leaf %s: %x, over a freshly built equal tree: %x", stage, out, ref))
			}
		}
		chk("as built", leaf, v1[0], s1)
		leaf.Version = v2[0]
		chk("after its Version was edited", leaf, v2[0], s1)
		leaf.Script = append([]byte{}, s2...)
		chk("after its Script was replaced", leaf, v2[0], s2)
		if len(leaf.Script) > 0 {
			leaf.Script[0] ^= 0x01
			e := append([]byte{}, s2...)
			e[0] ^= 0x01
			chk("after a byte of its Script was edited in place", leaf, v2[0], e)
			leaf.Script[0] ^= 0x01
		}
		cp := *leaf
		cp.Version, cp.Script = v1[0], append([]byte{}, s1...)
		chk("copied by value and edited", &cp, v1[0], s1)
		chk("after a copy of it was edited", leaf, v2[0], s2)
		return "ok", direct
	})

	genBlockBytes := func(r *Runner, maxTx int) []byte {
		b := &blocks.Block{Header: r.genHeader()}
		for i, n := 0, 1+r.rng.Intn(maxTx); i < n; i++ {
			t, _ := r.genTx(2, 2)
			b.Transactions = append(b.Transactions, t)
		}
		return b.Bytes()
	}
	txPair := func(r *Runner) (string, string) {
		a, _ := r.genTx(3, 3)
		b, _ := r.genTx(3, 3)
		return hx(a.Bytes()), hx(b.Bytes())
	}
	for _, p := range []string{"C01", "C02", "C03"} {
		regExtra(p, func(r *Runner) {
			for i := 0; i < r.N(120, 3000); i++ {
				a, b := txPair(r)
				r.Do("obj.edit", []string{"tx", a, b}, "object-edited-in-place", true, "")
			}
		})
	}
	for _, p := range []string{"C01", "C02"} {
		regExtra(p, func(r *Runner) {
			for i := 0; i < r.N(30, 600); i++ {
				a, b := genBlockBytes(r, 3), genBlockBytes(r, 3)
				r.Do("obj.edit", []string{"block", hx(a), hx(b)}, "object-edited-in-place", true, "")
			}
		})
	}
	regExtra("C13", func(r *Runner) {
		for i := 0; i < r.N(150, 3000); i++ {
			vs := []byte{0xc0, 0xc0, 0xc2, 0xfe, byte(r.rng.Intn(256)) &^ 1}
			s1, s2 := r.bytesN(r.rng.Intn(40)), r.bytesN(1+r.rng.Intn(300))
			pk := ecc.GetPublicKeySchnorr(r.scalar(0))
			r.Do("obj.leaf.edit", []string{hx([]byte{vs[r.rng.Intn(5)]}), hx(s1), hx([]byte{vs[r.rng.Intn(5)]}), hx(s2), hx(pk)}, "leaf-edited-in-place", true, "")
		}
	})
}

// Size-preserving edits. A cache whose staleness test looks at the size (or at nothing) survives
// edits that keep every length: a changed output value, sequence number, lock time, outpoint index,
// version, or one byte of a script. After each such edit of an object whose methods have all been
// called, every derived value must equal that of a fresh object built from the same bytes and given
// the same edit before any of its methods ran.
func init() {
	type edit struct {
		name string
		do   func(t *tx.Tx) bool
	}
	edits := []edit{
		{"an output value", func(t *tx.Tx) bool {
			if len(t.Outputs) == 0 {
				return false
			}
			t.Outputs[len(t.Outputs)-1].Value ^= 0x5555
			return true
		}},
		{"a sequence number", func(t *tx.Tx) bool { t.Inputs[0].Sequence ^= 1; return true }},
		{"the lock time", func(t *tx.Tx) bool { t.Locktime += 7; return true }},
		{"an outpoint index", func(t *tx.Tx) bool { t.Inputs[len(t.Inputs)-1].PrevOut.Index ^= 2; return true }},
		{"an outpoint hash byte", func(t *tx.Tx) bool { t.Inputs[0].PrevOut.Hash[5] ^= 0x10; return true }},
		{"the version", func(t *tx.Tx) bool { t.Version ^= 3; return true }},
		{"one byte of an input script", func(t *tx.Tx) bool {
			for _, in := range t.Inputs {
				if len(in.Script) > 0 {
					in.Script[len(in.Script)-1] ^= 0x01
					return true
				}
			}
			return false
		}},
		{"one byte of a witness item", func(t *tx.Tx) bool {
			for _, w := range t.Witnesses {
				for _, it := range w {
					if len(it) > 0 {
						it[0] ^= 0x80
						return true
					}
				}
			}
			return false
		}},
	}
	reg("obj.edit.samesize", GoOnly, func(a []string) (string, []string) {
		raw := unhx(a[0])
		t, err := tx.FromBytes(raw)
		if err != nil || len(t.Inputs) == 0 {
			return "err", nil
		}
		var direct []string
		applied := 0
		for k, e := range edits {
			warm := map[string]string{}
			deriveAll("x", reflect.ValueOf(t), warm, 0) // populate whatever is memoised
			if !e.do(t) {
				continue
			}
			applied++
			fresh, err := tx.FromBytes(raw)
			if err != nil {
				return "err", nil
			}
			for _, prior := range edits[:k+1] { // the fresh object gets every edit so far, before any method runs
				prior.do(fresh)
			}
			got, want := map[string]string{}, map[string]string{}
			deriveAll("x", reflect.ValueOf(t), got, 0)
			deriveAll("x", reflect.ValueOf(fresh), want, 0)
			ds := diffDerived(got, want)
			if len(ds) > 2 {
				ds = ds[:2]
			}
			for _, d := range ds {
				direct = append(direct, "after "+e.name+" of an object was edited in place (all lengths unchanged): "+d)
			}
			if len(direct) > 4 {
				break
			}
			// also through a clone taken after the edit
			c := t.Clone()
			gc := map[string]string{}
			deriveAll("x", reflect.ValueOf(c), gc, 0)
			if ds := diffDerived(gc, want); len(ds) > 0 {
				direct = append(direct, "Clone() of an object after "+e.name+" was edited in place: "+ds[0])
			}
		}
		return fmt.Sprintf("ok %d", applied), direct
	})
	for _, p := range []string{"C01", "C02", "C03"} {
		regExtra(p, func(r *Runner) {
			for i := 0; i < r.N(60, 1500); i++ {
				t, _ := r.genTx(3, 3)
				r.Do("obj.edit.samesize", []string{hx(t.Bytes())}, "object-edited-in-place-same-size", true, "")
			}
		})
	}
}
