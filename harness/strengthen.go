package main

// Additional generators added after the first round of independently seeded changes
// (DESIGN.md part II, "what the seeded changes taught"): inputs, histories and readers that the
// first generators did not reach. They run after the owning property's generator.

import (
	"bytes"
	"crypto/hmac"
	"crypto/sha256"
	"crypto/sha512"
	"encoding/json"
	"errors"
	"fmt"
	"io"
	"math/big"
	"net/http"
	"runtime"
	"strconv"
	"strings"
	"sync"

	"github.com/kklash/bitcoinlib/base58"
	"github.com/kklash/bitcoinlib/base58check"
	"github.com/kklash/bitcoinlib/bech32"
	"github.com/kklash/bitcoinlib/bip32"
	"github.com/kklash/bitcoinlib/bip38"
	"github.com/kklash/bitcoinlib/bip39"
	"github.com/kklash/bitcoinlib/blocks"
	"github.com/kklash/bitcoinlib/blocks/blockheader"
	"github.com/kklash/bitcoinlib/ecc"
	"github.com/kklash/bitcoinlib/rpc"
	"github.com/kklash/bitcoinlib/script"
	"github.com/kklash/bitcoinlib/taproot"
	"github.com/kklash/bitcoinlib/tx"
	"github.com/kklash/bitcoinlib/varint"
	"github.com/kklash/bitcoinlib/wif"
	"github.com/kklash/ekliptic"
	"golang.org/x/crypto/scrypt"
)

var extraGens = map[string][]func(*Runner){}

func regExtra(prop string, f func(*Runner)) { extraGens[prop] = append(extraGens[prop], f) }

// sqrtModP returns a square root of c modulo p (p ≡ 3 mod 4), or nil.
func sqrtModP(c *big.Int) *big.Int {
	e := new(big.Int).Add(secpP, big.NewInt(1))
	e.Rsh(e, 2)
	y := new(big.Int).Exp(c, e, secpP)
	if new(big.Int).Exp(y, big.NewInt(2), secpP).Cmp(new(big.Int).Mod(c, secpP)) != 0 {
		return nil
	}
	return y
}

// cbrtModP returns a cube root of c modulo p (p ≡ 7 mod 9: c^((p+2)/9) when c is a cubic residue), or nil.
func cbrtModP(c *big.Int) *big.Int {
	e := new(big.Int).Add(secpP, big.NewInt(2))
	e.Div(e, big.NewInt(9))
	x := new(big.Int).Exp(c, e, secpP)
	if new(big.Int).Exp(x, big.NewInt(3), secpP).Cmp(new(big.Int).Mod(c, secpP)) != 0 {
		return nil
	}
	return x
}

// smallYPoints: curve points whose y coordinate is tiny, so that y + p still fits in 32 bytes.
func smallYPoints(limit int64) [][2]*big.Int {
	var out [][2]*big.Int
	for y := int64(1); y <= limit; y++ {
		c := new(big.Int).Sub(big.NewInt(y*y), big.NewInt(7))
		c.Mod(c, secpP)
		if x := cbrtModP(c); x != nil && x.Sign() != 0 {
			out = append(out, [2]*big.Int{x, big.NewInt(y)})
		}
	}
	return out
}

func init() {
	// ---- C05 / C06: uncompressed encodings with y written as y + p (a coordinate >= p must be refused)
	yPlusP := func(r *Runner) {
		for _, pt := range smallYPoints(int64(r.N(400, 4000))) {
			enc := append([]byte{4}, eccB32(pt[0])...)
			enc = append(enc, eccB32(new(big.Int).Add(pt[1], secpP))...)
			good := append([]byte{4}, eccB32(pt[0])...)
			good = append(good, eccB32(pt[1])...)
			r.Do("point.dec", []string{hx(enc)}, "point-y-plus-p", true, "04||x||y+p for a point with tiny y")
			r.Do("point.dec", []string{hx(good)}, "point-tiny-y", true, "")
			r.Do("pub.compress", []string{hx(enc)}, "compress-y-plus-p", true, "")
			// a signature that verifies under the proper encoding must not verify under the alias
			z := sha256.Sum256(enc)
			// forge (r, s) for Q without its private key: R = u1 G + u2 Q, r = x(R) mod n, s = r/u2, z = u1 s
			u1, u2 := big.NewInt(7), big.NewInt(11)
			ax, ay := ekliptic.MultiplyBasePoint(u1)
			bx, by := ekliptic.MultiplyAffine(pt[0], pt[1], u2, nil)
			rx, _ := ekliptic.AddAffine(ax, ay, bx, by)
			rr := new(big.Int).Mod(rx, secpN)
			if rr.Sign() == 0 {
				continue
			}
			ss := new(big.Int).Mul(rr, new(big.Int).ModInverse(u2, secpN))
			ss.Mod(ss, secpN)
			zz := new(big.Int).Mul(u1, ss)
			zz.Mod(zz, secpN)
			_ = z
			r.eccVerify(good, eccB32(zz), rr, ss, "forged-for-tiny-y-key", true)
			r.eccVerify(enc, eccB32(zz), rr, ss, "forged-y-plus-p-key", false)
		}
	}
	regExtra("C05", yPlusP)
	regExtra("C06", yPlusP)

	// ---- C05: signatures whose ephemeral point has x(R) in [n, p): r = x(R) - n (the band has relative
	// width 2^-128, so it is constructed: R = lift_x(n + j), Q = r^-1 (s R - z G))
	regExtra("C05", func(r *Runner) {
		found := 0
		for j := int64(1); j < 400 && found < r.N(12, 120); j++ {
			x := new(big.Int).Add(secpN, big.NewInt(j))
			if x.Cmp(secpP) >= 0 {
				break
			}
			c := new(big.Int).Exp(x, big.NewInt(3), secpP)
			c.Add(c, big.NewInt(7))
			y := sqrtModP(c)
			if y == nil {
				continue
			}
			found++
			rr := big.NewInt(j)
			ss := new(big.Int).SetBytes(r.bytesN(32))
			ss.Mod(ss, secpN)
			zz := new(big.Int).SetBytes(r.bytesN(32))
			zz.Mod(zz, secpN)
			if ss.Sign() == 0 {
				continue
			}
			// Q = r^-1 (s R - z G)
			sx, sy := ekliptic.MultiplyAffine(x, y, ss, nil)
			gx, gy := ekliptic.MultiplyBasePoint(zz)
			gy = new(big.Int).Sub(secpP, gy)
			dx, dy := ekliptic.AddAffine(sx, sy, gx, gy)
			rinv := new(big.Int).ModInverse(rr, secpN)
			qx, qy := ekliptic.MultiplyAffine(dx, dy, rinv, nil)
			if qx.Sign() == 0 && qy.Sign() == 0 {
				continue
			}
			for _, pub := range [][]byte{ecc.SerializePointCompressed(qx, qy), ecc.SerializePointUncompressed(qx, qy)} {
				r.eccVerify(pub, eccB32(zz), rr, ss, "xR-in-[n,p)", true)
				r.eccVerify(pub, eccB32(zz), rr, new(big.Int).Sub(secpN, ss), "xR-in-[n,p)-highS", true)
			}
		}
	})

	// ---- C07: (a) a path whose intermediate child key has a leading zero byte followed by a hardened
	// step; (b) public derivation from K directly followed by derivation from -K (same x coordinate)
	regExtra("C07", func(r *Runner) {
		for n := 0; n < r.N(6, 60); n++ {
			key, cc := r.bytesN(32), r.bytesN(32)
			key[0] &= 0x7f
			key[31] |= 1
			for i := uint32(0); i < 4000; i++ {
				idx := 0x80000000 + i // hardened: HMAC only, cheap to search
				ck, _ := bip32.DerivePrivateChild(append([]byte{}, key...), append([]byte{}, cc...), idx)
				if ck[0] != 0 {
					continue
				}
				for _, next := range []uint32{0x80000000, 0x80000001, 0, 7} {
					p := fmt.Sprintf("%d,%d", idx, next)
					r.Do("bip32.path", []string{"priv", hx(key), hx(cc), p}, "path-leading-zero-intermediate", true, "intermediate child key starts with 00")
					r.Do("bip32.path", []string{"priv", hx(key), hx(cc), p + ",2147483653"}, "path-leading-zero-intermediate", true, "")
				}
				break
			}
		}
		for n := 0; n < r.N(10, 100); n++ {
			k := new(big.Int).SetBytes(r.bytesN(32))
			k.Mod(k, secpN)
			if k.Sign() == 0 {
				continue
			}
			nk := new(big.Int).Sub(secpN, k)
			cc := r.bytesN(32)
			for _, unc := range []bool{false, true} {
				var K, mK []byte
				if unc {
					K, mK = ecc.GetPublicKeyUncompressed(eccB32(k)), ecc.GetPublicKeyUncompressed(eccB32(nk))
				} else {
					K, mK = ecc.GetPublicKeyCompressed(eccB32(k)), ecc.GetPublicKeyCompressed(eccB32(nk))
				}
				idx := strconv.Itoa(r.rng.Intn(1000))
				// consecutive calls in one process: K, then -K, then K again
				r.Do("bip32.ckdpub", []string{hx(K), hx(cc), idx}, "ckdpub-K-then-minusK", true, "")
				r.Do("bip32.ckdpub", []string{hx(mK), hx(cc), idx}, "ckdpub-K-then-minusK", true, "same x coordinate, opposite parity, directly after K")
				r.Do("bip32.ckdpub", []string{hx(K), hx(cc), idx}, "ckdpub-K-then-minusK", true, "")
			}
		}
	})

	// ---- C12: a caller that appends to (or edits) a returned script must not disturb later results
	reg("c12.pushnum.alias", GoOnly, func(a []string) (string, []string) {
		n, err := strconv.ParseInt(a[0], 10, 64)
		if err != nil {
			return "bad-op", nil
		}
		var direct []string
		want := map[int64]string{}
		for _, m := range []int64{n - 1, n, n + 1} {
			want[m] = hx(script.PushNumber(m))
		}
		res := script.PushNumber(n)
		res = append(res, 0xae, 0xae, 0xae) // the idiom `append(PushNumber(k), opcodes...)`
		if len(res) > 0 {
			res[0] ^= 0xff
		}
		for _, m := range []int64{n - 1, n, n + 1} {
			if got := hx(script.PushNumber(m)); got != want[m] {
				direct = append(direct, fmt.Sprintf("PushNumber(%d) returned %s after a caller appended to an earlier result (before: %s)", m, got, want[m]))
			}
		}
		pd := script.PushData([]byte{1, 2, 3})
		w := hx(pd)
		_ = append(pd, 0xff)
		if hx(script.PushData([]byte{1, 2, 3})) != w {
			direct = append(direct, "PushData result changed after a caller appended to an earlier result")
		}
		return "ok", direct
	})
	regExtra("C12", func(r *Runner) {
		for n := int64(-20); n <= 300; n++ {
			r.Do("c12.pushnum.alias", []string{strconv.FormatInt(n, 10)}, "pushnum-aliasing-history", true, "")
		}
		for i := 0; i < r.N(100, 2000); i++ {
			r.Do("c12.pushnum.alias", []string{strconv.FormatInt(int64(r.rng.Uint64()>>uint(r.rng.Intn(63))), 10)}, "pushnum-aliasing-history", true, "")
		}
	})

	// ---- C18: scripts with a stand-alone opcode in the middle for the in-place hazard of StripOpCode
	regExtra("C18", func(r *Runner) {
		if _, ok := ops["buf.call"]; !ok {
			return
		}
		for i := 0; i < r.N(20, 200); i++ {
			s := []byte{0xab, 0x51, 0xab, 0x02, 0xab, 0xab, 0xac, 0xab, 0x75}
			s = append(s, r.bytesN(r.rng.Intn(4))...)
			for _, spare := range []string{"0", "1", "4", "32"} {
				r.Do("buf.call", []string{"script.StripOpCode", "sep", spare, hx(s), "171"}, "strip-standalone-middle", true, "")
			}
		}
	})

	// ---- C10: BIP38 EC-multiplied keys decrypted with the right, then a wrong, then the right passphrase
	regExtra("C10", func(r *Runner) {
		if _, ok := ops["bip38.ecenc"]; !ok {
			return
		}
		for i := 0; i < r.N(1, 6); i++ {
			pass := "pass" + strconv.Itoa(i)
			ic, _ := eval("bip38.icode", []string{hx(r.bytesN(8)), sx(pass)})
			if len(ic) < 4 || ic[:3] != "ok " {
				continue
			}
			enc, _ := eval("bip38.ecenc", []string{hx(r.bytesN(24)), ic[3:], "1"})
			if len(enc) < 4 || enc[:3] != "ok " {
				continue
			}
			k := enc[3:]
			if j := bytes.IndexByte([]byte(k), ' '); j >= 0 {
				k = k[:j]
			}
			r.Do("bip38.dec", []string{k, sx(pass)}, "bip38-ec-right-wrong-right", true, "")
			r.Do("bip38.dec", []string{k, sx(pass + "x")}, "bip38-ec-right-wrong-right", true, "wrong passphrase directly after a successful decryption")
			r.Do("bip38.dec", []string{k, sx(pass)}, "bip38-ec-right-wrong-right", true, "")
		}
	})
}

// ---- second round: state kept between calls ----------------------------------------------------

func init() {
	// C02: identifiers after a failed serialisation (a pooled or reused buffer must not leak into
	// the next hash), and the same for Bytes()
	reg("c02.id.after.error", GoOnly, func(a []string) (string, []string) {
		t, err := tx.FromBytes(unhx(a[0]))
		if err != nil {
			return "err", nil
		}
		var direct []string
		want := func(w bool) string { id, _ := t.Id(w); return id }
		w0, w1 := want(false), want(true)
		enc := hx(t.Bytes())
		// a transaction that passes the nil checks of canSerialize but fails part-way through
		bad := &tx.Tx{Version: 2, Inputs: []*tx.Input{{PrevOut: &tx.PrevOut{}, Script: []byte{1}}, {PrevOut: &tx.PrevOut{}, Script: nil}}, Outputs: []*tx.Output{{Script: []byte{}}}}
		if _, err := bad.Id(false); err == nil {
			direct = append(direct, "Id of an unserialisable transaction succeeded")
		}
		_ = bad.Bytes()
		bad2 := &tx.Tx{Version: 2, Inputs: []*tx.Input{{PrevOut: &tx.PrevOut{}, Script: []byte{}}}, Outputs: []*tx.Output{{Script: nil}}}
		_, _ = bad2.Hash(true)
		if want(false) != w0 || want(true) != w1 {
			direct = append(direct, "txid / wtxid of a transaction changed after a failed serialisation of another transaction")
		}
		if hx(t.Bytes()) != enc {
			direct = append(direct, "Bytes() of a transaction changed after a failed serialisation of another transaction")
		}
		// against the independent definition
		h1 := sha256.Sum256(t.BytesNoWitness())
		h2 := sha256.Sum256(h1[:])
		for i, j := 0, 31; i < j; i, j = i+1, j-1 {
			h2[i], h2[j] = h2[j], h2[i]
		}
		if fmt.Sprintf("%x", h2) != want(false) {
			direct = append(direct, "txid differs from reversed double SHA-256 of the stripped serialisation")
		}
		return "ok", direct
	})
	regExtra("C02", func(r *Runner) {
		for i := 0; i < r.N(200, 5000); i++ {
			t, b := r.genTx(3, 3)
			r.Do("c02.id.after.error", []string{hx(t.Bytes())}, "id-after-failed-serialisation", b, "")
		}
	})

	// C03: the digest of a transaction object that was edited in place between two calls must be that
	// of the edited transaction (no stale cached intermediate hashes); compared with a freshly parsed copy
	// C03: "computing a signature hash never changes the transaction": goroutines computing digests of ONE
	// object, and one goroutine that only looks at it, must see what they see when run alone
	reg("c03.shared", GoOnly, func(a []string) (string, []string) {
		t, err := tx.FromBytes(unhx(a[0]))
		if err != nil || len(t.Inputs) == 0 {
			return "err", nil
		}
		sc := unhx(a[1])
		before := t.Bytes()
		nw := len(t.Witnesses)
		types := []uint32{1, 2, 3, 0x81, 0x82, 0x83}
		type job struct {
			n  int
			ht uint32
			w  bool
		}
		var jobs []job
		var want [][32]byte
		var wantErr []bool
		for n := range t.Inputs {
			for _, ht := range types {
				for _, w := range []bool{false, true} {
					var d [32]byte
					var e error
					if w {
						d, e = t.SignatureHashForWitnessInput(n, sc, ht, 12345)
					} else {
						d, e = t.SignatureHashForInput(n, sc, ht)
					}
					jobs = append(jobs, job{n, ht, w})
					want = append(want, d)
					wantErr = append(wantErr, e != nil)
				}
			}
		}
		var mu sync.Mutex
		var direct []string
		note := func(s string) {
			mu.Lock()
			if len(direct) < 4 {
				direct = append(direct, s)
			}
			mu.Unlock()
		}
		var wg sync.WaitGroup
		stop := make(chan struct{})
		obsDone := make(chan struct{})
		go func() { // the observer
			defer close(obsDone)
			for {
				select {
				case <-stop:
					return
				default:
				}
				if len(t.Witnesses) != nw {
					note(fmt.Sprintf("while digests were being computed the transaction was seen with %d witnesses instead of %d", len(t.Witnesses), nw))
					return
				}
				runtime.Gosched()
			}
		}()
		for g := 0; g < 8; g++ {
			wg.Add(1)
			go func(g int) {
				defer wg.Done()
				defer func() {
					if e := recover(); e != nil {
						note(fmt.Sprintf("panic while computing a digest of a shared transaction: %v", e))
					}
				}()
				for rep := 0; rep < 6; rep++ {
					for i := g; i < len(jobs); i += 3 {
						j := jobs[i]
						var d [32]byte
						var e error
						if j.w {
							d, e = t.SignatureHashForWitnessInput(j.n, sc, j.ht, 12345)
						} else {
							d, e = t.SignatureHashForInput(j.n, sc, j.ht)
						}
						if (e != nil) != wantErr[i] || d != want[i] {
							note(fmt.Sprintf("digest (input %d, hash type %#x, witness %v) computed while other goroutines compute digests of the same object differs from the one computed alone", j.n, j.ht, j.w))
							return
						}
					}
				}
			}(g)
		}
		wg.Wait()
		close(stop)
		<-obsDone
		if !bytes.Equal(before, t.Bytes()) {
			direct = append(direct, "the transaction serializes differently after concurrent digest computations")
		}
		return "ok", direct
	})
	reg("c03.seq.inplace", GoOnly, func(a []string) (string, []string) {
		t, err := tx.FromBytes(unhx(a[0]))
		if err != nil || len(t.Inputs) == 0 {
			return "err", nil
		}
		n, _ := strconv.Atoi(a[1])
		if n >= len(t.Inputs) {
			n = 0
		}
		sc := unhx(a[2])
		ht64, _ := strconv.ParseUint(a[3], 10, 32)
		ht := uint32(ht64)
		var direct []string
		cmp := func(stage string) {
			fresh, err := tx.FromBytes(t.Bytes())
			if err != nil {
				return
			}
			g1, e1 := t.SignatureHashForWitnessInput(n, sc, ht, 1000)
			f1, e2 := fresh.SignatureHashForWitnessInput(n, sc, ht, 1000)
			if (e1 == nil) != (e2 == nil) || g1 != f1 {
				direct = append(direct, "BIP143 digest of the edited object differs from that of a freshly parsed copy after "+stage)
			}
			g2, e3 := t.SignatureHashForInput(n, sc, ht)
			f2, e4 := fresh.SignatureHashForInput(n, sc, ht)
			if (e3 == nil) != (e4 == nil) || g2 != f2 {
				direct = append(direct, "legacy digest of the edited object differs from that of a freshly parsed copy after "+stage)
			}
		}
		cmp("no edit")
		if len(t.Outputs) > 0 {
			t.Outputs[0].Value ^= 0x55
			cmp("an output value edit")
			t.Outputs[len(t.Outputs)-1].Script = append([]byte{0x51}, t.Outputs[len(t.Outputs)-1].Script...)
			cmp("an output script edit")
		}
		t.Inputs[0].Sequence ^= 1
		cmp("a sequence edit")
		t.Inputs[len(t.Inputs)-1].PrevOut.Index ^= 1
		cmp("an outpoint edit")
		t.Locktime++
		cmp("a locktime edit")
		return "ok", direct
	})
	regExtra("C03", func(r *Runner) {
		for i := 0; i < r.N(150, 4000); i++ {
			t, _ := r.genTx(3, 3)
			sc, parse, _ := r.genScriptCode()
			if !parse {
				continue
			}
			ht := []uint32{1, 2, 3, 0x81, 0x82, 0x83}[r.rng.Intn(6)]
			r.Do("c03.seq.inplace", []string{hx(t.Bytes()), strconv.Itoa(r.rng.Intn(len(t.Inputs))), hx(sc), strconv.FormatUint(uint64(ht), 10)}, "digest-after-in-place-edit", true, "")
		}
		// one transaction object shared by goroutines that only compute digests (and one that only reads it)
		for i := 0; i < r.N(3, 20); i++ {
			t, _ := r.genTx(4, 4)
			t.Witnesses = make([]tx.Witness, len(t.Inputs))
			for j := range t.Witnesses {
				t.Witnesses[j] = tx.Witness{r.bytesN(72), r.bytesN(33)}
			}
			if len(t.Outputs) == 0 {
				t.Outputs = []*tx.Output{{Value: 1, Script: []byte{0x51}}}
			}
			sc, parse, _ := r.genScriptCode()
			if !parse {
				sc = []byte{0x76, 0xa9, 0x14, 1, 2, 3, 4, 5, 6, 7, 8, 9, 10, 11, 12, 13, 14, 15, 16, 17, 18, 19, 20, 0x88, 0xac}
			}
			r.Do("c03.shared", []string{hx(t.Bytes()), hx(sc)}, "digests-of-a-shared-object", true, "")
		}
		// SIGHASH_SINGLE far down a transaction with >= 253 inputs and outputs (count written as a compact size)
		for _, n := range []int{253, 300} {
			t, _ := r.genTx(1, 1)
			for len(t.Inputs) < n {
				po := &tx.PrevOut{Index: r.u32()}
				copy(po.Hash[:], r.bytesN(32))
				t.Inputs = append(t.Inputs, &tx.Input{PrevOut: po, Script: []byte{}, Sequence: r.u32()})
			}
			for len(t.Outputs) < n {
				t.Outputs = append(t.Outputs, &tx.Output{Value: r.u64(), Script: r.bytesN(r.rng.Intn(3))})
			}
			t.Witnesses = nil
			enc := hx(t.Bytes())
			for _, idx := range []int{0, 251, 252, 253, n - 1} {
				if idx >= n {
					continue
				}
				for _, ht := range []uint32{3, 0x83, 1, 2} {
					args := []string{enc, strconv.Itoa(idx), "51", strconv.FormatUint(uint64(ht), 10)}
					r.Do("sighash.legacy", args, "legacy-many-inputs", true, "")
					r.Do("sighash.legacy.spec", args, "legacy-many-inputs-spec", true, "")
				}
			}
		}
	})
}

func init() {
	// C09: Bech32 strings whose HRP merely *starts with* the network's HRP followed by the separator
	// character ("bc1x", "tb1tb", "1" on a network without segwit): the separator is the LAST '1'
	regExtra("C09", func(r *Runner) {
		nets := map[string]string{"btc": "bc", "tbtc": "tb", "ltc": "ltc", "zec": ""}
		for net, hrp := range nets {
			for _, ext := range []string{"1", "1x", "1" + hrp, "11", "1q", "x", ""} {
				for _, n := range []int{20, 32} {
					for k := 0; k < r.N(2, 20); k++ {
						s, err := bech32.Encode(hrp+ext, 0, r.bytesN(n))
						if err != nil {
							continue
						}
						for _, target := range []string{"btc", "tbtc", "ltc", "zec"} {
							r.Do("addr.dec", []string{target, sx(s)}, "bech32-hrp-extended-"+net, true, "HRP "+hrp+ext)
						}
					}
				}
			}
		}
	})
}

func init() {
	// C18: results must not depend on which slice (as opposed to which bytes) an argument arrives in:
	// the private-derivation operation carries a reused-buffer comparison (bip32.go)
	regExtra("C18", func(r *Runner) {
		if _, ok := ops["bip32.ckdpriv"]; !ok {
			return
		}
		for i := 0; i < r.N(40, 600); i++ {
			key, cc := r.bytesN(32), r.bytesN(32)
			key[0] &= 0x7f
			key[31] |= 1
			idx := strconv.Itoa(r.rng.Intn(1 << 20)) // non-hardened: the parent public key is needed
			r.DoMode("bip32.ckdpriv", []string{hx(key), hx(cc), idx}, "ckdpriv-reused-buffer", true, "", GoOnly)
		}
	})

	// C17: the structural field space of DER signatures (declared lengths that do not fit, 0xff, …),
	// which truncation / single-byte mutation of valid signatures does not reach
	regExtra("C17", func(r *Runner) {
		c := &c17runner{r: r, maxAlloc: map[string]uint64{}}
		defer func() {
			if c.child != nil {
				c.child.stop()
			}
		}()
		lens := []int{0, 1, 2, 3, 0x20, 0x21, 0x7f, 0x80, 0xfe, 0xff}
		for L := 9; L <= 73; L++ {
			for k := 0; k < r.N(12, 200); k++ {
				b := r.bytesN(L)
				b[0] = 0x30
				b[1] = byte(L - 3)
				b[2] = 2
				rl := lens[r.rng.Intn(len(lens))]
				switch r.rng.Intn(4) {
				case 0:
					rl = L - 6
				case 1:
					rl = L - 5
				case 2:
					rl = r.rng.Intn(L)
				}
				b[3] = byte(rl)
				if 4+rl < L {
					b[4+rl] = 2
				}
				if 5+rl < L {
					sl := lens[r.rng.Intn(len(lens))]
					if r.rng.Intn(2) == 0 {
						sl = L - 7 - rl
					}
					b[5+rl] = byte(sl)
				}
				if r.rng.Intn(2) == 0 {
					b[4] &= 0x7f
					b[4] |= 1
				}
				if r.rng.Intn(3) == 0 {
					b[L-1] = 2
				}
				c.do("der.dec", []string{hx(b)}, "der.dec:structural", L, true)
			}
		}
	})
}

// refCKDprivNormal: BIP32 CKDpriv for a non-hardened index, written for the harness on crypto/hmac and
// ekliptic only (no state, no bitcoinlib code).
func refCKDprivNormal(key, cc []byte, idx uint32) ([]byte, []byte) {
	x, y := ekliptic.MultiplyBasePoint(new(big.Int).SetBytes(key))
	data := make([]byte, 0, 37)
	data = append(data, 2+byte(y.Bit(0)))
	data = append(data, x.FillBytes(make([]byte, 32))...)
	data = append(data, byte(idx>>24), byte(idx>>16), byte(idx>>8), byte(idx))
	mac := hmac.New(sha512.New, cc)
	mac.Write(data)
	l := mac.Sum(nil)
	k := new(big.Int).SetBytes(l[:32])
	k.Add(k, new(big.Int).SetBytes(key))
	k.Mod(k, secpN)
	return k.FillBytes(make([]byte, 32)), l[32:]
}

func init() {
	// one caller buffer, rewritten between calls: the result must follow the bytes, not the slice
	reg("c18.ckdpriv.reuse", GoOnly, func(a []string) (string, []string) {
		cc := unhx(a[0])
		idx64, _ := strconv.ParseUint(a[1], 10, 32)
		idx := uint32(idx64)
		buf := make([]byte, 32)
		var direct []string
		for _, kh := range a[2:] {
			key := unhx(kh)
			copy(buf, key)
			k, c := bip32.DerivePrivateChild(buf, append([]byte{}, cc...), idx)
			wk, wc := refCKDprivNormal(key, cc, idx)
			if !bytes.Equal(k, wk) || !bytes.Equal(c, wc) {
				direct = append(direct, fmt.Sprintf("DerivePrivateChild(%x…, index %d) in a reused caller buffer returned %x…, BIP32 gives %x… (the result depends on the history of the caller's buffer)", key[:4], idx, k[:4], wk[:4]))
			}
			if !bytes.Equal(buf, key) {
				direct = append(direct, "DerivePrivateChild modified the caller's key buffer")
			}
		}
		return "ok", direct
	})
	regExtra("C18", func(r *Runner) {
		for i := 0; i < r.N(20, 300); i++ {
			args := []string{hx(r.bytesN(32)), strconv.Itoa(r.rng.Intn(1 << 20))}
			for j := 0; j < 3; j++ {
				k := r.bytesN(32)
				k[0] &= 0x7f
				k[31] |= 1
				args = append(args, hx(k))
			}
			args = append(args, args[2]) // and back to the first key
			r.Do("c18.ckdpriv.reuse", args, "ckdpriv-reused-buffer-history", true, "")
		}
	})
	regExtra("C07", func(r *Runner) {
		for i := 0; i < r.N(20, 300); i++ {
			args := []string{hx(r.bytesN(32)), strconv.Itoa(r.rng.Intn(1 << 20))}
			for j := 0; j < 3; j++ {
				k := r.bytesN(32)
				k[0] &= 0x7f
				k[31] |= 1
				args = append(args, hx(k))
			}
			r.Do("c18.ckdpriv.reuse", args, "ckdpriv-reused-buffer-history", true, "")
		}
	})
}

func init() {
	// C14: seeds for (mnemonic, passphrase) pairs whose plain concatenations coincide, evaluated one
	// after the other: the seed is a function of the pair, not of the joined string
	regExtra("C14", func(r *Runner) {
		for i := 0; i < r.N(6, 60); i++ {
			words := c14Mnemonic(r.bytesN(20)) // 15 words
			k := 12
			tail := " " + strings.Join(words[k:], " ")
			pass := [][]byte{nil, []byte("x"), []byte("TREZOR")}[i%3]
			r.Do("bip39.seed", []string{mnemonicStr(words[:k]), hx(append([]byte(tail), pass...))}, "seed/ambiguous-split", true, "12 words, the passphrase continues the sentence")
			r.Do("bip39.seed", []string{mnemonicStr(words), hx(pass)}, "seed/ambiguous-split", true, "the 15-word mnemonic with the same joined text")
			// the salt prefix "mnemonic" can be moved as well
			r.Do("bip39.seed", []string{mnemonicStr([]string{"a"}), hx([]byte("mnemonicb"))}, "seed/ambiguous-split", true, "")
			r.Do("bip39.seed", []string{mnemonicStr([]string{"amnemonic"}), hx([]byte("b"))}, "seed/ambiguous-split", true, "")
		}
	})
}

func init() {
	// C07: master-key seeds whose length exceeds a valid length by a multiple of 2^8, 2^13 (bits in 16
	// bits) or 2^16: all invalid
	regExtra("C07", func(r *Runner) {
		for _, w := range []int{256, 512, 8192, 16384, 65536} {
			for _, v := range []int{16, 32, 64} {
				for _, d := range []int{0, -1, 4} {
					l := w + v + d
					r.Do("bip32.master", []string{hx(r.bytesN(l))}, "master/len-wrapped", false, fmt.Sprintf("seed of %d bytes", l))
				}
			}
		}
	})
}

// ---- C02: byte counts of WriteTo with writers that fail part-way --------------------------------------

// limitWriter accepts `left` more bytes. partial=true: a write that does not fit is accepted up to
// the limit and then fails (what a full disk or a closed pipe does); partial=false: it is refused whole.
type limitWriter struct {
	left    int
	partial bool
	got     []byte
}

func (l *limitWriter) Write(p []byte) (int, error) {
	if len(p) <= l.left {
		l.left -= len(p)
		l.got = append(l.got, p...)
		return len(p), nil
	}
	if !l.partial {
		return 0, io.ErrShortWrite
	}
	n := l.left
	l.left = 0
	l.got = append(l.got, p[:n]...)
	return n, io.ErrShortWrite
}

func init() {
	reg("c02.writeto.partial", GoOnly, func(a []string) (string, []string) {
		t, err := tx.FromBytes(unhx(a[0]))
		if err != nil {
			return "err", nil
		}
		var direct []string
		type wt struct {
			name string
			w    io.WriterTo
			ref  []byte
		}
		hdr := &blockheader.BlockHeader{Version: t.Version, Time: t.Locktime, NBits: 0x1d00ffff, Nonce: uint32(len(t.Inputs))}
		// hashes that are not their own reversal (a writer that flips them in place and back must flip them back
		// when the write fails, too)
		hdr.PreviousHeaderHash = sha256.Sum256(unhx(a[0]))
		hdr.MerkleRootHash = sha256.Sum256(hdr.PreviousHeaderHash[:])
		blk := &blocks.Block{Header: hdr, Transactions: []*tx.Tx{t}}
		targets := []wt{{"Tx.WriteTo", t, t.Bytes()}, {"BlockHeader.WriteTo", hdr, hdr.Bytes()}, {"Block.WriteTo", blk, blk.Bytes()},
			{"VarInt.WriteTo", varint.VarInt(len(t.Inputs[0].Script) * 997), varint.VarInt(len(t.Inputs[0].Script) * 997).Bytes()},
			{"VarInt.WriteTo", varint.VarInt(uint64(t.Locktime) << 8), varint.VarInt(uint64(t.Locktime) << 8).Bytes()}}
		for _, in := range t.Inputs {
			targets = append(targets, wt{"Input.WriteTo", in, in.Bytes()}, wt{"PrevOut.WriteTo", in.PrevOut, in.PrevOut.Bytes()})
		}
		for _, o := range t.Outputs {
			targets = append(targets, wt{"Output.WriteTo", o, o.Bytes()})
		}
		for _, w := range t.Witnesses {
			targets = append(targets, wt{"Witness.WriteTo", w, w.Bytes()})
		}
		cases := 0
		for _, tg := range targets {
			total := len(tg.ref)
			step := 1
			if total > 400 {
				step = 1 + total/400
			}
			for lim := 0; lim <= total; lim += step {
				for _, partial := range []bool{true, false} {
					lw := &limitWriter{left: lim, partial: partial}
					n, err := tg.w.WriteTo(lw)
					cases++
					if int(n) != len(lw.got) {
						direct = append(direct, fmt.Sprintf("%s into a writer that fails after %d of %d bytes (partial writes %v) returned n=%d but the writer accepted %d bytes", tg.name, lim, total, partial, n, len(lw.got)))
					}
					// whatever happened to the writer, the object is what it was: it encodes to the same bytes
					var again bytes.Buffer
					if _, e2 := tg.w.WriteTo(&again); e2 != nil || !bytes.Equal(again.Bytes(), tg.ref) {
						direct = append(direct, fmt.Sprintf("%s: after a write that failed after %d of %d bytes (partial writes %v) the object encodes differently (or not at all: %v)", tg.name, lim, total, partial, e2))
					}
					if (err == nil) != (lim >= total) || !bytes.HasPrefix(tg.ref, lw.got) || (partial && len(lw.got) != lim) {
						direct = append(direct, fmt.Sprintf("%s into a writer with room for %d of %d bytes: err=%v, %d bytes accepted, prefix of the serialisation: %v", tg.name, lim, total, err, len(lw.got), bytes.HasPrefix(tg.ref, lw.got)))
					}
					if len(direct) > 3 {
						return "ok", direct
					}
				}
			}
		}
		// WriteToNoWitness as well
		ref := t.BytesNoWitness()
		for lim := 0; lim <= len(ref); lim += 1 + len(ref)/200 {
			lw := &limitWriter{left: lim, partial: true}
			n, _ := t.WriteToNoWitness(lw)
			if int(n) != len(lw.got) {
				direct = append(direct, fmt.Sprintf("Tx.WriteToNoWitness into a writer that fails after %d bytes returned n=%d but the writer accepted %d bytes", lim, n, len(lw.got)))
				break
			}
		}
		return fmt.Sprintf("ok %d", cases), direct
	})
	regExtra("C02", func(r *Runner) {
		for i := 0; i < r.N(40, 1500); i++ {
			t, b := r.genTx(3, 3)
			r.Do("c02.writeto.partial", []string{hx(t.Bytes())}, "writeto-failing-writer", b, "")
		}
	})
	// C01: the same for the codec property: after a failed write the object still encodes to its bytes
	regExtra("C01", func(r *Runner) {
		for i := 0; i < r.N(12, 300); i++ {
			t, b := r.genTx(3, 3)
			r.Do("c02.writeto.partial", []string{hx(t.Bytes())}, "writeto-failing-writer", b, "")
		}
	})
}

// ---- text decoders and characters beyond one byte --------------------------------------------------
//
// A decoder that ranges over a string by rune and narrows the rune to a byte (or indexes a 256-entry
// table with it) treats U+0141 'Ł' like 'A'. Such strings are outside every alphabet and must be
// refused: in a valid encoding, one character c is replaced by the code points c+0x100, c+0x3000 and
// c+0x10000 (two-, three- and four-byte UTF-8), which agree with c in their low eight bits.

func wideRuneVariants(s string, r *Runner, n int) []string {
	var out []string
	if len(s) == 0 {
		return nil
	}
	for k := 0; k < n; k++ {
		i := r.rng.Intn(len(s))
		if s[i] >= 0x80 {
			continue
		}
		for _, off := range []rune{0x100, 0x3000, 0x10000} {
			out = append(out, s[:i]+string(rune(s[i])+off)+s[i+1:])
		}
	}
	return out
}

func init() {
	regExtra("C08", func(r *Runner) {
		for i := 0; i < r.N(20, 300); i++ {
			d := r.bytesN(1 + r.rng.Intn(40))
			for _, v := range wideRuneVariants(base58.Encode(d), r, 2) {
				r.Do("b58.dec", []string{sx(v)}, "b58-dec-wide-rune", true, "a character replaced by a code point with the same low byte")
			}
			for _, v := range wideRuneVariants(base58check.Encode(d), r, 2) {
				r.Do("b58c.dec", []string{sx(v)}, "b58c-dec-wide-rune", true, "")
			}
			hrp := []string{"bc", "tb", "a", "ltc", "split"}[i%5]
			if e, err := bech32.Encode(hrp, 0, r.bytesN(20+12*(i%2))); err == nil {
				for _, v := range wideRuneVariants(e, r, 2) {
					r.Do("bech32.dec", []string{sx(v)}, "bech32-dec-wide-rune", true, "")
				}
			}
		}
	})
}

func init() {
	// C03: script codes whose length sits on a compact-size boundary (the length prefix of the script
	// code is part of both preimages), as plain opcodes and as one push filling the script
	regExtra("C03", func(r *Runner) {
		lens := []int{0, 1, 0x4b, 0x4c, 0x4d, 0xfb, 0xfc, 0xfd, 0xfe, 0xff, 0x100, 0x101, 0x1ff}
		if r.tier != "quick" {
			lens = append(lens, 0xffff, 0x10000, 0x10001)
		} else {
			lens = append(lens, []int{0xffff, 0x10000, 0x10001}[int(r.res.Seed%3+3)%3])
		}
		for _, l := range lens {
			t, _ := r.genTx(2, 2)
			enc := hx(t.Bytes())
			var scripts [][]byte
			scripts = append(scripts, bytes.Repeat([]byte{0x61}, l)) // OP_NOP
			if l >= 3 && l-3 <= 0xffff {
				s := append([]byte{0x4d, byte(l - 3), byte((l - 3) >> 8)}, r.bytesN(l-3)...)
				scripts = append(scripts, s)
			}
			if l == 0x10000 {
				// one OP_PUSHDATA4 push of exactly l bytes with separators among the data, followed by a stand-alone
				// separator
				for _, n := range []int{l} {
					data := r.bytesN(n)
					for j := 0; j < n; j += 97 {
						data[j] = 0xab
					}
					s := append([]byte{0x4e, byte(n), byte(n >> 8), byte(n >> 16), byte(n >> 24)}, data...)
					scripts = append(scripts, append(s, 0xab, 0x51))
				}
			}
			for _, sc := range scripts {
				for _, ht := range []uint32{1, 3, 0x82} {
					args := []string{enc, "0", hx(sc), strconv.FormatUint(uint64(ht), 10)}
					r.Do("sighash.legacy", args, "legacy-script-length-boundary", true, fmt.Sprintf("script code of %d bytes", l))
					r.Do("sighash.legacy.spec", args, "legacy-script-length-boundary-spec", true, "")
					wargs := append(append([]string{}, args...), strconv.FormatUint(r.u64(), 10))
					r.Do("sighash.bip143", wargs, "bip143-script-length-boundary", true, fmt.Sprintf("script code of %d bytes", l))
					r.Do("sighash.bip143.spec", wargs, "bip143-script-length-boundary-spec", true, "")
				}
			}
		}
	})
}

func init() {
	// C15: block fee totals, ranges and averages for blocks whose transaction count needs a 3-byte
	// compact size (252, 253, 254, 300 transactions): the count prefix is part of the block weight
	regExtra("C15", func(r *Runner) {
		counts := []int{252, 253, 254}
		if r.tier != "quick" {
			counts = append(counts, 255, 256, 300, 600)
		}
		for _, n := range counts {
			b := &blocks.Block{Header: r.genHeader()}
			var keys []tx.PrevOut
			var vals []uint64
			for j := 0; j < n; j++ {
				// plain transactions with distinct outpoints and a modest fee each, so that every block
				// statistic is defined
				t, _ := r.genTx(2, 2)
				var outSum uint64
				for _, o := range t.Outputs {
					o.Value = uint64(1000 + r.rng.Intn(1<<30))
					outSum += o.Value
				}
				for i, in := range t.Inputs {
					copy(in.PrevOut.Hash[:], r.bytesN(32))
					in.PrevOut.Index = uint32(i)
					if j > 0 {
						keys = append(keys, *in.PrevOut)
						vals = append(vals, outSum/uint64(len(t.Inputs))+1+uint64(r.rng.Intn(100000)))
					}
				}
				b.Transactions = append(b.Transactions, t)
			}
			r.Do("fee.block", []string{hx(b.Bytes()), tableArg(keys, vals)}, "fee-block-count-boundary", true, fmt.Sprintf("%d transactions", n))
		}
	})
	// C17: numbers pushed as zero bytes through an explicit push opcode, and other empty explicit pushes
	regExtra("C17", func(r *Runner) {
		for _, s := range [][]byte{{0x4c, 0x00}, {0x4d, 0x00, 0x00}, {0x4e, 0, 0, 0, 0}, {0x4c, 0x00, 0x51}, {0x4d, 0, 0, 0x87}, {0x4e, 0, 0, 0, 0, 0xab}, {0x00}, {0x4f}, {0x01}, {0x4c}, {0x4c, 0x01}} {
			for _, op := range []string{"read.num", "read.data", "script.decompile", "script.stackify"} {
				if _, ok := ops[op]; ok {
					r.DoMode(op, []string{hx(s)}, "empty-explicit-push", true, "", ops[op].mode)
				}
			}
		}
	})
}

func init() {
	// C13: edge x-only keys — zero (not a point: lift_x(0) has no square root, and the degenerate
	// (0, 0) must not be mistaken for one), small values, p-1, p, p+1, n, 2^256-1 — as keys to tweak
	// and as internal keys of a P2TR output
	regExtra("C13", func(r *Runner) {
		p, _ := new(big.Int).SetString("fffffffffffffffffffffffffffffffffffffffffffffffffffffffefffffc2f", 16)
		n, _ := new(big.Int).SetString("fffffffffffffffffffffffffffffffebaaedce6af48a03bbfd25e8cd0364141", 16)
		one := big.NewInt(1)
		var keys [][]byte
		for _, v := range []*big.Int{big.NewInt(0), one, big.NewInt(2), big.NewInt(3), big.NewInt(5), big.NewInt(7),
			new(big.Int).Sub(p, one), p, new(big.Int).Add(p, one), n, new(big.Int).Sub(new(big.Int).Lsh(one, 256), one)} {
			keys = append(keys, v.FillBytes(make([]byte, 32)))
		}
		for _, k := range keys {
			for _, h := range [][]byte{{}, r.bytesN(32)} {
				r.Do("tap.tweakpub", []string{hx(k), hx(h)}, "xonly/edge-key", true, "edge x coordinate as x-only key")
			}
			r.Do("tap.p2tr", []string{hx(k), "N"}, "p2tr/edge-internal-key", true, "edge x coordinate as internal key")
		}
	})
}

// ---- values with a leading zero byte --------------------------------------------------------------
//
// Fixed-width big-endian fields (coordinates, scalars, secrets, derived keys) lose their leading zero
// bytes when they are produced with big.Int.Bytes() or copied left-aligned; one value in 256 has one.
// Random sampling meets them too rarely in a quick run, so they are searched for.

// scalarWithLeadingZeroX returns a scalar k >= start whose public key has an x coordinate with a
// leading zero byte.
func scalarWithLeadingZeroX(start int64) []byte {
	for k := start; ; k++ {
		kb := big.NewInt(k).FillBytes(make([]byte, 32))
		if ecc.GetPublicKeySchnorr(kb)[0] == 0 {
			return kb
		}
	}
}

func init() {
	regExtra("C06", func(r *Runner) {
		// ECDH pairs whose shared x coordinate starts with a zero byte
		found := 0
		for a := int64(2); found < r.N(3, 12) && a < 60; a++ {
			ka := big.NewInt(a * 1000003)
			for b := int64(1); b < 3000; b++ {
				kb := big.NewInt(b*7919 + a)
				x, y, err := ecc.DeserializePoint(ecc.GetPublicKeyCompressed(kb.FillBytes(make([]byte, 32))))
				if err != nil {
					continue
				}
				// the shared point computed with the curve arithmetic directly (not with the function under test)
				if sx, _ := ecc.Curve.ScalarMult(x, y, ka.FillBytes(make([]byte, 32))); sx.BitLen() <= 248 {
					r.Do("ecdh.sym", []string{hx(ka.FillBytes(make([]byte, 32))), hx(kb.FillBytes(make([]byte, 32)))}, "ecdh-leading-zero", true, "shared x coordinate with a leading zero byte")
					r.Do("ecdh", []string{hx(ka.FillBytes(make([]byte, 32))), hx(ecc.GetPublicKeyCompressed(kb.FillBytes(make([]byte, 32))))}, "ecdh-leading-zero", true, "")
					found++
					break
				}
			}
		}
		// public keys whose x coordinate starts with a zero byte, in every encoding
		for i, start := 0, int64(1); i < r.N(3, 10); i++ {
			k := scalarWithLeadingZeroX(start)
			start = new(big.Int).SetBytes(k).Int64() + 1
			for _, op := range []string{"pub.c", "pub.u", "pub.x"} {
				r.Do(op, []string{hx(k)}, "pub-leading-zero-x", true, "public key x with a leading zero byte")
			}
		}
	})
	for _, p := range []string{"C04", "C05"} {
		regExtra(p, func(r *Runner) {
			// Schnorr signatures under keys whose x coordinate starts with a zero byte
			for i, start := 0, int64(1); i < r.N(3, 10); i++ {
				k := scalarWithLeadingZeroX(start)
				start = new(big.Int).SetBytes(k).Int64() + 1
				m, aux := r.bytesN(32), r.bytesN(32)
				sig := ecc.SignSchnorr(k, m, aux)
				if p == "C04" {
					r.Do("schnorr.sign", []string{hx(k), hx(m), hx(aux)}, "schnorr-leading-zero-key", true, "")
				}
				r.Do("schnorr.verify", []string{hx(ecc.GetPublicKeySchnorr(k)), hx(m), hx(sig)}, "schnorr-leading-zero-key", true, "public key x with a leading zero byte")
			}
		})
	}
	// C10: an EC-multiplied BIP38 key whose private key factorb*passfactor mod n starts with a zero byte
	regExtra("C10", func(r *Runner) {
		pw := "leading zero"
		rnd := []byte{1, 2, 3, 4, 5, 6, 7, 8}
		code, err := bip38.GenerateIntermediateCode(bytes.NewReader(rnd), pw)
		if err != nil {
			return
		}
		payload, err := base58check.Decode(code)
		if err != nil || len(payload) < 49 {
			return
		}
		// the intermediate code holds passpoint = passfactor*G; the private key is factorb*passfactor, so its
		// leading byte cannot be predicted from the code alone: recompute passfactor the way the library derives it
		passfactor, err := scrypt.Key([]byte(pw), rnd, 16384, 8, 8, 32)
		if err != nil {
			return
		}
		pf := new(big.Int).SetBytes(passfactor)
		n := ekliptic.Secp256k1_CurveOrder
		for ctr := 0; ctr < 4000; ctr++ {
			seedb := make([]byte, 24)
			seedb[0], seedb[1] = byte(ctr), byte(ctr>>8)
			h1 := sha256.Sum256(seedb)
			h2 := sha256.Sum256(h1[:])
			key := new(big.Int).Mul(new(big.Int).SetBytes(h2[:]), pf)
			key.Mod(key, n)
			if key.BitLen() <= 248 && key.Sign() > 0 {
				r.Do("bip38.ecenc", []string{hx(seedb), sx(code), "1"}, "bip38-ec-leading-zero-key", true, "EC-multiplied key with a leading zero byte")
				if enc, err := bip38.EncryptIntermediateCode(bytes.NewReader(seedb), code, true); err == nil {
					r.Do("bip38.dec", []string{sx(enc), sx(pw)}, "bip38-ec-leading-zero-key", true, "")
				}
				return
			}
		}
	})
	// C13: NewDeadKey with readers whose first 32 bytes are not a valid scalar (zero, n, n+1, all ones):
	// the pair it returns must verify whatever the reader delivers
	reg("dead.new", GoOnly, func(a []string) (string, []string) {
		key, proof, err := taproot.NewDeadKey(bytes.NewReader(unhx(a[0])))
		if err != nil {
			return "err", nil
		}
		var direct []string
		if verr := taproot.VerifyDeadKey(key, proof); verr != nil {
			direct = append(direct, fmt.Sprintf("NewDeadKey returned a pair that VerifyDeadKey rejects: key %x proof %x", key, proof))
		}
		if len(proof) != 32 || !validScalarBytes(proof) {
			direct = append(direct, fmt.Sprintf("NewDeadKey returned a proof outside [1, n-1]: %x", proof))
		}
		return "ok " + hx(key) + " " + hx(proof), direct
	})
	regExtra("C13", func(r *Runner) {
		n := ekliptic.Secp256k1_CurveOrder
		one := big.NewInt(1)
		for _, first := range []*big.Int{big.NewInt(0), n, new(big.Int).Add(n, one), new(big.Int).Sub(new(big.Int).Lsh(one, 256), one), new(big.Int).Sub(n, one), one} {
			stream := append(first.FillBytes(make([]byte, 32)), r.bytesN(96)...)
			r.Do("dead.new", []string{hx(stream)}, "dead/new-crafted-reader", true, "reader whose first draw is an edge value")
		}
	})
}

// ---- C17: RPC responses with every status, mnemonic words at the edges of the word list ------------

type statusTransport struct {
	status int
	body   []byte
}

func (f statusTransport) RoundTrip(req *http.Request) (*http.Response, error) {
	return &http.Response{StatusCode: f.status, Status: fmt.Sprintf("%d x", f.status), Body: io.NopCloser(bytes.NewReader(f.body)), Header: http.Header{}, Request: req}, nil
}

// what json.Unmarshal leaves behind for a reply body, computed with a mirror of the library's response type
// (the four flags of Model/Rpc.lean's Reply)
func rpcReplyFlags(body []byte) []string {
	type mirrorErr struct {
		Code    int    `json:"code"`
		Message string `json:"message"`
	}
	type mirror struct {
		Error  *mirrorErr `json:"error"`
		Result any        `json:"result"`
	}
	var res any
	obj := &mirror{Result: &res}
	err := json.Unmarshal(body, &obj)
	f := func(b bool) string {
		if b {
			return "1"
		}
		return "0"
	}
	if err != nil || obj == nil {
		return []string{f(err != nil), f(obj == nil), "1", "1"}
	}
	return []string{"0", "0", f(obj.Error == nil), f(obj.Result == nil)}
}

func init() {
	// the verdict of rpc.Connection on a reply (status, body), against the classification of Model/Rpc.lean
	reg("rpc.classify", Full, func(a []string) (string, []string) {
		st, err := strconv.Atoi(a[0])
		if err != nil || len(a) != 6 {
			return "bad-op", nil
		}
		body := unhx(a[1])
		if string(body) == "Work queue depth exceeded" && st != 401 {
			return "ok retry", nil // the client sleeps and sends the request again: not run here (race rig: rpcbusy)
		}
		old := http.DefaultClient.Transport
		http.DefaultClient.Transport = statusTransport{st, body}
		defer func() { http.DefaultClient.Transport = old }()
		conn, err := rpc.NewConnection("http://127.0.0.1:1/", "u", "p")
		if err != nil {
			return "bad-op", nil
		}
		_, err = conn.Request("getblockcount")
		var rf *rpc.ErrRPCFailure
		switch {
		case err == nil:
			return "ok ok", nil
		case errors.Is(err, rpc.ErrInvalidCredentials):
			return "ok cred", nil
		case errors.Is(err, rpc.ErrInvalidResponseFormat):
			return "ok format", nil
		case errors.As(err, &rf):
			return "ok rpc", nil
		}
		return "ok other " + err.Error(), nil
	})
	reg("c17.rpcstatus", GoOnly, func(a []string) (string, []string) {
		st, err := strconv.Atoi(a[0])
		if err != nil {
			return "bad-op", nil
		}
		old := http.DefaultClient.Transport
		http.DefaultClient.Transport = statusTransport{st, unhx(a[1])}
		defer func() { http.DefaultClient.Transport = old }()
		conn, err := rpc.NewConnection("http://127.0.0.1:1/", "u", "p")
		if err != nil {
			return "bad-op", nil
		}
		if strings.Contains(string(unhx(a[1])), "Work queue depth exceeded") {
			return "err", nil // documented retry loop of the client, not a parser
		}
		if _, err := conn.Request("getblockcount"); err != nil {
			return "err", nil
		}
		return "ok", nil
	})
	regExtra("C17", func(r *Runner) {
		bodies := []string{`Work queue depth exceeded`, `{"result":0,"error":null}`, `{"result":"","error":{"code":-8,"message":"y"}}`, `{"result":false}`, ` null `, `{"error":{}}`, `{"result":null,"error":null,"id":0}`, `{}`, `{"result":5,"error":null,"id":0}`, `{"error":{"code":-1,"message":"x"}}`,
			`null`, `[]`, ``, `{"result":`, `<html>500</html>`, `{"error":null}`, `{"result":{"a":1}}`}
		for _, st := range []int{200, 201, 204, 301, 400, 401, 403, 404, 500, 503} {
			for _, b := range bodies {
				r.DoMode("c17.rpcstatus", []string{strconv.Itoa(st), strHex(b)}, "rpc-status-and-body", true, "", GoOnly)
				r.Do("rpc.classify", append([]string{strconv.Itoa(st), strHex(b)}, rpcReplyFlags([]byte(b))...), "rpc-reply-classification", true, "")
			}
		}
		// mnemonics with unknown words that sort before the first and after the last list word, of
		// every length 0..9, at the first, a middle and the last position of every accepted count
		edgeWords := []string{"", " ", "a", "aa", "aaa", "aaaa", "aaaaa", "abandom", "abandon ", "zo", "zoo ", "zoom", "zooo", "zulu", "zzz", "zzzz", "zzzzz", "zzzzzzzzz",
			"{abc", "~~~~", "\xff\xff\xff\xff", "\x00\x00\x00\x00", "ZOOM", "Zoo"}
		for _, n := range []int{12, 15, 18, 21, 24} {
			for wi, w := range edgeWords {
				ws := make([]string, n)
				for i := range ws {
					ws[i] = bip39.WordList[(i*97+wi*13)%2048]
				}
				ws[[]int{0, n / 2, n - 1}[wi%3]] = w
				if _, ok := ops["bip39.dec"]; ok {
					r.DoMode("bip39.dec", []string{hx([]byte(strings.Join(ws, " ")))}, "mnemonic-word-at-list-edge", true, "", ops["bip39.dec"].mode)
				}
			}
		}
	})
}

func init() {
	// C10: keys and chain codes with leading (and trailing) zero bytes through WIF and extended-key
	// serialisation and back
	regExtra("C10", func(r *Runner) {
		for i := 0; i < r.N(8, 60); i++ {
			k := r.bytesN(32)
			cc := r.bytesN(32)
			z := 1 + i%4
			for j := 0; j < z; j++ {
				k[j], cc[j] = 0, 0
			}
			if i%3 == 0 {
				k[31], cc[31] = 0, 0
			}
			if new(big.Int).SetBytes(k).Sign() == 0 {
				k[31] = 1
			}
			for c := 0; c < 2; c++ {
				r.Do("wif.enc", []string{hx(k), "128", strconv.Itoa(c)}, "wif-enc-leading-zero", true, "")
				if s, err := wifEncodeFor(k, 128, c == 1); err == nil {
					r.Do("wif.dec", []string{sx(s)}, "wif-dec-leading-zero", true, "")
				}
			}
			for _, priv := range []bool{true, false} {
				key := k
				if !priv {
					key = scalarWithLeadingZeroX(int64(1 + 300*i)) // public key whose x starts with a zero byte
					key = ecc.GetPublicKeyCompressed(key)
				}
				ver := uint32(0x0488ADE4)
				if !priv {
					ver = 0x0488B21E
				}
				args := []string{strconv.Itoa(b2i(priv)), hx(key), hx(cc), "00000000", "0", "0", strconv.FormatUint(uint64(ver), 10)}
				r.Do("xkey.ser", args, "xkey-ser-leading-zero", true, "")
				var s string
				if priv {
					s = bip32.SerializePrivate(key, cc, []byte{0, 0, 0, 0}, 0, 0, ver)
				} else {
					s = bip32.SerializePublic(key, cc, []byte{0, 0, 0, 0}, 0, 0, ver)
				}
				r.Do("xkey.deser", []string{sx(s)}, "xkey-deser-leading-zero", true, "")
			}
		}
	})
	// C10: extended keys below the master with an all-zero parent fingerprint and index 0 (and the other
	// combinations of zero / non-zero origin fields at depths 0, 1, 255)
	regExtra("C10", func(r *Runner) {
		for i, depth := range []int{1, 255, 0, 1, 2, 0} {
			k := r.scalar(7 + i)
			cc := r.bytesN(32)
			fp := []string{"00000000", "00000000", "00000000", "00000001", "00000000", "deadbeef"}[i]
			idx := []string{"0", "0", "0", "0", "2147483648", "5"}[i]
			for _, priv := range []bool{true, false} {
				key, ver := k, uint32(0x0488ADE4)
				if !priv {
					key, ver = ecc.GetPublicKeyCompressed(k), 0x0488B21E
				}
				args := []string{strconv.Itoa(b2i(priv)), hx(key), hx(cc), fp, strconv.Itoa(depth), idx, strconv.FormatUint(uint64(ver), 10)}
				r.Do("xkey.ser", args, "xkey-ser-origin-fields", true, fmt.Sprintf("depth %d fingerprint %s index %s", depth, fp, idx))
				fpb := unhxPlain(fp)
				ix, _ := strconv.ParseUint(idx, 10, 32)
				var s string
				if priv {
					s = bip32.SerializePrivate(key, cc, fpb, byte(depth), uint32(ix), ver)
				} else {
					s = bip32.SerializePublic(key, cc, fpb, byte(depth), uint32(ix), ver)
				}
				r.Do("xkey.deser", []string{sx(s)}, "xkey-deser-origin-fields", true, "")
			}
		}
	})
	// C10: passphrases longer than 255, 256, 1000 bytes (every byte of the passphrase goes into scrypt), and the
	// decryption with a passphrase that differs only beyond byte 256
	regExtra("C10", func(r *Runner) {
		k := r.scalar(5)
		for _, n := range []int{257, 300, 1000} {
			pw := strings.Repeat("long passphrase, ", n/17+1)[:n]
			r.Do("bip38.enc", []string{hx(k), sx(pw), "1"}, "bip38-enc-long-passphrase", true, fmt.Sprintf("%d bytes", n))
			if s, err := bip38.Encrypt(k, pw, true); err == nil {
				r.Do("bip38.dec", []string{sx(s), sx(pw[:n-1] + "X")}, "bip38-dec-long-passphrase-wrong-tail", true, "")
				r.Do("bip38.dec", []string{sx(s), sx(pw[:256])}, "bip38-dec-long-passphrase-cut", true, "")
			}
		}
		r.Do("bip38.icode", []string{hx(r.bytesN(8)), sx(strings.Repeat("y", 300))}, "bip38-icode-long-passphrase", true, "")
	})
	// C10: an encryption that fails half-way (the random source runs dry, the intermediate code has the wrong
	// magic bytes) followed by ordinary encryptions: the later answers are those of a fresh process
	regExtra("C10", func(r *Runner) {
		k := r.scalar(3)
		good := "passphraseaB8feaLQDENqCgr4gKZpmf4VoaT6qdjJNJiv7fsKvjqavcJxvuR1hy25aTu9sX" // BIP38's example code
		bad := "passphraseaB8feaLQDENqCgr4gKZpmf4VoaT6qdjJNJiv7fsKvjqavcJxvuR1hy25aTu9sY"
		r.Do("bip38.ecenc", []string{hx(r.bytesN(5)), sx(good), "1"}, "bip38-ecenc-short-random-source", true, "")
		r.Do("bip38.enc", []string{hx(k), sx("TestingOneTwoThree"), "0"}, "bip38-enc-after-a-failed-encryption", true, "")
		r.Do("bip38.ecenc", []string{hx(r.bytesN(24)), sx(bad), "0"}, "bip38-ecenc-bad-code", true, "")
		r.Do("bip38.ecenc", []string{hx(r.bytesN(24)), sx(good), "1"}, "bip38-ecenc-after-a-failed-encryption", true, "")
		r.Do("bip38.enc", []string{hx(k), sx("Satoshi"), "1"}, "bip38-enc-after-a-failed-encryption", true, "")
	})
	// C10: WIF payloads whose last key byte looks like the compression flag (and its neighbours), every version edge
	regExtra("C10", func(r *Runner) {
		for i, last := range []byte{0x01, 0x00, 0x02, 0x01, 0xff, 0x01} {
			k := r.bytesN(32)
			k[0] &= 0x7f
			k[31] = last
			if i == 3 {
				k = append(make([]byte, 31), 1) // the key 1
			}
			if i == 5 {
				for j := range k {
					k[j] = 1
				}
			}
			for _, ver := range []int{128, 239, 0, 255, 176} {
				for c := 0; c < 2; c++ {
					r.Do("wif.enc", []string{hx(k), strconv.Itoa(ver), strconv.Itoa(c)}, "wif-enc-flag-like-last-byte", true, "")
					if s, err := wifEncodeFor(k, byte(ver), c == 1); err == nil {
						r.Do("wif.dec", []string{sx(s)}, "wif-dec-flag-like-last-byte", true, fmt.Sprintf("last key byte %#x, compressed %v", last, c == 1))
					}
				}
			}
		}
	})
	// C05: after an honest signature whose r (or s) has a leading zero byte has been verified, the same 63 bytes
	// cut one byte further along — r' = r·256 + top byte of s, s' = the rest — are another, invalid, pair
	regExtra("C05", func(r *Runner) {
		k := r.scalar(0)
		pubs := [][]byte{ecc.GetPublicKeyCompressed(k), ecc.GetPublicKeyUncompressed(k)}
		found := 0
		for ctr := 0; ctr < 4000 && found < r.N(2, 6); ctr++ {
			h := sha256.Sum256([]byte(fmt.Sprintf("recut-%d", ctr)))
			rr, ss := ecc.SignECDSA(k, h[:])
			rb, sb := rr.Bytes(), ss.Bytes()
			var r2, s2 *big.Int
			switch {
			case len(rb) == 31 && len(sb) == 32:
				r2 = new(big.Int).SetBytes(append(append([]byte{}, rb...), sb[0]))
				s2 = new(big.Int).SetBytes(sb[1:])
			case len(rb) == 32 && len(sb) == 31:
				r2 = new(big.Int).SetBytes(rb[:31])
				s2 = new(big.Int).SetBytes(append([]byte{rb[31]}, sb...))
			default:
				continue
			}
			if r2.Sign() == 0 || s2.Sign() == 0 || r2.Cmp(secpN) >= 0 || s2.Cmp(secpN) >= 0 {
				continue
			}
			pub := pubs[found%2]
			r.eccVerify(pub, h[:], rr, ss, "ecdsa-valid-short-half", true)
			r.eccVerify(pub, h[:], r2, s2, "ecdsa-recut-after-honest", false)
			found++
		}
	})
	// public keys of a legal length plus a multiple of 256, padded with zeros so that the coordinates read the same
	for _, pid := range []string{"C05", "C06"} {
		pid := pid
		regExtra(pid, func(r *Runner) {
			for i := 0; i < r.N(4, 20); i++ {
				k := r.scalar(3000 + i)
				c, u, x := ecc.GetPublicKeyCompressed(k), ecc.GetPublicKeyUncompressed(k), ecc.GetPublicKeySchnorr(k)
				for _, pad := range []int{256, 512} {
					z := make([]byte, pad)
					variants := [][]byte{
						append(append([]byte{c[0]}, z...), c[1:]...),
						append(append([]byte{}, z...), x...),
						append(append(append([]byte{}, u[:33]...), z...), u[33:]...),
						append(append([]byte{}, c...), z...),
					}
					for _, v := range variants {
						r.Do("point.dec", []string{hx(v)}, "point-dec/length plus a multiple of 256", true, fmt.Sprintf("%d bytes", len(v)))
						if pid == "C05" {
							h := r.bytesN(32)
							rr, ss := ecc.SignECDSA(k, h)
							r.eccVerify(v, h, rr, ss, "ecdsa-key-length-plus-256k", false)
						}
					}
				}
			}
		})
	}
	// C03: BIP143 with exactly 63, 64, 65, 128 inputs (hashPrevouts / hashSequence over whole batches of records)
	regExtra("C03", func(r *Runner) {
		for _, n := range []int{63, 64, 65, 128} {
			t, _ := r.genTx(1, 2)
			for len(t.Inputs) < n {
				po := &tx.PrevOut{Index: r.u32()}
				copy(po.Hash[:], r.bytesN(32))
				t.Inputs = append(t.Inputs, &tx.Input{PrevOut: po, Script: []byte{}, Sequence: r.u32()})
			}
			t.Witnesses = nil
			if len(t.Outputs) == 0 {
				t.Outputs = []*tx.Output{{Value: 5, Script: []byte{0x51}}}
			}
			enc := hx(t.Bytes())
			for _, idx := range []int{0, n - 1} {
				for _, ht := range []uint32{1, 2, 3, 0x81} {
					wargs := []string{enc, strconv.Itoa(idx), "76a914000102030405060708090a0b0c0d0e0f1011121388ac", strconv.FormatUint(uint64(ht), 10), "12345"}
					r.Do("sighash.bip143", wargs, "bip143-many-inputs", true, fmt.Sprintf("%d inputs", n))
					r.Do("sighash.bip143.spec", wargs, "bip143-many-inputs-spec", true, "")
				}
			}
		}
	})
	// floods of distinct inputs through functions that a bounded cache could sit behind: the run then holds
	// more distinct keys than such a cache has slots, and the late replay asks for the early ones again
	regExtra("C12", func(r *Runner) {
		for i := 0; i < r.N(300, 1500); i++ {
			d := r.bytesN([]int{33, 65}[i%2])
			r.Do("tpl.makefrom", []string{[]string{"p2pkh", "p2wpkh"}[(i/2)%2], hx(d)}, "tpl.makefrom/flood of distinct keys", true, "")
		}
	})
	regExtra("C04", func(r *Runner) {
		for i := 0; i < r.N(1100, 3000); i++ {
			r.Do("pub.c", []string{hx(r.scalar(1000 + i))}, "pub/flood of distinct keys", true, "")
		}
	})
	regExtra("C05", func(r *Runner) {
		// honest Schnorr signatures under 40 distinct keys, each verified twice, round after round
		type trip struct{ pub, m, sig []byte }
		var ts []trip
		for i := 0; i < 40; i++ {
			k := r.scalar(2000 + i)
			m := r.bytesN(32)
			ts = append(ts, trip{ecc.GetPublicKeySchnorr(k), m, ecc.SignSchnorr(k, m, r.bytesN(32))})
		}
		for round := 0; round < 3; round++ {
			for _, t := range ts {
				r.eccSchnorrVerify(t.pub, t.m, t.sig, "schnorr-valid/many keys, round after round", true)
				if round > 0 {
					r.eccSchnorrVerify(t.pub, t.m, t.sig, "schnorr-valid/many keys, round after round", true)
				}
			}
		}
		// and a signature made with the NEXT key's secret over this key's challenge: never valid
		for i := range ts {
			j := (i + 1) % len(ts)
			if bytes.Equal(ts[i].pub, ts[j].pub) {
				continue // the same x-only key (k and n−k, or the same scalar class drawn twice): the signature IS valid
			}
			r.eccSchnorrVerify(ts[i].pub, ts[j].m, ts[j].sig, "schnorr-other-key/many keys", false)
		}
	})
	// C13: tweaks whose OUTPUT key has an x coordinate with a leading zero byte
	regExtra("C13", func(r *Runner) {
		found := 0
		k := r.scalar(0)
		pub := ecc.GetPublicKeySchnorr(k)
		for ctr := 0; ctr < 5000 && found < r.N(2, 8); ctr++ {
			h := sha256.Sum256([]byte(fmt.Sprintf("commitment-%d", ctr)))
			q, _, err := taproot.TweakPublicKey(pub, h[:])
			if err == nil && q[0] == 0 {
				r.Do("tap.tweakpub", []string{hx(pub), hx(h[:])}, "tweakpub/output-leading-zero", true, "tweaked key x with a leading zero byte")
				r.Do("tap.tweakpriv", []string{hx(k), hx(h[:])}, "tweakpriv/output-leading-zero", true, "")
				found++
			}
		}
	})
}

func wifEncodeFor(k []byte, v byte, compressed bool) (string, error) {
	if compressed {
		return wif.Encode(k, v)
	}
	return wif.EncodeUncompressed(k, v)
}

func init() {
	// C02: coinbase-shaped transactions (one input spending the null outpoint), legacy and segwit: their
	// txid and wtxid are hashes of their serialisations like everybody else's
	regExtra("C02", func(r *Runner) {
		for i := 0; i < r.N(6, 60); i++ {
			t, _ := r.genTx(1, 3)
			t.Inputs = t.Inputs[:1]
			t.Inputs[0].PrevOut.Hash = [32]byte{}
			t.Inputs[0].PrevOut.Index = 0xffffffff
			if i%2 == 0 {
				t.Witnesses = []tx.Witness{{r.bytesN(32)}}
			} else {
				t.Witnesses = nil
			}
			if b := t.Bytes(); b != nil {
				r.Do("tx.dec", []string{hx(b)}, "coinbase-shaped", true, "one input spending the null outpoint")
			}
		}
	})
	// C03: script codes that look like standard templates (they are hashed as given, never rewritten)
	regExtra("C03", func(r *Runner) {
		h20, h32 := r.bytesN(20), r.bytesN(32)
		shapes := [][]byte{
			append([]byte{0x00, 0x14}, h20...),                                           // P2WPKH program
			append([]byte{0x00, 0x20}, h32...),                                           // P2WSH program
			append([]byte{0x51, 0x20}, h32...),                                           // P2TR program
			append(append([]byte{0x76, 0xa9, 0x14}, h20...), 0x88, 0xac),                 // P2PKH
			append(append([]byte{0xa9, 0x14}, h20...), 0x87),                             // P2SH
			append([]byte{0x6a, 0x04}, 1, 2, 3, 4),                                       // OP_RETURN
			append(append([]byte{0x51, 0x21}, append([]byte{2}, h32...)...), 0x51, 0xae), // 1-of-1 multisig
		}
		for _, sc := range shapes {
			t, _ := r.genTx(2, 2)
			enc := hx(t.Bytes())
			for _, ht := range []uint32{1, 2, 3, 0x81, 0x83} {
				for _, nIn := range []int{0, len(t.Inputs) - 1} {
					args := []string{enc, strconv.Itoa(nIn), hx(sc), strconv.FormatUint(uint64(ht), 10)}
					r.Do("sighash.legacy", args, "legacy-template-script-code", true, "")
					r.Do("sighash.legacy.spec", args, "legacy-template-script-code-spec", true, "")
					wargs := append(append([]string{}, args...), strconv.FormatUint(r.u64(), 10))
					r.Do("sighash.bip143", wargs, "bip143-template-script-code", true, "")
					r.Do("sighash.bip143.spec", wargs, "bip143-template-script-code-spec", true, "")
				}
			}
		}
	})
	// C05: valid ECDSA signatures with a chosen s at the ends of the range (s = n-1, n-2, 1, 2, (n-1)/2,
	// (n+1)/2): r = x(kG) mod n, d = (s*k - z)/r mod n, public key dG
	regExtra("C05", func(r *Runner) {
		n := ekliptic.Secp256k1_CurveOrder
		one := big.NewInt(1)
		half := new(big.Int).Rsh(n, 1)
		for i, s := range []*big.Int{new(big.Int).Sub(n, one), new(big.Int).Sub(n, big.NewInt(2)), one, big.NewInt(2), half, new(big.Int).Add(half, one)} {
			k := new(big.Int).SetBytes(r.scalar(0))
			z := new(big.Int).SetBytes(r.bytesN(32))
			rx, _ := ecc.Curve.ScalarBaseMult(k.FillBytes(make([]byte, 32)))
			rr := new(big.Int).Mod(rx, n)
			if rr.Sign() == 0 {
				continue
			}
			d := new(big.Int).Mul(s, k)
			d.Sub(d, z).Mod(d, n)
			d.Mul(d, new(big.Int).ModInverse(rr, n)).Mod(d, n)
			if d.Sign() == 0 {
				continue
			}
			db := d.FillBytes(make([]byte, 32))
			zb := new(big.Int).Mod(z, new(big.Int).Lsh(one, 256)).FillBytes(make([]byte, 32))
			for _, pub := range [][]byte{ecc.GetPublicKeyCompressed(db), ecc.GetPublicKeyUncompressed(db)} {
				args := []string{hx(pub), hx(zb), hx(rr.FillBytes(make([]byte, 32))), hx(s.FillBytes(make([]byte, 32)))}
				r.Do("ecdsa.verify", args, "ecdsa-chosen-s", true, fmt.Sprintf("valid signature with chosen s #%d", i))
				r.Do("ecdsa.verify.spec", args, "ecdsa-chosen-s-spec", true, "")
			}
		}
	})
	// C10: lot and sequence at the ends of their ranges, zero included
	regExtra("C10", func(r *Runner) {
		for _, ls := range [][2]int{{0, 0}, {0, 1}, {1, 0}, {1048575, 4095}} {
			r.Do("bip38.icodelot", []string{hx(r.bytesN(4)), sx("edge"), strconv.Itoa(ls[0]), strconv.Itoa(ls[1])}, "bip38-icode-lot-edge", true, "")
		}
	})
	// C13: dead keys whose x coordinate has a leading zero byte; a pre-hashed leaf of 32 zero (and 32 0xff) bytes
	regExtra("C13", func(r *Runner) {
		found := 0
		for ctr := 1; ctr < 6000 && found < r.N(2, 6); ctr++ {
			proof := sha256.Sum256([]byte(fmt.Sprintf("dead-proof-%d", ctr)))
			proof[0] &= 0x7f
			key := taproot.BuildDeadKey(proof[:])
			if len(key) < 32 || key[0] == 0 {
				r.Do("dead.build", []string{hx(proof[:])}, "dead/key-leading-zero", true, "dead key x with a leading zero byte")
				r.Do("dead.verify", []string{hx(new(big.Int).SetBytes(key).FillBytes(make([]byte, 32))), hx(proof[:])}, "dead/key-leading-zero", true, "")
				found++
			}
		}
		pk := ecc.GetPublicKeySchnorr(r.scalar(0))
		for _, leaf := range []string{strings.Repeat("00", 32), strings.Repeat("ff", 32), strings.Repeat("00", 31) + "01"} {
			r.Do("tap.p2tr", []string{hx(pk), "H:" + leaf}, "p2tr/edge-prehashed-leaf", true, "a pre-hashed leaf with an edge value as the whole tree")
			r.Do("tap.p2tr", []string{hx(pk), "B(H:" + leaf + ",H:" + leaf + ")"}, "p2tr/edge-prehashed-leaf", true, "")
		}
	})
}
