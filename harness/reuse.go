package main

// Reused-buffer re-evaluation.
//
// Every case is first evaluated with freshly allocated argument slices (len == cap), which is what
// the library's own tests do. Changes that keep state between calls keyed on a caller's slice (a
// one-entry cache whose key aliases the argument), that take a fast path when an argument has
// spare capacity, or that write past len(arg) into the caller's backing array are invisible in
// that regime: they need the SAME memory to come back with different contents, or an argument
// with room behind it. So the last few cases are evaluated a second time, back to back, with every
// argument decoded by unhx placed in a per-position buffer that is reused from case to case
// (overwritten in place) and has a patterned spare capacity behind it. The second answer must equal
// the first (the functions are specified as functions of the argument VALUES), and the spare
// capacity must still hold its pattern afterwards.
//
// Operations that legitimately keep references to their arguments (object stores fed over several
// operations), that run in child processes or that are slow are excluded by name below.

import (
	"fmt"
	"os"
	"strings"
	"time"
	"unsafe"
)

const (
	arenaSpare = 128
	arenaBatch = 8
)

var arena struct {
	active bool
	k      int
	slots  [][]byte
	used   [][]byte // slices handed out during the current evaluation
}

var arenaOff = os.Getenv("VERIF_NO_REUSE") != ""

// operations never re-evaluated: stateful stores, child-process containment, schedules
var arenaSkipPrefix = []string{"c17.", "stream.", "reorder.", "race.", "buf."}

// operations whose arguments are documented to be appended to (hash.Hash.Sum(b) appends the digest
// to b): writing into the spare capacity is their contract, only the answer is compared
var arenaAppendOK = map[string]bool{"mh.run": true}

// the operation a case is about: `net.with <net> <op> …` is about <op>
func innerOp(op string, args []string) string {
	if op == "net.with" && len(args) >= 2 {
		return args[1]
	}
	return op
}

func arenaEligible(op string) bool {
	if arenaOff {
		return false
	}
	for _, p := range arenaSkipPrefix {
		if strings.HasPrefix(op, p) {
			return false
		}
	}
	return true
}

func arenaSlice(data []byte) []byte {
	if len(data) > 1<<16 {
		return data
	}
	k := arena.k
	arena.k++
	for len(arena.slots) <= k {
		arena.slots = append(arena.slots, make([]byte, 1024+arenaSpare))
	}
	need := len(data) + arenaSpare
	if need > len(arena.slots[k]) {
		arena.slots[k] = make([]byte, 2*need)
	}
	buf := arena.slots[k]
	copy(buf, data)
	for i := 0; i < arenaSpare; i++ {
		buf[len(data)+i] = 0xA5 ^ byte(i)
	}
	s := buf[: len(data) : len(data)+arenaSpare]
	arena.used = append(arena.used, s)
	return s
}

// inArena reports whether b points into one of the reused buffers (such slices are not followed by
// the retained-results check: a result that is a sub-slice of an argument legitimately changes when
// the caller overwrites the argument).
func inArena(b []byte) bool {
	if cap(b) == 0 {
		return false
	}
	p := uintptr(unsafe.Pointer(unsafe.SliceData(b)))
	for _, s := range arena.slots {
		lo := uintptr(unsafe.Pointer(unsafe.SliceData(s)))
		if p >= lo && p < lo+uintptr(len(s)) {
			return true
		}
	}
	return false
}

type arenaCase struct {
	op   string
	args []string
	ans  string
	tag  string
}

var arenaRing []arenaCase

// noteForReuse remembers an evaluated case; when a batch is full it is re-evaluated.
func (r *Runner) noteForReuse(op string, args []string, ans string, tag string, took time.Duration) {
	if !arenaEligible(op) || took > 30*time.Millisecond || ans == "panic" {
		return
	}
	arenaRing = append(arenaRing, arenaCase{op, args, ans, tag})
	if len(arenaRing) >= arenaBatch {
		r.reuseReplay()
	}
}

func (r *Runner) reuseReplay() {
	batch := arenaRing
	arenaRing = nil
	for i, c := range batch {
		arena.active, arena.k, arena.used = true, 0, arena.used[:0]
		ans2, direct2 := eval(c.op, c.args)
		arena.active = false
		r.res.ReuseEvaluations++
		var hist [][]string
		for _, h := range batch[:i+1] {
			hist = append(hist, append([]string{h.op}, h.args...))
		}
		if ans2 != c.ans {
			r.addFailure(Failure{Kind: "property", Op: c.op, Args: c.args, Go: ans2, Model: c.ans, Tag: c.tag, History: hist,
				Detail: "the answer depends on the memory the arguments live in, not only on their values: evaluated with freshly allocated arguments (shown as model) and again with the arguments placed in buffers reused from the preceding operations, with spare capacity behind them (shown as go); " + firstDiff(ans2, c.ans)}, false)
		}
		for _, d := range direct2 {
			r.addFailure(Failure{Kind: "property", Op: c.op, Args: c.args, Go: ans2, Tag: c.tag, History: hist,
				Detail: "[arguments in reused buffers with spare capacity] " + d}, false)
		}
		for k, s := range arena.used {
			if arenaAppendOK[innerOp(c.op, c.args)] {
				break
			}
			full := s[:cap(s)]
			for j := len(s); j < len(full); j++ {
				if full[j] != 0xA5^byte(j-len(s)) {
					r.addFailure(Failure{Kind: "property", Op: c.op, Args: c.args, Go: ans2, Tag: c.tag, History: hist,
						Detail: fmt.Sprintf("the call wrote into the caller's spare capacity: byte %d past the end of argument buffer #%d (length %d) changed from %02x to %02x; a value held in the same backing array behind the argument is corrupted", j-len(s), k, len(s), 0xA5^byte(j-len(s)), full[j])}, false)
					break
				}
			}
		}
	}
}

// ---- boundary-shifted siblings --------------------------------------------------------------------
//
// (Restricted to the operations listed in siblingOps.) A function of several byte-string arguments must distinguish (a, b) from (a', b') whenever the
// pairs differ, even when a||b == a'||b'. A cache or pre-hash keyed on the plain concatenation of
// the arguments does not. For one case in sixteen, the case that moves a few bytes across the
// boundary between two adjacent byte-string arguments is evaluated right after it (and compared
// with the model like any other case).

var inSibling bool

// decoders of arbitrary text (their handlers and models accept every string): one case in 24 is
// followed by a variant in which one character is replaced by a wider code point with the same low byte
var textDecodeOps = map[string]int{"addr.dec": 2, "addr.dec58": 1, "addr.decbech": 1, "wif.dec": 1, "xkey.deser": 1, "b58.dec": 1, "b58c.dec": 1, "bech32.dec": 1} // value: 1 + index of the text argument

func unhxPlain(s string) []byte {
	b := make([]byte, len(s)/2)
	fmt.Sscanf(s, "%x", &b)
	return b
}

var siblingOps = map[string]bool{"bip39.seed": true, "bip32.master": true, "sha256": true, "dsha256": true, "hash160": true, "rmd160": true}

func isHexArg(s string) bool {
	if s == "-" {
		return true
	}
	if len(s)%2 != 0 || len(s) == 0 {
		return false
	}
	for i := 0; i < len(s); i++ {
		c := s[i]
		if !(c >= '0' && c <= '9' || c >= 'a' && c <= 'f') {
			return false
		}
	}
	return true
}

// operations whose answer must not depend on the selected network (everything that is not an address, a WIF
// string or an extended key): every 24th case is evaluated once more under a network without a segwit prefix
// or under another one, through `net.with`
var netIndependentOps = map[string]bool{
	"tx.dec": true, "tx.enc": true, "blk.dec": true, "hdr.dec": true, "in.dec": true, "out.dec": true, "wit.dec": true,
	"stream.dec": true, "varint.dec": true, "sighash.legacy": true, "sighash.bip143": true,
	"script.decompile": true, "script.strip": true, "merkle.root": true, "nbits.target": true, "der.dec": true, "point.dec": true, "mh.run": true,
	"bech32.dec": true, "b58.dec": true, "b58c.dec": true, "bip39.dec": true, "tap.leaf": true, "tap.p2tr": true,
}
var netCounter int

func (r *Runner) maybeOtherNetwork(op string, args []string, tag string, mode Mode) {
	if inSibling || arenaOff || !netIndependentOps[op] || mode != Full {
		return
	}
	if _, ok := ops[op]; !ok {
		return
	}
	netCounter++
	if netCounter%24 != 7 {
		return
	}
	total := 0
	for _, a := range args {
		total += len(a)
	}
	if total > 1<<16 {
		return
	}
	net := []string{"zec", "ltc", "tbtc"}[(netCounter/24)%3]
	inSibling = true
	r.DoMode("net.with", append([]string{net, op}, args...), tag+"/other-network", false, "the same operation with "+net+" selected", Full)
	inSibling = false
}

func (r *Runner) maybeSibling(op string, args []string, tag string, mode Mode) {
	r.maybeOtherNetwork(op, args, tag, mode)
	// only operations whose handlers and model accept arguments of every length (checked one by one:
	// a shifted boundary must not leave the operation's protocol)
	if ti := textDecodeOps[op] - 1; !inSibling && !arenaOff && ti >= 0 && len(args) > ti && isHexArg(args[ti]) && args[ti] != "-" {
		r.textCounter++
		if r.textCounter%24 == 0 {
			vs := wideRuneVariants(string(unhxPlain(args[ti])), r, 1)
			if len(vs) > 0 {
				sib := append([]string{}, args...)
				sib[ti] = fmt.Sprintf("%x", vs[(r.textCounter/24)%len(vs)])
				inSibling = true
				r.DoMode(op, sib, tag+"/wide-rune", false, "a character replaced by a code point with the same low byte", mode)
				inSibling = false
			}
		}
		return
	}
	if inSibling || arenaOff || !siblingOps[op] {
		return
	}
	r.sibCounter++
	if r.sibCounter%64 == 37 {
		r.lengthWrapSibling(op, args, tag, mode)
		return
	}
	if r.sibCounter%16 != 0 {
		return
	}
	var pairs []int
	for i := 0; i+1 < len(args); i++ {
		if isHexArg(args[i]) && isHexArg(args[i+1]) && (args[i] != "-" || args[i+1] != "-") && len(args[i]) < 4096 && len(args[i+1]) < 4096 {
			pairs = append(pairs, i)
		}
	}
	if len(pairs) == 0 {
		return
	}
	i := pairs[int(r.sibCounter/16)%len(pairs)]
	a, b := strings.TrimPrefix(args[i], "-"), strings.TrimPrefix(args[i+1], "-")
	k := 2 * (1 + int(r.sibCounter/16)%4)
	var na, nb string
	if (r.sibCounter/16)%2 == 0 && len(a) >= k {
		na, nb = a[:len(a)-k], a[len(a)-k:]+b
	} else if len(b) >= k {
		na, nb = a+b[:k], b[k:]
	} else if len(a) >= k {
		na, nb = a[:len(a)-k], a[len(a)-k:]+b
	} else {
		return
	}
	if na == "" {
		na = "-"
	}
	if nb == "" {
		nb = "-"
	}
	sib := append([]string{}, args...)
	sib[i], sib[i+1] = na, nb
	inSibling = true
	defer func() { inSibling = false }()
	r.DoMode(op, sib, tag+"/boundary-shifted", false, "bytes moved across an argument boundary", mode)
}

// ---- length-wrapped siblings ----------------------------------------------------------------------
//
// Length checks computed in a narrow integer type (uint8(len(x)), uint16(len(x))*8 …) accept an
// argument whose length exceeds a valid length by a multiple of 2^8, 2^13 or 2^16. For operations on
// fixed-length binary arguments, one case in 64 is followed by the same case with one argument
// extended by 256, 8192 or 65536 bytes.

var lengthWrapPrefix = []string{"bip32.master", "sha256", "dsha256", "hash160", "rmd160"}

func (r *Runner) lengthWrapSibling(op string, args []string, tag string, mode Mode) {
	ok := false
	for _, p := range lengthWrapPrefix {
		if strings.HasPrefix(op, p) {
			ok = true
		}
	}
	if !ok {
		return
	}
	var cand []int
	for i, a := range args {
		if a != "-" && isHexArg(a) && len(a) <= 256 {
			cand = append(cand, i)
		}
	}
	if len(cand) == 0 {
		return
	}
	n := r.sibCounter / 64
	i := cand[n%len(cand)]
	w := []int{256, 8192, 65536}[(n/len(cand))%3]
	pad := make([]byte, w)
	for j := range pad {
		pad[j] = byte(j*131 + n)
	}
	sib := append([]string{}, args...)
	sib[i] = args[i] + fmt.Sprintf("%x", pad)
	inSibling = true
	defer func() { inSibling = false }()
	r.DoMode(op, sib, tag+"/length-wrapped", false, fmt.Sprintf("one argument extended by %d bytes", w), mode)
}

// ---- context of a failure: the operations evaluated just before it ---------------------------------

var recentOps [][]string

func noteRecent(op string, args []string) {
	n := len(op)
	for _, a := range args {
		n += len(a)
	}
	if n > 20000 {
		return
	}
	recentOps = append(recentOps, append([]string{op}, args...))
	if len(recentOps) > 6 {
		recentOps = recentOps[len(recentOps)-6:]
	}
}

// recentContext returns the operations that preceded (op, args), without that operation itself.
func recentContext(op string, args []string) [][]string {
	out := [][]string{}
	for _, c := range recentOps {
		out = append(out, c)
	}
	if n := len(out); n > 0 && out[n-1][0] == op && strings.Join(out[n-1][1:], " ") == strings.Join(args, " ") {
		out = out[:n-1]
	}
	return out
}
