package main

// C16: block streaming (blockscan + rpc) under controlled schedules — trace validation.
//
// The real `blockscan.BlockScanner` runs against `rpc.NewConnection(...)`; `http.DefaultClient.Transport`
// is replaced in-process by a RoundTripper that PARKS every request.  A controller releases the parked
// requests one at a time, always at a quiescent point (every other goroutine blocked — decided from the
// goroutine states of `runtime.Stack`, never from elapsed time), in an order taken from the schedule,
// with the outcome taken from the fault plan, and records the observable events.
//
// stream.validate <mode> <from> <n> <p> <lazy> <chainseed> <faults> <cancel> <choices> <events>
//   mode     o = StreamBlocks, u = StreamBlocksUnordered, x = UpdateUtxos
//   from,n,p first height, number of blocks (to = from+n-1), parallelism
//   lazy     0 = the consumer calls next() again immediately; 1 = each call is a scheduled action
//   faults   `-` or `<req>:<kind>,…`  req = h<k> | b<k> (getblockhash / getblock of height from+k)
//            kind = t transport error | r RPC error object (code -1) | o RPC error -8 (height out of range) |
//                   f RPC error -5 (not found) | g RPC error -28 (warming up) | a HTTP 401 | z body `null` |
//                   s non-string result | x non-hex block | y truncated block | n block that does not link |
//                   w sibling of the previous block (links, one height lower; Go-side oracles only)
//   cancel   `-` | d<k> (inside the consumer, right after k deliveries; d0 = before the call) |
//            q<k> (by the controller at its k-th quiescent point)
//   choices  `-` or i.j.k… index into the enabled actions at each quiescent point (0 when exhausted), or
//            L<k>: release the getblock response of height from+k as late as possible (everything else first)
//   events   `*` (not recorded) or tokens joined by `,`:
//            q<k>h q<k>b  request seen by the transport      r<k>h:o|e  r<k>b:o|e|n  response released
//            d<k> block from+k delivered   end   err   c (cancel)   uo / ue (UpdateUtxos returned nil / error)
//   The oracle reads mode, n, p and events and answers `ok valid` or `ok invalid <index>`.  The Go side
//   (replay / corpus) re-runs the spec in a child process, reports the direct property oracles and
//   answers `ok valid` (or `panic` when the child died).
//
// Everything that touches blockscan runs in a CHILD process (a panic inside a library goroutine cannot
// be recovered): the harness binary re-executed with VERIF_STREAM_CHILD=1, specs on stdin.

import (
	"bufio"
	"bytes"
	"context"
	"crypto/sha256"
	"encoding/binary"
	"encoding/hex"
	"encoding/json"
	"errors"
	"fmt"
	"io"
	"math/rand"
	"net/http"
	"os"
	"os/exec"
	"runtime"
	"sort"
	"strconv"
	"strings"
	"sync"
	"time"

	"github.com/kklash/bitcoinlib/blocks"
	"github.com/kklash/bitcoinlib/blocks/blockheader"
	"github.com/kklash/bitcoinlib/blocks/merkle"
	"github.com/kklash/bitcoinlib/blockscan"
	"github.com/kklash/bitcoinlib/rpc"
	"github.com/kklash/bitcoinlib/tx"
	"github.com/kklash/bitcoinlib/unspent"
)

// ---------------------------------------------------------------------------------------------
// the synthetic chain

const strmMargin = 2 // blocks served below `from` and above `to` (an off-by-one request gets a block)

type strmChain struct {
	from    uint32
	n       int
	blks    []*blocks.Block // index i = height from - strmMargin + i
	fakes   []*blocks.Block // same height, previous-hash does not link
	hexes   []string
	fakeHex []string
	sibHex  []string // same height and transactions, previous-hash of the block one height lower (a sibling of it)
	hashHex []string
	byHash  map[string]int   // RPC hash string -> height index k (relative to from)
	byId    map[[32]byte]int // header hash of a real or fake block -> k
	watched [][]byte
	initial []*unspent.Output
}

func strmScript(tag byte, i int) []byte {
	return []byte{0x76, 0xa9, tag, byte(i), 0x88, 0xac}
}

func strmBuildChain(from uint32, n int, seed int64) *strmChain {
	rng := rand.New(rand.NewSource(seed*7919 + int64(from)*31 + int64(n)))
	c := &strmChain{from: from, n: n, byHash: map[string]int{}, byId: map[[32]byte]int{}}
	for i := 0; i < 3; i++ {
		c.watched = append(c.watched, strmScript(0x14, i))
	}
	other := strmScript(0x15, 9)
	// outputs that exist before the scan starts (some are spent inside the range)
	var spendable []tx.PrevOut
	for i := 0; i < 3; i++ {
		h := sha256.Sum256([]byte(fmt.Sprintf("pre-%d-%d", seed, i)))
		op := tx.PrevOut{Hash: h, Index: uint32(i)}
		c.initial = append(c.initial, &unspent.Output{Outpoint: &op, TxOut: &tx.Output{Value: uint64(1000 + i), Script: c.watched[i%3]}})
		spendable = append(spendable, op)
	}
	var prev [32]byte
	prev = sha256.Sum256([]byte(fmt.Sprintf("genesis-%d", seed)))
	total := n + 2*strmMargin
	for i := 0; i < total; i++ {
		height := int64(from) - strmMargin + int64(i)
		var txs []*tx.Tx
		// coinbase-like transaction: unique by height
		hb := make([]byte, 8)
		binary.LittleEndian.PutUint64(hb, uint64(height))
		cb := &tx.Tx{Version: 1,
			Inputs:  []*tx.Input{{PrevOut: &tx.PrevOut{Index: 0xffffffff}, Script: append([]byte{8}, hb...), Sequence: 0xffffffff}},
			Outputs: []*tx.Output{{Value: uint64(5000 + rng.Intn(1000)), Script: c.watched[rng.Intn(3)]}, {Value: uint64(rng.Intn(100)), Script: other}},
		}
		txs = append(txs, cb)
		cbHash, _ := cb.Hash(false)
		var created []tx.PrevOut
		created = append(created, tx.PrevOut{Hash: cbHash, Index: 0})
		// a spend of an output created earlier (order of application matters for the final set)
		if len(spendable) > 0 && rng.Intn(4) != 0 {
			j := rng.Intn(len(spendable))
			sp := spendable[j]
			spendable = append(spendable[:j], spendable[j+1:]...)
			st := &tx.Tx{Version: 2,
				Inputs:  []*tx.Input{{PrevOut: &sp, Script: []byte{}, Sequence: 0xfffffffe}},
				Outputs: []*tx.Output{{Value: uint64(100 + rng.Intn(900)), Script: c.watched[rng.Intn(3)]}},
			}
			if rng.Intn(3) == 0 {
				st.Outputs = append(st.Outputs, &tx.Output{Value: 7, Script: other})
			}
			txs = append(txs, st)
			stHash, _ := st.Hash(false)
			created = append(created, tx.PrevOut{Hash: stHash, Index: 0})
		}
		spendable = append(spendable, created...)
		ids := make([][32]byte, len(txs))
		for j, t := range txs {
			ids[j], _ = t.Hash(false)
		}
		hdr := &blockheader.BlockHeader{Version: 0x20000000, PreviousHeaderHash: prev, MerkleRootHash: merkle.MerkleRootHashInternal(ids),
			Time: uint32(1600000000 + height*600), NBits: 0x207fffff, Nonce: uint32(rng.Int63())}
		b := &blocks.Block{Header: hdr, Transactions: txs}
		id, _ := hdr.Hash()
		fh := *hdr
		fh.PreviousHeaderHash = sha256.Sum256([]byte(fmt.Sprintf("nolink-%d-%d", seed, height)))
		fb := &blocks.Block{Header: &fh, Transactions: txs}
		fid, _ := fh.Hash()
		k := i - strmMargin
		c.blks = append(c.blks, b)
		c.fakes = append(c.fakes, fb)
		c.hexes = append(c.hexes, hex.EncodeToString(b.Bytes()))
		c.fakeHex = append(c.fakeHex, hex.EncodeToString(fb.Bytes()))
		// a sibling of the previous block: a valid block whose previous-hash is the one the previous block has,
		// so inside the ordering buffer it competes with the previous block for the same key
		sh := *hdr
		if i > 0 {
			sh.PreviousHeaderHash = c.blks[i-1].Header.PreviousHeaderHash
		} else {
			sh.PreviousHeaderHash = fh.PreviousHeaderHash
		}
		sb := &blocks.Block{Header: &sh, Transactions: txs}
		sid, _ := sh.Hash()
		c.sibHex = append(c.sibHex, hex.EncodeToString(sb.Bytes()))
		c.hashHex = append(c.hashHex, hex.EncodeToString(id[:]))
		c.byHash[hex.EncodeToString(id[:])] = k
		c.byId[id] = k
		c.byId[fid] = k
		c.byId[sid] = k - 1 // where it links, it links one height lower
		prev = id
	}
	return c
}

func (c *strmChain) at(k int) int { return k + strmMargin } // slice index of height index k

func (c *strmChain) inRange(k int) bool { return k >= -strmMargin && k < c.n+strmMargin }

func strmSetString(s *unspent.OutputSet) string {
	outs := s.Slice()
	parts := make([]string, len(outs))
	for i, o := range outs {
		parts[i] = fmt.Sprintf("%x:%d:%d:%x", o.Outpoint.Hash, o.Outpoint.Index, o.TxOut.Value, o.TxOut.Script)
	}
	sort.Strings(parts)
	return strings.Join(parts, ",")
}

func (c *strmChain) freshSet() *unspent.OutputSet {
	outs := make([]*unspent.Output, len(c.initial))
	for i, o := range c.initial {
		outs[i] = o.Clone()
	}
	return unspent.NewOutputSet(outs)
}

// sequentially applying the first k blocks of the range (the reference of utxo_scan_eq_sequential)
func (c *strmChain) sequential(k int) string { return c.sequentialFor(k, c.watched) }

func (c *strmChain) sequentialFor(k int, watched [][]byte) string { return c.sequentialFrom(c.freshSet(), k, watched) }

func (c *strmChain) sequentialFrom(s *unspent.OutputSet, k int, watched [][]byte) string {
	for i := 0; i < k; i++ {
		s.UpdateFromBlock(c.blks[c.at(i)], watched)
	}
	return strmSetString(s)
}

// ---------------------------------------------------------------------------------------------
// spec of one run

type strmSpec struct {
	mode    string
	from    uint32
	n, p    int
	lazy    bool
	seed    int64
	faults  map[string]byte // "h0" / "b2" -> kind
	fstr    string
	cancel  string
	choices []int
	late    int        // >= 0: policy L<k>
	rnd     *rand.Rand // random choices instead of the list (child-side random batches)
}

func strmParseSpec(f []string) (*strmSpec, error) {
	if len(f) < 9 {
		return nil, errors.New("spec needs 9 fields")
	}
	s := &strmSpec{mode: f[0], faults: map[string]byte{}, fstr: f[6], cancel: f[7], late: -1}
	if s.mode != "o" && s.mode != "u" && s.mode != "x" && s.mode != "z" && s.mode != "e" {
		return nil, errors.New("mode")
	}
	from, e1 := strconv.ParseUint(f[1], 10, 32)
	n, e2 := strconv.Atoi(f[2])
	p, e3 := strconv.Atoi(f[3])
	seed, e4 := strconv.ParseInt(f[5], 10, 64)
	if e1 != nil || e2 != nil || e3 != nil || e4 != nil || n < 1 || n > 1200 || p < 1 || p > 64 || from < strmMargin || from > 1<<30 {
		return nil, errors.New("numbers")
	}
	s.from, s.n, s.p, s.seed, s.lazy = uint32(from), n, p, seed, f[4] == "1"
	if f[6] != "-" {
		for _, it := range strings.Split(f[6], ",") {
			kv := strings.Split(it, ":")
			if len(kv) != 2 || len(kv[1]) != 1 || len(kv[0]) < 2 || !strings.Contains("trazofgsxynw", kv[1]) {
				return nil, errors.New("fault")
			}
			s.faults[kv[0]] = kv[1][0]
		}
	}
	if strings.HasPrefix(f[8], "L") {
		v, err := strconv.Atoi(f[8][1:])
		if err != nil || v < 0 {
			return nil, errors.New("late")
		}
		s.late = v
	} else if f[8] != "-" {
		for _, it := range strings.Split(f[8], ".") {
			v, err := strconv.Atoi(it)
			if err != nil || v < 0 {
				return nil, errors.New("choice")
			}
			s.choices = append(s.choices, v)
		}
	}
	return s, nil
}

func (s *strmSpec) fields(choices []int) []string {
	ch := "-"
	if s.late >= 0 {
		ch = fmt.Sprintf("L%d", s.late)
	} else if len(choices) > 0 {
		parts := make([]string, len(choices))
		for i, v := range choices {
			parts[i] = strconv.Itoa(v)
		}
		ch = strings.Join(parts, ".")
	}
	lazy := "0"
	if s.lazy {
		lazy = "1"
	}
	return []string{s.mode, fmt.Sprint(s.from), fmt.Sprint(s.n), fmt.Sprint(s.p), lazy, fmt.Sprint(s.seed), s.fstr, s.cancel, ch}
}

// ---------------------------------------------------------------------------------------------
// the parking transport (child side)

type strmResp struct {
	status int
	body   string
	err    error
}

type strmReq struct {
	id    int
	k     int    // height index relative to from
	kind  byte   // 'h' or 'b'
	rpcID string // raw JSON id
	resp  chan strmResp
}

type strmRun struct {
	mu     sync.Mutex
	host   string
	chain  *strmChain
	events []string
	parked []*strmReq
	nreq   int
}

func (r *strmRun) log(ev string) {
	r.mu.Lock()
	r.events = append(r.events, ev)
	r.mu.Unlock()
}

type strmTransport struct {
	mu  sync.Mutex
	cur *strmRun
}

var strmTheTransport = &strmTransport{}

func (t *strmTransport) RoundTrip(req *http.Request) (*http.Response, error) {
	t.mu.Lock()
	run := t.cur
	t.mu.Unlock()
	var body []byte
	if req.Body != nil {
		body, _ = io.ReadAll(req.Body)
		req.Body.Close()
	}
	if run == nil || req.URL.Host != run.host {
		return nil, errors.New("stale request of an earlier run")
	}
	var msg struct {
		Method string            `json:"method"`
		Params []json.RawMessage `json:"params"`
		ID     json.RawMessage   `json:"id"`
	}
	json.Unmarshal(body, &msg)
	pr := &strmReq{k: -1000, resp: make(chan strmResp, 1), rpcID: string(msg.ID)}
	switch msg.Method {
	case "getblockhash":
		pr.kind = 'h'
		var h int64
		if len(msg.Params) >= 1 && json.Unmarshal(msg.Params[0], &h) == nil {
			pr.k = int(h - int64(run.chain.from))
		}
	case "getblock":
		pr.kind = 'b'
		var hs string
		if len(msg.Params) >= 1 && json.Unmarshal(msg.Params[0], &hs) == nil {
			if k, ok := run.chain.byHash[hs]; ok {
				pr.k = k
			}
		}
	default:
		pr.kind = '?'
	}
	run.mu.Lock()
	pr.id = run.nreq
	run.nreq++
	run.events = append(run.events, fmt.Sprintf("q%d%c", pr.k, pr.kind))
	run.parked = append(run.parked, pr)
	run.mu.Unlock()
	rs := <-pr.resp
	if rs.err != nil {
		return nil, rs.err
	}
	return &http.Response{StatusCode: rs.status, Status: fmt.Sprint(rs.status), Proto: "HTTP/1.1", ProtoMajor: 1, ProtoMinor: 1,
		Header: http.Header{"Content-Type": []string{"application/json"}}, Body: io.NopCloser(strings.NewReader(rs.body)),
		ContentLength: int64(len(rs.body)), Request: req}, nil
}

// response for a request under a fault kind (0 = none); outcome is the model-level class
func (run *strmRun) respond(pr *strmReq, kind byte) (strmResp, string) {
	c := run.chain
	okBody := func(result string) string {
		return `{"result":` + result + `,"error":null,"id":` + pr.rpcID + "}\n"
	}
	if pr.kind != 'h' && pr.kind != 'b' || !c.inRange(pr.k) {
		return strmResp{status: 500, body: `{"result":null,"error":{"code":-8,"message":"Block height out of range"},"id":` + pr.rpcID + "}\n"}, "e"
	}
	switch kind {
	case 't':
		return strmResp{err: errors.New("dial tcp: connection refused (injected)")}, "e"
	case 'r':
		return strmResp{status: 500, body: `{"result":null,"error":{"code":-1,"message":"injected failure"},"id":` + pr.rpcID + "}\n"}, "e"
	case 'o': // the answer bitcoind gives for a height beyond its tip
		return strmResp{status: 500, body: `{"result":null,"error":{"code":-8,"message":"Block height out of range"},"id":` + pr.rpcID + "}\n"}, "e"
	case 'f':
		return strmResp{status: 500, body: `{"result":null,"error":{"code":-5,"message":"Block not found"},"id":` + pr.rpcID + "}\n"}, "e"
	case 'g': // every attempt for this request is answered "still warming up"
		return strmResp{status: 500, body: `{"result":null,"error":{"code":-28,"message":"Loading block index..."},"id":` + pr.rpcID + "}\n"}, "e"
	case 'a':
		return strmResp{status: 401, body: ""}, "e"
	case 'z':
		return strmResp{status: 200, body: "null"}, "e"
	}
	if pr.kind == 'h' {
		return strmResp{status: 200, body: okBody(`"` + c.hashHex[c.at(pr.k)] + `"`)}, "o"
	}
	switch kind {
	case 's':
		return strmResp{status: 200, body: okBody("12345")}, "e"
	case 'x':
		return strmResp{status: 200, body: okBody(`"zz` + c.hexes[c.at(pr.k)][2:] + `"`)}, "e"
	case 'y':
		h := c.hexes[c.at(pr.k)]
		return strmResp{status: 200, body: okBody(`"` + h[:len(h)/2] + `"`)}, "e"
	case 'n':
		return strmResp{status: 200, body: okBody(`"` + c.fakeHex[c.at(pr.k)] + `"`)}, "n"
	case 'w':
		return strmResp{status: 200, body: okBody(`"` + c.sibHex[c.at(pr.k)] + `"`)}, "w"
	}
	return strmResp{status: 200, body: okBody(`"` + c.hexes[c.at(pr.k)] + `"`)}, "o"
}

// ---------------------------------------------------------------------------------------------
// quiescence: every goroutine except the caller is blocked

var strmStackBuf = make([]byte, 1<<20)

func strmAllBlocked() bool {
	n := runtime.Stack(strmStackBuf, true)
	for n == len(strmStackBuf) {
		strmStackBuf = make([]byte, 2*len(strmStackBuf))
		n = runtime.Stack(strmStackBuf, true)
	}
	buf := strmStackBuf[:n]
	first := true
	for len(buf) > 0 {
		// header: "goroutine 12 [chan receive, 2 minutes]:"
		if bytes.HasPrefix(buf, []byte("goroutine ")) {
			lb := bytes.IndexByte(buf, '[')
			rb := bytes.IndexByte(buf, ']')
			if lb > 0 && rb > lb {
				if first {
					first = false // the caller itself (always listed first)
				} else {
					st := string(buf[lb+1 : rb])
					if i := strings.IndexByte(st, ','); i >= 0 {
						st = st[:i]
					}
					switch st {
					case "chan receive", "chan send", "select", "semacquire", "sync.WaitGroup.Wait", "sync.Mutex.Lock",
						"sync.RWMutex.Lock", "sync.RWMutex.RLock", "sync.Cond.Wait", "select (no cases)",
						"chan receive (nil chan)", "chan send (nil chan)", "finalizer wait", "GC worker (idle)",
						"GC sweep wait", "GC scavenge wait", "force gc (idle)", "cleanup wait":
					default:
						return false
					}
				}
			}
		}
		i := bytes.Index(buf, []byte("\n\n"))
		if i < 0 {
			break
		}
		buf = buf[i+2:]
	}
	return true
}

var errStrmHang = errors.New("no quiescent point reached")

func strmWaitQuiescent(limit time.Duration) error {
	t0 := time.Now()
	for i := 0; ; i++ {
		for j := 0; j < 4; j++ {
			runtime.Gosched()
		}
		if strmAllBlocked() {
			return nil
		}
		if i > 50 {
			time.Sleep(50 * time.Microsecond)
		}
		if i&63 == 63 && time.Since(t0) > limit {
			return errStrmHang
		}
	}
}

// ---------------------------------------------------------------------------------------------
// one run (child side)

type strmOutcome struct {
	events    []string
	direct    []string
	branching []int // number of enabled actions at every choice point
	choices   []int // the choices taken
}

var strmRunCounter int

var strmChainCache = map[string]*strmChain{}

func strmRunOne(s *strmSpec) *strmOutcome {
	ck := fmt.Sprintf("%d/%d/%d", s.from, s.n, s.seed)
	chain := strmChainCache[ck]
	if chain == nil {
		chain = strmBuildChain(s.from, s.n, s.seed)
		strmChainCache[ck] = chain
	}
	strmRunCounter++
	run := &strmRun{host: fmt.Sprintf("run%d.invalid:8332", strmRunCounter), chain: chain}
	strmTheTransport.mu.Lock()
	strmTheTransport.cur = run
	strmTheTransport.mu.Unlock()
	out := &strmOutcome{}
	fail := func(format string, a ...any) { out.direct = append(out.direct, fmt.Sprintf(format, a...)) }

	conn, err := rpc.NewConnection("http://"+run.host+"/", "user", "pass")
	if err != nil {
		fail("rpc.NewConnection: %v", err)
		return out
	}
	scanner := blockscan.NewBlockScanner(conn)
	ctx, cancelFn := context.WithCancel(context.Background())
	defer cancelFn()
	to := s.from + uint32(s.n) - 1

	var (
		cmu        sync.Mutex
		cancelled  bool
		delivered  []int
		sawErr     int
		sawEnd     bool
		finished   bool // the consumer will make no further call
		idle       bool // lazy consumer waiting for permission
		utxoErr    error
		utxoDone   bool
		tooMany    bool
		cancelAtD  = -1
		cancelAtQ  = -1
		permission = make(chan struct{})
	)
	if strings.HasPrefix(s.cancel, "d") {
		cancelAtD, _ = strconv.Atoi(s.cancel[1:])
	} else if strings.HasPrefix(s.cancel, "q") {
		cancelAtQ, _ = strconv.Atoi(s.cancel[1:])
	}
	doCancel := func() {
		cmu.Lock()
		already := cancelled
		cancelled = true
		cmu.Unlock()
		if !already {
			run.log("c")
			cancelFn()
		}
	}
	onDelivery := func(k int) {
		run.log(fmt.Sprintf("d%d", k))
		cmu.Lock()
		delivered = append(delivered, k)
		nd := len(delivered)
		cmu.Unlock()
		if nd == cancelAtD {
			doCancel()
		}
	}
	if cancelAtD == 0 {
		doCancel()
	}

	set := chain.freshSet()
	if s.mode == "e" { // the first scan of a wallet: nothing is known yet
		set = unspent.NewOutputSet(nil)
	}
	startSet := func() *unspent.OutputSet {
		if s.mode == "e" {
			return unspent.NewOutputSet(nil)
		}
		return chain.freshSet()
	}
	watched := chain.watched
	if s.mode == "z" { // a scan that only prunes: no script to look for (nil and empty alternate)
		watched = nil
		if s.seed%2 == 0 {
			watched = [][]byte{}
		}
	}
	switch s.mode {
	case "o", "u":
		var next blockscan.NextBlockFunc
		if s.mode == "o" {
			next = scanner.StreamBlocks(ctx, s.from, to, uint32(s.p))
		} else {
			next = scanner.StreamBlocksUnordered(ctx, s.from, to, uint32(s.p))
		}
		go func() {
			for calls := 0; ; calls++ {
				if s.lazy {
					cmu.Lock()
					idle = true
					cmu.Unlock()
					<-permission
				}
				if calls > 3*s.n+8 {
					cmu.Lock()
					tooMany, finished = true, true
					cmu.Unlock()
					return
				}
				b, err := next()
				switch {
				case err != nil:
					run.log("err")
					cmu.Lock()
					sawErr++
					cmu.Unlock()
				case b == nil:
					run.log("end")
					cmu.Lock()
					sawEnd, finished = true, true
					cmu.Unlock()
					return
				default:
					k := -1000
					if b.Header != nil {
						if id, err := b.Header.Hash(); err == nil {
							if kk, ok := chain.byId[id]; ok {
								k = kk
							}
						}
					}
					onDelivery(k)
				}
			}
		}()
	case "x", "z", "e":
		go func() {
			err := scanner.UpdateUtxos(ctx, set, watched, s.from, to, uint32(s.p), func(h uint32) {
				onDelivery(int(int64(h) - int64(s.from)))
			})
			if err != nil {
				run.log("ue")
			} else {
				run.log("uo")
			}
			cmu.Lock()
			utxoErr, utxoDone, finished = err, true, true
			cmu.Unlock()
		}()
	}

	// the controller
	faultsReleased := 0 // err-class outcomes released
	nolinkReleased := []int{}
	hang := false
	confirmations := 0
	for step := 0; ; step++ {
		if err := strmWaitQuiescent(30 * time.Second); err != nil {
			hang = true
			break
		}
		if step == cancelAtQ {
			doCancel()
			continue
		}
		run.mu.Lock()
		parked := append([]*strmReq{}, run.parked...)
		run.mu.Unlock()
		sort.Slice(parked, func(i, j int) bool {
			if parked[i].k != parked[j].k {
				return parked[i].k < parked[j].k
			}
			if parked[i].kind != parked[j].kind {
				return parked[i].kind < parked[j].kind
			}
			return parked[i].id < parked[j].id
		})
		cmu.Lock()
		canCall := s.lazy && idle && !finished
		cmu.Unlock()
		nEnabled := len(parked)
		if canCall {
			nEnabled++
		}
		if nEnabled == 0 {
			// Nothing to release. Either the run is over, or every goroutine is blocked for good (a
			// deadlock), or the snapshot caught a goroutine that was about to make progress without being
			// runnable yet (a netpoller or timer wake-up, a goroutine in a system call). A deadlock is only
			// declared when the state persists over real time.
			cmu.Lock()
			fin := finished
			cmu.Unlock()
			if fin || confirmations >= 4 {
				break
			}
			confirmations++
			time.Sleep(time.Duration(25<<confirmations) * time.Millisecond)
			step-- // not a new quiescent point
			continue
		}
		confirmations = 0
		pick := 0
		if nEnabled > 1 {
			if s.late >= 0 {
				for pick < len(parked) && parked[pick].kind == 'b' && parked[pick].k == s.late {
					pick++
				}
				if pick >= nEnabled {
					pick = 0
				}
			} else if s.rnd != nil {
				pick = s.rnd.Intn(nEnabled)
			} else if len(out.choices) < len(s.choices) {
				pick = s.choices[len(out.choices)] % nEnabled
			}
			out.branching = append(out.branching, nEnabled)
			out.choices = append(out.choices, pick)
		}
		if pick == len(parked) { // the consumer's next call
			cmu.Lock()
			idle = false
			cmu.Unlock()
			permission <- struct{}{}
			continue
		}
		pr := parked[pick]
		kind := s.faults[fmt.Sprintf("%c%d", pr.kind, pr.k)]
		if pr.kind == 'h' && strings.IndexByte("sxynw", kind) >= 0 {
			kind = 0 // block-only kinds do not apply to getblockhash
		}
		rs, class := run.respond(pr, kind)
		if class == "e" {
			faultsReleased++
		} else if class == "n" || class == "w" {
			nolinkReleased = append(nolinkReleased, pr.k)
		}
		run.mu.Lock()
		for i, q := range run.parked {
			if q == pr {
				run.parked = append(run.parked[:i], run.parked[i+1:]...)
				break
			}
		}
		run.events = append(run.events, fmt.Sprintf("r%d%c:%s", pr.k, pr.kind, class))
		run.mu.Unlock()
		pr.resp <- rs
	}

	run.mu.Lock()
	out.events = append([]string{}, run.events...)
	run.mu.Unlock()
	cmu.Lock()
	defer cmu.Unlock()

	// ---- direct property oracles (Go side alone; independent of the Lean model) ----
	if hang {
		fail("HANG: no quiescent point within 30 s")
		return out
	}
	if tooMany {
		fail("the stream never signalled its end (%d calls of next)", 3*s.n+9)
	}
	if !finished {
		n := runtime.Stack(strmStackBuf, true)
		dump := string(strmStackBuf[:n])
		if len(dump) > 6000 {
			dump = dump[:6000]
		}
		fail("DEADLOCK: every goroutine is blocked, no RPC is outstanding and the consumer is still waiting, and this persisted for 0.7 s (delivered %v, cancelled %v); goroutines: %s", delivered, cancelled, strings.ReplaceAll(dump, "\n", " | "))
	}
	// a non-linking block counts as a fault where links are checked: ordered streaming of a block after the first
	// (a replaced first block breaks the link of its successor, when there is one)
	linkFault := false
	if s.mode != "u" {
		for _, k := range nolinkReleased {
			if k > 0 || s.n > 1 {
				linkFault = true
			}
		}
	}
	faulty := faultsReleased > 0 || linkFault
	// delivered heights
	seen := map[int]bool{}
	for i, k := range delivered {
		if k < 0 || k >= s.n {
			fail("delivered a block outside the requested range (index %d)", k)
		}
		if seen[k] {
			fail("block %d delivered twice", k)
		}
		seen[k] = true
		if s.mode != "u" && k != i {
			fail("delivery %d is block %d: not ascending/contiguous from the first height (%v)", i, k, delivered)
			break
		}
	}
	switch s.mode {
	case "o", "u":
		if finished && sawEnd && !cancelled && sawErr == 0 && len(delivered) != s.n {
			fail("FALSE SUCCESS: end of stream without error or cancel after %d of %d blocks", len(delivered), s.n)
		}
		if finished && !faulty && !cancelled && (sawErr > 0 || len(delivered) != s.n || !sawEnd) {
			fail("no fault and no cancel, but delivered %d of %d blocks, %d errors, end=%v", len(delivered), s.n, sawErr, sawEnd)
		}
		if finished && faulty && !cancelled && sawErr == 0 {
			fail("a fault was injected (%s) but no call returned an error", s.fstr)
		}
	case "x", "z", "e":
		if utxoDone {
			got := strmSetString(set)
			if utxoErr == nil {
				if len(delivered) != s.n {
					fail("FALSE SUCCESS: UpdateUtxos returned nil after %d of %d blocks", len(delivered), s.n)
				} else if got != chain.sequentialFrom(startSet(), s.n, watched) {
					fail("UTXO set after the scan differs from applying the blocks sequentially")
				}
				if faulty {
					fail("a fault was injected (%s) but UpdateUtxos returned nil", s.fstr)
				}
			} else {
				if !faulty && !cancelled {
					fail("no fault and no cancel, but UpdateUtxos returned an error: %v", utxoErr)
				}
				if got != chain.sequentialFrom(startSet(), len(delivered), watched) {
					fail("UTXO set after a failed scan differs from applying the %d scanned blocks sequentially", len(delivered))
				}
			}
		}
	}
	return out
}

// ---------------------------------------------------------------------------------------------
// child process: specs on stdin, `B <spec>` / `E <events>\t<direct;…>\t<branching>` on stdout
//   run <9 spec fields>                     one run
//   dfs <9 spec fields> <maxruns>           every choice sequence extending the given prefix (depth first)
//   rand <9 spec fields> <seed> <count>     random choices

func strmChildMain() {
	runtime.GOMAXPROCS(1)
	if v, err := strconv.Atoi(os.Getenv("VERIF_STREAM_PROCS")); err == nil && v >= 1 {
		runtime.GOMAXPROCS(v)
	}
	http.DefaultClient.Transport = strmTheTransport
	w := bufio.NewWriter(os.Stdout)
	emit := func(s *strmSpec) *strmOutcome {
		fmt.Fprintln(w, "B "+strings.Join(s.fields(s.choices), " "))
		w.Flush()
		o := strmRunOne(s)
		ev := strings.Join(o.events, ",")
		if ev == "" {
			ev = "-"
		}
		ch := make([]string, len(o.choices))
		for i := range o.choices {
			ch[i] = fmt.Sprintf("%d/%d", o.choices[i], o.branching[i])
		}
		fmt.Fprintf(w, "E %s\t%s\t%s\n", ev, strings.Join(o.direct, ";"), strings.Join(ch, "."))
		w.Flush()
		return o
	}
	sc := bufio.NewScanner(os.Stdin)
	sc.Buffer(make([]byte, 1<<20), 1<<20)
	for sc.Scan() {
		f := strings.Fields(sc.Text())
		if len(f) < 10 {
			continue
		}
		s, err := strmParseSpec(f[1:10])
		if err != nil {
			fmt.Fprintln(w, "X bad spec: "+sc.Text())
			w.Flush()
			continue
		}
		switch f[0] {
		case "run":
			emit(s)
		case "rand":
			if len(f) < 12 {
				continue
			}
			seed, _ := strconv.ParseInt(f[10], 10, 64)
			count, _ := strconv.Atoi(f[11])
			rng := rand.New(rand.NewSource(seed))
			for i := 0; i < count; i++ {
				// the choices are drawn here so that the B line is a complete, replayable spec
				cs := make([]int, 4*s.n+8)
				for j := range cs {
					cs[j] = rng.Intn(720720)
				}
				t := *s
				t.choices = cs
				emit(&t)
			}
		case "dfs":
			max := 1 << 30
			if len(f) >= 11 {
				max, _ = strconv.Atoi(f[10])
			}
			prefix := append([]int{}, s.choices...)
			path := append([]int{}, prefix...)
			for runs := 0; runs < max; runs++ {
				t := *s
				t.choices = path
				o := emit(&t)
				// next path: deepest choice point (beyond the fixed prefix) that still has an untried branch
				i := len(o.choices) - 1
				for i >= len(prefix) && o.choices[i]+1 >= o.branching[i] {
					i--
				}
				if i < len(prefix) {
					break
				}
				path = append(append([]int{}, o.choices[:i]...), o.choices[i]+1)
			}
			fmt.Fprintln(w, "D")
			w.Flush()
		}
	}
	w.Flush()
}

func init() {
	if os.Getenv("VERIF_STREAM_CHILD") != "" {
		strmChildMain()
		os.Exit(0)
	}
}

// ---------------------------------------------------------------------------------------------
// parent side: run a batch of child commands with a watchdog

type strmResult struct {
	spec    []string // the 9 spec fields of the run
	events  string   // "*" when the run did not finish
	direct  []string
	crashed bool
	detail  string
}

const strmStall = 60 * time.Second

// strmChild runs the commands in one child; it returns the finished runs, and for a run that was begun
// but never finished a result with crashed=true (process died) or detail "stall" (watchdog).
func strmChild(cmds []string, procs int, stall time.Duration) (results []*strmResult, completed bool) {
	exe, err := os.Executable()
	if err != nil {
		exe = os.Args[0]
	}
	cmd := exec.Command(exe, "-child", "stream")
	cmd.Env = append(os.Environ(), "VERIF_STREAM_CHILD=1", "GOTRACEBACK=single")
	if procs > 1 {
		cmd.Env = append(cmd.Env, fmt.Sprintf("VERIF_STREAM_PROCS=%d", procs))
	}
	cmd.Stdin = strings.NewReader(strings.Join(cmds, "\n") + "\n")
	stdout, _ := cmd.StdoutPipe()
	var stderr bytes.Buffer
	cmd.Stderr = &stderr
	if err := cmd.Start(); err != nil {
		return []*strmResult{{events: "*", crashed: true, detail: "cannot start child: " + err.Error()}}, false
	}
	lines := make(chan string, 1024)
	go func() {
		sc := bufio.NewScanner(stdout)
		sc.Buffer(make([]byte, 1<<22), 1<<22)
		for sc.Scan() {
			lines <- sc.Text()
		}
		close(lines)
	}()
	var cur []string
	timer := time.NewTimer(stall)
	defer timer.Stop()
	for {
		select {
		case l, ok := <-lines:
			if !ok {
				err := cmd.Wait()
				if cur != nil || err != nil {
					msg := strings.TrimSpace(stderr.String())
					if i := strings.Index(msg, "\n\ngoroutine "); i > 0 {
						j := strings.Index(msg[i+2:], "\n\n")
						if j > 0 && i+2+j < 1500 {
							msg = msg[:i+2+j]
						} else {
							msg = msg[:i]
						}
					}
					if len(msg) > 1500 {
						msg = msg[:1500]
					}
					results = append(results, &strmResult{spec: cur, events: "*", crashed: true, detail: fmt.Sprintf("child process died (%v): %s", err, msg)})
					return results, false
				}
				return results, true
			}
			if !timer.Stop() {
				select {
				case <-timer.C:
				default:
				}
			}
			timer.Reset(stall)
			switch {
			case strings.HasPrefix(l, "B "):
				cur = strings.Fields(l[2:])
			case strings.HasPrefix(l, "E "):
				parts := strings.Split(l[2:], "\t")
				res := &strmResult{spec: cur, events: parts[0]}
				if len(parts) > 1 && parts[1] != "" {
					res.direct = strings.Split(parts[1], ";")
				}
				results = append(results, res)
				cur = nil
			}
		case <-timer.C:
			cmd.Process.Kill()
			cmd.Wait()
			results = append(results, &strmResult{spec: cur, events: "*", detail: "stall"})
			return results, false
		}
	}
}

// strmConfirm re-runs one spec alone (three times) and tells whether the crash / stall reproduces.
func strmConfirm(spec []string) (reproduced bool, detail string) {
	if spec == nil {
		return true, "the child died outside a run"
	}
	for i := 0; i < 3; i++ {
		rs, ok := strmChild([]string{"run " + strings.Join(spec, " ")}, 1, strmStall)
		if !ok && len(rs) > 0 {
			last := rs[len(rs)-1]
			if last.crashed {
				return true, last.detail
			}
			if last.detail == "stall" {
				return true, "no progress for 60 s (reproduced in isolation)"
			}
		}
	}
	return false, ""
}

// a verdict that depends on elapsed time (the in-child 30 s quiescence limit) is kept only if it shows
// again when the spec is re-run alone, three times at most
func strmHangReproduces(spec []string) bool {
	for i := 0; i < 3; i++ {
		rs, ok := strmChild([]string{"run " + strings.Join(spec, " ")}, 1, strmStall)
		if !ok {
			return true
		}
		for _, res := range rs {
			for _, d := range res.direct {
				if strings.HasPrefix(d, "HANG") {
					return true
				}
			}
		}
	}
	return false
}

func (r *Runner) strmAdd(res *strmResult, tag string) {
	for i, d := range res.direct {
		if strings.HasPrefix(d, "HANG") && len(res.spec) == 9 && !strmHangReproduces(res.spec) {
			res.direct = append(res.direct[:i:i], res.direct[i+1:]...)
			r.res.Notes = append(r.res.Notes, "a 30 s quiescence timeout did not reproduce in isolation: "+strings.Join(res.spec, " "))
			break
		}
	}
	args := append(append([]string{}, res.spec...), res.events)
	c := &Case{Op: "stream.validate", Args: args, Go: "ok valid", Mode: Full, Direct: res.direct, NonTrivial: true, Tag: tag}
	long := false
	if len(res.spec) == 9 {
		if n, err := strconv.Atoi(res.spec[2]); err == nil && n > 64 {
			long = true // a trace of thousands of events: the Go-side oracles and the ordering-buffer model only
		}
	}
	if len(res.spec) == 9 && (strings.Contains(res.spec[6], ":w") || res.spec[0] == "z" || long) {
		// a sibling block is an environment behaviour the transition system does not have (its buffer is a
		// list of heights, not a map keyed by previous-hash): these runs are judged by the Go-side oracles alone;
		// so are the scans without a script to look for (the transition system has no such parameter)
		c.Op, c.Mode, c.Go = "stream.direct", GoOnly, "ok"
		if res.spec[0] == "o" && res.spec[7] == "-" && !res.crashed && res.detail == "" && strmOnlyLinkFaults(res.spec[6]) {
			// ordered streaming with link faults only and no cancel: the observed outcome must be the one the
			// map-level model of the ordering buffer (Model/Reorder.lean) computes from the released responses
			c.Op, c.Mode, c.Go = "reorder.run", Full, strmObservedOutcome(res.events)
		}
	}
	if res.crashed {
		c.Go = "panic"
		c.Direct = append(c.Direct, "PANIC: "+res.detail)
	} else if res.detail != "" {
		c.Direct = append(c.Direct, res.detail)
	}
	r.Add(c)
	// ordered streaming without cancel and without RPC errors (none, or non-linking blocks only): the outcome is
	// also the one of the map-level model of the ordering buffer
	if (c.Op == "stream.validate" || (long && c.Op == "stream.direct")) && len(res.spec) == 9 && res.spec[0] == "o" && res.spec[7] == "-" && !res.crashed && res.detail == "" &&
		(res.spec[6] == "-" || strmOnlyLinkFaults(res.spec[6])) && res.spec[2] != "1" {
		r.Add(&Case{Op: "reorder.run", Args: append([]string{}, args...), Go: strmObservedOutcome(res.events), Mode: Full, NonTrivial: true, Tag: tag + " / ordering buffer"})
	}
}

func strmOnlyLinkFaults(plan string) bool {
	for _, it := range strings.Split(plan, ",") {
		if !strings.HasSuffix(it, ":w") && !strings.HasSuffix(it, ":n") {
			return false
		}
		if strings.HasPrefix(it, "b0:") || strings.HasPrefix(it, "h") {
			return false
		}
	}
	return true
}

// what the consumer saw: how the stream ended and the heights (relative to from) delivered after the first
func strmObservedOutcome(events string) string {
	var del []string
	sawErr, sawEnd := false, false
	for _, tok := range strings.Split(events, ",") {
		switch {
		case tok == "err":
			sawErr = true
		case tok == "end":
			sawEnd = true
		case strings.HasPrefix(tok, "d") && tok != "d0":
			del = append(del, tok[1:])
		}
	}
	res := "running"
	if sawErr {
		res = "err"
	} else if sawEnd {
		res = "done"
	}
	return "ok " + res + " " + strings.Join(del, ",")
}

// strmBatch runs child commands (split over several children), adds every finished run as a case and
// pins crashes / stalls by an isolated re-run.
func (r *Runner) strmBatch(cmds []string, tag string, procs int) {
	const perChild = 40
	for len(cmds) > 0 {
		// enough evidence: a tree on which run after run hangs or stalls (each costs its time limit, and
		// its confirmation runs) is not explored to the end
		if len(r.res.Failures)+r.res.truncFailures >= 12 {
			r.res.Notes = append(r.res.Notes, fmt.Sprintf("%d runs not executed after 12 failures", len(cmds)))
			return
		}
		k := perChild
		if k > len(cmds) {
			k = len(cmds)
		}
		chunk := cmds[:k]
		cmds = cmds[k:]
		for len(chunk) > 0 {
			if len(r.res.Failures)+r.res.truncFailures >= 12 {
				break
			}
			results, ok := strmChild(chunk, procs, strmStall)
			done := 0
			for _, res := range results {
				if res.crashed || res.detail == "stall" {
					rep, detail := strmConfirm(res.spec)
					if rep {
						res.crashed = res.crashed || strings.Contains(detail, "died")
						res.detail = detail
						if res.spec == nil {
							res.spec = []string{"o", "0", "0", "0", "0", "0", "-", "-", "-"}
						}
						r.strmAdd(res, tag)
					} else {
						r.res.Notes = append(r.res.Notes, "a stall/crash did not reproduce in isolation: "+strings.Join(res.spec, " "))
					}
					continue
				}
				r.strmAdd(res, tag)
				if len(res.spec) > 0 {
					done++
				}
			}
			if ok {
				break
			}
			// the child stopped early: skip the command it was working on (a dfs/rand command is abandoned)
			idx := strmCommandIndex(chunk, results)
			if idx+1 >= len(chunk) {
				break
			}
			chunk = chunk[idx+1:]
		}
	}
}

// index of the command the child was executing when it stopped: commands are executed in order and every
// `run` yields exactly one result; for dfs/rand commands we conservatively count them as consumed.
func strmCommandIndex(chunk []string, results []*strmResult) int {
	finished := 0
	for _, res := range results {
		if !res.crashed && res.detail != "stall" {
			finished++
		}
	}
	idx := 0
	for idx < len(chunk) && strings.HasPrefix(chunk[idx], "run ") && finished > 0 {
		idx++
		finished--
	}
	return idx
}

// ---------------------------------------------------------------------------------------------
// registered op (replay / corpus) and the generator

func init() {
	reg("stream.validate", Full, func(args []string) (string, []string) {
		if len(args) < 9 {
			return "bad-op", nil
		}
		if _, err := strmParseSpec(args[:9]); err != nil {
			return "bad-op", nil
		}
		rs, ok := strmChild([]string{"run " + strings.Join(args[:9], " ")}, 1, strmStall)
		if len(rs) == 0 {
			return "panic", []string{"the child produced no result"}
		}
		res := rs[len(rs)-1]
		if !ok {
			rep, detail := strmConfirm(args[:9])
			if !rep {
				return "ok valid", nil
			}
			if strings.Contains(detail, "died") {
				return "panic", []string{"PANIC: " + detail}
			}
			return "ok valid", []string{detail}
		}
		return "ok valid", res.direct
	})
	reg("reorder.run", Full, func(args []string) (string, []string) {
		if len(args) < 10 {
			return "bad-op", nil
		}
		if _, err := strmParseSpec(args[:9]); err != nil {
			return "bad-op", nil
		}
		rs, ok := strmChild([]string{"run " + strings.Join(args[:9], " ")}, 1, strmStall)
		if len(rs) == 0 || !ok {
			return "panic", []string{"the child produced no result"}
		}
		res := rs[len(rs)-1]
		// the model is asked about the responses of THIS run: a replay may be scheduled differently
		args[9] = res.events
		return strmObservedOutcome(res.events), res.direct
	})
	reg("stream.direct", GoOnly, func(args []string) (string, []string) {
		if len(args) < 9 {
			return "bad-op", nil
		}
		if _, err := strmParseSpec(args[:9]); err != nil {
			return "bad-op", nil
		}
		rs, ok := strmChild([]string{"run " + strings.Join(args[:9], " ")}, 1, strmStall)
		if len(rs) == 0 {
			return "panic", []string{"the child produced no result"}
		}
		res := rs[len(rs)-1]
		if !ok {
			rep, detail := strmConfirm(args[:9])
			if !rep {
				return "ok", nil
			}
			if strings.Contains(detail, "died") {
				return "panic", []string{"PANIC: " + detail}
			}
			return "ok", []string{detail}
		}
		return "ok", res.direct
	})
	regRunner("C16", runC16)
}

var strmErrKindsHash = []byte("trazofg")
var strmErrKindsBlock = []byte("trazofgsxy")

func runC16(r *Runner) string {
	seedBase := r.rng.Int63n(1 << 20)
	spec := func(mode string, from uint32, n, p int, lazy bool, faults, cancel string) string {
		l := "0"
		if lazy {
			l = "1"
		}
		return fmt.Sprintf("%s %d %d %d %s %d %s %s -", mode, from, n, p, l, seedBase+int64(n), faults, cancel)
	}
	reqIDs := func(n int) []string {
		var ids []string
		for k := 0; k < n; k++ {
			ids = append(ids, fmt.Sprintf("h%d", k), fmt.Sprintf("b%d", k))
		}
		return ids
	}
	// one fault class per request position: err (concrete kind rotated) and, for blocks, nolink
	rot := 0
	faultOptions := func(id string) []string {
		rot++
		if id[0] == 'h' {
			return []string{id + ":" + string(strmErrKindsHash[rot%len(strmErrKindsHash)])}
		}
		return []string{id + ":" + string(strmErrKindsBlock[rot%len(strmErrKindsBlock)]), id + ":n"}
	}
	cancels := func(mode string, n int) []string {
		cs := []string{"-"}
		for d := 0; d <= n; d++ {
			cs = append(cs, fmt.Sprintf("d%d", d))
		}
		return cs
	}

	// 1. reproducers of D17 / D18 / D19 and every concrete fault kind at every request position (default order)
	var cmds []string
	for _, mode := range []string{"o", "u", "x"} {
		for _, p := range []int{1, 2, 3} {
			cmds = append(cmds, "run "+spec(mode, 100, 1, p, false, "-", "-")) // D17
		}
		for n := 1; n <= 3; n++ {
			for _, c := range cancels(mode, n) {
				cmds = append(cmds, "run "+spec(mode, 7, n, 2, false, "-", c)) // D18
			}
			for k := 0; k < n; k++ {
				for _, kind := range strmErrKindsHash {
					cmds = append(cmds, "run "+spec(mode, 50, n, 2, false, fmt.Sprintf("h%d:%c", k, kind), "-"))
				}
				for _, kind := range append(append([]byte{}, strmErrKindsBlock...), 'n') {
					cmds = append(cmds, "run "+spec(mode, 50, n, 2, false, fmt.Sprintf("b%d:%c", k, kind), "-")) // D19: z, s
				}
			}
		}
	}
	r.strmBatch(cmds, "fault kinds x positions, single-block ranges, cancel points (default order)", 1)

	// 2. exhaustive: every release order x fault plan (<= 2 faults) x cancel point
	// quick: everything for n <= 2; for n = 3 the plans with at most one fault and no cancel
	cmds = nil
	for _, mode := range []string{"o", "u", "x"} {
		for n := 1; n <= 3; n++ {
			for p := 1; p <= 2; p++ {
				ids := reqIDs(n)
				plans := []string{"-"}
				for i, a := range ids {
					for _, fa := range faultOptions(a) {
						plans = append(plans, fa)
						for _, b := range ids[i+1:] {
							for _, fb := range faultOptions(b) {
								plans = append(plans, fa+","+fb)
							}
						}
					}
				}
				for pi, plan := range plans {
					for _, c := range cancels(mode, n) {
						if n == 3 && !r.thorough && (c != "-" || strings.Contains(plan, ",")) {
							continue
						}
						lazy := mode != "x" && (pi%3 == 1)
						cmds = append(cmds, "dfs "+spec(mode, uint32(10+n), n, p, lazy, plan, c)+" 5000")
					}
				}
			}
		}
	}
	r.strmBatch(cmds, "exhaustive release orders (small configurations)", 1)

	// 2b. directed: the block of height from+1 completes last, so that its successors wait in the ordering
	// buffer and are released in one drain; cancellation at every delivery point of that drain
	cmds = nil
	for _, mode := range []string{"o", "x"} {
		for p := 2; p <= 4; p++ {
			for n := p + 1; n <= 8; n += 2 {
				for d := 1; d <= 4 && d <= n; d++ {
					for rep := 0; rep < r.N(3, 12); rep++ {
						cmds = append(cmds, fmt.Sprintf("run %s %d %d %d 0 %d - d%d L1", mode, 200+rep, n, p, seedBase+int64(n), d))
					}
				}
			}
		}
	}
	r.strmBatch(cmds, "directed: predecessor completes last, cancel inside the drain", 1)

	// 2c. directed: the node serves, for height from+k, a sibling of the block of height from+k-1 (a valid
	// block on another branch). While the block of height from+k-2 is outstanding both wait in the ordering
	// buffer under the same previous-hash. The scan cannot complete: it must end in an error.
	cmds = nil
	for p := 3; p <= 4; p++ {
		for n := 4; n <= 7; n++ {
			for k := 3; k < n; k++ {
				for rep := 0; rep < r.N(1, 3); rep++ {
					cmds = append(cmds, fmt.Sprintf("run o %d %d %d %d %d b%d:w - L%d", 300+rep, n, p, rep%2, seedBase+int64(n), k, k-2))
				}
			}
		}
		cmds = append(cmds, fmt.Sprintf("rand o 310 5 %d 0 %d b3:w - - %d %d", p, seedBase+5, r.rng.Int63n(1<<40), r.N(20, 200)))
		cmds = append(cmds, fmt.Sprintf("rand o 311 6 %d 1 %d b4:w - - %d %d", p, seedBase+6, r.rng.Int63n(1<<40), r.N(20, 200)))
	}
	if r.thorough {
		cmds = append(cmds, fmt.Sprintf("dfs o 320 4 3 0 %d b3:w - - 5000", seedBase+4))
	}
	r.strmBatch(cmds, "directed: a sibling of the previous block is served while their predecessor is outstanding", 1)

	// 2d. scans that only prune (no script to look for): plain, every fault class at some position, cancel points
	cmds = nil
	for n := 1; n <= 4; n++ {
		for p := 1; p <= 2; p++ {
			for rep := 0; rep < r.N(2, 6); rep++ {
				sd := seedBase + int64(n) + int64(rep)
				cmds = append(cmds, fmt.Sprintf("run z %d %d %d 0 %d - - -", 400+rep, n, p, sd))
				k := rep % n
				cmds = append(cmds, fmt.Sprintf("run z %d %d %d 0 %d h%d:%c - -", 400+rep, n, p, sd, k, strmErrKindsHash[(rep+n)%len(strmErrKindsHash)]))
				cmds = append(cmds, fmt.Sprintf("run z %d %d %d 0 %d b%d:%c - -", 400+rep, n, p, sd, k, strmErrKindsBlock[(rep+n+p)%len(strmErrKindsBlock)]))
				cmds = append(cmds, fmt.Sprintf("run z %d %d %d 0 %d - d%d -", 400+rep, n, p, sd, rep%(n+1)))
				if n > 1 {
					cmds = append(cmds, fmt.Sprintf("run z %d %d %d 0 %d b%d:n - -", 400+rep, n, p, sd, 1+rep%(n-1)))
				}
			}
		}
	}
	cmds = append(cmds, fmt.Sprintf("rand z 410 6 3 0 %d - - - %d %d", seedBase+6, r.rng.Int63n(1<<40), r.N(20, 200)))
	r.strmBatch(cmds, "scans with no script to look for (nil / empty): they still prune, fail and cancel", 1)

	// 2e. the first scan of a wallet (empty set): later blocks complete first (policy L1), every schedule of a
	// small range, random schedules of larger ones
	cmds = nil
	for p := 2; p <= 4; p++ {
		for n := 2; n <= 6; n++ {
			for rep := 0; rep < r.N(2, 6); rep++ {
				cmds = append(cmds, fmt.Sprintf("run e %d %d %d 0 %d - - L%d", 500+rep, n, p, seedBase+int64(n)+int64(rep), rep%2))
			}
		}
		cmds = append(cmds, fmt.Sprintf("rand e 510 6 %d 0 %d - - - %d %d", p, seedBase+6, r.rng.Int63n(1<<40), r.N(30, 300)))
	}
	cmds = append(cmds, fmt.Sprintf("dfs e 520 3 2 0 %d - - - 3000", seedBase+3))
	r.strmBatch(cmds, "scans that start from an empty set", 1)

	// 2f. long scans: more than a thousand blocks through one scanner (whatever the scanner remembers per height
	// or per request has been used more than a thousand times by the end)
	cmds = nil
	for i, mode := range []string{"o", "u", "x"} {
		cmds = append(cmds, fmt.Sprintf("run %s %d 1100 %d 0 %d - - -", mode, 600+i, 3+i%2, seedBase+1100))
	}
	if r.thorough {
		cmds = append(cmds, fmt.Sprintf("run o 700 1100 4 0 %d b1050:n - -", seedBase+1101), fmt.Sprintf("run x 701 1100 2 0 %d h1090:r - -", seedBase+1102))
	}
	r.strmBatch(cmds, "long scans (1100 blocks)", 1)

	// 3. seeded random schedules of larger configurations
	cmds = nil
	total := r.N(2400, 30000)
	per := 5
	for i := 0; i < total/per; i++ {
		mode := []string{"o", "u", "x"}[r.rng.Intn(3)]
		n := 1 + r.rng.Intn(8)
		p := 1 + r.rng.Intn(4)
		ids := reqIDs(n)
		plan := "-"
		switch r.rng.Intn(4) {
		case 1:
			plan = faultOptions(ids[r.rng.Intn(len(ids))])[0]
		case 2:
			a, b := ids[r.rng.Intn(len(ids))], ids[r.rng.Intn(len(ids))]
			fa, fb := faultOptions(a), faultOptions(b)
			plan = fa[r.rng.Intn(len(fa))]
			if a != b {
				plan += "," + fb[r.rng.Intn(len(fb))]
			}
		case 3:
			a := ids[1+2*r.rng.Intn(n)]
			plan = a + ":n"
		}
		cancel := "-"
		switch r.rng.Intn(4) {
		case 1:
			cancel = fmt.Sprintf("d%d", r.rng.Intn(n+1))
		case 2:
			cancel = fmt.Sprintf("q%d", r.rng.Intn(4*n+2))
		}
		lazy := mode != "x" && r.rng.Intn(3) == 0
		cmds = append(cmds, fmt.Sprintf("rand %s %d %d", spec(mode, uint32(2+r.rng.Intn(1000)), n, p, lazy, plan, cancel), r.rng.Int63n(1<<40), per))
	}
	r.strmBatch(cmds[:len(cmds)/2], "random schedules n<=8 p<=4", 1)
	r.strmBatch(cmds[len(cmds)/2:], "random schedules n<=8 p<=4 (GOMAXPROCS=4)", 4)

	return "every case is one run of the real blockscan code (StreamBlocks / StreamBlocksUnordered / UpdateUtxos) against a parking " +
		"http.RoundTripper in a child process: (mode, from, n, p, consumer laziness, chain seed, fault plan of at most two faults keyed by " +
		"request position, cancellation point, release-order choices). Exhaustive part: depth-first enumeration of every release order for " +
		"n<=3, p<=2 (quick tier: for n=3 only the plans with <=1 fault and no cancel), every plan of <=2 faults (one error kind per position, rotated over transport error / RPC errors with codes -1, -8, -5 / " +
		"401 / null body / non-string / non-hex / truncated block, plus non-linking block) and cancellation at every delivery point; a separate sweep " +
		"serves a sibling of the previous block (same previous-hash as the block one height lower) while their common predecessor is outstanding (Go-side oracles only); a separate sweep " +
		"puts every concrete fault kind at every position. Directed part: the block of the second height completes last (policy L1), so its " +
		"successors are released from the ordering buffer in one drain, with cancellation at every delivery point of the drain. Random part: n<=8, p<=4, half of it with GOMAXPROCS=4. A case is distinct when its spec " +
		"and observed event trace differ; every trace is checked by the Go-side oracles (order, exactly-once, completeness, fault => error, " +
		"cancel => error or complete scan, UTXO set = sequential fold, no deadlock, no panic) and must be a trace of the Lean transition system."
}
