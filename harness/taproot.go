package main

// C13: taproot key tweaks, MAST leaf/branch hashes, P2TR outputs, provably unspendable keys.

import (
	"bytes"
	"crypto/sha256"
	"encoding/binary"
	"encoding/hex"
	"fmt"
	"math/big"
	"strings"

	"github.com/kklash/bitcoinlib/ecc"
	"github.com/kklash/bitcoinlib/script"
	"github.com/kklash/bitcoinlib/taproot"
)

// ---- an independent BIP340/341 tagged hash and compact size for the direct oracles ------------

func refTagged(tag string, chunks ...[]byte) []byte {
	th := sha256.Sum256([]byte(tag))
	h := sha256.New()
	h.Write(th[:])
	h.Write(th[:])
	for _, c := range chunks {
		h.Write(c)
	}
	return h.Sum(nil)
}

func refCompactSize(n int) []byte {
	switch {
	case n < 0xfd:
		return []byte{byte(n)}
	case n <= 0xffff:
		b := []byte{0xfd, 0, 0}
		binary.LittleEndian.PutUint16(b[1:], uint16(n))
		return b
	case n <= 0xffffffff:
		b := []byte{0xfe, 0, 0, 0, 0}
		binary.LittleEndian.PutUint32(b[1:], uint32(n))
		return b
	}
	b := make([]byte, 9)
	b[0] = 0xff
	binary.LittleEndian.PutUint64(b[1:], uint64(n))
	return b
}

func refLeafHash(version byte, s []byte) []byte {
	return refTagged("TapLeaf", []byte{version}, refCompactSize(len(s)), s)
}

func refBranchHash(a, b []byte) []byte {
	if bytes.Compare(a, b) > 0 {
		a, b = b, a
	}
	return refTagged("TapBranch", a, b)
}

// ---- compact tree syntax: N | L<ver>:<script> | H:<hash> | B(<t>,<t>) --------------------------

type treeNode struct {
	kind    byte // 'N', 'L', 'H', 'B'
	version byte
	data    []byte
	l, r    *treeNode
}

func parseTreeArg(s string) (*treeNode, bool) {
	t, rest, ok := parseTreeRec(s)
	if !ok || rest != "" {
		return nil, false
	}
	return t, true
}

func hexTok(s string) ([]byte, string, bool) {
	i := 0
	for i < len(s) && s[i] != ',' && s[i] != ')' {
		i++
	}
	tok := s[:i]
	if tok == "-" {
		return []byte{}, s[i:], true
	}
	b, err := hex.DecodeString(tok)
	if err != nil || tok != strings.ToLower(tok) {
		return nil, "", false
	}
	return b, s[i:], true
}

func parseTreeRec(s string) (*treeNode, string, bool) {
	switch {
	case strings.HasPrefix(s, "N"):
		return &treeNode{kind: 'N'}, s[1:], true
	case strings.HasPrefix(s, "L") && len(s) >= 4 && s[3] == ':':
		v, err := hex.DecodeString(s[1:3])
		if err != nil {
			return nil, "", false
		}
		data, rest, ok := hexTok(s[4:])
		if !ok {
			return nil, "", false
		}
		return &treeNode{kind: 'L', version: v[0], data: data}, rest, true
	case strings.HasPrefix(s, "H:"):
		data, rest, ok := hexTok(s[2:])
		if !ok {
			return nil, "", false
		}
		return &treeNode{kind: 'H', data: data}, rest, true
	case strings.HasPrefix(s, "B("):
		l, rest, ok := parseTreeRec(s[2:])
		if !ok || !strings.HasPrefix(rest, ",") {
			return nil, "", false
		}
		r, rest2, ok := parseTreeRec(rest[1:])
		if !ok || !strings.HasPrefix(rest2, ")") {
			return nil, "", false
		}
		return &treeNode{kind: 'B', l: l, r: r}, rest2[1:], true
	}
	return nil, "", false
}

func (t *treeNode) String() string {
	switch t.kind {
	case 'N':
		return "N"
	case 'L':
		return fmt.Sprintf("L%02x:%s", t.version, hx(t.data))
	case 'H':
		return "H:" + hx(t.data)
	}
	return "B(" + t.l.String() + "," + t.r.String() + ")"
}

// hasher builds the library's value; ok=false when the tree cannot be expressed (hash not 32 bytes)
func (t *treeNode) hasher() (script.Hasher, bool) {
	switch t.kind {
	case 'N':
		return nil, true
	case 'L':
		return &script.MastLeaf{Version: t.version, Script: t.data}, true
	case 'H':
		if len(t.data) != 32 {
			return nil, false
		}
		var h script.MastLeafHash
		copy(h[:], t.data)
		return h, true
	}
	l, ok1 := t.l.hasher()
	r, ok2 := t.r.hasher()
	return script.MastBranch{l, r}, ok1 && ok2
}

// mirror swaps the children of every branch
func (t *treeNode) mirror() *treeNode {
	if t.kind != 'B' {
		return t
	}
	return &treeNode{kind: 'B', l: t.r.mirror(), r: t.l.mirror()}
}

// refHash is the BIP341 reference hash of the tree (nil when a child is nil)
func (t *treeNode) refHash() []byte {
	switch t.kind {
	case 'N':
		return nil
	case 'L':
		return refLeafHash(t.version, t.data)
	case 'H':
		return t.data
	}
	a, b := t.l.refHash(), t.r.refHash()
	if a == nil || b == nil {
		return nil
	}
	return refBranchHash(a, b)
}

func (t *treeNode) hasNil() bool {
	switch t.kind {
	case 'N':
		return true
	case 'B':
		return t.l.hasNil() || t.r.hasNil()
	}
	return false
}

func init() {
	regRunner("C13", runC13)

	reg("tap.tweakpub", Full, func(args []string) (string, []string) {
		if len(args) != 2 {
			return "bad-op", nil
		}
		pk, h := unhx(args[0]), unhx(args[1])
		gp, gh := guarded(pk), guarded(h)
		q, odd, err := taproot.TweakPublicKey(gp.slice(), gh.slice())
		var direct []string
		gp.check("public key", &direct)
		gh.check("commitment", &direct)
		if err != nil {
			return "err", direct
		}
		if len(q) != 32 {
			direct = append(direct, fmt.Sprintf("tweaked key of %d bytes", len(q)))
		}
		p := 0
		if odd {
			p = 1
		}
		return fmt.Sprintf("ok %s %d", hx(q), p), direct
	})

	reg("tap.tweakpriv", Full, func(args []string) (string, []string) {
		if len(args) != 2 {
			return "bad-op", nil
		}
		sk, h := unhx(args[0]), unhx(args[1])
		gs, gh := guarded(sk), guarded(h)
		out, err := taproot.TweakPrivateKey(gs.slice(), gh.slice())
		var direct []string
		gs.check("private key", &direct)
		gh.check("commitment", &direct)
		if err != nil {
			return "err", direct
		}
		if len(out) != 32 {
			direct = append(direct, fmt.Sprintf("tweaked private key of %d bytes", len(out)))
		}
		// commutation and parity: x(pub(tweak(d))) = tweak(x(pub(d))), parity = parity of that point
		if validScalarBytes(sk) && validScalarBytes(out) {
			skPadded := new(big.Int).SetBytes(sk).FillBytes(make([]byte, 32))
			q, odd, perr := taproot.TweakPublicKey(ecc.GetPublicKeySchnorr(skPadded), h)
			want := ecc.GetPublicKeyCompressed(out)
			if perr != nil {
				direct = append(direct, "TweakPublicKey failed where TweakPrivateKey succeeded: "+perr.Error())
			} else {
				if !bytes.Equal(q, want[1:]) {
					direct = append(direct, fmt.Sprintf("tweaked public key %s is not the public key %s of the tweaked private key", hx(q), hx(want[1:])))
				}
				if odd != (want[0] == 3) {
					direct = append(direct, fmt.Sprintf("reported parity odd=%v but the tweaked point's prefix is %02x", odd, want[0]))
				}
			}
		}
		return "ok " + hx(out), direct
	})

	reg("tap.leaf", Full, func(args []string) (string, []string) {
		if len(args) != 2 || len(unhx(args[0])) != 1 {
			return "bad-op", nil
		}
		v, s := unhx(args[0])[0], unhx(args[1])
		gs := guarded(s)
		h := (&script.MastLeaf{Version: v, Script: gs.slice()}).Hash()
		var direct []string
		gs.check("script", &direct)
		if want := refLeafHash(v, s); !bytes.Equal(h[:], want) {
			direct = append(direct, fmt.Sprintf("leaf hash of a %d-byte script is %s, BIP341 tagged hash over version || compact-size || script is %s", len(s), hx(h[:]), hx(want)))
		}
		return "ok " + hx(h[:]), direct
	})

	reg("tap.branch", Full, func(args []string) (string, []string) {
		if len(args) != 2 {
			return "bad-op", nil
		}
		a, b := unhx(args[0]), unhx(args[1])
		if len(a) != 32 || len(b) != 32 {
			return "bad-op", nil
		}
		var ha, hb script.MastLeafHash
		copy(ha[:], a)
		copy(hb[:], b)
		h := script.MastBranch{ha, hb}.Hash()
		h2 := script.MastBranch{hb, ha}.Hash()
		var direct []string
		if h != h2 {
			direct = append(direct, "branch hash depends on the order of the children")
		}
		if want := refBranchHash(a, b); !bytes.Equal(h[:], want) {
			direct = append(direct, "branch hash differs from the BIP341 tagged hash over the sorted children")
		}
		return "ok " + hx(h[:]), direct
	})

	reg("tap.tree", Full, func(args []string) (string, []string) {
		if len(args) != 1 {
			return "bad-op", nil
		}
		t, ok := parseTreeArg(args[0])
		if !ok {
			return "bad-op", nil
		}
		hs, ok := t.hasher()
		if !ok {
			return "bad-op", nil
		}
		h := hs.Hash() // a nil tree or a nil child panics: the caller turns that into "panic"
		var direct []string
		if hm, _ := t.mirror().hasher(); hm.Hash() != h {
			direct = append(direct, "tree hash depends on the left/right order of children")
		}
		if want := t.refHash(); want != nil && !bytes.Equal(h[:], want) {
			direct = append(direct, "tree hash differs from the BIP341 reference hash")
		}
		return "ok " + hx(h[:]), direct
	})

	reg("tap.p2tr", Full, func(args []string) (string, []string) {
		if len(args) != 2 {
			return "bad-op", nil
		}
		pk := unhx(args[0])
		t, ok := parseTreeArg(args[1])
		if !ok {
			return "bad-op", nil
		}
		hs, ok := t.hasher()
		if !ok {
			return "bad-op", nil
		}
		gp := guarded(pk)
		out, err := script.MakeP2TR(gp.slice(), hs)
		var direct []string
		gp.check("internal public key", &direct)
		if err != nil {
			return "err", direct
		}
		if len(out) != 34 || out[0] != 0x51 || out[1] != 0x20 {
			direct = append(direct, "output is not OP_1 <32-byte key>: "+hx(out))
		} else {
			var commitment []byte
			if t.kind != 'N' {
				commitment = t.refHash()
			}
			q, _, terr := taproot.TweakPublicKey(pk, commitment)
			if terr != nil || !bytes.Equal(q, out[2:]) {
				direct = append(direct, "output key is not the internal key tweaked with the BIP341 tree hash")
			}
		}
		if hm, _ := t.mirror().hasher(); t.kind == 'B' {
			out2, err2 := script.MakeP2TR(pk, hm)
			if err2 != nil || !bytes.Equal(out, out2) {
				direct = append(direct, "P2TR output depends on the left/right order of children")
			}
		}
		return "ok " + hx(out), direct
	})

	reg("dead.build", Full, func(args []string) (string, []string) {
		if len(args) != 1 {
			return "bad-op", nil
		}
		proof := unhx(args[0])
		gp := guarded(proof)
		key := taproot.BuildDeadKey(gp.slice())
		var direct []string
		gp.check("proof", &direct)
		if len(key) != 32 {
			direct = append(direct, fmt.Sprintf("dead key of %d bytes", len(key)))
		}
		if validScalarBytes(proof) {
			if err := taproot.VerifyDeadKey(key, proof); err != nil {
				direct = append(direct, "a dead key does not verify against its own proof")
			}
		}
		return "ok " + hx(key), direct
	})

	reg("dead.verify", Full, func(args []string) (string, []string) {
		if len(args) != 2 {
			return "bad-op", nil
		}
		key, proof := unhx(args[0]), unhx(args[1])
		gk, gp := guarded(key), guarded(proof)
		err := taproot.VerifyDeadKey(gk.slice(), gp.slice())
		var direct []string
		gk.check("key", &direct)
		gp.check("proof", &direct)
		// verify ⇔ valid scalar ∧ key = build(proof)
		want := validScalarBytes(proof) && bytes.Equal(key, taproot.BuildDeadKey(new(big.Int).SetBytes(proof).FillBytes(make([]byte, 32))))
		if (err == nil) != want {
			direct = append(direct, fmt.Sprintf("VerifyDeadKey accepted=%v, but proof valid and key = BuildDeadKey(proof) is %v", err == nil, want))
		}
		if err != nil {
			return "err", direct
		}
		return "ok valid", direct
	})
}

// ---------------------------------------------------------------------------------------------
// generators

type rngReader struct{ r *Runner }

func (rr rngReader) Read(p []byte) (int, error) { return rr.r.rng.Read(p) }

func (r *Runner) scriptOfClass(class int) []byte {
	switch class {
	case 0:
		return r.bytesN([]int{0, 1, 2, 33, 34, 74, 75}[r.rng.Intn(7)])
	case 1:
		return r.bytesN(r.rng.Intn(76))
	case 2:
		return r.bytesN([]int{76, 77, 100, 251, 252}[r.rng.Intn(5)])
	case 3:
		return r.bytesN(76 + r.rng.Intn(177))
	case 4:
		return r.bytesN([]int{253, 254, 255, 256, 257, 520, 521}[r.rng.Intn(7)])
	case 5:
		return r.bytesN(253 + r.rng.Intn(4000))
	default:
		return r.bytesN([]int{65535, 65536, 65537, 70000}[r.rng.Intn(4)])
	}
}

func sizeClass(n int) string {
	switch {
	case n <= 75:
		return "0..75"
	case n <= 252:
		return "76..252"
	}
	return "253.."
}

// random tree of exactly the given depth (some path has `depth` branches), no nil nodes
func (r *Runner) tree(depth int, big *int) *treeNode {
	if depth == 0 {
		if r.rng.Intn(5) == 0 {
			return &treeNode{kind: 'H', data: r.bytesN(32)}
		}
		class := []int{0, 1, 1, 2, 3, 3, 4, 5}[r.rng.Intn(8)]
		if *big > 0 && r.rng.Intn(6) == 0 {
			class = 6
			*big--
		}
		v := byte(0xc0)
		if r.rng.Intn(3) > 0 {
			v = byte(r.rng.Intn(256)) // arbitrary leaf versions, odd ones included
		}
		return &treeNode{kind: 'L', version: v, data: r.scriptOfClass(class)}
	}
	deep := r.tree(depth-1, big)
	other := r.tree(r.rng.Intn(depth), big)
	if r.rng.Intn(2) == 0 {
		return &treeNode{kind: 'B', l: deep, r: other}
	}
	return &treeNode{kind: 'B', l: other, r: deep}
}

func runC13(r *Runner) string {
	one := big.NewInt(1)
	nm1 := new(big.Int).Sub(secpN, one)
	// keys: random, leading zeros, edge scalars
	var keys [][]byte
	for j := 0; j < r.N(60, 600); j++ {
		keys = append(keys, r.scalar(j%9/4)) // mostly 0, some with 1 or 2 leading zero bytes
	}
	keys = append(keys, scalarBytes(one), scalarBytes(big.NewInt(2)), scalarBytes(big.NewInt(3)), scalarBytes(nm1), scalarBytes(new(big.Int).Sub(secpN, big.NewInt(2))), r.scalar(16), r.scalar(31))

	parity := func(k []byte) string {
		if ecc.GetPublicKeyCompressed(k)[0] == 3 {
			return "odd-y"
		}
		return "even-y"
	}
	commitment := func(j int) []byte {
		switch j % 5 {
		case 0:
			return []byte{}
		case 4:
			return r.bytesN([]int{1, 31, 33, 64}[r.rng.Intn(4)]) // accepted by the code as well
		}
		return r.bytesN(32)
	}

	// 1. tweaks: private (direct oracle: commutation and parity) and public
	for j, k := range keys {
		h := commitment(j)
		tag := fmt.Sprintf("%s/commitment-%d", parity(k), len(h))
		r.Do("tap.tweakpriv", []string{hx(k), hx(h)}, "tweakpriv/"+tag, true, "private tweak, "+tag)
		if j%2 == 0 {
			r.Do("tap.tweakpub", []string{hx(ecc.GetPublicKeySchnorr(k)), hx(h)}, "tweakpub/"+tag, true, "public tweak, "+tag)
		}
	}
	// keys given with a different width (value in range): accepted by the private tweak
	for j := 0; j < r.N(6, 40); j++ {
		k := r.scalar(1 + j%2)
		short := bytes.TrimLeft(k, "\x00")
		long := append([]byte{0, 0}, k...)
		r.Do("tap.tweakpriv", []string{hx(short), hx(r.bytesN(32))}, "tweakpriv/short-key", true, "private key without its leading zero bytes")
		r.Do("tap.tweakpriv", []string{hx(long), hx(r.bytesN(32))}, "tweakpriv/long-key", true, "34-byte private key")
	}
	// invalid private keys
	for _, k := range [][]byte{make([]byte, 32), scalarBytes(secpN), scalarBytes(new(big.Int).Add(secpN, one)), bytes.Repeat([]byte{0xff}, 32), {}, bytes.Repeat([]byte{0xff}, 33)} {
		r.Do("tap.tweakpriv", []string{hx(k), hx(commitment(r.rng.Intn(4)))}, "tweakpriv/invalid-key", true, "private key outside [1, n-1]")
	}
	// 2. all 32-byte strings as x-only keys: random (half are not on the curve), x >= p, wrong lengths
	for j := 0; j < r.N(120, 1500); j++ {
		x := r.bytesN(32)
		if j%10 == 9 {
			x = bytes.Repeat([]byte{0xff}, 32) // x >= p
			x[31] = byte(r.rng.Intn(256))
			x[30] = byte(0xfc + r.rng.Intn(4))
			x[27] = 0xfe + byte(r.rng.Intn(2))
		}
		if new(big.Int).SetBytes(x).Sign() == 0 {
			continue // x = 0 is the ecc package's defect D8 (not this property's)
		}
		_, _, err := ecc.DeserializePoint(x)
		tag := "xonly/on-curve"
		if err != nil {
			tag = "xonly/not-on-curve"
		}
		r.Do("tap.tweakpub", []string{hx(x), hx(commitment(j))}, tag, true, "arbitrary 32-byte string as x-only key")
	}
	for _, n := range []int{0, 1, 31, 33, 64, 65} {
		var pk []byte
		switch n {
		case 33:
			pk = ecc.GetPublicKeyCompressed(r.scalar(0))
		case 65:
			pk = ecc.GetPublicKeyUncompressed(r.scalar(0))
		default:
			pk = r.bytesN(n)
		}
		r.Do("tap.tweakpub", []string{hx(pk), hx(r.bytesN(32))}, "xonly/wrong-length", true, "public key that is not 32 bytes")
		r.Do("tap.p2tr", []string{hx(pk), "N"}, "p2tr/wrong-length-key", true, "public key that is not 32 bytes")
	}

	// 3. leaves in every compact-size class, at the class boundaries, arbitrary versions
	for _, n := range []int{0, 1, 2, 74, 75, 76, 77, 100, 251, 252, 253, 254, 255, 256, 257, 520, 65535, 65536, 70000} {
		for _, v := range []byte{0xc0, byte(r.rng.Intn(256))} {
			r.Do("tap.leaf", []string{hx([]byte{v}), hx(r.bytesN(n))}, "leaf/"+sizeClass(n), true, fmt.Sprintf("leaf script of %d bytes, version %02x", n, v))
		}
	}
	for j := 0; j < r.N(150, 1500); j++ {
		s := r.scriptOfClass(j % 6)
		r.Do("tap.leaf", []string{hx([]byte{byte(r.rng.Intn(256))}), hx(s)}, "leaf/"+sizeClass(len(s)), true, fmt.Sprintf("leaf script of %d bytes", len(s)))
	}
	// 4. branches
	for j := 0; j < r.N(100, 1000); j++ {
		a, b := r.bytesN(32), r.bytesN(32)
		switch j % 5 {
		case 1:
			b = append([]byte(nil), a...) // equal children
		case 2:
			b = append([]byte(nil), a...)
			b[31] ^= 1 // differ in the last byte only
		case 3:
			b = append([]byte(nil), a...)
			b[r.rng.Intn(32)] ^= 0x80
		}
		r.Do("tap.branch", []string{hx(a), hx(b)}, "branch", true, "pair of child hashes")
	}
	// 5. trees of depth 0..6 of any shape, P2TR outputs
	for depth := 0; depth <= 6; depth++ {
		for j := 0; j < r.N(14, 120); j++ {
			big := 0
			if j == 0 && depth%3 == 0 {
				big = 1 // the largest scripts sparingly
			}
			t := r.tree(depth, &big)
			k := keys[r.rng.Intn(len(keys))]
			r.Do("tap.p2tr", []string{hx(ecc.GetPublicKeySchnorr(k)), t.String()}, fmt.Sprintf("p2tr/depth%d", depth), true, fmt.Sprintf("tree of depth %d", depth))
			r.Do("tap.tree", []string{t.String()}, fmt.Sprintf("tree/depth%d", depth), true, fmt.Sprintf("tree of depth %d", depth))
		}
	}
	for j := 0; j < r.N(10, 60); j++ { // key-path only
		r.Do("tap.p2tr", []string{hx(ecc.GetPublicKeySchnorr(keys[r.rng.Intn(len(keys))])), "N"}, "p2tr/no-tree", true, "key-path-only output")
	}
	// a nil child panics by contract ("Panics if either the left or the right branch is nil");
	// the model predicts exactly that
	for _, t := range []string{"B(N,Lc0:51)", "B(Lc0:51,N)", "B(N,N)", "B(B(N,Lc0:51),Lc0:52)", "B(Lc0:52,B(Lc0:51,N))"} {
		r.Do("tap.tree", []string{t}, "tree/nil-child", false, "documented panic on a nil child")
	}

	// 6. dead keys
	for j := 0; j < r.N(60, 500); j++ {
		proof := r.scalar(j % 3)
		r.Do("dead.build", []string{hx(proof)}, "dead/build", true, "dead key from a valid proof")
		key := taproot.BuildDeadKey(proof)
		switch j % 6 {
		case 0:
			r.Do("dead.verify", []string{hx(key), hx(proof)}, "dead/verify-own", true, "own proof")
		case 1:
			r.Do("dead.verify", []string{hx(key), hx(r.scalar(0))}, "dead/verify-other-proof", true, "another proof")
		case 2:
			r.Do("dead.verify", []string{hx(ecc.GetPublicKeySchnorr(r.scalar(0))), hx(proof)}, "dead/verify-other-key", true, "another key")
		case 3:
			k2 := append([]byte(nil), key...)
			k2[r.rng.Intn(32)] ^= 1 << uint(r.rng.Intn(8))
			r.Do("dead.verify", []string{hx(k2), hx(proof)}, "dead/verify-flipped-key", true, "key with one bit flipped")
		case 4:
			p2 := new(big.Int).SetBytes(proof)
			p2.Add(p2, one)
			if p2.Cmp(secpN) < 0 {
				r.Do("dead.verify", []string{hx(key), hx(scalarBytes(p2))}, "dead/verify-other-proof", true, "proof + 1")
			}
		case 5:
			r.Do("dead.verify", []string{hx(key[:31]), hx(proof)}, "dead/verify-short-key", true, "31-byte key")
			r.Do("dead.verify", []string{hx(append([]byte{0}, key...)), hx(proof)}, "dead/verify-long-key", true, "33-byte key")
		}
	}
	for _, p := range []*big.Int{one, big.NewInt(2), nm1} {
		proof := scalarBytes(p)
		r.Do("dead.build", []string{hx(proof)}, "dead/build-edge", true, "edge proof")
		r.Do("dead.verify", []string{hx(taproot.BuildDeadKey(proof)), hx(proof)}, "dead/verify-own", true, "edge proof")
	}
	// out-of-range proofs: 0, n, n+1, 2^256-1 (BuildDeadKey accepts them, VerifyDeadKey must not)
	for _, p := range []*big.Int{big.NewInt(0), secpN, new(big.Int).Add(secpN, one), new(big.Int).Sub(new(big.Int).Lsh(one, 256), one)} {
		proof := scalarBytes(p)
		r.Do("dead.build", []string{hx(proof)}, "dead/build-out-of-range", true, "out-of-range proof")
		r.Do("dead.verify", []string{hx(taproot.BuildDeadKey(proof)), hx(proof)}, "dead/verify-out-of-range", true, "out-of-range proof with the key it builds")
	}
	r.Do("dead.verify", []string{hx(taproot.BuildDeadKey(scalarBytes(one))), "-"}, "dead/verify-out-of-range", true, "empty proof")
	// NewDeadKey with a deterministic reader: the pair it returns verifies
	for j := 0; j < r.N(10, 100); j++ {
		key, proof, err := taproot.NewDeadKey(rngReader{r})
		if err != nil {
			continue
		}
		r.Do("dead.verify", []string{hx(key), hx(proof)}, "dead/new", true, "NewDeadKey output")
	}

	return "private keys: random scalars with 0..2, 16, 31 leading zero bytes and 1, 2, 3, n-1, n-2 (tagged by the parity of the public y), commitments of length 0 and 32 (and 1, 31, 33, 64) with random content, through tweakpriv (whose direct oracle tweaks the x-only public key and compares key and parity) and tweakpub; keys of other widths; invalid private keys; random 32-byte strings as x-only keys (about half not on the curve), x >= p, wrong lengths (x = 0 excluded: defect D8 of ecc); leaf hashes for scripts at every compact-size boundary (0, 75, 76, 252, 253, 255, 256, 65535, 65536, 70000) and random lengths in every class with arbitrary versions, each also against a Go-side BIP341 reference hash; branch hashes of random, equal and nearly equal children with the swapped order; random trees of depth 0..6 (leaves from every script class, the largest sparingly, pre-hashed leaves) through tap.tree and tap.p2tr with the mirrored tree and the reference tree hash; dead keys from valid proofs verified with their own proof, other proofs, other and modified keys, out-of-range proofs (0, n, n+1, 2^256-1, empty), NewDeadKey with a deterministic reader. A case is non-trivial when its key/script/proof material is random or an edge scalar; distinct = distinct request line."
}
