package main

// C14: BIP39 mnemonics.
//
// ops:
//   bip39.enc <entropy>                 -> ok <mnemonic> | err
//   bip39.dec <mnemonic>                -> ok <entropy> | err
//   bip39.seed <mnemonic> <passphrase>  -> ok <64 bytes>
//   bip39.gen <nWords> <reader bytes>   -> ok <mnemonic> | err      (GenerateMnemonic over a deterministic reader)
//   bip39.pin                           -> ok <sha256 of the newline-terminated word list> <count>
// <mnemonic> is `.` (no words), `-` (one empty word) or the hex of the words joined by single spaces;
// both sides split it at every 0x20 byte (strings.Split). The library never splits or normalises:
// DecodeWords / DeriveSeed take the slice of words as given.

import (
	"bytes"
	"crypto/hmac"
	"crypto/sha256"
	"crypto/sha512"
	"fmt"
	"strconv"
	"strings"

	"github.com/kklash/bitcoinlib/bip39"
)

const englishTxtSha256 = "2f5eed53a4727b4bf8880d8f3f199efc90e58503646d9ff8eff3a2ed3b24dbda"

func parseMnemonic(s string) []string {
	if s == "." {
		return nil
	}
	return strings.Split(string(unhx(s)), " ")
}

func mnemonicStr(words []string) string {
	if len(words) == 0 {
		return "."
	}
	return hx([]byte(strings.Join(words, " ")))
}

func validWordCount(n int) bool { return n == 12 || n == 15 || n == 18 || n == 21 || n == 24 }
func validEntropyLen(n int) bool {
	return n == 16 || n == 20 || n == 24 || n == 28 || n == 32
}

// refPbkdf2Sha512 is RFC 8018 PBKDF2 with HMAC-SHA512 written out for one 64-byte block
// (Go-side reference for the direct check; the Lean `Prim.pbkdf2HmacSha512` is the independent one).
func refPbkdf2Sha512(password, salt []byte, iter int) []byte {
	mac := hmac.New(sha512.New, password)
	mac.Write(salt)
	mac.Write([]byte{0, 0, 0, 1})
	u := mac.Sum(nil)
	t := append([]byte{}, u...)
	for i := 1; i < iter; i++ {
		mac.Reset()
		mac.Write(u)
		u = mac.Sum(nil)
		for j := range t {
			t[j] ^= u[j]
		}
	}
	return t
}

func sameWords(a, b []string) bool {
	if len(a) != len(b) {
		return false
	}
	for i := range a {
		if a[i] != b[i] {
			return false
		}
	}
	return true
}

func init() {
	reg("bip39.enc", Full, func(args []string) (string, []string) {
		if len(args) != 1 {
			return "bad-op", nil
		}
		entropy := unhx(args[0])
		keep := append([]byte{}, entropy...)
		words, err := bip39.EncodeToWords(entropy)
		var direct []string
		if !bytes.Equal(keep, entropy) {
			direct = append(direct, "EncodeToWords modified its argument")
		}
		if (bip39.ValidateEntropySize(len(entropy)*8) == nil) != validEntropyLen(len(entropy)) {
			direct = append(direct, fmt.Sprintf("ValidateEntropySize(%d bits) disagrees with 128..256 step 32", len(entropy)*8))
		}
		if err != nil {
			if validEntropyLen(len(entropy)) {
				direct = append(direct, "valid entropy size refused: "+err.Error())
			}
			return "err", direct
		}
		if !validEntropyLen(len(entropy)) {
			direct = append(direct, fmt.Sprintf("entropy of %d bytes was encoded", len(entropy)))
		}
		if len(words)*11 != len(entropy)*8+len(entropy)/4 {
			direct = append(direct, fmt.Sprintf("%d words for %d bytes", len(words), len(entropy)))
		}
		back, err := bip39.DecodeWords(words)
		if err != nil || !bytes.Equal(back, entropy) {
			direct = append(direct, fmt.Sprintf("DecodeWords(EncodeToWords(e)) = %x, %v", back, err))
		}
		return "ok " + mnemonicStr(words), direct
	})
	reg("bip39.dec", Full, func(args []string) (string, []string) {
		if len(args) != 1 {
			return "bad-op", nil
		}
		words := parseMnemonic(args[0])
		entropy, err := bip39.DecodeWords(words)
		if err != nil {
			return "err", nil
		}
		var direct []string
		if !validWordCount(len(words)) {
			direct = append(direct, fmt.Sprintf("%d words accepted", len(words)))
		}
		for _, w := range words {
			if i, ok := bip39.WordMap[w]; !ok || bip39.WordList[i] != w {
				direct = append(direct, fmt.Sprintf("accepted word %q is not in the list", w))
			}
		}
		sum := sha256.Sum256(entropy)
		cs := uint(len(words) / 3)
		again, err := bip39.EncodeToWords(entropy)
		if err != nil || !sameWords(again, words) {
			direct = append(direct, fmt.Sprintf("EncodeToWords(DecodeWords(ws)) differs from ws (checksum bits %b)", sum[0]>>(8-cs)))
		}
		return "ok " + hx(entropy), direct
	})
	reg("bip39.seed", Full, func(args []string) (string, []string) {
		if len(args) != 2 {
			return "bad-op", nil
		}
		words := parseMnemonic(args[0])
		pass := unhx(args[1])
		seed := bip39.DeriveSeed(words, string(pass))
		var direct []string
		ref := refPbkdf2Sha512([]byte(strings.Join(words, " ")), append([]byte("mnemonic"), pass...), 2048)
		if !bytes.Equal(seed, ref) {
			direct = append(direct, fmt.Sprintf("seed differs from PBKDF2-HMAC-SHA512(mnemonic, \"mnemonic\"+passphrase, 2048, 64) = %x", ref))
		}
		return "ok " + hx(seed), direct
	})
	reg("bip39.gen", Full, func(args []string) (string, []string) {
		if len(args) != 2 {
			return "bad-op", nil
		}
		n, err := strconv.ParseInt(args[0], 10, 64)
		if err != nil {
			return "bad-op", nil
		}
		rand := unhx(args[1])
		words, err := bip39.GenerateMnemonic(bytes.NewReader(rand), int(n))
		if err != nil {
			return "err", nil
		}
		var direct []string
		if !validWordCount(len(words)) {
			direct = append(direct, fmt.Sprintf("GenerateMnemonic produced %d words", len(words)))
		}
		if _, err := bip39.DecodeWords(words); err != nil {
			direct = append(direct, "generated mnemonic does not decode: "+err.Error())
		}
		return "ok " + mnemonicStr(words), direct
	})
	reg("bip39.pin", Full, func(args []string) (string, []string) {
		if len(args) != 0 {
			return "bad-op", nil
		}
		h := sha256.New()
		for _, w := range bip39.WordList {
			h.Write([]byte(w))
			h.Write([]byte{'\n'})
		}
		sum := hx(h.Sum(nil))
		var direct []string
		if sum != englishTxtSha256 {
			direct = append(direct, "the word list is not bips/bip-0039/english.txt (sha256 "+sum+")")
		}
		if len(bip39.WordMap) != len(bip39.WordList) {
			direct = append(direct, "WordMap and WordList differ in size (repeated word)")
		}
		for i, w := range bip39.WordList {
			if bip39.WordMap[w] != i {
				direct = append(direct, fmt.Sprintf("WordMap[%q] = %d, position %d", w, bip39.WordMap[w], i))
				break
			}
		}
		return fmt.Sprintf("ok %s %d", sum, len(bip39.WordList)), direct
	})
	regRunner("C14", runC14)
}

var c14Sizes = []int{16, 20, 24, 28, 32}

// c14Mnemonic encodes entropy with the library (valid sizes only).
func c14Mnemonic(entropy []byte) []string {
	words, err := bip39.EncodeToWords(entropy)
	if err != nil {
		panic("c14Mnemonic: " + err.Error())
	}
	return words
}

func (r *Runner) c14Dec(words []string, tag, desc string) {
	r.Do("bip39.dec", []string{mnemonicStr(words)}, tag, true, desc)
}

func c14With(words []string, i int, w string) []string {
	out := append([]string{}, words...)
	out[i] = w
	return out
}

func runC14(r *Runner) string {
	r.Do("bip39.pin", []string{}, "pin", true, "word list content")

	// --- entropy of the five sizes: uniform, all-zero, all-ones, every single-bit pattern -------------
	encDec := func(e []byte, tag string) {
		r.Do("bip39.enc", []string{hx(e)}, "enc/"+tag, true, fmt.Sprintf("%d bytes", len(e)))
		r.c14Dec(c14Mnemonic(e), "dec/valid/"+tag, fmt.Sprintf("%d words", len(e)*3/4))
	}
	for _, n := range c14Sizes {
		encDec(make([]byte, n), "all-zero")
		encDec(bytes.Repeat([]byte{0xff}, n), "all-ones")
		for bit := 0; bit < 8*n; bit++ {
			e := make([]byte, n)
			e[bit/8] = 0x80 >> (bit % 8)
			encDec(e, "single-bit")
			if r.thorough || bit%4 == 0 {
				f := bytes.Repeat([]byte{0xff}, n)
				f[bit/8] ^= 0x80 >> (bit % 8)
				encDec(f, "single-zero-bit")
			}
		}
		for i := 0; i < r.N(300, 20000); i++ {
			encDec(r.bytesN(n), "uniform")
		}
	}
	// --- every invalid size 0..40 (and the valid ones again) ------------------------------------------
	for rep := 0; rep < r.N(6, 200); rep++ {
		for n := 0; n <= 40; n++ {
			tag := "enc/invalid size"
			if validEntropyLen(n) {
				tag = "enc/uniform"
			}
			r.Do("bip39.enc", []string{hx(r.bytesN(n))}, tag, true, fmt.Sprintf("%d bytes", n))
		}
	}
	for _, n := range []int{41, 48, 63, 64, 65, 128, 1000} {
		r.Do("bip39.enc", []string{hx(r.bytesN(n))}, "enc/invalid size", true, fmt.Sprintf("%d bytes", n))
	}

	// --- substitutions: per sampled position every one of the 2048 list words --------------------------
	for _, n := range c14Sizes {
		base := c14Mnemonic(r.bytesN(n))
		positions := []int{len(base) - 1} // the word that carries the checksum bits
		for i := 0; i < r.N(2, 5); i++ {
			positions = append(positions, r.rng.Intn(len(base)))
		}
		if r.thorough {
			positions = append(positions, 0)
		}
		for _, pos := range positions {
			for _, w := range bip39.WordList {
				r.c14Dec(c14With(base, pos, w), fmt.Sprintf("dec/substitute all 2048/%d words", len(base)), fmt.Sprintf("position %d", pos))
			}
		}
	}
	// random single and double substitutions in fresh mnemonics
	for i := 0; i < r.N(3000, 200000); i++ {
		base := c14Mnemonic(r.bytesN(c14Sizes[r.rng.Intn(5)]))
		k := 1 + r.rng.Intn(2)
		for j := 0; j < k; j++ {
			base[r.rng.Intn(len(base))] = bip39.WordList[r.rng.Intn(2048)]
		}
		r.c14Dec(base, "dec/random substitution", "")
	}
	// random list words of every count 0..30 (checksum right by chance only)
	for i := 0; i < r.N(2000, 100000); i++ {
		n := r.rng.Intn(31)
		if i%2 == 0 {
			n = 12 + 3*r.rng.Intn(5)
		}
		ws := make([]string, n)
		for j := range ws {
			ws[j] = bip39.WordList[r.rng.Intn(2048)]
		}
		r.c14Dec(ws, fmt.Sprintf("dec/random list words/count ok=%v", validWordCount(n)), "")
	}

	// --- unknown words, case, whitespace, dropped / added words ----------------------------------------
	unknown := []string{"", "abandonn", "abando", "zzz", "ABANDON", "Abandon", "abandoN", "abandón", "zoo\x00", "\xff\xfe",
		"aband\xc3", "abandon\t", "\tabandon", "abandon\n", "１２", "zoo,", "0", "about.", "àbout"}
	for rep := 0; rep < r.N(8, 300); rep++ {
		for _, n := range c14Sizes {
			base := c14Mnemonic(r.bytesN(n))
			L := len(base)
			pos := r.rng.Intn(L)
			for _, u := range unknown {
				r.c14Dec(c14With(base, pos, u), "dec/unknown word", fmt.Sprintf("%q at %d", u, pos))
			}
			// case changes
			up := make([]string, L)
			for i, w := range base {
				up[i] = strings.ToUpper(w)
			}
			r.c14Dec(up, "dec/case", "all upper case")
			r.c14Dec(c14With(base, pos, strings.ToUpper(base[pos])), "dec/case", "one word upper case")
			r.c14Dec(c14With(base, pos, strings.ToUpper(base[pos][:1])+base[pos][1:]), "dec/case", "one word capitalised")
			// whitespace: the harness splits at single spaces, so these become empty or padded words
			r.c14Dec(c14With(base, pos, base[pos]+" "), "dec/whitespace", "double space (an empty word)")
			r.c14Dec(append([]string{""}, base...), "dec/whitespace", "leading space")
			r.c14Dec(append(append([]string{}, base...), ""), "dec/whitespace", "trailing space")
			r.c14Dec([]string{strings.Join(base, "\t")}, "dec/whitespace", "tabs instead of spaces")
			r.c14Dec([]string{strings.Join(base, "\n")}, "dec/whitespace", "newlines instead of spaces")
			r.c14Dec([]string{strings.Join(base, "　")}, "dec/whitespace", "ideographic spaces")
			// dropped / added / duplicated / swapped words
			r.c14Dec(base[1:], "dec/dropped word", "first")
			r.c14Dec(base[:L-1], "dec/dropped word", "last")
			r.c14Dec(append(append([]string{}, base[:pos]...), base[pos+1:]...), "dec/dropped word", "middle")
			r.c14Dec(base[:L-3], "dec/dropped word", "last three (a valid count unless 12)")
			r.c14Dec(append(append([]string{}, base...), bip39.WordList[r.rng.Intn(2048)]), "dec/added word", "at the end")
			r.c14Dec(append([]string{bip39.WordList[r.rng.Intn(2048)]}, base...), "dec/added word", "at the start")
			r.c14Dec(append(append([]string{}, base...), base[:3]...), "dec/added word", "three at the end (a valid count unless 24)")
			sw := append([]string{}, base...)
			q := r.rng.Intn(L)
			sw[pos], sw[q] = sw[q], sw[pos]
			r.c14Dec(sw, "dec/swapped words", "")
		}
	}
	for n := 0; n <= 30; n++ { // every count of one repeated word
		ws := make([]string, n)
		for i := range ws {
			ws[i] = "abandon"
		}
		r.c14Dec(ws, "dec/word count 0..30", fmt.Sprintf("%d x abandon", n))
		for i := range ws {
			ws[i] = "zoo"
		}
		r.c14Dec(ws, "dec/word count 0..30", fmt.Sprintf("%d x zoo", n))
	}
	r.Do("bip39.dec", []string{"-"}, "dec/word count 0..30", true, "one empty word")

	// every one of the 2048 words inside a valid mnemonic (as the first word: the first 11 bits of the entropy)
	for w := 0; w < 2048; w++ {
		if !r.thorough && w%4 != int(r.res.Seed%4+4)%4 && w != 1654 && w != 103 && w != 0 && w != 2047 {
			continue
		}
		e := r.bytesN(c14Sizes[w%5])
		e[0] = byte(w >> 3)
		e[1] = e[1]&0x1f | byte(w&7)<<5
		words := c14Mnemonic(e)
		r.Do("bip39.enc", []string{hx(e)}, "enc/every list word", true, "")
		r.c14Dec(words, "dec/every list word in a valid mnemonic", words[0])
	}
	// a valid list with blank elements added, or with white space attached to a word: neither is a list of
	// 12/15/18/21/24 list words
	for i := 0; i < r.N(40, 400); i++ {
		words := c14Mnemonic(r.bytesN(c14Sizes[i%5]))
		pos := []int{0, len(words) / 2, len(words) - 1, r.rng.Intn(len(words))}[i%4]
		var v []string
		switch i % 8 {
		case 0: // an empty element in front of / behind position pos
			v = append(append(append([]string{}, words[:pos]...), ""), words[pos:]...)
		case 1:
			v = append(append([]string{}, words...), "")
		case 2:
			v = append(append(append([]string{}, words[:pos]...), "\t"), words[pos:]...)
		case 3:
			v = c14With(words, pos, words[pos]+"\n")
		case 4:
			v = c14With(words, pos, "\t"+words[pos])
		case 5:
			v = c14With(words, pos, words[pos]+"\r\n")
		case 6:
			v = append([]string{"", ""}, words...)
		default:
			v = c14With(words, pos, words[pos]+"\u00a0")
		}
		r.c14Dec(v, "dec/blank elements and attached white space", "")
	}
	// a list word replaced by a prefix of itself, by itself with a letter appended, in upper case, with a space
	// inside: only the 2048 words themselves are words
	for i := 0; i < r.N(60, 600); i++ {
		words := c14Mnemonic(r.bytesN(c14Sizes[i%5]))
		pos := []int{0, len(words) / 2, len(words) - 1, r.rng.Intn(len(words))}[i%4]
		w := words[pos]
		var v string
		switch i % 6 {
		case 0:
			if len(w) > 4 {
				v = w[:4]
			} else {
				v = w[:len(w)-1]
			}
		case 1:
			v = w[:len(w)-1]
		case 2:
			if len(w) > 3 {
				v = w[:3]
			} else {
				v = w[:1]
			}
		case 3:
			v = w + string(rune('a'+r.rng.Intn(26)))
		case 4:
			v = strings.ToUpper(w[:1]) + w[1:]
		default:
			v = w[1:]
		}
		r.c14Dec(c14With(words, pos, v), "dec/word replaced by a part of itself", fmt.Sprintf("%q for %q", v, w))
	}

	// --- seeds (PBKDF2 costs ~25 ms per case in the compiled model) -----------------------------------
	passes := [][]byte{nil, []byte("TREZOR"), []byte("a"), []byte("correct horse battery staple"), []byte("pässwörd"),
		[]byte("パスワード"), []byte("ÅÅÅ"), // three spellings of Å: no NFKD is applied, the seeds differ
		[]byte("🔑🔑"), []byte(" "), []byte("mnemonic"), bytes.Repeat([]byte("long passphrase "), 20), bytes.Repeat([]byte{0xe2, 0x82, 0xac}, 120),
		{0x00}, {0xff, 0xfe, 0x00, 0x80}, bytes.Repeat([]byte{'x'}, 119), bytes.Repeat([]byte{'x'}, 120), bytes.Repeat([]byte{'x'}, 121),
		bytes.Repeat([]byte{'y'}, 1000),
		// white space and line terminators at either end and inside: every byte of the passphrase is salt
		[]byte("TREZOR\n"), []byte("TREZOR\r\n"), []byte("\n"), []byte("\r"), []byte(" TREZOR"), []byte("TREZOR "), []byte("\tTREZOR\t"),
		[]byte("TRE\nZOR"), []byte("correct horse battery staple\r"), []byte("\n\n"), []byte("TREZOR\x00"), []byte("\x00TREZOR"), []byte("TREZOR\v\f")}
	nSeed := 0
	seed := func(words []string, pass []byte, tag string) {
		r.Do("bip39.seed", []string{mnemonicStr(words), hx(pass)}, "seed/"+tag, true, fmt.Sprintf("%d words, passphrase of %d bytes", len(words), len(pass)))
		nSeed++
	}
	for i, p := range passes {
		seed(c14Mnemonic(r.bytesN(c14Sizes[i%5])), p, "passphrase kinds")
	}
	for _, n := range c14Sizes {
		seed(c14Mnemonic(make([]byte, n)), []byte("TREZOR"), "all-zero entropy")
		seed(c14Mnemonic(bytes.Repeat([]byte{0xff}, n)), nil, "all-ones entropy")
	}
	// mnemonics that are not valid (DeriveSeed does not check) and HMAC key lengths around the 128-byte block
	seed(nil, nil, "unchecked mnemonic")
	seed([]string{""}, []byte("x"), "unchecked mnemonic")
	seed([]string{"not", "a", "mnemonic"}, []byte("TREZOR"), "unchecked mnemonic")
	for _, n := range []int{1, 127, 128, 129, 256, 1000} {
		seed([]string{strings.Repeat("k", n)}, []byte("p"), "unchecked mnemonic")
	}
	for nSeed < r.N(400, 4000) {
		p := passes[r.rng.Intn(len(passes))]
		if r.rng.Intn(2) == 0 {
			p = r.bytesN(r.rng.Intn(40))
		}
		seed(c14Mnemonic(r.bytesN(c14Sizes[r.rng.Intn(5)])), p, "uniform")
	}

	// --- GenerateMnemonic over a deterministic reader --------------------------------------------------
	for n := -3; n <= 40; n++ {
		for _, l := range []int{0, 15, 16, 20, 24, 28, 31, 32, 33, 40} {
			r.Do("bip39.gen", []string{strconv.Itoa(n), hx(r.bytesN(l))}, "gen", validWordCount(n), fmt.Sprintf("%d words, reader of %d bytes", n, l))
		}
	}
	for _, n := range []int64{1 << 59, 1<<59 + 12, 1<<62 + 3, -1 << 63, 1<<63 - 1, 576460752303423500} {
		// nWords*32 wraps in Go's int; outside the property, the model mirrors the arithmetic
		r.DoMode("bip39.gen", []string{strconv.FormatInt(n, 10), hx(r.bytesN(32))}, "gen/huge count", false, "", DriftFull)
	}

	return "Entropy of 16/20/24/28/32 bytes: all-zero, all-ones, every single-bit and single-zero-bit pattern, uniform; each is " +
		"encoded (model cross-checked against the bit-level reference encoding over the pinned word list) and its mnemonic decoded. " +
		"Every entropy length 0..40 plus a few longer ones. Word lists: for sampled positions (always including the last word) all 2048 " +
		"substitutions; random single/double substitutions; random list words of every count 0..30; unknown words (empty, misspelt, " +
		"upper case, capitalised, accented, NUL, invalid UTF-8, tab/newline padded); whole-mnemonic and single-word case changes; " +
		"empty words from doubled/leading/trailing spaces, tabs/newlines/ideographic spaces as separators; dropped, added, duplicated, " +
		"swapped words; 0..30 repetitions of one word. Seeds for valid and unchecked mnemonics with empty, ASCII, multi-byte UTF-8 " +
		"(including three spellings of Å), binary and long passphrases, HMAC keys around the 128-byte block. GenerateMnemonic for " +
		"word counts -3..40 over readers of 0..40 bytes. Every case is distinct input; all are compared in full (answer and accept/reject)."
}
