// Command harness drives the real Go packages of the repository (linked in-process through
// /verif/go.work), generates cases, asks the compiled Lean model (`oracle`) the same questions
// over the line protocol and reports disagreements and direct property failures as JSON.
package main

import (
	"encoding/json"
	"flag"
	"fmt"
	"os"
	"strings"
	"time"
)

const DriftFull Mode = 100 // compared in full, but a difference is only recorded as drift

type OpFunc func(args []string) (answer string, direct []string)

type opSpec struct {
	fn   OpFunc
	mode Mode
}

var ops = map[string]opSpec{}

var dumpTag = os.Getenv("VERIF_DUMP_TAG")

func reg(name string, mode Mode, fn OpFunc) { ops[name] = opSpec{fn, mode} }

// eval runs the Go side of an operation, converting panics into the answer "panic …".
func eval(op string, args []string) (ans string, direct []string) {
	spec, ok := ops[op]
	if !ok {
		return "bad-op", nil
	}
	defer func() {
		if e := recover(); e != nil {
			lastPanic = fmt.Sprint(e)
			ans = "panic"
			direct = nil
		}
	}()
	if !arena.active {
		noteRecent(op, args)
	}
	retainOp = op + " " + strings.Join(args, " ")
	if len(retainOp) > 400 {
		retainOp = retainOp[:400]
	}
	ans, direct = spec.fn(args)
	if msgs := checkRetained(); len(msgs) > 0 && len(msgs) <= 3 {
		direct = append(direct, msgs...)
	} else if len(msgs) > 3 {
		direct = append(direct, msgs[:3]...)
	}
	return ans, direct
}

func (r *Runner) Do(op string, args []string, tag string, nontrivial bool, desc string) {
	if _, ok := ops[op]; !ok {
		// both sides would answer bad-op and agree: a misspelt name must not pass for a case
		panic("generator names an operation that is not registered: " + op)
	}
	r.DoMode(op, args, tag, nontrivial, desc, ops[op].mode)
}

func (r *Runner) DoMode(op string, args []string, tag string, nontrivial bool, desc string, mode Mode) {
	t0 := time.Now()
	mark := retainSeq
	ans, direct := eval(op, args)
	noteEarly(op, args, ans)
	r.askAgain(op, args, ans, tag, mark)
	r.noteForReuse(op, args, ans, tag, time.Since(t0))
	if dumpTag != "" && strings.Contains(tag, dumpTag) { // debugging aid: VERIF_DUMP_TAG=<substring of a tag>
		fmt.Fprintf(os.Stderr, "dump %s %s -> %s %v\n", op, truncate(strings.Join(args, " "), 200), truncate(ans, 400), direct)
	}
	c := &Case{Op: op, Args: args, Go: ans, Mode: mode, Direct: direct, NonTrivial: nontrivial, Tag: tag, Desc: desc}
	if mode == DriftFull {
		r.addDrift(c)
		return
	}
	r.Add(c)
	r.maybeSibling(op, args, tag, mode)
}

// DoAllowErr is Do for inputs on which the property lets the library refuse with an error
// (but never return a different answer).
func (r *Runner) DoAllowErr(op string, args []string, tag string, nontrivial bool, desc string) {
	t0 := time.Now()
	ans, direct := eval(op, args)
	r.noteForReuse(op, args, ans, tag, time.Since(t0))
	r.Add(&Case{Op: op, Args: args, Go: ans, Mode: ops[op].mode, Direct: direct, NonTrivial: nontrivial, Tag: tag, Desc: desc, AllowGoErr: true})
}

// drift cases are batched separately: they never produce failures
var driftBatch []*Case

func (r *Runner) addDrift(c *Case) {
	r.res.Evaluations++
	r.res.Distribution[c.Tag]++
	r.res.Classes[classOf(c.Go)]++
	// a panic is never acceptable, whatever the relation
	if classOf(c.Go) == "panic" {
		r.addFailure(Failure{Kind: "property", Op: c.Op, Args: c.Args, Go: c.Go, Detail: "Go side panicked", Tag: c.Tag}, false)
	}
	driftBatch = append(driftBatch, c)
	if len(driftBatch) >= 512 {
		r.flushDrift()
	}
}

func (r *Runner) flushDrift() {
	if len(driftBatch) == 0 || r.oracle == nil {
		driftBatch = driftBatch[:0]
		return
	}
	lines := make([]string, len(driftBatch))
	for i, c := range driftBatch {
		lines[i] = c.Line()
	}
	answers, err := r.oracle.Ask(lines)
	if err != nil {
		fmt.Fprintln(os.Stderr, "harness: oracle failed:", err)
		os.Exit(2)
	}
	for i, c := range driftBatch {
		if answers[i] != c.Go {
			r.addFailure(Failure{Kind: "drift", Op: c.Op, Args: c.Args, Go: c.Go, Model: answers[i], Detail: firstDiff(c.Go, answers[i]), Tag: c.Tag}, true)
		}
	}
	driftBatch = driftBatch[:0]
}

var runners = map[string]func(*Runner) string{}

// regRunner registers the case generator of a property (called from init functions).
func regRunner(prop string, f func(*Runner) string) { runners[prop] = f }

func main() {
	prop := flag.String("prop", "", "property id (C01 …)")
	tier := flag.String("tier", "quick", "quick | thorough")
	seed := flag.Int64("seed", 1, "PRNG seed")
	oracle := flag.String("oracle", "/verif/lean/.lake/build/bin/oracle", "path of the compiled Lean model")
	out := flag.String("out", "-", "result JSON")
	corpus := flag.String("corpus", "/verif/corpus", "corpus directory")
	replay := flag.String("replay", "", "replay file (JSON with op and args)")
	known := flag.String("known", "/verif/known_findings.json", "committed known-findings file (read-only)")
	child := flag.String("child", "", "internal: run one contained operation batch")
	flag.Parse()

	if os.Getenv("VERIF_C17_CHILD") != "" { // contained evaluation of hostile inputs (parsers.go)
		c17Child()
		return
	}
	if *child != "" {
		runChild(*child)
		return
	}

	loadKnown(*known, *prop)
	r := NewRunner(*prop, *tier, *seed, *oracle)

	if *replay != "" {
		data, err := os.ReadFile(*replay)
		if err != nil {
			fmt.Fprintln(os.Stderr, "harness:", err)
			os.Exit(2)
		}
		var f struct {
			Op      string     `json:"op"`
			Args    []string   `json:"args"`
			History [][]string `json:"history"`
			Context [][]string `json:"context"`
		}
		if err := json.Unmarshal(data, &f); err != nil || f.Op == "" {
			fmt.Fprintln(os.Stderr, "harness: replay file has no op")
			os.Exit(2)
		}
		if len(f.History) > 0 { // a failure that needs the preceding operations (reused argument buffers)
			for _, h := range f.History {
				if _, ok := ops[h[0]]; ok {
					r.Do(h[0], h[1:], "replay", true, "")
				}
			}
			r.Finish("replay of a recorded history", *out)
			return
		}
		for _, h := range f.Context { // the operations that preceded the failing one
			if _, ok := ops[h[0]]; ok {
				eval(h[0], h[1:])
			}
		}
		r.Do(f.Op, f.Args, "replay", true, "")
		r.Finish("replay of one recorded case", *out)
		return
	}

	run, ok := runners[*prop]
	if !ok {
		fmt.Fprintln(os.Stderr, "harness: unknown property", *prop)
		os.Exit(2)
	}
	// corpus first
	for _, l := range readCorpus(*corpus, *prop) {
		f := strings.Fields(l)
		if _, ok := ops[f[0]]; !ok {
			continue
		}
		r.Do(f[0], f[1:], "corpus", true, "corpus")
		r.res.CorpusRun++
	}
	r.warmUp(*prop)
	rule := run(r)
	for _, g := range extraGens[*prop] {
		g(r)
	}
	r.lateReplay()
	r.flushDrift()
	r.Finish(rule, *out)
}

func runChild(spec string) {}
