package main

import (
	"bufio"
	"bytes"
	"crypto/sha256"
	"encoding/hex"
	"encoding/json"
	"fmt"
	"io"
	"math/big"
	"math/rand"
	"os"
	"os/exec"
	"sort"
	"strings"
	"sync"
	"time"
)

// ---------------------------------------------------------------------------------------------
// cases, results

// Mode says how a Go answer is related to the model's answer (DESIGN.md 2.2 "what is compared").
type Mode int

const (
	Full    Mode = iota // answers must be identical strings
	Class               // only ok / err / panic class is compared
	NoPanic             // the Go side must not panic; the model side must not panic either
	GoOnly              // no model op; only the direct property oracle on the Go side
)

type Case struct {
	Op         string
	Args       []string
	Go         string // canonical Go answer
	Mode       Mode
	Direct     []string // direct property failures found on the Go side (empty = none)
	NonTrivial bool
	AllowGoErr bool   // the relation lets the library refuse (answer `err`) on this input
	Tag        string // generator branch, for the distribution
	Desc       string // short human-readable description for samples
}

func (c *Case) Line() string {
	if len(c.Args) == 0 {
		return c.Op
	}
	return c.Op + " " + strings.Join(c.Args, " ")
}

type Failure struct {
	Kind   string   `json:"kind"` // property | disagreement | crash
	Op     string   `json:"op"`
	Args   []string `json:"args"`
	Go     string   `json:"go"`
	Model  string   `json:"model"`
	Detail string   `json:"detail"`
	Tag    string   `json:"tag"`
	// the operations evaluated (in reused argument buffers) before and including this one, when the
	// failure needs that history to reproduce
	History [][]string `json:"history,omitempty"`
	// the few operations evaluated just before this one (fresh argument buffers); the replay
	// evaluates them first, so that a failure that needs a preceding call reproduces
	Context [][]string `json:"context,omitempty"`
}

type Result struct {
	Property         string               `json:"property"`
	Tier             string               `json:"tier"`
	Seed             int64                `json:"seed"`
	Evaluations      int                  `json:"evaluations"`
	ReuseEvaluations int                  `json:"reused_buffer_evaluations"`
	DistinctNT       int                  `json:"distinct_nontrivial"`
	Rule             string               `json:"rule"`
	Samples          []string             `json:"samples"`
	Distribution     map[string]int       `json:"distribution"`
	Classes          map[string]int       `json:"answer_classes"`
	Failures         []Failure            `json:"failures"`
	Drift            []Failure            `json:"drift"`
	CorpusRun        int                  `json:"corpus_cases"`
	Exhaustive       bool                 `json:"exhaustive,omitempty"`
	Notes            []string             `json:"notes,omitempty"`
	KnownHits        map[string]*KnownHit `json:"known_hits,omitempty"`
	truncFailures    int
}

type KnownHit struct {
	What    string  `json:"what"`
	Count   int     `json:"count"`
	Example Failure `json:"example"`
}

type Runner struct {
	sibCounter  int
	textCounter int
	res         *Result
	seen        map[[16]byte]struct{}
	rng         *rand.Rand
	oracle      *Oracle
	batch       []*Case
	mu          sync.Mutex
	maxFail     int
	tier        string
	thorough    bool
}

func NewRunner(prop, tier string, seed int64, oraclePath string) *Runner {
	r := &Runner{
		res:      &Result{Property: prop, Tier: tier, Seed: seed, Distribution: map[string]int{}, Classes: map[string]int{}},
		seen:     map[[16]byte]struct{}{},
		rng:      rand.New(rand.NewSource(seed*1000003 + int64(len(prop))*7919 + int64(prop[1])*31 + int64(prop[2]))),
		maxFail:  20,
		tier:     tier,
		thorough: tier == "thorough",
	}
	if oraclePath != "" {
		o, err := StartOracle(oraclePath)
		if err != nil {
			fmt.Fprintln(os.Stderr, "harness: cannot start oracle:", err)
			os.Exit(2)
		}
		r.oracle = o
	}
	return r
}

// N scales a case count by tier.
func (r *Runner) N(quick, thorough int) int {
	if r.thorough {
		return thorough
	}
	if r.tier == "extended" { // the search that follows a broken proof obligation
		if 6*quick < thorough {
			return 6 * quick
		}
		return thorough
	}
	return quick
}

func classOf(ans string) string {
	switch {
	case strings.HasPrefix(ans, "ok"):
		return "ok"
	case strings.HasPrefix(ans, "err"):
		return "err"
	case strings.HasPrefix(ans, "panic"):
		return "panic"
	}
	return "other"
}

// ---- known findings (committed file, read-only): a failure that matches an `open` entry is counted
// separately so that it can neither hide nor crowd out a different violation

type knownFinding struct {
	Property string `json:"property"`
	ID       string `json:"id"`
	Status   string `json:"status"`
	What     string `json:"what"`
	Match    struct {
		Op             string   `json:"op"`
		Args           []string `json:"args"`
		ArgsPrefix     []string `json:"args_prefix"`
		DetailContains string   `json:"detail_contains"`
	} `json:"match"`
}

var knownFindings []knownFinding

func loadKnown(path, prop string) {
	data, err := os.ReadFile(path)
	if err != nil {
		return
	}
	var doc struct {
		Findings []knownFinding `json:"findings"`
	}
	if json.Unmarshal(data, &doc) != nil {
		return
	}
	for _, k := range doc.Findings {
		if k.Property == prop && k.Status == "open" {
			knownFindings = append(knownFindings, k)
		}
	}
}

func matchKnownFinding(f Failure) *knownFinding {
	if f.Op == "net.with" && len(f.Args) >= 2 { // the same operation under another network is the same finding
		f.Op, f.Args = f.Args[1], f.Args[2:]
	}
	for i := range knownFindings {
		k := &knownFindings[i]
		m := k.Match
		if m.Op != "" && m.Op != f.Op {
			continue
		}
		if m.Args != nil && strings.Join(m.Args, " ") != strings.Join(f.Args, " ") {
			continue
		}
		if m.ArgsPrefix != nil && (len(f.Args) < len(m.ArgsPrefix) || strings.Join(m.ArgsPrefix, " ") != strings.Join(f.Args[:len(m.ArgsPrefix)], " ")) {
			continue
		}
		if m.DetailContains != "" && !strings.Contains(f.Detail, m.DetailContains) {
			continue
		}
		return k
	}
	return nil
}

func (r *Runner) addFailure(f Failure, drift bool) {
	if !drift {
		if k := matchKnownFinding(f); k != nil {
			if r.res.KnownHits == nil {
				r.res.KnownHits = map[string]*KnownHit{}
			}
			h := r.res.KnownHits[k.ID]
			if h == nil {
				h = &KnownHit{What: k.What, Example: f}
				r.res.KnownHits[k.ID] = h
			}
			h.Count++
			return
		}
	}
	trunc := func(s string) string {
		if len(s) > 4000 {
			return s[:4000] + "…(" + fmt.Sprint(len(s)) + " bytes)"
		}
		return s
	}
	f.Go, f.Model = trunc(f.Go), trunc(f.Model)
	if f.History == nil && f.Context == nil {
		f.Context = recentContext(f.Op, f.Args)
	}
	if drift {
		if len(r.res.Drift) < r.maxFail {
			r.res.Drift = append(r.res.Drift, f)
		}
		return
	}
	if len(r.res.Failures) < r.maxFail {
		r.res.Failures = append(r.res.Failures, f)
	} else {
		r.res.truncFailures++
	}
}

// Add queues a case; it is compared with the model when the batch is flushed.
func (r *Runner) Add(c *Case) {
	r.res.Evaluations++
	r.res.Distribution[c.Tag]++
	r.res.Classes[classOf(c.Go)]++
	if c.NonTrivial {
		h := sha256.Sum256([]byte(c.Line()))
		var k [16]byte
		copy(k[:], h[:16])
		if _, ok := r.seen[k]; !ok {
			r.seen[k] = struct{}{}
			r.res.DistinctNT++
			if len(r.res.Samples) < 8 && (r.res.DistinctNT%97 == 1 || len(r.res.Samples) < 3) {
				s := c.Line()
				if len(s) > 300 {
					s = s[:300] + "…"
				}
				if c.Desc != "" {
					s = c.Desc + " :: " + s
				}
				r.res.Samples = append(r.res.Samples, s+" => "+truncate(c.Go, 200))
			}
		}
	}
	for _, d := range c.Direct {
		r.addFailure(Failure{Kind: "property", Op: c.Op, Args: c.Args, Go: c.Go, Detail: d, Tag: c.Tag}, false)
	}
	if c.Mode == GoOnly || r.oracle == nil {
		if c.Mode != GoOnly && r.oracle == nil {
			return
		}
		if classOf(c.Go) == "panic" {
			r.addFailure(Failure{Kind: "property", Op: c.Op, Args: c.Args, Go: c.Go, Detail: "Go side panicked", Tag: c.Tag}, false)
		}
		return
	}
	r.batch = append(r.batch, c)
	if len(r.batch) >= 512 {
		r.Flush()
	}
}

func truncate(s string, n int) string {
	if len(s) > n {
		return s[:n] + "…"
	}
	return s
}

func (r *Runner) Flush() {
	if len(r.batch) == 0 || r.oracle == nil {
		r.batch = r.batch[:0]
		return
	}
	lines := make([]string, len(r.batch))
	for i, c := range r.batch {
		lines[i] = c.Line()
	}
	t0 := time.Now()
	answers, err := r.oracle.Ask(lines)
	if err != nil {
		fmt.Fprintln(os.Stderr, "harness: oracle failed:", err)
		os.Exit(2)
	}
	if d := time.Since(t0); d > 5*time.Second && os.Getenv("VERIF_DEBUG") != "" {
		fmt.Fprintf(os.Stderr, "harness: slow batch %v, first op %s\n", d, r.batch[0].Tag)
		os.WriteFile("/tmp/slowbatch.txt", []byte(strings.Join(lines, "\n")+"\n"), 0o644)
	}
	for i, c := range r.batch {
		m := answers[i]
		switch c.Mode {
		case Full:
			if c.AllowGoErr && c.Go == "err" {
				r.res.Distribution["(library refused, as the relation allows)"]++
			} else if m != c.Go {
				r.addFailure(Failure{Kind: "disagreement", Op: c.Op, Args: c.Args, Go: c.Go, Model: m, Detail: firstDiff(c.Go, m), Tag: c.Tag}, false)
			}
		case Class:
			if classOf(m) != classOf(c.Go) {
				r.addFailure(Failure{Kind: "disagreement", Op: c.Op, Args: c.Args, Go: c.Go, Model: m, Detail: "outcome class differs", Tag: c.Tag}, false)
			}
		case NoPanic:
			if classOf(c.Go) == "panic" {
				r.addFailure(Failure{Kind: "property", Op: c.Op, Args: c.Args, Go: c.Go, Model: m, Detail: "Go side panicked", Tag: c.Tag}, false)
			} else if classOf(m) == "panic" || classOf(m) == "other" {
				r.addFailure(Failure{Kind: "disagreement", Op: c.Op, Args: c.Args, Go: c.Go, Model: m, Detail: "model predicts a panic / rejects the op", Tag: c.Tag}, false)
			} else if classOf(m) != classOf(c.Go) {
				r.addFailure(Failure{Kind: "drift", Op: c.Op, Args: c.Args, Go: c.Go, Model: m, Detail: "accept/reject differs (outside this property's relation)", Tag: c.Tag}, true)
			}
		}
	}
	r.batch = r.batch[:0]
}

func firstDiff(a, b string) string {
	n := len(a)
	if len(b) < n {
		n = len(b)
	}
	i := 0
	for i < n && a[i] == b[i] {
		i++
	}
	lo := i - 30
	if lo < 0 {
		lo = 0
	}
	ha, hb := i+40, i+40
	if ha > len(a) {
		ha = len(a)
	}
	if hb > len(b) {
		hb = len(b)
	}
	return fmt.Sprintf("first difference at byte %d: go=…%s… model=…%s…", i, a[lo:ha], b[lo:hb])
}

func (r *Runner) Finish(rule string, out string) {
	if len(arenaRing) > 0 {
		r.reuseReplay()
	}
	r.Flush()
	if r.oracle != nil {
		r.oracle.Close()
	}
	r.res.Rule = rule
	if r.res.truncFailures > 0 {
		r.res.Notes = append(r.res.Notes, fmt.Sprintf("%d further failures not listed", r.res.truncFailures))
	}
	if r.res.Failures == nil {
		r.res.Failures = []Failure{}
	}
	if r.res.Drift == nil {
		r.res.Drift = []Failure{}
	}
	if r.res.Samples == nil {
		r.res.Samples = []string{}
	}
	data, _ := json.MarshalIndent(r.res, "", " ")
	if out == "" || out == "-" {
		os.Stdout.Write(data)
		fmt.Println()
		return
	}
	if err := os.WriteFile(out, data, 0o644); err != nil {
		fmt.Fprintln(os.Stderr, "harness: write result:", err)
		os.Exit(2)
	}
}

// ---------------------------------------------------------------------------------------------
// oracle process

type Oracle struct {
	cmd *exec.Cmd
	in  io.WriteCloser
	out *bufio.Reader
}

func StartOracle(path string) (*Oracle, error) {
	cmd := exec.Command(path)
	in, err := cmd.StdinPipe()
	if err != nil {
		return nil, err
	}
	outp, err := cmd.StdoutPipe()
	if err != nil {
		return nil, err
	}
	cmd.Stderr = os.Stderr
	if err := cmd.Start(); err != nil {
		return nil, err
	}
	return &Oracle{cmd: cmd, in: in, out: bufio.NewReaderSize(outp, 1<<20)}, nil
}

func (o *Oracle) Ask(lines []string) ([]string, error) {
	errc := make(chan error, 1)
	go func() {
		w := bufio.NewWriterSize(o.in, 1<<20)
		for _, l := range lines {
			if _, err := w.WriteString(l); err != nil {
				errc <- err
				return
			}
			w.WriteByte('\n')
		}
		errc <- w.Flush()
	}()
	answers := make([]string, 0, len(lines))
	for range lines {
		s, err := o.out.ReadString('\n')
		if err != nil {
			return nil, fmt.Errorf("oracle closed its output after %d of %d answers (last request: %s): %v", len(answers), len(lines), truncate(lines[len(answers)], 200), err)
		}
		answers = append(answers, strings.TrimRight(s, "\n"))
	}
	if err := <-errc; err != nil {
		return nil, err
	}
	return answers, nil
}

func (o *Oracle) Close() {
	o.in.Close()
	o.cmd.Wait()
}

// ---------------------------------------------------------------------------------------------
// helpers shared by the generators

func hx(b []byte) string {
	if len(b) == 0 {
		return "-"
	}
	retain(b)
	return hex.EncodeToString(b)
}

// ---- retained results: every byte slice that was printed into an answer (results of the library,
// and arguments handed to it) is remembered together with a snapshot for the next few hundred
// operations. If its contents change later, the library has handed out (or kept) memory that it
// went on writing to — a pooled buffer, a cache keyed on a caller's slice, an in-place reuse —
// which makes results history-dependent. The check runs after every operation.

type retainedSlice struct {
	b    []byte
	snap []byte
	op   string
	seq  int
}

var (
	retainRing []retainedSlice
	retainPos  int
	retainOp   string
	retainOff  bool
)

const retainSlots = 384

func retain(b []byte) {
	if retainOff || len(b) > 4096 || inArena(b) {
		return
	}
	retainSeq++
	e := retainedSlice{b: b, snap: append([]byte{}, b...), op: retainOp, seq: retainSeq}
	if len(retainRing) < retainSlots {
		retainRing = append(retainRing, e)
		return
	}
	retainRing[retainPos] = e
	retainPos = (retainPos + 1) % retainSlots
}

// the same for *big.Int results (decoded coordinates, signature halves): the library must not go on writing
// to an integer it has handed out
type retainedBig struct {
	v    *big.Int
	snap string
	op   string
	seq  int
}

// retainSeq numbers everything remembered (slices and integers), so that "what this call returned" can be told
// from what earlier calls returned
var retainSeq int

var (
	retainBigRing []retainedBig
	retainBigPos  int
)

func retainBig(vs ...*big.Int) {
	if retainOff {
		return
	}
	for _, v := range vs {
		if v == nil {
			continue
		}
		retainSeq++
		e := retainedBig{v: v, snap: v.Text(16), op: retainOp, seq: retainSeq}
		if len(retainBigRing) < 64 {
			retainBigRing = append(retainBigRing, e)
			continue
		}
		retainBigRing[retainBigPos] = e
		retainBigPos = (retainBigPos + 1) % 64
	}
}

// checkRetained reports (once) every remembered slice whose contents changed.
func checkRetained() []string {
	var out []string
	for i := range retainBigRing {
		e := &retainBigRing[i]
		if e.v == nil {
			continue
		}
		if now := e.v.Text(16); now != e.snap {
			out = append(out, fmt.Sprintf("an integer returned by an earlier operation [%s] changed during a later one: was %s, now %s", truncate(e.op, 160), truncate(e.snap, 80), truncate(now, 80)))
			e.v = nil
		}
	}
	for i := range retainRing {
		e := &retainRing[i]
		if e.b == nil {
			continue
		}
		if !bytes.Equal(e.b, e.snap) {
			out = append(out, fmt.Sprintf("bytes returned by (or passed to) an earlier operation [%s] changed during a later one: were %s, now %s", truncate(e.op, 160), truncate(hex.EncodeToString(e.snap), 80), truncate(hex.EncodeToString(e.b), 80)))
			e.b = nil
		}
	}
	return out
}

func unhx(s string) []byte {
	if s == "-" {
		if arena.active {
			return arenaSlice(nil)
		}
		return []byte{}
	}
	b, err := hex.DecodeString(s)
	if err != nil {
		panic("bad hex in case: " + s)
	}
	if arena.active {
		return arenaSlice(b)
	}
	return b
}

func (r *Runner) bytesN(n int) []byte {
	b := make([]byte, n)
	r.rng.Read(b)
	return b
}

// safely runs f and converts a panic into the canonical answer "panic".
func safely(f func() string) (ans string) {
	defer func() {
		if e := recover(); e != nil {
			lastPanic = fmt.Sprint(e)
			ans = "panic"
		}
	}()
	return f()
}

func sortedKeys(m map[string]int) []string {
	ks := make([]string, 0, len(m))
	for k := range m {
		ks = append(ks, k)
	}
	sort.Strings(ks)
	return ks
}

// corpus files: one request line per line (`#` comments allowed)
func readCorpus(dir, prop string) []string {
	var lines []string
	files, _ := os.ReadDir(dir + "/" + prop)
	for _, f := range files {
		data, err := os.ReadFile(dir + "/" + prop + "/" + f.Name())
		if err != nil {
			continue
		}
		for _, l := range strings.Split(string(data), "\n") {
			l = strings.TrimSpace(l)
			if l != "" && !strings.HasPrefix(l, "#") {
				lines = append(lines, l)
			}
		}
	}
	return lines
}

// lastPanic keeps the message of the most recent recovered panic (for failure details only;
// canonical answers never contain messages).
var lastPanic string
