package main

// C01 / C02: wire codec, sizes, identifiers, merkle root, nBits target.

import (
	"bytes"
	"crypto/sha256"
	"encoding/binary"
	"encoding/hex"
	"fmt"
	"io"
	"math/big"
	"reflect"
	"strconv"
	"strings"
	"testing/iotest"

	"github.com/kklash/bitcoinlib/blocks"
	"github.com/kklash/bitcoinlib/blocks/blockheader"
	"github.com/kklash/bitcoinlib/blocks/merkle"
	"github.com/kklash/bitcoinlib/tx"
	"github.com/kklash/bitcoinlib/varint"
)

type countingWriter struct{ n int64 }

func (c *countingWriter) Write(p []byte) (int, error) { c.n += int64(len(p)); return len(p), nil }

func dumpPrevOut(p *tx.PrevOut) string { return fmt.Sprintf("%s:%d", hx(p.Hash[:]), p.Index) }
func dumpIn(i *tx.Input) string {
	return fmt.Sprintf("%s:%s:%d", dumpPrevOut(i.PrevOut), hx(i.Script), i.Sequence)
}
func dumpOut(o *tx.Output) string { return fmt.Sprintf("%d:%s", o.Value, hx(o.Script)) }
func dumpWit(w tx.Witness) string {
	if len(w) == 0 {
		return "."
	}
	parts := make([]string, len(w))
	for i, c := range w {
		parts[i] = hx(c)
	}
	return strings.Join(parts, ",")
}
func dumpWits(ws []tx.Witness) string {
	if ws == nil {
		return "none"
	}
	parts := make([]string, len(ws))
	for i, w := range ws {
		parts[i] = dumpWit(w)
	}
	return "[" + strings.Join(parts, "|") + "]"
}
func dumpTx(t *tx.Tx) string {
	ins := make([]string, len(t.Inputs))
	for i, v := range t.Inputs {
		ins[i] = dumpIn(v)
	}
	outs := make([]string, len(t.Outputs))
	for i, v := range t.Outputs {
		outs[i] = dumpOut(v)
	}
	return fmt.Sprintf("ver=%d in=[%s] out=[%s] wit=%s lock=%d", uint32(t.Version), strings.Join(ins, ";"), strings.Join(outs, ";"), dumpWits(t.Witnesses), t.Locktime)
}

func encStr(b []byte) string {
	if b == nil {
		return "err"
	}
	return hx(b)
}

func idStr(t *tx.Tx, wit bool) string {
	id, err := t.Id(wit)
	if err != nil {
		return "err"
	}
	return id
}

// describeTx mirrors Oracle.describeTx; `direct` collects Go-side property failures.
func describeTx(t *tx.Tx, direct *[]string) string {
	enc := t.Bytes()
	encnw := t.BytesNoWitness()
	s := fmt.Sprintf("%s enc=%s encnw=%s size=%d sizenw=%d weight=%d vsize=%d txid=%s wtxid=%s",
		dumpTx(t), encStr(enc), encStr(encnw), t.Size(), t.SizeNoWitness(), t.WeightUnits(), t.VSize(), idStr(t, false), idStr(t, true))
	if direct != nil && enc != nil {
		if t.Size() != len(enc) {
			*direct = append(*direct, fmt.Sprintf("Size()=%d but %d bytes emitted", t.Size(), len(enc)))
		}
		if t.SizeNoWitness() != len(encnw) {
			*direct = append(*direct, fmt.Sprintf("SizeNoWitness()=%d but %d bytes emitted", t.SizeNoWitness(), len(encnw)))
		}
		cw := &countingWriter{}
		n, err := t.WriteTo(cw)
		if err != nil || n != cw.n || n != int64(len(enc)) {
			*direct = append(*direct, fmt.Sprintf("WriteTo returned %d, wrote %d, Bytes has %d", n, cw.n, len(enc)))
		}
		cw = &countingWriter{}
		n, err = t.WriteToNoWitness(cw)
		if err != nil || n != cw.n || n != int64(len(encnw)) {
			*direct = append(*direct, fmt.Sprintf("WriteToNoWitness returned %d, wrote %d", n, cw.n))
		}
		if t.WeightUnits() != 3*len(encnw)+len(enc) {
			*direct = append(*direct, "weight != 3*stripped + total")
		}
		if t.VSize() != (t.WeightUnits()+3)/4 {
			*direct = append(*direct, "vsize != ceil(weight/4)")
		}
		back, err := tx.FromBytes(enc)
		if err != nil {
			*direct = append(*direct, "re-parse of Bytes() failed: "+err.Error())
		} else if dumpTx(back) != dumpTx(t) {
			*direct = append(*direct, "FromBytes(Bytes()) differs from the value")
		}
		if len(t.Inputs) > 0 {
			backnw, err := tx.FromBytes(encnw)
			if err != nil {
				*direct = append(*direct, "re-parse of BytesNoWitness() failed: "+err.Error())
			} else {
				c := *t
				c.Witnesses = nil
				if dumpTx(backnw) != dumpTx(&c) {
					*direct = append(*direct, "FromBytes(BytesNoWitness()) differs from the stripped value")
				}
			}
		}
	}
	return s
}

// mkReader wraps the input in one of four reader kinds, chosen by the input itself so that a replay
// reproduces it: the decoders must consume exactly one object from ANY io.Reader (a reader that is
// not an io.ByteReader, a one-byte-at-a-time reader, a hex decoder as blockscan uses), not only from
// a *bytes.Reader.
func mkReader(b []byte) io.Reader {
	h := sha256.Sum256(b)
	switch h[0] % 5 {
	case 4:
		return bytes.NewBuffer(append([]byte{}, b...))
	case 1:
		return struct{ io.Reader }{bytes.NewReader(b)}
	case 2:
		return iotest.OneByteReader(bytes.NewReader(b))
	case 3:
		return hex.NewDecoder(strings.NewReader(hex.EncodeToString(b)))
	}
	return bytes.NewReader(b)
}

func withRest(r io.Reader, body string) string {
	rest, _ := io.ReadAll(r)
	return "ok " + body + " rest=" + hx(rest)
}

func dumpHeader(h *blockheader.BlockHeader) string {
	return fmt.Sprintf("ver=%d prev=%s merkle=%s time=%d nbits=%d nonce=%d", uint32(h.Version), hx(h.PreviousHeaderHash[:]), hx(h.MerkleRootHash[:]), h.Time, h.NBits, h.Nonce)
}

func targetStr(h *blockheader.BlockHeader) string {
	return safely(func() string { return h.TargetNBits().String() })
}

func describeHeader(h *blockheader.BlockHeader, direct *[]string) string {
	hash, err := h.Hash()
	hs := "err"
	if err == nil {
		hs = hx(hash[:])
	}
	enc := h.Bytes()
	if direct != nil {
		if len(enc) != h.Size() || h.Size() != 80 {
			*direct = append(*direct, "header Size() != bytes emitted")
		}
		cw := &countingWriter{}
		n, _ := h.WriteTo(cw)
		if n != cw.n {
			*direct = append(*direct, "header WriteTo count differs from bytes written")
		}
	}
	return fmt.Sprintf("%s enc=%s hash=%s target=%s", dumpHeader(h), hx(enc), hs, targetStr(h))
}

func init() {
	regRunner("C01", runC01)
	regRunner("C02", runC02)
	reg("varint.dec", Full, func(a []string) (string, []string) {
		r := mkReader(unhx(a[0]))
		v, err := varint.FromReader(r)
		// the slice entry point on the same bytes (a panic in it is this op's panic)
		fb, fbErr := varint.FromBytes(unhx(a[0]))
		if (fbErr != nil) != (err != nil) || (err == nil && fb != v) {
			return "err", []string{fmt.Sprintf("varint.FromBytes and varint.FromReader differ on the same bytes: (%d, %v) / (%d, %v)", uint64(fb), fbErr, uint64(v), err)}
		}
		if err != nil {
			return "err", nil
		}
		var direct []string
		if len(v.Bytes()) != v.Size() {
			direct = append(direct, "VarInt.Size() != len(Bytes())")
		}
		cw := &countingWriter{}
		n, _ := v.WriteTo(cw)
		if n != cw.n || n != int64(v.Size()) {
			direct = append(direct, "VarInt.WriteTo count differs")
		}
		return withRest(r, fmt.Sprintf("%d size=%d enc=%s", uint64(v), v.Size(), hx(v.Bytes()))), direct
	})
	reg("varint.enc", Full, func(a []string) (string, []string) {
		n, err := strconv.ParseUint(a[0], 10, 64)
		if err != nil {
			return "bad-op", nil
		}
		v := varint.VarInt(n)
		var direct []string
		back, err := varint.FromBytes(v.Bytes())
		if err != nil || back != v {
			direct = append(direct, "FromBytes(Bytes()) != value")
		}
		return fmt.Sprintf("ok %s size=%d", hx(v.Bytes()), v.Size()), direct
	})
	reg("in.dec", Full, func(a []string) (string, []string) {
		r := mkReader(unhx(a[0]))
		i, err := tx.InputFromReader(r)
		if err != nil {
			return "err", nil
		}
		var direct []string
		if len(i.Bytes()) != i.Size() {
			direct = append(direct, "Input.Size() != len(Bytes())")
		}
		return withRest(r, fmt.Sprintf("%s enc=%s size=%d", dumpIn(i), hx(i.Bytes()), i.Size())), direct
	})
	reg("out.dec", Full, func(a []string) (string, []string) {
		r := mkReader(unhx(a[0]))
		o, err := tx.OutputFromReader(r)
		if err != nil {
			return "err", nil
		}
		var direct []string
		if len(o.Bytes()) != o.Size() {
			direct = append(direct, "Output.Size() != len(Bytes())")
		}
		return withRest(r, fmt.Sprintf("%s enc=%s size=%d", dumpOut(o), hx(o.Bytes()), o.Size())), direct
	})
	reg("wit.dec", Full, func(a []string) (string, []string) {
		r := mkReader(unhx(a[0]))
		w, err := tx.WitnessFromReader(r)
		if err != nil {
			return "err", nil
		}
		var direct []string
		if len(w.Bytes()) != w.Size() {
			direct = append(direct, "Witness.Size() != len(Bytes())")
		}
		return withRest(r, fmt.Sprintf("%s enc=%s size=%d", dumpWit(w), hx(w.Bytes()), w.Size())), direct
	})
	reg("tx.dec", Full, func(a []string) (string, []string) {
		r := mkReader(unhx(a[0]))
		t, err := tx.FromReader(r)
		if err != nil {
			return "err", nil
		}
		var direct []string
		body := describeTx(t, &direct)
		return withRest(r, body), direct
	})
	reg("stream.dec", Full, func(a []string) (string, []string) {
		k, _ := strconv.Atoi(a[0])
		r := mkReader(unhx(a[1]))
		var parts []string
		for i := 0; i < k; i++ {
			t, err := tx.FromReader(r)
			if err != nil {
				return "err", nil
			}
			parts = append(parts, dumpTx(t))
		}
		return withRest(r, strings.Join(parts, " / ")), nil
	})
	reg("hdr.dec", Full, func(a []string) (string, []string) {
		r := mkReader(unhx(a[0]))
		h, err := blockheader.FromReader(r)
		if err != nil {
			return "err", nil
		}
		var direct []string
		return withRest(r, describeHeader(h, &direct)), direct
	})
	reg("blk.dec", Full, func(a []string) (string, []string) {
		r := mkReader(unhx(a[0]))
		b, err := blocks.FromReader(r)
		if err != nil {
			return "err", nil
		}
		var direct []string
		ids := make([]string, len(b.Transactions))
		wsum := 0
		for i, t := range b.Transactions {
			ids[i] = idStr(t, false)
			wsum += t.WeightUnits()
		}
		enc := b.Bytes()
		if enc != nil {
			if len(enc) != b.Size() {
				direct = append(direct, fmt.Sprintf("Block.Size()=%d but %d bytes emitted", b.Size(), len(enc)))
			}
			cw := &countingWriter{}
			n, _ := b.WriteTo(cw)
			if n != cw.n {
				direct = append(direct, "Block.WriteTo count differs from bytes written")
			}
			if b.WeightUnits() != 4*(80+varint.VarInt(len(b.Transactions)).Size())+wsum {
				direct = append(direct, "block weight is not the sum of its parts")
			}
			back, err := blocks.FromReader(bytes.NewReader(enc))
			if err != nil || !reflect.DeepEqual(back.Header, b.Header) || len(back.Transactions) != len(b.Transactions) {
				direct = append(direct, "re-parse of Block.Bytes() differs")
			}
		}
		body := fmt.Sprintf("%s ntx=%d txids=[%s] enc=%s size=%d weight=%d", describeHeader(b.Header, &direct), len(b.Transactions), strings.Join(ids, ","), encStr(enc), b.Size(), b.WeightUnits())
		return withRest(r, body), direct
	})
	reg("merkle.root", Full, func(a []string) (string, []string) {
		hs := splitHashes(unhx(a[0]))
		if hs == nil {
			return "err", nil
		}
		// the library appends to its argument (C18's business): hand it a private exact-capacity copy
		cp := make([][32]byte, len(hs))
		copy(cp, hs)
		root := merkle.MerkleRootHashInternal(cp)
		var direct []string
		if ref := refMerkle(hs); ref != root {
			direct = append(direct, "merkle root differs from Bitcoin's rule (pair nodes, duplicate the last of an odd level): "+hx(ref[:]))
		}
		return "ok " + hx(root[:]), direct
	})
	reg("merkle.rootrpc", Full, func(a []string) (string, []string) {
		hs := splitHashes(unhx(a[0]))
		if hs == nil {
			return "err", nil
		}
		root := merkle.MerkleRootHash(hs)
		return "ok " + hx(root[:]), nil
	})
	reg("nbits.target", Full, func(a []string) (string, []string) {
		n, err := strconv.ParseUint(a[0], 10, 32)
		if err != nil {
			return "bad-op", nil
		}
		h := &blockheader.BlockHeader{NBits: uint32(n)}
		t := h.TargetNBits()
		var direct []string
		if ref := setCompact(uint32(n)); ref.Cmp(t) != 0 {
			direct = append(direct, "target differs from SetCompact: "+ref.String())
		}
		// the caller goes on computing with the integer it was given (chain work: target + 1); the next header
		// with the same nBits has the same target
		ans := "ok " + t.String()
		t.Add(t, big.NewInt(1))
		t.Lsh(t, 3)
		if t2 := (&blockheader.BlockHeader{NBits: uint32(n)}).TargetNBits(); "ok "+t2.String() != ans {
			direct = append(direct, "the target of the same nBits changed after the caller computed with the integer returned by the first call: "+t2.String())
		}
		return ans, direct
	})
}

// setCompact is Bitcoin Core's arith_uint256::SetCompact with the library's documented
// convention that a set sign bit yields zero. (Go-side reference; the Lean `Spec.setCompact`
// is the one the theorem is about.)
func setCompact(n uint32) *big.Int {
	size := n >> 24
	word := n & 0x007fffff
	if n&0x00800000 != 0 {
		return big.NewInt(0)
	}
	r := big.NewInt(int64(word))
	if size <= 3 {
		return r.Rsh(r, uint(8*(3-size)))
	}
	return r.Lsh(r, uint(8*(size-3)))
}

func splitHashes(b []byte) [][32]byte {
	if len(b) == 0 || len(b)%32 != 0 {
		return nil
	}
	hs := make([][32]byte, len(b)/32)
	for i := range hs {
		copy(hs[i][:], b[32*i:])
	}
	return hs
}

// ---------------------------------------------------------------------------------------------
// generators

var lenClassesSmall = []int{0, 1, 2, 0x4b, 0x4c, 0xfb, 0xfc, 0xfd, 0xfe, 0xff, 0x100}
var lenClassesBig = []int{0xffff, 0x10000, 0x10001}

// scriptLen draws a length; the second result says whether it lies at a compact-size boundary.
// Lengths around 0xffff/0x10000 are rare because every such case costs ~130 kB on the line protocol.
func (r *Runner) scriptLen() (int, bool) {
	switch k := r.rng.Intn(160); {
	case k == 0:
		return lenClassesBig[r.rng.Intn(len(lenClassesBig))], true
	case k < 24:
		return lenClassesSmall[r.rng.Intn(len(lenClassesSmall))], true
	case k < 32:
		return 0xfa + r.rng.Intn(6), true
	default:
		return r.rng.Intn(40), false
	}
}

func (r *Runner) u32() uint32 {
	switch r.rng.Intn(6) {
	case 0:
		return 0
	case 1:
		return 0xffffffff
	case 2:
		return 0x80000000
	case 3:
		return uint32(r.rng.Intn(4))
	}
	return r.rng.Uint32()
}

func (r *Runner) u64() uint64 {
	switch r.rng.Intn(6) {
	case 0:
		return 0
	case 1:
		return ^uint64(0)
	case 2:
		return 1 << 63
	case 3:
		return uint64(r.rng.Intn(100000))
	}
	return r.rng.Uint64()
}

// genTx builds a well-formed transaction (C01's domain). boundary reports whether a length class
// at a compact-size boundary or a witness is exercised.
func (r *Runner) genTx(maxIn, maxOut int) (*tx.Tx, bool) {
	boundary := false
	t := &tx.Tx{Version: int32(r.u32()), Locktime: r.u32()}
	nIn := 1 + r.rng.Intn(maxIn)
	nOut := r.rng.Intn(maxOut + 1)
	if r.rng.Intn(40) == 0 {
		nIn = 0xfc + r.rng.Intn(3)
		boundary = true
	}
	if r.rng.Intn(60) == 0 {
		nOut = 0xfc + r.rng.Intn(3)
		boundary = true
	}
	t.Inputs = make([]*tx.Input, nIn)
	for i := range t.Inputs {
		n, b := r.scriptLen()
		if nIn > 50 {
			n, b = r.rng.Intn(3), false
		}
		boundary = boundary || b
		po := &tx.PrevOut{Index: r.u32()}
		copy(po.Hash[:], r.bytesN(32))
		t.Inputs[i] = &tx.Input{PrevOut: po, Script: r.bytesN(n), Sequence: r.u32()}
	}
	// two inputs naming the same outpoint: not a valid spend, but a well-formed transaction on the wire
	if nIn >= 2 && r.rng.Intn(12) == 0 {
		a, b := r.rng.Intn(nIn), r.rng.Intn(nIn)
		if a != b {
			dup := *t.Inputs[a].PrevOut
			t.Inputs[b].PrevOut = &dup
		}
	}
	t.Outputs = make([]*tx.Output, nOut)
	for i := range t.Outputs {
		n, b := r.scriptLen()
		if nOut > 50 {
			n, b = r.rng.Intn(3), false
		}
		boundary = boundary || b
		t.Outputs[i] = &tx.Output{Value: r.u64(), Script: r.bytesN(n)}
	}
	if r.rng.Intn(2) == 0 {
		boundary = true
		t.Witnesses = make([]tx.Witness, nIn)
		allEmpty := r.rng.Intn(8) == 0
		for i := range t.Witnesses {
			k := r.rng.Intn(4)
			if allEmpty {
				k = 0
			}
			if r.rng.Intn(50) == 0 && nIn < 10 {
				k = 0xfc + r.rng.Intn(3)
			}
			w := make(tx.Witness, k)
			for j := range w {
				n, _ := r.scriptLen()
				if k > 10 {
					n = r.rng.Intn(2)
				}
				w[j] = r.bytesN(n)
			}
			t.Witnesses[i] = w
		}
	}
	return t, boundary
}

func (r *Runner) genHeader() *blockheader.BlockHeader {
	h := &blockheader.BlockHeader{Version: int32(r.u32()), Time: r.u32(), NBits: r.u32(), Nonce: r.u32()}
	copy(h.PreviousHeaderHash[:], r.bytesN(32))
	copy(h.MerkleRootHash[:], r.bytesN(32))
	if r.rng.Intn(2) == 0 {
		// keep the target inside the library's contract (exponent <= 32) most of the time
		h.NBits = uint32(r.rng.Intn(33))<<24 | h.NBits&0x00ffffff
	}
	return h
}

func (r *Runner) suffix() []byte {
	if r.rng.Intn(3) == 0 {
		return nil
	}
	return r.bytesN(1 + r.rng.Intn(6))
}

// mutate returns a malformed variant of a valid encoding.
func (r *Runner) mutate(b []byte) []byte {
	c := append([]byte{}, b...)
	if len(c) == 0 {
		return []byte{byte(r.rng.Intn(256))}
	}
	switch r.rng.Intn(4) {
	case 0:
		return c[:r.rng.Intn(len(c))]
	case 1:
		c[r.rng.Intn(len(c))] ^= byte(1 << uint(r.rng.Intn(8)))
	case 2:
		c[r.rng.Intn(len(c))] = []byte{0, 1, 0xfc, 0xfd, 0xfe, 0xff}[r.rng.Intn(6)]
	default:
		i := r.rng.Intn(len(c))
		c = append(c[:i], append(r.bytesN(1+r.rng.Intn(3)), c[i:]...)...)
	}
	return c
}

func compactSizeCases() []uint64 {
	var vs []uint64
	for v := uint64(0); v < 1<<17; v++ {
		vs = append(vs, v)
	}
	for k := uint(0); k < 64; k++ {
		p := uint64(1) << k
		for d := int64(-2); d <= 2; d++ {
			vs = append(vs, p+uint64(d))
		}
	}
	vs = append(vs, ^uint64(0), ^uint64(0)-1, ^uint64(0)-2)
	return vs
}

func runC01(r *Runner) string {
	// compact sizes: all < 2^17 and +-2 around every power of two, exhaustively, both directions
	for _, v := range compactSizeCases() {
		nt := v >= 0xfb
		r.Do("varint.enc", []string{strconv.FormatUint(v, 10)}, "varint-enc", nt, "")
		if v%7 == 0 || nt && v < 0x10100 || v >= 1<<17 {
			enc := varint.VarInt(v).Bytes()
			r.Do("varint.dec", []string{hx(append(enc, r.suffix()...))}, "varint-dec", nt, "")
		}
	}
	for i := 0; i < r.N(2000, 200000); i++ {
		v := r.rng.Uint64() >> uint(r.rng.Intn(64))
		r.Do("varint.dec", []string{hx(append(varint.VarInt(v).Bytes(), r.suffix()...))}, "varint-dec-random", v > 0xfc, "")
	}
	// non-minimal and truncated compact sizes (outside the claim: class agreement recorded as drift only)
	for i := 0; i < r.N(500, 20000); i++ {
		b := []byte{[]byte{0xfd, 0xfe, 0xff}[r.rng.Intn(3)]}
		b = append(b, r.bytesN(r.rng.Intn(9))...)
		if r.rng.Intn(2) == 0 {
			for j := 1 + r.rng.Intn(len(b)); j < len(b); j++ {
				b[j] = 0
			}
		}
		r.DoMode("varint.dec", []string{hx(b)}, "varint-noncanonical", false, "", DriftFull)
	}

	// parts
	for i := 0; i < r.N(3000, 100000); i++ {
		t, b := r.genTx(2, 2)
		in := t.Inputs[0]
		r.Do("in.dec", []string{hx(append(in.Bytes(), r.suffix()...))}, "input", b || len(in.Script) > 0, "")
		if len(t.Outputs) > 0 {
			o := t.Outputs[0]
			r.Do("out.dec", []string{hx(append(o.Bytes(), r.suffix()...))}, "output", true, "")
		}
		if t.Witnesses != nil {
			w := t.Witnesses[0]
			r.Do("wit.dec", []string{hx(append(w.Bytes(), r.suffix()...))}, "witness", true, "")
		}
	}
	// whole transactions
	for i := 0; i < r.N(6000, 400000); i++ {
		t, b := r.genTx(4, 4)
		enc := t.Bytes()
		r.Do("tx.dec", []string{hx(append(enc, r.suffix()...))}, "tx", b, "")
		if i%4 == 0 {
			r.Do("tx.dec", []string{hx(append(t.BytesNoWitness(), r.suffix()...))}, "tx-stripped", b, "")
		}
		if i%5 == 0 {
			r.DoMode("tx.dec", []string{hx(r.mutate(enc))}, "tx-malformed", false, "", DriftFull)
		}
	}
	// transactions whose serialization is longer than 1,000,000 bytes (every script and witness item within
	// the limits the decoder checks): alone, and first in a stream
	{
		big := func(kind int) *tx.Tx {
			t, _ := r.genTx(2, 2)
			for len(t.Inputs) < 2 {
				t.Inputs = append(t.Inputs, t.Inputs[0].Clone())
			}
			switch kind {
			case 0:
				t.Witnesses = make([]tx.Witness, len(t.Inputs))
				for j := range t.Witnesses {
					t.Witnesses[j] = tx.Witness{}
				}
				t.Witnesses[0] = tx.Witness{r.bytesN(400000), r.bytesN(400000), r.bytesN(200001 + r.rng.Intn(50))}
			case 1:
				t.Inputs[0].Script = r.bytesN(600000)
				t.Inputs[1].Script = r.bytesN(400000 + r.rng.Intn(200000))
			}
			return t
		}
		for kind := 0; kind < 2; kind++ {
			t := big(kind)
			r.Do("tx.dec", []string{hx(append(t.Bytes(), r.suffix()...))}, "tx-over-1MB", true, fmt.Sprintf("%d bytes", len(t.Bytes())))
		}
		t := big(r.rng.Intn(2))
		small, _ := r.genTx(2, 2)
		buf := append(append(t.Bytes(), small.Bytes()...), 0xde, 0xad, 0xbe, 0xef)
		r.Do("stream.dec", []string{"2", hx(buf)}, "stream-over-1MB", true, "")
	}
	// back-to-back objects followed by a sentinel
	for i := 0; i < r.N(400, 20000); i++ {
		k := 1 + r.rng.Intn(4)
		var buf []byte
		for j := 0; j < k; j++ {
			t, _ := r.genTx(3, 3)
			buf = append(buf, t.Bytes()...)
		}
		buf = append(buf, 0xde, 0xad, 0xbe, 0xef)
		r.Do("stream.dec", []string{strconv.Itoa(k), hx(buf)}, "stream", true, "")
	}
	// headers and blocks
	for i := 0; i < r.N(1500, 50000); i++ {
		h := r.genHeader()
		r.Do("hdr.dec", []string{hx(append(h.Bytes(), r.suffix()...))}, "header", true, "")
	}
	for i := 0; i < r.N(300, 20000); i++ {
		b := &blocks.Block{Header: r.genHeader()}
		n := 1 + r.rng.Intn(5)
		if r.rng.Intn(30) == 0 {
			n = 0xfc + r.rng.Intn(3)
		}
		for j := 0; j < n; j++ {
			mi := 3
			if n > 10 {
				mi = 1
			}
			t, _ := r.genTx(mi, mi)
			b.Transactions = append(b.Transactions, t)
		}
		enc := b.Bytes()
		r.Do("blk.dec", []string{hx(append(enc, r.suffix()...))}, "block", true, "")
		if i%5 == 0 {
			r.DoMode("blk.dec", []string{hx(r.mutate(enc))}, "block-malformed", false, "", DriftFull)
		}
	}
	// blocks made of the smallest transactions the wire format allows (one input with an empty script, no
	// output or one output with an empty script: 51 and 60 bytes), followed by nothing or by a few bytes, so
	// that every kind of reader meets them
	for i := 0; i < r.N(40, 400); i++ {
		b := &blocks.Block{Header: r.genHeader()}
		k := []int{1, 2, 3, 7, 50, 253}[i%6]
		for j := 0; j < k; j++ {
			po := &tx.PrevOut{Index: r.u32()}
			copy(po.Hash[:], r.bytesN(32))
			t := &tx.Tx{Version: int32(r.u32()), Locktime: r.u32(), Inputs: []*tx.Input{{PrevOut: po, Script: []byte{}, Sequence: r.u32()}}, Outputs: []*tx.Output{}}
			if (i+j)%2 == 0 {
				t.Outputs = append(t.Outputs, &tx.Output{Value: r.u64(), Script: r.bytesN((i / 6) % 2)})
			}
			b.Transactions = append(b.Transactions, t)
		}
		enc := b.Bytes()
		if i%3 != 0 {
			enc = append(enc, r.bytesN(1+r.rng.Intn(20))...)
		}
		r.Do("blk.dec", []string{hx(enc)}, "block-of-minimal-transactions", true, fmt.Sprintf("%d transactions, %d bytes", k, len(enc)))
	}
	return "cases are request lines; structured transactions/blocks are generated from the repository's own types with script and witness-item lengths drawn from the compact-size boundary classes, encoded by the library, followed by a random unread suffix; compact sizes < 2^17 and +-2 around every power of two are enumerated. A case is non-trivial when it has >= 1 input and exercises a boundary length class or a witness, or is a compact size >= 0xfb; distinct = distinct request line (SHA-256)."
}

func runC02(r *Runner) string {
	// identifiers, sizes, weight: through tx.dec / blk.dec (the answers contain them)
	for i := 0; i < r.N(4000, 300000); i++ {
		t, b := r.genTx(4, 4)
		r.Do("tx.dec", []string{hx(t.Bytes())}, "tx-ids-sizes", b, "")
	}
	for i := 0; i < r.N(200, 20000); i++ {
		b := &blocks.Block{Header: r.genHeader()}
		for j := 0; j <= r.rng.Intn(6); j++ {
			t, _ := r.genTx(3, 3)
			b.Transactions = append(b.Transactions, t)
		}
		r.Do("blk.dec", []string{hx(b.Bytes())}, "block-sizes", true, "")
	}
	// merkle: every length 1..64 exhaustively (several draws), then sampled up to several hundred
	mk := func(n int, dup bool) []byte {
		buf := r.bytesN(32 * n)
		if dup && n >= 2 {
			for k := 0; k < 1+r.rng.Intn(3); k++ {
				i, j := r.rng.Intn(n), r.rng.Intn(n)
				copy(buf[32*i:32*i+32], buf[32*j:32*j+32])
			}
		}
		return buf
	}
	for n := 1; n <= 64; n++ {
		for k := 0; k < r.N(3, 40); k++ {
			op := "merkle.root"
			if k%3 == 2 {
				op = "merkle.rootrpc"
			}
			r.Do(op, []string{hx(mk(n, k%2 == 1))}, "merkle-1..64", n >= 3, "")
		}
	}
	for i := 0; i < r.N(60, 3000); i++ {
		n := 65 + r.rng.Intn(600)
		r.Do("merkle.root", []string{hx(mk(n, i%2 == 0))}, "merkle-sampled", true, "")
	}
	// nBits: all 33 exponents x boundary mantissas; thorough adds the full mantissa space in bulk
	mant := []uint32{0, 1, 2, 0x7f, 0x80, 0xff, 0x100, 0x7fff, 0x8000, 0xffff, 0x10000, 0x7fffff, 0x7ffffe, 0x800000, 0x800001, 0xffffff, 0x008000, 0x123456, 0xabcdef}
	for e := uint32(0); e <= 32; e++ {
		for _, m := range mant {
			r.Do("nbits.target", []string{strconv.FormatUint(uint64(e<<24|m), 10)}, "nbits-boundary", true, "")
		}
		for k := 0; k < r.N(200, 20000); k++ {
			m := r.rng.Uint32() & 0xffffff
			r.Do("nbits.target", []string{strconv.FormatUint(uint64(e<<24|m), 10)}, "nbits-sampled", true, "")
		}
	}
	if r.thorough {
		// full 2^24 mantissa space per exponent: Go against the Go-side SetCompact reference
		// (bulk, no oracle round trip), the model side is sampled above
		bad := 0
		for e := uint32(0); e <= 32; e++ {
			for m := uint32(0); m < 1<<24; m++ {
				h := &blockheader.BlockHeader{NBits: e<<24 | m}
				if h.TargetNBits().Cmp(setCompact(e<<24|m)) != 0 {
					bad++
					if bad < 5 {
						r.addFailure(Failure{Kind: "property", Op: "nbits.target", Args: []string{strconv.FormatUint(uint64(e<<24|m), 10)}, Detail: "target differs from SetCompact"}, false)
					}
				}
			}
		}
		r.res.Evaluations += 33 << 24
		r.res.Notes = append(r.res.Notes, "nBits: all 33*2^24 (exponent, mantissa) pairs compared with the SetCompact reference on the Go side")
	}
	return "transactions/blocks as in C01; merkle lists of every length 1..64 (with and without duplicates) and sampled lengths up to 664; nBits for all exponents 0..32 with boundary and random mantissas. Non-trivial: tx with boundary class or witness, merkle lists of length >= 3, every nBits case; distinct = distinct request line."
}

var _ = binary.LittleEndian
var _ = hex.EncodeToString

// refMerkle is consensus/merkle.cpp ComputeMerkleRoot, written for the harness (internal byte order).
func refMerkle(hs [][32]byte) [32]byte {
	level := append([][32]byte{}, hs...)
	for len(level) > 1 {
		if len(level)%2 == 1 {
			level = append(level, level[len(level)-1])
		}
		next := make([][32]byte, len(level)/2)
		for i := range next {
			a := sha256.Sum256(append(append([]byte{}, level[2*i][:]...), level[2*i+1][:]...))
			next[i] = sha256.Sum256(a[:])
		}
		level = next
	}
	return level[0]
}

// ---- tx.enc: the ENCODER on values constructed by the harness (the dump is parsed back into a
// library value); the model's proven encoder is the reference

func parseTxDump(args []string) *tx.Tx {
	if len(args) != 5 {
		return nil
	}
	field := func(s, pre string) (string, bool) {
		if !strings.HasPrefix(s, pre) {
			return "", false
		}
		return s[len(pre):], true
	}
	unbr := func(s string) (string, bool) {
		if len(s) < 2 || s[0] != '[' || s[len(s)-1] != ']' {
			return "", false
		}
		return s[1 : len(s)-1], true
	}
	split := func(s, sep string) []string {
		if s == "" {
			return nil
		}
		return strings.Split(s, sep)
	}
	t := &tx.Tx{}
	v, ok := field(args[0], "ver=")
	if !ok {
		return nil
	}
	ver, err := strconv.ParseUint(v, 10, 32)
	if err != nil {
		return nil
	}
	t.Version = int32(uint32(ver))
	is, ok1 := field(args[1], "in=")
	is, ok2 := unbr(is)
	if !ok1 || !ok2 {
		return nil
	}
	t.Inputs = []*tx.Input{}
	for _, s := range split(is, ";") {
		f := strings.Split(s, ":")
		if len(f) != 4 {
			return nil
		}
		po := &tx.PrevOut{}
		h := unhx(f[0])
		if len(h) != 32 {
			return nil
		}
		copy(po.Hash[:], h)
		idx, e1 := strconv.ParseUint(f[1], 10, 32)
		seq, e2 := strconv.ParseUint(f[3], 10, 32)
		if e1 != nil || e2 != nil {
			return nil
		}
		po.Index = uint32(idx)
		t.Inputs = append(t.Inputs, &tx.Input{PrevOut: po, Script: unhx(f[2]), Sequence: uint32(seq)})
	}
	os_, ok1 := field(args[2], "out=")
	os_, ok2 = unbr(os_)
	if !ok1 || !ok2 {
		return nil
	}
	t.Outputs = []*tx.Output{}
	for _, s := range split(os_, ";") {
		f := strings.Split(s, ":")
		if len(f) != 2 {
			return nil
		}
		val, e1 := strconv.ParseUint(f[0], 10, 64)
		if e1 != nil {
			return nil
		}
		t.Outputs = append(t.Outputs, &tx.Output{Value: val, Script: unhx(f[1])})
	}
	ws, ok := field(args[3], "wit=")
	if !ok {
		return nil
	}
	if ws != "none" {
		body, ok := unbr(ws)
		if !ok {
			return nil
		}
		t.Witnesses = []tx.Witness{}
		for _, st := range split(body, "|") {
			w := tx.Witness{}
			if st != "." {
				for _, it := range strings.Split(st, ",") {
					w = append(w, unhx(it))
				}
			}
			t.Witnesses = append(t.Witnesses, w)
		}
	}
	l, ok := field(args[4], "lock=")
	if !ok {
		return nil
	}
	lock, err := strconv.ParseUint(l, 10, 32)
	if err != nil {
		return nil
	}
	t.Locktime = uint32(lock)
	return t
}

func init() {
	reg("tx.enc", Full, func(a []string) (string, []string) {
		t := parseTxDump(a)
		if t == nil {
			return "bad-op", nil
		}
		var direct []string
		before := dumpTx(t)
		enc, encnw := t.Bytes(), t.BytesNoWitness()
		if dumpTx(t) != before {
			direct = append(direct, "serialising changed the transaction")
		}
		if enc != nil && len(t.Inputs) > 0 {
			back, err := tx.FromBytes(enc)
			if err != nil {
				direct = append(direct, "FromBytes(Bytes()) fails on a constructed transaction: "+err.Error())
			} else if dumpTx(back) != before {
				direct = append(direct, "FromBytes(Bytes()) differs from the constructed transaction")
			} else if r := mkReader(append(append([]byte{}, enc...), 0xde, 0xad)); true {
				if _, err := tx.FromReader(r); err == nil {
					rest, _ := io.ReadAll(r)
					if hx(rest) != "dead" {
						direct = append(direct, "decoding the encoding of a constructed transaction did not stop at its end")
					}
				}
			}
		}
		return fmt.Sprintf("ok enc=%s encnw=%s size=%d sizenw=%d weight=%d vsize=%d txid=%s wtxid=%s", encStr(enc), encStr(encnw), t.Size(), t.SizeNoWitness(), t.WeightUnits(), t.VSize(), idStr(t, false), idStr(t, true)), direct
	})
	gen := func(r *Runner) {
		for i := 0; i < r.N(2500, 150000); i++ {
			t, b := r.genTx(4, 4)
			r.Do("tx.enc", strings.Fields(dumpTx(t)), "tx-encode-constructed", b, "")
		}
	}
	regExtra("C01", gen)
	regExtra("C02", func(r *Runner) {
		for i := 0; i < r.N(800, 50000); i++ {
			t, b := r.genTx(4, 4)
			r.Do("tx.enc", strings.Fields(dumpTx(t)), "tx-encode-constructed", b, "")
		}
	})
}
