package main

// C10: WIF and BIP32 extended-key strings. Strings travel as the hex of their bytes.

import (
	"bytes"
	"fmt"
	"math/big"
	"strconv"

	"github.com/kklash/bitcoinlib/base58check"
	"github.com/kklash/bitcoinlib/bip32"
	"github.com/kklash/bitcoinlib/bip38"
	"github.com/kklash/bitcoinlib/ecc"
	"github.com/kklash/bitcoinlib/wif"
)

func flagArg(s string) (bool, bool) {
	switch s {
	case "0":
		return false, true
	case "1":
		return true, true
	}
	return false, false
}

func b2i(b bool) int {
	if b {
		return 1
	}
	return 0
}

func goWifDecode(s string) (string, []string) {
	k, v, c, err := wif.Decode(s)
	var direct []string
	if wif.Validate(s) != (err == nil) {
		direct = append(direct, "wif.Validate disagrees with wif.Decode")
	}
	if err != nil {
		return "err", direct
	}
	var back string
	var eerr error
	if c {
		back, eerr = wif.Encode(k, v)
	} else {
		back, eerr = wif.EncodeUncompressed(k, v)
	}
	if eerr != nil {
		direct = append(direct, "an accepted WIF string cannot be re-encoded: "+eerr.Error())
	} else if back != s {
		direct = append(direct, fmt.Sprintf("accepted WIF string is not canonical: re-encodes to %q", back))
	}
	return fmt.Sprintf("ok %s %d %d", hx(k), v, b2i(c)), direct
}

func init() {
	regRunner("C10", runC10)
	reg("wif.enc", Full, func(a []string) (string, []string) {
		key := unhx(a[0])
		v, err := strconv.Atoi(a[1])
		c, ok := flagArg(a[2])
		if err != nil || v < 0 || v > 255 || !ok {
			return "bad-op", nil
		}
		in, dirty := spareCopy(key)
		var s string
		var eerr error
		if c {
			s, eerr = wif.Encode(in, byte(v))
		} else {
			s, eerr = wif.EncodeUncompressed(in, byte(v))
		}
		var direct []string
		if dirty() {
			direct = append(direct, "wif.Encode wrote into the caller's key slice or its spare capacity")
		}
		if eerr != nil {
			return "err", direct
		}
		k2, v2, c2, derr := wif.Decode(s)
		if derr != nil || !bytes.Equal(k2, key) || int(v2) != v || c2 != c {
			direct = append(direct, "wif.Decode(Encode(key, version)) != (key, version, flag)")
		}
		return "ok " + sx(s), direct
	})
	reg("wif.dec", Full, func(a []string) (string, []string) { return goWifDecode(strArg(a[0])) })
	reg("wif.validate", Full, func(a []string) (string, []string) {
		return fmt.Sprintf("ok %d", b2i(wif.Validate(strArg(a[0])))), nil
	})
	reg("xkey.ser", Full, func(a []string) (string, []string) {
		priv, ok := flagArg(a[0])
		key, cc, fp := unhx(a[1]), unhx(a[2]), unhx(a[3])
		d, e1 := strconv.ParseUint(a[4], 10, 8)
		i, e2 := strconv.ParseUint(a[5], 10, 32)
		v, e3 := strconv.ParseUint(a[6], 10, 32)
		if !ok || e1 != nil || e2 != nil || e3 != nil {
			return "bad-op", nil
		}
		keyIn, dirtyK := spareCopy(key)
		ccIn, dirtyC := spareCopy(cc)
		fpIn, dirtyF := spareCopy(fp)
		var s string
		if priv {
			s = bip32.SerializePrivate(keyIn, ccIn, fpIn, byte(d), uint32(i), uint32(v))
		} else {
			s = bip32.SerializePublic(keyIn, ccIn, fpIn, byte(d), uint32(i), uint32(v))
		}
		var direct []string
		if dirtyK() || dirtyC() || dirtyF() {
			direct = append(direct, "bip32.Serialize* wrote into an argument slice")
		}
		// well-formed tuples must deserialize to themselves (index and fingerprint zero at depth 0)
		wellFormed := len(cc) == 32 && len(fp) == 4 && ((priv && len(key) == 32) || (!priv && len(key) == 33 && key[0] != 0))
		if wellFormed && !priv {
			if _, _, perr := ecc.DeserializePoint(key); perr != nil {
				wellFormed = false
			}
		}
		if wellFormed {
			k2, c2, f2, d2, i2, v2, derr := bip32.Deserialize(s)
			wantI, wantF := uint32(i), fp
			if d == 0 {
				wantI, wantF = 0, []byte{0, 0, 0, 0}
			}
			if derr != nil {
				direct = append(direct, "Deserialize rejects what Serialize produced for a well-formed key: "+derr.Error())
			} else if !bytes.Equal(k2, key) || !bytes.Equal(c2, cc) || !bytes.Equal(f2, wantF) || uint64(d2) != d || i2 != wantI || uint64(v2) != v {
				direct = append(direct, "Deserialize(Serialize(x)) != x (up to the depth-0 normalisation)")
			}
		}
		return "ok " + sx(s), direct
	})
	reg("xkey.deser", Full, func(a []string) (string, []string) {
		s := strArg(a[0])
		k, cc, fp, d, i, v, err := bip32.Deserialize(s)
		if err != nil {
			return "err", nil
		}
		var direct []string
		if d != 0 || (i == 0 && bytes.Equal(fp, []byte{0, 0, 0, 0})) {
			var back string
			if len(k) == 32 {
				back = bip32.SerializePrivate(k, cc, fp, d, i, v)
			} else {
				back = bip32.SerializePublic(k, cc, fp, d, i, v)
			}
			if back != s {
				direct = append(direct, fmt.Sprintf("accepted extended key is not canonical: re-serializes to %q", back))
			}
		}
		if len(k) != 32 {
			if _, _, perr := ecc.DeserializePoint(k); perr != nil || len(k) != 33 {
				direct = append(direct, "accepted extended public key holds an invalid point")
			}
		}
		return fmt.Sprintf("ok %s %s %s %d %d %d", hx(k), hx(cc), hx(fp), d, i, v), direct
	})
}

func init() {
	reg("bip38.enc", Full, func(a []string) (string, []string) {
		key, pw := unhx(a[0]), strArg(a[1])
		c, ok := flagArg(a[2])
		if !ok {
			return "bad-op", nil
		}
		s, err := bip38.Encrypt(key, pw, c)
		if err != nil {
			return "err", nil
		}
		var direct []string
		k2, c2, derr := bip38.Decrypt(s, pw)
		if derr != nil || !bytes.Equal(k2, key) || c2 != c {
			direct = append(direct, "bip38.Decrypt(Encrypt(key, pw), pw) != key")
		}
		return "ok " + sx(s), direct
	})
	reg("bip38.dec", Full, func(a []string) (string, []string) {
		k, c, err := bip38.Decrypt(strArg(a[0]), strArg(a[1]))
		if err != nil {
			return "err", nil
		}
		var direct []string
		// an accepted string must carry a canonical flag byte (BIP38 reserves the other bits) that
		// agrees with the returned compression flag
		if p, derr := base58check.Decode(strArg(a[0])); derr == nil && len(p) == 39 {
			canonical := (p[1] == 0x42 && p[2]|0x20 == 0xe0) || (p[1] == 0x43 && p[2]&0xdb == 0)
			if !canonical {
				direct = append(direct, fmt.Sprintf("Decrypt accepted the non-canonical flag byte %02x", p[2]))
			}
			if (p[2]&0x20 != 0) != c {
				direct = append(direct, "returned compression flag differs from the flag byte")
			}
		}
		return fmt.Sprintf("ok %s %d", hx(k), b2i(c)), direct
	})
	reg("bip38.icode", Full, func(a []string) (string, []string) {
		s, err := bip38.GenerateIntermediateCode(bytes.NewReader(unhx(a[0])), strArg(a[1]))
		if err != nil {
			return "err", nil
		}
		return "ok " + sx(s), nil
	})
	reg("bip38.icodelot", Full, func(a []string) (string, []string) {
		lot, e1 := strconv.ParseUint(a[2], 10, 32)
		seq, e2 := strconv.ParseUint(a[3], 10, 32)
		if e1 != nil || e2 != nil {
			return "bad-op", nil
		}
		s, err := bip38.GenerateIntermediateCodeWithLotSequence(bytes.NewReader(unhx(a[0])), strArg(a[1]), uint32(lot), uint32(seq))
		if err != nil {
			return "err", nil
		}
		return "ok " + sx(s), nil
	})
	reg("bip38.ecenc", Full, func(a []string) (string, []string) {
		c, ok := flagArg(a[2])
		if !ok {
			return "bad-op", nil
		}
		s, err := bip38.EncryptIntermediateCode(bytes.NewReader(unhx(a[0])), strArg(a[1]), c)
		if err != nil {
			return "err", nil
		}
		return "ok " + sx(s), nil
	})
}

// reflag re-encodes a BIP38 string with another flag byte (valid checksum)
func reflag(s string, flag byte) string {
	p, err := base58check.Decode(s)
	if err != nil || len(p) != 39 {
		return s
	}
	q := append([]byte{}, p...)
	q[2] = flag
	return base58check.Encode(q)
}

// runBip38 is the BIP38 part of C10. scrypt (N=16384, r=8, p=8) dominates the cost on both sides, so
// the quick tier runs about ten derivations; flag-byte and prefix mutations are rejected before the
// key derivation and cost nothing.
func (r *Runner) runBip38() {
	passwords := []string{"TestingOneTwoThree", "", "\u03d2\u0301\u0000\U00010400\U0001f4a9", "a very long passphrase " + string(bytes.Repeat([]byte("x"), 80))}
	var samples []struct{ s, pw string }
	for i := 0; i < r.N(3, 120); i++ {
		k := r.privKey()
		pw := passwords[i%len(passwords)]
		c := i%2 == 0
		r.Do("bip38.enc", []string{hx(k), sx(pw), strconv.Itoa(b2i(c))}, "bip38-enc", true, "")
		s, err := bip38.Encrypt(k, pw, c)
		if err != nil {
			continue
		}
		samples = append(samples, struct{ s, pw string }{s, pw})
		if i < r.N(1, 60) {
			r.Do("bip38.dec", []string{sx(s), sx(pw)}, "bip38-dec", true, "")
		}
		if i == 0 || (r.thorough && i%5 == 0) {
			r.Do("bip38.dec", []string{sx(s), sx(pw + "x")}, "bip38-dec-wrong-password", true, "")
			// altered ciphertext with a recomputed checksum
			p, _ := base58check.Decode(s)
			p[10+r.rng.Intn(29)] ^= 1 << uint(r.rng.Intn(8))
			r.Do("bip38.dec", []string{sx(base58check.Encode(p)), sx(pw)}, "bip38-dec-altered", true, "")
		}
	}
	// wrong key lengths (no derivation)
	for _, n := range []int{0, 1, 16, 31, 33, 64} {
		r.Do("bip38.enc", []string{hx(r.bytesN(n)), sx("pw"), "1"}, "bip38-enc-length", false, "")
	}
	// every flag byte and prefix mutation of a valid string: all but the canonical flags must be
	// rejected (D22); the few that pass cost one derivation each
	if len(samples) > 0 {
		sm := samples[0]
		p, _ := base58check.Decode(sm.s)
		flags := []int{0xe1, 0xe8, 0xf0, 0xe4, 0x60, 0xa0, 0xc4, 0xc1, 0x00, 0x20, 0x04, 0x24, 0x40, 0x80, 0xff}
		if r.thorough {
			flags = flags[:0]
			for f := 0; f < 256; f++ {
				flags = append(flags, f)
			}
		}
		for _, f := range flags {
			if byte(f) == p[2] || byte(f) == p[2]^0x20 {
				continue // the two canonical flags decrypt: covered above
			}
			if f&0xdb == 0 && !r.thorough {
				continue // canonical EC flags run two derivations; thorough tier only
			}
			r.Do("bip38.dec", []string{sx(reflag(sm.s, byte(f))), sx(sm.pw)}, "bip38-dec-flag", true, fmt.Sprintf("flag %02x", f))
		}
		for _, m := range [][2]int{{0, 0}, {0, 2}, {1, 0x41}, {1, 0x44}, {1, 0}} {
			q := append([]byte{}, p...)
			q[m[0]] = byte(m[1])
			r.Do("bip38.dec", []string{sx(base58check.Encode(q)), sx(sm.pw)}, "bip38-dec-prefix", true, "")
		}
		for _, n := range []int{38, 40, 0, 4} {
			r.Do("bip38.dec", []string{sx(base58check.Encode(r.bytesN(n))), sx(sm.pw)}, "bip38-dec-length", true, "")
		}
		r.Do("bip38.dec", []string{sx(r.mutateStr(sm.s, b58Alphabet)), sx(sm.pw)}, "bip38-dec-mutated", true, "")
	}
	// EC-multiply: intermediate code, encryption with it, decryption (3 big + 2 small derivations)
	for i := 0; i < r.N(2, 40); i++ { // at least one code without and one with lot/sequence
		pw := passwords[i%len(passwords)]
		var code string
		var err error
		if i%2 == 0 {
			rnd := r.bytesN(8)
			r.Do("bip38.icode", []string{hx(rnd), sx(pw)}, "bip38-icode", true, "")
			code, err = bip38.GenerateIntermediateCode(bytes.NewReader(rnd), pw)
		} else {
			rnd := r.bytesN(4)
			lot, seq := r.rng.Intn(1<<20), r.rng.Intn(1<<12)
			r.Do("bip38.icodelot", []string{hx(rnd), sx(pw), strconv.Itoa(lot), strconv.Itoa(seq)}, "bip38-icode-lot", true, "")
			code, err = bip38.GenerateIntermediateCodeWithLotSequence(bytes.NewReader(rnd), pw, uint32(lot), uint32(seq))
		}
		if err != nil {
			continue
		}
		seed := r.bytesN(24)
		c := i%2 == 1
		r.Do("bip38.ecenc", []string{hx(seed), sx(code), strconv.Itoa(b2i(c))}, "bip38-ecenc", true, "")
		enc, err := bip38.EncryptIntermediateCode(bytes.NewReader(seed), code, c)
		if err == nil {
			r.Do("bip38.dec", []string{sx(enc), sx(pw)}, "bip38-dec-ec", true, "")
			r.Do("bip38.dec", []string{sx(reflag(enc, 0xc0)), sx(pw)}, "bip38-dec-flag", true, "EC key with a non-EC flag")
		}
	}
	// cheap refusals: lot / sequence out of range, short random input, damaged intermediate codes
	r.Do("bip38.icodelot", []string{hx(r.bytesN(4)), sx("pw"), "1048576", "1"}, "bip38-icode-range", false, "")
	r.Do("bip38.icodelot", []string{hx(r.bytesN(4)), sx("pw"), "1", "4096"}, "bip38-icode-range", false, "")
	r.Do("bip38.icodelot", []string{hx(r.bytesN(3)), sx("pw"), "1", "1"}, "bip38-icode-range", false, "")
	r.Do("bip38.icode", []string{hx(r.bytesN(7)), sx("pw")}, "bip38-icode-range", false, "")
	for _, n := range []int{48, 50, 49} {
		r.Do("bip38.ecenc", []string{hx(r.bytesN(24)), sx(base58check.Encode(r.bytesN(n))), "1"}, "bip38-ecenc-bad-code", true, "")
	}
}

func (r *Runner) privKey() []byte {
	k := r.bytesN(32)
	switch r.rng.Intn(8) {
	case 0:
		k[0] = 0
	case 1:
		k[0], k[1], k[2] = 0, 0, 0
	case 2:
		for i := range k {
			k[i] = 0
		}
		k[31] = byte(1 + r.rng.Intn(255))
	}
	k[0] &= 0x7f // below the group order
	if bytes.Equal(k, make([]byte, 32)) {
		k[31] = 1
	}
	return k
}

var secpP, _ = new(big.Int).SetString("FFFFFFFFFFFFFFFFFFFFFFFFFFFFFFFFFFFFFFFFFFFFFFFFFFFFFFFEFFFFFC2F", 16)

func runC10(r *Runner) string {
	xversions := []uint32{76067358, 76066276, 70617039, 70615956, 27108450, 27106558, 0, 1, 0xffffffff}
	// ---- WIF: keys x version byte x compressed flag ----
	for v := 0; v < 256; v++ {
		for c := 0; c < 2; c++ {
			k := r.bytesN(32)
			r.Do("wif.enc", []string{hx(k), strconv.Itoa(v), strconv.Itoa(c)}, "wif-enc", true, "")
			var s string
			if c == 1 {
				s, _ = wif.Encode(k, byte(v))
			} else {
				s, _ = wif.EncodeUncompressed(k, byte(v))
			}
			r.Do("wif.dec", []string{sx(s)}, "wif-dec", true, "")
		}
	}
	for i := 0; i < r.N(600, 40000); i++ {
		k := r.privKey()
		v := []int{128, 239, 176, 0, 255, r.rng.Intn(256)}[r.rng.Intn(6)]
		r.Do("wif.enc", []string{hx(k), strconv.Itoa(v), strconv.Itoa(i % 2)}, "wif-enc", true, "")
	}
	// wrong-length keys
	for n := 0; n <= 70; n++ {
		for c := 0; c < 2; c++ {
			r.Do("wif.enc", []string{hx(r.bytesN(n)), "128", strconv.Itoa(c)}, "wif-enc-length", n == 32, "")
		}
	}
	// payloads of every shape through Base58Check: lengths 0..40, flag bytes, two-byte versions
	for i := 0; i < r.N(1500, 60000); i++ {
		n := 30 + r.rng.Intn(8)
		if i%10 == 0 {
			n = r.rng.Intn(45)
		}
		p := r.bytesN(n)
		if n == 34 {
			p[33] = []byte{1, 0, 2, 0xff, 0x80, byte(r.rng.Intn(256))}[r.rng.Intn(6)]
		}
		if n > 0 && i%3 == 0 {
			p[0] = []byte{128, 239, 176, 0}[r.rng.Intn(4)]
		}
		s := base58check.Encode(p)
		r.Do("wif.dec", []string{sx(s)}, "wif-dec-payload", true, fmt.Sprintf("%d-byte payload", n))
		r.Do("wif.validate", []string{sx(s)}, "wif-validate", true, "")
		if i%4 == 0 {
			m := r.mutateStr(s, b58Alphabet)
			r.Do("wif.dec", []string{sx(m)}, "wif-dec-mutated", true, "")
			r.Do("wif.validate", []string{sx(m)}, "wif-validate", true, "")
		}
	}
	for i := 0; i < r.N(300, 10000); i++ {
		s := r.printable(r.rng.Intn(60))
		if i%2 == 0 {
			s = r.fromAlphabet(b58Alphabet, 45+r.rng.Intn(10))
		}
		r.Do("wif.dec", []string{sx(s)}, "wif-dec-arbitrary", len(s) > 0, "")
	}

	// ---- extended keys ----
	for i := 0; i < r.N(700, 40000); i++ {
		priv := i%2 == 0
		k := r.privKey()
		key := k
		if !priv {
			key = ecc.GetPublicKeyCompressed(k)
		}
		cc, fp := r.bytesN(32), r.bytesN(4)
		depth := []int{0, 0, 1, 2, 3, 255, r.rng.Intn(256)}[r.rng.Intn(7)]
		index := []uint32{0, 1, 0x7fffffff, 0x80000000, 0xffffffff, r.rng.Uint32()}[r.rng.Intn(6)]
		ver := xversions[r.rng.Intn(len(xversions))]
		if i%9 == 0 {
			fp = []byte{0, 0, 0, 0}
		}
		args := []string{strconv.Itoa(b2i(priv)), hx(key), hx(cc), hx(fp), strconv.Itoa(depth), strconv.FormatUint(uint64(index), 10), strconv.FormatUint(uint64(ver), 10)}
		r.Do("xkey.ser", args, "xkey-ser", true, "")
		var s string
		if priv {
			s = bip32.SerializePrivate(key, cc, fp, byte(depth), index, ver)
		} else {
			s = bip32.SerializePublic(key, cc, fp, byte(depth), index, ver)
		}
		r.Do("xkey.deser", []string{sx(s)}, "xkey-deser", true, "")
		if i%5 == 0 {
			r.Do("xkey.deser", []string{sx(r.mutateStr(s, b58Alphabet))}, "xkey-deser-mutated", true, "")
		}
		// the same 78 bytes with the key field altered: prefix bytes, points off the curve, x >= p
		payload, _ := base58check.Decode(s)
		if len(payload) == 78 {
			for rep := 0; rep < 3; rep++ {
				p := append([]byte{}, payload...)
				switch r.rng.Intn(8) {
				case 0:
					p[45] = []byte{0, 1, 2, 3, 4, 5, 6, 7, 0xff}[r.rng.Intn(9)]
				case 1:
					copy(p[46:], r.bytesN(32)) // random x: on the curve about half of the time
					p[45] = 2 + byte(r.rng.Intn(2))
				case 2:
					x := new(big.Int).Add(secpP, big.NewInt(int64(r.rng.Intn(40))))
					x.FillBytes(p[46:78])
					p[45] = 2 + byte(r.rng.Intn(2))
				case 3:
					for j := 46; j < 78; j++ {
						p[j] = 0
					}
					p[45] = byte(r.rng.Intn(4))
				case 4:
					p[4] = 0 // depth 0 with whatever fingerprint and index are there
				case 5:
					p = p[:77]
				case 6:
					p = append(p, byte(r.rng.Intn(256)))
				default:
					p[r.rng.Intn(78)] ^= byte(1 << uint(r.rng.Intn(8)))
				}
				r.Do("xkey.deser", []string{sx(base58check.Encode(p))}, "xkey-deser-payload", true, "")
			}
		}
	}
	// fields of non-standard length: the serializer writes them as given
	for i := 0; i < r.N(200, 5000); i++ {
		key := r.bytesN(r.rng.Intn(70))
		cc := r.bytesN(r.rng.Intn(40))
		fp := r.bytesN(r.rng.Intn(8))
		args := []string{strconv.Itoa(i % 2), hx(key), hx(cc), hx(fp), strconv.Itoa(r.rng.Intn(3)), strconv.Itoa(r.rng.Intn(1000)), "76067358"}
		r.Do("xkey.ser", args, "xkey-ser-odd-lengths", false, "")
	}
	for n := 70; n <= 86; n++ {
		r.Do("xkey.deser", []string{sx(base58check.Encode(r.bytesN(n)))}, "xkey-deser-length", true, fmt.Sprintf("%d-byte payload", n))
	}
	for i := 0; i < r.N(200, 5000); i++ {
		s := r.fromAlphabet(b58Alphabet, 105+r.rng.Intn(12))
		if i%3 == 0 {
			s = r.printable(r.rng.Intn(120))
		}
		r.Do("xkey.deser", []string{sx(s)}, "xkey-deser-arbitrary", len(s) > 0, "")
	}
	r.runBip38()
	return "WIF: all 256 version bytes x both flags with random keys, keys with leading zeros / tiny values, all wrong key lengths 0..70; Base58Check strings over payloads of 0..44 bytes with flag bytes 01/00/02/ff/80/random and WIF-like first bytes, one-edit mutations, arbitrary strings. " +
		"Extended keys: (private key | valid compressed public key, chain code, fingerprint, depth in {0,1,2,3,255,random}, index in {0,1,2^31-1,2^31,2^32-1,random}, version in {network constants, 0, 1, 2^32-1}) serialized and deserialized; one-edit mutations; 78-byte payloads with the key field altered (prefix 00..07/ff, random x, x >= p, all-zero x, depth forced to 0, length 77/79, single bit flips); fields of non-standard length through the serializer; payload lengths 70..86; arbitrary strings. " +
		"BIP38 (cost-bounded by scrypt; quick tier about ten derivations per side): keys x passphrases (ASCII, empty, non-ASCII, long) x compressed flag encrypted and decrypted, a wrong passphrase, altered ciphertext with a recomputed checksum, wrong key lengths; every listed flag byte (thorough: all 256) and prefix mutation of a valid string with a recomputed checksum, payload lengths 38/40; EC-multiply intermediate codes with and without lot/sequence from fixed reader bytes, EncryptIntermediateCode with fixed seedb, decryption of the result, out-of-range lot/sequence, short reads, damaged codes. Every case except the odd-length serializer inputs is non-trivial; cases are distinct by their request line."
}
