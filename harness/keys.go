package main

// C10: WIF and BIP32 extended-key strings. Strings travel as the hex of their bytes.

import (
	"bytes"
	"fmt"
	"math/big"
	"strconv"

	"github.com/kklash/bitcoinlib/base58check"
	"github.com/kklash/bitcoinlib/bip32"
	"github.com/kklash/bitcoinlib/ecc"
	"github.com/kklash/bitcoinlib/wif"
)

func flagArg(s string) (bool, bool) {
	switch s {
	case "0":
		return false, true
	case "1":
		return true, true
	}
	return false, false
}

func b2i(b bool) int {
	if b {
		return 1
	}
	return 0
}

func goWifDecode(s string) (string, []string) {
	k, v, c, err := wif.Decode(s)
	var direct []string
	if wif.Validate(s) != (err == nil) {
		direct = append(direct, "wif.Validate disagrees with wif.Decode")
	}
	if err != nil {
		return "err", direct
	}
	var back string
	var eerr error
	if c {
		back, eerr = wif.Encode(k, v)
	} else {
		back, eerr = wif.EncodeUncompressed(k, v)
	}
	if eerr != nil {
		direct = append(direct, "an accepted WIF string cannot be re-encoded: "+eerr.Error())
	} else if back != s {
		direct = append(direct, fmt.Sprintf("accepted WIF string is not canonical: re-encodes to %q", back))
	}
	return fmt.Sprintf("ok %s %d %d", hx(k), v, b2i(c)), direct
}

func init() {
	regRunner("C10", runC10)
	reg("wif.enc", Full, func(a []string) (string, []string) {
		key := unhx(a[0])
		v, err := strconv.Atoi(a[1])
		c, ok := flagArg(a[2])
		if err != nil || v < 0 || v > 255 || !ok {
			return "bad-op", nil
		}
		in, dirty := spareCopy(key)
		var s string
		var eerr error
		if c {
			s, eerr = wif.Encode(in, byte(v))
		} else {
			s, eerr = wif.EncodeUncompressed(in, byte(v))
		}
		var direct []string
		if dirty() {
			direct = append(direct, "wif.Encode wrote into the caller's key slice or its spare capacity")
		}
		if eerr != nil {
			return "err", direct
		}
		k2, v2, c2, derr := wif.Decode(s)
		if derr != nil || !bytes.Equal(k2, key) || int(v2) != v || c2 != c {
			direct = append(direct, "wif.Decode(Encode(key, version)) != (key, version, flag)")
		}
		return "ok " + sx(s), direct
	})
	reg("wif.dec", Full, func(a []string) (string, []string) { return goWifDecode(strArg(a[0])) })
	reg("wif.validate", Full, func(a []string) (string, []string) {
		return fmt.Sprintf("ok %d", b2i(wif.Validate(strArg(a[0])))), nil
	})
	reg("xkey.ser", Full, func(a []string) (string, []string) {
		priv, ok := flagArg(a[0])
		key, cc, fp := unhx(a[1]), unhx(a[2]), unhx(a[3])
		d, e1 := strconv.ParseUint(a[4], 10, 8)
		i, e2 := strconv.ParseUint(a[5], 10, 32)
		v, e3 := strconv.ParseUint(a[6], 10, 32)
		if !ok || e1 != nil || e2 != nil || e3 != nil {
			return "bad-op", nil
		}
		keyIn, dirtyK := spareCopy(key)
		ccIn, dirtyC := spareCopy(cc)
		fpIn, dirtyF := spareCopy(fp)
		var s string
		if priv {
			s = bip32.SerializePrivate(keyIn, ccIn, fpIn, byte(d), uint32(i), uint32(v))
		} else {
			s = bip32.SerializePublic(keyIn, ccIn, fpIn, byte(d), uint32(i), uint32(v))
		}
		var direct []string
		if dirtyK() || dirtyC() || dirtyF() {
			direct = append(direct, "bip32.Serialize* wrote into an argument slice")
		}
		// well-formed tuples must deserialize to themselves (index and fingerprint zero at depth 0)
		wellFormed := len(cc) == 32 && len(fp) == 4 && ((priv && len(key) == 32) || (!priv && len(key) == 33 && key[0] != 0))
		if wellFormed && !priv {
			if _, _, perr := ecc.DeserializePoint(key); perr != nil {
				wellFormed = false
			}
		}
		if wellFormed {
			k2, c2, f2, d2, i2, v2, derr := bip32.Deserialize(s)
			wantI, wantF := uint32(i), fp
			if d == 0 {
				wantI, wantF = 0, []byte{0, 0, 0, 0}
			}
			if derr != nil {
				direct = append(direct, "Deserialize rejects what Serialize produced for a well-formed key: "+derr.Error())
			} else if !bytes.Equal(k2, key) || !bytes.Equal(c2, cc) || !bytes.Equal(f2, wantF) || uint64(d2) != d || i2 != wantI || uint64(v2) != v {
				direct = append(direct, "Deserialize(Serialize(x)) != x (up to the depth-0 normalisation)")
			}
		}
		return "ok " + sx(s), direct
	})
	reg("xkey.deser", Full, func(a []string) (string, []string) {
		s := strArg(a[0])
		k, cc, fp, d, i, v, err := bip32.Deserialize(s)
		if err != nil {
			return "err", nil
		}
		var direct []string
		if d != 0 || (i == 0 && bytes.Equal(fp, []byte{0, 0, 0, 0})) {
			var back string
			if len(k) == 32 {
				back = bip32.SerializePrivate(k, cc, fp, d, i, v)
			} else {
				back = bip32.SerializePublic(k, cc, fp, d, i, v)
			}
			if back != s {
				direct = append(direct, fmt.Sprintf("accepted extended key is not canonical: re-serializes to %q", back))
			}
		}
		if len(k) != 32 {
			if _, _, perr := ecc.DeserializePoint(k); perr != nil || len(k) != 33 {
				direct = append(direct, "accepted extended public key holds an invalid point")
			}
		}
		return fmt.Sprintf("ok %s %s %s %d %d %d", hx(k), hx(cc), hx(fp), d, i, v), direct
	})
}

func (r *Runner) privKey() []byte {
	k := r.bytesN(32)
	switch r.rng.Intn(8) {
	case 0:
		k[0] = 0
	case 1:
		k[0], k[1], k[2] = 0, 0, 0
	case 2:
		for i := range k {
			k[i] = 0
		}
		k[31] = byte(1 + r.rng.Intn(255))
	}
	k[0] &= 0x7f // below the group order
	if bytes.Equal(k, make([]byte, 32)) {
		k[31] = 1
	}
	return k
}

var secpP, _ = new(big.Int).SetString("FFFFFFFFFFFFFFFFFFFFFFFFFFFFFFFFFFFFFFFFFFFFFFFFFFFFFFFEFFFFFC2F", 16)

func runC10(r *Runner) string {
	xversions := []uint32{76067358, 76066276, 70617039, 70615956, 27108450, 27106558, 0, 1, 0xffffffff}
	// ---- WIF: keys x version byte x compressed flag ----
	for v := 0; v < 256; v++ {
		for c := 0; c < 2; c++ {
			k := r.bytesN(32)
			r.Do("wif.enc", []string{hx(k), strconv.Itoa(v), strconv.Itoa(c)}, "wif-enc", true, "")
			var s string
			if c == 1 {
				s, _ = wif.Encode(k, byte(v))
			} else {
				s, _ = wif.EncodeUncompressed(k, byte(v))
			}
			r.Do("wif.dec", []string{sx(s)}, "wif-dec", true, "")
		}
	}
	for i := 0; i < r.N(600, 40000); i++ {
		k := r.privKey()
		v := []int{128, 239, 176, 0, 255, r.rng.Intn(256)}[r.rng.Intn(6)]
		r.Do("wif.enc", []string{hx(k), strconv.Itoa(v), strconv.Itoa(i % 2)}, "wif-enc", true, "")
	}
	// wrong-length keys
	for n := 0; n <= 70; n++ {
		for c := 0; c < 2; c++ {
			r.Do("wif.enc", []string{hx(r.bytesN(n)), "128", strconv.Itoa(c)}, "wif-enc-length", n == 32, "")
		}
	}
	// payloads of every shape through Base58Check: lengths 0..40, flag bytes, two-byte versions
	for i := 0; i < r.N(1500, 60000); i++ {
		n := 30 + r.rng.Intn(8)
		if i%10 == 0 {
			n = r.rng.Intn(45)
		}
		p := r.bytesN(n)
		if n == 34 {
			p[33] = []byte{1, 0, 2, 0xff, 0x80, byte(r.rng.Intn(256))}[r.rng.Intn(6)]
		}
		if n > 0 && i%3 == 0 {
			p[0] = []byte{128, 239, 176, 0}[r.rng.Intn(4)]
		}
		s := base58check.Encode(p)
		r.Do("wif.dec", []string{sx(s)}, "wif-dec-payload", true, fmt.Sprintf("%d-byte payload", n))
		r.Do("wif.validate", []string{sx(s)}, "wif-validate", true, "")
		if i%4 == 0 {
			m := r.mutateStr(s, b58Alphabet)
			r.Do("wif.dec", []string{sx(m)}, "wif-dec-mutated", true, "")
			r.Do("wif.validate", []string{sx(m)}, "wif-validate", true, "")
		}
	}
	for i := 0; i < r.N(300, 10000); i++ {
		s := r.printable(r.rng.Intn(60))
		if i%2 == 0 {
			s = r.fromAlphabet(b58Alphabet, 45+r.rng.Intn(10))
		}
		r.Do("wif.dec", []string{sx(s)}, "wif-dec-arbitrary", len(s) > 0, "")
	}

	// ---- extended keys ----
	for i := 0; i < r.N(700, 40000); i++ {
		priv := i%2 == 0
		k := r.privKey()
		key := k
		if !priv {
			key = ecc.GetPublicKeyCompressed(k)
		}
		cc, fp := r.bytesN(32), r.bytesN(4)
		depth := []int{0, 0, 1, 2, 3, 255, r.rng.Intn(256)}[r.rng.Intn(7)]
		index := []uint32{0, 1, 0x7fffffff, 0x80000000, 0xffffffff, r.rng.Uint32()}[r.rng.Intn(6)]
		ver := xversions[r.rng.Intn(len(xversions))]
		if i%9 == 0 {
			fp = []byte{0, 0, 0, 0}
		}
		args := []string{strconv.Itoa(b2i(priv)), hx(key), hx(cc), hx(fp), strconv.Itoa(depth), strconv.FormatUint(uint64(index), 10), strconv.FormatUint(uint64(ver), 10)}
		r.Do("xkey.ser", args, "xkey-ser", true, "")
		var s string
		if priv {
			s = bip32.SerializePrivate(key, cc, fp, byte(depth), index, ver)
		} else {
			s = bip32.SerializePublic(key, cc, fp, byte(depth), index, ver)
		}
		r.Do("xkey.deser", []string{sx(s)}, "xkey-deser", true, "")
		if i%5 == 0 {
			r.Do("xkey.deser", []string{sx(r.mutateStr(s, b58Alphabet))}, "xkey-deser-mutated", true, "")
		}
		// the same 78 bytes with the key field altered: prefix bytes, points off the curve, x >= p
		payload, _ := base58check.Decode(s)
		if len(payload) == 78 {
			for rep := 0; rep < 3; rep++ {
				p := append([]byte{}, payload...)
				switch r.rng.Intn(8) {
				case 0:
					p[45] = []byte{0, 1, 2, 3, 4, 5, 6, 7, 0xff}[r.rng.Intn(9)]
				case 1:
					copy(p[46:], r.bytesN(32)) // random x: on the curve about half of the time
					p[45] = 2 + byte(r.rng.Intn(2))
				case 2:
					x := new(big.Int).Add(secpP, big.NewInt(int64(r.rng.Intn(40))))
					x.FillBytes(p[46:78])
					p[45] = 2 + byte(r.rng.Intn(2))
				case 3:
					for j := 46; j < 78; j++ {
						p[j] = 0
					}
					p[45] = byte(r.rng.Intn(4))
				case 4:
					p[4] = 0 // depth 0 with whatever fingerprint and index are there
				case 5:
					p = p[:77]
				case 6:
					p = append(p, byte(r.rng.Intn(256)))
				default:
					p[r.rng.Intn(78)] ^= byte(1 << uint(r.rng.Intn(8)))
				}
				r.Do("xkey.deser", []string{sx(base58check.Encode(p))}, "xkey-deser-payload", true, "")
			}
		}
	}
	// fields of non-standard length: the serializer writes them as given
	for i := 0; i < r.N(200, 5000); i++ {
		key := r.bytesN(r.rng.Intn(70))
		cc := r.bytesN(r.rng.Intn(40))
		fp := r.bytesN(r.rng.Intn(8))
		args := []string{strconv.Itoa(i % 2), hx(key), hx(cc), hx(fp), strconv.Itoa(r.rng.Intn(3)), strconv.Itoa(r.rng.Intn(1000)), "76067358"}
		r.Do("xkey.ser", args, "xkey-ser-odd-lengths", false, "")
	}
	for n := 70; n <= 86; n++ {
		r.Do("xkey.deser", []string{sx(base58check.Encode(r.bytesN(n)))}, "xkey-deser-length", true, fmt.Sprintf("%d-byte payload", n))
	}
	for i := 0; i < r.N(200, 5000); i++ {
		s := r.fromAlphabet(b58Alphabet, 105+r.rng.Intn(12))
		if i%3 == 0 {
			s = r.printable(r.rng.Intn(120))
		}
		r.Do("xkey.deser", []string{sx(s)}, "xkey-deser-arbitrary", len(s) > 0, "")
	}
	return "WIF: all 256 version bytes x both flags with random keys, keys with leading zeros / tiny values, all wrong key lengths 0..70; Base58Check strings over payloads of 0..44 bytes with flag bytes 01/00/02/ff/80/random and WIF-like first bytes, one-edit mutations, arbitrary strings. " +
		"Extended keys: (private key | valid compressed public key, chain code, fingerprint, depth in {0,1,2,3,255,random}, index in {0,1,2^31-1,2^31,2^32-1,random}, version in {network constants, 0, 1, 2^32-1}) serialized and deserialized; one-edit mutations; 78-byte payloads with the key field altered (prefix 00..07/ff, random x, x >= p, all-zero x, depth forced to 0, length 77/79, single bit flips); fields of non-standard length through the serializer; payload lengths 70..86; arbitrary strings. " +
		"BIP38 is not covered by this generator. Every case except the odd-length serializer inputs is non-trivial; cases are distinct by their request line."
}
