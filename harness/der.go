package main

// C11: the DER signature codec of /repo/der accepts exactly BIP66 strict encodings.
//
// Ops (DESIGN.md appendix A): der.dec, der.dec.spec, der.enc, der.encint, der.chk.
// Every op is compared in full with the Lean model; the `direct` lists are the property's
// Go-side oracles: Go accept/reject = a Go transcription of BIP66's IsValidSignatureEncoding,
// the decoded fields are the encoded values, encode(decode(x)) = x, decode(encode(t)) = t,
// 9 <= len <= 73, in-range triples are encodable, everything else is refused.

import (
	"bytes"
	"fmt"
	"math/big"
	"strconv"

	"github.com/kklash/bitcoinlib/der"
)

// c11Bip66 is a transcription of IsValidSignatureEncoding from bip-0066.mediawiki (the
// signature includes its trailing hash-type byte). Independent of /repo/der.
func c11Bip66(sig []byte) bool {
	// Format: 0x30 [total-length] 0x02 [R-length] [R] 0x02 [S-length] [S] [sighash]
	if len(sig) < 9 {
		return false
	}
	if len(sig) > 73 {
		return false
	}
	if sig[0] != 0x30 {
		return false
	}
	if int(sig[1]) != len(sig)-3 {
		return false
	}
	lenR := int(sig[3])
	if 5+lenR >= len(sig) {
		return false
	}
	lenS := int(sig[5+lenR])
	if lenR+lenS+7 != len(sig) {
		return false
	}
	if sig[2] != 0x02 {
		return false
	}
	if lenR == 0 {
		return false
	}
	if sig[4]&0x80 != 0 {
		return false
	}
	if lenR > 1 && sig[4] == 0x00 && sig[5]&0x80 == 0 {
		return false
	}
	if sig[lenR+4] != 0x02 {
		return false
	}
	if lenS == 0 {
		return false
	}
	if sig[lenR+6]&0x80 != 0 {
		return false
	}
	if lenS > 1 && sig[lenR+6] == 0x00 && sig[lenR+7]&0x80 == 0 {
		return false
	}
	return true
}

// c11Decode calls DecodeSignature and reports a run-time panic as a message.
func c11Decode(bs []byte) (r, s *big.Int, ht uint32, err error, pmsg string) {
	defer func() {
		if e := recover(); e != nil {
			pmsg = fmt.Sprint(e)
		}
	}()
	r, s, ht, err = der.DecodeSignature(bs)
	if err == nil {
		retainBig(r, s)
	}
	return
}

var c11Two256 = new(big.Int).Lsh(big.NewInt(1), 256)

// c11ParseBig parses `nil` | decimal integer (optional leading '-').
func c11ParseBig(s string) (*big.Int, bool) {
	if s == "nil" {
		return nil, true
	}
	v, ok := new(big.Int).SetString(s, 10)
	return v, ok
}

func c11BigStr(v *big.Int) string {
	if v == nil {
		return "nil"
	}
	return v.String()
}

func c11InRange(v *big.Int) bool {
	return v != nil && v.Sign() >= 0 && v.Cmp(c11Two256) < 0
}

func init() {
	regRunner("C11", runC11)

	reg("der.dec", Full, func(a []string) (string, []string) {
		in := unhx(a[0])
		bs := append([]byte{}, in...)
		var direct []string
		spec := c11Bip66(in)
		r, s, ht, err, pmsg := c11Decode(bs)
		if pmsg != "" {
			// never a panic, whatever the model predicts
			return "panic", []string{"DecodeSignature panicked: " + pmsg}
		}
		if !bytes.Equal(bs, in) {
			direct = append(direct, "DecodeSignature modified its argument")
		}
		if (err == nil) != spec {
			direct = append(direct, fmt.Sprintf("DecodeSignature accepted=%v but BIP66 IsValidSignatureEncoding=%v", err == nil, spec))
		}
		if err != nil {
			return "err", direct
		}
		if r == nil || s == nil {
			direct = append(direct, "accepted but r or s is nil")
			return "ok r=nil s=nil ht=" + strconv.FormatUint(uint64(ht), 10), direct
		}
		if spec {
			// the fields are the encoded values
			lenR := int(in[3])
			lenS := int(in[5+lenR])
			if r.Cmp(new(big.Int).SetBytes(in[4:4+lenR])) != 0 || s.Cmp(new(big.Int).SetBytes(in[6+lenR:6+lenR+lenS])) != 0 || ht != uint32(in[len(in)-1]) {
				direct = append(direct, "decoded r, s, hash type are not the encoded values")
			}
		}
		// anything decodable re-encodes to identical bytes (when encodable at all: r, s < 2^256;
		// BIP66 itself admits integers of up to 64 bytes, which EncodeSignature must refuse)
		enc, eerr := der.EncodeSignature(r, s, ht)
		if c11InRange(r) && c11InRange(s) {
			if eerr != nil {
				direct = append(direct, "EncodeSignature refused a decoded triple with r, s < 2^256")
			} else if !bytes.Equal(enc, in) {
				direct = append(direct, "EncodeSignature(DecodeSignature(x)) = "+hx(enc)+" differs from x")
			}
		} else if eerr == nil {
			direct = append(direct, "EncodeSignature accepted an integer >= 2^256")
		} else {
			// the property asks that anything decodable re-encodes to identical bytes; BIP66 admits
			// integers wider than 256 bits, which the encoder (by the same property) must refuse
			direct = append(direct, "decodable signature with an integer >= 2^256 cannot be re-encoded (EncodeSignature refuses it)")
		}
		return fmt.Sprintf("ok r=%s s=%s ht=%d", r.String(), s.String(), ht), direct
	})

	reg("der.dec.spec", Full, func(a []string) (string, []string) {
		if c11Bip66(unhx(a[0])) {
			return "ok", nil
		}
		return "err", nil
	})

	reg("der.enc", Full, func(a []string) (string, []string) {
		r, ok1 := c11ParseBig(a[0])
		s, ok2 := c11ParseBig(a[1])
		ht64, err := strconv.ParseUint(a[2], 10, 32)
		if !ok1 || !ok2 || err != nil {
			return "bad-op", nil
		}
		ht := uint32(ht64)
		rs, ss := c11BigStr(r), c11BigStr(s)
		var direct []string
		enc, eerr := der.EncodeSignature(r, s, ht)
		if c11BigStr(r) != rs || c11BigStr(s) != ss {
			direct = append(direct, "EncodeSignature modified its arguments")
		}
		should := c11InRange(r) && c11InRange(s) && ht <= 0xff
		if eerr != nil {
			if should {
				direct = append(direct, "EncodeSignature refused 0 <= r, s < 2^256 with a one-byte hash type")
			}
			return "err", direct
		}
		if !should {
			direct = append(direct, "EncodeSignature accepted a negative / oversized / nil integer or a hash type > 0xff")
		}
		if len(enc) < der.MinimumSignatureLength || len(enc) > der.MaximumSignatureLength || len(enc) < 9 || len(enc) > 73 {
			direct = append(direct, fmt.Sprintf("encoding has %d bytes (outside 9..73)", len(enc)))
		}
		if !c11Bip66(enc) {
			direct = append(direct, "encoding is not BIP66-valid")
		}
		keep := append([]byte{}, enc...)
		r2, s2, ht2, derr := der.DecodeSignature(enc)
		if derr != nil {
			direct = append(direct, "DecodeSignature rejects the encoding: "+derr.Error())
		} else if r == nil || s == nil || r2.Cmp(r) != 0 || s2.Cmp(s) != 0 || ht2 != ht {
			direct = append(direct, "DecodeSignature(EncodeSignature(t)) differs from t")
		}
		if !bytes.Equal(keep, enc) {
			direct = append(direct, "DecodeSignature modified its argument")
		}
		return "ok " + hx(enc), direct
	})

	reg("der.encint", Full, func(a []string) (string, []string) {
		v, ok := c11ParseBig(a[0])
		if !ok {
			return "bad-op", nil
		}
		var direct []string
		cerr := der.CheckEncodableBigInt(v)
		enc, err := der.EncodeBigInt(v)
		if (cerr == nil) != (err == nil) {
			direct = append(direct, "CheckEncodableBigInt and EncodeBigInt disagree")
		}
		if (err == nil) != c11InRange(v) {
			direct = append(direct, "EncodeBigInt accepts exactly 0 <= v < 2^256: violated")
		}
		if err != nil {
			return "err", direct
		}
		// tag 2, one length byte, minimal positive content whose value is v
		if len(enc) < 3 || len(enc) > 35 || enc[0] != 2 || int(enc[1]) != len(enc)-2 || enc[2]&0x80 != 0 ||
			(len(enc) > 3 && enc[2] == 0 && enc[3]&0x80 == 0) || new(big.Int).SetBytes(enc[2:]).Cmp(v) != 0 {
			direct = append(direct, "EncodeBigInt output is not the minimal positive DER integer of v")
		}
		return "ok " + hx(enc), direct
	})

	reg("der.chk", Full, func(a []string) (string, []string) {
		v, ok := c11ParseBig(a[0])
		if !ok {
			return "bad-op", nil
		}
		err := der.CheckEncodableBigInt(v)
		var direct []string
		if (err == nil) != c11InRange(v) {
			direct = append(direct, "CheckEncodableBigInt accepts exactly 0 <= v < 2^256: violated")
		}
		if err != nil {
			return "err", direct
		}
		return "ok", direct
	})
}

// ---------------------------------------------------------------------------------------------
// generator

var c11Lead = []byte{0x00, 0x01, 0x7f, 0x80, 0xff}

// c11Int returns a value of exactly `bits` bits (0 for bits == 0): kind 0 = 2^(bits-1),
// kind 1 = 2^bits - 1, otherwise random with the top bit set.
func (r *Runner) c11Int(bits, kind int) *big.Int {
	if bits == 0 {
		return new(big.Int)
	}
	top := new(big.Int).Lsh(big.NewInt(1), uint(bits-1))
	switch kind {
	case 0:
		return top
	case 1:
		return new(big.Int).Sub(new(big.Int).Lsh(big.NewInt(1), uint(bits)), big.NewInt(1))
	}
	low := new(big.Int).SetBytes(r.bytesN((bits + 7) / 8))
	low.Mod(low, top)
	return low.Add(low, top)
}

func (r *Runner) c11HashType() uint32 {
	switch r.rng.Intn(8) {
	case 0:
		return []uint32{0, 1, 2, 3, 0x7f, 0x80, 0x81, 0x82, 0x83, 0xff}[r.rng.Intn(10)]
	case 1:
		return []uint32{0x100, 0x101, 0x1ff, 0xffff, 0x10000, 0x7fffffff, 0x80000000, 0xffffffff, 0xffffff01}[r.rng.Intn(9)]
	case 2:
		return r.rng.Uint32()
	case 3:
		return r.rng.Uint32() >> uint(r.rng.Intn(32))
	}
	return uint32(r.rng.Intn(256))
}

// c11Layout writes the fields where the decoder will look for them: the position of the s
// header follows from the *declared* r length. Fields that fall outside the buffer are dropped.
func (r *Runner) c11Layout(L int, tag, dtotal, rtag, rlen, stag, slen int, r0, r1, s0, s1 int) []byte {
	b := r.bytesN(L)
	if r.rng.Intn(4) == 0 {
		for i := range b {
			b[i] = 0
		}
	}
	put := func(i, v int) {
		if v >= 0 && i >= 0 && i < L {
			b[i] = byte(v)
		}
	}
	// later fields first, so that on overlap the earlier (header) fields win
	put(7+rlen, s1)
	put(6+rlen, s0)
	put(5+rlen, slen)
	put(4+rlen, stag)
	put(5, r1)
	put(4, r0)
	put(3, rlen)
	put(2, rtag)
	put(1, dtotal)
	put(0, tag)
	return b
}

func c11NonTrivialDec(b []byte) bool {
	return len(b) >= 9 && len(b) <= 73 && b[0] == 0x30
}

func (r *Runner) c11Dec(b []byte, tag string, withSpec bool) {
	h := hx(b)
	r.Do("der.dec", []string{h}, tag, c11NonTrivialDec(b), "")
	if withSpec {
		r.Do("der.dec.spec", []string{h}, tag+"/spec", c11NonTrivialDec(b), "")
	}
}

func runC11(r *Runner) string {
	// ---- 1. arbitrary strings of length 0..80 ------------------------------------------------
	// every length, several draws: pure noise, and noise whose first k structural bytes are right
	for L := 0; L <= 80; L++ {
		for k := 0; k < r.N(60, 4000); k++ {
			b := r.bytesN(L)
			fix := r.rng.Intn(6) // how many structural fields are repaired
			if fix >= 1 && L > 0 {
				b[0] = 0x30
			}
			if fix >= 2 && L > 1 {
				b[1] = byte(L - 3)
			}
			if fix >= 3 && L > 2 {
				b[2] = 2
			}
			if fix >= 4 && L > 3 && L > 8 {
				b[3] = byte(1 + r.rng.Intn(L-7+1)) // up to one too many
			}
			if fix >= 5 && L > 3 {
				p := 4 + int(b[3])
				if p < L {
					b[p] = 2
				}
				if p+1 < L {
					b[p+1] = byte(L - 7 - int(b[3]))
				}
			}
			r.c11Dec(b, "random-string", k%4 == 0)
		}
	}
	// the empty string and one-byte strings, all of them
	r.c11Dec([]byte{}, "tiny", true)
	for v := 0; v < 256; v++ {
		r.c11Dec([]byte{byte(v)}, "tiny", v%16 == 0)
	}

	// ---- 2. structural enumeration ------------------------------------------------------------
	// total length x declared r length x declared s length x leading-byte patterns of r and s,
	// then one-field deviations of the tags / declared total. Thorough: bounded-exhaustive
	// (every L in 9..73 and a few outside, every rlen in 0..L+1 and 127,128,255, slen consistent
	// and off by one / 0 / 255, all 625 leading patterns for the consistent layout).
	// Quick: the same space sampled.
	lens := []int{}
	for L := 7; L <= 76; L++ {
		lens = append(lens, L)
	}
	rlens := func(L int) []int {
		v := []int{}
		for x := 0; x <= L+1; x++ {
			v = append(v, x)
		}
		return append(v, 127, 128, 129, 254, 255)
	}
	slens := func(L, rlen int) []int {
		c := L - 7 - rlen
		return []int{c, c - 1, c + 1, 0, 1, 255, c + 256, c - 256}
	}
	structural := func(L, rlen, slen, r0, r1, s0, s1 int, tag string, spec bool) {
		if slen < 0 || slen > 255 {
			return
		}
		b := r.c11Layout(L, 0x30, L-3, 2, rlen, 2, slen, r0, r1, s0, s1)
		r.c11Dec(b, tag, spec)
	}
	if r.thorough {
		for _, L := range lens {
			for _, rlen := range rlens(L) {
				for si, slen := range slens(L, rlen) {
					for _, r0 := range c11Lead {
						for _, r1 := range c11Lead {
							for _, s0 := range c11Lead {
								for _, s1 := range c11Lead {
									if si > 0 && !(r0 == s0 && r1 == s1) {
										continue // inconsistent s length: the diagonal of the patterns only
									}
									structural(L, rlen, slen, int(r0), int(r1), int(s0), int(s1), "structural", (int(r0)+int(s1))%5 == 0)
								}
							}
						}
					}
				}
			}
		}
	} else {
		// every (L, rlen) with the consistent s length and a handful of patterns; then samples
		for _, L := range lens {
			for _, rlen := range rlens(L) {
				sl := slens(L, rlen)
				for k := 0; k < 4; k++ {
					p := r.rng.Intn(625)
					structural(L, rlen, sl[0], int(c11Lead[p%5]), int(c11Lead[p/5%5]), int(c11Lead[p/25%5]), int(c11Lead[p/125]), "structural", k == 0)
				}
				q := r.rng.Intn(625)
				structural(L, rlen, sl[1+r.rng.Intn(len(sl)-1)], int(c11Lead[q%5]), int(c11Lead[q/5%5]), int(c11Lead[q/25%5]), int(c11Lead[q/125]), "structural", false)
			}
		}
		for i := 0; i < 30000; i++ {
			L := lens[r.rng.Intn(len(lens))]
			rl := rlens(L)
			rlen := rl[r.rng.Intn(len(rl))]
			if r.rng.Intn(3) > 0 && L > 9 {
				rlen = 1 + r.rng.Intn(L-8) // leaves room for s
			}
			sl := slens(L, rlen)
			slen := sl[0]
			if r.rng.Intn(5) == 0 {
				slen = sl[r.rng.Intn(len(sl))]
			}
			p := r.rng.Intn(625)
			structural(L, rlen, slen, int(c11Lead[p%5]), int(c11Lead[p/5%5]), int(c11Lead[p/25%5]), int(c11Lead[p/125]), "structural", i%3 == 0)
		}
	}
	// one-field deviations of compound tag, declared total, integer tags on otherwise valid layouts
	tagsC := []int{0x30, 0x31, 0x20, 0x00, 0x02, 0xb0}
	tagsI := []int{2, 3, 0, 0x82, 0x30, 0x12}
	for _, L := range lens {
		for rlen := 1; rlen <= L-8; rlen++ {
			if !r.thorough && r.rng.Intn(4) != 0 {
				continue
			}
			slen := L - 7 - rlen
			for _, t := range tagsC {
				r.c11Dec(r.c11Layout(L, t, L-3, 2, rlen, 2, slen, 1, -1, 1, -1), "tag-compound", false)
			}
			for _, d := range []int{L - 3, L - 2, L - 4, L, 0, rlen + slen, 255} {
				r.c11Dec(r.c11Layout(L, 0x30, d, 2, rlen, 2, slen, 1, -1, 1, -1), "declared-total", false)
			}
			for _, t := range tagsI {
				r.c11Dec(r.c11Layout(L, 0x30, L-3, t, rlen, 2, slen, 1, -1, 1, -1), "tag-r", false)
				r.c11Dec(r.c11Layout(L, 0x30, L-3, 2, rlen, t, slen, 1, -1, 1, -1), "tag-s", false)
			}
		}
	}
	// the whole field space at once, sampled (all fields free)
	for i := 0; i < r.N(20000, 1500000); i++ {
		L := lens[r.rng.Intn(len(lens))]
		pick := func(good int, alts ...int) int {
			if r.rng.Intn(6) == 0 {
				return alts[r.rng.Intn(len(alts))]
			}
			return good
		}
		rlen := r.rng.Intn(L + 2)
		if r.rng.Intn(3) > 0 && L > 9 {
			rlen = 1 + r.rng.Intn(L-8)
		}
		rlen = pick(rlen, 0, 127, 128, 255, r.rng.Intn(256))
		slen := pick(L-7-rlen, 0, 1, L-6-rlen, L-8-rlen, 255, r.rng.Intn(256))
		p := r.rng.Intn(625)
		b := r.c11Layout(L, pick(0x30, tagsC...), pick(L-3, L-2, L-4, 0, 255, r.rng.Intn(256)),
			pick(2, tagsI...), rlen, pick(2, tagsI...), slen&0xff,
			int(c11Lead[p%5]), int(c11Lead[p/5%5]), int(c11Lead[p/25%5]), int(c11Lead[p/125]))
		r.c11Dec(b, "structural-free", i%4 == 0)
	}

	// ---- 3. encoding: (r, s) of every bit length 0..256, hash types incl. > 0xff ---------------
	encCase := func(rv, sv *big.Int, ht uint32, tag string, alsoDec bool) {
		r.Do("der.enc", []string{c11BigStr(rv), c11BigStr(sv), strconv.FormatUint(uint64(ht), 10)}, tag, true, "")
		if alsoDec {
			if enc, err := der.EncodeSignature(rv, sv, ht); err == nil {
				r.c11Dec(enc, tag+"/dec", true)
			}
		}
	}
	for rb := 0; rb <= 256; rb++ {
		for sb := 0; sb <= 256; sb++ {
			if !r.thorough && !(rb == sb || sb == 0 || sb == 256 || sb == 255 || rb+sb == 256 || r.rng.Intn(40) == 0) {
				continue
			}
			kind := r.rng.Intn(4)
			encCase(r.c11Int(rb, kind), r.c11Int(sb, r.rng.Intn(4)), uint32(r.rng.Intn(256)), "enc-bitlen-grid", true)
		}
	}
	for bits := 0; bits <= 256; bits++ {
		for kind := 0; kind < 3; kind++ {
			v := r.c11Int(bits, kind)
			encCase(v, r.c11Int(r.rng.Intn(257), 2), uint32(r.rng.Intn(256)), "enc-r-edge", true)
			encCase(r.c11Int(r.rng.Intn(257), 2), v, uint32(r.rng.Intn(256)), "enc-s-edge", true)
			r.Do("der.encint", []string{v.String()}, "encint", true, "")
			r.Do("der.chk", []string{v.String()}, "chk", true, "")
		}
	}
	// all one-byte hash types, and larger ones
	one := big.NewInt(1)
	for ht := 0; ht < 256; ht++ {
		encCase(r.c11Int(r.rng.Intn(257), 2), r.c11Int(r.rng.Intn(257), 2), uint32(ht), "enc-hashtype", ht%8 == 0)
	}
	for i := 0; i < r.N(600, 60000); i++ {
		encCase(r.c11Int(r.rng.Intn(257), 2), r.c11Int(r.rng.Intn(257), 2), r.c11HashType(), "enc-hashtype", i%8 == 0)
	}
	for _, ht := range []uint32{0x100, 0x101, 0x1ff, 0xffff, 0x10000, 0x7fffffff, 0x80000000, 0xffffffff, 0xffffff01, 0xffffff00} {
		encCase(one, one, ht, "enc-hashtype-refused", false)
	}
	// refused integers: nil, negative, >= 2^256
	refused := []*big.Int{nil, big.NewInt(-1), big.NewInt(-128), big.NewInt(-255), big.NewInt(-256),
		new(big.Int).Neg(c11Two256), new(big.Int).Neg(r.c11Int(255, 1)), new(big.Int).Neg(r.c11Int(256, 1)),
		new(big.Int).Set(c11Two256), new(big.Int).Add(c11Two256, one), r.c11Int(257, 1), r.c11Int(257, 2), r.c11Int(264, 2),
		r.c11Int(300, 2), r.c11Int(512, 1), r.c11Int(2048, 2), new(big.Int).Neg(r.c11Int(300, 2))}
	for i := 0; i < r.N(100, 5000); i++ {
		v := r.c11Int(257+r.rng.Intn(300), r.rng.Intn(3))
		if r.rng.Intn(2) == 0 {
			v = new(big.Int).Neg(r.c11Int(1+r.rng.Intn(300), r.rng.Intn(3)))
		}
		refused = append(refused, v)
	}
	for _, v := range refused {
		ok := r.c11Int(r.rng.Intn(257), 2)
		encCase(v, ok, uint32(r.rng.Intn(256)), "enc-refused", false)
		encCase(ok, v, uint32(r.rng.Intn(256)), "enc-refused", false)
		encCase(v, v, r.c11HashType(), "enc-refused", false)
		r.Do("der.encint", []string{c11BigStr(v)}, "encint-refused", true, "")
		r.Do("der.chk", []string{c11BigStr(v)}, "chk-refused", true, "")
	}

	// ---- 4. valid encodings and their neighbours ----------------------------------------------
	// byte-level construction (independent of the library's encoder): minimal positive integers
	// of every byte length that fits, incl. integers wider than 32 bytes (BIP66-valid, not
	// re-encodable), then single-byte mutations, truncations and extensions.
	mkInt := func(n int) []byte { // n >= 1 content bytes, canonical
		c := r.bytesN(n)
		switch r.rng.Intn(4) {
		case 0: // padded: 00 then a byte with the top bit set
			c[0] = 0
			if n > 1 {
				c[1] |= 0x80
			}
		case 1:
			c[0] = byte(1 + r.rng.Intn(0x7f))
		default:
			c[0] &= 0x7f
			if c[0] == 0 && n > 1 {
				c[1] |= 0x80
			}
		}
		return c
	}
	for i := 0; i < r.N(12000, 600000); i++ {
		total := 9 + r.rng.Intn(65)
		if r.rng.Intn(3) == 0 {
			total = []int{9, 10, 39, 40, 71, 72, 73}[r.rng.Intn(7)]
		}
		rlen := 1 + r.rng.Intn(total-8)
		if r.rng.Intn(2) == 0 && total >= 41 { // typical signatures: both integers 31..33 bytes
			lo := total - 7 - 33
			if lo < 1 {
				lo = 1
			}
			hi := 33
			if hi > total-8 {
				hi = total - 8
			}
			if hi >= lo {
				rlen = lo + r.rng.Intn(hi-lo+1)
			}
		}
		slen := total - 7 - rlen
		b := []byte{0x30, byte(total - 3), 2, byte(rlen)}
		b = append(b, mkInt(rlen)...)
		b = append(b, 2, byte(slen))
		b = append(b, mkInt(slen)...)
		b = append(b, byte(r.rng.Intn(256)))
		r.c11Dec(b, "valid-bytes", i%4 == 0)
		switch i % 4 {
		case 0: // one byte changed at a structural position or anywhere
			m := append([]byte{}, b...)
			pos := []int{0, 1, 2, 3, 4, 5, 4 + rlen, 5 + rlen, 6 + rlen, 7 + rlen, len(b) - 1, r.rng.Intn(len(b))}[r.rng.Intn(12)]
			if pos < len(m) {
				m[pos] = []byte{0, 1, 2, 0x30, 0x7f, 0x80, 0xff, m[pos] + 1, m[pos] - 1, m[pos] ^ 0x80, byte(r.rng.Intn(256))}[r.rng.Intn(11)]
			}
			r.c11Dec(m, "mutated", i%8 == 0)
		case 1: // truncated
			r.c11Dec(b[:r.rng.Intn(len(b))], "truncated", false)
		case 2: // extended (with and without fixing the declared total)
			m := append(append([]byte{}, b...), r.bytesN(1+r.rng.Intn(3))...)
			if r.rng.Intn(2) == 0 {
				m[1] = byte(len(m) - 3)
			}
			r.c11Dec(m, "extended", false)
		case 3: // hash-type byte dropped (a bare DER signature)
			m := append([]byte{}, b[:len(b)-1]...)
			if r.rng.Intn(2) == 0 {
				m[1] = byte(len(m) - 3)
			}
			r.c11Dec(m, "no-hashtype", false)
		}
	}
	// total length 74..80 with consistent fields (too long), and 8 (too short)
	for i := 0; i < r.N(300, 20000); i++ {
		total := 74 + r.rng.Intn(7)
		if i%10 == 0 {
			total = 8
		}
		rlen := 1
		if total > 9 {
			rlen = 1 + r.rng.Intn(total-8)
		}
		slen := total - 7 - rlen
		b := []byte{0x30, byte(total - 3), 2, byte(rlen)}
		b = append(b, mkInt(rlen)...)
		b = append(b, 2, byte(slen))
		if slen > 0 {
			b = append(b, mkInt(slen)...)
		}
		b = append(b, 1)
		r.c11Dec(b, "size-window", i%4 == 0)
	}
	return "cases are request lines. der.dec: (1) random strings of every length 0..80 with 0..5 leading structural fields repaired; (2) the structural field space — total length 7..76 x declared r length (0..L+1,127..129,254,255) x declared s length (consistent, +-1, 0, 1, 255) x leading two bytes of r and of s from {00,01,7f,80,ff}^2 laid out where the decoder looks for them (bounded-exhaustive in the thorough tier, sampled in quick), one-field deviations of compound tag / declared total / integer tags, and all fields free; (3) byte-level valid encodings of every total length 9..73 incl. integers wider than 32 bytes, with single-byte mutations, truncations, extensions and a dropped hash-type byte; sizes 8 and 74..80. der.enc/der.encint/der.chk: r and s of every bit length 0..256 (2^(k-1), 2^k-1, random), the grid of bit-length pairs, all one-byte hash types, 32-bit hash types, nil / negative / >= 2^256 integers; every accepted encoding is decoded again. A der.dec case is non-trivial when its length is 9..73 and its first byte is 0x30 (it passes the decoder's first structural checks); every der.enc/encint/chk case is non-trivial; distinct = distinct request line (SHA-256)."
}
