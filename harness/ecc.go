package main

// C06 (public keys, point encodings, ECDH, key sums), C05 (signature verification),
// C04 ecc part (signatures produced, DER form).
//
// ops (see lean/BtcVerif/Oracle/Ecc.lean for the model side):
//   pub.c|pub.u|pub.x <k>                     -> ok <hex> | panic
//   pub.iscomp <hex>                          -> ok true|false
//   point.dec <hex>   (point.dec.spec)        -> ok <x64> <y64> | err
//   point.enc <x> <y> c|u                     -> ok <hex> | panic
//   pub.compress|pub.uncompress <hex>         -> ok <hex> | err
//   ecdh <priv> <pub>                         -> ok <hex32> | err
//   ecdh.sym <a> <b>                          -> ok <hex32>          (direct: both directions agree)
//   sum.priv <k,k,…|[]>                       -> ok <hex32> | err
//   sum.pub <x,x,…|[]>                        -> ok <hex32> | err
//   priv.new <stream>                         -> ok <hex32> | err
//   ecdsa.sign <priv> <digest>                -> ok <r64> <s64>
//   ecdsa.verify[.spec] <pub> <digest> <r> <s>-> ok true|false
//   schnorr.sign <priv> <msg> <aux>           -> ok <sig64>
//   schnorr.verify[.spec] <pub> <msg> <sig>   -> ok true|false
//   sig.encode <priv> <digest> <ht>           -> ok <hex> | err
// scalars, coordinates, r, s: big-endian hex of any length, `-` = zero.

import (
	"bytes"
	"crypto/sha256"
	"fmt"
	"math/big"
	"strconv"
	"strings"

	"github.com/kklash/bitcoinlib/der"
	"github.com/kklash/bitcoinlib/ecc"
	"github.com/kklash/bitcoinlib/signer"
)

var (
	eccP, _    = new(big.Int).SetString("FFFFFFFFFFFFFFFFFFFFFFFFFFFFFFFFFFFFFFFFFFFFFFFFFFFFFFFEFFFFFC2F", 16)
	eccN, _    = new(big.Int).SetString("FFFFFFFFFFFFFFFFFFFFFFFFFFFFFFFEBAAEDCE6AF48A03BBFD25E8CD0364141", 16)
	eccHalfN   = new(big.Int).Rsh(eccN, 1)
	ecc2p256   = new(big.Int).Lsh(big.NewInt(1), 256)
	eccOne     = big.NewInt(1)
	eccSeven   = big.NewInt(7)
	eccBoolStr = map[bool]string{true: "ok true", false: "ok false"}
)

func eccBig(s string) *big.Int { return new(big.Int).SetBytes(unhx(s)) }

func ecc32(v *big.Int) string {
	if v.Sign() < 0 || v.BitLen() > 256 {
		return "overflow:" + v.Text(16)
	}
	return hx(v.FillBytes(make([]byte, 32)))
}

func eccB32(v *big.Int) []byte { return v.FillBytes(make([]byte, 32)) }

func eccList(s string) [][]byte {
	if s == "[]" {
		return nil
	}
	parts := strings.Split(s, ",")
	out := make([][]byte, len(parts))
	for i, p := range parts {
		out[i] = unhx(p)
	}
	return out
}

func eccListStr(keys [][]byte) string {
	if len(keys) == 0 {
		return "[]"
	}
	parts := make([]string, len(keys))
	for i, k := range keys {
		parts[i] = hx(k)
	}
	return strings.Join(parts, ",")
}

// independent curve test with plain big.Int arithmetic: finite point, reduced coordinates, y² = x³ + 7
func eccFiniteOnCurve(x, y *big.Int) bool {
	if x.Sign() < 0 || y.Sign() < 0 || x.Cmp(eccP) >= 0 || y.Cmp(eccP) >= 0 {
		return false
	}
	l := new(big.Int).Mul(y, y)
	l.Mod(l, eccP)
	r := new(big.Int).Mul(x, x)
	r.Mul(r, x)
	r.Add(r, eccSeven)
	r.Mod(r, eccP)
	return l.Cmp(r) == 0
}

func eccValidScalar(v *big.Int) bool { return v.Sign() > 0 && v.Cmp(eccN) < 0 }

// direct oracle for a deserialised point and its origin
func eccCheckDecoded(in []byte, x, y *big.Int) []string {
	var direct []string
	if x == nil || y == nil {
		return []string{"DeserializePoint returned a nil coordinate without an error"}
	}
	if !eccFiniteOnCurve(x, y) {
		direct = append(direct, fmt.Sprintf("DeserializePoint accepted (%s, %s), which is not a finite point of secp256k1", x.Text(16), y.Text(16)))
		return direct
	}
	var back []byte
	switch len(in) {
	case 33:
		back = safeBytes(func() []byte { return ecc.SerializePointCompressed(x, y) })
	case 65:
		back = safeBytes(func() []byte { return ecc.SerializePointUncompressed(x, y) })
	case 32:
		back = eccB32(x)
		if y.Bit(0) != 0 {
			direct = append(direct, "x-only key decoded to an odd y")
		}
	}
	if !bytes.Equal(back, in) {
		direct = append(direct, "re-encoding the decoded point gives "+hx(back)+", not the input")
	}
	return direct
}

func safeBytes(f func() []byte) (out []byte) {
	defer func() {
		if e := recover(); e != nil {
			out = []byte("panic:" + fmt.Sprint(e))
		}
	}()
	return f()
}

func eccVerifyOp(a []string) (string, []string) {
	pub, h := unhx(a[0]), unhx(a[1])
	r, s := eccBig(a[2]), eccBig(a[3])
	rs, ss := r.Text(16), s.Text(16)
	pub0, h0 := append([]byte{}, pub...), append([]byte{}, h...)
	ok := ecc.VerifyECDSA(pub, h, r, s)
	var direct []string
	if r.Text(16) != rs || s.Text(16) != ss || !bytes.Equal(pub, pub0) || !bytes.Equal(h, h0) {
		direct = append(direct, "VerifyECDSA modified an argument")
	}
	if ok && (!eccValidScalar(r) || !eccValidScalar(s)) {
		direct = append(direct, "VerifyECDSA accepted an out-of-range scalar")
	}
	if ok {
		x, y, err := ecc.DeserializePoint(pub)
		if err != nil || !eccFiniteOnCurve(x, y) {
			direct = append(direct, "VerifyECDSA accepted a signature under a public key that is not a finite curve point")
		}
	}
	return eccBoolStr[ok], direct
}

func eccSchnorrVerifyOp(a []string) (string, []string) {
	pub, m, sig := unhx(a[0]), unhx(a[1]), unhx(a[2])
	pub0, m0, sig0 := append([]byte{}, pub...), append([]byte{}, m...), append([]byte{}, sig...)
	ok := ecc.VerifySchnorr(pub, m, sig)
	var direct []string
	if !bytes.Equal(pub, pub0) || !bytes.Equal(m, m0) || !bytes.Equal(sig, sig0) {
		direct = append(direct, "VerifySchnorr modified an argument")
	}
	if ok {
		if len(pub) != 32 {
			direct = append(direct, "VerifySchnorr accepted a key that is not 32 bytes")
		} else {
			x, y, err := ecc.DeserializePoint(pub)
			if err != nil || !eccFiniteOnCurve(x, y) {
				direct = append(direct, "VerifySchnorr accepted a signature under a public key that is not a finite curve point")
			}
		}
		if new(big.Int).SetBytes(sig[:32]).Cmp(eccP) >= 0 || new(big.Int).SetBytes(sig[32:]).Cmp(eccN) >= 0 {
			direct = append(direct, "VerifySchnorr accepted r >= p or s >= n")
		}
	}
	return eccBoolStr[ok], direct
}

// strict DER (BIP66 IsValidSignatureEncoding), written from the BIP text
func eccBip66(sig []byte) bool {
	if len(sig) < 9 || len(sig) > 73 || sig[0] != 0x30 || int(sig[1]) != len(sig)-3 {
		return false
	}
	lenR := int(sig[3])
	if 5+lenR >= len(sig) {
		return false
	}
	lenS := int(sig[5+lenR])
	if lenR+lenS+7 != len(sig) {
		return false
	}
	if sig[2] != 0x02 || lenR == 0 || sig[4]&0x80 != 0 {
		return false
	}
	if lenR > 1 && sig[4] == 0 && sig[5]&0x80 == 0 {
		return false
	}
	if sig[lenR+4] != 0x02 || lenS == 0 || sig[lenR+6]&0x80 != 0 {
		return false
	}
	if lenS > 1 && sig[lenR+6] == 0 && sig[lenR+7]&0x80 == 0 {
		return false
	}
	return true
}

func init() {
	regRunner("C06", runC06)
	regRunner("C05", runC05)
	regRunner("C04", runC04)

	pubOp := func(f func([]byte) []byte, kind string) OpFunc {
		return func(a []string) (string, []string) {
			k := unhx(a[0])
			k0 := append([]byte{}, k...)
			out := f(k)
			var direct []string
			if !bytes.Equal(k, k0) {
				direct = append(direct, "GetPublicKey* modified the private key")
			}
			if eccValidScalar(new(big.Int).SetBytes(k)) {
				// the three forms must describe one finite curve point
				x, y, err := ecc.DeserializePoint(out)
				if err != nil {
					direct = append(direct, "the public key of a valid scalar does not deserialize")
				} else {
					if !eccFiniteOnCurve(x, y) {
						direct = append(direct, "public key is not a finite curve point")
					}
					c := ecc.GetPublicKeyCompressed(k)
					u := ecc.GetPublicKeyUncompressed(k)
					xo := ecc.GetPublicKeySchnorr(k)
					if len(c) != 33 || len(u) != 65 || len(xo) != 32 || !bytes.Equal(c[1:], u[1:33]) || !bytes.Equal(xo, c[1:]) || c[0] != 2+u[64]&1 {
						direct = append(direct, "compressed / uncompressed / x-only public keys are inconsistent")
					}
					if kind != "x" && (x.Cmp(new(big.Int).SetBytes(u[1:33])) != 0 || y.Cmp(new(big.Int).SetBytes(u[33:])) != 0) {
						direct = append(direct, "public key decodes to a different point than the uncompressed form")
					}
					if !bytes.Equal(ecc.GetPublicKey(k, true), c) || !bytes.Equal(ecc.GetPublicKey(k, false), u) {
						direct = append(direct, "GetPublicKey(compressed flag) differs from GetPublicKeyCompressed/Uncompressed")
					}
				}
			}
			return "ok " + hx(out), direct
		}
	}
	reg("pub.c", Full, pubOp(ecc.GetPublicKeyCompressed, "c"))
	reg("pub.u", Full, pubOp(ecc.GetPublicKeyUncompressed, "u"))
	reg("pub.x", Full, pubOp(ecc.GetPublicKeySchnorr, "x"))

	reg("pub.iscomp", Full, func(a []string) (string, []string) {
		return eccBoolStr[ecc.IsCompressedPublicKey(unhx(a[0]))], nil
	})

	pointDec := func(a []string) (string, []string) {
		in := unhx(a[0])
		in0 := append([]byte{}, in...)
		x, y, err := ecc.DeserializePoint(in)
		var direct []string
		if !bytes.Equal(in, in0) {
			direct = append(direct, "DeserializePoint modified its argument")
		}
		if err != nil {
			return "err", direct
		}
		direct = append(direct, eccCheckDecoded(in0, x, y)...)
		retainBig(x, y)
		return "ok " + ecc32(x) + " " + ecc32(y), direct
	}
	reg("point.dec", Full, pointDec)
	reg("point.dec.spec", Full, pointDec)

	reg("point.enc", Full, func(a []string) (string, []string) {
		x, y := eccBig(a[0]), eccBig(a[1])
		var out []byte
		switch a[2] {
		case "c":
			out = ecc.SerializePoint(x, y, true)
			if !bytes.Equal(out, ecc.SerializePointCompressed(x, y)) {
				return "ok " + hx(out), []string{"SerializePoint(compressed) differs from SerializePointCompressed"}
			}
		case "u":
			out = ecc.SerializePoint(x, y, false)
			if !bytes.Equal(out, ecc.SerializePointUncompressed(x, y)) {
				return "ok " + hx(out), []string{"SerializePoint(uncompressed) differs from SerializePointUncompressed"}
			}
		default:
			return "bad-op", nil
		}
		var direct []string
		if eccFiniteOnCurve(x, y) {
			bx, by, err := ecc.DeserializePoint(out)
			if err != nil || bx.Cmp(x) != 0 || by.Cmp(y) != 0 {
				direct = append(direct, "DeserializePoint(SerializePoint(P)) != P for a finite curve point")
			}
		}
		return "ok " + hx(out), direct
	})

	recode := func(f func([]byte) ([]byte, error), other func([]byte) ([]byte, error)) OpFunc {
		return func(a []string) (string, []string) {
			in := unhx(a[0])
			out, err := f(in)
			if err != nil {
				return "err", nil
			}
			var direct []string
			// the two re-encodings are mutually inverse on their images
			o2, err2 := other(out)
			if err2 != nil {
				direct = append(direct, "the re-encoded key is rejected by the converse conversion")
			} else {
				o3, err3 := f(o2)
				if err3 != nil || !bytes.Equal(o3, out) {
					direct = append(direct, "compress / uncompress are not mutually inverse on this key")
				}
			}
			if (len(in) == 33 || len(in) == 65) && len(in) == len(out) && !bytes.Equal(in, out) {
				direct = append(direct, "re-encoding a key in its own format changed it")
			}
			return "ok " + hx(out), direct
		}
	}
	reg("pub.compress", Full, recode(ecc.CompressPublicKey, ecc.UncompressPublicKey))
	reg("pub.uncompress", Full, recode(ecc.UncompressPublicKey, ecc.CompressPublicKey))

	reg("ecdh", Full, func(a []string) (string, []string) {
		priv := eccBig(a[0])
		x, y, err := ecc.DeserializePoint(unhx(a[1]))
		if err != nil {
			return "err", nil
		}
		return "ok " + hx(ecc.SharedSecret(priv, x, y)), nil
	})
	reg("ecdh.sym", Full, func(a []string) (string, []string) {
		ka, kb := eccBig(a[0]), eccBig(a[1])
		ax, ay, e1 := ecc.DeserializePoint(ecc.GetPublicKeyUncompressed(eccB32(ka)))
		bx, by, e2 := ecc.DeserializePoint(ecc.GetPublicKeyCompressed(eccB32(kb)))
		if e1 != nil || e2 != nil {
			return "err", nil
		}
		s1 := ecc.SharedSecret(ka, bx, by)
		s2 := ecc.SharedSecret(kb, ax, ay)
		var direct []string
		if !bytes.Equal(s1, s2) {
			direct = append(direct, "ECDH is not symmetric: secret(a, bG) != secret(b, aG)")
		}
		return "ok " + hx(s1), direct
	})

	reg("sum.priv", Full, func(a []string) (string, []string) {
		keys := eccList(a[0])
		before := eccListStr(keys)
		allValid := true
		want := new(big.Int)
		for _, k := range keys {
			v := new(big.Int).SetBytes(k)
			if !eccValidScalar(v) {
				allValid = false
			}
			want.Add(want, v)
		}
		want.Mod(want, eccN)
		ans := safely(func() string {
			out, err := ecc.SumPrivateKeys(keys...)
			if err != nil {
				return "err"
			}
			return "ok " + hx(out)
		})
		var direct []string
		if eccListStr(keys) != before {
			direct = append(direct, "SumPrivateKeys modified a key")
		}
		if allValid && ans != "ok "+ecc32(want) {
			direct = append(direct, "sum of valid private keys is not the 32-byte scalar (Σ keys) mod n = "+ecc32(want)+" (got: "+ans+", "+lastPanicIf(ans)+")")
		}
		if !allValid && ans != "err" {
			direct = append(direct, "an invalid private key was not refused")
		}
		return ans, direct
	})
	reg("sum.pub", Full, func(a []string) (string, []string) {
		keys := eccList(a[0])
		out, err := ecc.SumPublicKeys(keys...)
		if err != nil {
			return "err", nil
		}
		return "ok " + hx(out), nil
	})
	reg("priv.new", Full, func(a []string) (string, []string) {
		k, err := ecc.NewPrivateKey(bytes.NewReader(unhx(a[0])))
		if err != nil {
			return "err", nil
		}
		var direct []string
		if len(k) != 32 || !eccValidScalar(new(big.Int).SetBytes(k)) {
			direct = append(direct, "NewPrivateKey returned a key outside [1, n-1] or not 32 bytes")
		}
		return "ok " + hx(k), direct
	})

	// ---- C05
	reg("ecdsa.verify", Full, eccVerifyOp)
	reg("ecdsa.verify.spec", Full, eccVerifyOp)
	reg("schnorr.verify", Full, eccSchnorrVerifyOp)
	reg("schnorr.verify.spec", Full, eccSchnorrVerifyOp)

	// ---- C04 (ecc part)
	reg("ecdsa.sign", Full, func(a []string) (string, []string) {
		k, h := unhx(a[0]), unhx(a[1])
		k0, h0 := append([]byte{}, k...), append([]byte{}, h...)
		r, s := ecc.SignECDSA(k, h)
		var direct []string
		if !bytes.Equal(k, k0) || !bytes.Equal(h, h0) {
			direct = append(direct, "SignECDSA modified an argument")
		}
		if !eccValidScalar(r) || !eccValidScalar(s) {
			direct = append(direct, "signature component outside [1, n-1]")
		}
		if s.Cmp(eccHalfN) > 0 {
			direct = append(direct, "s > n/2 (not low-S)")
		}
		for _, pub := range [][]byte{ecc.GetPublicKeyCompressed(k), ecc.GetPublicKeyUncompressed(k)} {
			if !ecc.VerifyECDSA(pub, h, r, s) {
				direct = append(direct, "the signature does not verify under the signer's public key")
			}
		}
		r2, s2 := ecc.SignECDSA(k, h)
		if r2.Cmp(r) != 0 || s2.Cmp(s) != 0 {
			direct = append(direct, "signing twice gave different signatures")
		}
		return "ok " + ecc32(r) + " " + ecc32(s), direct
	})
	reg("ecdsa.sign.ref", Full, func(a []string) (string, []string) {
		r, s := ecc.SignECDSA(unhx(a[0]), unhx(a[1]))
		retainBig(r, s)
		return "ok " + ecc32(r) + " " + ecc32(s), nil
	})
	reg("schnorr.sign", Full, func(a []string) (string, []string) {
		k, m, aux := unhx(a[0]), unhx(a[1]), unhx(a[2])
		k0, m0, aux0 := append([]byte{}, k...), append([]byte{}, m...), append([]byte{}, aux...)
		sig := ecc.SignSchnorr(k, m, aux)
		var direct []string
		if !bytes.Equal(k, k0) || !bytes.Equal(m, m0) || !bytes.Equal(aux, aux0) {
			direct = append(direct, "SignSchnorr modified an argument")
		}
		if len(sig) != 64 {
			direct = append(direct, "Schnorr signature is not 64 bytes")
		} else {
			pub := ecc.GetPublicKeySchnorr(k)
			if !ecc.VerifySchnorr(pub, m, sig) {
				direct = append(direct, "the Schnorr signature does not verify under the signer's x-only key")
			}
			if !bytes.Equal(ecc.SignSchnorr(k, m, aux), sig) {
				direct = append(direct, "signing twice gave different signatures")
			}
		}
		return "ok " + hx(sig), direct
	})
	reg("sig.encode", Full, func(a []string) (string, []string) {
		k, h := unhx(a[0]), unhx(a[1])
		ht64, err := strconv.ParseUint(a[2], 10, 32)
		if err != nil {
			return "bad-op", nil
		}
		sig, err := signer.SignSigHash(h, k, uint32(ht64))
		if err != nil {
			return "err", nil
		}
		var direct []string
		if len(sig) == 0 || sig[len(sig)-1] != byte(ht64) {
			direct = append(direct, "the last byte is not the requested hash type")
		}
		if !eccBip66(sig) {
			direct = append(direct, "SignSigHash output is not BIP66 strict DER")
		}
		r, s, ht, derr := der.DecodeSignature(append([]byte{}, sig...))
		if derr != nil {
			direct = append(direct, "SignSigHash output is rejected by der.DecodeSignature")
		} else {
			r0, s0 := ecc.SignECDSA(k, h)
			if r.Cmp(r0) != 0 || s.Cmp(s0) != 0 || uint64(ht) != ht64 {
				direct = append(direct, "decoding the encoded signature gives different (r, s, hash type)")
			}
			if s.Cmp(eccHalfN) > 0 {
				direct = append(direct, "encoded s > n/2")
			}
			if !ecc.VerifyECDSA(ecc.GetPublicKeyCompressed(k), h, r, s) {
				direct = append(direct, "the encoded signature does not verify")
			}
		}
		return "ok " + hx(sig), direct
	})
}

func lastPanicIf(ans string) string {
	if ans == "panic" {
		return "panic: " + lastPanic
	}
	return "no panic"
}

// ---------------------------------------------------------------------------------------------
// generators

// eccScalar draws a scalar of the named class as 32 bytes.
func (r *Runner) eccScalar(class int) []byte {
	v := new(big.Int)
	switch class % 6 {
	case 0, 1: // uniform in [1, n-1]
		v.SetBytes(r.bytesN(32))
		v.Mod(v, new(big.Int).Sub(eccN, eccOne))
		v.Add(v, eccOne)
	case 2: // small
		v.SetInt64(int64(1 + r.rng.Intn(1<<uint(1+r.rng.Intn(20)))))
	case 3: // near n
		v.Sub(eccN, big.NewInt(int64(1+r.rng.Intn(1<<uint(1+r.rng.Intn(16))))))
	case 4: // leading zero bytes
		nz := 1 + r.rng.Intn(31)
		b := r.bytesN(32)
		for i := 0; i < nz; i++ {
			b[i] = 0
		}
		v.SetBytes(b)
		if v.Sign() == 0 {
			v.SetInt64(1)
		}
	case 5: // a key whose public point has odd y
		for {
			v.SetBytes(r.bytesN(32))
			v.Mod(v, new(big.Int).Sub(eccN, eccOne))
			v.Add(v, eccOne)
			if ecc.GetPublicKeyCompressed(eccB32(v))[0] == 3 {
				break
			}
		}
	}
	return eccB32(v)
}

var eccEdgeScalars = func() [][]byte {
	var out [][]byte
	for _, d := range []int64{1, 2, 3} {
		out = append(out, eccB32(big.NewInt(d)))
	}
	for _, d := range []int64{1, 2, 3} {
		out = append(out, eccB32(new(big.Int).Sub(eccN, big.NewInt(d))))
	}
	out = append(out, eccB32(eccHalfN), eccB32(new(big.Int).Add(eccHalfN, eccOne)))
	return out
}()

func eccAdd(v *big.Int, d int64) *big.Int { return new(big.Int).Add(v, big.NewInt(d)) }

func runC06(r *Runner) string {
	// ---- public keys -------------------------------------------------------------------------
	for _, k := range eccEdgeScalars {
		for _, op := range []string{"pub.c", "pub.u", "pub.x"} {
			r.Do(op, []string{hx(k)}, "pub-edge", true, "edge scalar")
		}
	}
	nPub := r.N(360, 4000)
	for i := 0; i < nPub; i++ {
		k := r.eccScalar(i)
		op := []string{"pub.c", "pub.u", "pub.x"}[i%3]
		r.Do(op, []string{hx(k)}, "pub", true, "scalar class "+strconv.Itoa(i%6))
		if i%10 == 0 { // the same scalar without its leading zero bytes / with extra ones (ScalarBaseMult takes any length)
			v := new(big.Int).SetBytes(k)
			r.Do("pub.c", []string{hx(v.Bytes())}, "pub-short", true, "minimal-length scalar")
		}
	}
	// outside the relation: 0, n, n+1, 2^256-1 (and longer than 32 bytes: the windowed multiplication panics)
	for _, v := range []*big.Int{new(big.Int), eccN, eccAdd(eccN, 1), eccAdd(ecc2p256, -1)} {
		r.DoMode("pub.c", []string{hx(eccB32(v))}, "pub-outside", false, "", Full)
		r.DoMode("pub.u", []string{hx(eccB32(v))}, "pub-outside", false, "", Full)
		r.DoMode("pub.x", []string{hx(eccB32(v))}, "pub-outside", false, "", Full)
	}

	// ---- point decoding ----------------------------------------------------------------------
	dec := func(b []byte, tag string, nt bool) {
		r.Do("point.dec", []string{hx(b)}, tag, nt, tag)
		r.Do("point.dec.spec", []string{hx(b)}, tag+"-spec", false, "")
	}
	zero32 := make([]byte, 32)
	pB := eccB32(eccP)
	// fixed degenerate encodings (D8)
	dec(zero32, "dec-zero", true)
	dec(append([]byte{2}, zero32...), "dec-zero", true)
	dec(append([]byte{3}, zero32...), "dec-zero", true)
	dec(append(append([]byte{4}, zero32...), zero32...), "dec-zero", true)
	dec(append(append([]byte{4}, zero32...), eccB32(eccOne)...), "dec-zero", true)
	dec(append(append([]byte{4}, eccB32(eccOne)...), zero32...), "dec-zero", true)
	dec(pB, "dec-x=p", true)
	dec(append([]byte{2}, pB...), "dec-x=p", true)
	for l := 0; l <= 70; l++ {
		dec(r.bytesN(l), "dec-len", l == 32 || l == 33 || l == 65)
		b := make([]byte, l)
		dec(b, "dec-len-zero", false)
		if l > 0 {
			for _, pre := range []byte{2, 3, 4} {
				b := r.bytesN(l)
				b[0] = pre
				dec(b, "dec-len", l == 33 || l == 65)
			}
		}
	}
	nDec := r.N(250, 6000)
	for i := 0; i < nDec; i++ {
		k := r.eccScalar(i)
		u := ecc.GetPublicKeyUncompressed(k)
		c := ecc.GetPublicKeyCompressed(k)
		x := u[1:33]
		xv, yv := new(big.Int).SetBytes(u[1:33]), new(big.Int).SetBytes(u[33:])
		dec(c, "dec-valid-c", true)
		dec(u, "dec-valid-u", true)
		dec(x, "dec-valid-x", true)
		// the other root
		oy := new(big.Int).Sub(eccP, yv)
		dec(append(append([]byte{4}, x...), eccB32(oy)...), "dec-other-root", true)
		dec(append([]byte{c[0] ^ 1}, x...), "dec-other-root", true)
		// prefix substitution
		for _, pre := range []byte{0, 1, 2, 3, 4, 5, 6, 7, 0xff, byte(r.rng.Intn(256))} {
			dec(append([]byte{pre}, x...), "dec-prefix", true)
			dec(append([]byte{pre}, u[1:]...), "dec-prefix", true)
		}
		// coordinate mutation: one bit of x or of y
		bit := r.rng.Intn(256)
		mx := append([]byte{}, x...)
		mx[bit/8] ^= 1 << uint(bit%8)
		dec(mx, "dec-mut-x", true)
		dec(append([]byte{c[0]}, mx...), "dec-mut-x", true)
		dec(append(append([]byte{4}, mx...), u[33:]...), "dec-mut-x", true)
		my := append([]byte{}, u[33:]...)
		my[bit/8] ^= 1 << uint(bit%8)
		dec(append(append([]byte{4}, x...), my...), "dec-mut-y", true)
		// y + p (same residue, not reduced) when it fits, y = p - y + p …
		if yp := new(big.Int).Add(yv, eccP); yp.BitLen() <= 256 {
			dec(append(append([]byte{4}, x...), eccB32(yp)...), "dec-y>=p", true)
		}
		if xp := new(big.Int).Add(xv, eccP); xp.BitLen() <= 256 {
			dec(eccB32(xp), "dec-x>=p", true)
		}
		// truncated / extended valid encodings
		dec(c[:32], "dec-trunc", true)
		dec(append(append([]byte{}, c...), 0), "dec-ext", true)
		dec(u[:64], "dec-trunc", true)
		dec(append(append([]byte{}, u...), byte(i)), "dec-ext", true)
	}
	// x >= p with x - p a valid abscissa: small x values shifted by p (2^256 - p ≈ 2^32)
	for xs := int64(0); xs < int64(r.N(200, 3000)); xs++ {
		xv := big.NewInt(xs)
		dec(eccB32(xv), "dec-small-x", true)
		dec(append([]byte{2}, eccB32(xv)...), "dec-small-x", true)
		xp := new(big.Int).Add(xv, eccP)
		dec(eccB32(xp), "dec-x>=p", true)
		dec(append([]byte{3}, eccB32(xp)...), "dec-x>=p", true)
		// p - 1 - xs
		xq := new(big.Int).Sub(eccP, big.NewInt(1+xs))
		dec(eccB32(xq), "dec-near-p", true)
	}
	// random strings of the accepted lengths
	for i := 0; i < r.N(300, 5000); i++ {
		l := []int{32, 33, 65}[i%3]
		b := r.bytesN(l)
		if l == 33 {
			b[0] = 2 + byte(i&1)
		}
		if l == 65 {
			b[0] = 4
		}
		dec(b, "dec-random", true)
	}

	// ---- encoding, compress / uncompress -----------------------------------------------------
	nEnc := r.N(120, 3000)
	for i := 0; i < nEnc; i++ {
		k := r.eccScalar(i)
		u := ecc.GetPublicKeyUncompressed(k)
		c := ecc.GetPublicKeyCompressed(k)
		r.Do("point.enc", []string{hx(u[1:33]), hx(u[33:]), "cu"[i%2 : i%2+1]}, "enc", true, "valid point")
		for j, key := range [][]byte{c, u, u[1:33]} {
			if (i+j)%2 == 0 {
				r.Do("pub.compress", []string{hx(key)}, "compress", true, "valid key")
			} else {
				r.Do("pub.uncompress", []string{hx(key)}, "uncompress", true, "valid key")
			}
		}
		bad := append([]byte{}, c...)
		bad[1+r.rng.Intn(32)] ^= 1 << uint(r.rng.Intn(8))
		r.Do("pub.compress", []string{hx(bad)}, "compress-mut", true, "mutated key")
		r.Do("pub.uncompress", []string{hx(bad)}, "uncompress-mut", true, "mutated key")
		r.Do("pub.iscomp", []string{hx(c)}, "iscomp", false, "")
		r.Do("pub.iscomp", []string{hx(bad[:r.rng.Intn(34)])}, "iscomp", false, "")
		r.Do("pub.iscomp", []string{hx(append([]byte{byte(r.rng.Intn(6))}, u[1:33]...))}, "iscomp", false, "")
	}
	// invalid points handed to the serialiser (crypto/elliptic panics; (0,0) is let through)
	r.DoMode("point.enc", []string{"-", "-", "c"}, "enc-outside", false, "", Full)
	r.DoMode("point.enc", []string{"-", "-", "u"}, "enc-outside", false, "", Full)
	r.DoMode("point.enc", []string{"01", "01", "c"}, "enc-outside", false, "", Full)
	r.Do("pub.compress", []string{hx(append([]byte{2}, zero32...))}, "compress-zero", true, "x = 0")
	r.Do("pub.uncompress", []string{hx(zero32)}, "compress-zero", true, "x = 0")

	// ---- ECDH --------------------------------------------------------------------------------
	nDH := r.N(150, 1500)
	for i := 0; i < nDH; i++ {
		a, b := r.eccScalar(i), r.eccScalar(i/6)
		r.Do("ecdh.sym", []string{hx(a), hx(b)}, "ecdh-sym", true, "pair")
		var pub []byte
		switch i % 3 {
		case 0:
			pub = ecc.GetPublicKeyCompressed(b)
		case 1:
			pub = ecc.GetPublicKeyUncompressed(b)
		case 2:
			pub = ecc.GetPublicKeySchnorr(b)
		}
		r.Do("ecdh", []string{hx(a), hx(pub)}, "ecdh", true, "priv × encoded key")
	}
	for _, a := range eccEdgeScalars[:6] {
		for _, b := range eccEdgeScalars[:6] {
			r.Do("ecdh.sym", []string{hx(a), hx(b)}, "ecdh-edge", true, "edge pair")
		}
	}
	r.Do("ecdh", []string{hx(eccEdgeScalars[0]), hx(zero32)}, "ecdh-badkey", true, "x = 0 key")

	// ---- sums of private keys ----------------------------------------------------------------
	sumPriv := func(keys [][]byte, tag string) {
		r.Do("sum.priv", []string{eccListStr(keys)}, tag, true, tag)
	}
	sumPriv(nil, "sumpriv-empty")
	// partial sums that cancel: the result is a sum like any other (possibly zero), never a refusal
	for i := 0; i < r.N(6, 40); i++ {
		a := r.eccScalar(i)
		na := eccB32(new(big.Int).Sub(eccN, new(big.Int).SetBytes(a)))
		b := r.eccScalar(i + 1)
		sumPriv([][]byte{a, na}, "sumpriv-cancelling")
		sumPriv([][]byte{a, na, b}, "sumpriv-cancelling")
		sumPriv([][]byte{b, a, na}, "sumpriv-cancelling")
		sumPriv([][]byte{eccB32(big.NewInt(1)), eccB32(big.NewInt(1)), eccB32(new(big.Int).Sub(eccN, big.NewInt(2)))}, "sumpriv-cancelling")
	}
	for _, a := range eccEdgeScalars {
		sumPriv([][]byte{a}, "sumpriv-edge")
		for _, b := range eccEdgeScalars {
			sumPriv([][]byte{a, b}, "sumpriv-edge")
			sumPriv([][]byte{a, b, eccEdgeScalars[3]}, "sumpriv-edge")
		}
	}
	nSum := r.N(1500, 40000)
	for i := 0; i < nSum; i++ {
		cnt := 1 + r.rng.Intn(4)
		keys := make([][]byte, cnt)
		for j := range keys {
			keys[j] = r.eccScalar(r.rng.Intn(5)) // classes 0..4 (no curve work)
		}
		switch i % 5 {
		case 0: // a pair that sums to exactly n or n±1
			v := new(big.Int).SetBytes(keys[0])
			w := new(big.Int).Sub(eccN, v)
			w.Add(w, big.NewInt(int64(r.rng.Intn(3)-1)))
			if eccValidScalar(w) {
				keys = [][]byte{keys[0], eccB32(w)}
			}
			sumPriv(keys, "sumpriv-wrap")
		case 1: // large keys: sum >= 2^256
			for j := range keys {
				keys[j] = eccB32(new(big.Int).Sub(eccN, big.NewInt(int64(1+r.rng.Intn(1000)))))
			}
			sumPriv(keys, "sumpriv-big")
		default:
			sumPriv(keys, "sumpriv")
		}
		if i%7 == 0 { // one invalid member
			bad := [][]byte{zero32, eccB32(eccN), eccB32(eccAdd(eccN, 1)), eccB32(eccAdd(ecc2p256, -1)), {}, append([]byte{1}, zero32...), r.bytesN(33)}[r.rng.Intn(7)]
			pos := r.rng.Intn(len(keys))
			keys[pos] = bad
			sumPriv(keys, "sumpriv-invalid")
		}
		if i%11 == 0 { // valid value in a non-32-byte spelling
			v := new(big.Int).SetBytes(keys[0])
			keys[0] = v.Bytes()
			sumPriv(keys, "sumpriv-short")
			keys[0] = append([]byte{0, 0}, keys[0]...)
			sumPriv(keys, "sumpriv-long")
		}
	}

	// ---- sums of x-only public keys ----------------------------------------------------------
	sumPub := func(keys [][]byte, tag string) {
		r.Do("sum.pub", []string{eccListStr(keys)}, tag, true, tag)
	}
	sumPub(nil, "sumpub-empty")
	// longer lists (a pool of co-signers): 9 … 17 and 33 keys
	for _, n := range []int{9, 10, 11, 13, 14, 15, 17, 33} {
		keys := make([][]byte, n)
		for j := range keys {
			keys[j] = ecc.GetPublicKeySchnorr(r.eccScalar(n + j))
		}
		sumPub(keys, "sumpub-many")
	}
	nSP := r.N(150, 1500)
	for i := 0; i < nSP; i++ {
		cnt := 1 + r.rng.Intn(3)
		keys := make([][]byte, cnt)
		for j := range keys {
			keys[j] = ecc.GetPublicKeySchnorr(r.eccScalar(i + j))
		}
		sumPub(keys, "sumpub")
		switch i % 6 {
		case 0: // doubling
			sumPub([][]byte{keys[0], keys[0]}, "sumpub-double")
		case 1: // P + P + lift(x(2P)): infinity when -2P has even y
			x, y, _ := ecc.DeserializePoint(keys[0])
			dx, _ := ecc.Curve.Double(x, y)
			sumPub([][]byte{keys[0], keys[0], eccB32(dx)}, "sumpub-maybe-infinity")
		case 2: // invalid member
			bad := [][]byte{zero32, pB, r.bytesN(32), r.bytesN(33), ecc.GetPublicKeyCompressed(r.eccScalar(0)), {}}[r.rng.Intn(6)]
			keys[r.rng.Intn(len(keys))] = bad
			sumPub(keys, "sumpub-invalid")
		}
	}

	// ---- NewPrivateKey over a byte stream ----------------------------------------------------
	nNew := r.N(200, 4000)
	ff := bytes.Repeat([]byte{0xff}, 32)
	for i := 0; i < nNew; i++ {
		var s []byte
		switch i % 6 {
		case 0:
			s = r.bytesN(32)
		case 1:
			s = r.bytesN(r.rng.Intn(70))
		case 2: // rejected first draw(s)
			for j := 0; j < 1+r.rng.Intn(3); j++ {
				s = append(s, ff...)
			}
			s = append(s, r.bytesN(r.rng.Intn(40))...)
		case 3: // boundary: n-3, n-2 (accepted: result n-2, n-1), n-1, n (rejected)
			s = append(eccB32(eccAdd(eccN, int64(-3+r.rng.Intn(4)))), r.bytesN(32)...)
		case 4:
			s = append(make([]byte, 32), r.bytesN(5)...)
		case 5:
			s = r.eccScalar(i)
		}
		r.Do("priv.new", []string{hx(s)}, "privnew", len(s) >= 32, "stream")
	}

	return "scalars: uniform in [1,n-1], small (< 2^20), near n, 1..31 leading zero bytes, odd-y keys, fixed edge values {1,2,3,n-1,n-2,n-3,(n-1)/2,(n+1)/2}; " +
		"encodings: the three encodings of generated keys with prefix substitution (00..07, ff, random), single-bit mutation of x and y, the other root, y+p / x+p when they fit, " +
		"x = 0 and y = 0 in every arm, x in [0,200) and x+p, p-1-x, every length 0..70 (random, zero, prefixed), truncations and extensions, random 32/33/65-byte strings; " +
		"every decode case is also compared with the independent strict parser (point.dec.spec); sums: 1..4 private keys incl. pairs summing to n-1, n, n+1 and tuples with sum >= 2^256, one invalid member (0, n, n+1, 2^256-1, empty, 33 bytes), short/long spellings; " +
		"1..3 x-only keys incl. doubling and P+P+lift(x(2P)) (infinity), invalid members; ECDH pairs over all scalar classes and the three key encodings; NewPrivateKey over byte streams (boundary draws n-3..n, rejected all-ff draws, short streams). " +
		"non-trivial = the case involves a generated (non-fixture) key or reaches the length switch of the decoder; distinct = hash of the request line"
}

// ---------------------------------------------------------------------------------------------
// C05

var eccEdgeSubst = func() []*big.Int {
	return []*big.Int{new(big.Int), big.NewInt(1), eccAdd(eccN, -1), eccN, eccAdd(eccN, 1), eccAdd(eccP, -1), eccP, eccAdd(ecc2p256, -1)}
}()

// eccDigest draws a 32-byte digest: uniform, all-zero, all-ones, values >= n.
func (r *Runner) eccDigest(class int) []byte {
	switch class % 8 {
	case 0:
		return make([]byte, 32)
	case 1:
		return bytes.Repeat([]byte{0xff}, 32)
	case 2:
		return eccB32(eccAdd(eccN, int64(r.rng.Intn(3))))
	case 3:
		return eccB32(new(big.Int).Add(eccN, new(big.Int).SetBytes(r.bytesN(15))))
	}
	return r.bytesN(32)
}

func eccFlipBit(b []byte, bit int) []byte {
	out := append([]byte{}, b...)
	out[bit/8] ^= 1 << uint(bit%8)
	return out
}

func (r *Runner) eccSetByte(b []byte) []byte {
	out := append([]byte{}, b...)
	i := r.rng.Intn(len(out))
	out[i] ^= byte(1 + r.rng.Intn(255))
	return out
}

// both the model and the independent reference are asked about every case
func (r *Runner) eccVerify(pub, h []byte, rr, ss *big.Int, tag string, valid bool) {
	args := []string{hx(pub), hx(h), hx(rr.Bytes()), hx(ss.Bytes())}
	ans, _ := eval("ecdsa.verify", args)
	if !valid && strings.Contains(tag, "-key") && new(big.Int).Mod(new(big.Int).SetBytes(h), eccN).Sign() == 0 {
		// z ≡ 0: the signature is also valid for −P, which a key mutation may hit (02 <-> 03); no expectation
		r.Do("ecdsa.verify", args, tag, true, tag)
		r.Do("ecdsa.verify.spec", args, tag+"-spec", false, "")
		return
	}
	nt := valid || ans == "ok false"
	r.Do("ecdsa.verify", args, tag, nt, tag)
	r.Do("ecdsa.verify.spec", args, tag+"-spec", false, "")
	if valid && ans != "ok true" {
		r.addFailure(Failure{Kind: "property", Op: "ecdsa.verify", Args: args, Go: ans, Detail: "an honestly produced signature (or its high-S twin) is not accepted", Tag: tag}, false)
	}
	if !valid && ans == "ok true" {
		r.addFailure(Failure{Kind: "property", Op: "ecdsa.verify", Args: args, Go: ans, Detail: "a triple that is invalid by construction (" + tag + ") is accepted", Tag: tag}, false)
	}
}

func (r *Runner) eccSchnorrVerify(pub, m, sig []byte, tag string, valid bool) {
	args := []string{hx(pub), hx(m), hx(sig)}
	ans, _ := eval("schnorr.verify", args)
	nt := valid || ans == "ok false"
	r.Do("schnorr.verify", args, tag, nt, tag)
	r.Do("schnorr.verify.spec", args, tag+"-spec", false, "")
	if valid && ans != "ok true" {
		r.addFailure(Failure{Kind: "property", Op: "schnorr.verify", Args: args, Go: ans, Detail: "an honestly produced Schnorr signature is not accepted", Tag: tag}, false)
	}
	if !valid && ans == "ok true" {
		r.addFailure(Failure{Kind: "property", Op: "schnorr.verify", Args: args, Go: ans, Detail: "a triple that is invalid by construction (" + tag + ") is accepted", Tag: tag}, false)
	}
}

// BIP340 tagged hash, written from the BIP text (crypto/sha256 only)
func eccTagged(tag string, chunks ...[]byte) []byte {
	th := sha256.Sum256([]byte(tag))
	h := sha256.New()
	h.Write(th[:])
	h.Write(th[:])
	for _, c := range chunks {
		h.Write(c)
	}
	return h.Sum(nil)
}

// eccSchnorrOddR signs like BIP340 but with a nonce whose point R has ODD y (and without negating
// it): s·G − e·P = R, so only the "R has even y" test of the verifier rejects it.
func (r *Runner) eccSchnorrOddR(k, m []byte) []byte {
	d := new(big.Int).SetBytes(k)
	c := ecc.GetPublicKeyCompressed(k)
	if c[0] == 3 {
		d.Sub(eccN, d)
	}
	for {
		kn := r.eccScalar(0)
		rc := ecc.GetPublicKeyCompressed(kn)
		if rc[0] != 3 {
			continue
		}
		e := new(big.Int).SetBytes(eccTagged("BIP0340/challenge", rc[1:], c[1:], m))
		e.Mod(e, eccN)
		sv := new(big.Int).Mul(e, d)
		sv.Add(sv, new(big.Int).SetBytes(kn)).Mod(sv, eccN)
		return append(append([]byte{}, rc[1:]...), eccB32(sv)...)
	}
}

// a signature that satisfies the BIP340 equation when the challenge is computed over `enc` instead of the
// 32-byte key (enc: another encoding of the key); the nonce point has even y
func (r *Runner) eccSchnorrOverEncoding(k, m, enc []byte) []byte {
	d := new(big.Int).SetBytes(k)
	c := ecc.GetPublicKeyCompressed(k)
	if c[0] == 3 {
		d.Sub(eccN, d)
	}
	for {
		kn := r.eccScalar(0)
		rc := ecc.GetPublicKeyCompressed(kn)
		if rc[0] != 2 {
			continue
		}
		e := new(big.Int).SetBytes(eccTagged("BIP0340/challenge", rc[1:], enc, m))
		e.Mod(e, eccN)
		sv := new(big.Int).Mul(e, d)
		sv.Add(sv, new(big.Int).SetBytes(kn)).Mod(sv, eccN)
		return append(append([]byte{}, rc[1:]...), eccB32(sv)...)
	}
}

// r = 0 and s = e·d: s·G − e·P is the point at infinity
func eccSchnorrInfiniteR(k, m []byte) []byte {
	d := new(big.Int).SetBytes(k)
	c := ecc.GetPublicKeyCompressed(k)
	if c[0] == 3 {
		d.Sub(eccN, d)
	}
	zero := make([]byte, 32)
	e := new(big.Int).SetBytes(eccTagged("BIP0340/challenge", zero, c[1:], m))
	e.Mod(e, eccN)
	sv := new(big.Int).Mul(e, d)
	sv.Mod(sv, eccN)
	return append(zero, eccB32(sv)...)
}

func runC05(r *Runner) string {
	// the other exported functions of the package once, before any verification (package-level values they
	// share with the verifiers must come out unchanged)
	r.Do("sum.priv", []string{hx(r.eccScalar(1)) + "," + hx(r.eccScalar(2))}, "warm-up: SumPrivateKeys before verifying", true, "")

	zero32 := make([]byte, 32)
	degenerate := [][]byte{
		{0x00}, // SEC 1's one-byte encoding of the point at infinity: not a public key
		append([]byte{2}, zero32...), append([]byte{3}, zero32...),
		append(append([]byte{4}, zero32...), zero32...), zero32,
	}

	// ---- ECDSA -------------------------------------------------------------------------------
	nTriples := r.N(10, 150)
	for i := 0; i < nTriples; i++ {
		k := r.eccScalar(i)
		if i < len(eccEdgeScalars) {
			k = eccEdgeScalars[i]
		}
		h := r.eccDigest(i)
		rr, ss := ecc.SignECDSA(k, h)
		pubs := [][]byte{ecc.GetPublicKeyCompressed(k), ecc.GetPublicKeyUncompressed(k)}
		pub := pubs[i%2]
		for _, pb := range pubs {
			r.eccVerify(pb, h, rr, ss, "ecdsa-valid", true)
		}
		// the documented high-S twin
		r.eccVerify(pub, h, rr, new(big.Int).Sub(eccN, ss), "ecdsa-highS", true)
		// with z ≡ 0 (mod n) a signature is valid for P and for −P alike (u1 = 0, R' = −R has the same x)
		zZero := new(big.Int).Mod(new(big.Int).SetBytes(h), eccN).Sign() == 0
		// x-only spelling of the key (accepted by DeserializePoint: even-y lift)
		r.eccVerify(pubs[0][1:], h, rr, ss, "ecdsa-xonly-key", pubs[0][0] == 2 || zZero)
		// single-bit mutations of each component (sampled in quick, all 256 per component in thorough on a subset)
		nb := r.N(5, 24)
		for j := 0; j < nb; j++ {
			bit := r.rng.Intn(256)
			r.eccVerify(pub, h, new(big.Int).SetBytes(eccFlipBit(eccB32(rr), bit)), ss, "ecdsa-bit-r", false)
			r.eccVerify(pub, h, rr, new(big.Int).SetBytes(eccFlipBit(eccB32(ss), bit)), "ecdsa-bit-s", false)
			r.eccVerify(pub, eccFlipBit(h, bit), rr, ss, "ecdsa-bit-msg", false)
			r.eccVerify(eccFlipBit(pub, r.rng.Intn(8*len(pub))), h, rr, ss, "ecdsa-bit-key", false)
		}
		// single-byte mutations
		for j := 0; j < r.N(2, 8); j++ {
			r.eccVerify(pub, h, new(big.Int).SetBytes(r.eccSetByte(eccB32(rr))), ss, "ecdsa-byte-r", false)
			r.eccVerify(pub, h, rr, new(big.Int).SetBytes(r.eccSetByte(eccB32(ss))), "ecdsa-byte-s", false)
			r.eccVerify(pub, r.eccSetByte(h), rr, ss, "ecdsa-byte-msg", false)
			r.eccVerify(r.eccSetByte(pub), h, rr, ss, "ecdsa-byte-key", false)
		}
		// substituted edge scalars
		for _, e := range eccEdgeSubst {
			r.eccVerify(pub, h, e, ss, "ecdsa-edge-r", false)
			r.eccVerify(pub, h, rr, e, "ecdsa-edge-s", false)
		}
		r.eccVerify(pub, h, new(big.Int).Add(rr, eccN), ss, "ecdsa-r+n", false)
		r.eccVerify(pub, h, rr, new(big.Int).Add(ss, eccN), "ecdsa-s+n", false)
		// malformed keys
		x, y := pubs[1][1:33], pubs[1][33:]
		for _, pre := range []byte{0, 1, 5, 6, 7, 0xff} {
			r.eccVerify(append([]byte{pre}, x...), h, rr, ss, "ecdsa-key-prefix", false)
			r.eccVerify(append([]byte{pre}, pubs[1][1:]...), h, rr, ss, "ecdsa-key-prefix", false)
		}
		r.eccVerify(append([]byte{pubs[0][0] ^ 1}, x...), h, rr, ss, "ecdsa-key-other-root", zZero)
		r.eccVerify(append(append([]byte{4}, x...), eccB32(new(big.Int).Sub(eccP, new(big.Int).SetBytes(y)))...), h, rr, ss, "ecdsa-key-other-root", zZero)
		r.eccVerify(pubs[0][:32], h, rr, ss, "ecdsa-key-trunc", false)
		r.eccVerify(append(append([]byte{}, pubs[1]...), 0), h, rr, ss, "ecdsa-key-ext", false)
		if xp := new(big.Int).Add(new(big.Int).SetBytes(x), eccP); xp.BitLen() <= 256 {
			r.eccVerify(append([]byte{pubs[0][0]}, eccB32(xp)...), h, rr, ss, "ecdsa-key-x>=p", false)
		}
		if i < 3 {
			for l := 0; l <= 70; l++ {
				r.eccVerify(r.bytesN(l), h, rr, ss, "ecdsa-key-len", false)
			}
		}
		// algebraic forgeries for the degenerate keys: any s, r = x((z/s)·G) mod n  (all accepted before D8)
		z := new(big.Int).SetBytes(h)
		fs := new(big.Int).SetBytes(r.eccScalar(0))
		u1 := new(big.Int).ModInverse(fs, eccN)
		u1.Mul(u1, z).Mod(u1, eccN)
		if u1.Sign() != 0 {
			fx, _ := ecc.Curve.ScalarBaseMult(eccB32(u1))
			fr := new(big.Int).Mod(fx, eccN)
			for _, dk := range degenerate {
				r.eccVerify(dk, h, fr, fs, "ecdsa-forged-degenerate", false)
			}
			// the same signature under a real key must fail too
			r.eccVerify(pub, h, fr, fs, "ecdsa-forged-realkey", false)
		}
		// signature of another key / another message
		k2 := r.eccScalar(i + 1)
		r.eccVerify(ecc.GetPublicKeyCompressed(k2), h, rr, ss, "ecdsa-other-key", false)
	}

	// ---- Schnorr -----------------------------------------------------------------------------
	nS := r.N(10, 150)
	for i := 0; i < nS; i++ {
		k := r.eccScalar(i)
		if i < len(eccEdgeScalars) {
			k = eccEdgeScalars[i]
		}
		m := r.eccDigest(i)
		aux := r.eccDigest(i + 4)
		sig := ecc.SignSchnorr(k, m, aux)
		pub := ecc.GetPublicKeySchnorr(k)
		r.eccSchnorrVerify(pub, m, sig, "schnorr-valid", true)
		nb := r.N(6, 24)
		for j := 0; j < nb; j++ {
			bit := r.rng.Intn(256)
			r.eccSchnorrVerify(eccFlipBit(pub, bit), m, sig, "schnorr-bit-key", false)
			r.eccSchnorrVerify(pub, eccFlipBit(m, bit), sig, "schnorr-bit-msg", false)
			r.eccSchnorrVerify(pub, m, eccFlipBit(sig, bit), "schnorr-bit-r", false)
			r.eccSchnorrVerify(pub, m, eccFlipBit(sig, 256+bit), "schnorr-bit-s", false)
		}
		for j := 0; j < r.N(2, 8); j++ {
			r.eccSchnorrVerify(r.eccSetByte(pub), m, sig, "schnorr-byte-key", false)
			r.eccSchnorrVerify(pub, r.eccSetByte(m), sig, "schnorr-byte-msg", false)
			r.eccSchnorrVerify(pub, m, r.eccSetByte(sig), "schnorr-byte-sig", false)
		}
		for _, e := range eccEdgeSubst {
			r.eccSchnorrVerify(pub, m, append(eccB32(e), sig[32:]...), "schnorr-edge-r", false)
			r.eccSchnorrVerify(pub, m, append(append([]byte{}, sig[:32]...), eccB32(e)...), "schnorr-edge-s", false)
			r.eccSchnorrVerify(eccB32(e), m, sig, "schnorr-edge-key", false)
		}
		// s + n and r + p when they fit in 32 bytes
		if sp := new(big.Int).Add(new(big.Int).SetBytes(sig[32:]), eccN); sp.BitLen() <= 256 {
			r.eccSchnorrVerify(pub, m, append(append([]byte{}, sig[:32]...), eccB32(sp)...), "schnorr-s+n", false)
		}
		if rp := new(big.Int).Add(new(big.Int).SetBytes(sig[:32]), eccP); rp.BitLen() <= 256 {
			r.eccSchnorrVerify(pub, m, append(eccB32(rp), sig[32:]...), "schnorr-r+p", false)
		}
		// negated s (the signature for -R), keys of other lengths / encodings
		ns := new(big.Int).Sub(eccN, new(big.Int).SetBytes(sig[32:]))
		r.eccSchnorrVerify(pub, m, append(append([]byte{}, sig[:32]...), eccB32(ns)...), "schnorr-neg-s", false)
		r.eccSchnorrVerify(ecc.GetPublicKeyCompressed(k), m, sig, "schnorr-key-33", false)
		r.eccSchnorrVerify(ecc.GetPublicKeyUncompressed(k), m, sig, "schnorr-key-65", false)
		if i < 3 {
			for l := 0; l <= 70; l++ {
				if l != 32 {
					r.eccSchnorrVerify(r.bytesN(l), m, sig, "schnorr-key-len", false)
				}
			}
		}
		// forgery for the all-zero key: x(s·G) || s with s·G of even y (accepted before D8)
		for {
			fs := r.eccScalar(0)
			c := ecc.GetPublicKeyCompressed(fs)
			if c[0] == 2 {
				r.eccSchnorrVerify(zero32, m, append(append([]byte{}, c[1:]...), fs...), "schnorr-forged-degenerate", false)
				r.eccSchnorrVerify(pub, m, append(append([]byte{}, c[1:]...), fs...), "schnorr-forged-realkey", false)
				break
			}
		}
		r.eccSchnorrVerify(ecc.GetPublicKeySchnorr(r.eccScalar(i+1)), m, sig, "schnorr-other-key", false)
		// a signature made with the private key but with an odd-y nonce point
		r.eccSchnorrVerify(pub, m, r.eccSchnorrOddR(k, m), "schnorr-odd-R", false)
		// the nonce point at infinity; signatures whose challenge is computed over the 33- / 65-byte encoding,
		// presented with that encoding as the key
		r.eccSchnorrVerify(pub, m, eccSchnorrInfiniteR(k, m), "schnorr-infinite-R", false)
		for _, enc := range [][]byte{ecc.GetPublicKeyCompressed(k), ecc.GetPublicKeyUncompressed(k)} {
			r.eccSchnorrVerify(enc, m, r.eccSchnorrOverEncoding(k, m, enc), "schnorr-challenge-over-long-key", false)
		}
	}

	return "valid triples: keys over all scalar classes and the edge scalars {1,2,3,n-1,n-2,n-3,(n-1)/2,(n+1)/2}, digests uniform / all-zero / all-ones / >= n, signatures made by the library; " +
		"for each triple: both key encodings, the x-only spelling, the high-S twin, single-bit mutations (sampled) and single-byte mutations of r, s, message and key, " +
		"substituted scalars {0,1,n-1,n,n+1,p-1,p,2^256-1} for r, s (and the Schnorr key), r+n / s+n / r+p, hybrid and invalid key prefixes, the other root, truncated / extended keys, x+p, every key length 0..70, " +
		"Schnorr signatures made with the key but an odd-y nonce point, algebraically forged signatures for the degenerate keys 02/03/04/x-only 00..00 (r = x((z/s)G) mod n; x(sG)||s) and the same under a real key, signatures of other keys; every case is asked of the model (ecdsa.verify / schnorr.verify) and of the reference verifiers (.spec = Spec/ECC.lean and Prim agree); " +
		"non-trivial = valid triple, or a mutated triple that the reference rejects; distinct = hash of the request line"
}

// ---------------------------------------------------------------------------------------------
// C04 (ecc part; the transaction-signing helpers are in signer.go)

func runC04(r *Runner) string {
	nSign := r.N(360, 5000)
	for i := 0; i < nSign; i++ {
		k := r.eccScalar(i)
		if i < len(eccEdgeScalars) {
			k = eccEdgeScalars[i]
		}
		h := r.eccDigest(i / 2)
		r.Do("ecdsa.sign", []string{hx(k), hx(h)}, "ecdsa-sign", true, "key class "+strconv.Itoa(i%6))
		if i%4 == 0 { // the same against Prim.ecdsaSign directly (no model code in between)
			r.Do("ecdsa.sign.ref", []string{hx(k), hx(h)}, "ecdsa-sign-ref", false, "")
		}
	}
	// every edge scalar with every special digest
	for _, k := range eccEdgeScalars {
		for c := 0; c < 4; c++ {
			r.Do("ecdsa.sign", []string{hx(k), hx(r.eccDigest(c))}, "ecdsa-sign-edge", true, "edge")
		}
	}
	nSch := r.N(360, 5000)
	for i := 0; i < nSch; i++ {
		k := r.eccScalar(i)
		if i < len(eccEdgeScalars) {
			k = eccEdgeScalars[i]
		}
		r.Do("schnorr.sign", []string{hx(k), hx(r.eccDigest(i / 3)), hx(r.eccDigest(i/2 + 5))}, "schnorr-sign", true, "key class "+strconv.Itoa(i%6))
	}
	for _, k := range eccEdgeScalars {
		for c := 0; c < 4; c++ {
			r.Do("schnorr.sign", []string{hx(k), hx(r.eccDigest(c)), hx(r.eccDigest(c + 1))}, "schnorr-sign-edge", true, "edge")
		}
	}
	hashTypes := []uint32{1, 2, 3, 0x81, 0x82, 0x83}
	nEnc := r.N(240, 4000)
	for i := 0; i < nEnc; i++ {
		k := r.eccScalar(i)
		ht := hashTypes[i%6]
		r.Do("sig.encode", []string{hx(k), hx(r.eccDigest(i)), strconv.Itoa(int(ht))}, "sig-encode", true, "hash type")
		if i%10 == 0 {
			other := []uint32{0, 4, 0x80, 0xff, 0x100, 0x101, 0xffffffff}[r.rng.Intn(7)]
			r.Do("sig.encode", []string{hx(k), hx(r.eccDigest(i)), strconv.FormatUint(uint64(other), 10)}, "sig-encode-otherht", true, "unusual hash type")
		}
	}
	runC04Signer(r)
	return "keys: uniform in [1,n-1], small, near n, 1..31 leading zero bytes, odd-y keys, edge scalars {1,2,3,n-1,n-2,n-3,(n-1)/2,(n+1)/2}; digests: uniform, all-zero, all-ones, n, n+1, n+2, n+random; aux: same classes; " +
		"ecdsa.sign / schnorr.sign are compared with the RFC 6979 / BIP340 model (independent HMAC-SHA256 DRBG and curve) and checked directly (verifies under both key encodings, low-S, range, determinism); sig.encode over the six standard hash types and unusual ones (0, 4, 0x80, 0xff, > 0xff) is compared with the model's DER encoder and checked against BIP66 + decode round trip; " +
		"transactions: see signer cases; non-trivial = non-fixture key; distinct = hash of the request line"
}
