package main

// Warm-up: before a property's own cases, every function of the packages the property is about (as far as
// the C18 rig can call it: functions and methods with byte-slice arguments) is called once or twice with
// ordinary arguments. The answers are not looked at. A function that leaves package-level state behind —
// a shared big.Int used as an accumulator, a pool it puts something into twice, a cache — then shows in
// the cases that follow, where every answer is compared with the model and the references.

import (
	"math/rand"
	"sort"
	"strings"
)

var warmPackages = map[string][]string{
	"C01": {"tx.", "blocks.", "blocks/", "varint."},
	"C02": {"tx.", "blocks.", "blocks/", "varint."},
	"C03": {"tx.", "script.", "bhash."},
	"C04": {"ecc.", "der.", "signer."},
	"C05": {"ecc."},
	"C06": {"ecc."},
	"C07": {"bip32.", "ecc."},
	"C08": {"base58.", "base58check.", "bech32."},
	"C09": {"address.", "bech32.", "base58check."},
	"C10": {"wif.", "bip32."},
	"C11": {"der."},
	"C12": {"script."},
	"C13": {"taproot.", "script.", "bhash.", "ecc."},
	"C14": {"bip39."},
	"C15": {"unspent.", "feecalc.", "satutil."},
	"C20": {"bhash."},
}

func (r *Runner) warmUp(prop string) {
	prefixes := warmPackages[prop]
	if len(prefixes) == 0 {
		return
	}
	saved := r.rng
	r.rng = rand.New(rand.NewSource(r.res.Seed*7907 + 13)) // the property's own generators keep their stream
	defer func() { r.rng = saved }()
	funcs := append([]bufFuncEntry(nil), bufFuncs...)
	sort.Slice(funcs, func(i, j int) bool { return funcs[i].Name < funcs[j].Name })
	for i := range funcs {
		fn := &funcs[i]
		ok := false
		for _, p := range prefixes {
			if strings.HasPrefix(fn.Name, p) {
				ok = true
			}
		}
		if !ok {
			continue
		}
		tuples, msg := r.bufTuples(fn, 2)
		if msg != "" {
			continue
		}
		for _, tuple := range tuples {
			args := append([]string{fn.Name, "sep", "0"}, tuple...)
			ans, _ := eval("buf.call", args)
			r.res.Evaluations++
			r.res.Distribution["warm-up: the other functions of the property's packages, once"]++
			r.res.Classes[classOf(ans)]++
		}
	}
}
