package main

import (
	"os"
	"path/filepath"

	"golang.org/x/tools/go/packages"
)

// genSSA emits the T4 facts for C18 (the C19 access table is emitted by genAccess):
//
//	<harness>/gen_buffers.go          the listing of exported byte-slice functions (buflist.go)
//	<lean>/BufferProgs.lean           the buffer-operation IR of every function (bufir.go)
//	<out>/buffer_ir.json              notes for the evidence (havoc'd functions, retAlias, …)
func genSSA(pkgs []*packages.Package, leanDir, outDir string) {
	harnessDir := filepath.Join(filepath.Dir(filepath.Clean(outDir)), "harness")
	if st, err := os.Stat(filepath.Join(harnessDir, "go.mod")); err == nil && !st.IsDir() {
		writeIfChanged(filepath.Join(harnessDir, "gen_buffers.go"), genBufList(pkgs))
	}
	genBufIR(pkgs, leanDir, outDir)
}
