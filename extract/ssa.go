package main

import "golang.org/x/tools/go/packages"

// genSSA emits the T4 facts (buffer-operation summaries and the package-level access table).
func genSSA(pkgs []*packages.Package, leanDir, outDir string) {}
