package main

// T4 for C19: the post-initialisation access table of package-level state.
//
// For every function of the program (the repository's modules and the kklash dependencies) an
// SSA-based summary says through which parameters it may write (field / element / map stores and
// mutating *big.Int methods, propagated over static and interface calls to a fixpoint). Every
// access to a package-level variable outside package initialisation, and every access to a field of
// rpc.Connection (the one type documented as shareable), becomes a row of
// lean/BtcVerif/Gen/AccessTable.lean; `BtcVerif.Props.C19.lib_race_free` evaluates the discipline
// (written only during init, or every access under the same mutex) on the regenerated table.

import (
	"fmt"
	"go/token"
	"go/types"
	"path/filepath"
	"sort"
	"strings"

	"golang.org/x/tools/go/packages"
	"golang.org/x/tools/go/ssa"
	"golang.org/x/tools/go/ssa/ssautil"
)

// read-only methods of *big.Int (receiver not modified)
var bigReadOnly = map[string]bool{
	"Cmp": true, "CmpAbs": true, "Sign": true, "Bit": true, "BitLen": true, "Bytes": true, "FillBytes": true,
	"Int64": true, "Uint64": true, "IsInt64": true, "IsUint64": true, "String": true, "Text": true, "Append": true,
	"Format": true, "ProbablyPrime": true, "TrailingZeroBits": true, "Bits": true, "Float64": true,
	"MarshalText": true, "MarshalJSON": true, "GobEncode": true,
}

type rootKind int

const (
	rootOther rootKind = iota
	rootParam
	rootGlobal
	rootFresh
)

type root struct {
	kind  rootKind
	param int
	glob  *ssa.Global
	field string // first field selected below the root (for rpc.Connection rows)
}

func inScope(path string) bool {
	return strings.HasPrefix(path, "github.com/kklash/")
}

func rootsOf(v ssa.Value, seen map[ssa.Value]bool, field string) []root {
	if seen[v] {
		return nil
	}
	seen[v] = true
	switch x := v.(type) {
	case *ssa.Parameter:
		for i, p := range x.Parent().Params {
			if p == x {
				return []root{{kind: rootParam, param: i, field: field}}
			}
		}
	case *ssa.Global:
		return []root{{kind: rootGlobal, glob: x, field: field}}
	case *ssa.Alloc, *ssa.MakeSlice, *ssa.MakeMap, *ssa.MakeChan:
		return []root{{kind: rootFresh}}
	case *ssa.FieldAddr:
		f := x.X.Type().Underlying().(*types.Pointer).Elem().Underlying().(*types.Struct).Field(x.Field).Name()
		return rootsOf(x.X, seen, f)
	case *ssa.Field:
		return rootsOf(x.X, seen, field)
	case *ssa.IndexAddr:
		return rootsOf(x.X, seen, field)
	case *ssa.Index:
		return rootsOf(x.X, seen, field)
	case *ssa.UnOp:
		if x.Op == token.MUL {
			return rootsOf(x.X, seen, field)
		}
	case *ssa.Slice:
		return rootsOf(x.X, seen, field)
	case *ssa.ChangeType:
		return rootsOf(x.X, seen, field)
	case *ssa.Convert:
		return rootsOf(x.X, seen, field)
	case *ssa.MakeInterface:
		return rootsOf(x.X, seen, field)
	case *ssa.TypeAssert:
		return rootsOf(x.X, seen, field)
	case *ssa.ChangeInterface:
		return rootsOf(x.X, seen, field)
	case *ssa.Phi:
		var out []root
		for _, e := range x.Edges {
			out = append(out, rootsOf(e, seen, field)...)
		}
		return out
	case *ssa.Extract:
		return rootsOf(x.Tuple, seen, field)
	case *ssa.FreeVar:
		return []root{{kind: rootOther}}
	}
	return []root{{kind: rootOther}}
}

func isSyncPkg(path string) bool {
	return path == "sync" || path == "runtime" || strings.HasPrefix(path, "internal/") || strings.HasPrefix(path, "runtime/")
}

func isBigInt(t types.Type) bool {
	if p, ok := t.(*types.Pointer); ok {
		if n, ok := p.Elem().(*types.Named); ok {
			return n.Obj().Pkg() != nil && n.Obj().Pkg().Path() == "math/big" && n.Obj().Name() == "Int"
		}
	}
	return false
}

type wop struct {
	v    ssa.Value
	lazy bool
}

// isLazyInitStore recognises `if x.f == nil { x.f = … }`: a store to a field whose block is the
// true-successor of a nil test of the same field.
func isLazyInitStore(st *ssa.Store) bool {
	fa, ok := st.Addr.(*ssa.FieldAddr)
	if !ok {
		return false
	}
	b := st.Block()
	if len(b.Preds) != 1 {
		return false
	}
	p := b.Preds[0]
	if len(p.Instrs) == 0 || len(p.Succs) != 2 || p.Succs[0] != b {
		return false
	}
	iff, ok := p.Instrs[len(p.Instrs)-1].(*ssa.If)
	if !ok {
		return false
	}
	cmp, ok := iff.Cond.(*ssa.BinOp)
	if !ok || cmp.Op != token.EQL {
		return false
	}
	isNil := func(v ssa.Value) bool { c, ok := v.(*ssa.Const); return ok && c.IsNil() }
	var loaded ssa.Value
	switch {
	case isNil(cmp.Y):
		loaded = cmp.X
	case isNil(cmp.X):
		loaded = cmp.Y
	default:
		return false
	}
	ld, ok := loaded.(*ssa.UnOp)
	if !ok || ld.Op != token.MUL {
		return false
	}
	fa2, ok := ld.X.(*ssa.FieldAddr)
	return ok && fa2.X == fa.X && fa2.Field == fa.Field
}

type accessRow struct {
	loc, fn, kind string
	inInit, guard bool
}

func genAccess(pkgs []*packages.Package, leanDir, outDir string) {
	prog, _ := ssautil.AllPackages(pkgs, ssa.InstantiateGenerics)
	prog.Build()
	funcs := ssautil.AllFunctions(prog)

	// concrete method implementations by name, for interface calls (class-hierarchy style)
	implsByName := map[string][]*ssa.Function{}
	for f := range funcs {
		if f.Signature.Recv() != nil && f.Pkg != nil {
			implsByName[f.Name()] = append(implsByName[f.Name()], f)
		}
	}
	callees := func(c *ssa.CallCommon) []*ssa.Function {
		if sc := c.StaticCallee(); sc != nil {
			return []*ssa.Function{sc}
		}
		if c.IsInvoke() {
			var out []*ssa.Function
			for _, f := range implsByName[c.Method.Name()] {
				if types.Implements(f.Signature.Recv().Type(), c.Value.Type().Underlying().(*types.Interface)) {
					out = append(out, f)
				}
			}
			return out
		}
		return nil
	}
	callArgs := func(c *ssa.CallCommon) []ssa.Value {
		if c.IsInvoke() {
			return append([]ssa.Value{c.Value}, c.Args...)
		}
		return c.Args
	}

	// ---- fixpoint: which parameters may a function write through ---------------------------------
	// 0 = no write, 1 = only lazy-initialisation writes (`if x.f == nil { x.f = … }`), 2 = other writes
	writes := map[*ssa.Function]map[int]int{}
	markParamWrites := func(f *ssa.Function, w wop) bool {
		changed := false
		level := 2
		if w.lazy {
			level = 1
		}
		for _, r := range rootsOf(w.v, map[ssa.Value]bool{}, "") {
			if r.kind == rootParam {
				if writes[f] == nil {
					writes[f] = map[int]int{}
				}
				if writes[f][r.param] < level {
					writes[f][r.param] = level
					changed = true
				}
			}
		}
		return changed
	}
	// writtenOperands lists the values an instruction may write through
	writtenOperands := func(f *ssa.Function, ins ssa.Instruction) []wop {
		var out []wop
		switch x := ins.(type) {
		case *ssa.Store:
			if _, isAlloc := x.Addr.(*ssa.Alloc); !isAlloc {
				out = append(out, wop{x.Addr, isLazyInitStore(x)})
			}
		case *ssa.MapUpdate:
			out = append(out, wop{x.Map, false})
		case ssa.CallInstruction:
			c := x.Common()
			args := callArgs(c)
			if sc := c.StaticCallee(); sc != nil && sc.Pkg != nil && sc.Pkg.Pkg.Path() == "math/big" && sc.Signature.Recv() != nil && isBigInt(sc.Signature.Recv().Type()) {
				if !bigReadOnly[sc.Name()] && len(args) > 0 {
					out = append(out, wop{args[0], false})
				}
				return out
			}
			// sync/atomic: the first argument is the location; Load* reads it, everything else writes it.
			// These accesses are not "under the mutex": a location switched to atomics leaves the
			// proven disciplines and is reported (atomicity alone does not give distinct request ids).
			if sc := c.StaticCallee(); sc != nil && sc.Pkg != nil && sc.Pkg.Pkg.Path() == "sync/atomic" && len(args) > 0 {
				if !strings.HasPrefix(sc.Name(), "Load") {
					out = append(out, wop{args[0], false})
				}
				return out
			}
			if b, ok := c.Value.(*ssa.Builtin); ok {
				if b.Name() == "copy" && len(c.Args) > 0 {
					out = append(out, wop{c.Args[0], false})
				}
				return out
			}
			for _, callee := range callees(c) {
				if callee.Pkg != nil && isSyncPkg(callee.Pkg.Pkg.Path()) {
					continue // synchronisation primitives: their internal atomics are not data accesses
				}
				for i := range args {
					if lvl := writes[callee][i]; lvl > 0 {
						out = append(out, wop{args[i], lvl == 1})
					}
				}
			}
		}
		return out
	}
	for changed := true; changed; {
		changed = false
		for f := range funcs {
			for _, b := range f.Blocks {
				for _, ins := range b.Instrs {
					for _, v := range writtenOperands(f, ins) {
						if markParamWrites(f, v) {
							changed = true
						}
					}
				}
			}
		}
	}

	// ---- rows ------------------------------------------------------------------------------------
	isInit := func(f *ssa.Function) bool {
		for g := f; g != nil; g = g.Parent() {
			if g.Name() == "init" || strings.HasPrefix(g.Name(), "init#") {
				return true
			}
		}
		return false
	}
	var rows []accessRow
	seenRow := map[string]bool{}
	add := func(r accessRow) {
		k := fmt.Sprint(r)
		if !seenRow[k] {
			seenRow[k] = true
			rows = append(rows, r)
		}
	}
	globName := func(g *ssa.Global) string {
		return strings.TrimPrefix(g.Pkg.Pkg.Path(), "github.com/kklash/") + "." + g.Name()
	}
	for f := range funcs {
		if f.Pkg == nil || !inScope(f.Pkg.Pkg.Path()) || f.Blocks == nil {
			continue
		}
		fname := strings.TrimPrefix(f.String(), "github.com/kklash/")
		for _, b := range f.Blocks {
			locked := false
			for _, ins := range b.Instrs {
				if ci, ok := ins.(ssa.CallInstruction); ok {
					if sc := ci.Common().StaticCallee(); sc != nil && sc.Pkg != nil && sc.Pkg.Pkg.Path() == "sync" {
						switch sc.Name() {
						case "Lock", "RLock":
							locked = true
						case "Unlock", "RUnlock":
							if _, isDefer := ins.(*ssa.Defer); !isDefer {
								locked = false
							}
						}
					}
				}
				record := func(v ssa.Value, kind string) {
					for _, r := range rootsOf(v, map[ssa.Value]bool{}, "") {
						switch {
						case r.kind == rootGlobal && inScope(r.glob.Pkg.Pkg.Path()):
							add(accessRow{globName(r.glob), fname, kind, isInit(f), locked})
						case r.kind == rootParam && r.field != "" && f.Signature.Recv() != nil && r.param == 0 &&
							strings.HasSuffix(f.Signature.Recv().Type().String(), "bitcoinlib/rpc.Connection"):
							add(accessRow{"rpc.Connection." + r.field, fname, kind, isInit(f), locked})
						}
					}
				}
				for _, w := range writtenOperands(f, ins) {
					if w.lazy {
						record(w.v, "lazywrite")
					} else {
						record(w.v, "write")
					}
				}
				// reads of shared-connection fields (needed for the mutex discipline)
				if u, ok := ins.(*ssa.UnOp); ok && u.Op == token.MUL {
					if fa, ok := u.X.(*ssa.FieldAddr); ok {
						record(fa, "read")
					}
				}
			}
		}
	}
	sort.Slice(rows, func(i, j int) bool {
		a, b := rows[i], rows[j]
		if a.loc != b.loc {
			return a.loc < b.loc
		}
		if a.fn != b.fn {
			return a.fn < b.fn
		}
		if a.kind != b.kind {
			return a.kind < b.kind
		}
		if a.inInit != b.inInit {
			return !a.inInit
		}
		return !a.guard && b.guard
	})

	// every package-level variable in scope (so that the table also says which ones are never written)
	var globals []string
	for _, p := range prog.AllPackages() {
		if !inScope(p.Pkg.Path()) {
			continue
		}
		for _, m := range p.Members {
			if g, ok := m.(*ssa.Global); ok && !strings.HasPrefix(g.Name(), "init$") {
				globals = append(globals, globName(g))
			}
		}
	}
	sort.Strings(globals)

	// locations get numeric ids (1-based, in sorted order) so that the kernel evaluates the
	// discipline on numbers; the names are kept alongside for reports
	locID := map[string]int{}
	var locNames []string
	for _, r := range rows {
		if _, ok := locID[r.loc]; !ok {
			locNames = append(locNames, r.loc)
		}
		locID[r.loc] = 0
	}
	sort.Strings(locNames)
	for i, n := range locNames {
		locID[n] = i + 1
	}
	var b strings.Builder
	b.WriteString("-- GENERATED by /verif/extract (access.go) from the repository's current source. Do not edit.\n")
	b.WriteString("import BtcVerif.Model.HB\n\nnamespace BtcVerif.Gen\nopen BtcVerif.Model.HB\n\n")
	b.WriteString("/-- accesses to package-level variables (and to fields of rpc.Connection) found by the SSA summary:\n    ⟨location id, isWrite, lazy, inInit, guarded⟩ -/\n")
	b.WriteString("def accessTable : List AccessRow := [\n")
	for i, r := range rows {
		sep := ","
		if i == len(rows)-1 {
			sep = ""
		}
		fmt.Fprintf(&b, "  ⟨%d, %v, %v, %v, %v⟩%s -- %s in %s\n", locID[r.loc], r.kind != "read", r.kind == "lazywrite", r.inInit, r.guard, sep, r.loc, r.fn)
	}
	b.WriteString("]\n\n/-- location names by id (index + 1) -/\ndef locNames : List String := [\n")
	for i, n := range locNames {
		sep := ","
		if i == len(locNames)-1 {
			sep = ""
		}
		fmt.Fprintf(&b, "  %s%s\n", leanString(n), sep)
	}
	b.WriteString("]\n\n")
	fmt.Fprintf(&b, "/-- the documented global mutation the property excludes (0 = not present) -/\ndef excludedLocs : List Nat := [%d]\n\n", locID["bitcoinlib/constants.CurrentNetwork"])
	fmt.Fprintf(&b, "/-- locations the table must cover: ecc.Curve, bip32.curve, rpc.Connection.requestID (0 = missing) -/\ndef coverLocs : List Nat := [%d, %d, %d]\n\n",
		locID["bitcoinlib/ecc.Curve"], locID["bitcoinlib/bip32.curve"], locID["rpc.Connection.requestID"])
	b.WriteString("/-- every package-level variable of the repository's modules and the kklash dependencies -/\n")
	b.WriteString("def packageVars : List String := [\n")
	for i, g := range globals {
		sep := ","
		if i == len(globals)-1 {
			sep = ""
		}
		fmt.Fprintf(&b, "  %s%s\n", leanString(g), sep)
	}
	b.WriteString("]\n\nend BtcVerif.Gen\n")
	writeIfChanged(filepath.Join(leanDir, "AccessTable.lean"), b.String())
}
