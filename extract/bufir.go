package main

// T4 for C18, part 2: the buffer-operation IR (DESIGN.md appendix C; the IR and its semantics are
// defined in lean/BtcVerif/Model/SliceHeap.lean).
//
// Every function with a body in the repository's modules (and the kklash dependencies, whose source
// is part of the SSA program) is translated, instruction by instruction, to statements over
// *registers*. Every pointer-carrying SSA value v owns two registers: D(v) = the memory v addresses
// directly, C(v) = the memory addressed by pointers stored in that memory (transitively). Parameters
// (free variables first) own registers 0 … 2n-1. The translation of the SSA instructions:
//
//	Alloc, MakeSlice, MakeMap, MakeChan, MakeClosure, string->[]byte     alloc D
//	Slice x[lo:hi]      derive D [D(x)]   when hi <= len(x) is established (hi absent, hi = len(x), a
//	                                      constant below a dominating guard on len(x), x an array)
//	                    beyond D D(x)     otherwise (may read spare capacity)
//	Slice x[lo:hi:hi]   capped D D(x)     (same side condition)
//	IndexAddr, FieldAddr, Index, Field, Phi, ChangeType, MakeInterface, TypeAssert, Extract, Range …
//	                    derive D [D(x)…]; derive C [C(x)…]; and back: derive C(x) [C(x), C]
//	load *a, Lookup, Next, <-ch                derive D [C(a)]; derive C [C(a)]; back edge
//	Store *a = v, MapUpdate, Send              store D(a); derive C(a) [C(a), D(v), C(v)]
//	append(s, e…)       append D D(s); C likewise        copy(d, s)   copyInto D(d); C(d) gets C(s)
//	call of a function with a body             call (D, C) g args; then the callee's parameter-to-
//	                                           parameter flows as derive statements
//	call of a standard-library / third-party function: the table bufExternal (writers into an
//	                    argument, appenders, aliasing results, holders, pure readers); unknown callee or
//	                    dynamic call: havoc of every argument
//	Return              ret
//
// Tags (which parameters a register may point into), `touches` (parameters whose memory a function may
// write or read beyond len) and the result aliases are the least fixpoint over the whole program; the
// Lean checker re-validates them statement by statement (it does not trust the fixpoint).

import (
	"encoding/json"
	"fmt"
	"go/constant"
	"go/token"
	"go/types"
	"os"
	"path/filepath"
	"sort"
	"strings"

	"golang.org/x/tools/go/packages"
	"golang.org/x/tools/go/ssa"
	"golang.org/x/tools/go/ssa/ssautil"
)

type bufSet map[int]bool

func (s bufSet) addAll(o bufSet) bool {
	ch := false
	for k := range o {
		if !s[k] {
			s[k] = true
			ch = true
		}
	}
	return ch
}

func (s bufSet) sorted() []int {
	out := make([]int, 0, len(s))
	for k := range s {
		out = append(out, k)
	}
	sort.Ints(out)
	return out
}

const (
	bsAlloc = iota
	bsDerive
	bsCapped
	bsBeyond
	bsAppend
	bsStore
	bsCopyInto
	bsHavoc
	bsCall
	bsRet
)

type bufStmt struct {
	kind   int
	x, x2  int   // defined register(s)
	y      int   // single source
	ys     []int // sources / havoc list / ret ds
	cs     []int // ret cs
	callee *bufFn
	args   []int
	pos    token.Pos
	why    string // human-readable origin, for diagnostics
}

type bufFn struct {
	fn      *ssa.Function
	idx     int
	name    string
	api     bool
	allow   bool
	nGo     int // free variables + parameters
	guarded []int
	regs    map[ssa.Value]int
	nregs   int
	stmts   []bufStmt
	tags    []bufSet
	capped  bufSet
	touches bufSet
	retD    bufSet
	retC    bufSet
	havocs  int
	tracked bufSet       // parameter registers that may hold caller-owned (guarded) memory of some API call
	assumed []bufAssumed // slice expressions whose bound hi <= len the guard analysis could not establish
	outIdx  int          // index in the emitted program (-1: not emitted)
}

type bufAssumed struct {
	reg   int
	where string
}

type bufProg struct {
	prog    *ssa.Program
	fns     map[*ssa.Function]*bufFn
	list    []*bufFn
	impls   map[string][]*ssa.Function  // interface method key -> in-scope implementations
	unknown map[string]int              // external callees without a table entry that received memory
	gstores map[*ssa.Global][]ssa.Value // values stored into each package-level variable
}

func bufInScope(fn *ssa.Function) bool {
	p := fn.Pkg
	if p == nil && fn.Parent() != nil {
		p = fn.Parent().Pkg
	}
	if p == nil {
		if o := fn.Origin(); o != nil {
			p = o.Pkg
		}
	}
	if p == nil {
		// wrappers / bound-method closures: attribute them to the receiver's package
		if fn.Signature.Recv() != nil {
			if n := bufNamed(fn.Signature.Recv().Type()); n != nil && n.Obj().Pkg() != nil {
				return strings.HasPrefix(n.Obj().Pkg().Path(), "github.com/kklash/")
			}
		}
		if len(fn.FreeVars) == 1 && fn.Synthetic != "" {
			if n := bufNamed(fn.FreeVars[0].Type()); n != nil && n.Obj().Pkg() != nil {
				return strings.HasPrefix(n.Obj().Pkg().Path(), "github.com/kklash/")
			}
		}
		return false
	}
	return strings.HasPrefix(p.Pkg.Path(), "github.com/kklash/")
}

func bufNamed(t types.Type) *types.Named {
	if p, ok := t.(*types.Pointer); ok {
		t = p.Elem()
	}
	n, _ := t.(*types.Named)
	return n
}

// does a value of type t hold pointers to mutable memory? (strings are immutable: no)
func bufCarries(t types.Type) bool { return bufCarriesD(t, 0) }

func bufCarriesD(t types.Type, depth int) bool {
	if depth > 6 {
		return true
	}
	switch u := t.Underlying().(type) {
	case *types.Basic:
		return u.Kind() == types.UnsafePointer
	case *types.Slice, *types.Pointer, *types.Map, *types.Chan, *types.Signature, *types.Interface:
		return true
	case *types.Struct:
		for i := 0; i < u.NumFields(); i++ {
			if bufCarriesD(u.Field(i).Type(), depth+1) {
				return true
			}
		}
		return false
	case *types.Array:
		return bufCarriesD(u.Elem(), depth+1)
	case *types.Tuple:
		for i := 0; i < u.Len(); i++ {
			if bufCarriesD(u.At(i).Type(), depth+1) {
				return true
			}
		}
		return false
	case *types.TypeParam:
		return true
	}
	return false
}

// does the memory a value of type t addresses hold pointers itself?
func bufPointeeCarries(t types.Type) bool {
	switch u := t.Underlying().(type) {
	case *types.Slice:
		return bufCarries(u.Elem())
	case *types.Pointer:
		return bufCarries(u.Elem())
	case *types.Map:
		return bufCarries(u.Elem()) || bufCarries(u.Key())
	case *types.Chan:
		return bufCarries(u.Elem())
	case *types.Struct:
		for i := 0; i < u.NumFields(); i++ {
			if bufCarries(u.Field(i).Type()) && bufPointeeCarries(u.Field(i).Type()) {
				return true
			}
		}
		return false
	case *types.Array:
		return bufPointeeCarries(u.Elem())
	case *types.Tuple:
		for i := 0; i < u.Len(); i++ {
			if bufCarries(u.At(i).Type()) && bufPointeeCarries(u.At(i).Type()) {
				return true
			}
		}
		return false
	case *types.Basic:
		return u.Kind() == types.UnsafePointer
	}
	return true // interfaces, closures, type parameters: unknown
}

// bufLeaves: the scalar kinds an object of type t consists of (pointers, slice headers, maps … are
// leaves). Caller-owned byte-slice memory consists of bytes ([]byte, [][N]byte) and slice headers
// ([][]byte); by Go's type safety a store through a *T can change such memory only if T has one of
// these leaves.
func bufRelevantMem(t types.Type) bool { return bufRelevantD(t, 0) }

func bufRelevantD(t types.Type, depth int) bool {
	if depth > 8 {
		return true
	}
	switch u := t.Underlying().(type) {
	case *types.Basic:
		return u.Kind() == types.Uint8 || u.Kind() == types.UnsafePointer || u.Kind() == types.UntypedNil
	case *types.Slice:
		return true // a slice header
	case *types.Array:
		return bufRelevantD(u.Elem(), depth+1)
	case *types.Struct:
		for i := 0; i < u.NumFields(); i++ {
			if bufRelevantD(u.Field(i).Type(), depth+1) {
				return true
			}
		}
		return false
	case *types.Tuple:
		for i := 0; i < u.Len(); i++ {
			if bufRelevantD(u.At(i).Type(), depth+1) {
				return true
			}
		}
		return false
	case *types.TypeParam:
		return true
	}
	return false // pointers, maps, channels, functions, interfaces, strings, other numbers
}

func bufElemOf(t types.Type) types.Type {
	switch u := t.Underlying().(type) {
	case *types.Slice:
		return u.Elem()
	case *types.Pointer:
		if a, ok := u.Elem().Underlying().(*types.Array); ok {
			return a.Elem()
		}
		return u.Elem()
	case *types.Array:
		return u.Elem()
	}
	return t
}

func (f *bufFn) reg(v ssa.Value) (int, bool) {
	if v == nil {
		return 0, false
	}
	switch v.(type) {
	case *ssa.Const, *ssa.Function, *ssa.Builtin:
		return 0, false
	}
	if !bufCarries(v.Type()) {
		return 0, false
	}
	if r, ok := f.regs[v]; ok {
		return r, true
	}
	r := f.nregs
	f.nregs += 2
	f.regs[v] = r
	return r, true
}

func (f *bufFn) scratch() int {
	r := f.nregs
	f.nregs += 2
	return r
}

func (f *bufFn) emit(s bufStmt) { f.stmts = append(f.stmts, s) }

func (f *bufFn) derive(x int, ys []int, pos token.Pos, why string) {
	if len(ys) == 0 {
		return
	}
	f.emit(bufStmt{kind: bsDerive, x: x, ys: ys, pos: pos, why: why})
}

// flow: dst is derived from src (an address derivation when load == false, a load when true)
func (f *bufFn) flow(dst, src ssa.Value, load bool, pos token.Pos, why string) {
	d, ok1 := f.reg(dst)
	s, ok2 := f.reg(src)
	if !ok1 || !ok2 {
		return
	}
	if load {
		f.derive(d, []int{d, s + 1}, pos, why)
	} else {
		f.derive(d, []int{d, s}, pos, why)
	}
	if bufPointeeCarries(dst.Type()) || bufPointeeCarries(src.Type()) {
		f.derive(d+1, []int{d + 1, s + 1}, pos, why)
		f.derive(s+1, []int{s + 1, d + 1}, pos, why+" (shared contents)")
	}
}

// contents: the memory addressed by `into` now holds the pointers of `v`
func (f *bufFn) contents(into int, v ssa.Value, pos token.Pos, why string) {
	s, ok := f.reg(v)
	if !ok {
		return
	}
	f.derive(into+1, []int{into + 1, s, s + 1}, pos, why)
}

// ---------------------------------------------------------------------------------------------
// hi <= len(x)?

func bufIsLenOf(v ssa.Value, x ssa.Value) bool {
	c, ok := v.(*ssa.Call)
	if !ok {
		return false
	}
	b, ok := c.Call.Value.(*ssa.Builtin)
	return ok && b.Name() == "len" && len(c.Call.Args) == 1 && c.Call.Args[0] == x
}

func bufConstInt(v ssa.Value) (int64, bool) {
	c, ok := v.(*ssa.Const)
	if !ok || c.Value == nil || c.Value.Kind() != constant.Int {
		return 0, false
	}
	return c.Int64(), true
}

// bufHiWithinLen: is `hi <= len(x)` established at block b? (the trusted part of the translation of a
// slice expression; everything it cannot establish becomes `beyond`)
func bufHiWithinLen(x, hi ssa.Value, b *ssa.BasicBlock) bool {
	if hi == nil {
		return true
	}
	if p, ok := x.Type().Underlying().(*types.Pointer); ok {
		if _, isArr := p.Elem().Underlying().(*types.Array); isArr {
			return true // arrays: len == cap, constant bounds are checked by the compiler
		}
	}
	if _, isStr := x.Type().Underlying().(*types.Basic); isStr {
		return true
	}
	if bufIsLenOf(hi, x) {
		return true
	}
	hc, hiConst := bufConstInt(hi)
	if hiConst && hc == 0 {
		return true
	}
	// dominating guards
	for d := b.Idom(); d != nil; d = d.Idom() {
		if len(d.Instrs) == 0 {
			continue
		}
		ifi, ok := d.Instrs[len(d.Instrs)-1].(*ssa.If)
		if !ok {
			continue
		}
		var branch int
		switch {
		case len(d.Succs[0].Preds) == 1 && (d.Succs[0] == b || d.Succs[0].Dominates(b)):
			branch = 0
		case len(d.Succs[1].Preds) == 1 && (d.Succs[1] == b || d.Succs[1].Dominates(b)):
			branch = 1
		default:
			continue
		}
		bo, ok := ifi.Cond.(*ssa.BinOp)
		if !ok {
			continue
		}
		op, l, r := bo.Op, bo.X, bo.Y
		if bufIsLenOf(r, x) { // normalise to len(x) op other
			l, r = r, l
			switch op {
			case token.LSS:
				op = token.GTR
			case token.GTR:
				op = token.LSS
			case token.LEQ:
				op = token.GEQ
			case token.GEQ:
				op = token.LEQ
			}
		}
		if !bufIsLenOf(l, x) {
			continue
		}
		if branch == 1 { // the condition is false here
			switch op {
			case token.LSS:
				op = token.GEQ
			case token.GEQ:
				op = token.LSS
			case token.GTR:
				op = token.LEQ
			case token.LEQ:
				op = token.GTR
			case token.EQL:
				op = token.NEQ
			case token.NEQ:
				op = token.EQL
			}
		}
		// now: len(x) op r holds at b
		if r == hi && (op == token.GEQ || op == token.GTR || op == token.EQL) {
			return true
		}
		if rc, ok := bufConstInt(r); ok && hiConst {
			switch op {
			case token.GEQ, token.EQL:
				if rc >= hc {
					return true
				}
			case token.GTR:
				if rc+1 >= hc {
					return true
				}
			}
		}
	}
	return false
}

// does the bound come from cap(…)?
func bufUsesCap(v ssa.Value, depth int) bool {
	if v == nil || depth > 4 {
		return false
	}
	switch x := v.(type) {
	case *ssa.Call:
		if b, ok := x.Call.Value.(*ssa.Builtin); ok {
			return b.Name() == "cap"
		}
	case *ssa.BinOp:
		return bufUsesCap(x.X, depth+1) || bufUsesCap(x.Y, depth+1)
	case *ssa.Convert:
		return bufUsesCap(x.X, depth+1)
	case *ssa.Phi:
		for _, e := range x.Edges {
			if bufUsesCap(e, depth+1) {
				return true
			}
		}
	}
	return false
}

func bufSameLen(a, b ssa.Value) bool {
	if a == nil || b == nil {
		return false
	}
	if a == b {
		return true
	}
	if ca, ok := bufConstInt(a); ok {
		if cb, ok := bufConstInt(b); ok {
			return ca == cb
		}
	}
	la, ok1 := a.(*ssa.Call)
	lb, ok2 := b.(*ssa.Call)
	if ok1 && ok2 {
		ba, ok3 := la.Call.Value.(*ssa.Builtin)
		bb, ok4 := lb.Call.Value.(*ssa.Builtin)
		if ok3 && ok4 && ba.Name() == "len" && bb.Name() == "len" && la.Call.Args[0] == lb.Call.Args[0] {
			return true
		}
	}
	return false
}

// ---------------------------------------------------------------------------------------------
// external callees

// bufExternal: effects of standard-library / third-party functions on the memory of their arguments
// (receiver = argument 0). Actions: pure | w<k> writes into argument k | wc<k> writes into memory held
// by argument k | app<k> appends to argument k and returns it | rd<k> the result aliases argument k |
// rc<k> the result aliases memory held by argument k | hold<k> the result holds argument k |
// st<k>><j> argument j's memory now holds argument k.  Everything not listed that receives memory is
// `havoc`.
var bufExternal = map[string]string{
	// pure readers
	"bytes.Equal": "pure", "bytes.Compare": "pure", "bytes.Contains": "pure", "bytes.HasPrefix": "pure", "bytes.HasSuffix": "pure",
	"bytes.Index": "pure", "bytes.IndexByte": "pure", "bytes.Count": "pure", "bytes.Repeat": "pure", "bytes.Join": "pure", "bytes.ToLower": "pure", "bytes.ToUpper": "pure",
	"encoding/hex.EncodeToString": "pure", "encoding/hex.DecodeString": "pure", "encoding/hex.Dump": "pure",
	"encoding/hex.Encode": "w0", "encoding/hex.Decode": "w0",
	"crypto/sha256.Sum256": "pure", "crypto/sha256.Sum224": "pure", "crypto/sha512.Sum512": "pure", "crypto/sha1.Sum": "pure",
	"crypto/sha256.New": "pure", "crypto/sha512.New": "pure", "golang.org/x/crypto/ripemd160.New": "pure", "crypto/hmac.New": "pure",
	"crypto/subtle.ConstantTimeCompare": "pure", "crypto/subtle.ConstantTimeEq": "pure", "crypto/subtle.ConstantTimeByteEq": "pure",
	"crypto/subtle.XORBytes":         "w0",
	"crypto/aes.NewCipher":           "pure", // copies the key into its schedule
	"golang.org/x/crypto/scrypt.Key": "pure", "golang.org/x/crypto/pbkdf2.Key": "pure",
	"golang.org/x/text/unicode/norm.(golang.org/x/text/unicode/norm.Form).String": "pure",
	"(*math/big.Int).SetBytes": "pure", "(*math/big.Int).Bytes": "pure", "(*math/big.Int).FillBytes": "w1 rd1",
	"(*math/big.Int).Append": "app1", "(*math/big.Int).SetBits": "hold1",
	"unicode/utf8.DecodeRune": "pure", "unicode/utf8.Valid": "pure", "unicode/utf8.EncodeRune": "w0", "unicode/utf8.AppendRune": "app0",
	"strconv.AppendInt": "app0", "strconv.AppendUint": "app0", "strconv.AppendQuote": "app0",
	"fmt.Sprintf": "pure", "fmt.Sprint": "pure", "fmt.Sprintln": "pure", "fmt.Errorf": "pure", "fmt.Fprintf": "wc0", "fmt.Fprint": "wc0", "fmt.Fprintln": "wc0",
	"fmt.Printf": "pure", "fmt.Println": "pure", "fmt.Print": "pure", "log.Printf": "pure", "log.Println": "pure", "log.Fatalln": "pure", "log.Fatalf": "pure",
	"errors.New": "pure", "errors.Is": "pure", "errors.As": "wc1", "errors.Unwrap": "rc0",
	"strings.NewReader": "pure", "strings.Join": "pure", "strings.Split": "pure", "strings.Fields": "pure",
	"sort.Slice": "w0", "sort.Strings": "w0", "sort.Ints": "w0", "sort.Sort": "wc0", "sort.Stable": "wc0", "slices.Sort": "w0",
	"reflect.DeepEqual":       "pure",
	"encoding/json.Unmarshal": "wc1", "encoding/json.Marshal": "pure", "encoding/json.MarshalIndent": "pure",
	"(*encoding/json.Decoder).Decode": "wc1", "(*encoding/json.Encoder).Encode": "wc0", "encoding/json.NewDecoder": "hold0", "encoding/json.NewEncoder": "hold0",
	"context.WithCancel": "hold0", "context.WithTimeout": "hold0", "context.Background": "pure",
	"(*sync.Mutex).Lock": "pure", "(*sync.Mutex).Unlock": "pure", "(*sync.RWMutex).Lock": "pure", "(*sync.RWMutex).Unlock": "pure",
	"(*sync.RWMutex).RLock": "pure", "(*sync.RWMutex).RUnlock": "pure", "(*sync.WaitGroup).Add": "pure", "(*sync.WaitGroup).Done": "pure", "(*sync.WaitGroup).Wait": "pure",
	"(*sync.Once).Do": "havoc",
	// readers over readers, big-number arithmetic (operates on its own word arrays), reflection
	"io.MultiReader": "hold0", "io.LimitReader": "hold0", "io.TeeReader": "hold0 hold1", "encoding/hex.NewDecoder": "hold0", "encoding/hex.NewEncoder": "hold0",
	"(*math/big.Int).Add": "pure", "(*math/big.Int).Sub": "pure", "(*math/big.Int).Mul": "pure", "(*math/big.Int).Mod": "pure", "(*math/big.Int).ModInverse": "pure",
	"(*math/big.Int).Exp": "pure", "(*math/big.Int).Set": "pure", "(*math/big.Int).SetString": "pure", "(*math/big.Int).Cmp": "pure", "(*math/big.Int).Sign": "pure",
	"(*math/big.Int).Bit": "pure", "(*math/big.Int).BitLen": "pure", "(*math/big.Int).And": "pure", "(*math/big.Int).Or": "pure", "(*math/big.Int).Lsh": "pure",
	"(*math/big.Int).Rsh": "pure", "(*math/big.Int).QuoRem": "pure", "(*math/big.Int).Int64": "pure", "(*math/big.Int).Uint64": "pure", "(*math/big.Int).Text": "pure",
	"(*math/big.Int).String": "pure", "(*math/big.Int).SetInt64": "pure", "(*math/big.Int).SetUint64": "pure", "(*math/big.Int).Neg": "pure", "(*math/big.Int).Div": "pure",
	"(*math/big.Int).Quo": "pure", "(*math/big.Int).Rem": "pure", "(*math/big.Int).Sqrt": "pure", "(*math/big.Int).ModSqrt": "pure", "(*math/big.Int).IsInt64": "pure",
	"(*math/big.Float).Float64": "pure", "(*math/big.Float).Quo": "pure", "(*math/big.Float).SetUint64": "pure",
	"crypto/elliptic.Marshal": "pure", "crypto/elliptic.MarshalCompressed": "pure", "crypto/elliptic.Unmarshal": "pure", "crypto/elliptic.UnmarshalCompressed": "pure",
	"crypto/rand.Int": "ws0", "encoding/binary.Size": "pure", "path/filepath.Join": "pure",
	"reflect.TypeOf": "pure", "reflect.ValueOf": "hold0", "(reflect.Value).Int": "pure", "(reflect.Value).Uint": "pure", "(reflect.Value).Type": "pure", "iface:reflect.Type.Bits": "pure",
	"iface:io.ReadCloser.Close": "ws0", "iface:io.Closer.Close": "ws0", "(*net/url.URL).String": "pure",
	// writers into an argument
	"io.ReadFull": "w1 ws0", "io.ReadAtLeast": "w1 ws0", "io.Copy": "wc0 ws1", "io.ReadAll": "ws0", "io.WriteString": "wc0",
	"crypto/rand.Read": "w0", "math/rand.Read": "w0", "(*math/rand.Rand).Read": "w1",
	"(encoding/binary.littleEndian).PutUint16": "w1", "(encoding/binary.littleEndian).PutUint32": "w1", "(encoding/binary.littleEndian).PutUint64": "w1",
	"(encoding/binary.bigEndian).PutUint16": "w1", "(encoding/binary.bigEndian).PutUint32": "w1", "(encoding/binary.bigEndian).PutUint64": "w1",
	"(encoding/binary.littleEndian).Uint16": "pure", "(encoding/binary.littleEndian).Uint32": "pure", "(encoding/binary.littleEndian).Uint64": "pure",
	"(encoding/binary.bigEndian).Uint16": "pure", "(encoding/binary.bigEndian).Uint32": "pure", "(encoding/binary.bigEndian).Uint64": "pure",
	"(encoding/binary.littleEndian).AppendUint16": "app1", "(encoding/binary.littleEndian).AppendUint32": "app1", "(encoding/binary.littleEndian).AppendUint64": "app1",
	"(encoding/binary.bigEndian).AppendUint16": "app1", "(encoding/binary.bigEndian).AppendUint32": "app1", "(encoding/binary.bigEndian).AppendUint64": "app1",
	"encoding/binary.Write": "wc0", "encoding/binary.Read": "ws0 wc2",
	// results aliasing / holding an argument
	"bytes.NewReader": "hold0", "bytes.NewBuffer": "hold0", "bytes.NewBufferString": "pure",
	"bytes.TrimLeft": "rd0", "bytes.TrimRight": "rd0", "bytes.Trim": "rd0", "bytes.TrimSpace": "rd0", "bytes.TrimPrefix": "rd0", "bytes.TrimSuffix": "rd0",
	"bytes.Split": "rd0", "bytes.Fields": "rd0",
	"(*bytes.Buffer).Write": "wc0", "(*bytes.Buffer).WriteByte": "wc0", "(*bytes.Buffer).WriteString": "wc0", "(*bytes.Buffer).WriteTo": "wc1", "(*bytes.Buffer).ReadFrom": "wc0 wc1",
	"(*bytes.Buffer).Bytes": "rc0", "(*bytes.Buffer).Next": "rc0", "(*bytes.Buffer).Len": "pure", "(*bytes.Buffer).String": "pure", "(*bytes.Buffer).Read": "w1", "(*bytes.Buffer).ReadByte": "pure",
	"(*bytes.Buffer).Reset": "pure", "(*bytes.Buffer).Grow": "wc0", "(*bytes.Buffer).Truncate": "pure", "(*bytes.Buffer).Cap": "pure",
	"(*bytes.Reader).Read": "w1", "(*bytes.Reader).ReadByte": "pure", "(*bytes.Reader).Len": "pure", "(*bytes.Reader).Size": "pure", "(*bytes.Reader).Seek": "pure", "(*bytes.Reader).UnreadByte": "pure",
	"(*bytes.Reader).WriteTo": "wc1", "(*bytes.Reader).ReadAt": "w1",
	"bufio.NewReader": "hold0", "bufio.NewWriter": "hold0",
	// interface methods (invoke mode): the documented contracts
	"iface:hash.Hash.Write": "ws0", "iface:io.Writer.Write": "wc0", // Write must not modify or retain p
	"iface:hash.Hash.Sum":   "app1", // appends the digest to its argument
	"iface:hash.Hash.Reset": "ws0", "iface:hash.Hash.Size": "pure", "iface:hash.Hash.BlockSize": "pure",
	"iface:io.Reader.Read": "w1 ws0", "iface:io.ByteReader.ReadByte": "ws0", "iface:io.ReaderAt.ReadAt": "w1",
	"iface:crypto/cipher.Block.Encrypt": "w1", "iface:crypto/cipher.Block.Decrypt": "w1", "iface:crypto/cipher.Block.BlockSize": "pure",
	"iface:crypto/cipher.Stream.XORKeyStream": "w1", "iface:crypto/cipher.BlockMode.CryptBlocks": "w1",
	"iface:error.Error": "pure", "iface:fmt.Stringer.String": "pure",
	"iface:context.Context.Done": "pure", "iface:context.Context.Err": "pure", "iface:context.Context.Value": "pure", "iface:context.Context.Deadline": "pure",
	"iface:crypto/elliptic.Curve.Params": "pure", "iface:crypto/elliptic.Curve.IsOnCurve": "pure", "iface:crypto/elliptic.Curve.Add": "pure",
	"iface:crypto/elliptic.Curve.Double": "pure", "iface:crypto/elliptic.Curve.ScalarMult": "pure", "iface:crypto/elliptic.Curve.ScalarBaseMult": "pure",
	"iface:sort.Interface.Len": "pure", "iface:sort.Interface.Less": "pure", "iface:sort.Interface.Swap": "wc0",
	"iface:net/http.RoundTripper.RoundTrip": "havoc",
}

func bufExternalKey(c *ssa.CallCommon) (string, bool) {
	if c.IsInvoke() {
		it := c.Value.Type()
		name := "?"
		if n, ok := it.(*types.Named); ok {
			if n.Obj().Pkg() != nil {
				name = n.Obj().Pkg().Path() + "." + n.Obj().Name()
			} else {
				name = n.Obj().Name()
			}
		} else {
			name = it.String()
		}
		return "iface:" + name + "." + c.Method.Name(), true
	}
	if fn := c.StaticCallee(); fn != nil {
		s := fn.String()
		if o := fn.Origin(); o != nil {
			s = o.String()
		}
		return s, true
	}
	return "", false
}

// ---------------------------------------------------------------------------------------------
// translation

func (bp *bufProg) translate(f *bufFn) {
	fn := f.fn
	// parameters: free variables first
	for _, fv := range fn.FreeVars {
		f.regs[fv] = f.nregs
		f.nregs += 2
	}
	for _, p := range fn.Params {
		f.regs[p] = f.nregs
		f.nregs += 2
	}
	f.nGo = len(fn.FreeVars) + len(fn.Params)
	for i, p := range fn.Params {
		if bufIsByteish(p.Type()) { // []byte, [][]byte, [][N]byte: the subject of the property
			r := 2 * (len(fn.FreeVars) + i)
			f.guarded = append(f.guarded, r, r+1)
		}
	}
	for _, b := range fn.Blocks {
		for _, ins := range b.Instrs {
			bp.instr(f, b, ins)
		}
	}
}

func bufPosStr(prog *ssa.Program, pos token.Pos) string {
	if !pos.IsValid() {
		return ""
	}
	p := prog.Fset.Position(pos)
	return fmt.Sprintf("%s:%d", filepath.Base(filepath.Dir(p.Filename))+"/"+filepath.Base(p.Filename), p.Line)
}

func (bp *bufProg) instr(f *bufFn, b *ssa.BasicBlock, ins ssa.Instruction) {
	pos := ins.Pos()
	switch v := ins.(type) {
	case *ssa.Alloc:
		if r, ok := f.reg(v); ok {
			f.emit(bufStmt{kind: bsAlloc, x: r, pos: pos, why: "alloc"})
		}
	case *ssa.MakeSlice, *ssa.MakeMap, *ssa.MakeChan:
		if r, ok := f.reg(v.(ssa.Value)); ok {
			f.emit(bufStmt{kind: bsAlloc, x: r, pos: pos, why: "make"})
		}
	case *ssa.MakeClosure:
		if r, ok := f.reg(v); ok {
			f.emit(bufStmt{kind: bsAlloc, x: r, pos: pos, why: "closure"})
			for _, bnd := range v.Bindings {
				f.contents(r, bnd, pos, "closure binding")
			}
		}
	case *ssa.Slice:
		x, ok := f.reg(v.X)
		r, ok2 := f.reg(v)
		if !ok || !ok2 {
			return
		}
		if pos == token.NoPos {
			pos = v.X.Pos()
		}
		within := bufHiWithinLen(v.X, v.High, b)
		switch {
		case bufUsesCap(v.High, 0) || bufUsesCap(v.Max, 0):
			f.emit(bufStmt{kind: bsBeyond, x: r, y: x, pos: pos, why: "slice expression bounded by cap(): reads the spare capacity"})
		case within && v.Max != nil && bufSameLen(v.High, v.Max):
			f.emit(bufStmt{kind: bsCapped, x: r, y: x, pos: pos, why: "full-slice expression"})
			f.capped[r] = true
		case within && (v.Max == nil || bufHiWithinLen(v.X, v.Max, b)):
			f.derive(r, []int{x}, pos, "reslice")
		default:
			// hi <= len(x) depends on values: not decided here. Recorded as an explicit assumption
			// (pinned in Props/C18, discharged by the no-panic theorems of the property that models
			// the function, and exercised by the canary rig: on exact-capacity copies hi > len panics).
			f.derive(r, []int{x}, pos, "reslice (bound assumed)")
			f.assumed = append(f.assumed, bufAssumed{x, bufPosStr(bp.prog, pos)})
		}
		if bufPointeeCarries(v.Type()) {
			f.derive(r+1, []int{r + 1, x + 1}, pos, "reslice")
			f.derive(x+1, []int{x + 1, r + 1}, pos, "reslice (shared contents)")
		}
	case *ssa.IndexAddr:
		f.flow(v, v.X, false, pos, "element address")
	case *ssa.FieldAddr:
		f.flow(v, v.X, false, pos, "field address")
	case *ssa.Index:
		f.flow(v, v.X, false, pos, "element")
	case *ssa.Field:
		f.flow(v, v.X, false, pos, "field")
	case *ssa.Phi:
		for _, e := range v.Edges {
			f.flow(v, e, false, pos, "phi")
		}
	case *ssa.ChangeType:
		f.flow(v, v.X, false, pos, "changetype")
	case *ssa.ChangeInterface:
		f.flow(v, v.X, false, pos, "changeinterface")
	case *ssa.MakeInterface:
		f.flow(v, v.X, false, pos, "box")
	case *ssa.TypeAssert:
		f.flow(v, v.X, false, pos, "typeassert")
	case *ssa.Extract:
		f.flow(v, v.Tuple, false, pos, "extract")
	case *ssa.SliceToArrayPointer:
		f.flow(v, v.X, false, pos, "slice to array pointer")
	case *ssa.MultiConvert:
		f.flow(v, v.X, false, pos, "convert")
	case *ssa.Convert:
		if r, ok := f.reg(v); ok {
			if _, srcOk := f.reg(v.X); srcOk {
				f.flow(v, v.X, false, pos, "convert")
			} else {
				f.emit(bufStmt{kind: bsAlloc, x: r, pos: pos, why: "conversion (copies)"})
			}
		}
	case *ssa.UnOp:
		switch v.Op {
		case token.MUL, token.ARROW:
			f.flow(v, v.X, true, pos, "load")
		}
	case *ssa.Lookup:
		f.flow(v, v.X, true, pos, "map lookup")
	case *ssa.Range:
		f.flow(v, v.X, false, pos, "range")
	case *ssa.Next:
		f.flow(v, v.Iter, true, pos, "range next")
	case *ssa.Select:
		for _, st := range v.States {
			if st.Dir == types.SendOnly {
				if c, ok := f.reg(st.Chan); ok {
					f.contents(c, st.Send, pos, "select send")
				}
			} else {
				f.flow(v, st.Chan, true, pos, "select receive")
			}
		}
	case *ssa.Store:
		a, ok := f.reg(v.Addr)
		if !ok {
			return
		}
		if bufRelevantMem(v.Val.Type()) {
			f.emit(bufStmt{kind: bsStore, x: a, pos: pos, why: "store"})
		}
		f.contents(a, v.Val, pos, "stored pointer")
	case *ssa.MapUpdate:
		m, ok := f.reg(v.Map)
		if !ok {
			return
		}
		// map memory is not byte / slice-header memory: no store
		f.contents(m, v.Key, pos, "map key")
		f.contents(m, v.Value, pos, "map value")
	case *ssa.Send:
		c, ok := f.reg(v.Chan)
		if !ok {
			return
		}
		f.contents(c, v.X, pos, "sent value")
	case *ssa.Return:
		var ds, cs []int
		for _, r := range v.Results {
			if x, ok := f.reg(r); ok {
				ds = append(ds, x)
				cs = append(cs, x+1)
			}
		}
		f.emit(bufStmt{kind: bsRet, ys: ds, cs: cs, pos: pos, why: "return"})
	case *ssa.Call:
		bp.call(f, &v.Call, v, pos)
	case *ssa.Go:
		bp.call(f, &v.Call, nil, pos)
	case *ssa.Defer:
		bp.call(f, &v.Call, nil, pos)
	}
}

func (bp *bufProg) call(f *bufFn, c *ssa.CallCommon, res ssa.Value, pos token.Pos) {
	// result registers
	rd := -1
	if res != nil {
		if r, ok := f.reg(res); ok {
			rd = r
		}
	}
	needRes := func() int {
		if rd < 0 {
			rd = f.scratch()
		}
		return rd
	}
	// normalised argument list: receiver first for invoke mode
	var argv []ssa.Value
	if c.IsInvoke() {
		argv = append(argv, c.Value)
	}
	argv = append(argv, c.Args...)
	argReg := func(k int) (int, bool) {
		if k < 0 || k >= len(argv) {
			return 0, false
		}
		return f.reg(argv[k])
	}

	if b, ok := c.Value.(*ssa.Builtin); ok && !c.IsInvoke() {
		switch b.Name() {
		case "append":
			s, ok := argReg(0)
			if !ok {
				// append(nil-constant, …): a fresh slice
				if rd >= 0 {
					f.emit(bufStmt{kind: bsAlloc, x: rd, pos: pos, why: "append to nil"})
					if len(argv) > 1 {
						if e, ok := argReg(1); ok && bufPointeeCarries(argv[1].Type()) {
							f.derive(rd+1, []int{rd + 1, e + 1}, pos, "appended elements")
						}
					}
				}
				return
			}
			r := needRes()
			if bufRelevantMem(bufElemOf(argv[0].Type())) {
				f.emit(bufStmt{kind: bsAppend, x: r, y: s, pos: pos, why: "append"})
			} else {
				f.derive(r, []int{s}, pos, "append (elements are neither bytes nor slice headers)")
			}
			if bufPointeeCarries(argv[0].Type()) {
				srcs := []int{r + 1, s + 1}
				if e, ok := argReg(1); ok {
					srcs = append(srcs, e+1)
				}
				f.derive(r+1, srcs, pos, "append (contents)")
				f.derive(s+1, append([]int{s + 1}, srcs...), pos, "append (shared contents)")
			}
		case "copy":
			if d, ok := argReg(0); ok {
				if bufRelevantMem(bufElemOf(argv[0].Type())) {
					f.emit(bufStmt{kind: bsCopyInto, x: d, pos: pos, why: "copy"})
				}
				if s, ok := argReg(1); ok && bufPointeeCarries(argv[0].Type()) {
					f.derive(d+1, []int{d + 1, s + 1}, pos, "copy (contents)")
				}
			}
		case "clear":
			if d, ok := argReg(0); ok && bufRelevantMem(bufElemOf(argv[0].Type())) {
				if _, isMap := argv[0].Type().Underlying().(*types.Map); !isMap {
					f.emit(bufStmt{kind: bsStore, x: d, pos: pos, why: "clear"})
				}
			}
		case "recover":
			if rd >= 0 {
				f.emit(bufStmt{kind: bsAlloc, x: rd, pos: pos, why: "recover"})
			}
		case "ssa:wrapnilchk":
			if rd >= 0 {
				if s, ok := argReg(0); ok {
					f.derive(rd, []int{s}, pos, "wrapnilchk")
					f.derive(rd+1, []int{s + 1}, pos, "wrapnilchk")
				}
			}
		}
		return
	}

	// candidate callees with a body
	var callees []*bufFn
	var bindings []ssa.Value
	closureVia := -1 // register of the closure value when the bindings are not known here
	if sc := c.StaticCallee(); sc != nil {
		if g, ok := bp.fns[sc]; ok {
			callees = []*bufFn{g}
			if mc, ok := c.Value.(*ssa.MakeClosure); ok {
				bindings = mc.Bindings
			}
		}
	} else if !c.IsInvoke() {
		// a function value: resolve it through phis, package-level variables and returned closures
		targets, complete := bp.resolveFunc(c.Value, 0, map[ssa.Value]bool{})
		if complete && len(targets) > 0 {
			all := true
			for _, t := range targets {
				if _, ok := bp.fns[t]; !ok {
					all = false
				}
			}
			if all {
				for _, t := range targets {
					callees = append(callees, bp.fns[t])
				}
				if r, ok := f.reg(c.Value); ok {
					closureVia = r
				} else {
					closureVia = f.scratch()
				}
			}
		}
	}
	key, haveKey := bufExternalKey(c)
	if callees == nil && c.IsInvoke() {
		if _, inTable := bufExternal[key]; !inTable {
			for _, impl := range bp.impls[key] {
				if g, ok := bp.fns[impl]; ok {
					callees = append(callees, g)
				}
			}
		}
	}
	if callees != nil {
		for _, g := range callees {
			var args []int
			if closureVia >= 0 {
				// the callee's free variables are held by the closure object
				for range g.fn.FreeVars {
					args = append(args, closureVia+1, closureVia+1)
				}
			}
			for _, a := range append(append([]ssa.Value{}, bindings...), argv...) {
				if r, ok := f.reg(a); ok {
					args = append(args, r, r+1)
				} else {
					s := f.scratch() // a register that is never assigned: no memory
					args = append(args, s, s+1)
				}
			}
			r := needRes()
			f.emit(bufStmt{kind: bsCall, x: r, x2: r + 1, callee: g, args: args, pos: pos, why: "call " + g.name})
		}
		return
	}

	// external
	var regs []int
	for k := range argv {
		if r, ok := argReg(k); ok {
			regs = append(regs, r, r+1)
		}
	}
	if !c.IsInvoke() && c.StaticCallee() == nil {
		// dynamic call through a function value
		if r, ok := f.reg(c.Value); ok {
			regs = append(regs, r, r+1)
		}
		haveKey = false
	}
	action, known := "", false
	if haveKey {
		action, known = bufExternal[key]
	}
	if !known || action == "havoc" {
		if len(regs) > 0 {
			if !known {
				if key == "" {
					key = "(dynamic call)"
				}
				bp.unknown[key]++
			}
			f.havocs++
			f.emit(bufStmt{kind: bsHavoc, ys: regs, pos: pos, why: "unknown callee " + key})
			for k := range argv {
				if r, ok := argReg(k); ok && bufPointeeCarries(argv[k].Type()) {
					f.derive(r+1, append([]int{r + 1}, regs...), pos, "unknown callee may store its arguments")
				}
			}
		}
		if rd >= 0 {
			f.emit(bufStmt{kind: bsAlloc, x: rd, pos: pos, why: "result of unknown callee"})
			f.derive(rd, append([]int{rd}, regs...), pos, "result of unknown callee")
			f.derive(rd+1, append([]int{rd + 1}, regs...), pos, "result of unknown callee")
		}
		return
	}
	if rd >= 0 {
		f.emit(bufStmt{kind: bsAlloc, x: rd, pos: pos, why: "result of " + key})
	}
	for _, act := range strings.Fields(action) {
		var k, j int
		switch {
		case act == "pure":
		case strings.HasPrefix(act, "ws"):
			// writes the argument's own state (a reader's position …): not byte-slice memory
		case strings.HasPrefix(act, "wc"):
			fmt.Sscanf(act, "wc%d", &k)
			if r, ok := argReg(k); ok {
				f.emit(bufStmt{kind: bsStore, x: r + 1, pos: pos, why: key + " writes memory held by its argument"})
			}
		case strings.HasPrefix(act, "w"):
			fmt.Sscanf(act, "w%d", &k)
			if r, ok := argReg(k); ok {
				f.emit(bufStmt{kind: bsCopyInto, x: r, pos: pos, why: key + " writes into its argument"})
			}
		case strings.HasPrefix(act, "app"):
			fmt.Sscanf(act, "app%d", &k)
			if r, ok := argReg(k); ok {
				f.emit(bufStmt{kind: bsAppend, x: needRes(), y: r, pos: pos, why: key + " appends to its argument"})
			}
		case strings.HasPrefix(act, "rd"):
			fmt.Sscanf(act, "rd%d", &k)
			if r, ok := argReg(k); ok && rd >= 0 {
				f.derive(rd, []int{rd, r}, pos, key+" result aliases its argument")
				f.derive(rd+1, []int{rd + 1, r + 1}, pos, key+" result aliases its argument")
			}
		case strings.HasPrefix(act, "rc"):
			fmt.Sscanf(act, "rc%d", &k)
			if r, ok := argReg(k); ok && rd >= 0 {
				f.derive(rd, []int{rd, r + 1}, pos, key+" result aliases memory held by its argument")
				f.derive(rd+1, []int{rd + 1, r + 1}, pos, key+" result aliases memory held by its argument")
			}
		case strings.HasPrefix(act, "hold"):
			fmt.Sscanf(act, "hold%d", &k)
			if r, ok := argReg(k); ok && rd >= 0 {
				f.derive(rd+1, []int{rd + 1, r, r + 1}, pos, key+" result holds its argument")
			}
		case strings.HasPrefix(act, "st"):
			fmt.Sscanf(act, "st%d>%d", &k, &j)
			if r, ok := argReg(k); ok {
				if d, ok := argReg(j); ok {
					f.derive(d+1, []int{d + 1, r, r + 1}, pos, key+" stores an argument")
				}
			}
		}
	}
}

// resolveFunc: the functions a function value may be (complete = every source was understood)
func (bp *bufProg) resolveFunc(v ssa.Value, depth int, seen map[ssa.Value]bool) ([]*ssa.Function, bool) {
	if depth > 6 {
		return nil, false
	}
	if seen[v] {
		return nil, true
	}
	seen[v] = true
	switch x := v.(type) {
	case *ssa.Function:
		return []*ssa.Function{x}, true
	case *ssa.MakeClosure:
		if fn, ok := x.Fn.(*ssa.Function); ok {
			return []*ssa.Function{fn}, true
		}
	case *ssa.Phi:
		var out []*ssa.Function
		for _, e := range x.Edges {
			fs, ok := bp.resolveFunc(e, depth+1, seen)
			if !ok {
				return nil, false
			}
			out = append(out, fs...)
		}
		return out, true
	case *ssa.ChangeType:
		return bp.resolveFunc(x.X, depth+1, seen)
	case *ssa.UnOp:
		if g, ok := x.X.(*ssa.Global); ok && x.Op == token.MUL {
			stores := bp.gstores[g]
			if len(stores) == 0 {
				return nil, false
			}
			var out []*ssa.Function
			for _, sv := range stores {
				fs, ok := bp.resolveFunc(sv, depth+1, seen)
				if !ok {
					return nil, false
				}
				out = append(out, fs...)
			}
			return out, true
		}
	case *ssa.Call:
		if sc := x.Call.StaticCallee(); sc != nil && sc.Blocks != nil && sc.Signature.Results().Len() == 1 {
			var out []*ssa.Function
			for _, b := range sc.Blocks {
				for _, ins := range b.Instrs {
					if ret, ok := ins.(*ssa.Return); ok {
						fs, ok := bp.resolveFunc(ret.Results[0], depth+1, seen)
						if !ok {
							return nil, false
						}
						out = append(out, fs...)
					}
				}
			}
			return out, true
		}
	case *ssa.Const:
		if x.Value == nil {
			return nil, true // nil function: the call panics
		}
	}
	return nil, false
}

// ---------------------------------------------------------------------------------------------
// fixpoint

func (f *bufFn) tag(r int) bufSet {
	for len(f.tags) <= r {
		f.tags = append(f.tags, nil)
	}
	if f.tags[r] == nil {
		f.tags[r] = bufSet{}
	}
	return f.tags[r]
}

func (f *bufFn) argTag(args []int, j int) bufSet {
	if j < len(args) {
		return f.tag(args[j])
	}
	return bufSet{}
}

// one pass over a function; returns whether anything grew
func (f *bufFn) pass() bool {
	ch := false
	for i := range f.stmts {
		s := &f.stmts[i]
		switch s.kind {
		case bsDerive:
			for _, y := range s.ys {
				ch = f.tag(s.x).addAll(f.tag(y)) || ch
			}
		case bsCapped:
			ch = f.tag(s.x).addAll(f.tag(s.y)) || ch
		case bsBeyond:
			ch = f.tag(s.x).addAll(f.tag(s.y)) || ch
			ch = f.touches.addAll(f.tag(s.y)) || ch
		case bsAppend:
			ch = f.tag(s.x).addAll(f.tag(s.y)) || ch
			if !f.capped[s.y] {
				ch = f.touches.addAll(f.tag(s.y)) || ch
			}
		case bsStore, bsCopyInto:
			ch = f.touches.addAll(f.tag(s.x)) || ch
		case bsHavoc:
			for _, x := range s.ys {
				ch = f.touches.addAll(f.tag(x)) || ch
			}
		case bsCall:
			g := s.callee
			for j := range g.touches {
				ch = f.touches.addAll(f.argTag(s.args, j)) || ch
			}
			for j := range g.retD {
				ch = f.tag(s.x).addAll(f.argTag(s.args, j)) || ch
			}
			for j := range g.retC {
				ch = f.tag(s.x2).addAll(f.argTag(s.args, j)) || ch
			}
			// parameter-to-parameter flows inside the callee
			for p := 0; p < 2*g.nGo && p < len(s.args); p++ {
				for t := range g.tag(p) {
					if t != p {
						ch = f.tag(s.args[p]).addAll(f.argTag(s.args, t)) || ch
					}
				}
			}
		case bsRet:
			for _, x := range s.ys {
				ch = f.retD.addAll(f.tag(x)) || ch
			}
			for _, x := range s.cs {
				ch = f.retC.addAll(f.tag(x)) || ch
			}
		}
	}
	return ch
}

// ---------------------------------------------------------------------------------------------
// driver and emission

func bufNatList(xs []int) string {
	s := make([]string, len(xs))
	for i, x := range xs {
		s[i] = fmt.Sprint(x)
	}
	return "[" + strings.Join(s, ",") + "]"
}

func genBufIR(pkgs []*packages.Package, leanDir, outDir string) {
	prog, _ := ssautil.AllPackages(pkgs, ssa.InstantiateGenerics)
	prog.Build()
	bp := &bufProg{prog: prog, fns: map[*ssa.Function]*bufFn{}, impls: map[string][]*ssa.Function{}, unknown: map[string]int{}}

	all := ssautil.AllFunctions(prog)
	var fl []*ssa.Function
	for fn := range all {
		if fn.Blocks == nil || !bufInScope(fn) {
			continue
		}
		if fn.TypeParams().Len() > 0 && len(fn.TypeArgs()) == 0 {
			continue // generic template: only its instances run
		}
		fl = append(fl, fn)
	}
	nameOf := func(fn *ssa.Function) string {
		if fn.Synthetic == "" && fn.Parent() == nil && fn.Object() != nil && fn.Pkg != nil && len(fn.TypeArgs()) == 0 &&
			strings.HasPrefix(fn.Pkg.Pkg.Path(), modPrefix) {
			var recv types.Type
			if r := fn.Signature.Recv(); r != nil {
				recv = r.Type()
			}
			return bufDisplayName(fn.Pkg.Pkg.Path(), recv, fn.Name())
		}
		return strings.ReplaceAll(fn.String(), "github.com/kklash/", "")
	}
	sort.Slice(fl, func(i, j int) bool {
		a, b := nameOf(fl[i]), nameOf(fl[j])
		if a != b {
			return a < b
		}
		return fl[i].Pos() < fl[j].Pos()
	})
	for i, fn := range fl {
		f := &bufFn{fn: fn, idx: i, name: nameOf(fn), regs: map[ssa.Value]int{}, capped: bufSet{}, touches: bufSet{}, retD: bufSet{}, retC: bufSet{}}
		if fn.Synthetic == "" && fn.Parent() == nil && fn.Object() != nil && fn.Object().Exported() && fn.Pkg != nil &&
			bufImportable(fn.Pkg.Pkg.Path()) && fn.Pkg.Pkg.Name() != "main" && len(fn.TypeArgs()) == 0 {
			f.api = true
		}
		_, f.allow = bufAllowList[f.name]
		bp.fns[fn] = f
		bp.list = append(bp.list, f)
	}
	// in-scope implementations of interface methods (class-hierarchy resolution of invoke calls)
	bp.collectImpls(pkgs)
	// values stored into package-level variables (to resolve calls through function variables)
	bp.gstores = map[*ssa.Global][]ssa.Value{}
	for fn := range all {
		for _, b := range fn.Blocks {
			for _, ins := range b.Instrs {
				if st, ok := ins.(*ssa.Store); ok {
					if g, ok := st.Addr.(*ssa.Global); ok {
						bp.gstores[g] = append(bp.gstores[g], st.Val)
					}
				}
			}
		}
	}

	for _, f := range bp.list {
		bp.translate(f)
		for p := 0; p < 2*f.nGo; p++ {
			f.tag(p)[p] = true
		}
	}
	for round := 0; round < 200; round++ {
		ch := false
		for _, f := range bp.list {
			for f.pass() {
				ch = true
			}
		}
		if !ch {
			break
		}
	}

	// relevance: the parameter registers that may hold caller-owned byte-slice memory of some API call
	for _, f := range bp.list {
		f.tracked = bufSet{}
		if f.api {
			for _, g := range f.guarded {
				f.tracked[g] = true
			}
		}
	}
	for ch := true; ch; {
		ch = false
		for _, f := range bp.list {
			if len(f.tracked) == 0 {
				continue
			}
			for _, s := range f.stmts {
				if s.kind != bsCall {
					continue
				}
				for p, a := range s.args {
					if p >= 2*s.callee.nGo || s.callee.tracked[p] {
						continue
					}
					for t := range f.tag(a) {
						if f.tracked[t] {
							s.callee.tracked[p] = true
							ch = true
							break
						}
					}
				}
			}
		}
	}
	// restrict every tag and summary to the tracked parameters
	restrict := func(f *bufFn, s bufSet) bufSet {
		out := bufSet{}
		for k := range s {
			if f.tracked[k] {
				out[k] = true
			}
		}
		return out
	}
	for _, f := range bp.list {
		for r := range f.tags {
			f.tags[r] = restrict(f, f.tag(r))
		}
		f.touches, f.retD, f.retC = restrict(f, f.touches), restrict(f, f.retD), restrict(f, f.retC)
	}
	// the emitted program: functions with tracked parameters
	nOut := 0
	for _, f := range bp.list {
		f.outIdx = -1
		if len(f.tracked) > 0 {
			f.outIdx = nOut
			nOut++
		}
	}

	// emission
	var b strings.Builder
	b.WriteString("-- GENERATED by /verif/extract (bufir.go) from the SSA form of the repository's current source. Do not edit.\n")
	b.WriteString("import BtcVerif.Model.SliceHeap\n\nnamespace BtcVerif.Gen\nopen BtcVerif.Model.SliceHeap\nopen BtcVerif.Model.SliceHeap.Stmt\n\n")
	type diag struct {
		Func, What, Where string
	}
	var violations, retAlias, havocd, beyonds, assumed []diag
	assumedCount := map[string]int{}
	nStmts, nAll := 0, 0
	var defs []string
	for _, f := range bp.list {
		nAll += len(f.stmts)
		if f.outIdx < 0 {
			continue
		}
		has := func(r int) bool { return len(f.tag(r)) > 0 }
		anyHas := func(rs []int) bool {
			for _, r := range rs {
				if has(r) {
					return true
				}
			}
			return false
		}
		guardedTag := func(r int) bool {
			for _, g := range f.guarded {
				if f.tag(r)[g] {
					return true
				}
			}
			return false
		}
		report := f.api && !f.allow
		var lines []string
		debug := os.Getenv("VERIF_C18_DEBUG") != "" && strings.Contains(f.name, os.Getenv("VERIF_C18_DEBUG"))
		var cur *bufStmt
		add := func(s string) {
			lines = append(lines, s)
			if debug {
				fmt.Fprintf(os.Stderr, "%s: %-40s  -- %s (%s)\n", f.name, s, cur.why, bufPosStr(prog, cur.pos))
			}
		}
		if debug {
			fmt.Fprintf(os.Stderr, "%s: tracked %v touches %v retD %v retC %v\n", f.name, f.tracked.sorted(), f.touches.sorted(), f.retD.sorted(), f.retC.sorted())
		}
		// statements all of whose source registers are untagged concern fresh memory only: elided
		for si := range f.stmts {
			s := f.stmts[si]
			cur = &f.stmts[si]
			where := bufPosStr(prog, s.pos)
			switch s.kind {
			case bsDerive:
				var ys []int
				for _, y := range s.ys {
					if has(y) && !(len(s.ys) > 1 && y == s.x && false) {
						ys = append(ys, y)
					}
				}
				// x := derive [x] alone changes nothing
				if len(ys) == 0 || (len(ys) == 1 && ys[0] == s.x) {
					continue
				}
				add(fmt.Sprintf("derive %d %s", s.x, bufNatList(ys)))
			case bsCapped:
				if has(s.y) {
					add(fmt.Sprintf("capped %d %d", s.x, s.y))
				}
			case bsBeyond:
				if !has(s.y) {
					continue
				}
				add(fmt.Sprintf("beyond %d %d", s.x, s.y))
				beyonds = append(beyonds, diag{f.name, s.why, where})
				if guardedTag(s.y) && report {
					violations = append(violations, diag{f.name, "reads beyond len of a caller-owned slice: " + s.why, where})
				}
			case bsAppend:
				if !has(s.y) {
					continue
				}
				add(fmt.Sprintf("append %d %d", s.x, s.y))
				if guardedTag(s.y) && !f.capped[s.y] && report {
					violations = append(violations, diag{f.name, "append onto a caller-owned slice (in place whenever len+k <= cap)", where})
				}
			case bsStore:
				if !has(s.x) {
					continue
				}
				add(fmt.Sprintf("store %d", s.x))
				if guardedTag(s.x) && report {
					violations = append(violations, diag{f.name, "store into caller-owned memory: " + s.why, where})
				}
			case bsCopyInto:
				if !has(s.x) {
					continue
				}
				add(fmt.Sprintf("copyInto %d", s.x))
				if guardedTag(s.x) && report {
					violations = append(violations, diag{f.name, "writes into caller-owned memory: " + s.why, where})
				}
			case bsHavoc:
				var xs []int
				for _, x := range s.ys {
					if has(x) {
						xs = append(xs, x)
					}
				}
				if len(xs) == 0 {
					continue
				}
				add(fmt.Sprintf("havoc %s", bufNatList(xs)))
				havocd = append(havocd, diag{f.name, s.why, where})
				for _, x := range xs {
					if guardedTag(x) && report {
						violations = append(violations, diag{f.name, "caller-owned memory reaches an " + s.why, where})
						break
					}
				}
			case bsCall:
				g := s.callee
				if !anyHas(s.args) || g.outIdx < 0 {
					continue
				}
				add(fmt.Sprintf("call %d %d %d %s", s.x, s.x2, g.outIdx, bufNatList(s.args)))
				for j := range g.touches {
					if j < len(s.args) && guardedTag(s.args[j]) && report {
						violations = append(violations, diag{f.name, "passes caller-owned memory to " + g.name + ", which may write it (or read its spare capacity)", where})
						break
					}
				}
				// the callee's parameter-to-parameter flows
				for p := 0; p < 2*g.nGo && p < len(s.args); p++ {
					var srcs []int
					for _, t := range g.tag(p).sorted() {
						if t != p && t < len(s.args) && has(s.args[t]) {
							srcs = append(srcs, s.args[t])
						}
					}
					if len(srcs) > 0 {
						add(fmt.Sprintf("derive %d %s", s.args[p], bufNatList(append([]int{s.args[p]}, srcs...))))
					}
				}
			case bsRet:
				var ds, cs []int
				for _, x := range s.ys {
					if has(x) {
						ds = append(ds, x)
					}
				}
				for _, x := range s.cs {
					if has(x) {
						cs = append(cs, x)
					}
				}
				if len(ds)+len(cs) == 0 {
					continue
				}
				add(fmt.Sprintf("ret %s %s", bufNatList(ds), bufNatList(cs)))
				if f.api {
					retAlias = append(retAlias, diag{f.name, "a result may share memory with an argument (allowed: not a modification)", where})
				}
			}
		}
		for _, a := range f.assumed {
			if has(a.reg) {
				assumed = append(assumed, diag{f.name, "slice expression on caller-owned memory whose bound hi <= len is not decided by the guard analysis", a.where})
				assumedCount[f.name]++
			}
		}
		nStmts += len(lines)
		tags := make([]string, f.nregs)
		for r := 0; r < f.nregs; r++ {
			tags[r] = bufNatList(f.tag(r).sorted())
		}
		for len(tags) > 0 && tags[len(tags)-1] == "[]" {
			tags = tags[:len(tags)-1]
		}
		var cappedRegs []int
		for _, r := range f.capped.sorted() {
			if has(r) {
				cappedRegs = append(cappedRegs, r)
			}
		}
		def := fmt.Sprintf("f%d", f.outIdx)
		defs = append(defs, def)
		fmt.Fprintf(&b, "def %s : FuncIR := {\n  name := %s, api := %v, allow := %v, nparams := %d, tracked := %s, guarded := %s,\n  tags := [%s],\n  cappedRegs := %s, touches := %s, retD := %s, retC := %s,\n  body := [",
			def, leanString(f.name), f.api, f.allow, 2*f.nGo, bufNatList(f.tracked.sorted()), bufNatList(f.guarded), strings.Join(tags, ","),
			bufNatList(cappedRegs), bufNatList(f.touches.sorted()), bufNatList(f.retD.sorted()), bufNatList(f.retC.sorted()))
		for i, l := range lines {
			if i > 0 {
				b.WriteString(",")
			}
			if i%8 == 0 {
				b.WriteString("\n    ")
			} else {
				b.WriteString(" ")
			}
			b.WriteString(l)
		}
		b.WriteString("] }\n\n")
	}
	b.WriteString("/-- the buffer-operation program of every function that may receive caller-owned byte-slice memory\n(index = callee id) -/\n")
	b.WriteString("def bufferProgs : List FuncIR := [")
	for i, d := range defs {
		if i > 0 {
			b.WriteString(",")
		}
		if i%16 == 0 {
			b.WriteString("\n  ")
		} else {
			b.WriteString(" ")
		}
		b.WriteString(d)
	}
	b.WriteString("]\n\n")
	ak := make([]string, 0, len(bufAllowList))
	for k := range bufAllowList {
		ak = append(ak, k)
	}
	sort.Strings(ak)
	b.WriteString("/-- functions documented to work in place on (or append to) an argument -/\n")
	b.WriteString("def bufferAllow : List String := [")
	for i, k := range ak {
		if i > 0 {
			b.WriteString(", ")
		}
		b.WriteString(leanString(k))
	}
	b.WriteString("]\n\n")
	b.WriteString("/-- slice expressions on caller-owned memory whose bound `hi ≤ len` depends on values (function, number\nof sites): translated as in-window reslices under that assumption -/\n")
	b.WriteString("def bufferBoundAssumptions : List (String × Nat) := [")
	an := make([]string, 0, len(assumedCount))
	for k := range assumedCount {
		an = append(an, k)
	}
	sort.Strings(an)
	for i, k := range an {
		if i > 0 {
			b.WriteString(", ")
		}
		fmt.Fprintf(&b, "(%s, %d)", leanString(k), assumedCount[k])
	}
	b.WriteString("]\n\n")
	b.WriteString("/-- what the extractor's own fixpoint found (for the failure message; the kernel decides) -/\n")
	b.WriteString("def bufferDiagnostics : List String := [")
	for i, v := range violations {
		if i > 0 {
			b.WriteString(",")
		}
		b.WriteString("\n  " + leanString(v.Func+": "+v.What+" ("+v.Where+")"))
	}
	b.WriteString("]\n\nend BtcVerif.Gen\n")
	writeIfChanged(filepath.Join(leanDir, "BufferProgs.lean"), b.String())

	unk := make([]string, 0, len(bp.unknown))
	for k, n := range bp.unknown {
		unk = append(unk, fmt.Sprintf("%s (%d)", k, n))
	}
	sort.Strings(unk)
	napi, nguarded := 0, 0
	for _, f := range bp.list {
		if f.api {
			napi++
			if len(f.guarded) > 0 {
				nguarded++
			}
		}
	}
	js, _ := json.MarshalIndent(map[string]interface{}{
		"functions_translated": len(bp.list), "functions_emitted": nOut, "api_functions": napi, "api_functions_with_slice_parameters": nguarded,
		"statements_translated": nAll, "statements_emitted": nStmts,
		"violations": violations, "ret_alias": retAlias, "havoc_reached_by_tracked_memory": havocd, "read_beyond_len": beyonds,
		"bound_assumptions": assumed, "external_callees_without_table_entry": unk,
	}, "", " ")
	writeIfChanged(filepath.Join(outDir, "buffer_ir.json"), string(js))
}

func (bp *bufProg) collectImpls(pkgs []*packages.Package) {
	// named types of the in-scope packages
	var named []types.Type
	seen := map[*types.Package]bool{}
	var visit func(p *packages.Package)
	visit = func(p *packages.Package) {
		if seen[p.Types] || p.Types == nil {
			return
		}
		seen[p.Types] = true
		if strings.HasPrefix(p.PkgPath, "github.com/kklash/") {
			sc := p.Types.Scope()
			for _, n := range sc.Names() {
				if tn, ok := sc.Lookup(n).(*types.TypeName); ok && !tn.IsAlias() {
					if nt, ok := tn.Type().(*types.Named); ok && nt.TypeParams() == nil {
						if _, isIface := nt.Underlying().(*types.Interface); !isIface {
							named = append(named, nt, types.NewPointer(nt))
						}
					}
				}
			}
		}
		for _, imp := range p.Imports {
			visit(imp)
		}
	}
	for _, p := range pkgs {
		visit(p)
	}
	// interfaces used in invoke calls are discovered lazily: precompute for every interface method
	// key that occurs in the program
	for _, f := range bp.list {
		for _, b := range f.fn.Blocks {
			for _, ins := range b.Instrs {
				var c *ssa.CallCommon
				switch v := ins.(type) {
				case *ssa.Call:
					c = &v.Call
				case *ssa.Go:
					c = &v.Call
				case *ssa.Defer:
					c = &v.Call
				}
				if c == nil || !c.IsInvoke() {
					continue
				}
				key, _ := bufExternalKey(c)
				if _, done := bp.impls[key]; done {
					continue
				}
				bp.impls[key] = nil
				iface, ok := c.Value.Type().Underlying().(*types.Interface)
				if !ok {
					continue
				}
				for _, t := range named {
					if !types.Implements(t, iface) {
						continue
					}
					sel := bp.prog.MethodSets.MethodSet(t).Lookup(c.Method.Pkg(), c.Method.Name())
					if sel == nil {
						continue
					}
					if m := bp.prog.MethodValue(sel); m != nil {
						bp.impls[key] = append(bp.impls[key], m)
					}
				}
			}
		}
	}
}
