package main

// Stable guard names.
//
// Guards are named <package>_<function>_<ordinal>. Ordinals alone make the tie brittle in a way that
// has nothing to do with behaviour: reordering two independent checks swaps the meaning of two names,
// inserting a check renumbers everything after it, and renaming a local variable renames a parameter
// that the models pass by name. So names (and parameter names) are assigned by matching the
// regenerated guards of a function against the guards of the same function in the basis file — the
// Guards.lean committed for the unchanged tree:
//
//   * a regenerated guard whose translated expression equals a basis guard's expression up to the names
//     of its parameters takes that guard's name (first unused match, in source order);
//   * if afterwards the function has as many guards as in the basis, the unmatched ones take the
//     unmatched basis names in order — a changed condition keeps its slot, so the models are checked
//     against the changed condition, which is the purpose of the tie;
//   * otherwise (a guard was added or removed) unmatched guards get fresh ordinals after the largest
//     basis ordinal; a basis name that no longer exists makes the model fail to build, as before;
//   * parameter names: where matched guards differ from the basis only in parameter names, and the
//     differences form one consistent injective renaming for the whole function that introduces only
//     names the basis does not use in that function (a renamed local variable — NOT two variables
//     exchanged), the basis names are emitted, for matched and unmatched guards alike.
//
// Without a basis file the behaviour is the plain ordinal numbering.

import (
	"fmt"
	"os"
	"regexp"
	"sort"
	"strconv"
	"strings"
)

type guardRec struct {
	name    string
	asg     bool
	src     string
	params  []string
	ptype   map[string]string
	body    string
	doc     string
	comment string // non-empty: not translated
}

type basisGuard struct {
	name   string
	params []string
	types  []string
	canon  string
	used   bool
}

var basis map[string][]*basisGuard // function -> guards in file order (both classes)

var (
	reDef     = regexp.MustCompile(`^def ([A-Za-z0-9_]+)((?: \([A-Za-z0-9_']+ : [A-Za-z]+\))*) : Bool :=$`)
	reParam   = regexp.MustCompile(`\(([A-Za-z0-9_']+) : ([A-Za-z]+)\)`)
	reUntrans = regexp.MustCompile("^-- ([A-Za-z0-9_]+) \\([^)]*\\) `(.*)`: not translated")
	reSuffix  = regexp.MustCompile(`^(.*)_(asg)?([0-9]+)$`)
	reIdent   = regexp.MustCompile(`[A-Za-z_][A-Za-z0-9_']*`)
)

func canonBody(body string, params []string) string {
	idx := map[string]int{}
	for i, p := range params {
		idx[p] = i
	}
	return reIdent.ReplaceAllStringFunc(body, func(tok string) string {
		if i, ok := idx[tok]; ok {
			return "$" + strconv.Itoa(i)
		}
		return tok
	})
}

func loadBasis(path string) {
	basis = nil
	if path == "" {
		return
	}
	data, err := os.ReadFile(path)
	if err != nil {
		return
	}
	basis = map[string][]*basisGuard{}
	lines := strings.Split(string(data), "\n")
	for i, l := range lines {
		if m := reDef.FindStringSubmatch(l); m != nil && i+1 < len(lines) {
			g := &basisGuard{name: m[1]}
			for _, pm := range reParam.FindAllStringSubmatch(m[2], -1) {
				g.params = append(g.params, pm[1])
				g.types = append(g.types, pm[2])
			}
			g.canon = strings.Join(g.types, ",") + "|" + canonBody(strings.TrimSpace(lines[i+1]), g.params)
			if sm := reSuffix.FindStringSubmatch(g.name); sm != nil {
				basis[sm[1]] = append(basis[sm[1]], g)
			}
		} else if m := reUntrans.FindStringSubmatch(l); m != nil {
			g := &basisGuard{name: m[1], canon: "untranslated|" + m[2]}
			if sm := reSuffix.FindStringSubmatch(g.name); sm != nil {
				basis[sm[1]] = append(basis[sm[1]], g)
			}
		}
	}
}

func isAsgName(n string) bool {
	sm := reSuffix.FindStringSubmatch(n)
	return sm != nil && sm[2] == "asg"
}

func ordinalOf(n string) int {
	sm := reSuffix.FindStringSubmatch(n)
	if sm == nil {
		return -1
	}
	v, _ := strconv.Atoi(sm[3])
	return v
}

func (r *guardRec) canon() string {
	if r.comment != "" {
		return "untranslated|" + r.src
	}
	var types []string
	for _, p := range r.params {
		types = append(types, r.ptype[p])
	}
	return strings.Join(types, ",") + "|" + canonBody(r.body, r.params)
}

func resolveGuards(fn string, fg *fnGuards) {
	recs := fg.recs
	bgs := basis[fn]
	if len(bgs) > 0 {
		for _, g := range bgs {
			g.used = false
		}
		rename := map[string]string{} // regenerated parameter name -> basis name
		renameOK := true
		for _, class := range []bool{false, true} {
			var nrec []*guardRec
			var brec []*basisGuard
			for _, r := range recs {
				if r.asg == class {
					nrec = append(nrec, r)
				}
			}
			for _, g := range bgs {
				if isAsgName(g.name) == class {
					brec = append(brec, g)
				}
			}
			matched := make([]*basisGuard, len(nrec))
			for i, r := range nrec {
				c := r.canon()
				for _, g := range brec {
					if !g.used && g.canon == c {
						g.used = true
						matched[i] = g
						break
					}
				}
			}
			var freeB []*basisGuard
			maxOrd := -1
			for _, g := range brec {
				if !g.used {
					freeB = append(freeB, g)
				}
				if o := ordinalOf(g.name); o > maxOrd {
					maxOrd = o
				}
			}
			sameCount := len(nrec) == len(brec)
			for i, r := range nrec {
				switch {
				case matched[i] != nil:
					r.name = matched[i].name
					for k, p := range r.params {
						if old := matched[i].params[k]; old != p {
							if prev, ok := rename[p]; ok && prev != old {
								renameOK = false
							}
							rename[p] = old
						}
					}
				case sameCount && len(freeB) > 0:
					r.name = freeB[0].name
					freeB = freeB[1:]
				default:
					maxOrd++
					if class {
						r.name = fmt.Sprintf("%s_asg%d", fn, maxOrd)
					} else {
						r.name = fmt.Sprintf("%s_%d", fn, maxOrd)
					}
				}
			}
		}
		// the renaming must be injective and introduce only names the basis does not use in this function
		if renameOK && len(rename) > 0 {
			basisNames := map[string]bool{}
			for _, g := range bgs {
				for _, p := range g.params {
					basisNames[p] = true
				}
			}
			seen := map[string]string{}
			for nw, old := range rename {
				if basisNames[nw] {
					renameOK = false
				}
				if other, ok := seen[old]; ok && other != nw {
					renameOK = false
				}
				seen[old] = nw
			}
			// a parameter that keeps its name must not collide with the image of a renamed one
			for _, r := range recs {
				for _, p := range r.params {
					if _, renamed := rename[p]; !renamed {
						if _, clash := seen[p]; clash {
							renameOK = false
						}
					}
				}
			}
		}
		if renameOK && len(rename) > 0 {
			for _, r := range recs {
				if r.comment != "" {
					continue
				}
				np := make([]string, len(r.params))
				nt := map[string]string{}
				for i, p := range r.params {
					q := p
					if old, ok := rename[p]; ok {
						q = old
					}
					np[i] = q
					nt[q] = r.ptype[p]
				}
				r.body = reIdent.ReplaceAllStringFunc(r.body, func(tok string) string {
					if old, ok := rename[tok]; ok {
						return old
					}
					return tok
				})
				r.params, r.ptype = np, nt
			}
			var pairs []string
			for nw, old := range rename {
				pairs = append(pairs, nw+"→"+old)
			}
			sort.Strings(pairs)
			fg.note = fmt.Sprintf("-- %s: parameters named as in the basis (%s)\n", fn, strings.Join(pairs, ", "))
		}
	}
}

type fnGuards struct {
	pkg   string // short package name
	fn    string
	recs  []*guardRec
	note  string
	moved []string // definitions carried under a basis name whose guard moved to another function
}

// aliasMovedGuards: a basis guard of a function that has no counterpart there any more, but whose
// expression reappears (up to parameter names) in a guard with a FRESH name in the same package — a
// new helper function, or a new ordinal — has moved (an extracted or inlined helper). It is emitted
// once more under its basis name and with its basis parameter names, so that the models keep
// building against the current source's condition. Guards that keep a basis name are never used as
// the target: the same test in another, unchanged function says nothing about this one.
func aliasMovedGuards(all []*fnGuards) {
	if basis == nil {
		return
	}
	present := map[string]bool{}
	for _, fg := range all {
		for _, r := range fg.recs {
			present[r.name] = true
		}
	}
	basisNames := map[string]bool{}
	for _, gs := range basis {
		for _, g := range gs {
			basisNames[g.name] = true
		}
	}
	pkgOf := func(name string) string {
		if i := strings.IndexByte(name, '_'); i > 0 {
			return name[:i]
		}
		return name
	}
	used := map[*guardRec]bool{}
	byFn := map[string]*fnGuards{}
	for _, fg := range all {
		byFn[fg.fn] = fg
	}
	var fns []string
	for fn := range basis {
		fns = append(fns, fn)
	}
	sort.Strings(fns)
	for _, fn := range fns {
		for _, g := range basis[fn] {
			if present[g.name] || strings.HasPrefix(g.canon, "untranslated|") {
				continue
			}
			var target *guardRec
			for _, fg := range all {
				if pkgOf(fg.fn) != pkgOf(fn) {
					continue
				}
				for _, r := range fg.recs {
					if r.comment == "" && !basisNames[r.name] && !used[r] && r.canon() == g.canon {
						target = r
						break
					}
				}
				if target != nil {
					break
				}
			}
			if target == nil {
				continue
			}
			used[target] = true
			// the body with the basis parameter names
			ren := map[string]string{}
			for i, p := range target.params {
				ren[p] = g.params[i]
			}
			body := reIdent.ReplaceAllStringFunc(target.body, func(tok string) string {
				if q, ok := ren[tok]; ok {
					return q
				}
				return tok
			})
			var sb strings.Builder
			fmt.Fprintf(&sb, "/-- moved: this condition is now `%s` -/\ndef %s", target.name, g.name)
			for i, p := range g.params {
				fmt.Fprintf(&sb, " (%s : %s)", p, g.types[i])
			}
			fmt.Fprintf(&sb, " : Bool :=\n  %s\n", body)
			holder := byFn[fn]
			if holder == nil {
				holder = all[len(all)-1]
			}
			holder.moved = append(holder.moved, sb.String())
		}
	}
}

func printGuards(b *strings.Builder, fg *fnGuards) {
	recs := fg.recs
	if fg.note != "" {
		b.WriteString(fg.note)
	}
	for _, r := range recs {
		if r.comment != "" {
			fmt.Fprintf(b, "-- %s %s\n", r.name, r.comment)
			continue
		}
		fmt.Fprintf(b, "%s\n", r.doc)
		fmt.Fprintf(b, "def %s", r.name)
		for _, pn := range r.params {
			fmt.Fprintf(b, " (%s : %s)", pn, r.ptype[pn])
		}
		fmt.Fprintf(b, " : Bool :=\n  %s\n", r.body)
	}
	for _, m := range fg.moved {
		b.WriteString(m)
	}
}
