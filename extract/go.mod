module verif/extract

go 1.23

require golang.org/x/tools v0.29.0
