import BtcVerif.Model.Basic
