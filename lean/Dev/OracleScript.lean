/- GENERATED layout: an oracle executable serving the groups Script (plus the wire ops). -/
import BtcVerif.Oracle.Loop
import BtcVerif.Oracle.Wire
import BtcVerif.Oracle.Script

open BtcVerif.Oracle

def main : IO Unit := runOracle [wireOp, opScript]
