/- GENERATED layout: an oracle executable serving the groups Bip32, Taproot (plus the wire ops). -/
import BtcVerif.Oracle.Loop
import BtcVerif.Oracle.Wire
import BtcVerif.Oracle.Bip32
import BtcVerif.Oracle.Taproot

open BtcVerif.Oracle

def main : IO Unit := runOracle [wireOp, opBip32, opTaproot]
