/- GENERATED layout: an oracle executable serving the groups Hash, Bip39 (plus the wire ops). -/
import BtcVerif.Oracle.Loop
import BtcVerif.Oracle.Wire
import BtcVerif.Oracle.Hash
import BtcVerif.Oracle.Bip39

open BtcVerif.Oracle

def main : IO Unit := runOracle [wireOp, opHash, opBip39]
