/- GENERATED layout: an oracle executable serving the groups Ecc (plus the wire ops). -/
import BtcVerif.Oracle.Loop
import BtcVerif.Oracle.Wire
import BtcVerif.Oracle.Ecc

open BtcVerif.Oracle

def main : IO Unit := runOracle [wireOp, opEcc]
