/- GENERATED layout: an oracle executable serving the groups Utxo (plus the wire ops). -/
import BtcVerif.Oracle.Loop
import BtcVerif.Oracle.Wire
import BtcVerif.Oracle.Utxo

open BtcVerif.Oracle

def main : IO Unit := runOracle [wireOp, opUtxo]
