/- GENERATED layout: an oracle executable serving the groups SigHash, Stream, Parsers (plus the wire ops). -/
import BtcVerif.Oracle.Loop
import BtcVerif.Oracle.Wire
import BtcVerif.Oracle.SigHash
import BtcVerif.Oracle.Stream
import BtcVerif.Oracle.Parsers

open BtcVerif.Oracle

def main : IO Unit := runOracle [wireOp, opSigHash, opStream, opParsers]
