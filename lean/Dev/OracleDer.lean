/- GENERATED layout: an oracle executable serving the groups DER (plus the wire ops). -/
import BtcVerif.Oracle.Loop
import BtcVerif.Oracle.Wire
import BtcVerif.Oracle.DER

open BtcVerif.Oracle

def main : IO Unit := runOracle [wireOp, opDER]
