/- GENERATED layout: an oracle executable serving the groups Codec, Address, Keys (plus the wire ops). -/
import BtcVerif.Oracle.Loop
import BtcVerif.Oracle.Wire
import BtcVerif.Oracle.Codec
import BtcVerif.Oracle.Address
import BtcVerif.Oracle.Keys

open BtcVerif.Oracle

def main : IO Unit := runOracle [wireOp, opCodec, opAddress, opKeys]
