/- The `oracle` executable: one request per line on stdin, one answer per line on stdout. -/
import BtcVerif.Oracle.Wire

open BtcVerif.Oracle

def dispatch (op : String) (args : List String) : String :=
  match wireOp op args with
  | some r => r
  | none => "bad-op"

def handleLine (line : String) : String :=
  match (line.trimAscii.toString.splitOn " ").filter (· ≠ "") with
  | [] => "bad-op"
  | op :: args => dispatch op args

partial def loop (hin hout : IO.FS.Stream) : IO Unit := do
  let line ← hin.getLine
  if line.isEmpty then return ()
  hout.putStrLn (handleLine line)
  hout.flush
  loop hin hout

def main : IO Unit := do
  loop (← IO.getStdin) (← IO.getStdout)
