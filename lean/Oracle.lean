/- GENERATED layout: an oracle executable serving the groups DER, Script, Codec, Address, Keys, Hash, Bip39, Ecc, Bip32, Taproot, Utxo, SigHash, Stream, Parsers (plus the wire ops). -/
import BtcVerif.Oracle.Loop
import BtcVerif.Oracle.Wire
import BtcVerif.Oracle.DER
import BtcVerif.Oracle.Script
import BtcVerif.Oracle.Codec
import BtcVerif.Oracle.Address
import BtcVerif.Oracle.Keys
import BtcVerif.Oracle.Hash
import BtcVerif.Oracle.Bip39
import BtcVerif.Oracle.Ecc
import BtcVerif.Oracle.Bip32
import BtcVerif.Oracle.Taproot
import BtcVerif.Oracle.Utxo
import BtcVerif.Oracle.SigHash
import BtcVerif.Oracle.Stream
import BtcVerif.Oracle.Parsers

open BtcVerif.Oracle

def main : IO Unit := runOracle [wireOp, opDER, opScript, opCodec, opAddress, opKeys, opHash, opBip39, opEcc, opBip32, opTaproot, opUtxo, opSigHash, opStream, opParsers]
