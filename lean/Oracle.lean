/- The `oracle` executable: one request per line on stdin, one answer per line on stdout. -/
import BtcVerif.Oracle.Wire
import BtcVerif.Oracle.DER
import BtcVerif.Oracle.Script
import BtcVerif.Oracle.Codec
import BtcVerif.Oracle.Address
import BtcVerif.Oracle.Keys
import BtcVerif.Oracle.Hash
import BtcVerif.Oracle.Bip39
import BtcVerif.Oracle.Ecc
import BtcVerif.Oracle.Bip32
import BtcVerif.Oracle.Taproot
import BtcVerif.Oracle.Utxo
import BtcVerif.Oracle.SigHash
import BtcVerif.Oracle.Stream
import BtcVerif.Oracle.Parsers

open BtcVerif.Oracle

def handlers : List (String → List String → Option String) :=
  [wireOp, opDER, opScript, opCodec, opAddress, opKeys, opHash, opBip39, opEcc, opBip32, opTaproot,
   opUtxo, opSigHash, opStream, opParsers]

def dispatch (op : String) (args : List String) : String :=
  match handlers.findSome? (fun h => h op args) with
  | some r => r
  | none => "bad-op"

def handleLine (line : String) : String :=
  match (line.trimAscii.toString.splitOn " ").filter (· ≠ "") with
  | [] => "bad-op"
  | op :: args => dispatch op args

partial def loop (hin hout : IO.FS.Stream) : IO Unit := do
  let line ← hin.getLine
  if line.isEmpty then return ()
  hout.putStrLn (handleLine line)
  hout.flush
  loop hin hout

def main : IO Unit := do
  loop (← IO.getStdin) (← IO.getStdout)
