/-
  secp256k1 group arithmetic (SEC 2, §2.4.1), executable, core Lean `Nat` arithmetic.
  Independent reference implementation; no theorem unfolds it.

  Affine points are `Option (Nat × Nat)`, `none` being the point at infinity. Scalar
  multiplication runs in Jacobian coordinates with one modular inversion at the end.
  Everything lives in the namespace `BtcVerif.Prim.Secp256k1` (the names `p`, `n`, `G`, `add`,
  `mul` … are too short for the shared `Prim` namespace).
-/
import BtcVerif.Model.Basic

namespace BtcVerif.Prim

/-- `b ^ e mod m` by left-to-right square-and-multiply -/
def powMod (b e m : Nat) : Nat := Id.run do
  if m ≤ 1 then return 0
  if e == 0 then return 1
  let b := b % m
  let mut r := 1
  let top := e.log2
  for i in [0:top+1] do
    r := r * r % m
    if e.testBit (top - i) then r := r * b % m
  return r

namespace Secp256k1

abbrev Point := Option (Nat × Nat)

def p : Nat := 0xFFFFFFFFFFFFFFFFFFFFFFFFFFFFFFFFFFFFFFFFFFFFFFFFFFFFFFFEFFFFFC2F
def n : Nat := 0xFFFFFFFFFFFFFFFFFFFFFFFFFFFFFFFEBAAEDCE6AF48A03BBFD25E8CD0364141
def Gx : Nat := 0x79BE667EF9DCBBAC55A06295CE870B07029BFCDB2DCE28D959F2815B16F81798
def Gy : Nat := 0x483ADA7726A3C4655DA4FBFC0E1108A8FD17B448A68554199C47D08FFB10D4B8
def G : Point := some (Gx, Gy)

/-! ### field helpers (arguments are expected reduced, results are reduced) -/

@[inline] def fadd (a b : Nat) : Nat := (a + b) % p
@[inline] def fsub (a b : Nat) : Nat := (a + p - b % p) % p
@[inline] def fmul (a b : Nat) : Nat := (a * b) % p
@[inline] def fsq (a : Nat) : Nat := (a * a) % p
/-- inverse in F_p by Fermat (0 ↦ 0) -/
def finv (a : Nat) : Nat := powMod a (p - 2) p
/-- inverse modulo the group order (0 ↦ 0) -/
def invModN (a : Nat) : Nat := powMod a (n - 2) n

/-- `none` is on the curve; `some (x, y)` iff both coordinates are reduced and `y² = x³ + 7`. -/
def isOnCurve : Point → Bool
  | none => true
  | some (x, y) => x < p && y < p && fsq y == fadd (fmul (fsq x) x) 7

/-! ### Jacobian arithmetic: `(X, Y, Z)` stands for `(X/Z², Y/Z³)`, `Z = 0` is infinity -/

structure Jac where
  x : Nat
  y : Nat
  z : Nat

def Jac.inf : Jac := ⟨1, 1, 0⟩

def Jac.ofAffine : Point → Jac
  | none => Jac.inf
  | some (x, y) => ⟨x % p, y % p, 1⟩

def Jac.toAffine (P : Jac) : Point :=
  if P.z == 0 then none
  else
    let zi := finv P.z
    let zi2 := fsq zi
    some (fmul P.x zi2, fmul P.y (fmul zi2 zi))

def Jac.double (P : Jac) : Jac :=
  if P.z == 0 || P.y == 0 then Jac.inf
  else
    let a := fsq P.x
    let b := fsq P.y
    let c := fsq b
    let d := fmul 2 (fsub (fsub (fsq (fadd P.x b)) a) c)
    let e := fmul 3 a
    let f := fsq e
    let x3 := fsub f (fmul 2 d)
    let y3 := fsub (fmul e (fsub d x3)) (fmul 8 c)
    let z3 := fmul 2 (fmul P.y P.z)
    ⟨x3, y3, z3⟩

def Jac.add (P Q : Jac) : Jac :=
  if P.z == 0 then Q
  else if Q.z == 0 then P
  else
    let z1z1 := fsq P.z
    let z2z2 := fsq Q.z
    let u1 := fmul P.x z2z2
    let u2 := fmul Q.x z1z1
    let s1 := fmul P.y (fmul Q.z z2z2)
    let s2 := fmul Q.y (fmul P.z z1z1)
    if u1 == u2 then
      if s1 == s2 then P.double else Jac.inf
    else
      let h := fsub u2 u1
      let r := fsub s2 s1
      let h2 := fsq h
      let h3 := fmul h h2
      let v := fmul u1 h2
      let x3 := fsub (fsub (fsq r) h3) (fmul 2 v)
      let y3 := fsub (fmul r (fsub v x3)) (fmul s1 h3)
      let z3 := fmul h (fmul P.z Q.z)
      ⟨x3, y3, z3⟩

/-- `k·P`, left-to-right double-and-add (not constant time; this is a reference, not a signer) -/
def Jac.mul (k : Nat) (P : Jac) : Jac := Id.run do
  if k == 0 then return Jac.inf
  let mut acc := Jac.inf
  let top := k.log2
  for i in [0:top+1] do
    acc := acc.double
    if k.testBit (top - i) then acc := acc.add P
  return acc

/-! ### affine API -/

def neg : Point → Point
  | none => none
  | some (x, y) => some (x, (p - y % p) % p)

def add (P Q : Point) : Point := ((Jac.ofAffine P).add (Jac.ofAffine Q)).toAffine

def double (P : Point) : Point := (Jac.ofAffine P).double.toAffine

/-- `k·P`; the scalar is reduced modulo the group order first (the group has prime order `n`). -/
def mul (k : Nat) (P : Point) : Point := (Jac.mul (k % n) (Jac.ofAffine P)).toAffine

/-- `a·G + b·Q` with a single final inversion -/
def mulAdd (a : Nat) (b : Nat) (Q : Point) : Point :=
  ((Jac.mul (a % n) (Jac.ofAffine G)).add (Jac.mul (b % n) (Jac.ofAffine Q))).toAffine

/-- square root in F_p (`p ≡ 3 mod 4`): some `y` with `y² = c`, if there is one -/
def fsqrt (c : Nat) : Option Nat :=
  let c := c % p
  let y := powMod c ((p + 1) / 4) p
  if fsq y == c then some y else none

/-- BIP340 `lift_x`: the point with this `x` and even `y`; `none` if `x ≥ p` or not on the curve -/
def liftX (x : Nat) : Option (Nat × Nat) :=
  if x ≥ p then none
  else
    match fsqrt (fadd (fmul (fsq x) x) 7) with
    | none => none
    | some y => some (x, if y % 2 == 0 then y else p - y)

/-! ### serialisation -/

def serXOnly (P : Nat × Nat) : Bytes := beBytes 32 P.1

def serCompressed (P : Nat × Nat) : Bytes :=
  (if P.2 % 2 == 0 then (0x02 : UInt8) else 0x03) :: beBytes 32 P.1

def serUncompressed (P : Nat × Nat) : Bytes :=
  (0x04 : UInt8) :: (beBytes 32 P.1 ++ beBytes 32 P.2)

/-- Strict parser: 33 bytes `02|03 ‖ x`, 65 bytes `04 ‖ x ‖ y`, or 32 bytes x-only (even `y`).
    Coordinates must be `< p` and the point must satisfy the curve equation. Hybrid encodings
    (06/07) and the one-byte infinity encoding are rejected. -/
def parsePoint (bs : Bytes) : Option (Nat × Nat) :=
  match bs.length with
  | 32 => liftX (beNat bs)
  | 33 =>
    match bs with
    | pre :: rest =>
      if pre == 0x02 || pre == 0x03 then
        match liftX (beNat rest) with
        | none => none
        | some (x, y) => if pre == 0x02 then some (x, y) else some (x, p - y)
      else none
    | [] => none
  | 65 =>
    match bs with
    | pre :: rest =>
      if pre == 0x04 then
        let x := beNat (rest.take 32)
        let y := beNat (rest.drop 32)
        if isOnCurve (some (x, y)) then some (x, y) else none
      else none
    | [] => none
  | _ => none

end Secp256k1

end BtcVerif.Prim
