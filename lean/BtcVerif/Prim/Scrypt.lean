/-
  scrypt (RFC 7914): Salsa20/8 core, BlockMix, ROMix, PBKDF2-HMAC-SHA256, executable, core Lean.
  Independent reference implementation; no theorem unfolds it.

  The hot loop works on `Array UInt32` (unboxed scalars on 64-bit targets) updated in place, and the
  Salsa20/8 core is written out as straight-line code on sixteen locals so that the compiled
  code keeps them in registers. BIP38 uses N = 16384, r = 8, p = 8.
-/
import BtcVerif.Model.Basic
import BtcVerif.Prim.HMAC

namespace BtcVerif.Prim

namespace Scrypt

@[inline] def rotl (x : UInt32) (k : UInt32) : UInt32 := (x <<< k) ||| (x >>> (32 - k))

/-- One step of BlockMix: `out[outOff ..+16] := Salsa20/8 (prev xor b[bOff ..+16])`, where `prev`
    is the 16-word block at `prevOff` of `out` (if `prevInOut`) or of `b`. -/
def salsaStep (b : Array UInt32) (bOff : Nat) (out : Array UInt32) (prevInOut : Bool)
    (prevOff outOff : Nat) : Array UInt32 := Id.run do
  let mut out := out
  let i0 := (if prevInOut then out[prevOff + 0]! else b[prevOff + 0]!) ^^^ b[bOff + 0]!
  let i1 := (if prevInOut then out[prevOff + 1]! else b[prevOff + 1]!) ^^^ b[bOff + 1]!
  let i2 := (if prevInOut then out[prevOff + 2]! else b[prevOff + 2]!) ^^^ b[bOff + 2]!
  let i3 := (if prevInOut then out[prevOff + 3]! else b[prevOff + 3]!) ^^^ b[bOff + 3]!
  let i4 := (if prevInOut then out[prevOff + 4]! else b[prevOff + 4]!) ^^^ b[bOff + 4]!
  let i5 := (if prevInOut then out[prevOff + 5]! else b[prevOff + 5]!) ^^^ b[bOff + 5]!
  let i6 := (if prevInOut then out[prevOff + 6]! else b[prevOff + 6]!) ^^^ b[bOff + 6]!
  let i7 := (if prevInOut then out[prevOff + 7]! else b[prevOff + 7]!) ^^^ b[bOff + 7]!
  let i8 := (if prevInOut then out[prevOff + 8]! else b[prevOff + 8]!) ^^^ b[bOff + 8]!
  let i9 := (if prevInOut then out[prevOff + 9]! else b[prevOff + 9]!) ^^^ b[bOff + 9]!
  let i10 := (if prevInOut then out[prevOff + 10]! else b[prevOff + 10]!) ^^^ b[bOff + 10]!
  let i11 := (if prevInOut then out[prevOff + 11]! else b[prevOff + 11]!) ^^^ b[bOff + 11]!
  let i12 := (if prevInOut then out[prevOff + 12]! else b[prevOff + 12]!) ^^^ b[bOff + 12]!
  let i13 := (if prevInOut then out[prevOff + 13]! else b[prevOff + 13]!) ^^^ b[bOff + 13]!
  let i14 := (if prevInOut then out[prevOff + 14]! else b[prevOff + 14]!) ^^^ b[bOff + 14]!
  let i15 := (if prevInOut then out[prevOff + 15]! else b[prevOff + 15]!) ^^^ b[bOff + 15]!
  let mut x0 := i0
  let mut x1 := i1
  let mut x2 := i2
  let mut x3 := i3
  let mut x4 := i4
  let mut x5 := i5
  let mut x6 := i6
  let mut x7 := i7
  let mut x8 := i8
  let mut x9 := i9
  let mut x10 := i10
  let mut x11 := i11
  let mut x12 := i12
  let mut x13 := i13
  let mut x14 := i14
  let mut x15 := i15
  -- double round 1
  x4 := x4 ^^^ rotl (x0 + x12) 7
  x8 := x8 ^^^ rotl (x4 + x0) 9
  x12 := x12 ^^^ rotl (x8 + x4) 13
  x0 := x0 ^^^ rotl (x12 + x8) 18
  x9 := x9 ^^^ rotl (x5 + x1) 7
  x13 := x13 ^^^ rotl (x9 + x5) 9
  x1 := x1 ^^^ rotl (x13 + x9) 13
  x5 := x5 ^^^ rotl (x1 + x13) 18
  x14 := x14 ^^^ rotl (x10 + x6) 7
  x2 := x2 ^^^ rotl (x14 + x10) 9
  x6 := x6 ^^^ rotl (x2 + x14) 13
  x10 := x10 ^^^ rotl (x6 + x2) 18
  x3 := x3 ^^^ rotl (x15 + x11) 7
  x7 := x7 ^^^ rotl (x3 + x15) 9
  x11 := x11 ^^^ rotl (x7 + x3) 13
  x15 := x15 ^^^ rotl (x11 + x7) 18
  x1 := x1 ^^^ rotl (x0 + x3) 7
  x2 := x2 ^^^ rotl (x1 + x0) 9
  x3 := x3 ^^^ rotl (x2 + x1) 13
  x0 := x0 ^^^ rotl (x3 + x2) 18
  x6 := x6 ^^^ rotl (x5 + x4) 7
  x7 := x7 ^^^ rotl (x6 + x5) 9
  x4 := x4 ^^^ rotl (x7 + x6) 13
  x5 := x5 ^^^ rotl (x4 + x7) 18
  x11 := x11 ^^^ rotl (x10 + x9) 7
  x8 := x8 ^^^ rotl (x11 + x10) 9
  x9 := x9 ^^^ rotl (x8 + x11) 13
  x10 := x10 ^^^ rotl (x9 + x8) 18
  x12 := x12 ^^^ rotl (x15 + x14) 7
  x13 := x13 ^^^ rotl (x12 + x15) 9
  x14 := x14 ^^^ rotl (x13 + x12) 13
  x15 := x15 ^^^ rotl (x14 + x13) 18
  -- double round 2
  x4 := x4 ^^^ rotl (x0 + x12) 7
  x8 := x8 ^^^ rotl (x4 + x0) 9
  x12 := x12 ^^^ rotl (x8 + x4) 13
  x0 := x0 ^^^ rotl (x12 + x8) 18
  x9 := x9 ^^^ rotl (x5 + x1) 7
  x13 := x13 ^^^ rotl (x9 + x5) 9
  x1 := x1 ^^^ rotl (x13 + x9) 13
  x5 := x5 ^^^ rotl (x1 + x13) 18
  x14 := x14 ^^^ rotl (x10 + x6) 7
  x2 := x2 ^^^ rotl (x14 + x10) 9
  x6 := x6 ^^^ rotl (x2 + x14) 13
  x10 := x10 ^^^ rotl (x6 + x2) 18
  x3 := x3 ^^^ rotl (x15 + x11) 7
  x7 := x7 ^^^ rotl (x3 + x15) 9
  x11 := x11 ^^^ rotl (x7 + x3) 13
  x15 := x15 ^^^ rotl (x11 + x7) 18
  x1 := x1 ^^^ rotl (x0 + x3) 7
  x2 := x2 ^^^ rotl (x1 + x0) 9
  x3 := x3 ^^^ rotl (x2 + x1) 13
  x0 := x0 ^^^ rotl (x3 + x2) 18
  x6 := x6 ^^^ rotl (x5 + x4) 7
  x7 := x7 ^^^ rotl (x6 + x5) 9
  x4 := x4 ^^^ rotl (x7 + x6) 13
  x5 := x5 ^^^ rotl (x4 + x7) 18
  x11 := x11 ^^^ rotl (x10 + x9) 7
  x8 := x8 ^^^ rotl (x11 + x10) 9
  x9 := x9 ^^^ rotl (x8 + x11) 13
  x10 := x10 ^^^ rotl (x9 + x8) 18
  x12 := x12 ^^^ rotl (x15 + x14) 7
  x13 := x13 ^^^ rotl (x12 + x15) 9
  x14 := x14 ^^^ rotl (x13 + x12) 13
  x15 := x15 ^^^ rotl (x14 + x13) 18
  -- double round 3
  x4 := x4 ^^^ rotl (x0 + x12) 7
  x8 := x8 ^^^ rotl (x4 + x0) 9
  x12 := x12 ^^^ rotl (x8 + x4) 13
  x0 := x0 ^^^ rotl (x12 + x8) 18
  x9 := x9 ^^^ rotl (x5 + x1) 7
  x13 := x13 ^^^ rotl (x9 + x5) 9
  x1 := x1 ^^^ rotl (x13 + x9) 13
  x5 := x5 ^^^ rotl (x1 + x13) 18
  x14 := x14 ^^^ rotl (x10 + x6) 7
  x2 := x2 ^^^ rotl (x14 + x10) 9
  x6 := x6 ^^^ rotl (x2 + x14) 13
  x10 := x10 ^^^ rotl (x6 + x2) 18
  x3 := x3 ^^^ rotl (x15 + x11) 7
  x7 := x7 ^^^ rotl (x3 + x15) 9
  x11 := x11 ^^^ rotl (x7 + x3) 13
  x15 := x15 ^^^ rotl (x11 + x7) 18
  x1 := x1 ^^^ rotl (x0 + x3) 7
  x2 := x2 ^^^ rotl (x1 + x0) 9
  x3 := x3 ^^^ rotl (x2 + x1) 13
  x0 := x0 ^^^ rotl (x3 + x2) 18
  x6 := x6 ^^^ rotl (x5 + x4) 7
  x7 := x7 ^^^ rotl (x6 + x5) 9
  x4 := x4 ^^^ rotl (x7 + x6) 13
  x5 := x5 ^^^ rotl (x4 + x7) 18
  x11 := x11 ^^^ rotl (x10 + x9) 7
  x8 := x8 ^^^ rotl (x11 + x10) 9
  x9 := x9 ^^^ rotl (x8 + x11) 13
  x10 := x10 ^^^ rotl (x9 + x8) 18
  x12 := x12 ^^^ rotl (x15 + x14) 7
  x13 := x13 ^^^ rotl (x12 + x15) 9
  x14 := x14 ^^^ rotl (x13 + x12) 13
  x15 := x15 ^^^ rotl (x14 + x13) 18
  -- double round 4
  x4 := x4 ^^^ rotl (x0 + x12) 7
  x8 := x8 ^^^ rotl (x4 + x0) 9
  x12 := x12 ^^^ rotl (x8 + x4) 13
  x0 := x0 ^^^ rotl (x12 + x8) 18
  x9 := x9 ^^^ rotl (x5 + x1) 7
  x13 := x13 ^^^ rotl (x9 + x5) 9
  x1 := x1 ^^^ rotl (x13 + x9) 13
  x5 := x5 ^^^ rotl (x1 + x13) 18
  x14 := x14 ^^^ rotl (x10 + x6) 7
  x2 := x2 ^^^ rotl (x14 + x10) 9
  x6 := x6 ^^^ rotl (x2 + x14) 13
  x10 := x10 ^^^ rotl (x6 + x2) 18
  x3 := x3 ^^^ rotl (x15 + x11) 7
  x7 := x7 ^^^ rotl (x3 + x15) 9
  x11 := x11 ^^^ rotl (x7 + x3) 13
  x15 := x15 ^^^ rotl (x11 + x7) 18
  x1 := x1 ^^^ rotl (x0 + x3) 7
  x2 := x2 ^^^ rotl (x1 + x0) 9
  x3 := x3 ^^^ rotl (x2 + x1) 13
  x0 := x0 ^^^ rotl (x3 + x2) 18
  x6 := x6 ^^^ rotl (x5 + x4) 7
  x7 := x7 ^^^ rotl (x6 + x5) 9
  x4 := x4 ^^^ rotl (x7 + x6) 13
  x5 := x5 ^^^ rotl (x4 + x7) 18
  x11 := x11 ^^^ rotl (x10 + x9) 7
  x8 := x8 ^^^ rotl (x11 + x10) 9
  x9 := x9 ^^^ rotl (x8 + x11) 13
  x10 := x10 ^^^ rotl (x9 + x8) 18
  x12 := x12 ^^^ rotl (x15 + x14) 7
  x13 := x13 ^^^ rotl (x12 + x15) 9
  x14 := x14 ^^^ rotl (x13 + x12) 13
  x15 := x15 ^^^ rotl (x14 + x13) 18
  out := out.set! (outOff + 0) (x0 + i0)
  out := out.set! (outOff + 1) (x1 + i1)
  out := out.set! (outOff + 2) (x2 + i2)
  out := out.set! (outOff + 3) (x3 + i3)
  out := out.set! (outOff + 4) (x4 + i4)
  out := out.set! (outOff + 5) (x5 + i5)
  out := out.set! (outOff + 6) (x6 + i6)
  out := out.set! (outOff + 7) (x7 + i7)
  out := out.set! (outOff + 8) (x8 + i8)
  out := out.set! (outOff + 9) (x9 + i9)
  out := out.set! (outOff + 10) (x10 + i10)
  out := out.set! (outOff + 11) (x11 + i11)
  out := out.set! (outOff + 12) (x12 + i12)
  out := out.set! (outOff + 13) (x13 + i13)
  out := out.set! (outOff + 14) (x14 + i14)
  out := out.set! (outOff + 15) (x15 + i15)
  return out

/-- scryptBlockMix (RFC 7914 §4) of the `2r` 16-word blocks of `x`, written into `y` (same size). -/
def blockMix (r : Nat) (x : Array UInt32) (y : Array UInt32) : Array UInt32 := Id.run do
  let mut y := y
  let mut prevOff := (2 * r - 1) * 16
  let mut prevInOut := false
  for i in [0:2*r] do
    let outOff := (if i % 2 == 0 then i / 2 else r + i / 2) * 16
    y := salsaStep x (16 * i) y prevInOut prevOff outOff
    prevOff := outOff
    prevInOut := true
  return y

/-- `x[k] ^= v[vOff + k]` for the whole of `x` -/
def xorFrom (x : Array UInt32) (v : Array UInt32) (vOff : Nat) : Array UInt32 := Id.run do
  let mut x := x
  for k in [0:x.size] do
    x := x.set! k (x[k]! ^^^ v[vOff + k]!)
  return x

/-- scryptROMix (RFC 7914 §5) on a block of `32r` words -/
def roMix (r N : Nat) (x0 : Array UInt32) : Array UInt32 := Id.run do
  let w := 32 * r
  let mut v : Array UInt32 := Array.emptyWithCapacity (N * w)
  let mut x := x0
  let mut y : Array UInt32 := Array.replicate w 0
  for _ in [0:N] do
    for k in [0:w] do
      v := v.push x[k]!
    y := blockMix r x y
    let t := x
    x := y
    y := t
  for _ in [0:N] do
    let lo := (x[(2 * r - 1) * 16]!).toNat
    let hi := (x[(2 * r - 1) * 16 + 1]!).toNat
    let j := (lo + hi * 4294967296) % N
    x := xorFrom x v (j * w)
    y := blockMix r x y
    let t := x
    x := y
    y := t
  return x

def wordsOfBytes (b : ByteArray) (off nWords : Nat) : Array UInt32 := Id.run do
  let mut a : Array UInt32 := Array.emptyWithCapacity nWords
  for t in [0:nWords] do
    let b0 := (b.get! (off + 4*t)).toUInt32
    let b1 := (b.get! (off + 4*t + 1)).toUInt32
    let b2 := (b.get! (off + 4*t + 2)).toUInt32
    let b3 := (b.get! (off + 4*t + 3)).toUInt32
    a := a.push (b0 ||| (b1 <<< 8) ||| (b2 <<< 16) ||| (b3 <<< 24))
  return a

def pushWords (out : ByteArray) (a : Array UInt32) : ByteArray := Id.run do
  let mut out := out
  for t in [0:a.size] do
    let x := a[t]!
    out := out.push x.toUInt8
    out := out.push (x >>> 8).toUInt8
    out := out.push (x >>> 16).toUInt8
    out := out.push (x >>> 24).toUInt8
  return out

def isPow2 (n : Nat) : Bool := n != 0 && 2 ^ n.log2 == n

def scryptBA (password salt : ByteArray) (N r p dkLen : Nat) : ByteArray := Id.run do
  let blk := 128 * r
  let b := pbkdf2HmacSha256BA password salt 1 (p * blk)
  let mut b' := ByteArray.emptyWithCapacity (p * blk)
  for i in [0:p] do
    b' := pushWords b' (roMix r N (wordsOfBytes b (i * blk) (32 * r)))
  return pbkdf2HmacSha256BA password b' 1 dkLen

end Scrypt

/-- scrypt (RFC 7914 §6). `N` must be a power of two greater than 1 and `r, p ≥ 1`; otherwise
    (where Go's `scrypt.Key` returns an error) the result is `[]`. -/
def scrypt (password salt : Bytes) (N r p dkLen : Nat) : Bytes :=
  if N ≤ 1 || !Scrypt.isPow2 N || r == 0 || p == 0 then []
  else (Scrypt.scryptBA (baOfBytes password) (baOfBytes salt) N r p dkLen).toList

end BtcVerif.Prim
