/-
  BIP340 Schnorr signatures over secp256k1, following the reference pseudo-code of the BIP,
  executable, core Lean. Independent reference implementation; no theorem unfolds it.
-/
import BtcVerif.Model.Basic
import BtcVerif.Prim.SHA256
import BtcVerif.Prim.Secp256k1

namespace BtcVerif.Prim

/-- `SHA256(SHA256(tag) ‖ SHA256(tag) ‖ msg)` -/
def taggedHash (tag : String) (msg : Bytes) : Bytes :=
  let th := sha256 tag.toUTF8.toList
  sha256 (th ++ th ++ msg)

def xorBytes (a b : Bytes) : Bytes := List.zipWith (· ^^^ ·) a b

open Secp256k1 in
/-- BIP340 default signing. `seckey` and `aux` must be 32 bytes, `msg` any length.
    `none` when the secret key is 0 or ≥ n, when a length is wrong, or when the derived nonce
    `k'` is 0 (the BIP's "Fail if k' = 0"; probability ≈ 2^-256). The optional final
    self-verification of the BIP is not performed. -/
def schnorrSign (seckey : Bytes) (msg : Bytes) (aux : Bytes) : Option Bytes :=
  if seckey.length != 32 || aux.length != 32 then none
  else
    let d' := beNat seckey
    if d' == 0 || d' ≥ n then none
    else
      match mul d' G with
      | none => none
      | some P =>
        let d := if P.2 % 2 == 0 then d' else n - d'
        let t := xorBytes (beBytes 32 d) (taggedHash "BIP0340/aux" aux)
        let rand := taggedHash "BIP0340/nonce" (t ++ serXOnly P ++ msg)
        let k' := beNat rand % n
        if k' == 0 then none
        else
          match mul k' G with
          | none => none
          | some R =>
            let k := if R.2 % 2 == 0 then k' else n - k'
            let e := beNat (taggedHash "BIP0340/challenge" (serXOnly R ++ serXOnly P ++ msg)) % n
            some (serXOnly R ++ beBytes 32 ((k + e * d) % n))

open Secp256k1 in
/-- BIP340 verification. `pubkey32` must be 32 bytes, `sig64` 64 bytes, `msg` any length. -/
def schnorrVerify (pubkey32 msg sig64 : Bytes) : Bool :=
  if pubkey32.length != 32 || sig64.length != 64 then false
  else
    match liftX (beNat pubkey32) with
    | none => false
    | some P =>
      let r := beNat (sig64.take 32)
      let s := beNat (sig64.drop 32)
      if r ≥ p || s ≥ n then false
      else
        let e := beNat (taggedHash "BIP0340/challenge" (sig64.take 32 ++ serXOnly P ++ msg)) % n
        match mulAdd s (n - e) (some P) with
        | none => false
        | some R => R.2 % 2 == 0 && R.1 == r

end BtcVerif.Prim
