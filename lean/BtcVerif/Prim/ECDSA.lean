/-
  ECDSA over secp256k1 (SEC 1 §4.1) with RFC 6979 nonces and low-S normalisation,
  executable, core Lean. Independent reference implementation; no theorem unfolds it.
-/
import BtcVerif.Model.Basic
import BtcVerif.Prim.Secp256k1
import BtcVerif.Prim.RFC6979

namespace BtcVerif.Prim

open Secp256k1 in
/-- Sign with an explicit nonce `k`; no low-S normalisation. `(0, 0)` if `r = 0` or `s = 0`. -/
def ecdsaSignWithNonce (d k : Nat) (z : Nat) : Nat × Nat :=
  match mul k G with
  | none => (0, 0)
  | some (x, _) =>
    let r := x % n
    let s := (invModN (k % n) * ((z + r * d) % n)) % n
    if r == 0 || s == 0 then (0, 0) else (r, s)

open Secp256k1 in
/-- `(r, s)` for private key `d` over the 32-byte message hash, nonce by RFC 6979,
    `s` replaced by `n - s` when `s > n/2` (BIP 62 / BIP 146 low-S). -/
def ecdsaSign (d : Nat) (hash : Bytes) : Nat × Nat :=
  let k := rfc6979Nonce d hash
  let z := bits2int256 hash
  let (r, s) := ecdsaSignWithNonce d k z
  (r, if s > n / 2 then n - s else s)

open Secp256k1 in
/-- SEC 1 §4.1.4. High-S signatures are accepted; `pub = none` (infinity) or an off-curve key is rejected. -/
def ecdsaVerify (pub : Option (Nat × Nat)) (hash : Bytes) (r s : Nat) : Bool :=
  if r == 0 || r ≥ n || s == 0 || s ≥ n then false
  else if pub.isNone || !isOnCurve pub then false
  else
    let z := bits2int256 hash
    let w := invModN s
    let u1 := (z * w) % n
    let u2 := (r * w) % n
    match mulAdd u1 u2 pub with
    | none => false
    | some (x, _) => x % n == r

end BtcVerif.Prim
