/-
  Runtime test-vector checks for the `BtcVerif.Prim` reference primitives.

    cd /verif/lean && lake build BtcVerif.Prim.Tests && lake env lean --run BtcVerif/Prim/Tests.lean

  prints PASS/FAIL per vector and a summary. `runTests` is the quick set (interpreter friendly);
  `runLongTests` adds the million-`a` hashes, the 16 MiB RFC 7914 scrypt vector and the BIP38 scrypt
  parameters, which are only pleasant when compiled.

  Published vectors are typed in here; pseudo-random cross-check vectors (generated from Python's
  hashlib and Go's standard library / the repo's dependencies) live in `TestVectors.lean`.
-/
import BtcVerif.Prim.SHA256
import BtcVerif.Prim.SHA512
import BtcVerif.Prim.RIPEMD160
import BtcVerif.Prim.HMAC
import BtcVerif.Prim.Secp256k1
import BtcVerif.Prim.RFC6979
import BtcVerif.Prim.ECDSA
import BtcVerif.Prim.BIP340
import BtcVerif.Prim.AES256
import BtcVerif.Prim.Scrypt
import BtcVerif.Prim.TestVectors

-- keep the expensive closed test expressions inside the `timed` actions (otherwise they are
-- hoisted into module-level constants and the timings read 0 ms)
set_option compiler.extract_closed false

namespace BtcVerif.Prim.Tests

open BtcVerif BtcVerif.Prim

/-! ### hex helpers -/

def hexVal (c : Char) : Nat :=
  if '0' ≤ c && c ≤ '9' then c.toNat - '0'.toNat
  else if 'a' ≤ c && c ≤ 'f' then c.toNat - 'a'.toNat + 10
  else if 'A' ≤ c && c ≤ 'F' then c.toNat - 'A'.toNat + 10
  else 0

def unhexAux : List Char → Bytes
  | a :: b :: rest => UInt8.ofNat (16 * hexVal a + hexVal b) :: unhexAux rest
  | _ => []

def unhex (s : String) : Bytes := unhexAux s.toList

def hexChar (n : Nat) : Char := if n < 10 then Char.ofNat (48 + n) else Char.ofNat (87 + n)

def hex (bs : Bytes) : String :=
  String.ofList (bs.flatMap fun b => [hexChar (b.toNat / 16), hexChar (b.toNat % 16)])

def natOfHex (s : String) : Nat := beNat (unhex s)

def ascii (s : String) : Bytes := s.toUTF8.toList

/-! ### harness -/

structure Stats where
  pass : Nat := 0
  fail : Nat := 0

abbrev T := StateT Stats IO

def check (name : String) (ok : Bool) : T Unit := do
  if ok then
    IO.println s!"PASS  {name}"
    modify fun s => { s with pass := s.pass + 1 }
  else
    IO.println s!"FAIL  {name}"
    modify fun s => { s with fail := s.fail + 1 }

/-- compare a computed byte string with the expected hex, printing both on failure -/
def checkHex (name : String) (got : Bytes) (expected : String) : T Unit := do
  let g := hex got
  let e := expected.toLower
  if g != e then IO.println s!"      got      {g}\n      expected {e}"
  check name (g == e)

/-- run an action and report its wall-clock time (a thunk, so that the pure arguments of the
    checks inside are evaluated within the timed region, not while building the action) -/
def timed (label : String) (act : Unit → T Unit) : T Unit := do
  let t0 ← IO.monoMsNow
  act ()
  let t1 ← IO.monoMsNow
  IO.println s!"TIME  {label}: {t1 - t0} ms"

def forIdx {α} (xs : List α) (f : Nat → α → T Unit) : T Unit := do
  let mut i := 0
  for x in xs do
    f i x
    i := i + 1

/-! ### SHA-512 -/

def testSha512 (long : Bool) : T Unit := do
  checkHex "sha512 FIPS180 \"abc\"" (sha512 (ascii "abc"))
    "ddaf35a193617abacc417349ae20413112e6fa4e89a97ea20a9eeee64b55d39a2192992a274fc1a836ba3c23a3feebbd454d4423643ce80e2a9ac94fa54ca49f"
  checkHex "sha512 empty" (sha512 [])
    "cf83e1357eefb8bdf1542850d66d8007d620e4050b5715dc83f4a921d36ce9ce47d0d13c5d85f2b0ff8318d2877eec2f63b931bd47417a81a538327af927da3e"
  checkHex "sha512 FIPS180 896-bit message"
    (sha512 (ascii "abcdefghbcdefghicdefghijdefghijkefghijklfghijklmghijklmnhijklmnoijklmnopjklmnopqklmnopqrlmnopqrsmnopqrstnopqrstu"))
    "8e959b75dae313da8cf4f72814fc143f8f7779c6eb9f7fa17299aeadb6889018501d289e4900f7e4331b99dec4b5433ac7d329eeb6dd26545e96e55b874be909"
  if long then
    timed "sha512 of 1,000,000 bytes" fun _ => do
      checkHex "sha512 FIPS180 one million 'a'" (sha512 (List.replicate 1000000 0x61))
        "e718483d0ce769644e2e42c7bc15b4638e1f98b13b2044285632a803afa973ebde0ff244877ea60a4cb0432ce577c31beb009c5c2c49aa2e4eadb217ad8cc09b"
  forIdx TestVectors.crossSha512 fun i (m, d) =>
    checkHex s!"sha512 cross-check #{i} (len {m.length / 2}) vs Python hashlib" (sha512 (unhex m)) d

/-! ### RIPEMD-160 -/

def testRipemd160 (long : Bool) : T Unit := do
  let published : List (String × String) := [
    ("", "9c1185a5c5e9fc54612808977ee8f548b2258d31"),
    ("a", "0bdc9d2d256b3ee9daae347be6f4dc835a467ffe"),
    ("abc", "8eb208f7e05d987a9b044a8e98c6b087f15a0bfc"),
    ("message digest", "5d0689ef49d2fae572b881b123a85ffa21595f36"),
    ("abcdefghijklmnopqrstuvwxyz", "f71c27109c692c1b56bbdceb5b9d2865b3708dbc"),
    ("abcdbcdecdefdefgefghfghighijhijkijkljklmklmnlmnomnopnopq", "12a053384a9c0c88e405a06c27dcf49ada62eb2b"),
    ("ABCDEFGHIJKLMNOPQRSTUVWXYZabcdefghijklmnopqrstuvwxyz0123456789", "b0e20b6e3116640286ed3a87a5713079b21f5189"),
    ("12345678901234567890123456789012345678901234567890123456789012345678901234567890",
      "9b752e45573d4b39f4dbd3323cab82bf63326bfb")]
  forIdx published fun i (m, d) =>
    checkHex s!"ripemd160 homepage vector #{i} \"{m.take 16}\"" (ripemd160 (ascii m)) d
  if long then
    timed "ripemd160 of 1,000,000 bytes" fun _ => do
      checkHex "ripemd160 homepage one million 'a'" (ripemd160 (List.replicate 1000000 0x61))
        "52783243c1697bdbe16d37f97f68f08325dc1528"
  forIdx TestVectors.crossRipemd160 fun i (m, d) =>
    checkHex s!"ripemd160 cross-check #{i} (len {m.length / 2}) vs Go x/crypto" (ripemd160 (unhex m)) d
  forIdx TestVectors.crossHash160 fun i (m, d) =>
    checkHex s!"hash160 cross-check #{i} (len {m.length / 2}) vs Python hashlib" (hash160 (unhex m)) d
  -- HASH160 of the compressed generator: the hash behind address 1BgGZ9tcN4rm9KBzDn7KprQz87SZ26SAMH
  checkHex "hash160 of compressed G"
    (hash160 (unhex "0279be667ef9dcbbac55a06295ce870b07029bfcdb2dce28d959f2815b16f81798"))
    "751e76e8199196d454941c45d1b3a323f1433bd6"

/-! ### HMAC, PBKDF2 -/

def testHmac : T Unit := do
  -- RFC 4231 test cases 1, 2, 3, 4, 6, 7 (case 5 is a truncation test)
  let aa131 := List.replicate 131 (0xaa : UInt8)
  let rfc4231 : List (String × Bytes × Bytes × String × String) := [
    ("1", List.replicate 20 0x0b, ascii "Hi There",
      "b0344c61d8db38535ca8afceaf0bf12b881dc200c9833da726e9376c2e32cff7",
      "87aa7cdea5ef619d4ff0b4241a1d6cb02379f4e2ce4ec2787ad0b30545e17cdedaa833b7d6b8a702038b274eaea3f4e4be9d914eeb61f1702e696c203a126854"),
    ("2", ascii "Jefe", ascii "what do ya want for nothing?",
      "5bdcc146bf60754e6a042426089575c75a003f089d2739839dec58b964ec3843",
      "164b7a7bfcf819e2e395fbe73b56e0a387bd64222e831fd610270cd7ea2505549758bf75c05a994a6d034f65f8f0e6fdcaeab1a34d4a6b4b636e070a38bce737"),
    ("3", List.replicate 20 0xaa, List.replicate 50 0xdd,
      "773ea91e36800e46854db8ebd09181a72959098b3ef8c122d9635514ced565fe",
      "fa73b0089d56a284efb0f0756c890be9b1b5dbdd8ee81a3655f83e33b2279d39bf3e848279a722c806b485a47e67c807b946a337bee8942674278859e13292fb"),
    ("4", unhex "0102030405060708090a0b0c0d0e0f10111213141516171819", List.replicate 50 0xcd,
      "82558a389a443c0ea4cc819899f2083a85f0faa3e578f8077a2e3ff46729665b",
      "b0ba465637458c6990e5a8c5f61d4af7e576d97ff94b872de76f8050361ee3dba91ca5c11aa25eb4d679275cc5788063a5f19741120c4f2de2adebeb10a298dd"),
    ("6", aa131, ascii "Test Using Larger Than Block-Size Key - Hash Key First",
      "60e431591ee0b67f0d8a26aacbf5b77f8e0bc6213728c5140546040f0ee37f54",
      "80b24263c7c1a3ebb71493c1dd7be8b49b46d1f41b4aeec1121b013783f8f3526b56d037e05f2598bd0fd2215d6a1e5295e64f73f63f0aec8b915a985d786598"),
    ("7", aa131, ascii "This is a test using a larger than block-size key and a larger than block-size data. The key needs to be hashed before being used by the HMAC algorithm.",
      "9b09ffa71b942fcb27635fbcd5b0e944bfdc63644f0713938a7f51535c3a35e2",
      "e37b6a775dc87dbaa4dfa9f96e5e3ffddebd71f8867289865df5a32d20cdc944b6022cac3c4982b10d5eeb55c3e4de15134676fb6de0446065c97440fa8c6a58")]
  for (name, k, m, d256, d512) in rfc4231 do
    checkHex s!"hmac-sha256 RFC4231 case {name}" (hmacSha256 k m) d256
    checkHex s!"hmac-sha512 RFC4231 case {name}" (hmacSha512 k m) d512
  forIdx TestVectors.crossHmac fun i (k, m, d256, d512) => do
    checkHex s!"hmac-sha256 cross-check #{i} (key len {k.length / 2}) vs Python hmac" (hmacSha256 (unhex k) (unhex m)) d256
    checkHex s!"hmac-sha512 cross-check #{i} (key len {k.length / 2}) vs Python hmac" (hmacSha512 (unhex k) (unhex m)) d512

def testPbkdf2 : T Unit := do
  timed "pbkdf2-hmac-sha512, 2048 iterations, 64 bytes" fun _ => do
    checkHex "pbkdf2-hmac-sha512 BIP39 'abandon … about' / TREZOR"
      (pbkdf2HmacSha512
        (ascii "abandon abandon abandon abandon abandon abandon abandon abandon abandon abandon abandon about")
        (ascii "mnemonicTREZOR") 2048 64)
      "c55257c360c07c72029aebc1b53c05ed0362ada38ead3e3e9efa3708e53495531f09a6987599d18264c1e1c92f2cf141630c7a3c4ab7c81b2f001698e7463b04"
  checkHex "pbkdf2-hmac-sha512 password/salt c=1"
    (pbkdf2HmacSha512 (ascii "password") (ascii "salt") 1 64)
    "867f70cf1ade02cff3752599a3a53dc4af34c7a669815ae5d513554e1c8cf252c02d470a285a0501bad999bfe943c08f050235d7d68b1da55e63f73b60a57fce"
  checkHex "pbkdf2-hmac-sha256 RFC7914 §11 passwd/salt c=1"
    (pbkdf2HmacSha256 (ascii "passwd") (ascii "salt") 1 64)
    "55ac046e56e3089fec1691c22544b605f94185216dde0465e68b9d57c20dacbc49ca9cccf179b645991664b39d77ef317c71b845b1e30bd509112041d3a19783"
  timed "pbkdf2-hmac-sha256, 4096 iterations, 32 bytes" fun _ => do
    checkHex "pbkdf2-hmac-sha256 password/salt c=4096"
      (pbkdf2HmacSha256 (ascii "password") (ascii "salt") 4096 32)
      "c5e478d59288c841aa530db6845c4c8d962893a001ce4e11a4963873aa98134a"
  forIdx TestVectors.crossPbkdf2 fun i (pw, salt, c, dk, d256, d512) => do
    checkHex s!"pbkdf2-hmac-sha256 cross-check #{i} (c={c}, dkLen={dk}) vs Python hashlib"
      (pbkdf2HmacSha256 (unhex pw) (unhex salt) c dk) d256
    checkHex s!"pbkdf2-hmac-sha512 cross-check #{i} (c={c}, dkLen={dk}) vs Python hashlib"
      (pbkdf2HmacSha512 (unhex pw) (unhex salt) c dk) d512

/-! ### secp256k1 -/

open Secp256k1 in
def testSecp : T Unit := do
  let pt (x y : String) : Secp256k1.Point := some (natOfHex x, natOfHex y)
  let g2 := pt "c6047f9441ed7d6d3045406e95c07cd85c778e4b8cef3ca7abac09b95c709ee5"
               "1ae168fea63dc339a3c58419466ceaeef7f632653266d0e1236431a950cfe52a"
  let g3 := pt "f9308a019258c31049344f85f89d5229b531c845836f99b08601f113bce036f9"
               "388f7b0f632de8140fe337e62a37f3566500a99934c2231b6cb9fd7584b8e672"
  let gm := pt "79be667ef9dcbbac55a06295ce870b07029bfcdb2dce28d959f2815b16f81798"
               "b7c52588d95c3b9aa25b0403f1eef75702e84bb7597aabe663b82f6f04ef2777"
  check "secp256k1 p = 2^256 - 2^32 - 977" (p == 2^256 - 2^32 - 977)
  check "secp256k1 G on curve" (isOnCurve G)
  check "secp256k1 1·G = G" (mul 1 G == G)
  check "secp256k1 2·G" (mul 2 G == g2)
  check "secp256k1 3·G" (mul 3 G == g3)
  check "secp256k1 (n-1)·G = -G" (mul (n - 1) G == gm && neg G == gm)
  check "secp256k1 n·G = ∞ (via Jacobian, unreduced)" ((Jac.mul n (Jac.ofAffine G)).toAffine == none)
  check "secp256k1 0·G = ∞" (mul 0 G == none)
  check "secp256k1 G + G = 2G (doubling branch of add)" (add G G == g2 && double G == g2)
  check "secp256k1 G + 2G = 3G" (add G g2 == g3 && add g2 G == g3)
  check "secp256k1 G + (-G) = ∞" (add G (neg G) == none)
  check "secp256k1 ∞ + G = G + ∞ = G, ∞ + ∞ = ∞" (add none G == G && add G none == G && add none none == none)
  check "secp256k1 3G - G = 2G" (add g3 (neg G) == g2)
  check "secp256k1 mulAdd 2 3 (3G) = 11G" (mulAdd 2 3 g3 == mul 11 G)
  check "secp256k1 finv / invModN" (fmul (finv 12345) 12345 == 1 && (invModN 98765 * 98765) % n == 1)
  check "secp256k1 liftX Gx = G (Gy is even)" (liftX Gx == some (Gx, Gy))
  check "secp256k1 liftX rejects x ≥ p" (liftX p == none && liftX (p + 1) == none)
  check "secp256k1 liftX rejects x = 5 (not on curve)" (liftX 5 == none)
  check "secp256k1 isOnCurve rejects (Gx, Gy+1), unreduced coords" (!isOnCurve (some (Gx, Gy + 1)) && !isOnCurve (some (Gx + p, Gy)))
  -- serialisation
  let gX := "79be667ef9dcbbac55a06295ce870b07029bfcdb2dce28d959f2815b16f81798"
  let gY := "483ada7726a3c4655da4fbfc0e1108a8fd17b448a68554199c47d08ffb10d4b8"
  let gC := "02" ++ gX
  let gXY := gX ++ gY
  let gU := "04" ++ gXY
  checkHex "secp256k1 serCompressed G" (serCompressed (Gx, Gy)) gC
  checkHex "secp256k1 serUncompressed G" (serUncompressed (Gx, Gy)) gU
  checkHex "secp256k1 serXOnly G" (serXOnly (Gx, Gy)) (gX)
  checkHex "secp256k1 serCompressed -G has prefix 03" (serCompressed (Gx, p - Gy)) ("03" ++ gX)
  check "secp256k1 parsePoint compressed / uncompressed / x-only G"
    (parsePoint (unhex gC) == some (Gx, Gy) && parsePoint (unhex gU) == some (Gx, Gy)
      && parsePoint (unhex (gX)) == some (Gx, Gy))
  check "secp256k1 parsePoint 03‖Gx = -G" (parsePoint (unhex ("03" ++ gX)) == some (Gx, p - Gy))
  check "secp256k1 parsePoint rejects wrong prefixes" (
    parsePoint (unhex ("04" ++ gX)) == none && parsePoint (unhex ("00" ++ gX)) == none
    && parsePoint (unhex ("02" ++ gXY)) == none && parsePoint (unhex ("06" ++ gXY)) == none
    && parsePoint (unhex ("07" ++ gXY)) == none)
  check "secp256k1 parsePoint rejects wrong lengths" (
    parsePoint [] == none && parsePoint [0] == none && parsePoint (unhex (gC ++ "00")) == none
    && parsePoint (unhex (gU ++ "00")) == none && parsePoint ((unhex gU).take 64) == none
    && parsePoint ((unhex gC).take 31) == none)
  check "secp256k1 parsePoint rejects off-curve uncompressed point"
    (parsePoint (unhex ("04" ++ gX ++ "483ada7726a3c4655da4fbfc0e1108a8fd17b448a68554199c47d08ffb10d4b9")) == none)
  check "secp256k1 parsePoint rejects x not on curve (BIP340 vector 5 key) and x ≥ p (vector 14 key)" (
    parsePoint (unhex "eefdea4cdb677750a420fee807eacf21eb9898ae79b9768766e4faa04a2d4a34") == none
    && parsePoint (unhex "02eefdea4cdb677750a420fee807eacf21eb9898ae79b9768766e4faa04a2d4a34") == none
    && parsePoint (unhex "fffffffffffffffffffffffffffffffffffffffffffffffffffffffefffffc30") == none
    && parsePoint (unhex "03fffffffffffffffffffffffffffffffffffffffffffffffffffffffefffffc30") == none)
  check "secp256k1 parsePoint rejects uncompressed with x + p (x = 1+p would alias x = 1)" (
    parsePoint (unhex ("04" ++ hex (beBytes 32 p) ++ gY)) == none)
  timed "6 × (k·G, k2·P, P+Q) cross-check" fun _ => do
    forIdx TestVectors.crossMul fun i (k, x, y, k2, x2, y2, x3, y3) => do
      let P := mul (natOfHex k) G
      check s!"secp256k1 cross-check #{i} k·G vs ekliptic" (P == pt x y)
      let Q := mul (natOfHex k2) P
      check s!"secp256k1 cross-check #{i} k2·(k·G) vs ekliptic" (Q == pt x2 y2 && isOnCurve Q)
      check s!"secp256k1 cross-check #{i} P + Q vs ekliptic" (add P Q == pt x3 y3)
      check s!"secp256k1 cross-check #{i} parse ∘ serialise round trip" (
        match Q with
        | some q => parsePoint (serCompressed q) == some q && parsePoint (serUncompressed q) == some q
                      && (parsePoint (serXOnly q)).map (·.1) == some q.1
        | none => false)

/-! ### RFC 6979, ECDSA -/

open Secp256k1 in
def testEcdsa : T Unit := do
  let satoshi := sha256 (ascii "Satoshi Nakamoto")
  checkHex "sha256(\"Satoshi Nakamoto\")" satoshi "a0dc65ffca799873cbea0ac274015b9526505daaaed385155425f7337704883e"
  checkHex "rfc6979 d=1, sha256(\"Satoshi Nakamoto\") (well-known secp256k1 vector)"
    (beBytes 32 (rfc6979Nonce 1 satoshi)) "8f8a276c19f4149656b280621e358cce24f5f52542772691ee69063b74f15d15"
  let (r, s) := ecdsaSign 1 satoshi
  checkHex "ecdsa d=1, \"Satoshi Nakamoto\" signature (well-known vector)" (beBytes 32 r ++ beBytes 32 s)
    "934b1ea10a4b3c1757e2b0c017d0b6143ce3c9a7e6a4a49860d7a6ab210ee3d82442ce9d2b916064108014783e923ec36b49743e2ffa1c4496f01a512aafd9e5"
  check "ecdsa verify of that signature" (ecdsaVerify G satoshi r s)
  check "ecdsa verify rejects r=0, s=0, r=n, s=n, pub=∞, off-curve pub" (
    !ecdsaVerify G satoshi 0 s && !ecdsaVerify G satoshi r 0 && !ecdsaVerify G satoshi n s
    && !ecdsaVerify G satoshi r n && !ecdsaVerify none satoshi r s && !ecdsaVerify (some (Gx, Gy + 1)) satoshi r s)
  check "ecdsa verify rejects r+n aliasing" (!ecdsaVerify G satoshi (r + n) s)
  timed "12 × (nonce, sign, 3 verifies) cross-check" fun _ => do
    forIdx TestVectors.crossEcdsa fun i (d, h, k, r, s, pub) => do
      let d := natOfHex d
      let h := unhex h
      checkHex s!"rfc6979 cross-check #{i} vs kklash/rfc6979" (beBytes 32 (rfc6979Nonce d h)) k
      let (r', s') := ecdsaSign d h
      checkHex s!"ecdsa sign cross-check #{i} vs ecc.SignECDSA" (beBytes 32 r' ++ beBytes 32 s') (r ++ s)
      check s!"ecdsa sign cross-check #{i} low-S" (s' ≤ n / 2)
      let P := mul d G
      check s!"ecdsa pubkey cross-check #{i} vs ecc.GetPublicKeyCompressed"
        (P.map (fun q => hex (serCompressed q)) == some pub && parsePoint (unhex pub) == P)
      check s!"ecdsa verify cross-check #{i}: accepts low-S and high-S, rejects other hash"
        (ecdsaVerify P h r' s' && ecdsaVerify P h r' (n - s') && !ecdsaVerify P (sha256 h) r' s'
          && !ecdsaVerify P h s' r')

/-! ### BIP340 -/

def testBip340 : T Unit := do
  checkHex "taggedHash \"BIP0340/challenge\" midstate check: tag hash"
    (sha256 (ascii "BIP0340/challenge")) "7bb52d7a9fef58323eb1bf7a407db382d2f3f2d81bb1224f49fe518f6d48d37c"
  timed "15 official BIP340 vectors" fun _ => do
    for (idx, sk, pk, aux, msg, sig, ok) in TestVectors.bip340 do
      if sk != "" then
        let P := Secp256k1.mul (natOfHex sk) Secp256k1.G
        check s!"bip340 vector {idx}: public key" (P.map (fun q => hex (Secp256k1.serXOnly q)) == some pk)
        check s!"bip340 vector {idx}: schnorrSign"
          ((schnorrSign (unhex sk) (unhex msg) (unhex aux)).map hex == some sig)
      check s!"bip340 vector {idx}: schnorrVerify = {ok}"
        (schnorrVerify (unhex pk) (unhex msg) (unhex sig) == ok)
  check "bip340 sign rejects seckey 0, seckey n, short key, short aux" (
    let z := List.replicate 32 (0 : UInt8)
    schnorrSign z z z == none && schnorrSign (beBytes 32 Secp256k1.n) z z == none
    && schnorrSign (z.take 31) z z == none && schnorrSign (beBytes 32 1) z (z.take 31) == none)
  check "bip340 verify rejects wrong lengths" (
    let z := List.replicate 32 (0 : UInt8)
    !schnorrVerify (z.take 31) z (z ++ z) && !schnorrVerify z z (z ++ z.take 31) && !schnorrVerify (0x02 :: z) z (z ++ z))

/-! ### AES-256 -/

def testAes : T Unit := do
  check "aes sbox[0x00]=63, sbox[0x01]=7c, sbox[0x53]=ed, sbox[0xff]=16 (FIPS 197 fig. 7)"
    (AES.sbox[0]! == 0x63 && AES.sbox[1]! == 0x7c && AES.sbox[0x53]! == 0xed && AES.sbox[0xff]! == 0x16)
  let key := unhex "000102030405060708090a0b0c0d0e0f101112131415161718191a1b1c1d1e1f"
  let pt := unhex "00112233445566778899aabbccddeeff"
  checkHex "aes256 FIPS197 C.3 encrypt" (aes256EncryptBlock key pt) "8ea2b7ca516745bfeafc49904b496089"
  checkHex "aes256 FIPS197 C.3 decrypt" (aes256DecryptBlock key (unhex "8ea2b7ca516745bfeafc49904b496089"))
    "00112233445566778899aabbccddeeff"
  checkHex "aes256 FIPS197 A.3 key expansion, last round key"
    ((AES.expandKey256 (baOfBytes (unhex "603deb1015ca71be2b73aef0857d77811f352c073b6108d72d9810a30914dff4"))).toList.drop 224)
    "fe4890d1e6188d0b046df344706c631e"
  -- NIST SP 800-38A F.1.5 ECB-AES256.Encrypt block 1
  checkHex "aes256 SP800-38A F.1.5 block 1"
    (aes256EncryptBlock (unhex "603deb1015ca71be2b73aef0857d77811f352c073b6108d72d9810a30914dff4")
      (unhex "6bc1bee22e409f96e93d7e117393172a")) "f3eed1bdb5d2a03c064b5a7e3db181f8"
  check "aes256 bad lengths give []" (aes256EncryptBlock (key.take 31) pt == [] && aes256DecryptBlock key (pt ++ [0]) == [])
  forIdx TestVectors.crossAes256 fun i (k, p, c) => do
    checkHex s!"aes256 encrypt cross-check #{i} vs Go crypto/aes" (aes256EncryptBlock (unhex k) (unhex p)) c
    checkHex s!"aes256 decrypt cross-check #{i} vs Go crypto/aes" (aes256DecryptBlock (unhex k) (unhex c)) p

/-! ### scrypt -/

def testScrypt (long : Bool) : T Unit := do
  checkHex "scrypt RFC7914 §12 #1 (\"\", \"\", N=16, r=1, p=1)" (scrypt [] [] 16 1 1 64)
    "77d6576238657b203b19ca42c18a0497f16b4844e3074ae8dfdffa3fede21442fcd0069ded0948f8326a753a0fc81f17e8d3e0fb2e0d3628cf35e20c38d18906"
  forIdx TestVectors.crossScrypt fun i (pw, salt, N, r, p, dk) =>
    checkHex s!"scrypt cross-check #{i} (N={N}, r={r}, p={p}, dkLen={dk.length / 2}) vs Go x/crypto"
      (scrypt (unhex pw) (unhex salt) N r p (dk.length / 2)) dk
  check "scrypt rejects N=0, N=1, N=24, r=0, p=0" (
    scrypt [] [] 0 1 1 8 == [] && scrypt [] [] 1 1 1 8 == [] && scrypt [] [] 24 1 1 8 == []
    && scrypt [] [] 16 0 1 8 == [] && scrypt [] [] 16 1 0 8 == [])
  timed "scrypt N=1024 r=8 p=16" fun _ => do
    checkHex "scrypt RFC7914 §12 #2 (password, NaCl, N=1024, r=8, p=16)"
      (scrypt (ascii "password") (ascii "NaCl") 1024 8 16 64)
      "fdbabe1c9d3472007856e7190d01e9fe7c6ad7cbc8237830e77376634b3731622eaf30d92e22a3886ff109279d9830dac727afb94a83ee6d8360cbdfa2cc0640"
  if long then
    timed "scrypt N=16384 r=8 p=1" fun _ => do
      checkHex "scrypt RFC7914 §12 #3 (pleaseletmein, SodiumChloride, N=16384, r=8, p=1)"
        (scrypt (ascii "pleaseletmein") (ascii "SodiumChloride") 16384 8 1 64)
        "7023bdcb3afd7348461c06cd81fd38ebfda8fbba904f8e3ea9b543f6545da1f2d5432955613f0fcf62d49705242a9af9e61e85dc0d651e40dfcf017b45575887"
    timed "scrypt N=16384 r=8 p=8 (the BIP38 parameters)" fun _ => do
      -- BIP38 test vector "No compression, no EC multiply #1": passphrase TestingOneTwoThree,
      -- salt = first 4 bytes of sha256d(address 1Jq6MksXQVWzrznvZzxkV6oY57oWXD9TXB) = e957a24a;
      -- expected value computed with Python hashlib.scrypt (OpenSSL)
      checkHex "scrypt BIP38 parameters (TestingOneTwoThree, e957a24a)"
        (scrypt (ascii "TestingOneTwoThree") (unhex "e957a24a") 16384 8 8 64)
        "f87648a6b42fdd86ef6837a249cde15318f264d43a859b610e78ea63d51cb2d3e60bf44bfb29d543bba24afcccfadbfc6ef9312fcccf589fa5ea1366ec21e4c0"

/-! ### driver -/

def runAll (long : Bool) : T Unit := do
  testSha512 long
  testRipemd160 long
  testHmac
  testPbkdf2
  testSecp
  testEcdsa
  testBip340
  testAes
  testScrypt long

end BtcVerif.Prim.Tests

open BtcVerif.Prim.Tests in
/-- quick set when `long = false`; everything when `true` -/
def runTestsWith (long : Bool) : IO Unit := do
  let t0 ← IO.monoMsNow
  let ((), st) ← (runAll long).run {}
  let t1 ← IO.monoMsNow
  IO.println s!"SUMMARY  {st.pass} passed, {st.fail} failed, {t1 - t0} ms"
  if st.fail != 0 then
    throw (IO.userError s!"{st.fail} primitive test vector(s) failed")

def runTests : IO Unit := runTestsWith false

def runLongTests : IO Unit := runTestsWith true

/-- `lean --run BtcVerif/Prim/Tests.lean` runs the quick set; append `--long` for everything -/
def main (args : List String) : IO Unit :=
  if args.contains "--long" then runLongTests else runTests
