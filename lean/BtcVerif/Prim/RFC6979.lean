/-
  RFC 6979 §3.2 deterministic nonce for secp256k1 with HMAC-SHA256 (qlen = hlen = 256),
  executable, core Lean. Independent reference implementation; no theorem unfolds it.
-/
import BtcVerif.Model.Basic
import BtcVerif.Prim.HMAC
import BtcVerif.Prim.Secp256k1

namespace BtcVerif.Prim

/-- RFC 6979 §2.3.2 `bits2int` for qlen = 256: the leftmost 256 bits as a big-endian integer -/
def bits2int256 (bs : Bytes) : Nat :=
  let v := beNat bs
  let blen := 8 * bs.length
  if blen > 256 then v >>> (blen - 256) else v

/-- RFC 6979 §2.3.4 `bits2octets`: `bits2int` reduced modulo the group order, as 32 bytes -/
def bits2octets256 (bs : Bytes) : Bytes :=
  beBytes 32 (bits2int256 bs % Secp256k1.n)

/-- The first candidate `k ∈ [1, n-1]` of RFC 6979 §3.2 for private key `privKey` and message
    hash `hash` (the already computed `H(m)`, normally 32 bytes). -/
def rfc6979Nonce (privKey : Nat) (hash : Bytes) : Nat := Id.run do
  let x := baOfBytes (beBytes 32 privKey)            -- int2octets(x)
  let h := baOfBytes (bits2octets256 hash)
  let mut v := baOfBytes (List.replicate 32 (0x01 : UInt8))   -- step b
  let mut k := baOfBytes (List.replicate 32 (0x00 : UInt8))   -- step c
  k := hmacSha256BA k (((v.push 0x00) ++ x) ++ h)             -- step d
  v := hmacSha256BA k v                                       -- step e
  k := hmacSha256BA k (((v.push 0x01) ++ x) ++ h)             -- step f
  v := hmacSha256BA k v                                       -- step g
  -- step h: one HMAC output is exactly qlen bits, so T = V
  for _ in [0:10000] do
    v := hmacSha256BA k v
    let cand := beNat v.toList
    if 1 ≤ cand && cand < Secp256k1.n then
      return cand
    k := hmacSha256BA k (v.push 0x00)
    v := hmacSha256BA k v
  return 0   -- unreachable in practice (probability ≈ 2^-1280000)

end BtcVerif.Prim
