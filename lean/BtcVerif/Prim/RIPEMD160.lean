/-
  RIPEMD-160 (Dobbertin, Bosselaers, Preneel 1996), executable, core Lean.
  Independent reference implementation; no theorem unfolds it.
-/
import BtcVerif.Model.Basic
import BtcVerif.Prim.SHA256

namespace BtcVerif.Prim

/-- message word selection, left line -/
def rmdRL : Array Nat := #[
  0, 1, 2, 3, 4, 5, 6, 7, 8, 9, 10, 11, 12, 13, 14, 15,
  7, 4, 13, 1, 10, 6, 15, 3, 12, 0, 9, 5, 2, 14, 11, 8,
  3, 10, 14, 4, 9, 15, 8, 1, 2, 7, 0, 6, 13, 11, 5, 12,
  1, 9, 11, 10, 0, 8, 12, 4, 13, 3, 7, 15, 14, 5, 6, 2,
  4, 0, 5, 9, 7, 12, 2, 10, 14, 1, 3, 8, 11, 6, 15, 13]

/-- rotation amounts, left line -/
def rmdSL : Array UInt32 := #[
  11, 14, 15, 12, 5, 8, 7, 9, 11, 13, 14, 15, 6, 7, 9, 8,
  7, 6, 8, 13, 11, 9, 7, 15, 7, 12, 15, 9, 11, 7, 13, 12,
  11, 13, 6, 7, 14, 9, 13, 15, 14, 8, 13, 6, 5, 12, 7, 5,
  11, 12, 14, 15, 14, 15, 9, 8, 9, 14, 5, 6, 8, 6, 5, 12,
  9, 15, 5, 11, 6, 8, 13, 12, 5, 12, 13, 14, 11, 8, 5, 6]

/-- message word selection, right line -/
def rmdRR : Array Nat := #[
  5, 14, 7, 0, 9, 2, 11, 4, 13, 6, 15, 8, 1, 10, 3, 12,
  6, 11, 3, 7, 0, 13, 5, 10, 14, 15, 8, 12, 4, 9, 1, 2,
  15, 5, 1, 3, 7, 14, 6, 9, 11, 8, 12, 2, 10, 0, 4, 13,
  8, 6, 4, 1, 3, 11, 15, 0, 5, 12, 2, 13, 9, 7, 10, 14,
  12, 15, 10, 4, 1, 5, 8, 7, 6, 2, 13, 14, 0, 3, 9, 11]

/-- rotation amounts, right line -/
def rmdSR : Array UInt32 := #[
  8, 9, 9, 11, 13, 15, 15, 5, 7, 7, 8, 11, 14, 14, 12, 6,
  9, 13, 15, 7, 12, 8, 9, 11, 7, 7, 12, 7, 6, 15, 13, 11,
  9, 7, 15, 11, 8, 6, 6, 14, 12, 13, 5, 14, 13, 13, 7, 5,
  15, 5, 8, 11, 14, 14, 6, 14, 6, 9, 12, 9, 12, 5, 15, 8,
  8, 5, 12, 9, 12, 5, 14, 6, 8, 13, 6, 5, 15, 13, 11, 11]

def rmdKL : Array UInt32 := #[0x00000000, 0x5A827999, 0x6ED9EBA1, 0x8F1BBCDC, 0xA953FD4E]
def rmdKR : Array UInt32 := #[0x50A28BE6, 0x5C4DD124, 0x6D703EF3, 0x7A6D76E9, 0x00000000]

def rmdInit : Array UInt32 := #[0x67452301, 0xEFCDAB89, 0x98BADCFE, 0x10325476, 0xC3D2E1F0]

@[inline] def rotl32 (x : UInt32) (k : UInt32) : UInt32 := (x <<< k) ||| (x >>> (32 - k))

/-- the five round functions, selected by `j / 16` -/
@[inline] def rmdF (round : Nat) (x y z : UInt32) : UInt32 :=
  match round with
  | 0 => x ^^^ y ^^^ z
  | 1 => (x &&& y) ||| ((~~~ x) &&& z)
  | 2 => (x ||| (~~~ y)) ^^^ z
  | 3 => (x &&& z) ||| (y &&& (~~~ z))
  | _ => x ^^^ (y ||| (~~~ z))

def rmdBlock (h : Array UInt32) (msg : ByteArray) (off : Nat) : Array UInt32 := Id.run do
  let mut x : Array UInt32 := Array.replicate 16 0
  for t in [0:16] do
    let b0 := (msg.get! (off + 4*t)).toUInt32
    let b1 := (msg.get! (off + 4*t + 1)).toUInt32
    let b2 := (msg.get! (off + 4*t + 2)).toUInt32
    let b3 := (msg.get! (off + 4*t + 3)).toUInt32
    x := x.set! t (b0 ||| (b1 <<< 8) ||| (b2 <<< 16) ||| (b3 <<< 24))
  let mut a := h[0]!
  let mut b := h[1]!
  let mut c := h[2]!
  let mut d := h[3]!
  let mut e := h[4]!
  let mut a' := a
  let mut b' := b
  let mut c' := c
  let mut d' := d
  let mut e' := e
  for j in [0:80] do
    let rnd := j / 16
    let t := rotl32 (a + rmdF rnd b c d + x[rmdRL[j]!]! + rmdKL[rnd]!) rmdSL[j]! + e
    a := e; e := d; d := rotl32 c 10; c := b; b := t
    let t' := rotl32 (a' + rmdF (4 - rnd) b' c' d' + x[rmdRR[j]!]! + rmdKR[rnd]!) rmdSR[j]! + e'
    a' := e'; e' := d'; d' := rotl32 c' 10; c' := b'; b' := t'
  let t := h[1]! + c + d'
  return #[t, h[2]! + d + e', h[3]! + e + a', h[4]! + a + b', h[0]! + b + c']

def rmdPad (msg : ByteArray) : ByteArray := Id.run do
  let bits := msg.size * 8
  let mut m := msg.push 0x80
  for _ in [0:(120 - m.size % 64) % 64] do
    m := m.push 0
  for i in [0:8] do
    m := m.push (UInt8.ofNat ((bits >>> (8 * i)) % 256))
  return m

def ripemd160BA (msg : ByteArray) : ByteArray := Id.run do
  let m := rmdPad msg
  let mut h := rmdInit
  for i in [0:m.size / 64] do
    h := rmdBlock h m (64 * i)
  let mut out := ByteArray.emptyWithCapacity 20
  for i in [0:5] do
    let x := h[i]!
    out := out.push x.toUInt8
    out := out.push (x >>> 8).toUInt8
    out := out.push (x >>> 16).toUInt8
    out := out.push (x >>> 24).toUInt8
  return out

def ripemd160 (bs : Bytes) : Bytes := (ripemd160BA (ByteArray.mk bs.toArray)).toList

/-- Bitcoin's HASH160 -/
def hash160 (bs : Bytes) : Bytes := ripemd160 (sha256 bs)

end BtcVerif.Prim
