/-
  IEEE-754 binary64 arithmetic, exact, over `Nat`/`Int` (no `Float`): round-to-nearest-even of a
  rational to `p` significant bits (`roundPos`, also used for `math/big.Float` at precision 64), and the
  binary64 operations the modelled Go code uses: conversion from an unsigned integer, `*`, `/`,
  `<`, `==`, `math.Round`, conversion to `uint64`, and the 64-bit pattern (`math.Float64bits`).

  A finite value is `(-1)^neg · m · 2^e`. Canonical form (what every operation below returns):
  `m < 2^53`, `-1074 ≤ e ≤ 971`, and `2^52 ≤ m` unless `e = -1074` (subnormals and zero).
-/
namespace BtcVerif.Prim

/-- round-half-even of `N / D` to an integer (`D > 0`) -/
def rne (N D : Nat) : Nat :=
  let q := N / D
  let r := N % D
  if 2 * r < D then q else if D < 2 * r then q + 1 else q + q % 2

/-- `(N, D)` with `N / D = n / (d · 2^e)` -/
def scalePair (n d : Nat) (e : Int) : Nat × Nat :=
  if 0 ≤ e then (n, d * 2 ^ e.toNat) else (n * 2 ^ (-e).toNat, d)

/-- round-to-nearest-even of `n / d` (`n, d > 0`) to `p` significant bits with unbounded exponent:
    `(m, e)` stands for `m · 2^e` with `2^(p-1) ≤ m < 2^p`. -/
def roundPos (p n d : Nat) : Nat × Int :=
  -- 2^(log2 n - log2 d - 1) < n/d < 2^(log2 n - log2 d + 1)
  let e0 : Int := (Nat.log2 n : Int) - (Nat.log2 d : Int) - (p : Int)
  let sc := scalePair n d e0
  let e := if 2 ^ p ≤ sc.1 / sc.2 then e0 + 1 else e0
  let sc := scalePair n d e
  let m := rne sc.1 sc.2
  if m = 2 ^ p then (2 ^ (p - 1), e + 1) else (m, e)

inductive F64 where
  | nan
  | inf (neg : Bool)
  | fin (neg : Bool) (m : Nat) (e : Int)
  deriving Repr, DecidableEq, Inhabited

namespace F64

def zero (neg : Bool) : F64 := .fin neg 0 (-1074)

/-- round-to-nearest-even of `± n / d` (`d > 0`) to binary64: gradual underflow below `2^-1022`,
    overflow to infinity -/
def ofRat (neg : Bool) (n d : Nat) : F64 :=
  if n = 0 then zero neg else
  let r := roundPos 53 n d
  if r.2 < -1074 then
    let sc := scalePair n d (-1074)
    .fin neg (rne sc.1 sc.2) (-1074)
  else if 971 < r.2 then .inf neg
  else .fin neg r.1 r.2

/-- round-to-nearest-even of `± m · 2^e` -/
def ofScaled (neg : Bool) (m : Nat) (e : Int) : F64 :=
  if 0 ≤ e then ofRat neg (m * 2 ^ e.toNat) 1 else ofRat neg m (2 ^ (-e).toNat)

/-- `float64(x)` for an unsigned integer (or a non-negative `int`) -/
def ofNat (n : Nat) : F64 := ofRat false n 1

def isZero : F64 → Bool
  | .fin _ m _ => m == 0
  | _ => false

/-- `a * b` -/
def mul : F64 → F64 → F64
  | .nan, _ => .nan
  | _, .nan => .nan
  | .inf s, .inf t => .inf (s != t)
  | .inf s, .fin t m _ => if m = 0 then .nan else .inf (s != t)
  | .fin s m _, .inf t => if m = 0 then .nan else .inf (s != t)
  | .fin s m e, .fin t n f => ofScaled (s != t) (m * n) (e + f)

/-- `a / b` -/
def div : F64 → F64 → F64
  | .nan, _ => .nan
  | _, .nan => .nan
  | .inf _, .inf _ => .nan
  | .inf s, .fin t _ _ => .inf (s != t)
  | .fin s _ _, .inf t => zero (s != t)
  | .fin s m e, .fin t n f =>
    if n = 0 then (if m = 0 then .nan else .inf (s != t)) else
    let k := e - f
    if 0 ≤ k then ofRat (s != t) (m * 2 ^ k.toNat) n else ofRat (s != t) m (n * 2 ^ (-k).toNat)

/-- the value scaled by `2^1074` (an integer for canonical values); infinities beyond everything -/
def key : F64 → Int
  | .nan => 0
  | .inf neg => if neg then -(2 ^ 2200 : Nat) else (2 ^ 2200 : Nat)
  | .fin neg m e =>
    let v : Int := ((m * 2 ^ (e + 1074).toNat : Nat) : Int)
    if neg then -v else v

/-- `a < b` (false when either is NaN; `-0 < +0` is false) -/
def lt : F64 → F64 → Bool
  | .nan, _ => false
  | _, .nan => false
  | a, b => decide (key a < key b)

/-- `a == b` (false when either is NaN; `-0 == +0`) -/
def eq : F64 → F64 → Bool
  | .nan, _ => false
  | _, .nan => false
  | a, b => decide (key a = key b)

/-- `math.Round`: nearest integer, halves away from zero; the sign of zero is kept -/
def round : F64 → F64
  | .fin neg m e =>
    if 0 ≤ e then .fin neg m e else
    let k := (-e).toNat
    ofRat neg ((m + 2 ^ (k - 1)) / 2 ^ k) 1
  | x => x

/-- `uint64(x)` where Go defines it: truncation toward zero lies in `[0, 2^64)`; `none` is the
    implementation-defined rest (NaN, infinities, values ≤ -1 or ≥ 2^64) -/
def toUInt64 : F64 → Option Nat
  | .fin neg m e =>
    let t := if 0 ≤ e then m * 2 ^ e.toNat else m / 2 ^ (-e).toNat
    if t = 0 then some 0 else if neg then none else if t < 2 ^ 64 then some t else none
  | _ => none

/-- `math.Float64bits` (NaN is Go's canonical quiet NaN) -/
def toBits : F64 → Nat
  | .nan => 0x7ff8000000000001
  | .inf neg => (if neg then 2 ^ 63 else 0) + 0x7ff0000000000000
  | .fin neg m e =>
    (if neg then 2 ^ 63 else 0) +
      (if m < 2 ^ 52 then m else (e + 1075).toNat * 2 ^ 52 + (m - 2 ^ 52))

/-- `math.Float64frombits` -/
def ofBits (b : Nat) : F64 :=
  let neg := decide (2 ^ 63 ≤ b % 2 ^ 64)
  let ex : Nat := b / 2 ^ 52 % 2048
  let frac : Nat := b % 2 ^ 52
  if ex = 0 then .fin neg frac (-1074)
  else if ex = 2047 then (if frac = 0 then .inf neg else .nan)
  else .fin neg (2 ^ 52 + frac) ((ex : Int) - 1075)

end F64

/-- `new(big.Float).SetUint64(a).Quo(·, new(big.Float).SetUint64(b))` for `a, b > 0`: the quotient
    rounded to nearest even at the receiver's precision 64 (`SetUint64` on a zero-precision value sets
    it to 64), as mantissa and exponent -/
def bigQuo64 (a b : Nat) : Nat × Int := roundPos 64 a b

/-- `(*big.Float).Float64()` of the positive value `m · 2^e`: nearest even, denormals included -/
def bigToF64 (x : Nat × Int) : F64 := F64.ofScaled false x.1 x.2

end BtcVerif.Prim
