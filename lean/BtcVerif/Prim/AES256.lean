/-
  AES-256 single-block encryption / decryption (FIPS 197), as used by BIP38 (ECB on 16-byte halves),
  executable, core Lean. The S-box is computed from its definition (inverse in GF(2^8) followed by
  the affine map) rather than typed in. Independent reference implementation; no theorem unfolds it.
-/
import BtcVerif.Model.Basic

namespace BtcVerif.Prim

namespace AES

@[inline] def rotl8 (x : UInt8) (k : UInt8) : UInt8 := (x <<< k) ||| (x >>> (8 - k))

/-- multiplication by `x` in GF(2^8) modulo `x^8 + x^4 + x^3 + x + 1` -/
@[inline] def xtime (a : UInt8) : UInt8 :=
  (a <<< 1) ^^^ (if a &&& 0x80 != 0 then 0x1b else 0)

/-- multiplication in GF(2^8) -/
def gmul (a b : UInt8) : UInt8 := Id.run do
  let mut a := a
  let mut b := b
  let mut r : UInt8 := 0
  for _ in [0:8] do
    if b &&& 1 != 0 then r := r ^^^ a
    a := xtime a
    b := b >>> 1
  return r

/-- The S-box: walk the multiplicative group with generator 3 (`p`) and its inverse (`q = p⁻¹`),
    so that `sbox[p] = affine(q)`; `sbox[0] = 0x63`. -/
def sbox : Array UInt8 := Id.run do
  let mut t : Array UInt8 := Array.replicate 256 0
  let mut p : UInt8 := 1
  let mut q : UInt8 := 1
  for _ in [0:255] do
    p := p ^^^ xtime p                       -- p := 3·p
    q := q ^^^ (q <<< 1)                     -- q := q / 3
    q := q ^^^ (q <<< 2)
    q := q ^^^ (q <<< 4)
    if q &&& 0x80 != 0 then q := q ^^^ 0x09
    let x := q ^^^ rotl8 q 1 ^^^ rotl8 q 2 ^^^ rotl8 q 3 ^^^ rotl8 q 4
    t := t.set! p.toNat (x ^^^ 0x63)
  t := t.set! 0 0x63
  return t

def invSbox : Array UInt8 := Id.run do
  let mut t : Array UInt8 := Array.replicate 256 0
  for i in [0:256] do
    t := t.set! (sbox[i]!).toNat (UInt8.ofNat i)
  return t

/-- AES-256 key schedule: 15 round keys = 240 bytes -/
def expandKey256 (key : ByteArray) : ByteArray := Id.run do
  let mut w := key
  let mut rcon : UInt8 := 1
  for i in [8:60] do
    let mut t0 := w.get! (4*(i-1))
    let mut t1 := w.get! (4*(i-1) + 1)
    let mut t2 := w.get! (4*(i-1) + 2)
    let mut t3 := w.get! (4*(i-1) + 3)
    if i % 8 == 0 then
      let r0 := sbox[t1.toNat]! ^^^ rcon
      let r1 := sbox[t2.toNat]!
      let r2 := sbox[t3.toNat]!
      let r3 := sbox[t0.toNat]!
      t0 := r0; t1 := r1; t2 := r2; t3 := r3
      rcon := xtime rcon
    else if i % 8 == 4 then
      t0 := sbox[t0.toNat]!; t1 := sbox[t1.toNat]!; t2 := sbox[t2.toNat]!; t3 := sbox[t3.toNat]!
    w := w.push (w.get! (4*(i-8)) ^^^ t0)
    w := w.push (w.get! (4*(i-8) + 1) ^^^ t1)
    w := w.push (w.get! (4*(i-8) + 2) ^^^ t2)
    w := w.push (w.get! (4*(i-8) + 3) ^^^ t3)
  return w

/-- state byte `r + 4c` is row `r`, column `c` (the input order of FIPS 197 §3.4) -/
def addRoundKey (s : ByteArray) (w : ByteArray) (round : Nat) : ByteArray := Id.run do
  let mut o := ByteArray.emptyWithCapacity 16
  for i in [0:16] do
    o := o.push (s.get! i ^^^ w.get! (16*round + i))
  return o

def subBytes (box : Array UInt8) (s : ByteArray) : ByteArray := Id.run do
  let mut o := ByteArray.emptyWithCapacity 16
  for i in [0:16] do
    o := o.push box[(s.get! i).toNat]!
  return o

def shiftRows (s : ByteArray) : ByteArray := Id.run do
  let mut o := ByteArray.emptyWithCapacity 16
  for i in [0:16] do
    let r := i % 4
    let c := i / 4
    o := o.push (s.get! (r + 4 * ((c + r) % 4)))
  return o

def invShiftRows (s : ByteArray) : ByteArray := Id.run do
  let mut o := ByteArray.emptyWithCapacity 16
  for i in [0:16] do
    let r := i % 4
    let c := i / 4
    o := o.push (s.get! (r + 4 * ((c + 4 - r) % 4)))
  return o

def mixColumns (s : ByteArray) : ByteArray := Id.run do
  let mut o := ByteArray.emptyWithCapacity 16
  for c in [0:4] do
    let a0 := s.get! (4*c)
    let a1 := s.get! (4*c + 1)
    let a2 := s.get! (4*c + 2)
    let a3 := s.get! (4*c + 3)
    o := o.push (gmul 2 a0 ^^^ gmul 3 a1 ^^^ a2 ^^^ a3)
    o := o.push (a0 ^^^ gmul 2 a1 ^^^ gmul 3 a2 ^^^ a3)
    o := o.push (a0 ^^^ a1 ^^^ gmul 2 a2 ^^^ gmul 3 a3)
    o := o.push (gmul 3 a0 ^^^ a1 ^^^ a2 ^^^ gmul 2 a3)
  return o

def invMixColumns (s : ByteArray) : ByteArray := Id.run do
  let mut o := ByteArray.emptyWithCapacity 16
  for c in [0:4] do
    let a0 := s.get! (4*c)
    let a1 := s.get! (4*c + 1)
    let a2 := s.get! (4*c + 2)
    let a3 := s.get! (4*c + 3)
    o := o.push (gmul 14 a0 ^^^ gmul 11 a1 ^^^ gmul 13 a2 ^^^ gmul 9 a3)
    o := o.push (gmul 9 a0 ^^^ gmul 14 a1 ^^^ gmul 11 a2 ^^^ gmul 13 a3)
    o := o.push (gmul 13 a0 ^^^ gmul 9 a1 ^^^ gmul 14 a2 ^^^ gmul 11 a3)
    o := o.push (gmul 11 a0 ^^^ gmul 13 a1 ^^^ gmul 9 a2 ^^^ gmul 14 a3)
  return o

/-- FIPS 197 §5.1 `Cipher` with Nr = 14 -/
def encryptBlock (w : ByteArray) (blk : ByteArray) : ByteArray := Id.run do
  let mut s := addRoundKey blk w 0
  for round in [1:14] do
    s := addRoundKey (mixColumns (shiftRows (subBytes sbox s))) w round
  return addRoundKey (shiftRows (subBytes sbox s)) w 14

/-- FIPS 197 §5.3 `InvCipher` with Nr = 14 -/
def decryptBlock (w : ByteArray) (blk : ByteArray) : ByteArray := Id.run do
  let mut s := addRoundKey blk w 14
  for i in [0:13] do
    let round := 13 - i
    s := invMixColumns (addRoundKey (subBytes invSbox (invShiftRows s)) w round)
  return addRoundKey (subBytes invSbox (invShiftRows s)) w 0

end AES

/-- AES-256 encryption of one 16-byte block; `[]` if the key is not 32 bytes or the block not 16 -/
def aes256EncryptBlock (key32 block16 : Bytes) : Bytes :=
  if key32.length != 32 || block16.length != 16 then []
  else (AES.encryptBlock (AES.expandKey256 (ByteArray.mk key32.toArray)) (ByteArray.mk block16.toArray)).toList

/-- AES-256 decryption of one 16-byte block; `[]` if the key is not 32 bytes or the block not 16 -/
def aes256DecryptBlock (key32 block16 : Bytes) : Bytes :=
  if key32.length != 32 || block16.length != 16 then []
  else (AES.decryptBlock (AES.expandKey256 (ByteArray.mk key32.toArray)) (ByteArray.mk block16.toArray)).toList

end BtcVerif.Prim
