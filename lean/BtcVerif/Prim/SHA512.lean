/-
  SHA-512 (FIPS 180-4), executable, core Lean. Independent reference implementation for the
  differential comparison against the Go library (BIP32/BIP39 use HMAC-SHA512). No theorem unfolds it.
-/
import BtcVerif.Model.Basic

namespace BtcVerif.Prim

def sha512K : Array UInt64 := #[
  0x428a2f98d728ae22, 0x7137449123ef65cd, 0xb5c0fbcfec4d3b2f, 0xe9b5dba58189dbbc,
  0x3956c25bf348b538, 0x59f111f1b605d019, 0x923f82a4af194f9b, 0xab1c5ed5da6d8118,
  0xd807aa98a3030242, 0x12835b0145706fbe, 0x243185be4ee4b28c, 0x550c7dc3d5ffb4e2,
  0x72be5d74f27b896f, 0x80deb1fe3b1696b1, 0x9bdc06a725c71235, 0xc19bf174cf692694,
  0xe49b69c19ef14ad2, 0xefbe4786384f25e3, 0x0fc19dc68b8cd5b5, 0x240ca1cc77ac9c65,
  0x2de92c6f592b0275, 0x4a7484aa6ea6e483, 0x5cb0a9dcbd41fbd4, 0x76f988da831153b5,
  0x983e5152ee66dfab, 0xa831c66d2db43210, 0xb00327c898fb213f, 0xbf597fc7beef0ee4,
  0xc6e00bf33da88fc2, 0xd5a79147930aa725, 0x06ca6351e003826f, 0x142929670a0e6e70,
  0x27b70a8546d22ffc, 0x2e1b21385c26c926, 0x4d2c6dfc5ac42aed, 0x53380d139d95b3df,
  0x650a73548baf63de, 0x766a0abb3c77b2a8, 0x81c2c92e47edaee6, 0x92722c851482353b,
  0xa2bfe8a14cf10364, 0xa81a664bbc423001, 0xc24b8b70d0f89791, 0xc76c51a30654be30,
  0xd192e819d6ef5218, 0xd69906245565a910, 0xf40e35855771202a, 0x106aa07032bbd1b8,
  0x19a4c116b8d2d0c8, 0x1e376c085141ab53, 0x2748774cdf8eeb99, 0x34b0bcb5e19b48a8,
  0x391c0cb3c5c95a63, 0x4ed8aa4ae3418acb, 0x5b9cca4f7763e373, 0x682e6ff3d6b2b8a3,
  0x748f82ee5defb2fc, 0x78a5636f43172f60, 0x84c87814a1f0ab72, 0x8cc702081a6439ec,
  0x90befffa23631e28, 0xa4506cebde82bde9, 0xbef9a3f7b2c67915, 0xc67178f2e372532b,
  0xca273eceea26619c, 0xd186b8c721c0c207, 0xeada7dd6cde0eb1e, 0xf57d4f7fee6ed178,
  0x06f067aa72176fba, 0x0a637dc5a2c898a6, 0x113f9804bef90dae, 0x1b710b35131c471b,
  0x28db77f523047d84, 0x32caab7b40c72493, 0x3c9ebe0a15c9bebc, 0x431d67c49c100d4c,
  0x4cc5d4becb3e42b6, 0x597f299cfc657e2a, 0x5fcb6fab3ad6faec, 0x6c44198c4a475817]

def sha512Init : Array UInt64 := #[
  0x6a09e667f3bcc908, 0xbb67ae8584caa73b, 0x3c6ef372fe94f82b, 0xa54ff53a5f1d36f1,
  0x510e527fade682d1, 0x9b05688c2b3e6c1f, 0x1f83d9abfb41bd6b, 0x5be0cd19137e2179]

@[inline] def rotr64 (x : UInt64) (k : UInt64) : UInt64 := (x >>> k) ||| (x <<< (64 - k))

/-- compress one 128-byte block starting at `off` -/
def sha512Block (h : Array UInt64) (msg : ByteArray) (off : Nat) : Array UInt64 := Id.run do
  let mut w : Array UInt64 := Array.replicate 80 0
  for t in [0:16] do
    let mut x : UInt64 := 0
    for j in [0:8] do
      x := (x <<< 8) ||| (msg.get! (off + 8*t + j)).toUInt64
    w := w.set! t x
  for t in [16:80] do
    let x := w[t-15]!
    let y := w[t-2]!
    let s0 := rotr64 x 1 ^^^ rotr64 x 8 ^^^ (x >>> 7)
    let s1 := rotr64 y 19 ^^^ rotr64 y 61 ^^^ (y >>> 6)
    w := w.set! t (w[t-16]! + s0 + w[t-7]! + s1)
  let mut a := h[0]!
  let mut b := h[1]!
  let mut c := h[2]!
  let mut d := h[3]!
  let mut e := h[4]!
  let mut f := h[5]!
  let mut g := h[6]!
  let mut hh := h[7]!
  for t in [0:80] do
    let S1 := rotr64 e 14 ^^^ rotr64 e 18 ^^^ rotr64 e 41
    let ch := (e &&& f) ^^^ ((~~~ e) &&& g)
    let t1 := hh + S1 + ch + sha512K[t]! + w[t]!
    let S0 := rotr64 a 28 ^^^ rotr64 a 34 ^^^ rotr64 a 39
    let mj := (a &&& b) ^^^ (a &&& c) ^^^ (b &&& c)
    let t2 := S0 + mj
    hh := g; g := f; f := e; e := d + t1; d := c; c := b; b := a; a := t1 + t2
  return #[h[0]! + a, h[1]! + b, h[2]! + c, h[3]! + d, h[4]! + e, h[5]! + f, h[6]! + g, h[7]! + hh]

/-- Merkle–Damgård padding of `tail`, where `prefixLen` bytes (a multiple of 128) were already
    absorbed: 0x80, zeros to 112 mod 128, then the 128-bit big-endian total bit length. -/
def sha512Pad (prefixLen : Nat) (tail : ByteArray) : ByteArray := Id.run do
  let bits := (prefixLen + tail.size) * 8
  let mut m := tail.push 0x80
  for _ in [0:(240 - m.size % 128) % 128] do
    m := m.push 0
  for i in [0:16] do
    m := m.push (UInt8.ofNat ((bits >>> (8 * (15 - i))) % 256))
  return m

def sha512StateBytes (h : Array UInt64) : ByteArray := Id.run do
  let mut out := ByteArray.emptyWithCapacity 64
  for i in [0:8] do
    let x := h[i]!
    for j in [0:8] do
      out := out.push (x >>> (UInt64.ofNat (8 * (7 - j)))).toUInt8
  return out

/-- absorb all whole 128-byte blocks of `m` into state `h` -/
def sha512Absorb (h : Array UInt64) (m : ByteArray) : Array UInt64 := Id.run do
  let mut h := h
  for i in [0:m.size / 128] do
    h := sha512Block h m (128 * i)
  return h

/-- finish a hash from the midstate `h` after `prefixLen` bytes (multiple of 128) with the remaining `tail` -/
def sha512Finish (h : Array UInt64) (prefixLen : Nat) (tail : ByteArray) : ByteArray :=
  sha512StateBytes (sha512Absorb h (sha512Pad prefixLen tail))

def sha512BA (msg : ByteArray) : ByteArray := sha512Finish sha512Init 0 msg

def sha512 (bs : Bytes) : Bytes := (sha512BA (ByteArray.mk bs.toArray)).toList

end BtcVerif.Prim
