/-
  HMAC (RFC 2104) over SHA-256 / SHA-512 and PBKDF2 (RFC 8018 §5.2), executable, core Lean.
  Independent reference implementation; no theorem unfolds it.
-/
import BtcVerif.Model.Basic
import BtcVerif.Prim.SHA256
import BtcVerif.Prim.SHA512

namespace BtcVerif.Prim

def baOfBytes (bs : Bytes) : ByteArray := ByteArray.mk bs.toArray

/-- `key` zero-padded to `blockLen` and xored with `pad` -/
def hmacPadKey (key : ByteArray) (blockLen : Nat) (pad : UInt8) : ByteArray := Id.run do
  let mut out := ByteArray.emptyWithCapacity blockLen
  for i in [0:blockLen] do
    let k : UInt8 := if i < key.size then key.get! i else 0
    out := out.push (k ^^^ pad)
  return out

def xorBA (a b : ByteArray) : ByteArray := Id.run do
  let mut out := ByteArray.emptyWithCapacity a.size
  for i in [0:a.size] do
    out := out.push (a.get! i ^^^ b.get! i)
  return out

/-- 4-byte big-endian block counter of PBKDF2 -/
def be32BA (i : Nat) : ByteArray :=
  ByteArray.mk #[UInt8.ofNat ((i >>> 24) % 256), UInt8.ofNat ((i >>> 16) % 256),
                 UInt8.ofNat ((i >>> 8) % 256), UInt8.ofNat (i % 256)]

/-! ### HMAC-SHA256 -/

def hmacSha256BA (key msg : ByteArray) : ByteArray :=
  let key' := if key.size > 64 then sha256BA key else key
  let inner := sha256BA (hmacPadKey key' 64 0x36 ++ msg)
  sha256BA (hmacPadKey key' 64 0x5c ++ inner)

def hmacSha256 (key msg : Bytes) : Bytes := (hmacSha256BA (baOfBytes key) (baOfBytes msg)).toList

/-! ### HMAC-SHA512, with the two pad blocks absorbed once per key -/

structure HmacSha512Key where
  inner : Array UInt64
  outer : Array UInt64

def hmacSha512Init (key : ByteArray) : HmacSha512Key :=
  let key' := if key.size > 128 then sha512BA key else key
  { inner := sha512Block sha512Init (hmacPadKey key' 128 0x36) 0
    outer := sha512Block sha512Init (hmacPadKey key' 128 0x5c) 0 }

def hmacSha512With (k : HmacSha512Key) (msg : ByteArray) : ByteArray :=
  sha512Finish k.outer 128 (sha512Finish k.inner 128 msg)

def hmacSha512BA (key msg : ByteArray) : ByteArray := hmacSha512With (hmacSha512Init key) msg

def hmacSha512 (key msg : Bytes) : Bytes := (hmacSha512BA (baOfBytes key) (baOfBytes msg)).toList

/-! ### PBKDF2 -/

/-- PBKDF2 over an arbitrary PRF already keyed with the password; `hLen` is the PRF output size. -/
def pbkdf2BA (prf : ByteArray → ByteArray) (hLen : Nat) (salt : ByteArray) (iters dkLen : Nat) :
    ByteArray := Id.run do
  let blocks := (dkLen + hLen - 1) / hLen
  let mut out := ByteArray.emptyWithCapacity (blocks * hLen)
  for i in [1:blocks+1] do
    let mut u := prf (salt ++ be32BA i)
    let mut t := u
    for _ in [1:iters] do
      u := prf u
      t := xorBA t u
    out := out ++ t
  return out.extract 0 dkLen

def pbkdf2HmacSha256BA (password salt : ByteArray) (iters dkLen : Nat) : ByteArray :=
  pbkdf2BA (hmacSha256BA password) 32 salt iters dkLen

def pbkdf2HmacSha512BA (password salt : ByteArray) (iters dkLen : Nat) : ByteArray :=
  pbkdf2BA (hmacSha512With (hmacSha512Init password)) 64 salt iters dkLen

def pbkdf2HmacSha256 (password salt : Bytes) (iters dkLen : Nat) : Bytes :=
  (pbkdf2HmacSha256BA (baOfBytes password) (baOfBytes salt) iters dkLen).toList

def pbkdf2HmacSha512 (password salt : Bytes) (iters dkLen : Nat) : Bytes :=
  (pbkdf2HmacSha512BA (baOfBytes password) (baOfBytes salt) iters dkLen).toList

end BtcVerif.Prim
