/-
  Model of unspent/output_set.go (C15): the `OutputSet` state machine.

  State: `OutputSet.byOutpoint`, a Go map `tx.PrevOut → *Output`, lazily created (output_set.go:15-17,
  100-106).  `none` is the nil map, `some l` an allocated map held as an association list whose keys
  are pairwise distinct (invariant `Distinct`, proved for every reachable state in `Proofs/Utxo.lean`).
  An `*Output` is `{Outpoint *tx.PrevOut; TxOut *tx.Output}`; `AddOutput` files it under the *value*
  `*output.Outpoint`, so the stored outpoint is the key and an entry is `(key, TxOut)`.
  Pointer arguments that the Go code dereferences are `Option`s: `none` is Go's nil and the
  dereference is an explicit step that yields `Out.panic`.

  Every `if` of the Go methods is the regenerated guard (tie T2).
-/
import BtcVerif.Model.Block

namespace BtcVerif.Model.Utxo
open BtcVerif BtcVerif.Model
open BtcVerif.Gen.Guards

abbrev Entry := PrevOut × TxOut

/-- `OutputSet.byOutpoint` -/
abbrev State := Option (List Entry)

def entries : State → List Entry
  | none => []
  | some l => l

/-- `m[k]` -/
def lookup (k : PrevOut) : List Entry → Option TxOut
  | [] => none
  | e :: rest => if e.1 = k then some e.2 else lookup k rest

/-- `delete(m, k)` -/
def erase (k : PrevOut) : List Entry → List Entry
  | [] => []
  | e :: rest => if e.1 = k then erase k rest else e :: erase k rest

/-- `m[k] = v` -/
def store (k : PrevOut) (v : TxOut) (l : List Entry) : List Entry := (k, v) :: erase k l

/-- what an operation hands back -/
inductive Out where
  | unit                          -- no result
  | panic                         -- nil dereference
  | err                           -- `UpdateFromBlock` returned an error
  | found (e : Option Entry)      -- `*Output` or nil
  | size (n : Nat)
  | list (l : List Entry)
  deriving Repr, DecidableEq, Inhabited

/-- `Size` (output_set.go:29-31): `len` of a nil map is 0 -/
def size (s : State) : Nat := (entries s).length

/-- `AddOutput` (output_set.go:100-106). The map is allocated *before* `*output.Outpoint` is
    evaluated, so a nil outpoint leaves an allocated empty map behind. -/
def addOutput (s : State) (outpoint : Option PrevOut) (v : TxOut) : State × Out :=
  let m := if unspent_OutputSet_AddOutput_0 (unspentOutputs_byOutpoint_isnil := s.isNone) then [] else entries s
  match outpoint with
  | none => (some m, .panic)
  | some k => (some (store k v m), .unit)

/-- `RemoveByOutpoint` (output_set.go:110-114) -/
def removeByOutpoint (s : State) (outpoint : Option PrevOut) : State × Out :=
  if unspent_OutputSet_RemoveByOutpoint_0 (unspentOutputs_byOutpoint_isnil := s.isNone) then
    match outpoint with
    | none => (s, .panic)
    | some k => (some (erase k (entries s)), .unit)
  else (s, .unit)

/-- `RemoveByHash` (output_set.go:118-123) -/
def removeByHash (s : State) (hash : Bytes) (index : Nat) : State × Out :=
  if unspent_OutputSet_RemoveByHash_0 (unspentOutputs_byOutpoint_isnil := s.isNone) then
    removeByOutpoint s (some ⟨hash, index⟩)
  else (s, .unit)

/-! #### `hex.DecodeString` on the bytes of a Go string -/

def fromHexChar (c : UInt8) : Option Nat :=
  let n := c.toNat
  if 48 ≤ n ∧ n ≤ 57 then some (n - 48)          -- '0'..'9'
  else if 97 ≤ n ∧ n ≤ 102 then some (n - 87)    -- 'a'..'f'
  else if 65 ≤ n ∧ n ≤ 70 then some (n - 55)     -- 'A'..'F'
  else none

/-- `none` is any error of `hex.DecodeString` (odd length, invalid byte) -/
def hexDecode : Bytes → Option Bytes
  | [] => some []
  | [_] => none
  | a :: b :: rest =>
    match fromHexChar a, fromHexChar b, hexDecode rest with
    | some x, some y, some tl => some (UInt8.ofNat (16 * x + y) :: tl)
    | _, _, _ => none

def hexDigitLower (n : Nat) : UInt8 := if n < 10 then UInt8.ofNat (48 + n) else UInt8.ofNat (87 + n)

/-- `hex.EncodeToString` as the bytes of the resulting string -/
def hexEncode (bs : Bytes) : Bytes := bs.flatMap fun b => [hexDigitLower (b.toNat / 16), hexDigitLower (b.toNat % 16)]

/-- `var hash [32]byte; copy(hash[:], b)` -/
def copy32 (b : Bytes) : Bytes := (b ++ List.replicate 32 0).take 32

/-- `RemoveByTxid` (output_set.go:127-146, after the repair of D23: a string that is not 64 bytes
    long names nothing). `txid` holds the bytes of the Go string. -/
def removeByTxid (s : State) (txid : Bytes) (index : Nat) : State × Out :=
  if unspent_OutputSet_RemoveByTxid_0 (len_txid := txid.length) then (s, .unit) else
  if unspent_OutputSet_RemoveByTxid_1 (unspentOutputs_byOutpoint_isnil := s.isNone) then
    match hexDecode txid with
    | none => (s, .unit)
    | some b => removeByOutpoint s (some ⟨(copy32 b).reverse, index⟩)
  else (s, .unit)

/-- `GetByOutpoint` (output_set.go:57-68) -/
def getByOutpoint (s : State) (outpoint : Option PrevOut) : Out :=
  if unspent_OutputSet_GetByOutpoint_0 (outpoint_isnil := outpoint.isNone) (call_unspentOutputs_Size := size s) then
    .found none
  else
    match outpoint with
    | none => .panic
    | some k =>
      match lookup k (entries s) with
      | some v => if unspent_OutputSet_GetByOutpoint_1 (ok := true) then .found (some (k, v)) else .found none
      | none => if unspent_OutputSet_GetByOutpoint_1 (ok := false) then .panic else .found none

/-- `GetByHash` (output_set.go:72-75) -/
def getByHash (s : State) (hash : Bytes) (index : Nat) : Out := getByOutpoint s (some ⟨hash, index⟩)

/-- `GetByTxid` (output_set.go:80-96) -/
def getByTxid (s : State) (txid : Bytes) (index : Nat) : Out :=
  if unspent_OutputSet_GetByTxid_0 (len_txid := txid.length) (call_unspentOutputs_Size := size s) then .found none else
  match hexDecode txid with
  | none => .found none
  | some b => getByOutpoint s (some ⟨(copy32 b).reverse, index⟩)

/-- order of the canonical listing: by hash bytes, then index (for 32-byte hashes this is the
    lexicographic order of `(hash, index)`) -/
def keyNat (k : PrevOut) : Nat := beNat k.hash * 4294967296 + k.index

def entryLe (a b : Entry) : Bool := decide (keyNat a.1 ≤ keyNat b.1)

/-- `Slice` (output_set.go:43-53). Go hands the outputs back in map-iteration order, which is
    unspecified; the model (and the harness, before comparing) lists them in key order. -/
def slice (s : State) : List Entry := (entries s).mergeSort entryLe

/-- `NewOutputSet` (output_set.go:20-26) -/
def newOutputSet (outs : List (Option PrevOut × TxOut)) : State × Out :=
  outs.foldl (fun acc o => match acc.2 with
    | .unit => addOutput acc.1 o.1 o.2
    | _ => acc) (none, .unit)

/-- `Clone` (output_set.go:34-40): `AddOutput` of every stored output into a fresh set. The
    iteration order of the Go map is unspecified; distinct keys make the result independent of it.
    A set without entries is cloned to the nil map. -/
def clone (s : State) : State :=
  (entries s).foldl (fun acc e => (addOutput acc (some e.1) e.2).1) none

/-! #### `UpdateFromBlock` (output_set.go:157-184) -/

/-- the loop over the inputs: `RemoveByOutpoint(vin.PrevOut)` (the model's inputs carry their
    outpoint by value: a decoded transaction has no nil `PrevOut`) -/
def spendAll (s : State) (ins : List TxIn) : State :=
  ins.foldl (fun acc i => (removeByOutpoint acc (some i.prev)).1) s

/-- the loop over `scriptPubKeys` for one output. `h` is the result of `txn.Hash(false)`
    (`none`: serialisation error; the Go code evaluates it lazily inside the `if`, and it is the same
    value every time). The `Bool` is `false` when the function returned the error. -/
def addMatching (h : Option Bytes) (idx : Nat) (vout : TxOut) : List Bytes → State → State × Bool
  | [], s => (s, true)
  | spk :: rest, s =>
    if unspent_OutputSet_UpdateFromBlock_0 (call_bytes_Equal_vout_Script_scriptPubKey := decide (vout.script = spk)) then
      match h with
      | some hash =>
        -- `uint32(outputIndex)`
        addMatching h idx vout rest (addOutput s (some ⟨hash, idx % 4294967296⟩) ⟨vout.value, spk⟩).1
      | none => (s, false)
    else addMatching h idx vout rest s

/-- the loop over the outputs, `idx` = index of the head -/
def addOutputs (h : Option Bytes) (watched : List Bytes) : Nat → List TxOut → State → State × Bool
  | _, [], s => (s, true)
  | idx, o :: os, s =>
    match addMatching h idx o watched s with
    | (s', true) => addOutputs h watched (idx + 1) os s'
    | (s', false) => (s', false)

/-- one transaction: spend, then create -/
def applyTx (txidOf : Tx → Option Bytes) (watched : List Bytes) (s : State) (t : Tx) : State × Bool :=
  addOutputs (txidOf t) watched 0 t.outputs (spendAll s t.inputs)

def applyTxs (txidOf : Tx → Option Bytes) (watched : List Bytes) : List Tx → State → State × Bool
  | [], s => (s, true)
  | t :: ts, s =>
    match applyTx txidOf watched s t with
    | (s', true) => applyTxs txidOf watched ts s'
    | (s', false) => (s', false)

/-- `UpdateFromBlock`; an error leaves the set as it was when the error occurred -/
def updateFromBlock (txidOf : Tx → Option Bytes) (s : State) (b : Block) (watched : List Bytes) : State × Out :=
  match applyTxs txidOf watched b.txs s with
  | (s', true) => (s', .unit)
  | (s', false) => (s', .err)

/-! #### the state machine -/

inductive Op where
  | add (outpoint : Option PrevOut) (v : TxOut)
  | removeByOutpoint (outpoint : Option PrevOut)
  | removeByHash (hash : Bytes) (index : Nat)
  | removeByTxid (txid : Bytes) (index : Nat)
  | getByOutpoint (outpoint : Option PrevOut)
  | getByHash (hash : Bytes) (index : Nat)
  | getByTxid (txid : Bytes) (index : Nat)
  | size
  | slice
  | clone                                                 -- the run continues on the clone
  | new (outs : List (Option PrevOut × TxOut))            -- the run continues on `NewOutputSet(outs)`
  | updateFromBlock (b : Block) (watched : List Bytes)
  deriving Repr, Inhabited

/-- `txidOf` stands for `txn.Hash(false)` (the double SHA-256 of the serialisation without
    witnesses, `none` when the transaction cannot be serialised); theorems hold for every such
    function, the oracle instantiates it with `Prim.dsha256 ∘ encTx · false`. -/
def step (txidOf : Tx → Option Bytes) (s : State) : Op → State × Out
  | .add o v => addOutput s o v
  | .removeByOutpoint o => removeByOutpoint s o
  | .removeByHash h i => removeByHash s h i
  | .removeByTxid t i => removeByTxid s t i
  | .getByOutpoint o => (s, getByOutpoint s o)
  | .getByHash h i => (s, getByHash s h i)
  | .getByTxid t i => (s, getByTxid s t i)
  | .size => (s, .size (size s))
  | .slice => (s, .list (slice s))
  | .clone => (clone s, .unit)
  | .new outs => newOutputSet outs
  | .updateFromBlock b w => updateFromBlock txidOf s b w

/-- a history: the outputs in order and the final state -/
def run (txidOf : Tx → Option Bytes) : State → List Op → State × List Out
  | s, [] => (s, [])
  | s, op :: ops =>
    let r := step txidOf s op
    let rest := run txidOf r.1 ops
    (rest.1, r.2 :: rest.2)

/-- the invariant: the keys of the association list are pairwise distinct -/
def Distinct (s : State) : Prop := ((entries s).map Prod.fst).Nodup

end BtcVerif.Model.Utxo
