/-
  Core modelling vocabulary (DESIGN.md section 3).

  * `Outcome α`  : Go's three ways for a call to end — a value, an `error`, a run-time panic.
  * `Parser α`   : an `io.Reader` over a byte string, as a state monad over the remaining bytes.
  * `leBytes/leNat` : `binary.Write/Read(…, binary.LittleEndian, uintN)`.

  Everything here is core Lean (no Mathlib) so that the `oracle` executable links.
-/
namespace BtcVerif

abbrev Bytes := List UInt8

inductive Outcome (α : Type) where
  | ok (a : α)
  | err
  | panic
  deriving Repr, DecidableEq, Inhabited

namespace Outcome

def isOk {α} : Outcome α → Bool
  | ok _ => true
  | _ => false

def isPanic {α} : Outcome α → Bool
  | panic => true
  | _ => false

def isErr {α} : Outcome α → Bool
  | err => true
  | _ => false

@[inline] def bind {α β} (x : Outcome α) (f : α → Outcome β) : Outcome β :=
  match x with
  | ok a => f a
  | err => err
  | panic => panic

instance : Monad Outcome where
  pure := ok
  bind := bind

@[simp] theorem bind_ok {α β} (a : α) (f : α → Outcome β) : (ok a >>= f) = f a := rfl
@[simp] theorem bind_err {α β} (f : α → Outcome β) : ((err : Outcome α) >>= f) = err := rfl
@[simp] theorem bind_panic {α β} (f : α → Outcome β) : ((panic : Outcome α) >>= f) = panic := rfl
@[simp] theorem pure_eq {α} (a : α) : (pure a : Outcome α) = ok a := rfl

def map {α β} (f : α → β) : Outcome α → Outcome β
  | ok a => ok (f a)
  | err => err
  | panic => panic

def toOption {α} : Outcome α → Option α
  | ok a => some a
  | _ => none

end Outcome

/-- A reader over the remaining input. -/
abbrev Parser (α : Type) := Bytes → Outcome (α × Bytes)

namespace Parser

@[inline] def ret {α} (a : α) : Parser α := fun s => .ok (a, s)

@[inline] def andThen {α β} (p : Parser α) (f : α → Parser β) : Parser β := fun s =>
  match p s with
  | .ok (a, s') => f a s'
  | .err => .err
  | .panic => .panic

instance : Monad Parser where
  pure := Parser.ret
  bind := Parser.andThen

@[inline] def fail {α} : Parser α := fun _ => .err
@[inline] def crash {α} : Parser α := fun _ => .panic

theorem bind_def {α β} (p : Parser α) (f : α → Parser β) (s : Bytes) :
    (p >>= f) s = match p s with
      | .ok (a, s') => f a s'
      | .err => .err
      | .panic => .panic := rfl

theorem bind_of_ok {α β} {p : Parser α} {f : α → Parser β} {s s' : Bytes} {a : α}
    (h : p s = .ok (a, s')) : (p >>= f) s = f a s' := by
  simp [bind_def, h]

theorem bind_of_err {α β} {p : Parser α} {f : α → Parser β} {s : Bytes}
    (h : p s = .err) : (p >>= f) s = .err := by
  simp [bind_def, h]

@[simp] theorem pure_apply {α} (a : α) (s : Bytes) : (Pure.pure a : Parser α) s = .ok (a, s) := rfl

/-- `io.ReadFull(r, buf)` with `len(buf) = n`: all `n` bytes or an error (EOF / UnexpectedEOF).
    (Written with `take` so that a read costs O(n), not O(remaining input).) -/
def readN (n : Nat) : Parser Bytes := fun s =>
  let a := s.take n
  if a.length = n then .ok (a, s.drop n) else .err

theorem readN_append (bs rest : Bytes) : readN bs.length (bs ++ rest) = .ok (bs, rest) := by
  simp [readN]

theorem readN_append' (n : Nat) (bs rest : Bytes) (h : bs.length = n) :
    readN n (bs ++ rest) = .ok (bs, rest) := by
  subst h; exact readN_append bs rest

theorem readN_ok {n : Nat} {s r rest : Bytes} (h : readN n s = .ok (r, rest)) :
    s = r ++ rest ∧ r.length = n := by
  unfold readN at h
  simp only at h
  split at h
  · rename_i hl
    injection h with h; injection h with h1 h2
    subst h1 h2
    exact ⟨(List.take_append_drop n s).symm, hl⟩
  · cases h

theorem readN_ne_panic (n : Nat) (s : Bytes) : readN n s ≠ .panic := by
  unfold readN; simp only; split <;> simp

/-- the read succeeds exactly when enough input remains -/
theorem readN_isOk_iff (n : Nat) (s : Bytes) : (∃ r, readN n s = .ok r) ↔ n ≤ s.length := by
  unfold readN
  simp only [List.length_take]
  constructor
  · rintro ⟨r, h⟩
    split at h
    · omega
    · cases h
  · intro h
    exact ⟨_, by rw [if_pos (by omega)]⟩

def readByte : Parser UInt8 := fun s =>
  match s with
  | [] => .err
  | b :: rest => .ok (b, rest)

@[simp] theorem readByte_cons (b : UInt8) (rest : Bytes) : readByte (b :: rest) = .ok (b, rest) := rfl
@[simp] theorem readByte_nil : readByte [] = .err := rfl

end Parser

/-! ### little-endian integers -/

/-- `k` little-endian bytes of `n` (the low `8k` bits). -/
def leBytes : Nat → Nat → Bytes
  | 0, _ => []
  | k+1, n => UInt8.ofNat (n % 256) :: leBytes k (n / 256)

/-- value of a little-endian byte string -/
def leNat : Bytes → Nat
  | [] => 0
  | b :: bs => b.toNat + 256 * leNat bs

/-- big-endian: `k` bytes -/
def beBytes (k n : Nat) : Bytes := (leBytes k n).reverse
def beNat (bs : Bytes) : Nat := leNat bs.reverse

@[simp] theorem leBytes_length (k n : Nat) : (leBytes k n).length = k := by
  induction k generalizing n with
  | zero => rfl
  | succ k ih => simp [leBytes, ih]

@[simp] theorem beBytes_length (k n : Nat) : (beBytes k n).length = k := by
  simp [beBytes]

theorem leNat_leBytes (k n : Nat) (h : n < 256 ^ k) : leNat (leBytes k n) = n := by
  induction k generalizing n with
  | zero => simp [leNat, leBytes]; omega
  | succ k ih =>
    have h2 : n / 256 < 256 ^ k := by
      rw [Nat.div_lt_iff_lt_mul (by decide)]
      rw [Nat.pow_succ] at h; exact h
    simp only [leBytes, leNat, ih _ h2]
    have : (UInt8.ofNat (n % 256)).toNat = n % 256 := by
      simp [UInt8.toNat_ofNat']
    rw [this]; omega

theorem leNat_lt (bs : Bytes) : leNat bs < 256 ^ bs.length := by
  induction bs with
  | nil => simp [leNat]
  | cons b bs ih =>
    simp only [leNat, List.length_cons, Nat.pow_succ]
    have := b.toNat_lt
    omega

theorem leBytes_leNat (bs : Bytes) : leBytes bs.length (leNat bs) = bs := by
  induction bs with
  | nil => rfl
  | cons b bs ih =>
    simp only [List.length_cons, leBytes, leNat]
    have hb := b.toNat_lt
    have h1 : (b.toNat + 256 * leNat bs) % 256 = b.toNat := by omega
    have h2 : (b.toNat + 256 * leNat bs) / 256 = leNat bs := by omega
    rw [h1, h2, ih]
    simp

theorem beNat_beBytes (k n : Nat) (h : n < 256 ^ k) : beNat (beBytes k n) = n := by
  simp [beNat, beBytes, leNat_leBytes k n h]

theorem beBytes_beNat (bs : Bytes) : beBytes bs.length (beNat bs) = bs := by
  unfold beBytes beNat
  have := leBytes_leNat bs.reverse
  simp only [List.length_reverse] at this
  rw [this]; simp

namespace Parser

/-- `binary.Read(r, LittleEndian, &uintK)` for a `k`-byte unsigned integer. -/
def readLE (k : Nat) : Parser Nat := fun s =>
  match readN k s with
  | .ok (bs, rest) => .ok (leNat bs, rest)
  | .err => .err
  | .panic => .panic

theorem readLE_append (k n : Nat) (rest : Bytes) (h : n < 256 ^ k) :
    readLE k (leBytes k n ++ rest) = .ok (n, rest) := by
  unfold readLE
  rw [readN_append' k (leBytes k n) rest (leBytes_length k n)]
  simp [leNat_leBytes k n h]

theorem readLE_ok {k : Nat} {s rest : Bytes} {n : Nat} (h : readLE k s = .ok (n, rest)) :
    s = leBytes k n ++ rest ∧ n < 256 ^ k := by
  unfold readLE at h
  split at h
  · rename_i bs r hr
    injection h with h; injection h with h1 h2
    obtain ⟨hs, hl⟩ := readN_ok hr
    subst h1 h2 hs
    constructor
    · rw [← hl, leBytes_leNat]
    · rw [← hl]; exact leNat_lt bs
  · cases h
  · cases h

theorem readLE_ne_panic (k : Nat) (s : Bytes) : readLE k s ≠ .panic := by
  unfold readLE
  have := readN_ne_panic k s
  split <;> simp_all

end Parser

end BtcVerif
