/-
  Model of `wif/wif.go` after the D15 repair (property C10, WIF part). The Base58Check checksum
  function is the argument `ck`. Core Lean only.
-/
import BtcVerif.Model.Base58

namespace BtcVerif.Model.Wif
open BtcVerif BtcVerif.Gen.Guards

/-- `wif.encode` (wif.go:21-37); `Encode` is `compressed = true`, `EncodeUncompressed` is
    `compressed = false`. `version` is a byte. A nil key and an empty key are both refused. -/
def encode (ck : Bytes → Bytes) (privkey : Bytes) (version : Nat) (compressed : Bool) : Outcome Bytes :=
  if wif_encode_0 (privkey_isnil := false) (len_privkey := privkey.length) then .err
  else
    let payload := if wif_encode_1 (compressed := compressed) then privkey ++ [0x01] else privkey
    .ok (Base58Check.encodeVersion ck payload version)

/-- `wif.Decode` (wif.go:50-77): key, version byte, compressed flag -/
def decode (ck : Bytes → Bytes) (s : Bytes) : Outcome (Bytes × Nat × Bool) :=
  match Base58Check.decode ck s with
  | .err => .err
  | .panic => .panic
  | .ok d =>
    if wif_Decode_0 (len_wifDecoded := d.length) then .err
    else
      match d with
      | [] => .panic                                            -- wifDecoded[0]
      | version :: rest =>
        if rest.length < 32 then .panic                         -- wifDecoded[1:33]
        else
          let privkey := rest.take 32
          if wif_Decode_1 (len_wifDecoded := d.length) then
            match d[33]? with
            | none => .panic                                    -- wifDecoded[33]
            | some flag =>
              if wif_Decode_2 (wifDecoded_33 := flag.toNat) then .ok (privkey, version.toNat, true)
              else .err
          else .ok (privkey, version.toNat, false)

/-- `wif.Validate` (wif.go:80-83) -/
def validate (ck : Bytes → Bytes) (s : Bytes) : Bool :=
  match decode ck s with
  | .ok _ => true
  | _ => false

end BtcVerif.Model.Wif
