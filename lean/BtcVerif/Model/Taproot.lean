/-
  Model of /repo/taproot (`taproot.go:16-67`, `dead.go:27-78`), of the MAST hashing and P2TR
  construction of /repo/script (`p2tr.go:51-108`, after the D10 repair: the TapLeaf preimage is
  `version ‖ compact-size(len) ‖ script`) and of `bhash/tagged_hasher.go:11-22` (C13).

  As in `Model/Bip32.lean` the curve operations (`CurveOps`) and SHA-256 are parameters: the oracle
  runs the model with `Model.secp` and `Prim.sha256`; the theorems hold for every `CurveOps`
  satisfying the named hypotheses of `Proofs/GroupAbs.lean` and for an ARBITRARY function in place
  of SHA-256. Core Lean only.
-/
import BtcVerif.Model.Bip32
import BtcVerif.Model.Varint

namespace BtcVerif.Model.Taproot
open BtcVerif BtcVerif.Model BtcVerif.Model.Bip32 BtcVerif.Gen BtcVerif.Gen.Guards

/-- `bhash.NewTaggedHasher(tag)(chunks...)`:
    `sha256(sha256(tag) ‖ sha256(tag) ‖ chunk₀ ‖ chunk₁ ‖ …)` (tagged_hasher.go:11-22) -/
def taggedHash (sha : Bytes → Bytes) (tag : String) (chunks : List Bytes) : Bytes :=
  let th := sha tag.toUTF8.toList
  sha (th ++ th ++ chunks.flatten)

/-! ### taproot/taproot.go -/

/-- the tweak `t = int(tagged_hash("TapTweak", chunks…))`, chunks concatenating to `P ‖ h` -/
def tapTweak (sha : Bytes → Bytes) (chunks : List Bytes) : Nat :=
  beNat (taggedHash sha "TapTweak" chunks)

/-- `TweakPublicKey` (taproot.go:16-42): x-only key and commitment → (x-only output key, parity).
    After the D15 repair the hasher receives `publicKey` and `h` as two chunks. Note the quirk
    `IsValidScalar(t)`: `t = 0` is refused as well (BIP341 only refuses `t ≥ n`). -/
def tweakPub {P} (C : CurveOps P) (sha : Bytes → Bytes) (pk h : Bytes) : Outcome (Bytes × Bool) :=
  if taproot_TweakPublicKey_0 (len_publicKey := pk.length) then .err
  else match C.parse pk with
    | none => .err
    | some pt =>
      let t := tapTweak sha [pk, h]             -- two chunks: nothing is appended to `publicKey`
      if taproot_TweakPublicKey_1 (isValidScalar C.n t) then .err
      else
        let q := C.add pt (C.mulG t)          -- Q = P + tG (argument order of the code)
        .ok (C.xBytes q, C.yOdd q)

/-- `TweakPrivateKey` (taproot.go:47-67). The key may have any length; only its value is tested. -/
def tweakPriv {P} (C : CurveOps P) (sha : Bytes → Bytes) (sk h : Bytes) : Outcome Bytes :=
  let d := beNat sk
  if taproot_TweakPrivateKey_0 (isValidScalar C.n d) then .err
  else
    let pt := C.mulG d
    let d' := if taproot_TweakPrivateKey_1 (if C.yOdd pt then 1 else 0) then C.n - d else d
    let t := tapTweak sha [C.xBytes pt ++ h]   -- append onto the fresh `FillBytes` slice
    if taproot_TweakPrivateKey_2 (isValidScalar C.n t) then .err
    else fill32 ((d' + t) % C.n)

/-! ### taproot/dead.go -/

/-- `BuildDeadKey` (dead.go:27-43): x(H + rG). No range check on `r`; `MultiplyBasePoint` panics
    for `r ≥ 2^256` (see `scalarBaseMult`). -/
def buildDead {P} (C : CurveOps P) (H : P) (proof : Bytes) : Outcome Bytes :=
  match scalarBaseMult C (beNat proof) with
  | .ok rG => .ok (C.xBytes (C.add H rG))
  | .err => .err
  | .panic => .panic

/-- `VerifyDeadKey` (dead.go:67-78); `subtle.ConstantTimeCompare` is 1 exactly for equal slices -/
def verifyDead {P} (C : CurveOps P) (H : P) (key proof : Bytes) : Outcome Unit :=
  if taproot_VerifyDeadKey_0 (isValidScalar C.n (beNat proof)) then .err
  else match buildDead C H proof with
    | .ok dead =>
      if taproot_VerifyDeadKey_1 (if key = dead then 1 else 0) then .err else .ok ()
    | .err => .err
    | .panic => .panic

/-! ### script/p2tr.go -/

/-- `bytes.Compare`: lexicographic, a proper prefix is smaller -/
def cmpBytes : Bytes → Bytes → Int
  | [], [] => 0
  | [], _ :: _ => -1
  | _ :: _, [] => 1
  | a :: as, b :: bs => if a < b then -1 else if b < a then 1 else cmpBytes as bs

/-- `script.PushData` (push.go:23-48): only used here for the 32-byte output key -/
def pushData (data : Bytes) : Outcome Bytes :=
  let n : Int := data.length
  if script_PushData_0 n then .ok (UInt8.ofNat data.length :: data)
  else if script_PushData_1 n then .ok (UInt8.ofNat constants_OP_PUSHDATA1 :: leBytes 1 data.length ++ data)
  else if script_PushData_2 n then .ok (UInt8.ofNat constants_OP_PUSHDATA2 :: leBytes 2 data.length ++ data)
  else if script_PushData_3 n then .ok (UInt8.ofNat constants_OP_PUSHDATA4 :: leBytes 4 data.length ++ data)
  else .panic

/-- a `script.Hasher` value: `nil` interface, `*MastLeaf`, `MastLeafHash`, `MastBranch` -/
inductive Tree where
  | nil
  | leaf (version : UInt8) (script : Bytes)
  | hash (h : Bytes)                         -- `MastLeafHash`, a `[32]byte`
  | branch (l r : Tree)
  deriving Repr, DecidableEq

def Tree.isNil : Tree → Bool
  | .nil => true
  | _ => false

/-- the TapLeaf preimage (p2tr.go:51-58, repaired): `version ‖ compact-size(len script) ‖ script` -/
def leafPre (v : UInt8) (s : Bytes) : Bytes := v :: (encVarint s.length ++ s)

def leafHash (sha : Bytes → Bytes) (v : UInt8) (s : Bytes) : Bytes :=
  taggedHash sha "TapLeaf" [leafPre v s]

/-- `MastBranch.Hash` on the two child hashes (p2tr.go:80-89): swap when left > right -/
def branchHash (sha : Bytes → Bytes) (a b : Bytes) : Bytes :=
  if script_MastBranch_Hash_1 (cmpBytes a b) then taggedHash sha "TapBranch" [b ++ a]
  else taggedHash sha "TapBranch" [a ++ b]

/-- `Hasher.Hash()`. A nil child makes `MastBranch.Hash` panic (p2tr.go:77-79); `nil` itself has no
    `Hash` (calling it is a nil-interface call: panic). -/
def treeHash (sha : Bytes → Bytes) : Tree → Outcome Bytes
  | .nil => .panic
  | .leaf v s => .ok (leafHash sha v s)
  | .hash h => .ok h
  | .branch l r =>
    if script_MastBranch_Hash_0 l.isNil r.isNil then .panic
    else match treeHash sha l with
      | .ok a =>
        match treeHash sha r with
        | .ok b => .ok (branchHash sha a b)
        | .err => .err
        | .panic => .panic
      | .err => .err
      | .panic => .panic

/-- `MakeP2TR` (p2tr.go:95-108): `nil` tree = key-path only (empty commitment) -/
def makeP2TR {P} (C : CurveOps P) (sha : Bytes → Bytes) (pk : Bytes) (tree : Tree) : Outcome Bytes := do
  let h ← if script_MakeP2TR_0 tree.isNil then treeHash sha tree else pure []
  let q ← tweakPub C sha pk h
  let push ← pushData q.1
  pure (UInt8.ofNat constants_OP_TRUE :: push)

/-! ### the concrete dead-key generator `H` (dead.go:13-22), transcribed -/

def deadH : Prim.Secp256k1.Point :=
  some (0x50929b74c1a04954b78b4b6035e97a5e078a5a0f28ec96d547bfee9ace803ac0,
        0x31d3c6863973926e049e637cb1b5f40a36dac28af1766968c30c2313f3a38904)

end BtcVerif.Model.Taproot
