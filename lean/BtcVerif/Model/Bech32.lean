/-
  Model of `bech32/{bech32,checksum,decode,encode}.go` after the D12/D13 repairs (property C08),
  including the `github.com/kklash/bits` operations the code calls (`ByteToBits`, `BytesToBits`,
  `PadRight`, `Split`, `Join`, `Trim`, `BigInt`, `Byte(s)`): a `bits.Bits` value is a `List Bool`,
  most significant bit first.

  Go strings are byte strings (`Bytes`); `uint5` is `uint8`, modelled as `Nat`. Core Lean only.
-/
import BtcVerif.Model.Base58

namespace BtcVerif.Model.Bech32
open BtcVerif BtcVerif.Gen BtcVerif.Gen.Guards

/-- `bech32.Alphabet` (bech32.go:9) -/
def alphabet : Bytes := strBytes bech32_Alphabet

/-- `bech32.Separator` is the one-character string "1" (`Props.C08.bech32_separator_eq` ties this
    byte to the regenerated constant). -/
def sepChar : UInt8 := 0x31

/-- `AlphabetIndices[c]`: a Go map read, so a missing key gives the zero value (bech32.go:22-34,
    decode.go:98). -/
def alphaIndex (c : UInt8) : Nat :=
  match Base58.indexOf alphabet c with
  | some i => i
  | none => 0

/-! ### kklash/bits -/

abbrev Bits := List Bool

/-- `bits.ByteToBits` (bytes_to_bits.go): 8 bits, most significant first -/
def byteToBits (b : Nat) : Bits :=
  [b.testBit 7, b.testBit 6, b.testBit 5, b.testBit 4, b.testBit 3, b.testBit 2, b.testBit 1, b.testBit 0]

/-- `bits.BytesToBits` -/
def bytesToBits (bs : Bytes) : Bits := bs.flatMap (fun b => byteToBits b.toNat)

/-- `Bits.BigInt()` (conversions.go): the value of the bit string -/
def bitsToNat (bs : Bits) : Nat := bs.foldl (fun v b => 2 * v + (if b then 1 else 0)) 0

/-- `Bits.Trim()` (trim.go): drop leading zero bits -/
def trim : Bits → Bits
  | [] => []
  | b :: rest => if b then b :: rest else trim rest

/-- `Bits.PadRight(n)` (pad.go): append zero bits up to a multiple of `n`; an empty value is
    padded to `n` bits. -/
def padRight (bs : Bits) (n : Nat) : Bits :=
  if n = 0 then bs
  else if bs.length % n = 0 ∧ bs.length ≠ 0 then bs
  else bs ++ List.replicate (n - bs.length % n) false

/-- `Bits.Split(n)` (split.go) for `n > 0`: groups of `n` bits, the last one shorter when the
    length is not a multiple of `n`. (`fuel` bounds the number of groups.) -/
def splitAux (n : Nat) : Nat → Bits → List Bits
  | 0, _ => []
  | fuel + 1, bs => if bs.isEmpty then [] else bs.take n :: splitAux n fuel (bs.drop n)

def split (bs : Bits) (n : Nat) : List Bits := splitAux n bs.length bs

/-- `Bits.Byte()` (conversions.go): panics unless there are exactly 8 bits -/
def bitsByte (bs : Bits) : Outcome UInt8 :=
  if bs.length ≠ 8 then .panic else .ok (UInt8.ofNat (bitsToNat bs))

def mapM' {α β} (f : α → Outcome β) : List α → Outcome (List β)
  | [] => .ok []
  | a :: as =>
    match f a with
    | .ok b => (match mapM' f as with
      | .ok bs => .ok (b :: bs)
      | .err => .err
      | .panic => .panic)
    | .err => .err
    | .panic => .panic

/-- `Bits.Bytes()` (conversions.go): panics unless the length is a multiple of 8 -/
def bitsBytes (bs : Bits) : Outcome Bytes :=
  if bs.length % 8 ≠ 0 then .panic else mapM' bitsByte (split bs 8)

/-! ### checksum.go -/

/-- `bech32HrpExpand` (checksum.go:10-21). The Go loop ranges over runes; for an HRP of ASCII
    bytes (the only ones `Validate` admits) runes are bytes. -/
def hrpExpand (hrp : Bytes) : List Nat :=
  hrp.map (fun c => c.toNat >>> 5) ++ [0] ++ hrp.map (fun c => c.toNat &&& 31)

/-- checksum.go:38-44: `for i := 0; i < len(Gen); i++ { if (b>>i)&1 == 1 { chk ^= Gen[i] } }` -/
def genFold (b : Nat) : List Nat → Nat → Nat → Nat
  | [], _, chk => chk
  | g :: gs, i, chk => genFold b gs (i + 1) (if (b >>> i) &&& 1 = 1 then chk ^^^ g else chk)

/-- one round of `bech32Polymod` (checksum.go:35-45); `chk` stays below 2^30, so Go's 64-bit `int`
    never overflows and `Nat` is exact. -/
def polymodStep (chk v : Nat) : Nat :=
  let b := chk >>> 25
  let chk := ((chk &&& 0x1ffffff) <<< 5) ^^^ v
  genFold b constants_Bech32ChecksumGen 0 chk

/-- `bech32Polymod` (checksum.go:33-48) -/
def polymod (values : List Nat) : Nat := values.foldl polymodStep 1

/-- `bech32CreateChecksum` (checksum.go:55-65) -/
def createChecksum (hrp : Bytes) (values : List Nat) : List Nat :=
  let pm := polymod (hrpExpand hrp ++ values ++ [0, 0, 0, 0, 0, 0]) ^^^ 1
  (List.range 6).map (fun i => (pm >>> (5 * (5 - i))) &&& 31)

/-- `bech32VerifyChecksum` (checksum.go:70-73) -/
def verifyChecksum (hrp : Bytes) (values : List Nat) : Bool :=
  bech32_bech32VerifyChecksum_0 (call_bech32Polymod_values := (polymod (hrpExpand hrp ++ values) : Nat))

/-! ### decode.go -/

/-- ASCII `strings.ToLower` / `strings.ToUpper`; only applied to strings whose bytes were checked
    to lie in 33..126 (or to one such byte). -/
def lowerByte (c : UInt8) : UInt8 := if 65 ≤ c.toNat ∧ c.toNat ≤ 90 then c + 32 else c
def upperByte (c : UInt8) : UInt8 := if 97 ≤ c.toNat ∧ c.toNat ≤ 122 then c - 32 else c
def lower (s : Bytes) : Bytes := s.map lowerByte
def upper (s : Bytes) : Bytes := s.map upperByte

/-- `strings.LastIndex(s, "1")`: index of the last separator, `-1` when there is none. -/
def lastIndexAux (c : UInt8) : Bytes → Int → Int → Int
  | [], _, found => found
  | x :: xs, i, found => lastIndexAux c xs (i + 1) (if x == c then i else found)

def lastIndex (c : UInt8) (s : Bytes) : Int := lastIndexAux c s 0 (-1)

/-- the character loop of `Validate` (decode.go:67-75); `true` = no invalid character -/
def validChars (sepIndex : Int) : Bytes → Int → Bool
  | [], _ => true
  | c :: cs, i =>
    if bech32_Validate_2 (c := c.toNat) then false
    else if bech32_Validate_3 (i := i) (sepIndex := sepIndex)
        (call_strings_Contains_Alphabet_strings_ToLower_string_c := alphabet.contains (lowerByte c)) then false
    else validChars sepIndex cs (i + 1)

/-- `bech32.Validate` (decode.go:53-85); `true` = nil error -/
def validate (s : Bytes) : Bool :=
  if bech32_Validate_0 (len_bechAndHrp := s.length) then false
  else
    let sepIndex := lastIndex sepChar s
    if bech32_Validate_1 (sepIndex := sepIndex) (len_bechAndHrp := s.length) then false
    else if !validChars sepIndex s 0 then false
    -- decode.go:80 `bechAndHrp != lowerCase && bechAndHrp != upperCase` (guard not translated)
    else if s != lower s && s != upper s then false
    else true

/-- `separateBechAndHrp` (decode.go:87-92): the two slice expressions panic for `sepIndex = -1`. -/
def separate (s : Bytes) : Outcome (Bytes × Bytes) :=
  let sepIndex := lastIndex sepChar s
  if sepIndex < 0 ∨ sepIndex.toNat + 1 > s.length then .panic
  else .ok (s.take sepIndex.toNat, s.drop (sepIndex.toNat + 1))

/-- decode.go:97-101: the 5 low bits of the alphabet index of every character -/
def charBits (c : UInt8) : Bits := (byteToBits (alphaIndex c)).drop (8 - bech32_BitGroupSize)

/-- decode.go:133-137: the version is the first byte of `bitGroups[0].BigInt().Bytes()`, or 0 when
    that byte string is empty -/
def versionOf (g0 : Bits) : Outcome Nat :=
  let vb := Base58.natBytes (bitsToNat g0)
  if bech32_Decode_1 (versionBytes_isnil := vb.isEmpty) (len_versionBytes := vb.length) then .ok 0
  else match vb with
    | b :: _ => .ok b.toNat
    | [] => .panic

/-- decode.go:140-156: join the payload groups, check the padding, regroup into bytes -/
def regroup (groups : List Bits) : Outcome Bytes :=
  let allBits : Bits := groups.flatten                                 -- bits.Join
  let nPadding := allBits.length % 8
  let padding := allBits.drop (allBits.length - nPadding)
  -- decode.go:148 `nPadding >= BitGroupSize || len(padding.Trim()) != 0` (guard not translated)
  if nPadding ≥ bech32_BitGroupSize ∨ (trim padding).length ≠ 0 then .err
  else bitsBytes (allBits.take (allBits.length - nPadding))

/-- `bech32.Decode` (decode.go:111-157, repaired): hrp, version, payload -/
def decode (s : Bytes) : Outcome (Bytes × Nat × Bytes) :=
  if !validate s then .err
  else
    let s := lower s
    match separate s with
    | .err => .err
    | .panic => .panic
    | .ok (hrp, bech) =>
      -- bechToBitGroups (decode.go:94-110)
      let indices := bech.map alphaIndex
      let bitGroups := bech.map charBits
      if bech32_bechToBitGroups_0 (call_bech32VerifyChecksum_hrp_indices := verifyChecksum hrp indices) then .err
      else if bech32_Decode_0 (len_bitGroups := bitGroups.length) then .err
      else
        match bitGroups with
        | [] => .panic                                   -- bitGroups[0]
        | g0 :: _ =>
          match versionOf g0 with
          | .err => .err
          | .panic => .panic
          | .ok version =>
            -- bitGroups[1 : len-ChecksumSize]
            if 1 > bitGroups.length - bech32_ChecksumSize ∨ bech32_ChecksumSize > bitGroups.length then .panic
            else
              match regroup ((bitGroups.take (bitGroups.length - bech32_ChecksumSize)).drop 1) with
              | .ok data => .ok (hrp, version, data)
              | .err => .err
              | .panic => .panic

/-! ### encode.go -/

/-- `bytesToIndeces` (encode.go:40-52) -/
def bytesToIndices (data : Bytes) : List Nat :=
  (split (padRight (bytesToBits data) bech32_BitGroupSize) bech32_BitGroupSize).map bitsToNat

/-- encode.go:28-32: the character of one value; a value outside the alphabet panics -/
def charOf (v : Nat) : Outcome UInt8 :=
  if bech32_encodeValues_1 (values_at_i := v) then .panic
  else match alphabet[v]? with
    | some c => .ok c
    | none => .panic

/-- `encodeValues` (encode.go:23-36) -/
def encodeValues (hrp : Bytes) (values : List Nat) : Outcome Bytes :=
  let values := values ++ createChecksum hrp values
  match mapM' charOf values with
  | .ok chars => .ok (hrp ++ [sepChar] ++ chars)
  | .err => .err
  | .panic => .panic

/-- `bech32.Encode` (encode.go:57-77, repaired). `version` is a byte. -/
def encode (hrp : Bytes) (version : Nat) (data : Bytes) : Outcome Bytes :=
  if bech32_Encode_0 (data_isnil := false) (len_data := data.length) then .err
  else if bech32_Encode_1 (version := version) then .err
  else
    let values := version :: bytesToIndices data
    if bech32_Encode_2 (len_hrp := hrp.length) (len_values := values.length) then .err
    else encodeValues hrp values

end BtcVerif.Model.Bech32
