/-
  Model of /repo/ecc (public keys, point encodings, ECDH, key sums, ECDSA and BIP340 Schnorr
  signing / verification) on top of the dependency `github.com/kklash/ekliptic`.

  Mirrors (at the repaired commit, D8 and D9 fixed):
    ecc/ecc.go:17-25      NewPrivateKey            (+ ekliptic.RandomScalar, crypto/rand.Int)
    ecc/ecc.go:28-54      GetPublicKey*            (+ Curve.ScalarBaseMult, elliptic.Marshal*)
    ecc/ecc.go:58-83      Compress/UncompressPublicKey, IsCompressedPublicKey
    ecc/ecc.go:88-101     SumPrivateKeys
    ecc/ecc.go:106-127    SumPublicKeys
    ecc/serialize.go      curveYValues, DeserializePoint, SerializePoint*
    ecc/ecdh.go:12-15     SharedSecret
    ecc/ecdsa.go:17-50    SignECDSA, VerifyECDSA   (+ ekliptic.SignECDSA / VerifyECDSA)
    signer/sign_sighash.go SignSigHash             (+ der.EncodeSignature = Model/DER.lean)
    ecc/schnorr.go:20-125 SignSchnorr, VerifySchnorr
    ekliptic: weierstrass.go (Weierstrass, Negate), scalar.go (IsValidScalar), is_on_curve.go,
              multiply.go / multiply_base.go (the on-curve guard and the 256-bit scalar window),
              ecdsa.go.

  The model is generic over a small record `CurveOps` of curve operations: the executable model
  (Oracle/Ecc.lean) instantiates it with `Prim.Secp256k1`, the theorems (Proofs/ECC*.lean)
  quantify over it and constrain it by the named hypotheses of `Proofs/CurveAbs.lean`.
  A point is ekliptic's affine pair of big integers; **(0, 0) is ekliptic's point at infinity**.

  Hash functions (RFC 6979 nonce, the three BIP340 tagged hashes) are the record `SigOps`:
  uninterpreted in theorems, `Prim.rfc6979Nonce` / `Prim.taggedHash` in the oracle.

  Core Lean only.
-/
import BtcVerif.Model.Basic
import BtcVerif.Model.DER
import BtcVerif.Gen.Guards
import BtcVerif.Gen.Constants

namespace BtcVerif.Model.ECC
open BtcVerif BtcVerif.Gen.Guards

/-- ekliptic's affine point: a pair of big integers, `(0, 0)` standing for infinity -/
abbrev Pt := Nat × Nat

/-- The curve operations the Go code obtains from `ekliptic` / `math/big`. -/
structure CurveOps where
  /-- `ekliptic.Secp256k1_P` -/
  p : Nat
  /-- `ekliptic.Secp256k1_CurveOrder` -/
  n : Nat
  /-- `ekliptic.Secp256k1_GeneratorX/Y` -/
  gx : Nat
  gy : Nat
  /-- `c ↦ new(big.Int).Exp(c, (P+1)/4, P)` (weierstrass.go:39) -/
  sqrtExp : Nat → Nat
  /-- `ekliptic.AddAffine` (on the points it is documented for; `(0,0)` neutral) -/
  add : Pt → Pt → Pt
  /-- `ekliptic.MultiplyAffine` for a 256-bit scalar and a point that passed the on-curve guard -/
  mul : Nat → Pt → Pt
  /-- `new(big.Int).ModInverse(·, N)` on `[1, N-1]` -/
  invN : Nat → Nat

/-- The hash-based functions used by signing. -/
structure SigOps where
  /-- `rfc6979.Q.Nonce(d, h1, sha256.New)` for `d < N`, 32-byte `h1` -/
  nonce : Nat → Bytes → Nat
  /-- `bhash.NewTaggedHasher("BIP0340/aux")` etc. applied to the concatenated chunks -/
  hAux : Bytes → Bytes
  hNonce : Bytes → Bytes
  hChallenge : Bytes → Bytes

variable (C : CurveOps)

def G : Pt := (C.gx, C.gy)

/-- `x.FillBytes(make([]byte, 32))`: panics ("buffer too small") when the value needs more than 32 bytes -/
def fillBytes32 (v : Nat) : Outcome Bytes :=
  if v < 2 ^ 256 then .ok (beBytes 32 v) else .panic

/-- ekliptic/scalar.go:25 `d.Cmp(zero) == 1 && d.Cmp(N) == -1` -/
def isValidScalar (d : Nat) : Bool := decide (0 < d) && decide (d < C.n)

/-- ekliptic/negate.go:11 -/
def negateY (y : Nat) : Nat := if y = 0 then 0 else C.p - y

/-- ecc/arithmetic.go:39 `y.Bit(0) == 0` -/
def isEven (y : Nat) : Bool := ecc_isEven_0 (call_y_Bit_0 := y % 2)

/-- ekliptic/weierstrass.go:22-55. `none` is the `nil, nil` result. -/
def weierstrass (x : Nat) : Option (Nat × Nat) :=
  if x = 0 then some (0, 0)
  else if x ≥ C.p then none
  else
    let c := (x * x * x + 7) % C.p
    let y := C.sqrtExp c
    if y * y % C.p ≠ c then none
    else if y % 2 = 0 then some (y, negateY C y) else some (negateY C y, y)

/-- ecc/serialize.go `curveYValues` (added by the D8 repair): a missing **or zero** root means
    "no curve point with this x" — (x, 0) and (0, 0) are not finite points of the curve,
    (0, 0) is ekliptic's infinity.
    Guard `evenY == nil || oddY == nil || evenY.Sign() == 0 || oddY.Sign() == 0`. -/
def curveYValues (x : Nat) : Option (Nat × Nat) :=
  match weierstrass C x with
  | none => none
  | some (ey, oy) =>
    if ecc_curveYValues_0 (evenY_isnil := false) (oddY_isnil := false)
        (call_evenY_Sign := if ey = 0 then 0 else 1) (call_oddY_Sign := if oy = 0 then 0 else 1)
    then none else some (ey, oy)

/-- ecc/serialize.go `DeserializePoint`. Length switch, prefix tests and root tests are the
    regenerated guards. -/
def deserializePoint (bs : Bytes) : Outcome Pt :=
  let len := bs.length
  if ecc_DeserializePoint_0 (len_serialized := len) then
    match bs with
    | [] => .panic
    | pre :: rest =>
      if ecc_DeserializePoint_3 (serialized_0 := pre.toNat) then .err
      else
        let x := beNat (rest.take 32)
        let y := beNat (rest.drop 32)
        let ys := curveYValues C x
        if ecc_DeserializePoint_4 (evenY_isnil := ys.isNone) (oddY_isnil := ys.isNone)
            (call_equal_y_evenY := ys.any (fun r => r.1 == y))
            (call_equal_y_oddY := ys.any (fun r => r.2 == y))
        then .err else .ok (x, y)
  else if ecc_DeserializePoint_1 (len_serialized := len) then
    match bs with
    | [] => .panic
    | pre :: rest =>
      let x := beNat rest
      match curveYValues C x with
      | none => .err     -- guard ecc_DeserializePoint_5 with both nil
      | some (ey, oy) =>
        if ecc_DeserializePoint_5 (evenY_isnil := false) (oddY_isnil := false) then .err
        else if ecc_DeserializePoint_6 (serialized_0 := pre.toNat) then .ok (x, ey)
        else if ecc_DeserializePoint_7 (serialized_0 := pre.toNat) then .ok (x, oy)
        else .err
  else if ecc_DeserializePoint_2 (len_serialized := len) then
    let x := beNat bs
    match curveYValues C x with
    | none => .err
    | some (ey, _) => if ecc_DeserializePoint_8 (y_isnil := false) then .err else .ok (x, ey)
  else .err

/-- ekliptic/is_on_curve.go:10-26 `IsOnCurveAffine` (coordinates are NOT range-checked) -/
def isOnCurveAffine (P : Pt) : Bool :=
  (P.1 == 0 && P.2 == 0) || (P.2 * P.2 % C.p == (P.1 * P.1 * P.1 + 7) % C.p)

/-- ekliptic/curve.go:32-37 `(*Curve).IsOnCurve` -/
def curveIsOnCurve (P : Pt) : Bool :=
  if P.1 == 0 && P.2 == 0 then false else isOnCurveAffine C P

/-- crypto/elliptic `panicIfNotOnCurve`: (0,0) is let through -/
def marshalGuard (P : Pt) : Bool := (P.1 == 0 && P.2 == 0) || curveIsOnCurve C P

/-- `elliptic.Marshal(Curve, x, y)` = `SerializePointUncompressed` -/
def serializeUncompressed (P : Pt) : Outcome Bytes :=
  if !marshalGuard C P then .panic
  else do
    let xb ← fillBytes32 P.1
    let yb ← fillBytes32 P.2
    pure ((4 : UInt8) :: (xb ++ yb))

/-- `elliptic.MarshalCompressed(Curve, x, y)` = `SerializePointCompressed`; prefix `byte(y.Bit(0)) | 2` -/
def serializeCompressed (P : Pt) : Outcome Bytes :=
  if !marshalGuard C P then .panic
  else do
    let xb ← fillBytes32 P.1
    pure ((if P.2 % 2 = 0 then (2 : UInt8) else 3) :: xb)

def serializePoint (P : Pt) (compressed : Bool) : Outcome Bytes :=
  if ecc_SerializePoint_0 (compressed := compressed) then serializeCompressed C P
  else serializeUncompressed C P

/-- `ekliptic.MultiplyBasePoint(k)`: the windowed method starts with `k.FillBytes(make([]byte, 32))`
    (multiply.go:83), which panics for `k ≥ 2^256`. -/
def mulBase (k : Nat) : Outcome Pt :=
  if k < 2 ^ 256 then .ok (C.mul k (G C)) else .panic

/-- `ekliptic.MultiplyAffine(x, y, k, nil)`: panics when the point fails `IsOnCurveJacobi`
    (multiply.go:31); the Montgomery ladder then reads bits 255..0 of `k` only (multiply.go:47). -/
def mulAffine (k : Nat) (P : Pt) : Outcome Pt :=
  if !isOnCurveAffine C P then .panic else .ok (C.mul (k % 2 ^ 256) P)

/-- ecc/ecc.go:28-31 -/
def getPublicKeyCompressed (priv : Bytes) : Outcome Bytes := do
  let P ← mulBase C (beNat priv)
  serializeCompressed C P

/-- ecc/ecc.go:34-37 -/
def getPublicKeyUncompressed (priv : Bytes) : Outcome Bytes := do
  let P ← mulBase C (beNat priv)
  serializeUncompressed C P

/-- ecc/ecc.go:41-46 -/
def getPublicKey (priv : Bytes) (compressed : Bool) : Outcome Bytes :=
  if ecc_GetPublicKey_0 (compressed := compressed) then getPublicKeyCompressed C priv
  else getPublicKeyUncompressed C priv

/-- ecc/ecc.go:50-53 -/
def getPublicKeySchnorr (priv : Bytes) : Outcome Bytes := do
  let P ← mulBase C (beNat priv)
  fillBytes32 P.1

/-- ecc/ecc.go:57-63 -/
def compressPublicKey (pub : Bytes) : Outcome Bytes := do
  let P ← deserializePoint C pub
  serializeCompressed C P

/-- ecc/ecc.go:67-73 -/
def uncompressPublicKey (pub : Bytes) : Outcome Bytes := do
  let P ← deserializePoint C pub
  serializeUncompressed C P

/-- ecc/ecc.go:77-83 (a `[]byte` decoded from the wire is never nil; `key[0]` is only evaluated
    when the length test passed) -/
def isCompressedPublicKey (key : Bytes) : Bool :=
  match key with
  | [] => false
  | b :: _ => ecc_IsCompressedPublicKey_0 (key_isnil := false) (len_key := key.length) (key_0 := b.toNat)

/-- ecc/ecc.go:88-101 `SumPrivateKeys` (with the D9 repair `sum.Mod(sum, N)` before `FillBytes`) -/
def sumPrivLoop : List Bytes → Nat → Outcome Nat
  | [], sum => .ok sum
  | k :: ks, sum =>
    let v := beNat k
    if ecc_SumPrivateKeys_0 (call_ekliptic_IsValidScalar_keyInt := isValidScalar C v) then .err
    else sumPrivLoop ks (sum + v)

def sumPrivateKeys (keys : List Bytes) : Outcome Bytes := do
  let sum ← sumPrivLoop C keys 0
  fillBytes32 (sum % C.n)

/-- ecc/ecc.go:106-127 `SumPublicKeys` -/
def sumPubLoop : List Bytes → Pt → Outcome Pt
  | [], acc => .ok acc
  | k :: ks, acc =>
    if ecc_SumPublicKeys_0 (len_key := k.length) then .err
    else
      match deserializePoint C k with
      | .ok P => sumPubLoop ks (C.add acc P)
      | .err => .err
      | .panic => .panic

def sumPublicKeys (keys : List Bytes) : Outcome Bytes := do
  let S ← sumPubLoop C keys (0, 0)
  fillBytes32 S.1

/-- ecc/ecdh.go:12-15 -/
def sharedSecret (priv : Nat) (P : Pt) : Outcome Bytes := do
  let Q ← mulAffine C priv P
  fillBytes32 Q.1

/-- ecc/ecc.go:17-25 `NewPrivateKey` over a byte stream: `crypto/rand.Int(random, N-1)` reads
    32 bytes at a time (bit length of `N-2` is 256, so nothing is masked), rejects values
    `≥ N-1`, and `RandomScalar` adds one. `err` when the stream ends. Fuel = stream length. -/
def newPrivateKeyLoop : Nat → Bytes → Outcome Bytes
  | 0, _ => .err
  | fuel + 1, s =>
    let chunk := s.take 32
    if chunk.length ≠ 32 then .err
    else
      let v := beNat chunk
      if v < C.n - 1 then fillBytes32 (v + 1)
      else newPrivateKeyLoop fuel (s.drop 32)

def newPrivateKey (stream : Bytes) : Outcome Bytes := newPrivateKeyLoop C (stream.length + 1) stream

/-! ### ECDSA -/

/-- ekliptic/ecdsa.go:10-42 `SignECDSA(d, k, z)` -/
def eklipticSign (d k z : Nat) : Outcome (Nat × Nat) :=
  if !isValidScalar C k then .panic
  else if !isValidScalar C d then .panic
  else do
    let R ← mulBase C k
    let r := R.1 % C.n
    let m := r * d + z
    let s := C.invN k * m % C.n
    let s := if s > C.n / 2 then C.n - s else s
    pure (r, s)

/-- ecc/ecdsa.go:17-31 `SignECDSA`. `rfc6979.Nonce` panics for `d ≥ N` (rfc6979.go:88);
    `Q.Bits2int` of a 32-byte string for a 256-bit order is the big-endian value. -/
def signECDSA (S : SigOps) (priv hash : Bytes) : Outcome (Nat × Nat) :=
  if ecc_SignECDSA_0 (len_messageHash := hash.length) then .panic
  else if ecc_SignECDSA_1 (len_privateKey := priv.length) then .panic
  else
    let d := beNat priv
    if d ≥ C.n then .panic
    else
      let k := S.nonce d hash
      let z := beNat hash
      eklipticSign C d k z

/-- signer/sign_sighash.go:8-17 `SignSigHash(hash, privateKey, sigHashType)`:
    `ecc.SignECDSA(privateKey, hash)` then `der.EncodeSignature(r, s, sigHashType)` (Model/DER.lean) -/
def signSigHash (S : SigOps) (hash priv : Bytes) (ht : Nat) : Outcome Bytes :=
  match signECDSA C S priv hash with
  | .ok (r, s) => Model.DER.encode (some (r : Int)) (some (s : Int)) ht
  | .err => .err
  | .panic => .panic

/-- ekliptic/ecdsa.go:47-75 `VerifyECDSA(z, r, s, pubX, pubY)` -/
def eklipticVerify (z r s : Nat) (P : Pt) : Outcome Bool := do
  let si := C.invN s
  let u1 := si * z % C.n
  let u2 := si * r % C.n
  let A ← mulBase C u1
  let B ← mulAffine C u2 P
  let R := C.add A B
  pure (decide (r = R.1 % C.n))

/-- ecc/ecdsa.go:34-50 `VerifyECDSA` -/
def verifyECDSA (pub hash : Bytes) (r s : Nat) : Outcome Bool :=
  if ecc_VerifyECDSA_0 (len_messageHash := hash.length) then .panic
  else if ecc_VerifyECDSA_1 (call_ekliptic_IsValidScalar_r := isValidScalar C r)
      (call_ekliptic_IsValidScalar_s := isValidScalar C s) then .ok false
  else
    match deserializePoint C pub with
    | .err => .ok false
    | .panic => .panic
    | .ok P => eklipticVerify C (beNat hash) r s P

/-! ### BIP340 -/

/-- `common.XorBytes`: panics on different lengths -/
def xorBytes (a b : Bytes) : Outcome Bytes :=
  if a.length ≠ b.length then .panic else .ok (List.zipWith (· ^^^ ·) a b)

/-- ecc/schnorr.go:20-78 `SignSchnorr` -/
def signSchnorr (S : SigOps) (priv msg aux : Bytes) : Outcome Bytes :=
  if ecc_SignSchnorr_0 (len_messageHash := msg.length) then .panic
  else if ecc_SignSchnorr_1 (len_privateKey := priv.length) then .panic
  else if ecc_SignSchnorr_2 (len_auxRand := aux.length) then .panic
  else
    let d0 := beNat priv
    if ecc_SignSchnorr_3 (call_ekliptic_IsValidScalar_d := isValidScalar C d0) then .panic
    else do
      let P ← mulBase C d0
      let d := if ecc_SignSchnorr_4 (call_isEven_pubY := isEven P.2) then C.n - d0 else d0
      let pubBytes ← fillBytes32 P.1
      let dBytes ← fillBytes32 d
      let t ← xorBytes dBytes (S.hAux aux)
      let rnd := S.hNonce (t ++ pubBytes ++ msg)
      let k0 := beNat rnd % C.n
      if ecc_SignSchnorr_5 (call_equal_k_zero := decide (k0 = 0)) then .panic
      else do
        let R ← mulBase C k0
        let k := if ecc_SignSchnorr_6 (call_isEven_rY := isEven R.2) then C.n - k0 else k0
        let rBytes ← fillBytes32 R.1
        let e := beNat (S.hChallenge (rBytes ++ pubBytes ++ msg)) % C.n
        let s := (k + e * d) % C.n
        let sBytes ← fillBytes32 s
        pure (rBytes ++ sBytes)

/-- `ekliptic.SubAffine`: `AddAffine(P1, (x2, Negate(y2)))` -/
def subAffine (P Q : Pt) : Pt := C.add P (Q.1, negateY C Q.2)

/-- ecc/schnorr.go:82-125 `VerifySchnorr` -/
def verifySchnorr (S : SigOps) (pub msg sig : Bytes) : Outcome Bool :=
  if ecc_VerifySchnorr_0 (len_messageHash := msg.length) then .panic
  else if ecc_VerifySchnorr_1 (len_sig := sig.length) then .panic
  else if ecc_VerifySchnorr_2 (len_pubBytes := pub.length) then .ok false
  else
    match deserializePoint C pub with
    | .err => .ok false
    | .panic => .panic
    | .ok P =>
      let rBytes := sig.take 32
      let r := beNat rBytes
      if ecc_VerifySchnorr_3 (call_r_Cmp_ekliptic_Secp256k1_P := if r < C.p then -1 else if r = C.p then 0 else 1)
      then .ok false
      else
        let s := beNat (sig.drop 32)
        if ecc_VerifySchnorr_4
            (call_s_Cmp_ekliptic_Secp256k1_CurveOrder := if s < C.n then -1 else if s = C.n then 0 else 1)
        then .ok false
        else do
          let rb ← fillBytes32 r
          let e := beNat (S.hChallenge (rb ++ pub ++ msg)) % C.n
          let sG ← mulBase C s
          let eP ← mulAffine C e P
          let R := subAffine C sG eP
          pure (ecc_VerifySchnorr_5 (call_equal_Rx_zero := decide (R.1 = 0))
                  (call_equal_Ry_zero := decide (R.2 = 0)) (call_isEven_Ry := isEven R.2)
                  (call_equal_Rx_r := decide (R.1 = r)))

end BtcVerif.Model.ECC
