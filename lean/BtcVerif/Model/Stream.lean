/-
C16 — block streaming (`/repo/blockscan`, `/repo/rpc`) as a labelled transition system.

The truth of this property lives in the Go runtime, so the model is a model of the *protocol*:
goroutines are components with a small local state, an unbuffered channel operation is a rendezvous
(one joint transition of sender and receiver), `select` is a nondeterministic choice among the ready
cases, a context is a monotone flag, the completion of an RPC is a step of the environment.  Core-only.

Parameters `lo ≤ hi` (inclusive heights `fromHeight`, `toHeight`) and parallelism `p`.

Components (appendix B of DESIGN.md)
* worker `i < p` — `stream_blocks_unordered.go:31-57`: serves heights `base+i, base+i+p, … ≤ hi`
  (`base = lo` for `StreamBlocksUnordered`, `lo+1` when started by the re-orderer); per height:
  `next` —req hash→ `hashWait` —rsp→ `blockReq` —req block→ `blockWait` —rsp→ `offer good`
  (select: context done ⇒ `done` | rendezvous on blockQueue ⇒ next height) or `offerErr`
  (send on errorQueue, NOT guarded by the context) → `done`.
* closer — `stream_blocks_unordered.go:60-64`: all workers done ⇒ both worker queues closed.
* re-orderer — `stream_blocks.go:20-104`: `f0…f2` (the two RPCs of the first block), `s0` (send of the first
  block), `loop` (select: ctx done | block | error | closed), `rel` (release loop), `snd h` (send of a
  released block), `sendErr` (send on the error channel), `fin` (deferred cancel + close of both
  consumer-facing channels).
* consumer — `next_block_func.go:11-23` called in a loop (stream modes), or the loop of
  `update_utxos.go:32-55` (mode `utxo`), which returns nil after `hi-lo+1` blocks and an error on an error
  or on an early end of the stream (D18 repair).
* environment: completes an outstanding RPC with outcome ok | err | nolink (a block whose previous-hash
  is no hash of the chain); may cancel the caller's context once, at any time.

Labels: `none` is an internal step, `some e` an event the harness observes.

Abstractions (each only ADDS behaviour or is unobservable): the map `blocksByPrevHash` is the list of
buffered heights whose block links (a non-linking block is stored under a key that is never looked up);
`latestOk = false` when the first block itself was replaced (then nothing links to it); heights are `Nat`
(the Go code uses uint32: ranges that end within `p` of 2^32 are outside the model); `cancel()` + the two
`close` calls of the deferred function are one step; starting the workers is part of the step that
completes the first block's RPC.
-/
import BtcVerif.Gen.Guards

namespace BtcVerif.Model.Stream
open BtcVerif.Gen.Guards

inductive Mode | ordered | unordered | utxo
  deriving DecidableEq, Repr

structure Params where
  mode : Mode
  lo : Nat
  hi : Nat
  p : Nat
  deriving DecidableEq, Repr

inductive Kind | hash | block
  deriving DecidableEq, Repr

inductive Outc | ok | err | nolink
  deriving DecidableEq, Repr

inductive Event
  | req (h : Nat) (k : Kind)
  | rsp (h : Nat) (k : Kind) (o : Outc)
  | deliver (h : Nat)
  | endOfStream
  | error
  | cancel
  | utxoReturn (ok : Bool)
  deriving DecidableEq, Repr

abbrev Label := Option Event

inductive WPhase
  | idle | next | hashWait | blockReq | blockWait
  | offer (good : Bool)
  | offerErr
  | done
  deriving DecidableEq, Repr

structure Worker where
  pos : Nat
  ph : WPhase
  deriving DecidableEq, Repr

inductive RPhase
  | f0 | f1 | f1b | f2 | s0 | loop | rel
  | snd (h : Nat)
  | sendErr | fin
  | absent                       -- mode `unordered`: there is no re-orderer
  deriving DecidableEq, Repr

inductive CPhase
  | idle | call
  | got (h : Nat)
  | gotErr | gotEnd | finished
  deriving DecidableEq, Repr

structure State where
  workers : List Worker
  started : Bool           -- streamBlocksUnordered has been called (workers and closer exist)
  closed : Bool            -- the closer has closed blockQueue and errorQueue
  rph : RPhase
  cur : Nat                -- next height the re-orderer will release (Go: currentHeight + 1; `lo` before the first send)
  buf : List Nat           -- buffered heights whose block links to its predecessor
  latestOk : Bool
  closedSeen : Bool
  outClosed : Bool         -- orderedBlockQueue and wrappedErrorQueue closed
  cancel0 : Bool           -- the caller's context
  cancel1 : Bool           -- UpdateUtxos' deferred cancel
  cancel2 : Bool           -- the re-orderer's deferred cancel (the context the workers see)
  cph : CPhase
  cnt : Nat                -- utxo mode: scanBlockHeight - lo
  delivered : List Nat     -- ghost: heights returned to the caller, in order
  errs : Nat               -- ghost: errors returned by next()
  ended : Bool             -- ghost: next() returned (nil, nil)
  ret : Option Bool        -- ghost: UpdateUtxos returned (some true = nil error)
  panicked : Bool
  deriving DecidableEq, Repr

/-- first height served by the workers -/
def Params.base (P : Params) : Nat := if P.mode = .unordered then P.lo else P.lo + 1

def initWorker (P : Params) (started : Bool) (i : Nat) : Worker :=
  let h := P.base + i
  { pos := h, ph := if started then (if h ≤ P.hi then .next else .done) else .idle }

def initWorkers (P : Params) (started : Bool) : List Worker :=
  (List.range P.p).map (initWorker P started)

def init (P : Params) : State :=
  { workers := initWorkers P (P.mode = .unordered)
    started := P.mode = .unordered
    closed := false
    rph := if P.mode = .unordered then .absent else .f0
    cur := P.lo, buf := [], latestOk := true, closedSeen := false, outClosed := false
    cancel0 := false, cancel1 := false, cancel2 := false
    cph := .idle, cnt := 0, delivered := [], errs := 0, ended := false, ret := none
    -- stream_blocks.go:15 / stream_blocks_unordered.go:20: panic(ErrInvalidBlockHeight) in the caller's goroutine
    panicked := if P.mode = .unordered then blockscan_BlockScanner_streamBlocksUnordered_0 (toHeight := P.hi) (fromHeight := P.lo)
                else blockscan_BlockScanner_streamBlocks_0 (toHeight := P.hi) (fromHeight := P.lo) }

def alt {α} (c : Bool) (x : α) : List α := if c then [x] else []

def setW (s : State) (i : Nat) (w : Worker) : State := { s with workers := s.workers.set i w }

/-- after a block was handed over: `blocksFetched += 1`, next height or return (`stream_blocks_unordered.go:37-40`) -/
def advance (P : Params) (w : Worker) : Worker :=
  let h := w.pos + P.p
  { pos := h, ph := if h ≤ P.hi then .next else .done }

/-- the context the workers select on -/
def State.workerCtxDone (s : State) : Bool := s.cancel0 || s.cancel1 || s.cancel2

def insertSorted (h : Nat) : List Nat → List Nat
  | [] => [h]
  | x :: xs => if h ≤ x then h :: x :: xs else x :: insertSorted h xs

/-- steps of worker `i` (including its rendezvous with the receiver of its queues) -/
def wsteps (P : Params) (s : State) (i : Nat) (w : Worker) : List (Label × State) :=
  match w.ph with
  | .idle => []
  | .next => [(some (.req w.pos .hash), setW s i { w with ph := .hashWait })]
  | .hashWait =>
    [ (some (.rsp w.pos .hash .ok), setW s i { w with ph := .blockReq }),
      (some (.rsp w.pos .hash .err), setW s i { w with ph := .offerErr }) ]
  | .blockReq => [(some (.req w.pos .block), setW s i { w with ph := .blockWait })]
  | .blockWait =>
    [ (some (.rsp w.pos .block .ok), setW s i { w with ph := .offer true }),
      (some (.rsp w.pos .block .nolink), setW s i { w with ph := .offer false }),
      (some (.rsp w.pos .block .err), setW s i { w with ph := .offerErr }) ]
  | .offer good =>
    alt s.workerCtxDone (none, setW s i { w with ph := .done })
    ++ (if P.mode = .unordered then
          alt (s.cph = .call) (none, { setW s i (advance P w) with cph := .got w.pos })
        else
          alt (s.rph = .loop) (none, { setW s i (advance P w) with
                                        rph := .rel, buf := if good then insertSorted w.pos s.buf else s.buf }))
  | .offerErr =>
    if P.mode = .unordered then
      alt (s.cph = .call) (none, { setW s i { w with ph := .done } with cph := .gotErr })
    else
      alt (s.rph = .loop) (none, { setW s i { w with ph := .done } with rph := .sendErr })
  | .done => []

def forWorkersFrom {α} (f : Nat → Worker → List α) : Nat → List Worker → List α
  | _, [] => []
  | i, w :: ws => f i w ++ forWorkersFrom f (i + 1) ws

def forWorkers {α} (ws : List Worker) (f : Nat → Worker → List α) : List α := forWorkersFrom f 0 ws

def allDone (ws : List Worker) : Bool := ws.all fun w => w.ph = .done

def closerSteps (s : State) : List (Label × State) :=
  alt (s.started && !s.closed && allDone s.workers) (none, { s with closed := true })

/-- the deferred function of the re-ordering goroutine (`stream_blocks.go:21-25`) -/
def exitX (s : State) : State := { s with rph := .fin, cancel2 := true, outClosed := true }

/-- loop head `for currentHeight < toHeight` (`stream_blocks.go:58`); `cur` is currentHeight+1 -/
def loopHead (P : Params) (s : State) : State :=
  if s.cur ≤ P.hi then { s with rph := .loop } else exitX s

/-- after the first block has been fetched (`stream_blocks.go:33-52`) -/
def afterFirst (P : Params) (s : State) (good : Bool) : State :=
  let s := { s with latestOk := good }
  -- `if fromHeight == toHeight` (stream_blocks.go:43, D17 repair) sits inside the goroutine's function literal; it is
  -- written by hand here and proved equal to the regenerated guard `…streamBlocks_lit0_0` in Props/C16
  -- (`single_block_branch`; likewise `reorderer_loop_head`, `worker_exit_condition`, `flag_tests_pinned` for the other
  -- conditions of the function literals).  The range check of the callee IS the regenerated guard.
  if P.lo = P.hi then { s with rph := .s0 }                       -- single-block range: no workers
  else if blockscan_BlockScanner_streamBlocksUnordered_0 (toHeight := P.hi) (fromHeight := P.lo + 1) then
    { s with panicked := true }                                    -- panic(ErrInvalidBlockHeight) inside the goroutine
  else { s with rph := .s0, workers := initWorkers P true, started := true }

def rsteps (P : Params) (s : State) : List (Label × State) :=
  match s.rph with
  | .f0 => [(some (.req P.lo .hash), { s with rph := .f1 })]
  | .f1 => [ (some (.rsp P.lo .hash .ok), { s with rph := .f1b }),
             (some (.rsp P.lo .hash .err), { s with rph := .sendErr }) ]
  | .f1b => [(some (.req P.lo .block), { s with rph := .f2 })]
  | .f2 => [ (some (.rsp P.lo .block .ok), afterFirst P s true),
             (some (.rsp P.lo .block .nolink), afterFirst P s false),
             (some (.rsp P.lo .block .err), { s with rph := .sendErr }) ]
  | .s0 => alt (s.cph = .call) (none, loopHead P { s with cph := .got P.lo, cur := P.lo + 1 })
  | .loop =>
    alt (s.cancel0 || s.cancel1) (none, exitX s)
    ++ alt s.closed (none, { s with closedSeen := true, rph := .rel })
  | .rel =>
    if s.latestOk && s.buf.contains s.cur then
      [(none, { s with rph := .snd s.cur, buf := s.buf.erase s.cur })]
    else if s.closedSeen then [(none, { s with rph := .sendErr })]
    else [(none, loopHead P s)]
  | .snd h => alt (s.cph = .call) (none, { s with cph := .got h, cur := s.cur + 1, rph := .rel })
  | .sendErr => alt (s.cph = .call) (none, exitX { s with cph := .gotErr })
  | .fin => []
  | .absent => []

/-- the stream the consumer reads is closed -/
def State.streamClosed (P : Params) (s : State) : Bool :=
  if P.mode = .unordered then s.closed else s.outClosed

def csteps (P : Params) (s : State) : List (Label × State) :=
  match s.cph with
  | .idle =>
    if P.mode = .utxo then
      -- update_utxos.go:32 `for scanBlockHeight <= endBlockHeight`
      if blockscan_BlockScanner_UpdateUtxos_0 (scanBlockHeight := P.lo + s.cnt) (endBlockHeight := P.hi) then
        [(none, { s with cph := .call })]
      else [(some (.utxoReturn true), { s with cph := .finished, cancel1 := true, ret := some true })]
    else [(none, { s with cph := .call })]
  | .call => alt (s.streamClosed P) (none, { s with cph := .gotEnd })
  | .got h =>
    [(some (.deliver h), { s with cph := .idle, delivered := s.delivered ++ [h],
                                  cnt := if P.mode = .utxo then s.cnt + 1 else s.cnt })]
  | .gotErr =>
    if P.mode = .utxo then [(some (.utxoReturn false), { s with cph := .finished, cancel1 := true, ret := some false })]
    else [(some .error, { s with cph := .idle, errs := s.errs + 1 })]
  | .gotEnd =>
    if P.mode = .utxo then
      -- update_utxos.go:38 `if block == nil` (D18 repair): an error, not a nil dereference
      if blockscan_BlockScanner_UpdateUtxos_1 (block_isnil := true) then
        [(some (.utxoReturn false), { s with cph := .finished, cancel1 := true, ret := some false })]
      else [(none, { s with panicked := true })]
    else [(some .endOfStream, { s with cph := .finished, ended := true })]
  | .finished => []

def envSteps (s : State) : List (Label × State) :=
  alt (!s.cancel0) (some .cancel, { s with cancel0 := true })

def steps (P : Params) (s : State) : List (Label × State) :=
  if s.panicked then [] else
  forWorkers s.workers (wsteps P s) ++ closerSteps s ++ rsteps P s ++ csteps P s ++ envSteps s

/-! ### the transition relation, reachability, traces -/

def Step (P : Params) (s : State) (l : Label) (s' : State) : Prop := (l, s') ∈ steps P s

inductive Reachable (P : Params) : State → Prop
  | init : Reachable P (init P)
  | step {s l s'} : Reachable P s → Step P s l s' → Reachable P s'

inductive TauStar (P : Params) : State → State → Prop
  | refl (s) : TauStar P s s
  | tail {s t u} : TauStar P s t → Step P t none u → TauStar P s u

/-- `Trace P s es t`: from `s` the system can perform the observable events `es` (internal steps in
between and at the end) and be in `t`. -/
inductive Trace (P : Params) : State → List Event → State → Prop
  | nil {s t} : TauStar P s t → Trace P s [] t
  | cons {s t u v e es} : TauStar P s t → Step P t (some e) u → Trace P u es v → Trace P s (e :: es) v

/-! ### executable trace validation (NFA simulation over the internal steps) -/

def tauSucc (P : Params) (s : State) : List State :=
  (steps P s).filterMap fun x => if x.1 = none then some x.2 else none

def visSucc (P : Params) (e : Event) (s : State) : List State :=
  (steps P s).filterMap fun x => if x.1 = some e then some x.2 else none

/-- the elements of `xs` that are not in `seen`, without repetition, in front of `acc` -/
def addNew (xs : List State) (seen acc : List State) : List State :=
  match xs with
  | [] => acc
  | x :: rest => if seen.contains x || acc.contains x then addNew rest seen acc else addNew rest seen (x :: acc)

def closureAux (P : Params) : Nat → List State → List State → List State
  | 0, _, seen => seen
  | k + 1, frontier, seen =>
    let new := addNew (frontier.flatMap (tauSucc P)) seen []
    if new.isEmpty then seen else closureAux P k new (new ++ seen)

def closureFuel : Nat := 100000

def closure (P : Params) (S : List State) : List State :=
  let S := addNew S [] []
  closureAux P closureFuel S S

def stepSet (P : Params) (S : List State) (e : Event) : List State :=
  closure P (S.flatMap (visSucc P e))

/-- state sets after each prefix; `none` with the index of the first event no state can perform -/
def runTrace (P : Params) : List State → Nat → List Event → Except Nat (List State)
  | S, _, [] => .ok S
  | S, i, e :: es =>
    let S' := stepSet P S e
    if S'.isEmpty then .error i else runTrace P S' (i + 1) es

def validTrace (P : Params) (es : List Event) : Bool :=
  match runTrace P (closure P [init P]) 0 es with
  | .ok S => !S.isEmpty
  | .error _ => false

def firstInvalid (P : Params) (es : List Event) : Option Nat :=
  match runTrace P (closure P [init P]) 0 es with
  | .ok S => if S.isEmpty then some 0 else none
  | .error i => some i

end BtcVerif.Model.Stream
