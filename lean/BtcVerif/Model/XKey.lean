/-
  Model of `bip32/serialize.go` (property C10, extended keys). The Base58Check checksum function is
  the argument `ck`; the public-key check `ecc.DeserializePoint(key) == nil error` is the argument
  `pubOk` (the oracle passes the strict parser of `Prim/Secp256k1.lean`; its own properties are
  C06's). Core Lean only.
-/
import BtcVerif.Model.Base58

namespace BtcVerif.Model.XKey
open BtcVerif BtcVerif.Gen BtcVerif.Gen.Guards

/-- `serialize32` (bip32/encoding.go): four big-endian bytes of a `uint32` -/
def ser32 (v : Nat) : Bytes := beBytes 4 v

/-- `serialize` (serialize.go:18-39). No length is checked: the fields are written as given.
    At depth 0 the index and the parent fingerprint are forced to zero. -/
def serialize (ck : Bytes → Bytes) (key chainCode parentFingerprint : Bytes)
    (depth index version : Nat) (isPrivate : Bool) : Bytes :=
  let index := if bip32_serialize_0 (depth := depth) then 0 else index
  let parentFingerprint := if bip32_serialize_0 (depth := depth) then ser32 0 else parentFingerprint
  Base58Check.encode ck
    (ser32 version ++ [UInt8.ofNat depth] ++ parentFingerprint ++ ser32 index ++ chainCode ++
      (if bip32_serialize_1 (isPrivate := isPrivate) then [0] else []) ++ key)

structure Fields where
  key : Bytes
  chainCode : Bytes
  parentFingerprint : Bytes
  depth : Nat
  index : Nat
  version : Nat
  deriving Repr, DecidableEq

/-- `Deserialize` (serialize.go:57-88). Every slice expression is in range once the length is
    78 (`constants.SerializedExtendedKeyLength`); they are written with `take`/`drop`, the two single
    indexings are bounds-checked. -/
def deserialize (ck : Bytes → Bytes) (pubOk : Bytes → Bool) (s : Bytes) : Outcome Fields :=
  match Base58Check.decode ck s with
  | .err => .err
  | .panic => .panic
  | .ok ser =>
    if bip32_Deserialize_0 (len_serialized := ser.length) then .err
    else
      match ser[4]? with
      | none => .panic
      | some depth =>
        let version := beNat (ser.take 4)
        let fp := (ser.drop 5).take 4
        let index := beNat ((ser.drop 9).take 4)
        let chainCode := (ser.drop 13).take 32
        let key := ser.drop 45
        match key with
        | [] => .panic                                                      -- key[0]
        | k0 :: krest =>
          if bip32_Deserialize_1 (key_0 := k0.toNat) then
            .ok ⟨krest, chainCode, fp, depth.toNat, index, version⟩
          else if pubOk key then .ok ⟨key, chainCode, fp, depth.toNat, index, version⟩
          else .err

end BtcVerif.Model.XKey
