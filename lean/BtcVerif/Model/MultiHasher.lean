/-
  C20 — model of /repo/bhash (bhash.go:11-33, multi_hasher.go:13-57 after the D11 repair,
  tagged_hasher.go:11-22).

  A `hash.Hash` is modelled abstractly (`Stage`): a state type, the initial state, `Write`,
  `Sum(nil)` as a *pure* function of the state (the interface promises that Sum does not change the
  state) and the two numbers.  The only law a stage is ever assumed to satisfy is
  `Stage.Lawful`: the digest after any sequence of writes on a fresh state equals `H` of the
  concatenation.  `MultiHasher` keeps one `Hasher` (stage + current state) per chained hash, as the
  Go struct does; EVERY stage carries state in the model, exactly like the code — that only stage 0's
  state matters is a theorem (`Proofs/MultiHasher.lean`), not an assumption.

  `Model.Old` is the code before the repair (kept for the D11 witnesses).  Core Lean only.
-/
import BtcVerif.Model.Basic
import BtcVerif.Gen.Guards
import BtcVerif.Spec.MultiHasher
import BtcVerif.Prim.SHA256
import BtcVerif.Prim.SHA512
import BtcVerif.Prim.RIPEMD160

namespace BtcVerif.Model.MultiHasher
open BtcVerif BtcVerif.Gen.Guards
open BtcVerif.Spec.MultiHasher (Op Out Algo)

/-- an implementation of `hash.Hash` -/
structure Stage where
  σ : Type
  init : σ                      -- state after New() / Reset()
  write : σ → Bytes → σ         -- Write(p) (never fails, accepts all of p: hash.Hash contract)
  sum : σ → Bytes               -- Sum(nil); pure
  size : Nat
  blockSize : Nat
  /-- the function this implementation claims to compute (used by `Lawful` and the spec only) -/
  H : Bytes → Bytes

/-- "`sum (writes bs) = H bs`": the one law of a streaming hash -/
def Stage.Lawful (S : Stage) : Prop :=
  ∀ chunks : List Bytes, S.sum (chunks.foldl S.write S.init) = S.H chunks.flatten

def Stage.algo (S : Stage) : Algo := ⟨S.H, S.size, S.blockSize⟩

/-- a `hash.Hash` value: implementation and current state -/
structure Hasher where
  stage : Stage
  st : stage.σ

def Hasher.new (S : Stage) : Hasher := ⟨S, S.init⟩
def Hasher.write (h : Hasher) (p : Bytes) : Hasher := ⟨h.stage, h.stage.write h.st p⟩
def Hasher.reset (h : Hasher) : Hasher := ⟨h.stage, h.stage.init⟩
def Hasher.sum (h : Hasher) : Bytes := h.stage.sum h.st

/-- `type MultiHasher struct { hashes []hash.Hash }` (multi_hasher.go:9-11) -/
structure MH where
  hashes : List Hasher

/-- multi_hasher.go:15-21 `NewMultiHasher`: nil for an empty chain -/
def new (hashes : List Hasher) : Option MH :=
  if bhash_NewMultiHasher_0 (len_hashes := hashes.length) then none else some ⟨hashes⟩

/-- multi_hasher.go:24-26: `mh.hashes[0].BlockSize()` -/
def blockSize (mh : MH) : Outcome Nat :=
  match mh.hashes with
  | [] => .panic                                  -- index 0 out of range
  | h :: _ => .ok h.stage.blockSize

/-- multi_hasher.go:29-31: `mh.hashes[len(mh.hashes)-1].Size()` -/
def size (mh : MH) : Outcome Nat :=
  match mh.hashes.getLast? with
  | none => .panic                                -- index -1 out of range
  | some h => .ok h.stage.size

/-- multi_hasher.go:34-38 (repaired): every stage is reset -/
def reset (mh : MH) : MH := ⟨mh.hashes.map Hasher.reset⟩

/-- multi_hasher.go:41-43: `mh.hashes[0].Write(p)` -/
def write (mh : MH) (p : Bytes) : MH × Outcome Nat :=
  match mh.hashes with
  | [] => (mh, .panic)
  | h :: t => (⟨h.write p :: t⟩, .ok p.length)

/-- multi_hasher.go:52-56, the loop over `mh.hashes[1:]`: reset, feed the previous digest, sum.
    Returns the stages as the loop leaves them and the last digest. -/
def pipe : List Hasher → Bytes → List Hasher × Bytes
  | [], d => ([], d)
  | h :: t, d =>
    let h' := h.reset.write d
    let r := pipe t h'.sum
    (h' :: r.1, r.2)

/-- multi_hasher.go:49-58 (repaired) `Sum(b)` -/
def sum (mh : MH) (b : Bytes) : MH × Outcome Bytes :=
  match mh.hashes with
  | [] => (mh, .panic)                            -- `mh.hashes[0]`
  | h :: t =>
    let r := pipe t h.sum                         -- `h.Sum(nil)` does not change `h`
    (⟨h :: r.1⟩, .ok (b ++ r.2))                  -- `append(b, hashed...)`

/-- one call; a panic leaves the value as it was -/
def step (mh : MH) : Op → MH × Outcome Out
  | .write p => let r := write mh p; (r.1, r.2.map .wrote)
  | .sum b => let r := sum mh b; (r.1, r.2.map .digest)
  | .reset => (reset mh, .ok .unit)
  | .size => (mh, (size mh).map .num)
  | .blockSize => (mh, (blockSize mh).map .num)

/-- a history of calls on one value; stops at the first panic -/
def runFrom (mh : MH) : List Op → Outcome (List Out)
  | [] => .ok []
  | op :: ops =>
    match (step mh op).2 with
    | .ok o => (runFrom (step mh op).1 ops).map (o :: ·)
    | .err => .err
    | .panic => .panic

/-- a history on what `NewMultiHasher(stages…)` returned: every call on the nil pointer panics -/
def run (stages : List Stage) (ops : List Op) : Outcome (List Out) :=
  match new (stages.map Hasher.new) with
  | none => if ops.isEmpty then .ok [] else .panic
  | some mh => runFrom mh ops

/-! ### the helper functions (bhash.go, tagged_hasher.go) -/

/-- `copy(result[:], src)` into a zeroed `[n]byte` -/
def copyArr (n : Nat) (src : Bytes) : Bytes := src.take n ++ List.replicate (n - src.length) 0

/-- bhash.go:11-13 `Sha256` = `sha256.Sum256` -/
def sha256 (sum256 : Bytes → Bytes) (data : Bytes) : Bytes := sum256 data

/-- bhash.go:16-19 `DoubleSha256` -/
def doubleSha256 (sum256 : Bytes → Bytes) (data : Bytes) : Bytes :=
  let firstpass := sha256 sum256 data
  sha256 sum256 firstpass

/-- bhash.go:22-27 `Ripemd160`: New, Write, `copy(result[:], hash.Sum([]byte{}))` -/
def ripemd160 (R : Stage) (data : Bytes) : Bytes :=
  copyArr 20 (((Hasher.new R).write data).sum)

/-- bhash.go:30-33 `Hash160` -/
def hash160 (sum256 : Bytes → Bytes) (R : Stage) (data : Bytes) : Bytes :=
  ripemd160 R (sha256 sum256 data)

/-- tagged_hasher.go:11-22: `sha256.New()`, two writes of the hashed tag, one write per chunk -/
def taggedHash (sum256 : Bytes → Bytes) (S : Stage) (tag : Bytes) (chunks : List Bytes) : Bytes :=
  let hashedTag := sum256 tag
  let h := ((Hasher.new S).write hashedTag).write hashedTag
  (chunks.foldl Hasher.write h).sum

/-! ### the concrete stages the oracle runs (the independent implementations of `Prim/`) -/

/-- a stage that buffers what was written and hashes on demand -/
def bufStage (H : Bytes → Bytes) (size blockSize : Nat) : Stage :=
  { σ := Bytes, init := [], write := fun s p => s ++ p, sum := H, size := size,
    blockSize := blockSize, H := H }

def sha256Stage : Stage := bufStage Prim.sha256 32 64
def sha512Stage : Stage := bufStage Prim.sha512 64 128
def ripemd160Stage : Stage := bufStage Prim.ripemd160 20 64

/-! ### the code before the D11 repair (commit 1e22873^), for the witnesses -/
namespace Old

/-- old `Reset`: `mh.hashes[0].Reset()` -/
def reset (mh : MH) : MH × Outcome Unit :=
  match mh.hashes with
  | [] => (mh, .panic)
  | h :: t => (⟨h.reset :: t⟩, .ok ())

/-- old loop: `for _, h := range mh.hashes { h.Write(hashed); hashed = h.Sum(nil) }` -/
def pipe : List Hasher → Bytes → List Hasher × Bytes
  | [], d => ([], d)
  | h :: t, d =>
    let h' := h.write d
    let r := pipe t h'.sum
    (h' :: r.1, r.2)

/-- old `Sum(b)`: returns `hashed`, never looks at `b` -/
def sum (mh : MH) (_b : Bytes) : MH × Outcome Bytes :=
  let r := pipe mh.hashes []
  (⟨r.1⟩, .ok r.2)

def step (mh : MH) : Op → MH × Outcome Out
  | .write p => let r := write mh p; (r.1, r.2.map .wrote)
  | .sum b => let r := sum mh b; (r.1, r.2.map .digest)
  | .reset => let r := reset mh; (r.1, r.2.map fun _ => .unit)
  | .size => (mh, (size mh).map .num)
  | .blockSize => (mh, (blockSize mh).map .num)

def runFrom (mh : MH) : List Op → Outcome (List Out)
  | [] => .ok []
  | op :: ops =>
    match (step mh op).2 with
    | .ok o => (runFrom (step mh op).1 ops).map (o :: ·)
    | .err => .err
    | .panic => .panic

def run (stages : List Stage) (ops : List Op) : Outcome (List Out) :=
  match new (stages.map Hasher.new) with
  | none => if ops.isEmpty then .ok [] else .panic
  | some mh => runFrom mh ops

end Old

end BtcVerif.Model.MultiHasher
