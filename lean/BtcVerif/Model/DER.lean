/-
  Model of the DER signature codec of /repo/der (C11).

  * `decode`            — `der.DecodeSignature`      (der/decoding.go:30-106)
  * `checkEncodable`    — `der.CheckEncodableBigInt` (der/encoding.go:44-50)
  * `encodeBigInt`      — `der.EncodeBigInt`         (der/encoding.go:21-40)
  * `encode`            — `der.EncodeSignature`      (der/encoding.go:55-79)

  The model follows the Go code statement by statement. Every boundary test is the regenerated
  guard of `Gen/Guards.lean`; every index `p[i]` and every slice expression `p[lo:hi]` is an explicit
  bounds-checked step (`idx`, `slice`) that yields `.panic` when out of range, exactly like the Go
  run time (the capacity of the argument slice is taken to be its length, the conservative choice:
  a slice expression may succeed in Go up to `cap`, here only up to `len`).

  `*big.Int` is `Option Int` (`none` = nil). `big.Int.Bytes()` is the minimal big-endian byte string
  of the absolute value (`beMin`), `SetBytes` is `beNat` (Model/Basic), `BitLen` is `bitLen` of the
  absolute value, `Sign` is `Int.sign`.
  Core Lean only.
-/
import BtcVerif.Model.Basic
import BtcVerif.Gen.Guards
import BtcVerif.Gen.Constants

namespace BtcVerif.Model.DER
open BtcVerif BtcVerif.Gen.Guards

/-- result of `DecodeSignature`: `r`, `s` (non-negative `big.Int`s) and `sigHashType` (`uint32`) -/
structure Sig where
  r : Nat
  s : Nat
  ht : Nat
  deriving Repr, DecidableEq

/-- `p[i]` : run-time panic when `i ≥ len(p)` -/
def idx (p : Bytes) (i : Nat) : Outcome UInt8 :=
  match p[i]? with
  | some b => .ok b
  | none => .panic

/-- `p[lo:hi]` : run-time panic unless `lo ≤ hi ≤ len(p)` (cap taken as len) -/
def slice (p : Bytes) (lo hi : Nat) : Outcome Bytes :=
  if lo ≤ hi ∧ hi ≤ p.length then .ok ((p.drop lo).take (hi - lo)) else .panic

/-- `mostSignificantBitFlipped(b)` (decoding.go:19-21) -/
def msb (b : UInt8) : Bool := der_mostSignificantBitFlipped_0 (b := b.toNat)

/-- `hasExtraNullBytes(p)` (decoding.go:23-25): `len(p) > 1 && p[0] == 0 && !msb(p[1])`.
    Go evaluates `&&` left to right and stops at the first false operand, so `p[0]`, `p[1]` are read
    only when `len(p) > 1`; with a shorter `p` the first conjunct of the regenerated guard is false
    whatever is passed for the other two. -/
def hasExtraNullBytes (p : Bytes) : Bool :=
  match p with
  | a :: b :: _ =>
    der_hasExtraNullBytes_0 (len_p := p.length) (p_0 := a.toNat) (call_mostSignificantBitFlipped_p_1 := msb b)
  | _ =>
    der_hasExtraNullBytes_0 (len_p := p.length) (p_0 := 0) (call_mostSignificantBitFlipped_p_1 := false)

/-- decoding.go:31-63 : size window, compound header, declared total length, tag and length of r.
    Returns `rSize`. -/
def decHead (bs : Bytes) : Outcome Nat :=
  let n : Int := bs.length
  if der_DecodeSignature_0 (encodedSize := n) then .err
  else if der_DecodeSignature_1 (encodedSize := n) then .err
  else do
    let header ← idx bs 0
    let msz ← idx bs 1
    if der_DecodeSignature_2 (header := header.toNat) then .err
    else if der_DecodeSignature_3 (derMessageSize := msz.toNat) (encodedSize := n) then .err
    else do
      let rTag ← idx bs 2
      let rSize ← idx bs 3
      if der_DecodeSignature_4 (rTag := rTag.toNat) then .err
      else if der_DecodeSignature_5 (rSize := rSize.toNat) (encodedSize := n) then .err
      else .ok rSize.toNat

/-- decoding.go:65-73 : `rBytes := derEncoded[rPos+2 : rPos+2+rSize]` (rPos = 2), sign and padding of r -/
def decR (bs : Bytes) (rSize : Nat) : Outcome Bytes := do
  let rBytes ← slice bs 4 (4 + rSize)
  let r0 ← idx rBytes 0
  if der_DecodeSignature_6 (call_mostSignificantBitFlipped_rBytes_0 := msb r0) then .err
  else if der_DecodeSignature_7 (call_hasExtraNullBytes_rBytes := hasExtraNullBytes rBytes) then .err
  else .ok rBytes

/-- decoding.go:75-103 : tag and length of s, the sum check, sign and padding of s, the hash-type
    byte `derEncoded[sPos+2+sSize]`. Returns `(sBytes, sigHashType)`. -/
def decS (bs : Bytes) (rSize : Nat) : Outcome (Bytes × Nat) :=
  let n : Int := bs.length
  let sPos := 4 + rSize
  do
    let sTag ← idx bs sPos
    let sSize ← idx bs (sPos + 1)
    if der_DecodeSignature_8 (sTag := sTag.toNat) then .err
    else if der_DecodeSignature_9 (sSize := sSize.toNat) (rSize := rSize) (encodedSize := n) then .err
    else if der_DecodeSignature_10 (sSize := sSize.toNat) then .err
    else do
      let sBytes ← slice bs (sPos + 2) (sPos + 2 + sSize.toNat)
      let s0 ← idx sBytes 0
      if der_DecodeSignature_11 (call_mostSignificantBitFlipped_sBytes_0 := msb s0) then .err
      else if der_DecodeSignature_12 (call_hasExtraNullBytes_sBytes := hasExtraNullBytes sBytes) then .err
      else do
        let ht ← idx bs (sPos + 2 + sSize.toNat)
        .ok (sBytes, ht.toNat)

/-- `der.DecodeSignature` -/
def decode (bs : Bytes) : Outcome Sig := do
  let rSize ← decHead bs
  let rBytes ← decR bs rSize
  let (sBytes, ht) ← decS bs rSize
  .ok ⟨beNat rBytes, beNat sBytes, ht⟩

/-! ### encoding -/

/-- `big.Int.BitLen` of a non-negative value: 0 for 0, else ⌊log₂ n⌋ + 1 -/
def bitLen (n : Nat) : Nat := if n = 0 then 0 else Nat.log2 n + 1

/-- `big.Int.Bytes()`: big-endian, minimal length ⌈BitLen/8⌉ (empty for 0) -/
def beMin (n : Nat) : Bytes := beBytes ((bitLen n + 7) / 8) n

/-- `der.CheckEncodableBigInt` (encoding.go:44-50): `v == nil || v.BitLen() > 256 || v.Sign() == -1`.
    `||` stops at the first true operand, so `BitLen`/`Sign` are not called on nil (they would
    dereference it); the values passed for them in the nil case are irrelevant. -/
def checkEncodable (v : Option Int) : Outcome Unit :=
  match v with
  | none =>
    if der_CheckEncodableBigInt_0 (v_isnil := true) (call_v_BitLen := 0) (call_v_Sign := 0) then .err
    else .panic
  | some z =>
    if der_CheckEncodableBigInt_0 (v_isnil := false) (call_v_BitLen := bitLen z.natAbs) (call_v_Sign := z.sign)
    then .err else .ok ()

/-- `byte(n)` conversion of an `int` -/
def byteOf (n : Nat) : UInt8 := UInt8.ofNat (n % 256)

/-- `der.EncodeBigInt` (encoding.go:21-40) -/
def encodeBigInt (v : Option Int) : Outcome Bytes := do
  checkEncodable v
  match v with
  | none => .panic -- not reached: `checkEncodable none` is an error
  | some z =>
    let vBytes := beMin z.natAbs
    -- `len(vBytes) == 0 || vBytes[0]&0x80 == 0x80` : `vBytes[0]` is read only when len ≠ 0
    let pad := match vBytes with
      | [] => der_EncodeBigInt_0 (len_vBytes := 0) (vBytes_0 := 0)
      | b :: _ => der_EncodeBigInt_0 (len_vBytes := vBytes.length) (vBytes_0 := b.toNat)
    let vBytes := if pad then 0 :: vBytes else vBytes
    .ok (UInt8.ofNat Gen.der_TagInteger :: byteOf vBytes.length :: vBytes)

/-- `der.EncodeSignature` (encoding.go:55-79); `ht` is the `uint32` argument -/
def encode (r s : Option Int) (ht : Nat) : Outcome Bytes :=
  if der_EncodeSignature_0 (sigHashType := ht) then .err
  else do
    let rEnc ← encodeBigInt r
    let sEnc ← encodeBigInt s
    .ok (UInt8.ofNat Gen.der_TypeCompound :: byteOf (rEnc.length + sEnc.length) :: (rEnc ++ sEnc ++ [byteOf ht]))

end BtcVerif.Model.DER
