/-
  Model of feecalc/feecalc.go, feecalc/block_fees.go, feecalc/prev_out_value_func.go and
  satutil/satutil.go (C15: value accounting).

  `uint64` sums wrap exactly as in Go (`+ … % 2^64`); the theorems in `Proofs/Fee.lean` show that in
  the monetary range the wrap never happens. Floating point is the exact binary64 model `Prim.F64`.
  A `PrevOutValueFunc` is a function `PrevOut → Option Nat` (`none`: it returned an error).
-/
import BtcVerif.Model.Utxo
import BtcVerif.Prim.F64
import BtcVerif.Gen.Constants

namespace BtcVerif.Model.Fee
open BtcVerif BtcVerif.Model BtcVerif.Prim
open BtcVerif.Gen.Guards

def two64 : Nat := 18446744073709551616

/-- `total += x` on `uint64` -/
def addU64 (a b : Nat) : Nat := (a + b) % two64

/-- `TotalOutputValue` (feecalc.go:16-23) -/
def totalOutputValue (t : Tx) : Nat := t.outputs.foldl (fun acc o => addU64 acc o.value) 0

/-- the loop of `TotalInputValue` (feecalc.go:28-40) -/
def sumInputs (get : PrevOut → Option Nat) : List TxIn → Nat → Outcome Nat
  | [], total => .ok total
  | i :: rest, total =>
    match get i.prev with
    | none => .err
    | some v => sumInputs get rest (addU64 total v)

def totalInputValue (get : PrevOut → Option Nat) (t : Tx) : Outcome Nat := sumInputs get t.inputs 0

/-- `TotalFeeValue` (feecalc.go:46-59) -/
def totalFeeValue (get : PrevOut → Option Nat) (t : Tx) : Outcome Nat :=
  let outputValue := totalOutputValue t
  match totalInputValue get t with
  | .ok inputValue =>
    if feecalc_TotalFeeValue_0 (inputValue := inputValue) (outputValue := outputValue) then .err
    else .ok (inputValue - outputValue)
  | .err => .err
  | .panic => .panic

/-- `FeePerVByte` (feecalc.go:64-73): `float64(feeValue) / float64(txn.VSize())` -/
def feePerVByte (get : PrevOut → Option Nat) (t : Tx) : Outcome F64 :=
  match totalFeeValue get t with
  | .ok fee => .ok (F64.div (F64.ofNat fee) (F64.ofNat (vsizeTx t)))
  | .err => .err
  | .panic => .panic

/-- the literal `-1.0` -/
def minusOne : F64 := .fin true (2 ^ 52) (-52)

/-- the loop of `FeeRangeForBlock` (block_fees.go:12-24). The three float comparisons are not
    translated by the guard extractor (unsupported type float64); they are written by hand:
    `satoshisPerVByte > max`, `satoshisPerVByte < min || min == -1.0`. -/
def feeRangeLoop (get : PrevOut → Option Nat) : List Tx → F64 → F64 → Outcome (F64 × F64)
  | [], mn, mx => .ok (mn, mx)
  | t :: rest, mn, mx =>
    match feePerVByte get t with
    | .ok rate =>
      let mx' := if F64.lt mx rate then rate else mx
      let mn' := if F64.lt rate mn || F64.eq mn minusOne then rate else mn
      feeRangeLoop get rest mn' mx'
    | .err => .err
    | .panic => .panic

/-- `FeeRangeForBlock` (block_fees.go:8-32). `block.Transactions[1:]` panics on a block without
    transactions (slice bounds out of range). -/
def feeRangeForBlock (get : PrevOut → Option Nat) (b : Block) : Outcome (F64 × F64) :=
  match b.txs with
  | [] => .panic
  | _ :: rest =>
    match feeRangeLoop get rest minusOne (F64.zero false) with
    | .ok (mn, mx) => .ok (if F64.eq mn minusOne then F64.zero false else mn, mx)   -- `min == -1.0`
    | .err => .err
    | .panic => .panic

def sumFees (get : PrevOut → Option Nat) : List Tx → Nat → Outcome Nat
  | [], total => .ok total
  | t :: rest, total =>
    match totalFeeValue get t with
    | .ok fee => sumFees get rest (addU64 total fee)
    | .err => .err
    | .panic => .panic

/-- `TotalFeesForBlock` (block_fees.go:36-49) -/
def totalFeesForBlock (get : PrevOut → Option Nat) (b : Block) : Outcome Nat :=
  match b.txs with
  | [] => .panic
  | _ :: rest => sumFees get rest 0

/-- `AverageFeeForBlockPerVByte` (block_fees.go:53-65) -/
def averageFeeForBlockPerVByte (get : PrevOut → Option Nat) (b : Block) : Outcome F64 :=
  match totalFeesForBlock get b with
  | .ok total =>
    let perWU := F64.div (F64.ofNat total) (F64.ofNat (weightBlock b))
    .ok (F64.div perWU (F64.ofNat 4))
  | .err => .err
  | .panic => .panic

/-! ### `NewNaivePrevOutValueFunc` (prev_out_value_func.go:24-52) -/

open BtcVerif.Model.Utxo (hexEncode) in
/-- `getTxHex` maps the bytes of a txid string to the bytes of a hex string (`none`: error).
    `txHex == ""` is written by hand (strings are not translated); the index test
    `int(prevOut.Index) >= len(txn.Outputs)` is the regenerated guard of the function literal, and an index
    that passes it without being in range is Go's index-out-of-range panic. -/
def naivePrevOutValue (getTxHex : Bytes → Option Bytes) (p : PrevOut) : Outcome Nat :=
  let txid := hexEncode p.hash.reverse
  match getTxHex txid with
  | none => .err
  | some txHex =>
    if txHex.isEmpty then .err else
    match Utxo.hexDecode txHex with
    | none => .err
    | some raw =>
      match decTx raw with
      | .ok (t, _) =>
        if feecalc_NewNaivePrevOutValueFunc_lit0_1 (prevOut_Index := p.index) (len_txn_Outputs := t.outputs.length)
        then .err
        else match t.outputs[p.index]? with
          | none => .panic                               -- `txn.Outputs[prevOut.Index]` out of range
          | some o => .ok o.value
      | .err => .err
      | .panic => .panic

/-! ### satutil/satutil.go:12-28 -/

def satoshisPerBitcoin : Nat := BtcVerif.Gen.constants_SatoshisPerBitcoin

/-- `SatsToBitcoins`: `big.Float` quotient at precision 64, then `Float64()` (a second rounding,
    to 53 bits) -/
def satsToBitcoins (sats : Nat) : F64 :=
  if sats = 0 then F64.zero false else bigToF64 (bigQuo64 sats satoshisPerBitcoin)

/-- `BitcoinsToSats`: `uint64(math.Round(btc * 100000000))`; `none` where the float → uint64
    conversion is implementation-defined -/
def bitcoinsToSats (btc : F64) : Option Nat :=
  F64.toUInt64 (F64.round (F64.mul btc (F64.ofNat satoshisPerBitcoin)))

/-- `RoundBitcoins` -/
def roundBitcoins (btc : F64) : Option F64 := (bitcoinsToSats btc).map satsToBitcoins

end BtcVerif.Model.Fee
