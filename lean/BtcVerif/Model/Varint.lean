/-
  Model of varint/varint.go. Class tests are the *regenerated* guards of `Gen.Guards`
  (tie T2): `VarInt.Size` (:77-88), `VarInt.WriteTo` (:92-126), `FromReader` (:19-48).
-/
import BtcVerif.Model.Basic
import BtcVerif.Gen.Guards

namespace BtcVerif.Model
open BtcVerif BtcVerif.Parser
open BtcVerif.Gen.Guards

/-- `VarInt.Size` -/
def varintSize (v : Nat) : Nat :=
  if varint_VarInt_Size_0 v then 9
  else if varint_VarInt_Size_1 v then 5
  else if varint_VarInt_Size_2 v then 3
  else 1

/-- `VarInt.WriteTo` / `Bytes`: prefix byte, then the fixed-width little-endian integer
    (`uint64(v)`, `uint32(v)`, `uint16(v)` are truncating conversions, `byte(v)` too). -/
def encVarint (v : Nat) : Bytes :=
  if varint_VarInt_WriteTo_0 v then 0xff :: leBytes 8 v
  else if varint_VarInt_WriteTo_1 v then 0xfe :: leBytes 4 v
  else if varint_VarInt_WriteTo_2 v then 0xfd :: leBytes 2 v
  else [UInt8.ofNat v]

/-- `varint.FromReader` -/
def decVarint : Parser Nat := fun s =>
  match readByte s with
  | .ok (b, rest) =>
    if varint_FromReader_0 b.toNat then readLE 8 rest
    else if varint_FromReader_1 b.toNat then readLE 4 rest
    else if varint_FromReader_2 b.toNat then readLE 2 rest
    else .ok (b.toNat, rest)
  | .err => .err
  | .panic => .panic

/-- minimal (canonical) compact-size encodings: what the property calls canonical -/
def varintCanonical (bs : Bytes) (v : Nat) : Bool := bs == encVarint v

end BtcVerif.Model
