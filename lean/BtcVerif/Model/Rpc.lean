/-
  What `rpc.Connection.RequestSetResult` (rpc/connection.go:105-160) makes of a reply: the decision logic
  between the HTTP exchange and the caller.

  The HTTP exchange and `encoding/json` are outside the model.  What they deliver is a `Reply`: the status code,
  the body as a string, and what `json.Unmarshal(body, &responseObj)` left behind — whether it returned an
  error, whether `responseObj` is nil afterwards (a literal `null` body resets the pointer), whether the
  `error` member is present and whether the `result` member is non-null.  The conditions are the regenerated
  guards of the function.
-/
import BtcVerif.Gen.Guards

namespace BtcVerif.Model.Rpc
open BtcVerif.Gen.Guards

structure Reply where
  status : Int
  body : String
  parseFails : Bool      -- json.Unmarshal returned an error
  objNil : Bool          -- responseObj == nil afterwards
  errorNil : Bool        -- responseObj.Error == nil
  resultNil : Bool       -- responseObj.Result == nil
  deriving Repr, DecidableEq

inductive Verdict
  | ok                   -- nil: the result has been decoded into the caller's pointer
  | invalidCredentials   -- ErrInvalidCredentials
  | retry                -- the node's work queue is full: the request is sent again
  | invalidFormat        -- ErrInvalidResponseFormat (wrapped or bare)
  | rpcFailure           -- the node's error object
  deriving Repr, DecidableEq

def classify (r : Reply) : Verdict :=
  if rpc_Connection_RequestSetResult_0 (resp_StatusCode := r.status) then .invalidCredentials
  else if rpc_Connection_RequestSetResult_1 (bodyString := r.body) then .retry
  else if r.parseFails then
    -- both branches of `if resp.StatusCode != 200` wrap ErrInvalidResponseFormat
    (if rpc_Connection_RequestSetResult_2 (resp_StatusCode := r.status) then .invalidFormat else .invalidFormat)
  else if rpc_Connection_RequestSetResult_3 (responseObj_isnil := r.objNil) then .invalidFormat
  else if rpc_Connection_RequestSetResult_4 (responseObj_Error_isnil := r.errorNil) then .rpcFailure
  else if rpc_Connection_RequestSetResult_5 (responseObj_Result_isnil := r.resultNil) then .ok
  else .invalidFormat

end BtcVerif.Model.Rpc
