/-
  The ordering buffer of `streamBlocks` (blockscan/stream_blocks.go:55-112) with the map it really is.

  `Model/Stream.lean` abstracts `blocksByPrevHash` to the list of buffered heights "whose block links", which
  is right as long as the node answers each height with that height's block or with a block that links to
  nothing.  A node may also answer with a block of another branch: a *sibling*, whose previous-hash is a hash
  of the chain but which is not the block asked for.  Then two buffered blocks can share one key, the later
  one replaces the earlier one, and a block can be released that is not the one of its height.  This file
  models the re-ordering goroutine after its first block over arbitrary blocks `(id, prev)`:

  * an event is what one `select` receives from the worker queue: a block, or the closed queue (`more = false`);
  * one loop iteration: the loop condition `currentHeight < toHeight`; the block goes into the map under its
    previous-hash (replacing what was there); the release loop hands out the block stored under the latest
    hash, deletes it, counts it and makes its hash the latest, until there is none; then `channelsClosed`
    ends the goroutine with the "link broken" error.

  The conditions are the regenerated guards of the function literal (`Gen/Guards.lean`,
  `blockscan_BlockScanner_streamBlocks_lit0_*`), so a change of the loop condition or of the closed-queue
  handling changes this model.  Cancellation and RPC errors are in `Model/Stream.lean`; they only end the
  goroutine earlier (with an error) and are left out here.
-/
import BtcVerif.Gen.Guards

namespace BtcVerif.Model.Reorder
open BtcVerif.Gen.Guards

/-- a block as the re-orderer sees it: its header hash and its previous-header hash -/
structure Blk where
  id : Nat
  prev : Nat
  deriving DecidableEq, Repr

/-- what one receive from the workers' block queue yields -/
inductive Ev
  | blk (b : Blk)      -- `block, more := <-blockQueue` with `more = true`
  | closed             -- `more = false`
  deriving DecidableEq, Repr

inductive Res | running | done | err
  deriving DecidableEq, Repr

structure St where
  latest : Nat          -- latestBlockHash
  cur : Nat             -- currentHeight
  buf : List Blk        -- blocksByPrevHash: at most one entry per `prev`
  out : List Blk        -- ghost: blocks sent on orderedBlockQueue after the first, oldest first
  res : Res
  deriving Repr

/-- `blocksByPrevHash[block.Header.PreviousHeaderHash] = block` -/
def insert (b : Blk) (m : List Blk) : List Blk := b :: m.filter (fun x => x.prev ≠ b.prev)

/-- `blocksByPrevHash[k]` -/
def lookup (k : Nat) (m : List Blk) : Option Blk := m.find? (fun x => x.prev = k)

/-- `delete(blocksByPrevHash, k)` -/
def delete (k : Nat) (m : List Blk) : List Blk := m.filter (fun x => x.prev ≠ k)

/-- the release loop (stream_blocks.go:87-101); `fuel` bounds the iterations (each deletes an entry) -/
def release : Nat → St → St
  | 0, s => s
  | fuel + 1, s =>
    match lookup s.latest s.buf with
    | some b =>
      if blockscan_BlockScanner_streamBlocks_lit0_4 (ok := true) then
        release fuel { s with latest := b.id, cur := s.cur + 1, buf := delete s.latest s.buf, out := s.out ++ [b] }
      else s
    | none =>
      if blockscan_BlockScanner_streamBlocks_lit0_4 (ok := false) then s else s

/-- one iteration of `for currentHeight := fromHeight; currentHeight < toHeight; { select … }` on a receive
    from the block queue -/
def iter (toHeight : Nat) (s : St) (e : Ev) : St :=
  if s.res ≠ .running then s
  else if !blockscan_BlockScanner_streamBlocks_lit0_1 (currentHeight := s.cur) (toHeight := toHeight) then
    { s with res := .done }                                   -- the loop is over: the deferred function closes the queues
  else
    let more := match e with | .blk _ => true | .closed => false
    let closedSeen := blockscan_BlockScanner_streamBlocks_lit0_2 (more := more)   -- `if !more { channelsClosed = true; break }`
    let s1 := match e with
      | .blk b => if closedSeen then s else { s with buf := insert b s.buf }
      | .closed => s
    let s2 := release (s1.buf.length + 1) s1
    if blockscan_BlockScanner_streamBlocks_lit0_5 (channelsClosed := closedSeen) then { s2 with res := .err }
    else s2

/-- after the last event: the loop condition is evaluated once more -/
def finish (toHeight : Nat) (s : St) : St :=
  if s.res = .running ∧ !blockscan_BlockScanner_streamBlocks_lit0_1 (currentHeight := s.cur) (toHeight := toHeight) then
    { s with res := .done }
  else s

/-- the state after the first block (hash `first`) has been fetched and sent -/
def start (fromHeight first : Nat) : St := { latest := first, cur := fromHeight, buf := [], out := [], res := .running }

def run (fromHeight toHeight first : Nat) (evs : List Ev) : St :=
  finish toHeight (evs.foldl (iter toHeight) (start fromHeight first))

/-- `Chain h bs`: `bs` continues a chain whose tip has hash `h` — every block names its predecessor -/
def Chain : Nat → List Blk → Prop
  | _, [] => True
  | h, b :: bs => b.prev = h ∧ Chain b.id bs

/-- the hash of the tip after `bs` -/
def tip : Nat → List Blk → Nat
  | h, [] => h
  | _, b :: bs => tip b.id bs

def blockCount (evs : List Ev) : Nat := (evs.filter (fun e => e != .closed)).length

/-! ### the variant of seeded change C16-R6A: no height is counted; the goroutine ends without an error when
    the queue is closed and nothing is left in the map -/

def iterNoCount (s : St) (e : Ev) : St :=
  if s.res ≠ .running then s
  else
    let closedSeen := match e with | .blk _ => false | .closed => true
    let s1 := match e with
      | .blk b => { s with buf := insert b s.buf }
      | .closed => s
    let s2 := release (s1.buf.length + 1) s1
    if closedSeen then (if s2.buf.isEmpty then { s2 with res := .done } else { s2 with res := .err }) else s2

def runNoCount (fromHeight first : Nat) (evs : List Ev) : St :=
  evs.foldl iterNoCount (start fromHeight first)

end BtcVerif.Model.Reorder
