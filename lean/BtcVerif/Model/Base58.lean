/-
  Model of `base58/base58.go` and `base58check/{encode,decode}.go` (property C08).

  Go strings are byte strings here (`Bytes`): the code indexes them bytewise.
  `math/big` integers are `Nat`; `SetBytes` is `beNat`, `Bytes()` is `natBytes` (minimal big-endian,
  empty for zero). Core Lean only.
-/
import BtcVerif.Model.Basic
import BtcVerif.Gen.Constants
import BtcVerif.Gen.Guards

namespace BtcVerif.Model

/-- the bytes of a Go string constant -/
def strBytes (s : String) : Bytes := s.toUTF8.data.toList

namespace Base58
open BtcVerif.Gen BtcVerif.Gen.Guards

/-- `base58.Alphabet` (base58.go:12) -/
def alphabet : Bytes := strBytes base58_Alphabet

theorem alphabet_length : alphabet.length = 58 := by decide

/-- `radix = big.NewInt(int64(len(Alphabet)))` (base58.go:15) -/
def radix : Nat := alphabet.length

theorem radix_eq : radix = 58 := by decide

/-- `AlphabetIndeces[c]` with the `ok` flag (base58.go:25-30, 70): the map is filled in index order;
    the alphabet has no repeated character (`Props.C08.b58_alphabet_nodup`), so first = last. -/
def indexOf : Bytes → UInt8 → Option Nat
  | [], _ => none
  | a :: as, c => if a == c then some 0 else (indexOf as c).map (· + 1)

/-- `Alphabet[d]` for a remainder `d < radix`; the index is in range because `rem < radix =
    len(Alphabet)` (base58.go:41-42). -/
def digitChar (d : Nat) (h : d < radix) : UInt8 := alphabet[d]'h

/-- base58.go:40-43: `for bi != 0 { bi, rem = QuoRem(bi, radix); bs58 = Alphabet[rem] + bs58 }` -/
def encLoop (bi : Nat) (acc : Bytes) : Bytes :=
  if h : base58_Encode_1 (call_bi_Cmp_zero := if bi = 0 then 0 else 1) = true then
    encLoop (bi / radix) (digitChar (bi % radix) (Nat.mod_lt _ (by decide)) :: acc)
  else acc
termination_by bi
decreasing_by
  have : bi ≠ 0 := by
    intro h0; subst h0; simp [base58_Encode_1] at h
  rw [radix_eq]; omega

/-- base58.go:46-52: number of leading zero bytes (`for … if b == 0 … else break`) -/
def leadingZeros : Bytes → Nat
  | [] => 0
  | b :: rest => if base58_Encode_2 (b := b.toNat) then leadingZeros rest + 1 else 0

/-- `base58.Encode` (base58.go:33-55). A nil and an empty slice both give the empty string. -/
def encode (data : Bytes) : Bytes :=
  List.replicate (leadingZeros data) (digitChar 0 (by decide)) ++ encLoop (beNat data) []

/-- base58.go:60-62: `for nZeros < len(bs58) && bs58[nZeros] == Alphabet[0]` -/
def countOnes : Bytes → Nat
  | [] => 0
  | c :: rest => if c == digitChar 0 (by decide) then countOnes rest + 1 else 0

/-- base58.go:68-80: the characters are visited from the last to the first (`bs58[len-i-1]`, always
    in range for `i < len`), so the loop runs over the reversed string with the exponent `i`. -/
def decLoop : Bytes → Nat → Nat → Outcome Nat
  | [], _, ret => .ok ret
  | c :: cs, i, ret =>
    match indexOf alphabet c with
    | none => .err
    | some m => decLoop cs (i + 1) (ret + m * radix ^ i)

/-- `big.Int.Bytes()` accumulator: minimal big-endian bytes -/
def natBytesAux (n : Nat) (acc : Bytes) : Bytes :=
  if h : n = 0 then acc else natBytesAux (n / 256) (UInt8.ofNat (n % 256) :: acc)
termination_by n
decreasing_by omega

/-- `big.Int.Bytes()` -/
def natBytes (n : Nat) : Bytes := natBytesAux n []

/-- `base58.Decode` (base58.go:59-85) -/
def decode (s : Bytes) : Outcome Bytes :=
  let nZeros := countOnes s
  let rest := s.drop nZeros
  match decLoop rest.reverse 0 0 with
  | .ok ret => .ok (List.replicate nZeros 0 ++ natBytes ret)
  | .err => .err
  | .panic => .panic

end Base58

/-! ### Base58Check — parametrised by the checksum function
    (`bhash.DoubleSha256(x)[:4]` in the code; `Prim.dsha256 x |>.take 4` in the oracle; arbitrary in
    the theorems). -/
namespace Base58Check
open BtcVerif.Gen.Guards

/-- `base58check.Encode` (encode.go:31-41, after the D15 repair the input is copied first) -/
def encode (cksum : Bytes → Bytes) (data : Bytes) : Bytes :=
  Base58.encode (data ++ cksum data)

/-- `base58check.EncodeVersion` (encode.go:17-28): one byte for versions up to 0xff, two
    big-endian bytes otherwise (`version` is a `uint16`). -/
def versionBytes (version : Nat) : Bytes :=
  if base58check_EncodeVersion_0 (version := version) then beBytes 1 version else beBytes 2 version

def encodeVersion (cksum : Bytes → Bytes) (data : Bytes) (version : Nat) : Bytes :=
  encode cksum (versionBytes version ++ data)

/-- `base58check.Decode` (decode.go:24-41). The three slice expressions are in range once
    `len ≥ 4`. -/
def decode (cksum : Bytes → Bytes) (s : Bytes) : Outcome Bytes :=
  match Base58.decode s with
  | .err => .err
  | .panic => .panic
  | .ok dec =>
    if base58check_Decode_0 (len_bs58decoded := dec.length) then .err
    else
      let body := dec.take (dec.length - 4)
      let tail := dec.drop (dec.length - 4)
      if base58check_Decode_1
          (call_bytes_Equal_hashed_4_bs58decoded_len_bs58decoded_4 := (cksum body == tail)) then .err
      else .ok body

end Base58Check

end BtcVerif.Model
