/-
  Model of the script package: script/push.go, script/script.go, script/p2pkh.go, script/p2sh.go,
  script/p2wpkh.go, script/p2wsh.go, script/p2ms.go, script/op_return.go (property C12; `stripOpCode`
  is shared with C03).  The code modelled is the REPAIRED code: `StripOpCode` after D6 (raw copy of
  every push), `PushNumber`/`ReadNumber` after D4 (unsigned magnitude, ninth byte = pure sign byte),
  `ReadData` after D20 (bounded incremental read — same result as one `io.ReadFull` of the declared
  length, which is how it is modelled; the allocation profile belongs to C17).

  Boundary tests are the regenerated guards (tie T2); opcodes are the regenerated constants (T1).
  Core Lean only.
-/
import BtcVerif.Model.Basic
import BtcVerif.Gen.Constants
import BtcVerif.Gen.Guards

namespace BtcVerif.Model
open BtcVerif BtcVerif.Parser
open BtcVerif.Gen BtcVerif.Gen.Guards

/-! ### opcodes (regenerated constants as bytes) -/

def opByte (n : Nat) : UInt8 := UInt8.ofNat n

/-! ### PushData / ReadData (script/push.go:23-48, 51-110) -/

/-- `script.PushData`: `len(data)` is a Go `int` (64 bit); above `0xffffffff` the code panics. -/
def pushData (d : Bytes) : Outcome Bytes :=
  let n := d.length
  if script_PushData_0 (dataSize := n) then .ok (UInt8.ofNat n :: d)            -- push.go:25-27
  else if script_PushData_1 (dataSize := n) then                                  -- push.go:31-33
    .ok (opByte constants_OP_PUSHDATA1 :: (leBytes 1 n ++ d))
  else if script_PushData_2 (dataSize := n) then                                  -- push.go:34-36
    .ok (opByte constants_OP_PUSHDATA2 :: (leBytes 2 n ++ d))
  else if script_PushData_3 (dataSize := n) then                                  -- push.go:37-39
    .ok (opByte constants_OP_PUSHDATA4 :: (leBytes 4 n ++ d))
  else .panic                                                                     -- push.go:41

/-- Width in bytes of the length field that follows push opcode `b` (0 for a direct push);
    `none`: `b` is not a push opcode (`ReadData` fails, push.go:72-74). -/
def sizeFieldLen (b : UInt8) : Option Nat :=
  if script_ReadData_0 (firstBytes_0 := b.toNat) then some 0
  else if script_ReadData_1 (firstBytes_0 := b.toNat) then some 1
  else if script_ReadData_2 (firstBytes_0 := b.toNat) then some 2
  else if script_ReadData_3 (firstBytes_0 := b.toNat) then some 4
  else none

/-- `script.ReadData` on a reader positioned at `s`: opcode, little-endian length field, then
    exactly that many bytes (`readBounded`) — anything short is an error, never a panic. -/
def readData : Parser Bytes := fun s =>
  match s with
  | [] => .err                                             -- io.ReadFull of the first byte
  | b :: rest =>
    match sizeFieldLen b with
    | none => .err
    | some k =>
      if k = 0 then readN b.toNat rest                     -- push.go:60-61
      else (readLE k >>= readN) rest                       -- push.go:62-71, 80

/-- number of script bytes `ReadData` consumes for a push with opcode `b` and `n` data bytes -/
def pushSpan (b : UInt8) (n : Nat) : Nat :=
  match sizeFieldLen b with
  | some k => 1 + k + n
  | none => 0

/-! ### Decompile / Stackify / StripOpCode (script/script.go) -/

/-- element of Go's `[]interface{}` returned by `Decompile`: a `byte` or a `[]byte` -/
inductive Chunk where
  | op (b : UInt8)
  | push (d : Bytes)
  deriving Repr, DecidableEq, Inhabited

/-- `script.Decompile` (script.go:65-94).  The loop consumes at least one byte per turn, so `fuel`
    = length of the script is never exhausted (`decompileFuel_ne_panic` in `Proofs/Script.lean`);
    the `.panic` of the `0` arm is unreachable. -/
def decompileFuel : Nat → Bytes → Outcome (List Chunk)
  | _, [] => .ok []                                        -- io.EOF: break
  | 0, _ :: _ => .panic
  | fuel + 1, b :: rest =>
    if script_Decompile_1 (nextByte := b.toNat) then       -- script.go:78
      match readData (b :: rest) with                      -- Seek(-1); ReadData
      | .ok (d, rest') => (decompileFuel fuel rest').bind fun cs => .ok (Chunk.push d :: cs)
      | .err => .err
      | .panic => .panic
    else (decompileFuel fuel rest).bind fun cs => .ok (Chunk.op b :: cs)

def decompile (s : Bytes) : Outcome (List Chunk) := decompileFuel s.length s

/-- `parsePushIntOpCode` (script.go:47-61) -/
def parsePushIntOpCode (op : UInt8) : Option UInt8 :=
  if script_parsePushIntOpCode_0 (op := op.toNat) then some 0
  else if script_parsePushIntOpCode_1 (op := op.toNat) then some 0x81
  else if script_parsePushIntOpCode_2 (op := op.toNat) then some (op - opByte constants_OP_1 + 1)
  else none

/-- one element of `Stackify`'s result (script.go:106-124) -/
def stackItem : Chunk → Outcome Bytes
  | .push d => .ok d
  | .op b =>
    match parsePushIntOpCode b with
    | none => .err                                          -- ErrNotPushOnlyScript
    | some v => if script_Stackify_1 (pushedByte := v.toNat) then .ok [] else .ok [v]

def stackItems : List Chunk → Outcome (List Bytes)
  | [] => .ok []
  | c :: cs => (stackItem c).bind fun x => (stackItems cs).bind fun xs => .ok (x :: xs)

/-- `script.Stackify` (script.go:98-127) -/
def stackify (s : Bytes) : Outcome (List Bytes) := (decompile s).bind stackItems

/-- `script.StripOpCode` after the D6 repair (script.go:130-163): walk the script; a push is skipped
    by `ReadData` and `script[start:end]` copied verbatim (`end - start = pushSpan`); a stand-alone
    byte is copied unless it equals `op`.  The result is never nil (`make([]byte, 0, len(script))`). -/
def stripFuel : Nat → Bytes → UInt8 → Outcome Bytes
  | _, [], _ => .ok []
  | 0, _ :: _, _ => .panic
  | fuel + 1, b :: rest, op =>
    if script_StripOpCode_1 (nextByte := b.toNat) then
      match readData (b :: rest) with
      | .ok (d, rest') =>
        (stripFuel fuel rest' op).bind fun out => .ok ((b :: rest).take (pushSpan b d.length) ++ out)
      | .err => .err
      | .panic => .panic
    else if script_StripOpCode_2 (nextByte := b.toNat) (op := op.toNat) then
      (stripFuel fuel rest op).bind fun out => .ok (b :: out)
    else stripFuel fuel rest op

def stripOpCode (s : Bytes) (op : UInt8) : Outcome Bytes := stripFuel s.length s op

/-! ### PushNumber / ReadNumber (script/push.go:112-226, after the D4 repair) -/

/-- `for magnitude > 0 { result = append(result, byte(magnitude&0xff)); magnitude >>= 8 }` on a
    `uint64`: at most eight turns (`magBytes_fuel` in the proofs shows 8 is never exhausted). -/
def magBytesFuel : Nat → Nat → Bytes
  | 0, _ => []
  | fuel + 1, m =>
    if script_PushNumber_4 (magnitude := m) then UInt8.ofNat (m % 256) :: magBytesFuel fuel (m / 256)
    else []

def magBytes (m : Nat) : Bytes := magBytesFuel 8 m

/-- `script.PushNumber(n)`; `n` is the value of the Go `int64` argument. -/
def pushNumber (n : Int) : Outcome Bytes :=
  if script_PushNumber_0 (n := n) then .ok [opByte constants_OP_1NEGATE]
  else if script_PushNumber_1 (n := n) then .ok [0]
  else if script_PushNumber_2 (n := n) then
    .ok [UInt8.ofNat (wrapU 256 (n + (constants_OP_1 : Int) - 1))]       -- byte(n + OP_1 - 1)
  else
    let isNegative := decide (n < 0)
    let magnitude0 := wrapU 18446744073709551616 n                         -- uint64(n)
    let magnitude :=
      if script_PushNumber_3 (isNegative := isNegative)
      then wrapU 18446744073709551616 (-(magnitude0 : Int))                -- -magnitude (wraps)
      else magnitude0
    let result := magBytes magnitude
    match result.getLast? with
    | none => .panic                                                       -- result[len(result)-1]
    | some last =>
      if script_PushNumber_5 (result_at_len_result____1 := last.toNat) then
        pushData (result ++ [if script_PushNumber_6 (isNegative := isNegative) then 0x80 else 0x00])
      else if script_PushNumber_7 (isNegative := isNegative) then
        pushData (result.dropLast ++ [last ||| 0x80])
      else pushData result

/-- the decoding loop of `ReadNumber` (push.go:199-212): index `i`, remaining bytes, the flags so
    far; result `(isNegative, magnitude)`; `len` = `len(numBytes)`. -/
def numLoop (len : Nat) : Nat → Bytes → Bool → Nat → Outcome (Bool × Nat)
  | _, [], neg, mag => .ok (neg, mag)
  | i, b :: bs, neg, mag =>
    let sign := script_ReadNumber_5 (i := i) (len_numBytes := len) (byteValue := b.toNat)
    let byteValue : UInt8 := if sign then b - 0x80 else b
    let neg := neg || sign
    if script_ReadNumber_6 (i := i) then
      if script_ReadNumber_7 (byteValue := byteValue.toNat) then .err else .ok (neg, mag)   -- break
    else
      numLoop len (i + 1) bs neg
        (mag ||| ((byteValue.toNat <<< (8 * i)) % 18446744073709551616))

/-- the part of `ReadNumber` after `ReadData` (push.go:190-226) -/
def decodeNum (d : Bytes) : Outcome Int :=
  if script_ReadNumber_3 (len_numBytes := d.length) then .err
  else
    match numLoop d.length 0 d false 0 with
    | .ok (isNegative, magnitude) =>
      if script_ReadNumber_8 (isNegative := isNegative) then
        if script_ReadNumber_9 (magnitude := magnitude) then .err
        else .ok (wrapS 18446744073709551616 (wrapU 18446744073709551616 (-(magnitude : Int))))
      else if script_ReadNumber_10 (magnitude := magnitude) then .err
      else .ok (wrapS 18446744073709551616 magnitude)
    | .err => .err
    | .panic => .panic

/-- `script.ReadNumber` -/
def readNumber : Parser Int := fun s =>
  match s with
  | [] => .err
  | b :: rest =>
    if script_ReadNumber_0 (firstBytes_0 := b.toNat) then .ok (-1, rest)
    else if script_ReadNumber_1 (firstBytes_0 := b.toNat) then .ok (0, rest)
    else if script_ReadNumber_2 (firstBytes_0 := b.toNat) then .ok (((b - 0x50).toNat : Int), rest)
    else
      match readData (b :: rest) with                -- io.MultiReader puts the first byte back
      | .ok (d, rest') => (decodeNum d).bind fun v => .ok (v, rest')
      | .err => .err
      | .panic => .panic

/-! ### templates -/

/-- `s[i]` with Go's bounds check -/
def byteAt (s : Bytes) (i : Nat) : Outcome UInt8 :=
  match s[i]? with
  | some b => .ok b
  | none => .panic

/-- `s[lo:hi]` with Go's bounds check against the length -/
def sliceOf (s : Bytes) (lo hi : Nat) : Outcome Bytes :=
  if lo ≤ hi ∧ hi ≤ s.length then .ok ((s.drop lo).take (hi - lo)) else .panic

/-- `MakeP2PKHFromHash` (p2pkh.go:14-22); `h` is the `[20]byte` -/
def makeP2PKH (h : Bytes) : Outcome Bytes :=
  (pushData h).bind fun p =>
    .ok ([opByte constants_OP_DUP, opByte constants_OP_HASH160] ++ p ++
         [opByte constants_OP_EQUALVERIFY, opByte constants_OP_CHECKSIG])

/-- `MakeP2SHFromHash` (p2sh.go:14-20) -/
def makeP2SH (h : Bytes) : Outcome Bytes :=
  (pushData h).bind fun p => .ok ([opByte constants_OP_HASH160] ++ p ++ [opByte constants_OP_EQUAL])

/-- `MakeP2WPKHFromHash` (p2wpkh.go:16-21), `MakeP2WSHFromHash` (p2wsh.go:14-19): same shape -/
def makeWitnessProgram (h : Bytes) : Outcome Bytes :=
  (pushData h).bind fun p => .ok (opByte constants_OP_0 :: p)

def makeP2WPKH (h : Bytes) : Outcome Bytes := makeWitnessProgram h
def makeP2WSH (h : Bytes) : Outcome Bytes := makeWitnessProgram h

/-- `IsP2PKH` (p2pkh.go:42-50).  Go's `&&` short-circuits: the indexes are evaluated only when
    the length test passed; each is an explicit bounds-checked read. -/
def isP2PKH (s : Bytes) : Outcome Bool :=
  if s.length ≠ 25 then .ok false
  else
    (byteAt s 0).bind fun b0 => (byteAt s 1).bind fun b1 => (byteAt s 2).bind fun b2 =>
    (byteAt s 23).bind fun b23 => (byteAt s 24).bind fun b24 =>
    .ok (script_IsP2PKH_0 (script_isnil := false) (len_script := s.length) (script_0 := b0.toNat)
      (script_1 := b1.toNat) (script_2 := b2.toNat) (script_23 := b23.toNat) (script_24 := b24.toNat))

/-- `IsP2SH` (p2sh.go:35-41) -/
def isP2SH (s : Bytes) : Outcome Bool :=
  if s.length ≠ 23 then .ok false
  else
    (byteAt s 0).bind fun b0 => (byteAt s 1).bind fun b1 => (byteAt s 22).bind fun b22 =>
    .ok (script_IsP2SH_0 (scriptPubKey_isnil := false) (len_scriptPubKey := s.length)
      (scriptPubKey_0 := b0.toNat) (scriptPubKey_1 := b1.toNat) (scriptPubKey_22 := b22.toNat))

/-- `IsP2WPKH` (p2wpkh.go:38-43) -/
def isP2WPKH (s : Bytes) : Outcome Bool :=
  if s.length ≠ 22 then .ok false
  else
    (byteAt s 0).bind fun b0 => (byteAt s 1).bind fun b1 =>
    .ok (script_IsP2WPKH_0 (script_isnil := false) (len_script := s.length)
      (script_0 := b0.toNat) (script_1 := b1.toNat))

/-- `IsP2WSH` (p2wsh.go:34-39) -/
def isP2WSH (s : Bytes) : Outcome Bool :=
  if s.length ≠ 34 then .ok false
  else
    (byteAt s 0).bind fun b0 => (byteAt s 1).bind fun b1 =>
    .ok (script_IsP2WSH_0 (script_isnil := false) (len_script := s.length)
      (script_0 := b0.toNat) (script_1 := b1.toNat))

/-- shape shared by the four `Decode*`: recogniser, then `copy(hash[:], script[lo:hi])` -/
def decodeWith (is : Bytes → Outcome Bool) (notIs : Bool → Bool) (lo hi : Nat) (s : Bytes) :
    Outcome Bytes :=
  (is s).bind fun r => if notIs r then .err else sliceOf s lo hi

def decodeP2PKH (s : Bytes) : Outcome Bytes :=
  decodeWith isP2PKH (fun r => script_DecodeP2PKH_0 (call_IsP2PKH_script := r)) 3 23 s
def decodeP2SH (s : Bytes) : Outcome Bytes :=
  decodeWith isP2SH (fun r => script_DecodeP2SH_0 (call_IsP2SH_scriptPubKey := r)) 2 22 s
def decodeP2WPKH (s : Bytes) : Outcome Bytes :=
  decodeWith isP2WPKH (fun r => script_DecodeP2WPKH_0 (call_IsP2WPKH_script := r)) 2 22 s
def decodeP2WSH (s : Bytes) : Outcome Bytes :=
  decodeWith isP2WSH (fun r => script_DecodeP2WSH_0 (call_IsP2WSH_script := r)) 2 34 s

/-- `constants.AddressFormat` values returned by `ClassifyOutput` -/
inductive Format where
  | p2pkh | p2sh | p2wpkh | p2wsh | nonstandard
  deriving Repr, DecidableEq, Inhabited

/-- `ClassifyOutput` (script.go:28-41): the recognisers are tried in this order -/
def classify (s : Bytes) : Outcome Format :=
  (isP2PKH s).bind fun a => if script_ClassifyOutput_0 (call_IsP2PKH_script := a) then .ok .p2pkh else
  (isP2SH s).bind fun b => if script_ClassifyOutput_1 (call_IsP2SH_script := b) then .ok .p2sh else
  (isP2WPKH s).bind fun c => if script_ClassifyOutput_2 (call_IsP2WPKH_script := c) then .ok .p2wpkh else
  (isP2WSH s).bind fun d => if script_ClassifyOutput_3 (call_IsP2WSH_script := d) then .ok .p2wsh else
  .ok .nonstandard

/-- `MakeP2PKHFromPublicKey` (p2pkh.go:27-34); `hash160` stands for `bhash.Hash160` -/
def makeP2PKHFromPublicKey (hash160 : Bytes → Bytes) (pk : Bytes) : Outcome Bytes :=
  if script_MakeP2PKHFromPublicKey_0 (len_publicKey := pk.length) then .err else makeP2PKH (hash160 pk)

/-- `MakeP2WPKHFromPublicKey` (p2wpkh.go:24-30) -/
def makeP2WPKHFromPublicKey (hash160 : Bytes → Bytes) (pk : Bytes) : Outcome Bytes :=
  if script_MakeP2WPKHFromPublicKey_0 (len_publicKey := pk.length) then .err
  else makeP2WPKH (hash160 pk)

/-- concatenated `PushData` of every element -/
def pushAll : List Bytes → Outcome Bytes
  | [] => .ok []
  | d :: ds => (pushData d).bind fun p => (pushAll ds).bind fun ps => .ok (p ++ ps)

/-- `MakeP2MS(sigsRequired uint32, publicKeys ...[]byte)` (p2ms.go:14-30) -/
def makeP2MS (m : Nat) (keys : List Bytes) : Outcome Bytes :=
  if script_MakeP2MS_0 (sigsRequired := m) (len_publicKeys := keys.length) then .panic
  else if script_MakeP2MS_1 (sigsRequired := m) then .panic
  else
    (pushNumber (m : Int)).bind fun pm => (pushAll keys).bind fun pk =>
    (pushNumber (keys.length : Int)).bind fun pn =>
    .ok (pm ++ pk ++ pn ++ [opByte constants_OP_CHECKMULTISIG])

/-- `RedeemP2MS` (p2ms.go:33-44) -/
def redeemP2MS (sigs : List Bytes) : Outcome Bytes :=
  if script_RedeemP2MS_0 (len_signatures := sigs.length) then .panic
  else (pushAll sigs).bind fun p => .ok (opByte constants_OP_0 :: p)

/-- `MakeOpReturn` (op_return.go:15-21) -/
def makeOpReturn (payload : Bytes) : Outcome Bytes :=
  if script_MakeOpReturn_0 (len_payload := payload.length) then .err
  else (pushData payload).bind fun p => .ok (opByte constants_OP_RETURN :: p)

/-- `RedeemP2PKH` (p2pkh.go:66-68) -/
def redeemP2PKH (sig pk : Bytes) : Outcome Bytes :=
  (pushData sig).bind fun a => (pushData pk).bind fun b => .ok (a ++ b)

/-- `RedeemP2SH(scriptPubKey, redeem)` (p2sh.go:57-62): `redeem ‖ PushData(scriptPubKey)` -/
def redeemP2SH (scriptPubKey redeem : Bytes) : Outcome Bytes :=
  (pushData scriptPubKey).bind fun p => .ok (redeem ++ p)

/-- `WitnessP2WPKH` (p2wpkh.go:60-62) -/
def witnessP2WPKH (sig pk : Bytes) : List Bytes := [sig, pk]

/-- `WitnessP2WSH(scriptPubKey, redeem)` (p2wsh.go:57-66) -/
def witnessP2WSH (scriptPubKey redeem : Bytes) : Outcome (List Bytes) :=
  (stackify redeem).bind fun chunks => .ok (chunks ++ [scriptPubKey])

end BtcVerif.Model
