/-
  Model of blocks/blockheader/block_header.go, target_n_bits.go, blocks/block.go,
  blocks/merkle/merkle.go.
-/
import BtcVerif.Model.Tx

namespace BtcVerif.Model
open BtcVerif BtcVerif.Parser
open BtcVerif.Gen.Guards

/-- hashes are held in RPC (reversed) byte order, as `blockheader.FromReader` stores them -/
structure Header where
  version : Nat
  prev : Bytes
  merkle : Bytes
  time : Nat
  nbits : Nat
  nonce : Nat
  deriving Repr, DecidableEq, Inhabited

def encHeader (h : Header) : Bytes :=
  leBytes 4 h.version ++ h.prev.reverse ++ h.merkle.reverse ++ leBytes 4 h.time ++ leBytes 4 h.nbits
    ++ leBytes 4 h.nonce

def decHeader : Parser Header := do
  let v ← readLE 4
  let p ← readN 32
  let m ← readN 32
  let t ← readLE 4
  let b ← readLE 4
  let n ← readLE 4
  return ⟨v, p.reverse, m.reverse, t, b, n⟩

def WFHeader (h : Header) : Prop :=
  h.version < 2^32 ∧ h.prev.length = 32 ∧ h.merkle.length = 32 ∧ h.time < 2^32 ∧ h.nbits < 2^32 ∧ h.nonce < 2^32

structure Block where
  header : Header
  txs : List Tx
  deriving Repr, DecidableEq, Inhabited

/-- `Block.WriteTo`: an unserialisable transaction makes the whole call fail -/
def encTxs : List Tx → Outcome Bytes
  | [] => .ok []
  | t :: ts => do
    let a ← encTx t true
    let b ← encTxs ts
    return a ++ b

def encBlock (b : Block) : Outcome Bytes := do
  let body ← encTxs b.txs
  return encHeader b.header ++ encVarint b.txs.length ++ body

/-- `blocks.fromReader` -/
def decBlock : Parser Block := do
  let h ← decHeader
  let n ← decVarint
  if blocks_fromReader_0 n then fail else
  let txs ← readMany decTx n
  return ⟨h, txs⟩

def WFBlock (b : Block) : Prop :=
  WFHeader b.header ∧ b.txs.length ≤ 12195 ∧ ∀ t ∈ b.txs, WFTx t

def sizeBlock (b : Block) : Nat :=
  80 + varintSize b.txs.length + (b.txs.map fun t => sizeTx t true).sum

def weightBlock (b : Block) : Nat :=
  80 * 4 + varintSize b.txs.length * 4 + (b.txs.map weightTx).sum

/-! ### merkle root: the library's recursion (merkle.go:20-56), for any pair-hash function `H` -/

def pairUp {α} (H : α → α → α) : List α → List α
  | a :: b :: rest => H a b :: pairUp H rest
  | _ => []

/-- `MerkleRootHashInternal`; `fuel` bounds the recursion depth (any fuel ≥ length suffices);
    the empty list, on which the Go function does not terminate, yields `none`. -/
def merkleModel {α} (H : α → α → α) : Nat → List α → Option α
  | 0, _ => none
  | fuel+1, hs =>
    match hs with
    | [] => none
    | [a] => some a
    | [a, b] => some (H a b)
    | _ =>
      let hs' := if blocks_merkle_MerkleRootHashInternal_2 hs.length then
          (match hs.getLast? with | some l => hs ++ [l] | none => hs) else hs
      merkleModel H fuel (pairUp H hs')

/-! ### nBits → target (target_n_bits.go:8-34) -/

/-- `calculateTargetNBits`; `Outcome.panic` is the library's explicit panic for exponent > 32.
    `big.Int.Exp(256, e-3)` returns 1 for a negative exponent. -/
def targetModel (nBits : Nat) : Outcome Nat :=
  let significand := nBits &&& 0x00ffffff
  if blocks_blockheader_calculateTargetNBits_0 significand then .ok 0 else
  let exponent := nBits >>> 24
  if blocks_blockheader_calculateTargetNBits_1 exponent then
    .ok ((significand >>> (8 * (3 - exponent))) * 1)
  else if blocks_blockheader_calculateTargetNBits_2 exponent then .panic
  else .ok (significand * 256 ^ (exponent - 3))

end BtcVerif.Model
