/-
  C14 — model of /repo/bip39 (bip39.go:38-75, encode.go:12-37, decode.go:28-66, derive_seed.go:25-35,
  wordlist.go:3-11).

  Words are Go strings, i.e. byte strings (`Bytes`); nothing is trimmed, split, lower-cased or
  normalised by the library: `DecodeWords` takes the slice of words as given and looks each one up in
  `WordMap` (exact, case-sensitive byte equality).  The functions are parameterised by the word list
  `wl` (instantiated with the list regenerated from wordlist.go, `wordList`), by `csByte`
  (`sha256.Sum256(entropy)[0]`) and by the PBKDF2 function, so that the theorems hold for ANY
  checksum-byte function.  `big.Int` values are `Nat`; shifts, masks and ors are the code's.
  Core Lean only.
-/
import Std.Data.HashMap
import BtcVerif.Model.Basic
import BtcVerif.Gen.Guards
import BtcVerif.Gen.Constants
import BtcVerif.Prim.SHA256
import BtcVerif.Prim.HMAC

namespace BtcVerif.Model.Bip39
open BtcVerif BtcVerif.Gen.Guards

/-- the bytes of a Go string literal -/
def utf8 (s : String) : Bytes := s.toUTF8.toList

/-- `bip39.WordList` (wordlist.go:17-…), regenerated from the source -/
def wordList : List Bytes := BtcVerif.Gen.bip39_WordList.map utf8

/-- `var elevenMask = big.NewInt(0b11111111111)` (encode.go:8; a variable, not a constant, so it is
    not in `Gen/Constants.lean`: copied by hand) -/
def elevenMask : Nat := 0b11111111111

/-- `new(big.Int).SetBytes(b)`: big-endian -/
def bytesToNat (bs : Bytes) : Nat := bs.foldl (fun acc b => acc * 256 + b.toNat) 0

/-- the big-endian digits of `n` in exactly `len` bytes (high part dropped) -/
def natToBytes : Nat → Nat → Bytes
  | 0, _ => []
  | len + 1, n => natToBytes len (n / 256) ++ [UInt8.ofNat (n % 256)]

/-- `n.FillBytes(make([]byte, len))`: panics when `n` does not fit -/
def fillBytes (n len : Nat) : Outcome Bytes :=
  if n < 256 ^ len then .ok (natToBytes len n) else .panic

/-- `var WordMap map[string]int` -/
abbrev WordMap := Std.HashMap Bytes Nat

/-- wordlist.go:6-11 `init`: `for i, word := range WordList { WordMap[word] = i }` — successive
    assignments, so the LAST position of a repeated word wins.  `buildMap wl i m` continues the loop
    at position `i` with the map `m` built so far. -/
def buildMap : List Bytes → Nat → WordMap → WordMap
  | [], _, m => m
  | word :: rest, i, m => buildMap rest (i + 1) (m.insert word i)

def wordMapOf (wl : List Bytes) : WordMap := buildMap wl 0 ∅

/-- bip39.go:38-44 `ValidateEntropySize` (true = refused) -/
def invalidEntropySize (bitSize : Int) : Bool := bip39_ValidateEntropySize_0 (bitSize := bitSize)

/-- encode.go:29-34, the indices the loop computes, listed from word 0 to word `nWords-1`
    (the loop fills `words[i]` from the last word down, taking the low 11 bits each time) -/
def indices : Nat → Nat → List Nat
  | 0, _ => []
  | n + 1, payload => indices n (payload >>> 11) ++ [payload &&& elevenMask]

/-- `words[i] = WordList[index]` for every index: an out-of-range index panics -/
def lookupAll (wl : List Bytes) : List Nat → Outcome (List Bytes)
  | [] => .ok []
  | i :: is =>
    match wl[i]? with
    | none => .panic
    | some w =>
      match lookupAll wl is with
      | .ok ws => .ok (w :: ws)
      | .err => .err
      | .panic => .panic

/-- encode.go:12-37 `EncodeToWords` -/
def encode (wl : List Bytes) (csByte : Bytes → UInt8) (entropy : Bytes) : Outcome (List Bytes) :=
  let nEntropyBits := entropy.length * 8
  if invalidEntropySize nEntropyBits then .err else
  let nChecksumBits := nEntropyBits / 32
  -- `hashedEnt[0] >> (8 - nChecksumBits)`; 4 ≤ nChecksumBits ≤ 8 here, the count is never negative
  let checksumBits := (csByte entropy).toNat >>> (8 - nChecksumBits)
  let payload := (bytesToNat entropy <<< nChecksumBits) ||| checksumBits
  let nWords := (nEntropyBits + nChecksumBits) / 11
  lookupAll wl (indices nWords payload)

/-- decode.go:37-47: the loop over the words; `none` = unknown word -/
def accumulate (wm : WordMap) : List Bytes → Nat → Option Nat
  | [], payload => some payload
  | word :: rest, payload =>
    let r := wm[word]?                              -- `index, ok := WordMap[word]`
    if bip39_DecodeWords_5 (ok := r.isSome) then none else
    match r with
    | some index => accumulate wm rest ((payload <<< 11) ||| index)
    | none => none                                  -- not reached: `ok` was true

/-- decode.go:30-35: the switch on the number of words (true = accepted) -/
def wordCountOk (nWords : Int) : Bool :=
  bip39_DecodeWords_0 (nWords := nWords) || bip39_DecodeWords_1 (nWords := nWords) ||
  bip39_DecodeWords_2 (nWords := nWords) || bip39_DecodeWords_3 (nWords := nWords) ||
  bip39_DecodeWords_4 (nWords := nWords)

/-- decode.go:28-66 `DecodeWords` -/
def decode (wm : WordMap) (csByte : Bytes → UInt8) (words : List Bytes) : Outcome Bytes :=
  let nWords := words.length
  if !wordCountOk nWords then .err else
  match accumulate wm words 0 with
  | none => .err
  | some payload =>
    let nChecksumBits := nWords / 3
    let nEntropyBits := nWords * 11 - nChecksumBits
    let checksumMask := 0xff >>> (8 - nChecksumBits)
    let checksum := (payload &&& checksumMask) % 256          -- byte(… .Uint64())
    let payload := payload >>> nChecksumBits
    match fillBytes payload (nEntropyBits / 8) with
    | .panic => .panic
    | .err => .err
    | .ok entropy =>
      let expectedChecksumBits := (csByte entropy).toNat >>> (8 - nChecksumBits)
      if bip39_DecodeWords_6 (checksum := checksum) (expectedChecksumBits := expectedChecksumBits)
      then .err else .ok entropy

/-- `strings.Join(words, " ")` -/
def joinWords : List Bytes → Bytes
  | [] => []
  | [w] => w
  | w :: ws => w ++ 0x20 :: joinWords ws

/-- derive_seed.go:25-35 `DeriveSeed`; `pbkdf2 password salt iterations keyLen` -/
def deriveSeed (pbkdf2 : Bytes → Bytes → Nat → Nat → Bytes) (words : List Bytes)
    (passphrase : Bytes) : Bytes :=
  let mnemonic := joinWords words
  let salt := utf8 BtcVerif.Gen.bip39_SeedSaltPrefix ++ passphrase
  pbkdf2 mnemonic salt BtcVerif.Gen.bip39_SeedKDFIterationCount BtcVerif.Gen.bip39_SeedLength

/-! ### `GenerateEntropy` / `GenerateMnemonic` over a deterministic reader (bip39.go:48-75) -/

/-- bip39.go:48-59: `io.ReadFull(rand, make([]byte, bitSize/8))` on the byte stream `rand` -/
def generateEntropy (rand : Bytes) (bitSize : Int) : Outcome (Bytes × Bytes) :=
  if invalidEntropySize bitSize then .err else
  Parser.readN (bitSize / 8).toNat rand

/-- bip39.go:64-74: `GenerateEntropy(rand, bitSize)` then `EncodeToWords(entropy)` -/
def generateFrom (wl : List Bytes) (csByte : Bytes → UInt8) (rand : Bytes) (bitSize : Int) :
    Outcome (List Bytes) :=
  match generateEntropy rand bitSize with
  | .ok (entropy, _) => encode wl csByte entropy
  | .err => .err
  | .panic => .panic

/-- bip39.go:62-75; `bitSize := nWords * 32 / 3` in Go's `int` (64-bit, wrapping multiplication,
    truncated division) -/
def generateMnemonic (wl : List Bytes) (csByte : Bytes → UInt8) (rand : Bytes) (nWords : Int) :
    Outcome (List Bytes) :=
  generateFrom wl csByte rand (Int.tdiv (BtcVerif.Gen.wrapS 18446744073709551616 (nWords * 32)) 3)

/-! ### the instances the oracle runs -/

/-- `sha256.Sum256(entropy)[0]` (index 0 of a `[32]byte` always exists) -/
def sha256First (entropy : Bytes) : UInt8 :=
  match Prim.sha256 entropy with
  | b :: _ => b
  | [] => 0

def encodeGo (entropy : Bytes) : Outcome (List Bytes) := encode wordList sha256First entropy
/-- the map `init` builds, computed once -/
def goWordMap : WordMap := wordMapOf wordList
def decodeGo (words : List Bytes) : Outcome Bytes := decode goWordMap sha256First words
def deriveSeedGo (words : List Bytes) (passphrase : Bytes) : Bytes :=
  deriveSeed Prim.pbkdf2HmacSha512 words passphrase

end BtcVerif.Model.Bip39
