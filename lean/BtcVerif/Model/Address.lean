/-
  Model of `address/{address,p2pkh,p2sh,p2wpkh,p2wsh}.go` (after the D14 repair), the network table
  of `constants/networks.go` and the four script templates `script/{p2pkh,p2sh,p2wpkh,p2wsh}.go`
  the decoder builds (property C09).

  The process-wide `constants.CurrentNetwork` is the argument `net`. The hash functions
  (`bhash.Hash160`, `bhash.Sha256`, the Base58Check checksum) are the argument `hs`: the oracle
  passes the `Prim` implementations, theorems quantify over them. Core Lean only.
-/
import BtcVerif.Model.Base58
import BtcVerif.Model.Bech32

namespace BtcVerif.Model.Address
open BtcVerif BtcVerif.Gen BtcVerif.Gen.Guards

/-- `constants.Network` (networks.go:5-22), the fields the address and key codecs read -/
structure Network where
  bech32 : Bytes
  scriptHash : Nat
  pubkeyHash : Nat
  wif : Nat
  extPub : Nat
  extPriv : Nat
  deriving Repr, DecidableEq

/-- a field the composite literal does not set has Go's zero value -/
def intField (ints : List (String × Nat)) (k : String) : Nat :=
  match ints.lookup k with
  | some v => v
  | none => 0

def strField (strs : List (String × String)) (k : String) : Bytes :=
  match strs.lookup k with
  | some v => strBytes v
  | none => []

/-- a network from the regenerated field lists (`Gen/Constants.lean`) -/
def networkOf (ints : List (String × Nat)) (strs : List (String × String)) : Network :=
  { bech32 := strField strs "Bech32"
    scriptHash := intField ints "ScriptHash"
    pubkeyHash := intField ints "PubkeyHash"
    wif := intField ints "WIF"
    extPub := intField ints "ExtendedPublic"
    extPriv := intField ints "ExtendedPrivate" }

def bitcoin : Network := networkOf constants_BitcoinNetwork_ints constants_BitcoinNetwork_strs
def testnet : Network := networkOf constants_BitcoinTestnet_ints constants_BitcoinTestnet_strs
def litecoin : Network := networkOf constants_LitecoinNetwork_ints constants_LitecoinNetwork_strs
def zcash : Network := networkOf constants_ZcashNetwork_ints constants_ZcashNetwork_strs

/-- `constants.AddressFormat` is a string type; `other` stands for every value that is none of the
    four format constants (including `FormatNONSTANDARD`). -/
inductive Format where
  | p2pkh | p2sh | p2wpkh | p2wsh | other
  deriving Repr, DecidableEq

/-- the hash functions the package calls -/
structure Hashes where
  hash160 : Bytes → Bytes      -- bhash.Hash160  ([20]byte)
  sha256 : Bytes → Bytes       -- bhash.Sha256   ([32]byte)
  cksum : Bytes → Bytes        -- bhash.DoubleSha256(x)[:4]

/-! ### script templates (script/p2pkh.go:12-20, p2sh.go:12-18, p2wpkh.go:12-17, p2wsh.go:12-17) -/

def opByte (n : Nat) : UInt8 := UInt8.ofNat n

/-- `script.PushData` (script/push.go:23-48) -/
def pushData (d : Bytes) : Outcome Bytes :=
  let n := d.length
  if script_PushData_0 (dataSize := n) then .ok (UInt8.ofNat n :: d)
  else if script_PushData_1 (dataSize := n) then .ok (opByte constants_OP_PUSHDATA1 :: (leBytes 1 n ++ d))
  else if script_PushData_2 (dataSize := n) then .ok (opByte constants_OP_PUSHDATA2 :: (leBytes 2 n ++ d))
  else if script_PushData_3 (dataSize := n) then .ok (opByte constants_OP_PUSHDATA4 :: (leBytes 4 n ++ d))
  else .panic

def scriptP2PKH (h : Bytes) : Outcome Bytes := do
  let p ← pushData h
  pure ([opByte constants_OP_DUP, opByte constants_OP_HASH160] ++ p ++
    [opByte constants_OP_EQUALVERIFY, opByte constants_OP_CHECKSIG])

def scriptP2SH (h : Bytes) : Outcome Bytes := do
  let p ← pushData h
  pure ([opByte constants_OP_HASH160] ++ p ++ [opByte constants_OP_EQUAL])

def scriptWitness (h : Bytes) : Outcome Bytes := do
  let p ← pushData h
  pure ([opByte constants_OP_0] ++ p)

/-! ### making addresses -/

/-- `MakeP2PKHFromHash` (p2pkh.go:24-26) -/
def makeP2PKHFromHash (hs : Hashes) (net : Network) (h : Bytes) : Bytes :=
  Base58Check.encodeVersion hs.cksum h net.pubkeyHash

/-- `MakeP2PKHFromPublicKey` (p2pkh.go:11-19) -/
def makeP2PKHFromPublicKey (hs : Hashes) (net : Network) (pk : Bytes) : Outcome Bytes :=
  if address_MakeP2PKHFromPublicKey_0 (len_publicKey := pk.length) then .err
  else .ok (makeP2PKHFromHash hs net (hs.hash160 pk))

/-- `MakeP2SHFromHash` / `MakeP2SHFromScript` (p2sh.go) -/
def makeP2SHFromHash (hs : Hashes) (net : Network) (h : Bytes) : Bytes :=
  Base58Check.encodeVersion hs.cksum h net.scriptHash

def makeP2SHFromScript (hs : Hashes) (net : Network) (script : Bytes) : Bytes :=
  makeP2SHFromHash hs net (hs.hash160 script)

/-- `MakeP2WPKHFromHash` (p2wpkh.go:26-42) -/
def makeP2WPKHFromHash (net : Network) (h : Bytes) : Outcome Bytes :=
  if address_MakeP2WPKHFromHash_0 (len_constants_CurrentNetwork_Bech32 := net.bech32.length) then .err
  else Bech32.encode net.bech32 constants_WitnessVersionZero h

/-- `MakeP2WPKHFromPublicKey` (p2wpkh.go:11-23) -/
def makeP2WPKHFromPublicKey (hs : Hashes) (net : Network) (pk : Bytes) : Outcome Bytes :=
  if address_MakeP2WPKHFromPublicKey_0 (len_publicKey := pk.length) then .err
  else makeP2WPKHFromHash net (hs.hash160 pk)

/-- `MakeP2WSHFromHash` (p2wsh.go:26-42) -/
def makeP2WSHFromHash (net : Network) (h : Bytes) : Outcome Bytes :=
  if address_MakeP2WSHFromHash_0 (len_constants_CurrentNetwork_Bech32 := net.bech32.length) then .err
  else Bech32.encode net.bech32 constants_WitnessVersionZero h

/-- `MakeP2WSHFromScript` (p2wsh.go:11-23) -/
def makeP2WSHFromScript (hs : Hashes) (net : Network) (script : Bytes) : Outcome Bytes :=
  makeP2WSHFromHash net (hs.sha256 script)

/-- `address.Make` (address.go:36-49) -/
def make (hs : Hashes) (net : Network) (fmt : Format) (data : Bytes) : Outcome Bytes :=
  match fmt with
  | .p2pkh => makeP2PKHFromPublicKey hs net data
  | .p2sh => .ok (makeP2SHFromScript hs net data)
  | .p2wpkh => makeP2WPKHFromPublicKey hs net data
  | .p2wsh => makeP2WSHFromScript hs net data
  | .other => .err

/-- `address.MakeFromHash` (address.go:71-106). A nil and an empty slice are both refused (the
    second by the length test). -/
def makeFromHash (hs : Hashes) (net : Network) (fmt : Format) (hashed : Bytes) : Outcome Bytes :=
  -- address.go:77 `addressFormat == constants.FormatP2WSH` (guard not translated: string type)
  let desired : Int := if fmt = .p2wsh then 32 else 20
  if address_MakeFromHash_2 (len_hashed := hashed.length) (desiredHashLength := desired) then .err
  else
    match fmt with
    | .p2pkh => .ok (makeP2PKHFromHash hs net hashed)
    | .p2sh => .ok (makeP2SHFromHash hs net hashed)
    | .p2wpkh => makeP2WPKHFromHash net hashed
    | .p2wsh => makeP2WSHFromHash net hashed
    | .other => .err

/-! ### decoding addresses -/

/-- `DecodeBase58Address` (address.go:111-140, repaired): version and 20-byte hash -/
def decodeBase58Address (hs : Hashes) (s : Bytes) : Outcome (Nat × Bytes) :=
  match Base58Check.decode hs.cksum s with
  | .err => .err
  | .panic => .panic
  | .ok payload =>
    if address_DecodeBase58Address_0 (len_payload := payload.length) then .err
    else
      match payload with
      | [] => .panic                                                   -- payload[0]
      | v0 :: rest =>
        if address_DecodeBase58Address_1 (len_payload := rest.length) then
          -- could be a two-byte version; a first byte of zero is the non-canonical spelling
          if address_DecodeBase58Address_2 (version := v0.toNat) then .err
          else
            match rest with
            | [] => .panic                                             -- payload[0]
            | v1 :: rest' => .ok (((v0.toNat <<< 8) % 65536) ||| v1.toNat, rest')
        else .ok (v0.toNat, rest)

/-- `DecodeBech32Address` (address.go:145-157) -/
def decodeBech32Address (s : Bytes) : Outcome (Bytes × Nat × Bytes) :=
  match Bech32.decode s with
  | .err => .err
  | .panic => .panic
  | .ok (hrp, version, payload) =>
    if address_DecodeBech32Address_0 (len_payload := payload.length) then .err
    else .ok (hrp, version, payload)

/-- `address.Decode` (address.go:163-206): format and scriptPubKey -/
def decode (hs : Hashes) (net : Network) (s : Bytes) : Outcome (Format × Bytes) :=
  match decodeBase58Address hs s with
  | .panic => .panic
  | .ok (version, hash) =>
    if address_Decode_0 (b58Version := version) (constants_CurrentNetwork_ScriptHash := net.scriptHash) then
      (scriptP2SH hash).map (fun spk => (Format.p2sh, spk))
    else if address_Decode_1 (b58Version := version) (constants_CurrentNetwork_PubkeyHash := net.pubkeyHash) then
      (scriptP2PKH hash).map (fun spk => (Format.p2pkh, spk))
    else .err
  | .err =>
    match decodeBech32Address s with
    | .panic => .panic
    | .err => .err
    | .ok (hrp, witnessVersion, program) =>
      -- address.go:180 `hrp != constants.CurrentNetwork.Bech32` (guard not translated: strings)
      if hrp ≠ net.bech32 then .err
      else if address_Decode_3 (witnessVersion := witnessVersion) then .err
      else if address_Decode_4 (len_witnessProgram := program.length) then
        (scriptWitness program).map (fun spk => (Format.p2wpkh, spk))
      else if address_Decode_5 (len_witnessProgram := program.length) then
        (scriptWitness program).map (fun spk => (Format.p2wsh, spk))
      else .err

end BtcVerif.Model.Address
