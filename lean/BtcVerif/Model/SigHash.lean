/-
  Model of tx/sighash.go: `SignatureHashForInput` (:52-111, legacy) and
  `SignatureHashForWitnessInput` (:176-260, BIP143). Flag tests and branch conditions are the
  regenerated guards. `H` is the digest applied to the preimage (double SHA-256 in the oracle,
  arbitrary in theorems: the theorems are about preimages).
-/
import BtcVerif.Model.Tx
import BtcVerif.Model.Script

namespace BtcVerif.Model
open BtcVerif
open BtcVerif.Gen.Guards

/-- `uint256::ONE` as serialised: 01 followed by 31 zero bytes (what `hashed[0] = 1` yields) -/
def uint256One : Bytes := 1 :: List.replicate 31 0

def opCodeSeparator : UInt8 := 0xab

/-- the in-place surgery on the other inputs (sighash.go:79-88) -/
def blankInputs (ins : List TxIn) (nIn : Nat) (none single : Bool) : List TxIn :=
  ins.mapIdx fun i vin =>
    if tx_Tx_SignatureHashForInput_2 (i := i) (nInput := nIn) then
      { vin with script := [],
                 sequence := if tx_Tx_SignatureHashForInput_3 (sigHashNone := none) (sigHashSingle := single)
                             then 0 else vin.sequence }
    else vin

/-- the surgery on the outputs for SIGHASH_SINGLE (sighash.go:92-98) -/
def blankOutputs (outs : List TxOut) (nIn : Nat) : List TxOut :=
  (outs.take (nIn + 1)).mapIdx fun i o =>
    if tx_Tx_SignatureHashForInput_6 (i := i) (nInput := nIn) then { value := 0xffffffffffffffff, script := [] } else o

/-- result of the legacy function: the constant ONE, or the preimage that is double-hashed -/
inductive LegacyResult where
  | one
  | preimage (bs : Bytes)
  deriving Repr, DecidableEq

/-- `SignatureHashForInput`, up to the final hash -/
def legacyPre (tx : Tx) (nIn : Nat) (script : Bytes) (ht : Nat) : Outcome LegacyResult :=
  let none := tx_Tx_SignatureHashForInput_asg0 ht
  let single := tx_Tx_SignatureHashForInput_asg1 ht
  let acp := tx_Tx_SignatureHashForInput_asg2 ht
  if tx_Tx_SignatureHashForInput_0 (nInput := nIn) (len_tx_Inputs := tx.inputs.length)
      (sigHashSingle := single) (len_tx_Outputs := tx.outputs.length) then .ok .one else
  match stripOpCode script opCodeSeparator with
  | .err => .err
  | .panic => .panic
  | .ok sc =>
    match tx.inputs[nIn]? with
    | Option.none => .panic                    -- tx.Inputs[nInput] out of range (excluded by the guard above)
    | some vin =>
      let ins1 := tx.inputs.set nIn { vin with script := sc }
      let ins2 := if tx_Tx_SignatureHashForInput_1 acp then (ins1.drop nIn).take 1
                  else blankInputs ins1 nIn none single
      let outs2 := if tx_Tx_SignatureHashForInput_4 none then []
                   else if tx_Tx_SignatureHashForInput_5 single then blankOutputs tx.outputs nIn
                   else tx.outputs
      -- WriteToNoWitness of the clone (witnesses dropped), then the 4-byte hash type
      match encTx { tx with inputs := ins2, outputs := outs2, witnesses := Option.none } false with
      | .ok bs => .ok (.preimage (bs ++ leBytes 4 ht))
      | .err => .err
      | .panic => .panic

def legacyDigest (H : Bytes → Bytes) (tx : Tx) (nIn : Nat) (script : Bytes) (ht : Nat) : Outcome Bytes :=
  match legacyPre tx nIn script ht with
  | .ok .one => .ok uint256One
  | .ok (.preimage bs) => .ok (H bs)
  | .err => .err
  | .panic => .panic

def zero32 : Bytes := List.replicate 32 0

/-- `SignatureHashForWitnessInput` (BIP143), up to the final hash. `H` also computes the three
    inner hashes. An out-of-range index is an index panic in Go. -/
def bip143Pre (H : Bytes → Bytes) (tx : Tx) (nIn : Nat) (script : Bytes) (ht : Nat) (amount : Nat) :
    Outcome Bytes :=
  let none := tx_Tx_SignatureHashForWitnessInput_asg0 ht
  let single := tx_Tx_SignatureHashForWitnessInput_asg1 ht
  let acp := tx_Tx_SignatureHashForWitnessInput_asg2 ht
  let hashPrevouts := if tx_Tx_SignatureHashForWitnessInput_0 acp
    then H (encMany (fun i => encPrevOut i.prev) tx.inputs) else zero32
  let hashSequence := if tx_Tx_SignatureHashForWitnessInput_1 acp single none
    then H (encMany (fun i => leBytes 4 i.sequence) tx.inputs) else zero32
  let hashOutputs : Outcome Bytes :=
    if tx_Tx_SignatureHashForWitnessInput_2 single none then .ok (H (encMany encTxOut tx.outputs))
    else if tx_Tx_SignatureHashForWitnessInput_3 (sigHashSingle := single) (nInput := nIn) (len_tx_Outputs := tx.outputs.length) then
      match tx.outputs[nIn]? with
      | some o => .ok (H (encTxOut o))
      | Option.none => .panic
    else .ok zero32
  match hashOutputs with
  | .err => .err
  | .panic => .panic
  | .ok ho =>
    match tx.inputs[nIn]? with
    | Option.none => .panic
    | some vin =>
      .ok (leBytes 4 tx.version ++ hashPrevouts ++ hashSequence ++ encPrevOut vin.prev
        ++ encVarint script.length ++ script ++ leBytes 8 amount ++ leBytes 4 vin.sequence
        ++ ho ++ leBytes 4 tx.locktime ++ leBytes 4 ht)

def bip143Digest (H : Bytes → Bytes) (tx : Tx) (nIn : Nat) (script : Bytes) (ht : Nat) (amount : Nat) :
    Outcome Bytes :=
  match bip143Pre H tx nIn script ht amount with
  | .ok bs => .ok (H bs)
  | .err => .err
  | .panic => .panic

end BtcVerif.Model
