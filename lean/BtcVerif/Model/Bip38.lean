/-
  Model of `bip38/bip38.go` and `bip38/ec_mult.go` after the D22 repair (property C10, BIP38 part).

  The primitives the code calls are the argument `P`: scrypt, the AES-256 block cipher keyed with the
  second half of the derived key, double SHA-256, the public key of a private key, the P2PKH address
  of a public key on the selected network, scalar multiplications and the product of two scalars
  modulo the group order. The oracle passes the `Prim` implementations, theorems quantify over them.
  Randomness (`io.Reader`) is an explicit argument. Core Lean only.
-/
import BtcVerif.Model.Base58

namespace BtcVerif.Model.Bip38
open BtcVerif BtcVerif.Gen BtcVerif.Gen.Guards

structure Prims where
  /-- `scrypt.Key(password, salt, N, r, p, keyLen)` (never fails for the parameters used) -/
  scrypt : Bytes → Bytes → Nat → Nat → Nat → Nat → Bytes
  /-- `aes.NewCipher(key).Encrypt(block)` / `.Decrypt(block)` -/
  aesEnc : Bytes → Bytes → Bytes
  aesDec : Bytes → Bytes → Bytes
  /-- `bhash.DoubleSha256` -/
  dsha256 : Bytes → Bytes
  /-- Base58Check checksum -/
  cksum : Bytes → Bytes
  /-- `ecc.GetPublicKey(privateKey, compressed)` (panics for a key that has no public key) -/
  pubKey : Bytes → Bool → Outcome Bytes
  /-- `address.MakeP2PKHFromPublicKey(publicKey)` on the selected network -/
  p2pkh : Bytes → Outcome Bytes
  /-- `SerializePointCompressed(Curve.ScalarBaseMult(k))` -/
  baseMul : Bytes → Outcome Bytes
  /-- `DeserializePoint(point)`, `Curve.ScalarMult(·, k)`, `SerializePoint(·, compressed)` -/
  pointMul : Bytes → Bytes → Bool → Outcome Bytes
  /-- `a * b mod N` as 32 big-endian bytes (`big.Int` arithmetic, `FillBytes`) -/
  mulModN : Bytes → Bytes → Bytes

/-- `common.XorBytes` (common/xor.go): panics when the lengths differ -/
def xorBytes (a b : Bytes) : Outcome Bytes :=
  if a.length ≠ b.length then .panic else .ok (List.zipWith (· ^^^ ·) a b)

/-- `s[lo:hi]` with Go's bounds check (`hi` at most the length) -/
def slice (s : Bytes) (lo hi : Nat) : Outcome Bytes :=
  if lo ≤ hi ∧ hi ≤ s.length then .ok ((s.take hi).drop lo) else .panic

/-- `prefixBytes` (bip38.go:31-37) -/
def prefixBytes (ecMultiply : Bool) : Bytes :=
  if bip38_prefixBytes_0 (ecMultiply := ecMultiply) then [0x01, 0x43] else [0x01, 0x42]

/-- `encodeFlagByte` (bip38.go:63-81) -/
def encodeFlagByte (compressed ecMultiply lotAndSequence : Bool) : UInt8 :=
  let f : UInt8 := 0
  let f := if bip38_encodeFlagByte_0 (ecMultiply := ecMultiply) then f ||| 0xC0 else f
  let f := if bip38_encodeFlagByte_1 (compressed := compressed) then f ||| 0x20 else f
  if bip38_encodeFlagByte_2 (ecMultiply := ecMultiply) (lotAndSequence := lotAndSequence) then f ||| 0x04 else f

/-- `deriveAddress` (bip38.go:52-61) -/
def deriveAddress (P : Prims) (privateKey : Bytes) (compressed : Bool) : Outcome Bytes := do
  let pub ← P.pubKey privateKey compressed
  P.p2pkh pub

/-- `Encrypt` (bip38.go:83-128) -/
def encrypt (P : Prims) (privateKey password : Bytes) (compressed : Bool) : Outcome Bytes :=
  if bip38_Encrypt_0 (len_privateKey := privateKey.length) then .err
  else do
    let addr ← deriveAddress P privateKey compressed
    let salt ← slice (P.dsha256 addr) 0 4
    let key := P.scrypt password salt 16384 8 8 64
    let dk1 ← slice key 0 32
    let dk2 ← slice key 32 key.length
    let k1 ← slice privateKey 0 16
    let k2 ← slice privateKey 16 privateKey.length
    let d1a ← slice dk1 0 16
    let d1b ← slice dk1 16 dk1.length
    let x1 ← xorBytes k1 d1a
    let x2 ← xorBytes k2 d1b
    let payload := prefixBytes false ++ [encodeFlagByte compressed false false] ++ salt ++
      P.aesEnc dk2 x1 ++ P.aesEnc dk2 x2
    pure (Base58Check.encode P.cksum payload)

/-- the key recovery of `decrypt` (bip38.go:193-213) -/
def plainKey (P : Prims) (d : Bytes) (password : Bytes) : Outcome Bytes := do
  let addressHash ← slice d 3 7
  let key := P.scrypt password addressHash 16384 8 8 64
  let dk1 ← slice key 0 32
  let dk2 ← slice key 32 key.length
  let c1 ← slice d 7 23
  let c2 ← slice d 23 d.length
  let d1a ← slice dk1 0 16
  let d1b ← slice dk1 16 dk1.length
  let p1 ← xorBytes (P.aesDec dk2 c1) d1a
  let p2 ← xorBytes (P.aesDec dk2 c2) d1b
  pure (p1 ++ p2)

/-- `decrypt` (bip38.go:178-214, repaired): the non-EC-multiplied form -/
def decryptPlain (P : Prims) (d : Bytes) (password : Bytes) : Outcome (Bytes × Bool) :=
  match d[2]? with
  | none => .panic
  | some flag =>
    if bip38_decrypt_0 (decodedEncryptedKey_2 := flag.toNat) then .err
    else (plainKey P d password).map
      (fun k => (k, bip38_decrypt_asg0 (decodedEncryptedKey_2 := flag.toNat)))

/-- the pass factor of an EC-multiplied key (ec_mult.go:189-197) -/
def passFactorOf (P : Prims) (useLotSequence : Bool) (password ownerEntropy : Bytes) : Outcome Bytes :=
  if bip38_decryptECMult_1 (useLotSequence := useLotSequence) then do
    let ownerSalt ← slice ownerEntropy 0 4
    let prefactor := P.scrypt password ownerSalt 16384 8 8 32
    pure (P.dsha256 (prefactor ++ ownerEntropy))
  else pure (P.scrypt password ownerEntropy 16384 8 8 32)

/-- the key recovery of `decryptECMult` (ec_mult.go:186-231) -/
def ecKey (P : Prims) (d : Bytes) (password : Bytes) (useLotSequence : Bool) : Outcome Bytes := do
  let addressHash ← slice d 3 7
  let ownerEntropy ← slice d 7 15
  let passFactor ← passFactorOf P useLotSequence password ownerEntropy
  let passPoint ← P.baseMul passFactor
  let key := P.scrypt passPoint (addressHash ++ ownerEntropy) 1024 1 1 64
  let dk1 ← slice key 0 32
  let dk2 ← slice key 32 key.length
  let e1head ← slice d 15 23
  let e2 ← slice d 23 d.length
  let dec2 := P.aesDec dk2 e2
  let dec2a ← slice dec2 0 8
  let dec2b ← slice dec2 8 dec2.length
  let k1624 ← slice dk1 16 24
  let k24 ← slice dk1 24 dk1.length
  let e1tail ← xorBytes dec2a k1624
  let seedbTail ← xorBytes dec2b k24
  let k016 ← slice dk1 0 16
  -- `copy(encryptedHalf1[8:], …)` into a 16-byte buffer whose first 8 bytes are e1head
  let e1 := e1head ++ e1tail.take 8
  let seedbHead ← xorBytes (P.aesDec dk2 e1) k016
  -- `copy(seedb[16:], …)` / `copy(seedb[:16], …)` into a 24-byte buffer
  let seedb := seedbHead.take 16 ++ seedbTail.take 8
  let factorb := P.dsha256 seedb
  pure (P.mulModN factorb passFactor)

/-- `decryptECMult` (ec_mult.go:172-232, repaired) -/
def decryptEC (P : Prims) (d : Bytes) (password : Bytes) : Outcome (Bytes × Bool) :=
  match d[2]? with
  | none => .panic
  | some flag =>
    if bip38_decryptECMult_0 (decodedEncryptedKey_2 := flag.toNat) then .err
    else (ecKey P d password (bip38_decryptECMult_asg1 (decodedEncryptedKey_2 := flag.toNat))).map
      (fun k => (k, bip38_decryptECMult_asg0 (decodedEncryptedKey_2 := flag.toNat)))

/-- the address-hash check at the end of `Decrypt` (bip38.go:162-175) -/
def checkAddress (P : Prims) (d : Bytes) (r : Bytes × Bool) : Outcome (Bytes × Bool) :=
  match deriveAddress P r.1 r.2 with
  | .err => .err
  | .panic => .panic
  | .ok addr =>
    match slice d 3 7, slice (P.dsha256 addr) 0 4 with
    | .ok addressHash, .ok derived =>
      if bip38_Decrypt_4 (call_bytes_Equal_derivedAddressHash_4_addressHash := (derived == addressHash))
      then .err else .ok r
    | _, _ => .panic

/-- `Decrypt` (bip38.go:130-176) -/
def decrypt (P : Prims) (s password : Bytes) : Outcome (Bytes × Bool) :=
  match Base58Check.decode P.cksum s with
  | .err => .err
  | .panic => .panic
  | .ok d =>
    if bip38_Decrypt_0 (len_decodedEncryptedKey := d.length) then .err
    else
      match d[0]?, d[1]? with
      | some b0, some b1 =>
        if bip38_Decrypt_1 (decodedEncryptedKey_0 := b0.toNat) then .err
        else
          let inner : Outcome (Bytes × Bool) :=
            if bip38_Decrypt_2 (decodedEncryptedKey_1 := b1.toNat) then decryptEC P d password
            else if bip38_Decrypt_3 (decodedEncryptedKey_1 := b1.toNat) then decryptPlain P d password
            else .err
          match inner with
          | .err => .err
          | .panic => .panic
          | .ok r => checkAddress P d r
      | _, _ => .panic

/-! ### EC-multiply: intermediate codes and their use (ec_mult.go) -/

def magicLot : Bytes := bip38_intermediateCodeMagicBytesLotSequence.map UInt8.ofNat
def magicPlain : Bytes := bip38_intermediateCodeMagicBytes.map UInt8.ofNat

/-- `encodeLotSequence` (ec_mult.go:25-35); `(lot<<12)+sequence` in `uint32` -/
def encodeLotSequence (lot sequence : Nat) : Outcome Bytes :=
  if bip38_encodeLotSequence_0 (lot := lot) then .err
  else if bip38_encodeLotSequence_1 (sequence := sequence) then .err
  else .ok (beBytes 4 ((lot <<< 12 + sequence) % 4294967296))

/-- `GenerateIntermediateCodeWithLotSequence` (ec_mult.go:37-66); `random` is what the reader
    yields (a short read is an error) -/
def intermediateCodeLot (P : Prims) (random password : Bytes) (lot sequence : Nat) : Outcome Bytes := do
  let lotSequence ← encodeLotSequence lot sequence
  if random.length < 4 then .err
  else do
    let ownerSalt := random.take 4
    let prefactor := P.scrypt password ownerSalt 16384 8 8 32
    let ownerEntropy := ownerSalt ++ lotSequence
    let passFactor := P.dsha256 (prefactor ++ ownerEntropy)
    let passPoint ← P.baseMul passFactor
    pure (Base58Check.encode P.cksum (magicLot ++ ownerEntropy ++ passPoint))

/-- `GenerateIntermediateCode` (ec_mult.go:68-90) -/
def intermediateCode (P : Prims) (random password : Bytes) : Outcome Bytes :=
  if random.length < 8 then .err
  else do
    let ownerEntropy := random.take 8
    let passFactor := P.scrypt password ownerEntropy 16384 8 8 32
    let passPoint ← P.baseMul passFactor
    pure (Base58Check.encode P.cksum (magicPlain ++ ownerEntropy ++ passPoint))

/-- `EncryptIntermediateCode` (ec_mult.go:92-170) -/
def encryptIntermediateCode (P : Prims) (random code : Bytes) (compressed : Bool) : Outcome Bytes :=
  match Base58Check.decode P.cksum code with
  | .err => .err
  | .panic => .panic
  | .ok ic =>
    if bip38_EncryptIntermediateCode_0 (len_intermediateCode := ic.length) then .err
    else do
      let magic ← slice ic 0 8
      let useLot : Outcome Bool :=
        if bip38_EncryptIntermediateCode_1
            (call_bytes_Equal_intermediateCode_8_intermediateCodeMagicBytesLotSequence := (magic == magicLot)) then .ok true
        else if bip38_EncryptIntermediateCode_2
            (call_bytes_Equal_intermediateCode_8_intermediateCodeMagicBytes := (magic == magicPlain)) then .ok false
        else .err
      let useLotSequence ← useLot
      let ownerEntropy ← slice ic 8 16
      let passPoint ← slice ic 16 ic.length
      if random.length < 24 then .err
      else do
        let seedb := random.take 24
        let factorb := P.dsha256 seedb
        let publicKey ← P.pointMul passPoint factorb compressed
        let addr ← P.p2pkh publicKey
        let addressHash ← slice (P.dsha256 addr) 0 4
        let key := P.scrypt passPoint (addressHash ++ ownerEntropy) 1024 1 1 64
        let dk1 ← slice key 0 32
        let dk2 ← slice key 32 key.length
        let s016 ← slice seedb 0 16
        let s16 ← slice seedb 16 seedb.length
        let k016 ← slice dk1 0 16
        let k16 ← slice dk1 16 dk1.length
        let x1 ← xorBytes s016 k016
        let e1 := P.aesEnc dk2 x1
        let e1tail ← slice e1 8 e1.length
        let e1head ← slice e1 0 8
        let x2 ← xorBytes (e1tail ++ s16) k16
        let e2 := P.aesEnc dk2 x2
        pure (Base58Check.encode P.cksum
          (prefixBytes true ++ [encodeFlagByte compressed true useLotSequence] ++ addressHash ++
            ownerEntropy ++ e1head ++ e2))

end BtcVerif.Model.Bip38
