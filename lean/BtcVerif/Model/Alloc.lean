/-
  C17: allocation-explicit versions of the wire decoders.

  `CParser α` is a reader that also returns the number of bytes allocated by `make`/`append` calls
  whose size is controlled by the input (slices of pointers, witness headers, scripts, witness items),
  charged *before* the subsequent read can fail, exactly where the Go code allocates. Fixed-size
  allocations per decoded object are charged as a constant per object (at the start of the object: an over-approximation on failing paths). The cost of the incremental
  reader `readBounded` (tx/witness.go, script/push.go) is an over-approximation of Go's
  append-doubling: at most 8 bytes per byte delivered, and at most two 64 KiB steps beyond the
  available input when the read fails.

  `erase_*` theorems show each instrumented decoder computes the same result as the plain decoder
  of Model/Tx.lean / Model/Block.lean, so the cost is that of the same control flow.
-/
import BtcVerif.Model.Block

namespace BtcVerif.Model
open BtcVerif BtcVerif.Parser
open BtcVerif.Gen.Guards

abbrev CParser (α : Type) := Bytes → Outcome (α × Bytes) × Nat

namespace CParser

@[inline] def ret {α} (a : α) : CParser α := fun s => (.ok (a, s), 0)

@[inline] def andThen {α β} (p : CParser α) (f : α → CParser β) : CParser β := fun s =>
  match p s with
  | (.ok (a, s'), c) => let r := f a s'; (r.1, c + r.2)
  | (.err, c) => (.err, c)
  | (.panic, c) => (.panic, c)

instance : Monad CParser where
  pure := CParser.ret
  bind := CParser.andThen

/-- a plain reader allocates nothing input-controlled -/
@[inline] def lift {α} (p : Parser α) : CParser α := fun s => (p s, 0)

@[inline] def fail {α} : CParser α := fun _ => (.err, 0)

/-- `buf := make([]byte, n); io.ReadFull(r, buf)`: `n` bytes are allocated whether or not they arrive -/
def allocRead (n : Nat) : CParser Bytes := fun s => (readN n s, n)

/-- `readBounded(r, n)`: grows with the data; see the header comment for the cost -/
def boundedRead (n : Nat) : CParser Bytes := fun s =>
  (readN n s, if n ≤ s.length then 8 * n else 8 * s.length + 131072)

/-- charge `n` bytes -/
def charge (n : Nat) : CParser Unit := fun s => (.ok ((), s), n)

theorem bind_def {α β} (p : CParser α) (f : α → CParser β) (s : Bytes) :
    (p >>= f) s = match p s with
      | (.ok (a, s'), c) => ((f a s').1, c + (f a s').2)
      | (.err, c) => (.err, c)
      | (.panic, c) => (.panic, c) := rfl

end CParser

open CParser

/-- per decoded object: the Go structs (`Input`+`PrevOut`, `Output`, `Tx`, …) -/
def objInput : Nat := 96
def objOutput : Nat := 48
def objTx : Nat := 160

def cdecTxIn : CParser TxIn := do
  charge objInput
  let p ← lift decPrevOut
  let n ← lift decVarint
  if tx_inputFromReader_0 n then fail else
  let s ← allocRead n
  let q ← lift (readLE 4)
  return ⟨p, s, q⟩

def cdecTxOut : CParser TxOut := do
  charge objOutput
  let v ← lift (readLE 8)
  let n ← lift decVarint
  if tx_outputFromReader_0 n then fail else
  let s ← allocRead n
  return ⟨v, s⟩

def cdecChunks : Nat → Nat → CParser (List Bytes)
  | 0, _ => pure []
  | k+1, size => do
    let n ← lift decVarint
    if tx_witnessFromReader_2 (chunkLength := n) (witnessSize := size) then fail else
    let c ← boundedRead n
    let cs ← cdecChunks k ((size + n) % 18446744073709551616)
    return c :: cs

/-- `make(Witness, nChunks)`: 24 bytes per slice header -/
def cdecWitness : CParser Witness := do
  let n ← lift decVarint
  if tx_witnessFromReader_0 n then fail else
  charge (24 * n)
  cdecChunks n 0

def creadMany {α} (p : CParser α) : Nat → CParser (List α)
  | 0 => pure []
  | k+1 => do
    let x ← p
    let xs ← creadMany p k
    return x :: xs

def cdecTx : CParser Tx := do
  charge objTx
  let version ← lift (readLE 4)
  let hasWitness ← lift sniffSegwit
  let nIn ← lift decVarint
  if tx_FromReader_1 nIn then fail else
  charge (8 * nIn)
  let ins ← creadMany cdecTxIn nIn
  let nOut ← lift decVarint
  if tx_FromReader_3 nOut then fail else
  charge (8 * nOut)
  let outs ← creadMany cdecTxOut nOut
  let wits ← (if tx_FromReader_5 hasWitness then (do
                charge (24 * nIn)
                let ws ← creadMany cdecWitness nIn
                return some ws)
              else pure none : CParser (Option (List Witness)))
  let lock ← lift (readLE 4)
  return ⟨version, ins, outs, wits, lock⟩

def cdecBlock : CParser Block := do
  let h ← lift decHeader
  let n ← lift decVarint
  if blocks_fromReader_0 n then fail else
  charge (8 * n)
  let txs ← creadMany cdecTx n
  return ⟨h, txs⟩

end BtcVerif.Model
