/-
  C19: a happens-before model of Go programs over shared locations, and the discipline table
  regenerated from the source (Gen/AccessTable.lean).

  Events of a trace are in their global (interleaved) order. Thread 0 is package initialisation:
  all of its events precede every other thread's (Go runs every `init` before `main` starts, and a
  `go` statement happens-before the goroutine's first event). Mutexes give the usual
  unlock → later-lock edges.
-/
namespace BtcVerif.Model.HB

/-- one row of the access table produced by the SSA summary -/
structure AccessRow where
  loc : Nat           -- id of the package-level variable or `rpc.Connection.<field>` (names: Gen.locNames)
  isWrite : Bool
  lazy : Bool         -- the write is of the form `if x.f == nil { x.f = … }` (possibly through calls)
  inInit : Bool       -- inside package initialisation
  guarded : Bool      -- between Lock and Unlock in the same basic block
  deriving Repr, DecidableEq

/-- the discipline for one location: (a) every write happens during initialisation, or (b) every
    post-initialisation access (read or write) is made under the mutex, or (c) the only
    post-initialisation writes are lazy initialisations and initialisation itself forces one (so
    that at run time the nil test fails for every later caller and only reads remain) -/
def locOk (rows : List AccessRow) (loc : Nat) : Bool :=
  let mine := rows.filter (fun r => r.loc == loc)
  mine.all (fun r => !r.isWrite || r.inInit) ||
  mine.all (fun r => r.inInit || r.guarded) ||
  (mine.all (fun r => !r.isWrite || r.inInit || r.lazy) && mine.any (fun r => r.isWrite && r.lazy && r.inInit))

def locs (rows : List AccessRow) : List Nat := (rows.map (·.loc)).eraseDups

/-- the whole table, minus the documented global mutation(s) the property excludes -/
def tableOk (rows : List AccessRow) (excluded : List Nat) : Bool :=
  ((locs rows).filter (fun l => !excluded.contains l)).all (locOk rows)

/-! ### the happens-before model -/

inductive Kind where
  | read | write | lock | unlock
  deriving DecidableEq, Repr

structure Event where
  tid : Nat
  kind : Kind
  obj : Nat          -- location id for read/write, mutex id for lock/unlock
  deriving DecidableEq, Repr

abbrev Trace := List Event

/-- direct happens-before edge from position `i` to position `j > i` -/
def edge (t : Trace) (i j : Nat) : Bool :=
  match t[i]?, t[j]? with
  | some a, some b =>
    decide (i < j) &&
      (a.tid == b.tid                                    -- program order
        || (a.tid == 0 && b.tid != 0)                    -- initialisation happens before everything else
        || (a.kind == .unlock && b.kind == .lock && a.obj == b.obj))  -- mutex hand-over
  | _, _ => false

/-- happens-before: the transitive closure of `edge` -/
inductive HB (t : Trace) : Nat → Nat → Prop where
  | step {i j} : edge t i j = true → HB t i j
  | trans {i j k} : HB t i j → HB t j k → HB t i k

def conflicting (a b : Event) : Bool :=
  (a.kind == .read || a.kind == .write) && (b.kind == .read || b.kind == .write) &&
  a.obj == b.obj && (a.kind == .write || b.kind == .write) && a.tid != b.tid

/-- a data race: two conflicting accesses by different threads, unordered by happens-before -/
def Race (t : Trace) : Prop :=
  ∃ (i j : Nat) (a b : Event), i < j ∧ t[i]? = some a ∧ t[j]? = some b ∧ conflicting a b = true ∧ ¬ HB t i j

/-- well-formed: initialisation (thread 0) is a prefix of the trace -/
def InitFirst (t : Trace) : Prop :=
  ∀ (i j : Nat) (a b : Event), i < j → t[i]? = some a → t[j]? = some b → b.tid = 0 → a.tid = 0

/-- the holder of mutex `m` after the first `n` events (`none` = free) -/
def holder (t : Trace) (m : Nat) : Nat → Option Nat
  | 0 => none
  | n+1 =>
    match t[n]? with
    | some e =>
      if e.obj = m ∧ e.kind = .lock then some e.tid
      else if e.obj = m ∧ e.kind = .unlock then none
      else holder t m n
    | none => holder t m n

/-- mutex semantics respected by the trace: lock only a free mutex, unlock only one's own -/
def MutexOk (t : Trace) : Prop :=
  ∀ (n : Nat) (e : Event), t[n]? = some e →
    (e.kind = .lock → holder t e.obj n = none) ∧
    (e.kind = .unlock → holder t e.obj n = some e.tid)

/-- location `x` is written only during initialisation -/
def InitOnly (t : Trace) (x : Nat) : Prop :=
  ∀ (i : Nat) (e : Event), t[i]? = some e → e.kind = .write → e.obj = x → e.tid = 0

/-- every post-initialisation access to `x` is made while holding mutex `m` -/
def GuardedBy (t : Trace) (x m : Nat) : Prop :=
  ∀ (i : Nat) (e : Event), t[i]? = some e → (e.kind = .read ∨ e.kind = .write) → e.obj = x → e.tid ≠ 0 →
    holder t m i = some e.tid

end BtcVerif.Model.HB
