/-
C18 — caller-owned buffers: Go's slice/append semantics over an explicit heap, the buffer-operation
IR that `/verif/extract` (bufir.go) regenerates from the SSA form of the repository on every run,
the trace semantics of that IR and the ownership checker evaluated by the kernel on the regenerated
IR (`BtcVerif.Gen.bufferProgs`, `BtcVerif.Props.C18.lib_safe`).  Core Lean only.

Memory model.  A heap is a list of byte arrays; an array's id is its index.  A slice is
`(arr, off, len, cap)` (cap counted from `off`, as in Go).  `goAppend` is Go's `append`: in place iff
`len + k ≤ cap` (then the bytes behind the visible window — the *spare capacity* — are overwritten),
otherwise a fresh array.

IR.  A *register* holds the set of byte slices a Go value may address (`Val := List Slice`): a
`[]byte` is one slice, a `[][]byte` / struct / interface / closure is the collection of the slices
reachable from it, a scalar is `[]`.  The extractor gives every pointer-carrying SSA value two
registers: `D` (the memory the value addresses directly) and `C` (the memory addressed by pointers
stored *in* that memory); a load is `derive xD [aC]`, a store `*a = v` is `store aD` followed by
`derive aC [aC, vD, vC]`.  Values (indices, byte values, bounds, branch decisions, loop counts) are not
part of the IR: the semantics takes them from a *trace*, and every theorem quantifies over all traces —
every order and repetition of the function's statements with every choice of dynamic data — which
over-approximates the executions of the Go function.
-/
namespace BtcVerif.Model.SliceHeap

structure Slice where
  arr : Nat
  off : Nat
  len : Nat
  cap : Nat
deriving DecidableEq, Repr

abbrev Val := List Slice
abbrev Heap := List (List UInt8)

/-! ## Go's slice operations -/

/-- write one byte (out of range: nothing happens — Go would have panicked before the write) -/
def writeAt (h : Heap) (a i : Nat) (b : UInt8) : Heap :=
  match h[a]? with
  | some bs => if i < bs.length then h.set a (bs.set i b) else h
  | none => h

def writeMany (h : Heap) (a i : Nat) : List UInt8 → Heap
  | [] => h
  | b :: bs => writeMany (writeAt h a i b) a (i + 1) bs

/-- the visible bytes of a slice -/
def readSlice (h : Heap) (s : Slice) : List UInt8 :=
  ((h[s.arr]?.getD []).drop s.off).take s.len

/-- a slice is well formed in a heap: its capacity window lies inside its array -/
def Slice.wf (h : Heap) (s : Slice) : Prop :=
  s.len ≤ s.cap ∧ ∃ bs, h[s.arr]? = some bs ∧ s.off + s.cap ≤ bs.length

/-- Go's `append(s, bs...)`: in place iff `len + k ≤ cap`, else a fresh array (growth policy: any
capacity ≥ the new length; here twice the length). -/
def goAppend (h : Heap) (s : Slice) (bs : List UInt8) : Heap × Slice :=
  if s.len + bs.length ≤ s.cap then
    (writeMany h s.arr (s.off + s.len) bs, { s with len := s.len + bs.length })
  else
    let data := readSlice h s ++ bs
    (h ++ [data ++ List.replicate data.length 0], ⟨h.length, 0, data.length, 2 * data.length⟩)

/-- `s[i] = b` -/
def goStore (h : Heap) (s : Slice) (i : Nat) (b : UInt8) : Heap :=
  if i < s.len then writeAt h s.arr (s.off + i) b else h

/-- `copy(dst, src)` (also `io.ReadFull(r, dst)`, `PutUint32(dst, …)`, `FillBytes(dst)`, …) -/
def goCopy (h : Heap) (dst : Slice) (src : List UInt8) : Heap :=
  writeMany h dst.arr dst.off (src.take dst.len)

/-- `s[lo:hi]` with `hi ≤ len(s)`: a sub-window of the visible window -/
def subWindow (t : Slice) (lo hi : Nat) : Option Slice :=
  if lo ≤ hi ∧ hi ≤ t.len then some ⟨t.arr, t.off + lo, hi - lo, t.cap - lo⟩ else none

/-- `s[lo:hi:hi]` with `hi ≤ len(s)`: the full-slice expression, capacity = length -/
def subCapped (t : Slice) (lo hi : Nat) : Option Slice :=
  if lo ≤ hi ∧ hi ≤ t.len then some ⟨t.arr, t.off + lo, hi - lo, hi - lo⟩ else none

/-- `s[lo:hi]` with `hi ≤ cap(s)`: may make spare capacity visible -/
def subBeyond (t : Slice) (lo hi : Nat) : Option Slice :=
  if lo ≤ hi ∧ hi ≤ t.cap then some ⟨t.arr, t.off + lo, hi - lo, t.cap - lo⟩ else none

/-! ## The buffer-operation IR -/

inductive Stmt where
  /-- `x := make(…)`, a literal, a conversion, the result of a pure external call: a fresh array -/
  | alloc (x : Nat)
  /-- `x :=` sub-windows of slices held by the `ys` (reslice within `len`, element / field address,
      load, `Phi`, `ChangeType`, boxing, container contents …) -/
  | derive (x : Nat) (ys : List Nat)
  /-- `x := y[lo:hi:hi]` -/
  | capped (x : Nat) (y : Nat)
  /-- `x := y[lo:hi]` where `hi ≤ len(y)` is not established: may read spare capacity -/
  | beyond (x : Nat) (y : Nat)
  /-- `x := append(y, …)` (also `hash.Hash.Sum(y)`, `(*big.Int).Append`, `strconv.AppendInt`, …) -/
  | append (x : Nat) (y : Nat)
  /-- `x[i] = v` (a store through an element / field address inside the memory `x` addresses) -/
  | store (x : Nat)
  /-- `copy(x, …)`, `io.ReadFull(r, x)`, `binary.*.PutUint32(x, …)`, `(*big.Int).FillBytes(x)`, … -/
  | copyInto (x : Nat)
  /-- an unknown callee received the `xs`: it may write anywhere in their capacity windows -/
  | havoc (xs : List Nat)
  /-- `(xd, xc) := g(args)` — `g` is an index into the program -/
  | call (xd xc : Nat) (g : Nat) (args : List Nat)
  /-- `return`: the memory the results address directly (`ds`) / through stored pointers (`cs`) -/
  | ret (ds cs : List Nat)
deriving Repr

structure FuncIR where
  name : String
  /-- exported function or method (callable by users of the library) -/
  api : Bool
  /-- on the documented in-place allow-list -/
  allow : Bool
  /-- registers `0 … nparams-1` are the parameters (two per Go parameter: D and C) -/
  nparams : Nat
  /-- the parameter registers that may hold caller-owned byte-slice memory of some API call; the other
      parameters are projected away (the checker makes sure that only untagged memory is passed to them) -/
  tracked : List Nat
  /-- the parameter registers that are caller-owned byte slices (the subject of the property) -/
  guarded : List Nat
  /-- `tags[r]`: the parameters register `r` may point into (`[]` = fresh memory only) -/
  tags : List (List Nat)
  /-- registers all of whose slices have `cap = len` -/
  cappedRegs : List Nat
  /-- summary: parameters whose memory the function may write or whose spare capacity it may read -/
  touches : List Nat
  /-- summary: parameters the results may alias -/
  retD : List Nat
  retC : List Nat
  body : List Stmt
deriving Repr

def tagOf (f : FuncIR) (r : Nat) : List Nat := f.tags.getD r []

def subset (a b : List Nat) : Bool := a.all (fun x => b.contains x)

/-- the ownership checker for one statement, given the whole program (callee summaries) -/
def stmtOk (prog : List FuncIR) (f : FuncIR) : Stmt → Bool
  | .alloc x => !f.cappedRegs.contains x
  | .derive x ys => !f.cappedRegs.contains x && ys.all (fun y => subset (tagOf f y) (tagOf f x))
  | .capped x y => subset (tagOf f y) (tagOf f x)
  | .beyond x y => !f.cappedRegs.contains x && subset (tagOf f y) (tagOf f x) && subset (tagOf f y) f.touches
  | .append x y =>
      !f.cappedRegs.contains x && subset (tagOf f y) (tagOf f x) &&
      (f.cappedRegs.contains y || subset (tagOf f y) f.touches)
  | .store x => subset (tagOf f x) f.touches
  | .copyInto x => subset (tagOf f x) f.touches
  | .havoc xs => xs.all (fun x => subset (tagOf f x) f.touches)
  | .call xd xc g args =>
      match prog[g]? with
      | none => false
      | some gf =>
          !f.cappedRegs.contains xd && !f.cappedRegs.contains xc &&
          -- only untagged (fresh) memory is passed to a parameter the callee does not track
          (List.range args.length).all (fun p => gf.tracked.contains p || match args[p]? with
            | some a => (tagOf f a).isEmpty | none => true) &&
          gf.touches.all (fun j => match args[j]? with
            | some a => subset (tagOf f a) f.touches | none => true) &&
          gf.retD.all (fun j => match args[j]? with
            | some a => subset (tagOf f a) (tagOf f xd) | none => true) &&
          gf.retC.all (fun j => match args[j]? with
            | some a => subset (tagOf f a) (tagOf f xc) | none => true)
  | .ret ds cs => ds.all (fun x => subset (tagOf f x) f.retD) && cs.all (fun x => subset (tagOf f x) f.retC)

/-- a tracked parameter register carries (at least) its own tag and is not declared capped -/
def paramsOk (f : FuncIR) : Bool :=
  f.tracked.all (fun r => (tagOf f r).contains r && !f.cappedRegs.contains r)

/-- the function's body is consistent with its tags and its summary -/
def bodyOk (prog : List FuncIR) (f : FuncIR) : Bool :=
  paramsOk f && f.body.all (stmtOk prog f)

/-- the ownership check: consistent, and an exported function touches none of its caller-owned slices -/
def check (prog : List FuncIR) (f : FuncIR) : Bool :=
  bodyOk prog f && (!f.api || f.guarded.all (fun j => !f.touches.contains j))

/-! ## Trace semantics -/

/-- one executed statement: its index in the body, the dynamic numbers and bytes it uses, and (for a
call) the callee's trace -/
inductive Trace where
  | done
  | ev (idx : Nat) (ns : List Nat) (bs : List UInt8) (sub : Trace) (rest : Trace)

abbrev Env := Nat → Val

def upd (env : Env) (r : Nat) (v : Val) : Env := fun k => if k = r then v else env k

/-- the slices selected by the dynamic numbers, three per selection: source index, lo, hi -/
def picks (mk : Slice → Nat → Nat → Option Slice) (srcs : List Slice) : List Nat → List Slice
  | i :: lo :: hi :: rest =>
      (match srcs[i]? with
       | some t => (match mk t lo hi with | some s => [s] | none => [])
       | none => []) ++ picks mk srcs rest
  | _ => []

/-- the callee's initial registers: its tracked parameters are the caller's argument registers -/
def argEnv (tracked : List Nat) (env : Env) (args : List Nat) : Env :=
  fun r => if tracked.contains r then (match args[r]? with | some a => env a | none => []) else []

/-- one statement other than `call` / `ret`, with its dynamic numbers `ns` and bytes `bs` -/
def stepSimple (st : Stmt) (ns : List Nat) (bs : List UInt8) (h : Heap) (env : Env) : Heap × Env :=
  match st with
  | .alloc x =>
      (h ++ [bs ++ List.replicate (ns.headD 0) 0],
       upd env x [⟨h.length, 0, bs.length, bs.length + ns.headD 0⟩])
  | .derive x ys => (h, upd env x (picks subWindow (ys.flatMap env) ns))
  | .capped x y => (h, upd env x (picks subCapped (env y) ns))
  | .beyond x y => (h, upd env x (picks subBeyond (env y) ns))
  | .append x y =>
      match (env y)[ns.headD 0]? with
      | none => (h, env)
      | some t => ((goAppend h t bs).1, upd env x [(goAppend h t bs).2])
  | .store x =>
      match (env x)[ns.headD 0]? with
      | none => (h, env)
      | some t => (goStore h t (ns.tail.headD 0) (bs.headD 0), env)
  | .copyInto x =>
      match (env x)[ns.headD 0]? with
      | none => (h, env)
      | some t => (goCopy h t bs, env)
  | .havoc xs =>
      match (xs.flatMap env)[ns.headD 0]? with
      | none => (h, env)
      | some t =>
          if ns.tail.headD 0 < t.cap then
            (writeAt h t.arr (t.off + ns.tail.headD 0) (bs.headD 0), env)
          else (h, env)
  | .call _ _ _ _ => (h, env)
  | .ret _ _ => (h, env)

/-- run the statements named by the trace; the result is the final heap, the returned D / C memory and
the registers at the point where the execution stopped (every prefix of a trace is a trace, so a
statement about the final registers of all traces is a statement about every point of every execution) -/
def run (prog : List FuncIR) : Trace → FuncIR → Heap → Env → Heap × Val × Val × Env
  | .done, _, h, env => (h, [], [], env)
  | .ev idx ns bs sub rest, f, h, env =>
    match f.body[idx]? with
    | none => run prog rest f h env
    | some (.ret ds cs) => (h, ds.flatMap env, cs.flatMap env, env)
    | some (.call xd xc g args) =>
        match prog[g]? with
        | none => run prog rest f h env
        | some gf =>
            let r := run prog sub gf h (argEnv gf.tracked env args)
            run prog rest f r.1 (upd (upd env xd r.2.1) xc r.2.2.1)
    | some st => run prog rest f (stepSimple st ns bs h env).1 (stepSimple st ns bs h env).2

/-- a call of `f` from outside: `args r` is the memory parameter register `r` addresses -/
def runFn (prog : List FuncIR) (f : FuncIR) (t : Trace) (h : Heap) (args : Env) : Heap × Val × Val × Env :=
  run prog t f h (fun r => if f.tracked.contains r then args r else [])

end BtcVerif.Model.SliceHeap
