/-
  C03, "computing a signature hash never changes the transaction it is computed for": a model of
  `Tx.SignatureHashForInput` at the level where that statement lives — objects behind pointers.

  In Go a `*Tx` holds `[]*Input` and `[]*Output`. The legacy algorithm works on `tx.Clone()` and then
  ASSIGNS fields of the clone's objects (`vin.Script`, `vin.Sequence`, `tx.Outputs[i].Value`,
  `tx.Outputs[i].Script`, `tx.Inputs[nInput].Script`) and re-slices the clone's own `Inputs`/`Outputs`.
  It never writes the elements of a byte slice in place. So the heap is modelled object by object:
  an address is an index into an append-only list of input objects and one of output objects;
  allocation appends; a field assignment replaces the object at an address (an assignment through
  an address that holds no object is Go's nil dereference: the model leaves the heap alone there,
  the value-level model of Model/SigHash.lean says `panic`).

  The steps of `legacyRun` are, in order, the assignments that `Gen/Facts.lean` extracts from the
  source (`clone_structure_pinned` in Props/C03 pins that list and the calls of `Clone`).
-/
import BtcVerif.Model.Tx

namespace BtcVerif.Model.Heap
open BtcVerif BtcVerif.Model

abbrev Addr := Nat

structure Heap where
  ins : List TxIn      -- the `Input` objects (with their `PrevOut`), by address
  outs : List TxOut    -- the `Output` objects, by address
  deriving Repr

/-- a `*Tx`: the slices of pointers, as lists of addresses -/
structure TxObj where
  version : Nat
  inputs : List Addr
  outputs : List Addr
  hasWitnesses : Bool
  locktime : Nat
  deriving Repr

/-- `vin.Clone()` for every element of `tx.Inputs`: a fresh object per valid pointer (scripts and
    outpoints are copied by `make`+`copy`: they are values here); a nil pointer stays nil -/
def cloneIns (h : Heap) : List Addr → Heap × List Addr
  | [] => (h, [])
  | a :: as =>
    match h.ins[a]? with
    | some o =>
      let r := cloneIns { h with ins := h.ins ++ [o] } as
      (r.1, h.ins.length :: r.2)
    | none =>
      let r := cloneIns h as
      (r.1, a :: r.2)

def cloneOuts (h : Heap) : List Addr → Heap × List Addr
  | [] => (h, [])
  | a :: as =>
    match h.outs[a]? with
    | some o =>
      let r := cloneOuts { h with outs := h.outs ++ [o] } as
      (r.1, h.outs.length :: r.2)
    | none =>
      let r := cloneOuts h as
      (r.1, a :: r.2)

/-- what a copy that shares the `*Output` objects would do (the seeded change C03-B) -/
def cloneOutsShallow (h : Heap) (as : List Addr) : Heap × List Addr := (h, as)

def modIn (h : Heap) (a : Addr) (f : TxIn → TxIn) : Heap := { h with ins := h.ins.modify a f }
def modOut (h : Heap) (a : Addr) (f : TxOut → TxOut) : Heap := { h with outs := h.outs.modify a f }

/-- `for i, vin := range tx.Inputs { if i != nInput { vin.Script = []byte{}; if none||single { vin.Sequence = 0 } } }`
    (`i` is the index of the first element of the list) -/
def blankOthersFrom (nIn : Nat) (zeroSeq : Bool) : Heap → Nat → List Addr → Heap
  | h, _, [] => h
  | h, i, a :: as =>
    blankOthersFrom nIn zeroSeq
      (if i ≠ nIn then modIn h a (fun o => { o with script := [], sequence := if zeroSeq then 0 else o.sequence }) else h)
      (i + 1) as

def blankOthers (h : Heap) (as : List Addr) (nIn : Nat) (zeroSeq : Bool) : Heap :=
  blankOthersFrom nIn zeroSeq h 0 as

/-- `for i := 0; i < nInput; i++ { tx.Outputs[i].Value = 0xffff…; tx.Outputs[i].Script = []byte{} }` -/
def blankBefore (h : Heap) (as : List Addr) (nIn : Nat) : Heap :=
  (as.take nIn).foldl (fun h a => modOut h a (fun _ => { value := 0xffffffffffffffff, script := [] })) h

/-- `tx.Inputs[nInput].Script = sc` on the clone -/
def setScriptAt (h : Heap) (ins : List Addr) (nIn : Nat) (sc : Bytes) : Heap :=
  match ins[nIn]? with
  | some a => modIn h a (fun o => { o with script := sc })
  | Option.none => h

/-- the clone's `Outputs` after `tx.Outputs = tx.Outputs[0:0]` / `tx.Outputs[:nInput+1]` -/
def keptOuts (outs : List Addr) (nIn : Nat) (none single : Bool) : List Addr :=
  if none then [] else if single then outs.take (nIn + 1) else outs

/-- the object-level effect of `SignatureHashForInput` after the early return for `ONE` has not been
    taken and `StripOpCode` has succeeded with `sc`; `cloneO` is the way outputs are duplicated
    (`cloneOuts` in the library) -/
def legacyRunWith (cloneO : Heap → List Addr → Heap × List Addr)
    (h : Heap) (tx : TxObj) (nIn : Nat) (sc : Bytes) (none single acp : Bool) : Heap × TxObj :=
  let c1 := cloneIns h tx.inputs                 -- tx = tx.Clone(); tx.Witnesses = nil
  let c2 := cloneO c1.1 tx.outputs
  let h3 := setScriptAt c2.1 c1.2 nIn sc
  let h4 := if acp then h3 else blankOthers h3 c1.2 nIn (none || single)
  let outs'' := keptOuts c2.2 nIn none single
  let h5 := if !none && single then blankBefore h4 outs'' nIn else h4
  (h5, { tx with inputs := if acp then (c1.2.drop nIn).take 1 else c1.2, outputs := outs'', hasWitnesses := false })

def legacyRun := legacyRunWith cloneOuts

def readAll {α} (f : Addr → Option α) : List Addr → Option (List α)
  | [] => some []
  | a :: as =>
    match f a, readAll f as with
    | some x, some xs => some (x :: xs)
    | _, _ => Option.none

/-- the transaction a `*Tx` denotes in a heap (`none` when a pointer is nil) -/
def readTx (h : Heap) (tx : TxObj) : Option (List TxIn × List TxOut) :=
  match readAll (fun a => h.ins[a]?) tx.inputs, readAll (fun a => h.outs[a]?) tx.outputs with
  | some is, some os => some (is, os)
  | _, _ => Option.none

end BtcVerif.Model.Heap
