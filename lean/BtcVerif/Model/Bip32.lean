/-
  Model of /repo/bip32 (C07): `bip32.go:18-27` (GenerateMasterKey), `derive_private.go:10-42`,
  `derive_public.go:14-55` (after the D16/D15 repair: the HMAC input is the fresh compressed
  serialisation of the parsed parent point), `encoding.go`, `key_fingerprint.go`.

  The curve operations the Go code obtains from `ekliptic` / `ecc` / `crypto/elliptic` and the two
  hash functions (`hmacSha512`, `bhash.Hash160`) are *parameters* of the model:
    * the `oracle` executable runs the model with `secp` (built from `Prim.Secp256k1`) and
      `Prim.hmacSha512` — an implementation independent of the Go dependencies;
    * the theorems (Proofs/Bip32.lean) are about an arbitrary `CurveOps` that satisfies the named
      hypotheses of `Proofs/GroupAbs.lean` and an ARBITRARY function in place of HMAC-SHA512.
  Boundary tests are the regenerated guards (`Gen.Guards`), constants come from `Gen.Constants`.
  Core Lean only.
-/
import BtcVerif.Model.Basic
import BtcVerif.Gen.Guards
import BtcVerif.Gen.Constants
import BtcVerif.Prim.Secp256k1

namespace BtcVerif.Model.Bip32
open BtcVerif BtcVerif.Gen BtcVerif.Gen.Guards

/-- The curve operations used by `bip32` and `taproot`, as a record over a type `P` of affine
    points *including* the point at infinity (`zero`; Go represents it as `(0, 0)`). -/
structure CurveOps (P : Type) where
  /-- group order `ekliptic.Secp256k1_CurveOrder` -/
  n : Nat
  /-- the point at infinity, `(0, 0)` in `ekliptic` -/
  zero : P
  /-- `ekliptic.AddAffine` / `Curve.Add` -/
  add : P → P → P
  /-- `ekliptic.MultiplyBasePoint k` for a scalar `k < 2^256` (no reduction of `k` happens in Go;
      the table walk computes `k·G` for every 256-bit `k`) -/
  mulG : Nat → P
  /-- `ecc.DeserializePoint`: 33-byte compressed, 65-byte uncompressed, 32-byte x-only (even y) -/
  parse : Bytes → Option P
  /-- `ecc.SerializePointCompressed` = `elliptic.MarshalCompressed` (33 bytes) -/
  compress : P → Bytes
  /-- `ecc.SerializePointUncompressed` = `elliptic.Marshal` (65 bytes) -/
  uncompress : P → Bytes
  /-- `x.FillBytes(make([]byte, 32))` -/
  xBytes : P → Bytes
  /-- `y.Bit(0) == 1` -/
  yOdd : P → Bool

/-- `ekliptic.IsValidScalar`: `0 < d < n` -/
def isValidScalar (n d : Nat) : Bool := decide (0 < d) && decide (d < n)

/-- `serialize32` (encoding.go): 4 bytes big-endian of a `uint32` -/
def ser32 (i : Nat) : Bytes := beBytes 4 i

/-- `l[:32], l[32:]` of an HMAC result (slicing below 32 bytes would panic; `hmac.Sum` always
    returns 64 bytes, which the theorems state as the hypothesis `HmacLen`). -/
def splitHmac (l : Bytes) : Outcome (Bytes × Bytes) :=
  if l.length < 32 then .panic else .ok (l.take 32, l.drop 32)

/-- `curve.ScalarBaseMult(k)`: `MultiplyBasePoint(new(big.Int).SetBytes(k))`; the precomputed-table
    walk starts with `k.FillBytes(make([]byte, 32))`, which panics for `k ≥ 2^256`
    (ekliptic `multiply.go`, `multiplyJacobiTable`). -/
def scalarBaseMult {P} (C : CurveOps P) (k : Nat) : Outcome P :=
  if k < 2 ^ 256 then .ok (C.mulG k) else .panic

/-- `v.FillBytes(make([]byte, 32))` -/
def fill32 (v : Nat) : Outcome Bytes :=
  if v < 2 ^ 256 then .ok (beBytes 32 v) else .panic

/-- the HMAC input prefix of `derivePrivateChild` (derive_private.go:11-18):
    `00 ‖ key as given` for a hardened index, the compressed public key otherwise -/
def ckdPrivData {P} (C : CurveOps P) (k : Bytes) (i : Nat) : Outcome Bytes :=
  if bip32_derivePrivateChild_0 (childIndex := i) then .ok ((0 : UInt8) :: k)
  else do
    let pt ← scalarBaseMult C (beNat k)
    pure (C.compress pt)

/-- `derivePrivateChild` (derive_private.go:10-32). No range check of the parent key, of `I_L`
    or of the child (the BIP32 "skip" cases are not detected by the code). -/
def ckdPriv {P} (C : CurveOps P) (hmac : Bytes → Bytes → Bytes) (k c : Bytes) (i : Nat) :
    Outcome (Bytes × Bytes) := do
  let data ← ckdPrivData C k i
  let l ← splitHmac (hmac c (data ++ ser32 i))
  let child ← fill32 ((beNat l.1 + beNat k) % C.n)
  pure (child, l.2)

/-- `derivePublicChild` (derive_public.go:14-41), repaired: HMAC over
    `SerializePointCompressed(parse(parent)) ‖ ser32(i)`. -/
def ckdPub {P} (C : CurveOps P) (hmac : Bytes → Bytes → Bytes) (K c : Bytes) (i : Nat) :
    Outcome (Bytes × Bytes) :=
  if bip32_derivePublicChild_0 (childIndex := i) then .err
  else match C.parse K with
    | none => .err
    | some pt => do
      let l ← splitHmac (hmac c (C.compress pt ++ ser32 i))
      let t ← scalarBaseMult C (beNat l.1)
      pure (C.compress (C.add t pt), l.2)

/-- `DerivePrivateChild` (derive_private.go:35-42) -/
def derivePriv {P} (C : CurveOps P) (hmac : Bytes → Bytes → Bytes) (k c : Bytes) :
    List Nat → Outcome (Bytes × Bytes)
  | [] => if bip32_DerivePrivateChild_0 (len_childIndices := 0) then .ok (k, c) else .panic
  | i :: rest =>
    if bip32_DerivePrivateChild_0 (len_childIndices := rest.length + 1) then .ok (k, c)
    else match ckdPriv C hmac k c i with
      | .ok r => derivePriv C hmac r.1 r.2 rest
      | .err => .err
      | .panic => .panic

/-- `DerivePublicChild` (derive_public.go:44-55); the empty path returns the parent *as given*
    (not validated, not re-encoded). -/
def derivePub {P} (C : CurveOps P) (hmac : Bytes → Bytes → Bytes) (K c : Bytes) :
    List Nat → Outcome (Bytes × Bytes)
  | [] => if bip32_DerivePublicChild_0 (len_childIndices := 0) then .ok (K, c) else .panic
  | i :: rest =>
    if bip32_DerivePublicChild_0 (len_childIndices := rest.length + 1) then .ok (K, c)
    else match ckdPub C hmac K c i with
      | .ok r => derivePub C hmac r.1 r.2 rest
      | .err => .err
      | .panic => .panic

/-- `[]byte(constants.BitcoinSeedIV)` -/
def seedIV : Bytes := constants_BitcoinSeedIV.toUTF8.toList

/-- `GenerateMasterKey` (bip32.go:18-27) -/
def masterKey (hmac : Bytes → Bytes → Bytes) (seed : Bytes) : Outcome (Bytes × Bytes) :=
  if bip32_GenerateMasterKey_0 (len_seed := seed.length) then .err
  else splitHmac (hmac seedIV seed)

/-- `ecc.IsCompressedPublicKey` (ecc/ecc.go): 33 bytes with prefix 02 or 03 -/
def isCompressedPublicKey : Bytes → Bool
  | [] => false
  | b :: rest => decide (rest.length + 1 = constants_PublicKeyCompressedLength) &&
      (decide (b.toNat = constants_PublicKeyCompressedEvenByte) ||
       decide (b.toNat = constants_PublicKeyCompressedOddByte))

/-- `KeyFingerprint` (key_fingerprint.go) -/
def keyFingerprint {P} (C : CurveOps P) (hash160 : Bytes → Bytes) (K : Bytes) : Outcome Bytes :=
  match C.parse K with
  | none => .err
  | some pt =>
    let K' := if bip32_KeyFingerprint_0 (isCompressedPublicKey K) then C.compress pt else K
    .ok ((hash160 K').take 4)

/-! ### the concrete instance: secp256k1 from `Prim` (independent of `ekliptic`) -/

open Prim.Secp256k1 in
/-- `elliptic.MarshalCompressed` lets the point at infinity `(0,0)` through
    (`panicIfNotOnCurve` returns early for it) and writes `02 ‖ 0^32`; `Marshal` writes
    `04 ‖ 0^64`. -/
def secp : CurveOps Prim.Secp256k1.Point where
  n := Prim.Secp256k1.n
  zero := none
  add := Prim.Secp256k1.add
  mulG k := Prim.Secp256k1.mul k Prim.Secp256k1.G
  parse bs := (parsePoint bs).map some
  compress
    | none => (0x02 : UInt8) :: List.replicate 32 0
    | some pt => serCompressed pt
  uncompress
    | none => (0x04 : UInt8) :: List.replicate 64 0
    | some pt => serUncompressed pt
  xBytes
    | none => List.replicate 32 0
    | some pt => serXOnly pt
  yOdd
    | none => false
    | some pt => pt.2 % 2 == 1

end BtcVerif.Model.Bip32
