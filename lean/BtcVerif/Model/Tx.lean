/-
  Model of the wire codec: tx/prevout.go, tx/input.go, tx/output.go, tx/witness.go, tx/tx.go.
  Limit checks are the regenerated guards (tie T2); the shapes follow the Go functions
  (cross-reference in DESIGN.md appendix E).
-/
import BtcVerif.Model.Varint

namespace BtcVerif.Model
open BtcVerif BtcVerif.Parser
open BtcVerif.Gen.Guards

structure PrevOut where
  hash : Bytes          -- 32 bytes, wire order
  index : Nat           -- uint32
  deriving Repr, DecidableEq, Inhabited

structure TxIn where
  prev : PrevOut
  script : Bytes
  sequence : Nat        -- uint32
  deriving Repr, DecidableEq, Inhabited

structure TxOut where
  value : Nat           -- uint64
  script : Bytes
  deriving Repr, DecidableEq, Inhabited

abbrev Witness := List Bytes

/-- `version` is the 32-bit pattern of Go's `int32`; `witnesses = none` is Go's nil slice. -/
structure Tx where
  version : Nat
  inputs : List TxIn
  outputs : List TxOut
  witnesses : Option (List Witness)
  locktime : Nat
  deriving Repr, DecidableEq, Inhabited

/-! ### encoders (`WriteTo`) -/

def encPrevOut (p : PrevOut) : Bytes := p.hash ++ leBytes 4 p.index

def encTxIn (i : TxIn) : Bytes :=
  encPrevOut i.prev ++ encVarint i.script.length ++ i.script ++ leBytes 4 i.sequence

def encTxOut (o : TxOut) : Bytes :=
  leBytes 8 o.value ++ encVarint o.script.length ++ o.script

def encChunk (c : Bytes) : Bytes := encVarint c.length ++ c

def encWitness (w : Witness) : Bytes :=
  encVarint w.length ++ (w.map encChunk).flatten

def encMany {α} (f : α → Bytes) (xs : List α) : Bytes := (xs.map f).flatten

def witLen (tx : Tx) : Nat := match tx.witnesses with | none => 0 | some ws => ws.length
def witList (tx : Tx) : List Witness := match tx.witnesses with | none => [] | some ws => ws

/-- `Tx.canSerialize` restricted to what the model can represent (no nil elements):
    a non-nil witness list must have one stack per input. -/
def canSerialize (tx : Tx) : Bool :=
  match tx.witnesses with
  | none => true
  | some ws => !(tx_Tx_canSerialize_4 (len_tx_Witnesses := ws.length) (len_tx_Inputs := tx.inputs.length))

def segwitFlag : Bytes := [0, 1]

/-- `Tx.serialize(buf, includeWitnesses)` -/
def encTx (tx : Tx) (includeWitnesses : Bool) : Outcome Bytes :=
  if !canSerialize tx then .err else
  .ok (leBytes 4 tx.version
    ++ (if tx_Tx_serialize_1 (len_tx_Inputs := tx.inputs.length) (includeWitnesses := includeWitnesses) (len_tx_Witnesses := witLen tx) then segwitFlag else [])
    ++ encVarint tx.inputs.length ++ encMany encTxIn tx.inputs
    ++ encVarint tx.outputs.length ++ encMany encTxOut tx.outputs
    ++ (if tx_Tx_serialize_2 (len_tx_Inputs := tx.inputs.length) (includeWitnesses := includeWitnesses) then encMany encWitness (witList tx) else [])
    ++ leBytes 4 tx.locktime)

/-! ### decoders (`FromReader`) -/

def decPrevOut : Parser PrevOut := do
  let h ← readN 32
  let i ← readLE 4
  return ⟨h, i⟩

/-- `inputFromReader` -/
def decTxIn : Parser TxIn := do
  let p ← decPrevOut
  let n ← decVarint
  if tx_inputFromReader_0 n then fail else
  let s ← readN n
  let q ← readLE 4
  return ⟨p, s, q⟩

/-- `outputFromReader` -/
def decTxOut : Parser TxOut := do
  let v ← readLE 8
  let n ← decVarint
  if tx_outputFromReader_0 n then fail else
  let s ← readN n
  return ⟨v, s⟩

/-- the loop of `witnessFromReader`: `k` chunks still to read, `size` bytes so far -/
def decChunks : Nat → Nat → Parser (List Bytes)
  | 0, _ => pure []
  | k+1, size => do
    let n ← decVarint
    if tx_witnessFromReader_2 (chunkLength := n) (witnessSize := size) then fail else
    let c ← readN n
    let cs ← decChunks k ((size + n) % 18446744073709551616)
    return c :: cs

/-- `witnessFromReader` -/
def decWitness : Parser Witness := do
  let n ← decVarint
  if tx_witnessFromReader_0 n then fail else
  decChunks n 0

def readMany {α} (p : Parser α) : Nat → Parser (List α)
  | 0 => pure []
  | k+1 => do
    let x ← p
    let xs ← readMany p k
    return x :: xs

/-- the two bytes after the version: `io.ReadFull(reader, witnessFlag[:])`, the comparison with
    `constants.TxSegwitFlag`, and `io.MultiReader(bytes.NewReader(witnessFlag[:]), reader)` pushing
    them back when they are not the flag -/
def sniffSegwit : Parser Bool := fun s =>
  match readN 2 s with
  | .ok (flag, rest) =>
    let hasWitness := decide (flag = segwitFlag)
    .ok (hasWitness, if tx_FromReader_0 hasWitness then flag ++ rest else rest)
  | .err => .err
  | .panic => .panic

/-- `tx.FromReader` -/
def decTx : Parser Tx := do
  let version ← readLE 4
  let hasWitness ← sniffSegwit
  let nIn ← decVarint
  if tx_FromReader_1 nIn then fail else
  let ins ← readMany decTxIn nIn
  let nOut ← decVarint
  if tx_FromReader_3 nOut then fail else
  let outs ← readMany decTxOut nOut
  let wits ← (if tx_FromReader_5 hasWitness then (do let ws ← readMany decWitness nIn; return some ws)
              else pure none : Parser (Option (List Witness)))
  let lock ← readLE 4
  return ⟨version, ins, outs, wits, lock⟩

/-! ### sizes (`Size`, `SizeNoWitness`, `WeightUnits`, `VSize`) -/

def sizeTxIn (i : TxIn) : Nat := 36 + 4 + i.script.length + varintSize i.script.length
def sizeTxOut (o : TxOut) : Nat := 8 + varintSize o.script.length + o.script.length
def sizeWitness (w : Witness) : Nat :=
  varintSize w.length + (w.map fun c => varintSize c.length + c.length).sum

/-- `Tx.size(includeWitnesses)` -/
def sizeTx (tx : Tx) (includeWitnesses : Bool) : Nat :=
  8 + (if tx_Tx_size_0 (len_tx_Inputs := tx.inputs.length) (includeWitnesses := includeWitnesses) (len_tx_Witnesses := witLen tx) then 2 else 0)
    + varintSize tx.inputs.length + (tx.inputs.map sizeTxIn).sum
    + varintSize tx.outputs.length + (tx.outputs.map sizeTxOut).sum
    + (if tx_Tx_size_1 (len_tx_Inputs := tx.inputs.length) (includeWitnesses := includeWitnesses) then ((witList tx).map sizeWitness).sum else 0)

/-- `Tx.WeightUnits` -/
def weightTx (tx : Tx) : Nat :=
  let legacy := sizeTx tx false
  let segwit := sizeTx tx true - legacy
  legacy * 4 + segwit

/-- `Tx.VSize`: `int(math.Ceil(float64(w)/4))`; exact for w < 2^53 (division by 4 is exact in
    binary floating point), so the model is integer ceiling division. -/
def vsizeTx (tx : Tx) : Nat := (weightTx tx + 3) / 4

/-! ### well-formedness: the domain of C01 -/

def WFPrevOut (p : PrevOut) : Prop := p.hash.length = 32 ∧ p.index < 2 ^ 32
def WFTxIn (i : TxIn) : Prop := WFPrevOut i.prev ∧ i.script.length ≤ 1000000 ∧ i.sequence < 2 ^ 32
def WFTxOut (o : TxOut) : Prop := o.value < 2 ^ 64 ∧ o.script.length ≤ 1000000
def witBytes (w : Witness) : Nat := (w.map List.length).sum
def WFWitness (w : Witness) : Prop := w.length ≤ 10000 ∧ witBytes w ≤ 0x20000000

def WFTx (tx : Tx) : Prop :=
  tx.version < 2 ^ 32 ∧ tx.locktime < 2 ^ 32 ∧
  1 ≤ tx.inputs.length ∧ tx.inputs.length ≤ 24390 ∧ tx.outputs.length ≤ 111111 ∧
  (∀ i ∈ tx.inputs, WFTxIn i) ∧ (∀ o ∈ tx.outputs, WFTxOut o) ∧
  (∀ ws, tx.witnesses = some ws → ws.length = tx.inputs.length ∧ ∀ w ∈ ws, WFWitness w)

end BtcVerif.Model
