/-
  The request-id counter of `rpc.Connection` (rpc/connection.go:75-80) as a state machine.

  `RequestSetResult` takes an id inside one critical section of `requestIDMutex`: it reads `conn.requestID`
  and adds one (the access table of `Gen/AccessTable.lean` shows one read and one write, both under the mutex;
  `Gen/Facts.lean` shows the only assignment is `conn.requestID += 1`).  The mutex makes the critical sections
  atomic and totally ordered, so an execution of any number of goroutines is a SEQUENCE of `take` steps.  A
  request that the node turns away ("Work queue depth exceeded") is retried by a recursive call: the same
  logical request takes again.  `tag` names the logical request.

  `stepBack` is the variant of seeded change C19-R6A, which hands the id back when the node refuses a request.
-/
namespace BtcVerif.Model.RpcIds

structure St where
  counter : Nat
  log : List (Nat × Nat)      -- ghost: (tag of the logical request, id it was given), oldest first
  deriving Repr, DecidableEq

/-- one critical section: `requestID := conn.requestID; conn.requestID += 1` -/
def take (s : St) (tag : Nat) : St := { counter := s.counter + 1, log := s.log ++ [(tag, s.counter)] }

def run (start : Nat) (tags : List Nat) : St := tags.foldl take { counter := start, log := [] }

inductive Op
  | take (tag : Nat)
  | refused           -- C19-R6A: `conn.requestID -= 1` after the node turned a request away
  deriving Repr, DecidableEq

def stepBack (s : St) : Op → St
  | .take tag => take s tag
  | .refused => { s with counter := s.counter - 1 }

def runBack (start : Nat) (ops : List Op) : St := ops.foldl stepBack { counter := start, log := [] }

end BtcVerif.Model.RpcIds
