/-
  C03 — signature hashes equal the consensus digests (legacy and BIP143).
  Theorems are about *preimages* (what is double-hashed), so no assumption on SHA-256 is needed; `H`
  is an arbitrary function. The script code after removal of stand-alone OP_CODESEPARATORs is `sc`;
  that `stripOpCode script 0xab = ok sc` implies `sc = Spec.removeStandalone script 0xab` (every
  other byte preserved, pushes in any encoding copied verbatim) is C12's theorem `strip_spec`.
  Non-mutation of the caller's transaction: in the functional model the transaction is an immutable
  value, so the statement lives in the pointer-level model Model/Heap.lean (frame and refinement
  theorems at the end of this file); on the Go side every case compares a deep snapshot before/after.
-/
import BtcVerif.Props.GuardPins.P_bhash
import BtcVerif.Props.GuardPins.P_script
import BtcVerif.Props.GuardPins.P_tx
import BtcVerif.Proofs.HeapSigHash
import BtcVerif.Proofs.SigHash
import BtcVerif.Gen.Facts

namespace BtcVerif.Props.C03
open BtcVerif BtcVerif.Model

/-- SIGHASH_SINGLE with no matching output: the constant 01 followed by 31 zero bytes -/
theorem legacy_single_oob (H : Bytes → Bytes) (tx : Tx) (nIn : Nat) (script : Bytes) (ht : Nat)
    (hs : ht &&& 0x1f = 3) (ho : tx.outputs.length ≤ nIn) :
    legacyDigest H tx nIn script ht = .ok (1 :: List.replicate 31 0) :=
  legacy_single_out_of_range H tx nIn script ht hs ho

/-- legacy: the hashed preimage is the consensus preimage, for every transaction, in-range index,
    parseable script code and every 32-bit hash type -/
theorem legacy_preimage_eq (tx : Tx) (nIn : Nat) (script sc : Bytes) (ht : Nat)
    (hn : nIn < tx.inputs.length) (hone : Spec.legacyIsOne tx nIn ht = false)
    (hsc : stripOpCode script opCodeSeparator = .ok sc) :
    legacyPre tx nIn script ht = .ok (.preimage (Spec.legacyPreimage tx nIn sc ht)) :=
  legacyPre_eq_spec tx nIn script sc ht hn hone hsc

/-- hence the digest is `H` of the consensus preimage -/
theorem legacy_digest_eq (H : Bytes → Bytes) (tx : Tx) (nIn : Nat) (script sc : Bytes) (ht : Nat)
    (hn : nIn < tx.inputs.length) (hone : Spec.legacyIsOne tx nIn ht = false)
    (hsc : stripOpCode script opCodeSeparator = .ok sc) :
    legacyDigest H tx nIn script ht = .ok (H (Spec.legacyPreimage tx nIn sc ht)) := by
  unfold legacyDigest
  rw [legacyPre_eq_spec tx nIn script sc ht hn hone hsc]

/-- the legacy function may refuse, but only when the script code cannot be parsed … -/
theorem legacy_refuses_only_unparseable (tx : Tx) (nIn : Nat) (script : Bytes) (ht : Nat)
    (h : legacyPre tx nIn script ht = .err) : stripOpCode script opCodeSeparator = .err :=
  legacyPre_err_only_unparseable tx nIn script ht h

/-- … and it does not panic on an in-range index unless stripping itself does (C12/C17 show it
    does not) -/
theorem legacy_no_panic_of_strip (tx : Tx) (nIn : Nat) (script : Bytes) (ht : Nat)
    (hn : nIn < tx.inputs.length) (h : legacyPre tx nIn script ht = .panic) :
    stripOpCode script opCodeSeparator = .panic :=
  legacyPre_panic_only_strip tx nIn script ht hn h

/-- BIP143: the ten-field preimage for every 32-bit hash type and every amount -/
theorem bip143_preimage_eq (H : Bytes → Bytes) (tx : Tx) (nIn : Nat) (script : Bytes) (ht amount : Nat)
    (hn : nIn < tx.inputs.length) :
    bip143Pre H tx nIn script ht amount
      = .ok (Spec.bip143Preimage H tx tx.inputs[nIn] nIn script ht amount) :=
  bip143Pre_eq_spec H tx nIn script ht amount hn

/-- **non-mutation, structural part** (tie T1-style: `Gen/Facts.lean` is regenerated from the source on
    every run). The legacy function's first action is `tx = tx.Clone()`; every assignment it makes goes
    through that clone: to the clone's own fields, to `Script`/`Sequence` of the clone's inputs and to
    `Value`/`Script` of the clone's outputs; `Clone` copies element by element with `vin.Clone()`,
    `vout.Clone()`, `witness.Clone()`, which copy the scripts (`make` + `copy`) and the outpoint — i.e. the
    clone is deep at exactly the depth of the writes; the BIP143 function assigns nothing. A change that
    makes the working copy shallower, or adds a write elsewhere, breaks this obligation (and the Go-side
    deep snapshot comparison finds the input). -/
theorem clone_structure_pinned :
    -- the first statement rebinds `tx` to the clone: every later assignment through `tx` is to the copy
    Gen.Facts.tx_Tx_SignatureHashForInput_first = "tx = tx.Clone()" ∧
    Gen.Facts.tx_Tx_SignatureHashForInput_calls.head? = some "tx.Clone" ∧
    Gen.Facts.tx_Tx_SignatureHashForInput_assigns.all (fun a =>
      ["tx.Witnesses", "hashed[0]", "tx.Inputs[nInput].Script", "tx.Inputs", "vin.Script", "vin.Sequence",
       "tx.Outputs", "tx.Outputs[i].Value", "tx.Outputs[i].Script"].contains a) = true ∧
    (["vin.Clone", "vout.Clone", "witness.Clone"].all Gen.Facts.tx_Tx_Clone_calls.contains) = true ∧
    (["clone.Inputs[i]", "clone.Outputs[i]", "clone.Witnesses[i]"].all Gen.Facts.tx_Tx_Clone_assigns.contains) = true ∧
    (["i.PrevOut.Clone", "make", "copy"].all Gen.Facts.tx_Input_Clone_calls.contains) = true ∧
    (["make", "copy"].all Gen.Facts.tx_Output_Clone_calls.contains) = true ∧
    (["make", "copy"].all Gen.Facts.tx_Witness_Clone_calls.contains) = true ∧
    Gen.Facts.tx_Tx_SignatureHashForWitnessInput_assigns = [] := by decide

/-! ### the transaction is never changed: the pointer-level model (Model/Heap.lean)

  `clone_structure_pinned` above pins, from the source, which fields `SignatureHashForInput` assigns
  and that `Clone` duplicates every input, output and witness object. `Model.Heap.legacyRun` performs
  exactly those assignments on a heap of objects behind addresses. The theorems below say that no
  object that existed before the call is changed by it — for every heap, transaction, index, script
  code and flag combination, nil pointers and aliased pointers (two inputs sharing one object)
  included — and that the depth of the copy is what makes this true. -/

open BtcVerif.Model.Heap in
/-- frame: every pre-existing input and output object is unchanged -/
theorem legacy_never_changes_existing_objects (h : Heap) (tx : TxObj) (nIn : Nat) (sc : Bytes)
    (none single acp : Bool) :
    (∀ a, a < h.ins.length → (legacyRun h tx nIn sc none single acp).1.ins[a]? = h.ins[a]?) ∧
    (∀ a, a < h.outs.length → (legacyRun h tx nIn sc none single acp).1.outs[a]? = h.outs[a]?) :=
  legacyRun_frame h tx nIn sc none single acp

open BtcVerif.Model.Heap in
/-- the transaction the caller's pointer denotes is the same before and after -/
theorem legacy_never_changes_the_transaction (h : Heap) (tx : TxObj) (nIn : Nat) (sc : Bytes)
    (none single acp : Bool)
    (hin : ∀ a ∈ tx.inputs, a < h.ins.length) (hout : ∀ a ∈ tx.outputs, a < h.outs.length) :
    readTx (legacyRun h tx nIn sc none single acp).1 tx = readTx h tx :=
  legacyRun_readTx h tx nIn sc none single acp hin hout

open BtcVerif.Model.Heap in
/-- the depth of the copy is necessary: sharing the output objects (seeded change C03-B) lets
    SIGHASH_SINGLE overwrite the caller's outputs -/
theorem legacy_shallow_copy_changes_the_transaction :
    ∃ (h : Heap) (tx : TxObj),
      (legacyRunWith cloneOutsShallow h tx 1 [] false true false).1.outs[0]? ≠ h.outs[0]? :=
  shallow_clone_breaks_frame

open BtcVerif.Model.Heap in
/-- refinement: read back through its pointers, the working copy after the surgery is the modified
    transaction (script code installed, other inputs blanked or dropped, outputs dropped / cut / blanked) -/
theorem legacy_working_copy_is_modified_transaction (h : Heap) (tx : TxObj) (nIn : Nat) (sc : Bytes)
    (none single acp : Bool) (is : List TxIn) (os : List TxOut) (hr : readTx h tx = some (is, os)) :
    readTx (legacyRun h tx nIn sc none single acp).1 (legacyRun h tx nIn sc none single acp).2
      = some (insV is nIn sc (none || single) acp, outsV os nIn none single) :=
  legacyRun_refines h tx nIn sc none single acp is os hr

open BtcVerif.Model.Heap BtcVerif.Gen.Guards in
/-- … and that modified transaction is the one the value-level model serialises and hashes (the model
    of `legacy_preimage_eq`, which the correspondence runs against the code) -/
theorem legacy_model_hashes_the_working_copy (tx : Tx) (nIn : Nat) (script sc : Bytes) (ht : Nat) (vin : TxIn)
    (hone : tx_Tx_SignatureHashForInput_0 (nInput := nIn) (len_tx_Inputs := tx.inputs.length)
      (sigHashSingle := tx_Tx_SignatureHashForInput_asg1 ht) (len_tx_Outputs := tx.outputs.length) = false)
    (hs : stripOpCode script opCodeSeparator = .ok sc) (hv : tx.inputs[nIn]? = some vin) :
    legacyPre tx nIn script ht =
      (match encTx { tx with
          inputs := insV tx.inputs nIn sc (tx_Tx_SignatureHashForInput_asg0 ht || tx_Tx_SignatureHashForInput_asg1 ht)
                      (tx_Tx_SignatureHashForInput_asg2 ht),
          outputs := outsV tx.outputs nIn (tx_Tx_SignatureHashForInput_asg0 ht) (tx_Tx_SignatureHashForInput_asg1 ht),
          witnesses := Option.none } false with
       | .ok bs => .ok (.preimage (bs ++ leBytes 4 ht))
       | .err => .err
       | .panic => .panic) :=
  legacyPre_uses_surgery tx nIn script sc ht vin hone hs hv

/-- non-vacuity: two inputs that share one object, one nil output pointer -/
example : (Model.Heap.legacyRun ⟨[default], [⟨1, []⟩]⟩ ⟨1, [0, 0], [0, 7], false, 0⟩ 1 [0x51] false true false).1.ins.length = 3 := by
  decide

/-! non-vacuity: SIGHASH_SINGLE|ANYONECANPAY on input 1 of a two-input, two-output transaction -/
example : Spec.legacyIsOne ⟨1, [default, default], [default, default], none, 0⟩ 1 0x83 = false := by decide
example : Spec.legacyIsOne ⟨1, [default, default], [default], none, 0⟩ 1 0x83 = true := by decide

end BtcVerif.Props.C03
