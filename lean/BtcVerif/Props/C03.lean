/-
  C03 — signature hashes equal the consensus digests (legacy and BIP143).
  Theorems are about *preimages* (what is double-hashed), so no assumption on SHA-256 is needed; `H`
  is an arbitrary function. The script code after removal of stand-alone OP_CODESEPARATORs is `sc`;
  that `stripOpCode script 0xab = ok sc` implies `sc = Spec.removeStandalone script 0xab` (every
  other byte preserved, pushes in any encoding copied verbatim) is C12's theorem `strip_spec`.
  Non-mutation of the caller's transaction is checked on the Go side on every case (deep snapshot
  before/after) and by C18; in the functional model the transaction is an immutable value.
-/
import BtcVerif.Proofs.SigHash
import BtcVerif.Gen.Facts

namespace BtcVerif.Props.C03
open BtcVerif BtcVerif.Model

/-- SIGHASH_SINGLE with no matching output: the constant 01 followed by 31 zero bytes -/
theorem legacy_single_oob (H : Bytes → Bytes) (tx : Tx) (nIn : Nat) (script : Bytes) (ht : Nat)
    (hs : ht &&& 0x1f = 3) (ho : tx.outputs.length ≤ nIn) :
    legacyDigest H tx nIn script ht = .ok (1 :: List.replicate 31 0) :=
  legacy_single_out_of_range H tx nIn script ht hs ho

/-- legacy: the hashed preimage is the consensus preimage, for every transaction, in-range index,
    parseable script code and every 32-bit hash type -/
theorem legacy_preimage_eq (tx : Tx) (nIn : Nat) (script sc : Bytes) (ht : Nat)
    (hn : nIn < tx.inputs.length) (hone : Spec.legacyIsOne tx nIn ht = false)
    (hsc : stripOpCode script opCodeSeparator = .ok sc) :
    legacyPre tx nIn script ht = .ok (.preimage (Spec.legacyPreimage tx nIn sc ht)) :=
  legacyPre_eq_spec tx nIn script sc ht hn hone hsc

/-- hence the digest is `H` of the consensus preimage -/
theorem legacy_digest_eq (H : Bytes → Bytes) (tx : Tx) (nIn : Nat) (script sc : Bytes) (ht : Nat)
    (hn : nIn < tx.inputs.length) (hone : Spec.legacyIsOne tx nIn ht = false)
    (hsc : stripOpCode script opCodeSeparator = .ok sc) :
    legacyDigest H tx nIn script ht = .ok (H (Spec.legacyPreimage tx nIn sc ht)) := by
  unfold legacyDigest
  rw [legacyPre_eq_spec tx nIn script sc ht hn hone hsc]

/-- the legacy function may refuse, but only when the script code cannot be parsed … -/
theorem legacy_refuses_only_unparseable (tx : Tx) (nIn : Nat) (script : Bytes) (ht : Nat)
    (h : legacyPre tx nIn script ht = .err) : stripOpCode script opCodeSeparator = .err :=
  legacyPre_err_only_unparseable tx nIn script ht h

/-- … and it does not panic on an in-range index unless stripping itself does (C12/C17 show it
    does not) -/
theorem legacy_no_panic_of_strip (tx : Tx) (nIn : Nat) (script : Bytes) (ht : Nat)
    (hn : nIn < tx.inputs.length) (h : legacyPre tx nIn script ht = .panic) :
    stripOpCode script opCodeSeparator = .panic :=
  legacyPre_panic_only_strip tx nIn script ht hn h

/-- BIP143: the ten-field preimage for every 32-bit hash type and every amount -/
theorem bip143_preimage_eq (H : Bytes → Bytes) (tx : Tx) (nIn : Nat) (script : Bytes) (ht amount : Nat)
    (hn : nIn < tx.inputs.length) :
    bip143Pre H tx nIn script ht amount
      = .ok (Spec.bip143Preimage H tx tx.inputs[nIn] nIn script ht amount) :=
  bip143Pre_eq_spec H tx nIn script ht amount hn

/-- **non-mutation, structural part** (tie T1-style: `Gen/Facts.lean` is regenerated from the source on
    every run). The legacy function's first action is `tx = tx.Clone()`; every assignment it makes goes
    through that clone: to the clone's own fields, to `Script`/`Sequence` of the clone's inputs and to
    `Value`/`Script` of the clone's outputs; `Clone` copies element by element with `vin.Clone()`,
    `vout.Clone()`, `witness.Clone()`, which copy the scripts (`make` + `copy`) and the outpoint — i.e. the
    clone is deep at exactly the depth of the writes; the BIP143 function assigns nothing. A change that
    makes the working copy shallower, or adds a write elsewhere, breaks this obligation (and the Go-side
    deep snapshot comparison finds the input). -/
theorem clone_structure_pinned :
    Gen.Facts.tx_Tx_SignatureHashForInput_calls.head? = some "tx.Clone" ∧
    Gen.Facts.tx_Tx_SignatureHashForInput_assigns.all (fun a =>
      ["tx.Witnesses", "hashed[0]", "tx.Inputs[nInput].Script", "tx.Inputs", "vin.Script", "vin.Sequence",
       "tx.Outputs", "tx.Outputs[i].Value", "tx.Outputs[i].Script"].contains a) = true ∧
    (["vin.Clone", "vout.Clone", "witness.Clone"].all Gen.Facts.tx_Tx_Clone_calls.contains) = true ∧
    (["clone.Inputs[i]", "clone.Outputs[i]", "clone.Witnesses[i]"].all Gen.Facts.tx_Tx_Clone_assigns.contains) = true ∧
    (["i.PrevOut.Clone", "make", "copy"].all Gen.Facts.tx_Input_Clone_calls.contains) = true ∧
    (["make", "copy"].all Gen.Facts.tx_Output_Clone_calls.contains) = true ∧
    (["make", "copy"].all Gen.Facts.tx_Witness_Clone_calls.contains) = true ∧
    Gen.Facts.tx_Tx_SignatureHashForWitnessInput_assigns = [] := by decide

/-! non-vacuity: SIGHASH_SINGLE|ANYONECANPAY on input 1 of a two-input, two-output transaction -/
example : Spec.legacyIsOne ⟨1, [default, default], [default, default], none, 0⟩ 1 0x83 = false := by decide
example : Spec.legacyIsOne ⟨1, [default, default], [default], none, 0⟩ 1 0x83 = true := by decide

end BtcVerif.Props.C03
